package e2e

import (
	"fmt"
	"sort"
	"time"

	"verifharness/lib"
)

type HistOpts struct {
	Gen       GenOpts
	Steps     int
	Cache     string // "" none | "dir" | "dircompress"
	Threads   int
	CleanRef  bool // run a clean build of the same tree after every step (the C01 oracle)
	RmPlzOut  bool // some steps delete plz-out instead of editing
	Revert    bool // some steps go back to an earlier state of the tree
	EnvChange bool // some steps change the caller's environment instead of the tree
}

type Step struct {
	Index     int                         `json:"index"`
	Edit      Edit                        `json:"edit"`
	Spec      *Spec                       `json:"spec"`
	Order     []string                    `json:"order"`
	Requested []string                    `json:"requested"`
	Exit      int                         `json:"exit"`
	Executed  []string                    `json:"executed"`
	Outputs   map[string]map[string]*Node `json:"-"`
	OutStr    map[string]string           `json:"outputs"`
	CleanExit int                         `json:"clean_exit"`
	Clean     map[string]map[string]*Node `json:"-"`
	CleanStr  map[string]string           `json:"clean_outputs"`
	CleanExec []string                    `json:"clean_executed"`
	Stderr    string                      `json:"stderr,omitempty"`
	Env       []string                    `json:"env,omitempty"`
}

func outStr(m map[string]*Node) string {
	keys := make([]string, 0, len(m))
	for k := range m {
		keys = append(keys, k)
	}
	sort.Strings(keys)
	s := ""
	for _, k := range keys {
		s += k + "=" + m[k].String() + "; "
	}
	return s
}

// TargetOutputs reads the outputs of every requested target: declared outs, plus for output_dirs targets
// the files they are expected to discover (base names of their file sources).
func TargetOutputs(r *Repo, s *Spec, labels []string) map[string]map[string]*Node {
	out := map[string]map[string]*Node{}
	for _, l := range labels {
		m := r.Outputs(s, l)
		t := s.Target(l)
		if t != nil && t.Cmd.Op == "outdir" {
			pkg, _ := SplitLabel(l)
			gen := r.GenDir(pkg)
			for _, src := range t.Srcs {
				if n, ok := gen.Entries[src]; ok {
					m["_o/"+src] = n
				} else {
					m["_o/"+src] = &Node{Kind: "absent"}
				}
			}
		}
		out[l] = m
	}
	return out
}

// RunHistory generates a repository and an edit history and runs the real plz after every edit.
// The caller owns `base` (a scratch directory).
func RunHistory(r *lib.Rng, base string, o HistOpts) []Step {
	spec, order := GenSpec(r, o.Gen)
	repo := NewRepo(base, "repo")
	repo.Threads = o.Threads
	if o.Cache != "" {
		repo.CacheDir = base + "/cache"
		repo.Compress = o.Cache == "dircompress"
	}
	var steps []Step
	var past []*Spec
	var pastOrder [][]string
	env := append([]string{}, baseEnv...)
	env = append(env, "VERIF_A=a0", "VERIF_B=b0")
	for i := 0; i <= o.Steps; i++ {
		ed := Edit{"initial", ""}
		if i > 0 {
			switch {
			case o.RmPlzOut && r.Chance(1, 5):
				repo.RemovePlzOut()
				ed = Edit{"rm-plz-out", ""}
			case o.Revert && len(past) > 1 && r.Chance(1, 4):
				k := r.Intn(len(past) - 1)
				spec, order = past[k].Clone(), append([]string{}, pastOrder[k]...)
				ed = Edit{"revert", fmt.Sprintf("to state %d", k)}
			case o.EnvChange && r.Chance(1, 3):
				which := lib.Pick(r, []string{"VERIF_A", "VERIF_B", "VERIF_C"})
				ne := []string{}
				for _, e := range env {
					if len(e) <= len(which) || e[:len(which)+1] != which+"=" {
						ne = append(ne, e)
					}
				}
				env = append(ne, fmt.Sprintf("%s=v%d", which, i))
				ed = Edit{"env", fmt.Sprintf("%s=v%d", which, i)}
			default:
				ed = ApplyRandomEdit(r, spec, &order, o.Gen, i)
			}
		}
		past = append(past, spec.Clone())
		pastOrder = append(pastOrder, append([]string{}, order...))
		repo.Env = env
		repo.Write(spec)
		req := spec.Labels()
		res := repo.Run(60*time.Second, append([]string{"build"}, req...)...)
		st := Step{Index: i, Edit: ed, Spec: spec.Clone(), Order: append([]string{}, order...), Requested: req,
			Exit: res.Exit, Executed: res.Executed, Env: append([]string{}, env...)}
		st.Outputs = TargetOutputs(repo, spec, req)
		st.OutStr = map[string]string{}
		for l, m := range st.Outputs {
			st.OutStr[l] = outStr(m)
		}
		if res.Exit != 0 {
			st.Stderr = tail(res.Stderr+res.Stdout, 1500)
		}
		if o.CleanRef {
			clean := repo.CleanCopy(base, "clean", spec)
			cres := clean.Run(60*time.Second, append([]string{"build"}, req...)...)
			st.CleanExit, st.CleanExec = cres.Exit, cres.Executed
			st.Clean = TargetOutputs(clean, spec, req)
			st.CleanStr = map[string]string{}
			for l, m := range st.Clean {
				st.CleanStr[l] = outStr(m)
			}
		}
		steps = append(steps, st)
	}
	return steps
}

func tail(s string, n int) string {
	if len(s) > n {
		return s[len(s)-n:]
	}
	return s
}
