// Package e2e drives the real plz binary (built from /repo) on generated repositories and edit
// histories. It is shared by the end-to-end properties (C01, C02, C03, C10, C11, C31, C32, C35, C04, C05).
package e2e

import (
	"bytes"
	"fmt"
	"os"
	"os/exec"
	"path/filepath"
	"sort"
	"strings"
	"syscall"
	"time"
)

// ---------------------------------------------------------------------------------------------
// Repository description

// A Cmd is a program in a small closed command language; every generated build command is one of
// these, so that its meaning is a simple function of its inputs (which the Coq model mirrors).
type Cmd struct {
	Op   string   `json:"op"`             // concat | copydir | listnames | const | envdump | fail | touchopt | catall | usetool
	Arg  string   `json:"arg,omitempty"`  // const: the text; fail: nothing; envdump: space separated variable names
	Args []string `json:"args,omitempty"` // copydir: (unused); listnames: labels whose output dirs are listed
}

type Target struct {
	Name     string            `json:"name"`
	Kind     string            `json:"kind"` // genrule | filegroup | text_file | gentest
	Srcs     []string          `json:"srcs,omitempty"`
	Deps     []string          `json:"deps,omitempty"`
	Tools    []string          `json:"tools,omitempty"` // genrule tools (labels); the op usetool reads them through $TOOLS
	ToolName string            `json:"tool_name,omitempty"` // when set the tools are declared in dict form: tools = {ToolName: Tools} ($TOOLS_<NAME>, op usentool)
	Outs     []string          `json:"outs,omitempty"`
	OutDirs  []string          `json:"out_dirs,omitempty"`
	Cmd      Cmd               `json:"cmd"`
	Env      map[string]string `json:"env,omitempty"`
	PassEnv  []string          `json:"pass_env,omitempty"`
	Labels   []string          `json:"labels,omitempty"`
	Hashes   []string          `json:"hashes,omitempty"`
	Binary   bool              `json:"binary,omitempty"`
	Content  string            `json:"content,omitempty"`  // text_file
	TestCmd  *Cmd              `json:"test_cmd,omitempty"` // gentest
	Data     []string          `json:"data,omitempty"`     // gentest
	Extra    string            `json:"extra,omitempty"`    // raw extra arguments, e.g. `optional_outs = ["x"],`
	Comment  string            `json:"comment,omitempty"`  // a BUILD-file comment: changes the file, not the target
	OutIsDir bool              `json:"out_is_dir,omitempty"` // the single declared out is a directory
	// OutGroups: when set the outs are declared in dict form, outs = {group: [...]}; Outs still lists ALL of them
	OutGroups map[string][]string `json:"out_groups,omitempty"`
}

type Pkg struct {
	Files   map[string]string `json:"files"` // path relative to the package -> content
	Targets []*Target         `json:"targets"`
}

type Spec struct {
	Pkgs   map[string]*Pkg `json:"pkgs"`
	Config []string        `json:"config,omitempty"` // extra .plzconfig lines (after the fixed header)
}

func (s *Spec) Clone() *Spec {
	out := &Spec{Pkgs: map[string]*Pkg{}, Config: append([]string{}, s.Config...)}
	for name, p := range s.Pkgs {
		np := &Pkg{Files: map[string]string{}}
		for k, v := range p.Files {
			np.Files[k] = v
		}
		for _, t := range p.Targets {
			c := *t
			c.Srcs = append([]string{}, t.Srcs...)
			c.Deps = append([]string{}, t.Deps...)
			if t.Tools != nil {
				c.Tools = append([]string{}, t.Tools...)
			}
			c.Outs = append([]string{}, t.Outs...)
			c.OutDirs = append([]string{}, t.OutDirs...)
			c.PassEnv = append([]string{}, t.PassEnv...)
			c.Labels = append([]string{}, t.Labels...)
			c.Hashes = append([]string{}, t.Hashes...)
			c.Data = append([]string{}, t.Data...)
			c.Cmd.Args = append([]string{}, t.Cmd.Args...)
			if t.OutGroups != nil {
				c.OutGroups = map[string][]string{}
				for k, v := range t.OutGroups {
					c.OutGroups[k] = append([]string{}, v...)
				}
			}
			if t.Env != nil {
				c.Env = map[string]string{}
				for k, v := range t.Env {
					c.Env[k] = v
				}
			}
			if t.TestCmd != nil {
				tc := *t.TestCmd
				c.TestCmd = &tc
			}
			np.Targets = append(np.Targets, &c)
		}
		out.Pkgs[name] = np
	}
	return out
}

func (s *Spec) Target(label string) *Target {
	pkg, name := SplitLabel(label)
	p := s.Pkgs[pkg]
	if p == nil {
		return nil
	}
	for _, t := range p.Targets {
		if t.Name == name {
			return t
		}
	}
	return nil
}

// Labels returns all target labels, sorted.
func (s *Spec) Labels() []string {
	var out []string
	for pn, p := range s.Pkgs {
		for _, t := range p.Targets {
			out = append(out, "//"+pn+":"+t.Name)
		}
	}
	sort.Strings(out)
	return out
}

func SplitLabel(l string) (pkg, name string) {
	l = strings.TrimPrefix(l, "//")
	i := strings.IndexByte(l, ':')
	return l[:i], l[i+1:]
}

// ---------------------------------------------------------------------------------------------
// Rendering

func pyStr(x string) string {
	var b strings.Builder
	b.WriteByte('"')
	for i := 0; i < len(x); i++ {
		switch c := x[i]; c {
		case '"', '\\':
			b.WriteByte('\\')
			b.WriteByte(c)
		case '\n':
			b.WriteString("\\n")
		default:
			b.WriteByte(c)
		}
	}
	b.WriteByte('"')
	return b.String()
}

func pyList(xs []string) string {
	out := make([]string, len(xs))
	for i, x := range xs {
		out[i] = pyStr(x)
	}
	return "[" + strings.Join(out, ", ") + "]"
}

// Shell renders a command of the closed language as the bash text of a genrule. Every command first
// appends a line to the action log, which lives OUTSIDE the repository.
func (c Cmd) Shell(label, logPath string) string {
	log := fmt.Sprintf("echo %s >> %s", label, logPath)
	switch c.Op {
	case "concat": // all sources, in $SRCS order, concatenated into the first output; other outputs get the count
		return log + ` && cat $SRCS /dev/null > $(echo $OUTS | cut -d" " -f1) && for o in $(echo $OUTS | cut -s -d" " -f2-); do echo $SRCS | wc -w > $o; done`
	case "copydir": // the single output is a directory holding a copy of every source file, by base name
		return log + ` && mkdir -p $OUTS && for s in $SRCS; do cp -r $s $OUTS/; done`
	case "outdir": // files are written into an output_dir `_o` (names = base names of the sources), first out gets a constant
		return log + ` && mkdir -p _o && for s in $SRCS; do cp $s _o/; done && echo fixed > $(echo $OUTS | cut -d" " -f1)`
	case "listnames": // the names (recursively) found under every source, sorted
		return log + ` && (for s in $SRCS; do if [ -d $s ]; then (cd $s && find . | sort); else echo $s; fi; done) > $OUTS`
	case "const":
		return log + ` && for o in $OUTS; do echo ` + shQuote(c.Arg) + ` > $o; done`
	case "envdump":
		parts := []string{}
		for _, v := range strings.Fields(c.Arg) {
			parts = append(parts, v+"=${"+v+":-<unset>}")
		}
		return log + ` && echo "` + strings.Join(parts, " ") + `" > $OUTS`
	case "fail":
		return log + ` && echo doomed >&2 && exit 1`
	case "catall": // every regular *.txt file the temporary directory holds for this package, in glob order: depends on the
		// CONTENTS of the temporary directory, not on $SRCS
		return log + ` && (cd $PKG_DIR && for f in *.txt; do if [ -f $f ]; then cat $f; fi; done) > $OUTS`
	case "usetool": // the outputs of the tools (through $TOOLS), then the sources
		return log + ` && cat $TOOLS $SRCS /dev/null > $OUTS`
	case "usentool": // the outputs of the NAMED tools (tools = {Arg: [...]}, through $TOOLS_<ARG>), then the sources
		return log + ` && cat $TOOLS_` + strings.ToUpper(c.Arg) + ` $SRCS /dev/null > $OUTS`
	case "toolnames": // the base NAMES of the outputs of the tools
		return log + ` && for t in $TOOLS; do basename $t; done > $OUTS`
	case "sleepconcat": // like concat but sleeps first (scheduling variety)
		return log + ` && sleep ` + c.Arg + ` && cat $SRCS /dev/null > $OUTS`
	}
	panic("unknown op " + c.Op)
}

func shQuote(x string) string { return "'" + strings.ReplaceAll(x, "'", `'\''`) + "'" }

func (t *Target) Render(pkg, logPath string) string {
	var b strings.Builder
	label := "//" + pkg + ":" + t.Name
	if t.Comment != "" {
		b.WriteString("# " + t.Comment + "\n")
	}
	switch t.Kind {
	case "filegroup":
		fmt.Fprintf(&b, "filegroup(\n    name = %s,\n    srcs = %s,\n", pyStr(t.Name), pyList(t.Srcs))
		if len(t.Deps) > 0 {
			fmt.Fprintf(&b, "    deps = %s,\n", pyList(t.Deps))
		}
	case "text_file":
		fmt.Fprintf(&b, "text_file(\n    name = %s,\n    content = %s,\n", pyStr(t.Name), pyStr(t.Content))
		if len(t.Outs) > 0 {
			fmt.Fprintf(&b, "    out = %s,\n", pyStr(t.Outs[0]))
		}
	case "genrule", "gentest":
		fmt.Fprintf(&b, "%s(\n    name = %s,\n", t.Kind, pyStr(t.Name))
		if len(t.Srcs) > 0 {
			fmt.Fprintf(&b, "    srcs = %s,\n", pyList(t.Srcs))
		}
		if len(t.OutGroups) > 0 { // dict form, in the order given by the (sorted) group names of the Spec
			keys := make([]string, 0, len(t.OutGroups))
			for k := range t.OutGroups {
				keys = append(keys, k)
			}
			sort.Strings(keys)
			b.WriteString("    outs = {")
			for i, k := range keys {
				if i > 0 {
					b.WriteString(", ")
				}
				b.WriteString(pyStr(k) + ": " + pyList(t.OutGroups[k]))
			}
			b.WriteString("},\n")
		} else if len(t.Outs) > 0 {
			fmt.Fprintf(&b, "    outs = %s,\n", pyList(t.Outs))
		}
		if len(t.OutDirs) > 0 {
			fmt.Fprintf(&b, "    output_dirs = %s,\n", pyList(t.OutDirs))
		}
		fmt.Fprintf(&b, "    cmd = %s,\n", pyStr(t.Cmd.Shell(label, logPath)))
		if len(t.Tools) > 0 && t.ToolName != "" {
			fmt.Fprintf(&b, "    tools = {%s: %s},\n", pyStr(t.ToolName), pyList(t.Tools))
		} else if len(t.Tools) > 0 {
			fmt.Fprintf(&b, "    tools = %s,\n", pyList(t.Tools))
		}
		if len(t.Deps) > 0 {
			fmt.Fprintf(&b, "    deps = %s,\n", pyList(t.Deps))
		}
		if len(t.Env) > 0 {
			keys := make([]string, 0, len(t.Env))
			for k := range t.Env {
				keys = append(keys, k)
			}
			sort.Strings(keys)
			b.WriteString("    env = {")
			for i, k := range keys {
				if i > 0 {
					b.WriteString(", ")
				}
				b.WriteString(pyStr(k) + ": " + pyStr(t.Env[k]))
			}
			b.WriteString("},\n")
		}
		if len(t.PassEnv) > 0 {
			fmt.Fprintf(&b, "    pass_env = %s,\n", pyList(t.PassEnv))
		}
		if len(t.Hashes) > 0 {
			fmt.Fprintf(&b, "    hashes = %s,\n", pyList(t.Hashes))
		}
		if t.Binary {
			b.WriteString("    binary = True,\n")
		}
		if t.Kind == "gentest" {
			fmt.Fprintf(&b, "    test_cmd = %s,\n    no_test_output = True,\n", pyStr(t.TestCmd.Shell("T"+label, logPath)))
			if len(t.Data) > 0 {
				fmt.Fprintf(&b, "    data = %s,\n", pyList(t.Data))
			}
		}
	default:
		panic("unknown kind " + t.Kind)
	}
	if len(t.Labels) > 0 {
		fmt.Fprintf(&b, "    labels = %s,\n", pyList(t.Labels))
	}
	if t.Extra != "" {
		b.WriteString("    " + t.Extra + "\n")
	}
	b.WriteString("    visibility = [\"PUBLIC\"],\n)\n\n")
	return b.String()
}

// ---------------------------------------------------------------------------------------------
// A repository on disk

type Repo struct {
	Dir      string // repository root
	Plz      string // the binary under test
	LogPath  string // action log, outside the repository
	CacheDir string // "" = no cache
	Compress bool
	Env      []string // environment of the plz process (nil = a fixed minimal one)
	Threads  int
}

// NewRepo creates an empty repository under base (a scratch directory owned by the caller).
func NewRepo(base, name string) *Repo {
	plz := os.Getenv("VERIF_PLZ")
	if plz == "" {
		plz = "/verif/build/bin/plz"
	}
	r := &Repo{Dir: filepath.Join(base, name), Plz: plz, LogPath: filepath.Join(base, name+".actions.log")}
	must(os.MkdirAll(r.Dir, 0o755))
	return r
}

func must(err error) {
	if err != nil {
		panic(err)
	}
}

func (r *Repo) configText(s *Spec) string {
	var b strings.Builder
	b.WriteString("[build]\npath = /usr/local/bin:/usr/bin:/bin\n[cache]\n")
	b.WriteString("dir = " + r.CacheDir + "\n")
	if r.Compress {
		b.WriteString("dircompress = true\n")
	}
	b.WriteString("[display]\nupdatetitle = false\n")
	for _, l := range s.Config {
		b.WriteString(l + "\n")
	}
	return b.String()
}

// Write materialises the spec: writes what changed, deletes files that belong to no package any more.
// It never touches plz-out.
func (r *Repo) Write(s *Spec) {
	want := map[string]string{".plzconfig": r.configText(s)}
	for pn, p := range s.Pkgs {
		var b strings.Builder
		for _, t := range p.Targets {
			b.WriteString(t.Render(pn, r.LogPath))
		}
		want[filepath.Join(pn, "BUILD")] = b.String()
		for f, c := range p.Files {
			want[filepath.Join(pn, f)] = c
		}
	}
	// remove stale files
	filepath.Walk(r.Dir, func(path string, info os.FileInfo, err error) error {
		if err != nil {
			return nil
		}
		rel, _ := filepath.Rel(r.Dir, path)
		if rel == "plz-out" || strings.HasPrefix(rel, ".plz") && info.IsDir() {
			return filepath.SkipDir
		}
		if !info.IsDir() {
			if _, ok := want[rel]; !ok {
				os.Remove(path)
			}
		}
		return nil
	})
	for rel, content := range want {
		path := filepath.Join(r.Dir, rel)
		old, err := os.ReadFile(path)
		if err == nil && string(old) == content {
			continue
		}
		must(os.MkdirAll(filepath.Dir(path), 0o755))
		must(os.WriteFile(path, []byte(content), 0o644))
	}
	// remove directories that became empty (a package that was deleted)
	for i := 0; i < 4; i++ {
		filepath.Walk(r.Dir, func(path string, info os.FileInfo, err error) error {
			if err != nil || !info.IsDir() || path == r.Dir {
				return nil
			}
			rel, _ := filepath.Rel(r.Dir, path)
			if rel == "plz-out" || strings.HasPrefix(rel, ".plz") {
				return filepath.SkipDir
			}
			if es, _ := os.ReadDir(path); len(es) == 0 {
				os.Remove(path)
			}
			return nil
		})
	}
}

type Result struct {
	Exit     int
	Stdout   string
	Stderr   string
	Executed []string // action-log lines written during this invocation, in order
	Wall     time.Duration
	TimedOut bool
}

var baseEnv = []string{"PATH=/usr/local/bin:/usr/bin:/bin", "HOME=/nonexistent-verif-home", "LANG=C", "USER=verif"}

// Run invokes plz with the given arguments in the repository and collects the action log.
func (r *Repo) Run(timeout time.Duration, args ...string) Result {
	os.Remove(r.LogPath)
	all := []string{"--plain_output", "-v", "1"}
	if r.Threads > 0 {
		all = append(all, "-n", fmt.Sprint(r.Threads))
	}
	all = append(all, args...)
	cmd := exec.Command(r.Plz, all...)
	cmd.Dir = r.Dir
	cmd.Env = r.Env
	if cmd.Env == nil {
		cmd.Env = baseEnv
	}
	cmd.SysProcAttr = &syscall.SysProcAttr{Setpgid: true}
	var so, se bytes.Buffer
	cmd.Stdout, cmd.Stderr = &so, &se
	start := time.Now()
	res := Result{}
	if err := cmd.Start(); err != nil {
		panic(err)
	}
	done := make(chan error, 1)
	go func() { done <- cmd.Wait() }()
	select {
	case err := <-done:
		if err != nil {
			if ee, ok := err.(*exec.ExitError); ok {
				res.Exit = ee.ExitCode()
			} else {
				res.Exit = -1
			}
		}
	case <-time.After(timeout):
		syscall.Kill(-cmd.Process.Pid, syscall.SIGKILL)
		<-done
		res.Exit, res.TimedOut = -9, true
	}
	res.Wall = time.Since(start)
	res.Stdout, res.Stderr = so.String(), se.String()
	res.Executed = r.ReadLog()
	return res
}

func (r *Repo) ReadLog() []string {
	data, err := os.ReadFile(r.LogPath)
	if err != nil {
		return nil
	}
	var out []string
	for _, l := range strings.Split(string(data), "\n") {
		if l != "" {
			out = append(out, l)
		}
	}
	return out
}

// ---------------------------------------------------------------------------------------------
// Output trees

// A Node is a canonical description of a file tree: kind, content / link target, exec bit.
type Node struct {
	Kind    string           `json:"kind"` // file | dir | link | absent
	Content string           `json:"content,omitempty"`
	Exec    bool             `json:"exec,omitempty"`
	Target  string           `json:"target,omitempty"`
	Entries map[string]*Node `json:"entries,omitempty"`
}

func ReadTree(path string) *Node {
	info, err := os.Lstat(path)
	if err != nil {
		return &Node{Kind: "absent"}
	}
	switch {
	case info.Mode()&os.ModeSymlink != 0:
		t, _ := os.Readlink(path)
		return &Node{Kind: "link", Target: t}
	case info.IsDir():
		n := &Node{Kind: "dir", Entries: map[string]*Node{}}
		es, _ := os.ReadDir(path)
		for _, e := range es {
			n.Entries[e.Name()] = ReadTree(filepath.Join(path, e.Name()))
		}
		return n
	default:
		data, _ := os.ReadFile(path)
		return &Node{Kind: "file", Content: string(data), Exec: info.Mode()&0o111 != 0}
	}
}

func (n *Node) String() string {
	switch n.Kind {
	case "file":
		x := ""
		if n.Exec {
			x = "*"
		}
		return fmt.Sprintf("file%s(%q)", x, n.Content)
	case "link":
		return "link(" + n.Target + ")"
	case "dir":
		keys := make([]string, 0, len(n.Entries))
		for k := range n.Entries {
			keys = append(keys, k)
		}
		sort.Strings(keys)
		parts := []string{}
		for _, k := range keys {
			parts = append(parts, k+":"+n.Entries[k].String())
		}
		return "dir{" + strings.Join(parts, ", ") + "}"
	}
	return "absent"
}

func (n *Node) Equal(m *Node) bool { return n.String() == m.String() }

// Outputs reads the declared outputs of a target from plz-out (gen or bin): name -> tree.
// Only declared outs (and the contents of output_dirs discovered by this build, which land next to
// them) are considered; what else lies in the package's output directory is reported under "*others*"
// only on request.
func (r *Repo) Outputs(s *Spec, label string) map[string]*Node {
	pkg, _ := SplitLabel(label)
	t := s.Target(label)
	out := map[string]*Node{}
	if t == nil {
		return out
	}
	dir := filepath.Join(r.Dir, "plz-out", "gen", pkg)
	if t.Binary {
		dir = filepath.Join(r.Dir, "plz-out", "bin", pkg)
	}
	names := append([]string{}, t.Outs...)
	if t.Kind == "filegroup" {
		for _, src := range t.Srcs {
			if !strings.HasPrefix(src, "//") && !strings.HasPrefix(src, ":") {
				names = append(names, src)
			}
		}
	}
	if t.Kind == "text_file" && len(t.Outs) == 0 {
		names = append(names, t.Name)
	}
	for _, o := range names {
		out[o] = ReadTree(filepath.Join(dir, o))
	}
	return out
}

// OutDirFiles lists everything in the package's gen directory (used for targets with output_dirs,
// whose outputs are discovered rather than declared).
func (r *Repo) GenDir(pkg string) *Node {
	return ReadTree(filepath.Join(r.Dir, "plz-out", "gen", pkg))
}

func OutputsEqual(a, b map[string]*Node) (bool, string) {
	keys := map[string]bool{}
	for k := range a {
		keys[k] = true
	}
	for k := range b {
		keys[k] = true
	}
	ks := make([]string, 0, len(keys))
	for k := range keys {
		ks = append(ks, k)
	}
	sort.Strings(ks)
	for _, k := range ks {
		x, y := a[k], b[k]
		if x == nil || y == nil {
			return false, k + ": declared on one side only"
		}
		if !x.Equal(y) {
			return false, fmt.Sprintf("%s: %s vs %s", k, x, y)
		}
	}
	return true, ""
}

// CleanCopy materialises the same spec in a fresh directory (no plz-out, no cache) with the same
// action-log path text, so that command texts - hence rule hashes - are identical.
func (r *Repo) CleanCopy(base, name string, s *Spec) *Repo {
	c := &Repo{Dir: filepath.Join(base, name), Plz: r.Plz, LogPath: r.LogPath, Env: r.Env, Threads: r.Threads}
	os.RemoveAll(c.Dir)
	must(os.MkdirAll(c.Dir, 0o755))
	c.Write(s)
	return c
}

func (r *Repo) RemovePlzOut() { os.RemoveAll(filepath.Join(r.Dir, "plz-out")) }

// Scratch returns a fresh scratch directory for a run; the caller removes it.
func Scratch(prefix string) string {
	base := os.Getenv("VERIF_SCRATCH")
	if base == "" {
		base = os.TempDir()
	}
	d, err := os.MkdirTemp(base, prefix+"-")
	must(err)
	return d
}
