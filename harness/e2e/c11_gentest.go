// C11: repositories of gentest targets whose pass/fail outcome is a simple function of their test
// command, their test binary, their data files (local files, local directories, outputs of genrules).
// Built on Repo/Spec of e2e.go without changing them: the BUILD file of the single package is rendered
// here and handed to Repo.Write as an ordinary file of the package.
package e2e

import (
	"encoding/xml"
	"fmt"
	"os"
	"path/filepath"
	"sort"
	"strings"
)

const C11Pkg = "p"

// C11Gen is a genrule producing one file (a data dependency of tests).
type C11Gen struct {
	Name    string `json:"name"`
	Out     string `json:"out"`
	Content string `json:"content"` // the file holds Content + "\n"
}

// C11Test is a gentest. Its binary is the concatenation of its sources.
//
// Test command language (the pass/fail outcome is a function of the test directory):
//
//	passif W   pass iff some regular file under the data paths contains W     grep -rqs W $DATA /dev/null
//	binok W    pass iff the test binary contains W                            grep -qs W $TEST
//	exists P   pass iff path P (relative to the test directory) exists        test -e P
//	true/fail  constant
type C11Test struct {
	Name    string   `json:"name"`
	Srcs    []string `json:"srcs"`
	Out     string   `json:"out"`
	Data    []string `json:"data"` // local file | local directory | ":gen"
	Op      string   `json:"op"`
	Arg     string   `json:"arg,omitempty"`
	Comment string   `json:"comment,omitempty"`
}

type C11Spec struct {
	Files map[string]string `json:"files"` // path relative to the package ("dd/a.txt" lies in data directory dd) -> content
	Gens  []*C11Gen         `json:"gens"`
	Tests []*C11Test        `json:"tests"`
}

func (s *C11Spec) Clone() *C11Spec {
	out := &C11Spec{Files: map[string]string{}}
	for k, v := range s.Files {
		out.Files[k] = v
	}
	for _, g := range s.Gens {
		c := *g
		out.Gens = append(out.Gens, &c)
	}
	for _, t := range s.Tests {
		c := *t
		c.Srcs = append([]string{}, t.Srcs...)
		c.Data = append([]string{}, t.Data...)
		out.Tests = append(out.Tests, &c)
	}
	return out
}

func (s *C11Spec) Gen(name string) *C11Gen {
	for _, g := range s.Gens {
		if g.Name == name {
			return g
		}
	}
	return nil
}

// TestBody is the shell text of the test command proper (without the action-log prefix).
func (t *C11Test) TestBody() string {
	switch t.Op {
	case "passif":
		return "grep -rqs " + t.Arg + " $DATA /dev/null"
	case "binok":
		return "grep -qs " + t.Arg + " $TEST"
	case "exists":
		return "test -e " + t.Arg
	case "true":
		return "true"
	case "fail":
		return "false"
	}
	panic("unknown test op " + t.Op)
}

func (t *C11Test) Label() string { return "//" + C11Pkg + ":" + t.Name }

func (t *C11Test) BuildCmd(logPath string) string {
	return fmt.Sprintf("echo %s >> %s && cat $SRCS /dev/null > $OUTS", t.Label(), logPath)
}

func (t *C11Test) TestCmd(logPath string) string {
	return fmt.Sprintf("echo T%s >> %s && %s", t.Label(), logPath, t.TestBody())
}

// RuleFields lists, in the order ruleHash(runtime=true) writes them, the parts of the runtime rule
// stream that vary between generated targets (everything else is the same constant for all of them).
func (t *C11Test) RuleFields(logPath string) []string {
	f := []string{t.Label()}
	deps := []string{}
	for _, d := range t.Data {
		if strings.HasPrefix(d, ":") {
			deps = append(deps, "//"+C11Pkg+d)
		}
	}
	sort.Strings(deps)
	f = append(f, deps...)
	f = append(f, t.Srcs...)
	f = append(f, t.Out)
	f = append(f, t.BuildCmd(logPath))
	for _, d := range t.Data {
		if strings.HasPrefix(d, ":") {
			f = append(f, "//"+C11Pkg+d)
		} else {
			f = append(f, d)
		}
	}
	return append(f, t.TestCmd(logPath))
}

func (s *C11Spec) buildFile(logPath string) string {
	var b strings.Builder
	for _, g := range s.Gens {
		fmt.Fprintf(&b, "genrule(\n    name = %s,\n    outs = %s,\n    cmd = %s,\n    visibility = [\"PUBLIC\"],\n)\n\n",
			pyStr(g.Name), pyList([]string{g.Out}),
			pyStr(fmt.Sprintf("echo //%s:%s >> %s && echo %s > $OUTS", C11Pkg, g.Name, logPath, shQuote(g.Content))))
	}
	for _, t := range s.Tests {
		if t.Comment != "" {
			b.WriteString("# " + t.Comment + "\n")
		}
		fmt.Fprintf(&b, "gentest(\n    name = %s,\n    srcs = %s,\n    outs = %s,\n    cmd = %s,\n    test_cmd = %s,\n    no_test_output = True,\n",
			pyStr(t.Name), pyList(t.Srcs), pyList([]string{t.Out}), pyStr(t.BuildCmd(logPath)), pyStr(t.TestCmd(logPath)))
		if len(t.Data) > 0 {
			fmt.Fprintf(&b, "    data = %s,\n", pyList(t.Data))
		}
		b.WriteString("    visibility = [\"PUBLIC\"],\n)\n\n")
	}
	return b.String()
}

// Spec renders the C11 repository as a plain e2e.Spec: one package without e2e targets whose files
// include the rendered BUILD file (Repo.Write lets package files override the generated BUILD).
func (s *C11Spec) Spec(logPath string) *Spec {
	p := &Pkg{Files: map[string]string{"BUILD": s.buildFile(logPath)}}
	for k, v := range s.Files {
		p.Files[k] = v
	}
	return &Spec{Pkgs: map[string]*Pkg{C11Pkg: p}}
}

// ---------------------------------------------------------------------------------------------
// The test directory as core.IterRuntimeFiles lays it out.

type C11Node struct {
	Dir     bool        `json:"dir,omitempty"`
	Content string      `json:"content,omitempty"`
	Entries [][2]string `json:"entries,omitempty"` // (name, content), sorted by name (one level)
}

type C11RFile struct {
	Role string  `json:"role"` // out | data
	Dest string  `json:"dest"` // path inside the test directory
	Node C11Node `json:"node"`
}

// IsDataDir says whether the local data entry d is a directory of the package.
func (s *C11Spec) IsDataDir(d string) bool {
	for f := range s.Files {
		if strings.HasPrefix(f, d+"/") {
			return true
		}
	}
	return false
}

// RuntimeFiles lists (before de-duplication by destination) what IterRuntimeFiles yields for t:
// the target's outputs, then every data entry in declaration order.
func (s *C11Spec) RuntimeFiles(t *C11Test) []C11RFile {
	bin := ""
	for _, src := range t.Srcs {
		bin += s.Files[src]
	}
	out := []C11RFile{{Role: "out", Dest: t.Out, Node: C11Node{Content: bin}}}
	for _, d := range t.Data {
		switch {
		case strings.HasPrefix(d, ":"):
			g := s.Gen(d[1:])
			out = append(out, C11RFile{Role: "data", Dest: C11Pkg + "/" + g.Out, Node: C11Node{Content: g.Content + "\n"}})
		case s.IsDataDir(d):
			n := C11Node{Dir: true}
			for f, c := range s.Files {
				if strings.HasPrefix(f, d+"/") {
					n.Entries = append(n.Entries, [2]string{f[len(d)+1:], c})
				}
			}
			sort.Slice(n.Entries, func(i, j int) bool { return n.Entries[i][0] < n.Entries[j][0] })
			out = append(out, C11RFile{Role: "data", Dest: C11Pkg + "/" + d, Node: n})
		default:
			out = append(out, C11RFile{Role: "data", Dest: C11Pkg + "/" + d, Node: C11Node{Content: s.Files[d]}})
		}
	}
	return out
}

// TestDir is the content of the test directory: destination -> node, the first entry per destination wins.
func TestDir(files []C11RFile) map[string]C11Node {
	m := map[string]C11Node{}
	for _, f := range files {
		if _, ok := m[f.Dest]; !ok {
			m[f.Dest] = f.Node
		}
	}
	return m
}

// Expected is the outcome of running t's test command in a correctly prepared test directory.
func (s *C11Spec) Expected(t *C11Test) bool {
	files := s.RuntimeFiles(t)
	dir := TestDir(files)
	has := func(n C11Node, w string) bool {
		if !n.Dir {
			return strings.Contains(n.Content, w)
		}
		for _, e := range n.Entries {
			if strings.Contains(e[1], w) {
				return true
			}
		}
		return false
	}
	switch t.Op {
	case "passif":
		for _, f := range files {
			if f.Role == "data" && has(dir[f.Dest], t.Arg) {
				return true
			}
		}
		return false
	case "binok":
		return has(dir[t.Out], t.Arg)
	case "exists":
		if _, ok := dir[t.Arg]; ok {
			return true
		}
		if i := strings.LastIndexByte(t.Arg, '/'); i > 0 {
			if n, ok := dir[t.Arg[:i]]; ok && n.Dir {
				for _, e := range n.Entries {
					if e[0] == t.Arg[i+1:] {
						return true
					}
				}
			}
		}
		return false
	case "true":
		return true
	}
	return false
}

// RuntimeInputs is a canonical text of everything the property calls the test's runtime inputs: the
// test command and the test directory (names and contents).
func (s *C11Spec) RuntimeInputs(t *C11Test, logPath string) string {
	dir := TestDir(s.RuntimeFiles(t))
	keys := make([]string, 0, len(dir))
	for k := range dir {
		keys = append(keys, k)
	}
	sort.Strings(keys)
	var b strings.Builder
	fmt.Fprintf(&b, "cmd=%q\n", t.TestCmd(logPath))
	for _, k := range keys {
		fmt.Fprintf(&b, "%s=%q %v\n", k, dir[k].Content, dir[k].Entries)
	}
	return b.String()
}

// ---------------------------------------------------------------------------------------------
// Observing `plz test`

type C11Outcome struct {
	Present bool `json:"present"` // a suite for the target is in test_results.xml
	Passed  bool `json:"passed"`
	Cached  bool `json:"cached"` // reported as a cached result
	Ran     bool `json:"ran"`    // the test command was executed in this invocation (action log)
	Built   bool `json:"built"`  // the build command was executed in this invocation
}

type c11Suites struct {
	Suites []struct {
		Name     string `xml:"name,attr"`
		Package  string `xml:"package,attr"`
		Tests    int    `xml:"tests,attr"`
		Errors   int    `xml:"errors,attr"`
		Failures int    `xml:"failures,attr"`
		Props    []struct {
			Name  string `xml:"name,attr"`
			Value string `xml:"value,attr"`
		} `xml:"properties>property"`
	} `xml:"testsuite"`
}

// C11Results reads plz-out/log/test_results.xml and the action log of the last invocation.
func (r *Repo) C11Results(s *C11Spec, res Result) map[string]C11Outcome {
	out := map[string]C11Outcome{}
	var doc c11Suites
	data, err := os.ReadFile(filepath.Join(r.Dir, "plz-out", "log", "test_results.xml"))
	if err == nil {
		xml.Unmarshal(data, &doc)
	}
	for _, t := range s.Tests {
		o := C11Outcome{}
		for _, su := range doc.Suites {
			if su.Name == t.Name && su.Package == C11Pkg {
				o.Present = true
				o.Passed = su.Errors == 0 && su.Failures == 0 && su.Tests > 0
				for _, p := range su.Props {
					if p.Name == "cached" && p.Value == "true" {
						o.Cached = true
					}
				}
			}
		}
		for _, l := range res.Executed {
			if l == "T"+t.Label() {
				o.Ran = true
			}
			if l == t.Label() {
				o.Built = true
			}
		}
		out[t.Name] = o
	}
	return out
}

// C11CacheKeys counts the distinct keys under which the directory cache holds a test result of t.
func (r *Repo) C11CacheKeys(t *C11Test) int {
	if r.CacheDir == "" {
		return 0
	}
	es, _ := os.ReadDir(filepath.Join(r.CacheDir, C11Pkg, t.Name))
	n := 0
	for _, e := range es {
		if _, err := os.Stat(filepath.Join(r.CacheDir, C11Pkg, t.Name, e.Name(), ".test_results_"+t.Name)); err == nil {
			n++
		}
	}
	return n
}
