// C11: repositories of gentest targets whose pass/fail outcome is a simple function of their test
// command, their test binary, their data files (local files, local directories, outputs of genrules).
// Built on Repo/Spec of e2e.go without changing them: the BUILD file of the single package is rendered
// here and handed to Repo.Write as an ordinary file of the package.
package e2e

import (
	"encoding/xml"
	"fmt"
	"os"
	"path/filepath"
	"sort"
	"strings"
	"syscall"
)

const C11Pkg = "p"

// C11Gen is a genrule producing one file (a data dependency of tests).
type C11Gen struct {
	Name    string `json:"name"`
	Out     string `json:"out"`
	Content string `json:"content"` // the file holds Content + "\n"
}

// C11Group is a filegroup of source files of the package (a data dependency of tests): its outputs in
// plz-out/gen are hard links to the source files.
type C11Group struct {
	Name string   `json:"name"`
	Srcs []string `json:"srcs"`
}

// C11Alt is the test command for one build config, when test_cmd is given as a dict.
type C11Alt struct {
	Config string `json:"config"`
	Op     string `json:"op"`
	Arg    string `json:"arg,omitempty"`
}

// C11Inv is how plz is invoked: `plz test [-c Config] [//p:all -- Args...]`.
type C11Inv struct {
	Args   []string `json:"args,omitempty"`
	Config string   `json:"config,omitempty"` // "" = no -c flag (the default config, opt)
}

// C11Test is a gentest. Its binary is the concatenation of its sources.
//
// Test command language (the pass/fail outcome is a function of the test directory):
//
//	passif W   pass iff some regular file under the data paths contains W     grep -rqs W $DATA /dev/null
//	binok W    pass iff the test binary contains W                            grep -qs W $TEST
//	exists P   pass iff path P (relative to the test directory) exists        test -e P
//	true/fail  constant
//	argis W    pass iff the first test argument is W                          sh -c 'test "$1" = W' sh
//	argisnot W pass iff the first test argument is not W                      sh -c 'test "$1" != W' sh
//	filehas W P pass iff P (relative to the test directory) is a regular file that contains W   grep -qs W P
//	           (Arg = "W P"; which content lies AT which destination matters, not only which contents exist;
//	           a directory or a missing path makes grep exit 2)
//
// Test arguments are appended to the command by plz: they do not change what grep -q / true / false report
// (grep -q exits 0 at the first match and fails otherwise), they turn `test -e P` into a usage error.
type C11Test struct {
	Name    string   `json:"name"`
	Srcs    []string `json:"srcs"`
	Out     string   `json:"out"`
	Data    []string `json:"data"` // local file | local directory | ":gen"
	Op      string   `json:"op"`
	Arg     string   `json:"arg,omitempty"`
	Comment string   `json:"comment,omitempty"`
	Cmds    []C11Alt `json:"cmds,omitempty"` // non-empty: test_cmd is this dict (Op/Arg are then unused)
}

type C11Spec struct {
	Files  map[string]string `json:"files"` // path relative to the package ("dd/a.txt" lies in data directory dd) -> content
	Gens   []*C11Gen         `json:"gens"`
	Groups []*C11Group       `json:"groups,omitempty"`
	Tests  []*C11Test        `json:"tests"`
}

func (s *C11Spec) Clone() *C11Spec {
	out := &C11Spec{Files: map[string]string{}}
	for k, v := range s.Files {
		out.Files[k] = v
	}
	for _, g := range s.Gens {
		c := *g
		out.Gens = append(out.Gens, &c)
	}
	for _, g := range s.Groups {
		c := *g
		c.Srcs = append([]string{}, g.Srcs...)
		out.Groups = append(out.Groups, &c)
	}
	for _, t := range s.Tests {
		c := *t
		c.Srcs = append([]string{}, t.Srcs...)
		c.Data = append([]string{}, t.Data...)
		if t.Cmds != nil {
			c.Cmds = append([]C11Alt{}, t.Cmds...)
		}
		out.Tests = append(out.Tests, &c)
	}
	return out
}

func (s *C11Spec) Group(name string) *C11Group {
	for _, g := range s.Groups {
		if g.Name == name {
			return g
		}
	}
	return nil
}

func (s *C11Spec) Gen(name string) *C11Gen {
	for _, g := range s.Gens {
		if g.Name == name {
			return g
		}
	}
	return nil
}

// TestBody is the shell text of the test command proper (without the action-log prefix).
func (t *C11Test) TestBody() string { return c11Body(t.Op, t.Arg) }

func c11Body(op, arg string) string {
	switch op {
	case "passif":
		return "grep -rqs " + arg + " $DATA /dev/null"
	case "binok":
		return "grep -qs " + arg + " $TEST"
	case "exists":
		return "test -e " + arg
	case "true":
		return "true"
	case "fail":
		return "false"
	case "argis":
		return `sh -c 'test "$1" = ` + arg + `' sh`
	case "argisnot":
		return `sh -c 'test "$1" != ` + arg + `' sh`
	case "filehas":
		return "grep -qs " + arg
	}
	panic("unknown test op " + op)
}

// C11DefaultConfig / C11FallbackConfig: plz's Build.Config and Build.FallbackConfig defaults (the Coq model
// reads them off src/core/config.go through gotrans; the generated repositories do not override them).
const C11DefaultConfig, C11FallbackConfig = "opt", "opt"

// Effective mirrors BuildTarget.getCommand: the (op, arg) of the command that runs under build config cfg
// ("" = default): the plain command, or the dict entry of cfg, else of the fallback config, else the one
// with the highest config name.
func (t *C11Test) Effective(cfg string) (op, arg string) {
	if len(t.Cmds) == 0 {
		return t.Op, t.Arg
	}
	if cfg == "" {
		cfg = C11DefaultConfig
	}
	for _, want := range []string{cfg, C11FallbackConfig} {
		for _, a := range t.Cmds {
			if a.Config == want {
				return a.Op, a.Arg
			}
		}
	}
	best := t.Cmds[0]
	for _, a := range t.Cmds {
		if a.Config > best.Config {
			best = a
		}
	}
	return best.Op, best.Arg
}

func (t *C11Test) cmdText(op, arg, logPath string) string {
	return fmt.Sprintf("echo T%s >> %s && %s", t.Label(), logPath, c11Body(op, arg))
}

// AltCmd is the command text of one dict entry.
func (t *C11Test) AltCmd(a C11Alt, logPath string) string { return t.cmdText(a.Op, a.Arg, logPath) }

// EffectiveCmd is the text of the command that runs under cfg.
func (t *C11Test) EffectiveCmd(cfg, logPath string) string {
	op, arg := t.Effective(cfg)
	return t.cmdText(op, arg, logPath)
}

func (t *C11Test) Label() string { return "//" + C11Pkg + ":" + t.Name }

func (t *C11Test) BuildCmd(logPath string) string {
	return fmt.Sprintf("echo %s >> %s && cat $SRCS /dev/null > $OUTS", t.Label(), logPath)
}

func (t *C11Test) TestCmd(logPath string) string {
	return fmt.Sprintf("echo T%s >> %s && %s", t.Label(), logPath, t.TestBody())
}

// RuleFields lists, in the order ruleHash(runtime=true) writes them, the parts of the runtime rule
// stream BEFORE the test part that vary between generated targets (everything else is the same constant for
// all of them). The test part (the test command) is computed by the model from the command form.
func (t *C11Test) RuleFields(logPath string) []string {
	f := []string{t.Label()}
	deps := []string{}
	for _, d := range t.Data {
		if strings.HasPrefix(d, ":") {
			deps = append(deps, "//"+C11Pkg+d)
		}
	}
	sort.Strings(deps)
	f = append(f, deps...)
	f = append(f, t.Srcs...)
	f = append(f, t.Out)
	f = append(f, t.BuildCmd(logPath))
	for _, d := range t.Data {
		if strings.HasPrefix(d, ":") {
			f = append(f, "//"+C11Pkg+d)
		} else {
			f = append(f, d)
		}
	}
	return f
}

// BuildFields lists what decides whether the test binary must be (re)built and under which key the build
// cache holds it: the varying parts of the non-runtime rule hash (label, declared dependencies, source names,
// outs, build command) and the contents of the sources.
func (s *C11Spec) BuildFields(t *C11Test, logPath string) []string {
	f := []string{t.Label()}
	deps := []string{}
	for _, d := range t.Data {
		if strings.HasPrefix(d, ":") {
			deps = append(deps, "//"+C11Pkg+d)
		}
	}
	sort.Strings(deps)
	f = append(f, deps...)
	for _, src := range t.Srcs {
		f = append(f, src, s.Files[src])
	}
	return append(f, t.Out, t.BuildCmd(logPath))
}

func (s *C11Spec) buildFile(logPath string) string {
	var b strings.Builder
	for _, g := range s.Gens {
		fmt.Fprintf(&b, "genrule(\n    name = %s,\n    outs = %s,\n    cmd = %s,\n    visibility = [\"PUBLIC\"],\n)\n\n",
			pyStr(g.Name), pyList([]string{g.Out}),
			pyStr(fmt.Sprintf("echo //%s:%s >> %s && echo %s > $OUTS", C11Pkg, g.Name, logPath, shQuote(g.Content))))
	}
	for _, g := range s.Groups {
		fmt.Fprintf(&b, "filegroup(\n    name = %s,\n    srcs = %s,\n    visibility = [\"PUBLIC\"],\n)\n\n", pyStr(g.Name), pyList(g.Srcs))
	}
	for _, t := range s.Tests {
		if t.Comment != "" {
			b.WriteString("# " + t.Comment + "\n")
		}
		testCmd := pyStr(t.TestCmd(logPath))
		if len(t.Cmds) > 0 {
			parts := []string{}
			for _, a := range t.Cmds {
				parts = append(parts, pyStr(a.Config)+": "+pyStr(t.AltCmd(a, logPath)))
			}
			testCmd = "{" + strings.Join(parts, ", ") + "}"
		}
		fmt.Fprintf(&b, "gentest(\n    name = %s,\n    srcs = %s,\n    outs = %s,\n    cmd = %s,\n    test_cmd = %s,\n    no_test_output = True,\n",
			pyStr(t.Name), pyList(t.Srcs), pyList([]string{t.Out}), pyStr(t.BuildCmd(logPath)), testCmd)
		if len(t.Data) > 0 {
			fmt.Fprintf(&b, "    data = %s,\n", pyList(t.Data))
		}
		b.WriteString("    visibility = [\"PUBLIC\"],\n)\n\n")
	}
	return b.String()
}

// Spec renders the C11 repository as a plain e2e.Spec: one package without e2e targets whose files
// include the rendered BUILD file (Repo.Write lets package files override the generated BUILD).
func (s *C11Spec) Spec(logPath string) *Spec {
	p := &Pkg{Files: map[string]string{"BUILD": s.buildFile(logPath)}}
	for k, v := range s.Files {
		p.Files[k] = v
	}
	return &Spec{Pkgs: map[string]*Pkg{C11Pkg: p}}
}

// ---------------------------------------------------------------------------------------------
// The test directory as core.IterRuntimeFiles lays it out.

type C11Node struct {
	Dir     bool        `json:"dir,omitempty"`
	Content string      `json:"content,omitempty"`
	Entries [][2]string `json:"entries,omitempty"` // (name, content), sorted by name (one level)
}

type C11RFile struct {
	Role string  `json:"role"` // out | data
	Dest string  `json:"dest"` // path inside the test directory
	Node C11Node `json:"node"`
}

// IsDataDir says whether the local data entry d is a directory of the package.
func (s *C11Spec) IsDataDir(d string) bool {
	for f := range s.Files {
		if strings.HasPrefix(f, d+"/") {
			return true
		}
	}
	return false
}

// RuntimeFiles lists (before de-duplication by destination) what IterRuntimeFiles yields for t:
// the target's outputs, then every data entry in declaration order.
func (s *C11Spec) RuntimeFiles(t *C11Test) []C11RFile {
	bin := ""
	for _, src := range t.Srcs {
		bin += s.Files[src]
	}
	out := []C11RFile{{Role: "out", Dest: t.Out, Node: C11Node{Content: bin}}}
	for _, d := range t.Data {
		switch {
		case strings.HasPrefix(d, ":") && s.Group(d[1:]) != nil:
			// a filegroup of source files: one runtime file per source, at the source's own path
			for _, src := range s.Group(d[1:]).Srcs {
				out = append(out, C11RFile{Role: "data", Dest: C11Pkg + "/" + src, Node: C11Node{Content: s.Files[src]}})
			}
		case strings.HasPrefix(d, ":"):
			g := s.Gen(d[1:])
			out = append(out, C11RFile{Role: "data", Dest: C11Pkg + "/" + g.Out, Node: C11Node{Content: g.Content + "\n"}})
		case s.IsDataDir(d):
			n := C11Node{Dir: true}
			for f, c := range s.Files {
				if strings.HasPrefix(f, d+"/") {
					n.Entries = append(n.Entries, [2]string{f[len(d)+1:], c})
				}
			}
			sort.Slice(n.Entries, func(i, j int) bool { return n.Entries[i][0] < n.Entries[j][0] })
			out = append(out, C11RFile{Role: "data", Dest: C11Pkg + "/" + d, Node: n})
		default:
			out = append(out, C11RFile{Role: "data", Dest: C11Pkg + "/" + d, Node: C11Node{Content: s.Files[d]}})
		}
	}
	return out
}

// TestDir is the content of the test directory: destination -> node, the first entry per destination wins.
func TestDir(files []C11RFile) map[string]C11Node {
	m := map[string]C11Node{}
	for _, f := range files {
		if _, ok := m[f.Dest]; !ok {
			m[f.Dest] = f.Node
		}
	}
	return m
}

// Expected is the outcome of running t's test command in a correctly prepared test directory, without test
// arguments and under the default config.
func (s *C11Spec) Expected(t *C11Test) bool { return s.ExpectedInv(t, C11Inv{}) }

// ExpectedInv is the outcome of the invocation inv: the effective command of inv.Config, given inv.Args.
func (s *C11Spec) ExpectedInv(t *C11Test, inv C11Inv) bool {
	op, arg := t.Effective(inv.Config)
	first := ""
	if len(inv.Args) > 0 {
		first = inv.Args[0]
	}
	files := s.RuntimeFiles(t)
	dir := TestDir(files)
	has := func(n C11Node, w string) bool {
		if !n.Dir {
			return strings.Contains(n.Content, w)
		}
		for _, e := range n.Entries {
			if strings.Contains(e[1], w) {
				return true
			}
		}
		return false
	}
	switch op {
	case "passif":
		for _, f := range files {
			if f.Role == "data" && has(dir[f.Dest], arg) {
				return true
			}
		}
		return false
	case "binok":
		return has(dir[t.Out], arg)
	case "exists":
		if len(inv.Args) > 0 {
			return false // `test -e P a`: usage error
		}
		if _, ok := dir[arg]; ok {
			return true
		}
		if i := strings.LastIndexByte(arg, '/'); i > 0 {
			if n, ok := dir[arg[:i]]; ok && n.Dir {
				for _, e := range n.Entries {
					if e[0] == arg[i+1:] {
						return true
					}
				}
			}
		}
		return false
	case "true":
		return true
	case "argis":
		return first == arg
	case "argisnot":
		return first != arg
	case "filehas":
		w, dest := C11FileHasArg(arg)
		n, ok := dir[dest]
		return ok && !n.Dir && strings.Contains(n.Content, w)
	}
	return false
}

// C11FileHasArg splits the argument "W P" of the filehas command.
func C11FileHasArg(arg string) (w, dest string) {
	i := strings.IndexByte(arg, ' ')
	if i < 0 {
		panic("filehas wants \"W PATH\", got " + arg)
	}
	return arg[:i], arg[i+1:]
}

// RuntimeInputs is a canonical text of everything the property calls the test's runtime inputs: the
// EFFECTIVE test command (under build config cfg) and the test directory (names and contents).
func (s *C11Spec) RuntimeInputs(t *C11Test, cfg, logPath string) string {
	dir := TestDir(s.RuntimeFiles(t))
	keys := make([]string, 0, len(dir))
	for k := range dir {
		keys = append(keys, k)
	}
	sort.Strings(keys)
	var b strings.Builder
	fmt.Fprintf(&b, "cmd=%q\n", t.EffectiveCmd(cfg, logPath))
	for _, k := range keys {
		fmt.Fprintf(&b, "%s=%q %v\n", k, dir[k].Content, dir[k].Entries)
	}
	return b.String()
}

// ---------------------------------------------------------------------------------------------
// Observing `plz test`

type C11Outcome struct {
	Present bool `json:"present"` // a suite for the target is in test_results.xml
	Passed  bool `json:"passed"`
	Cached  bool `json:"cached"` // reported as a cached result
	Ran     bool `json:"ran"`    // the test command was executed in this invocation (action log)
	Built   bool `json:"built"`  // the build command was executed in this invocation
}

type c11Suites struct {
	Suites []struct {
		Name     string `xml:"name,attr"`
		Package  string `xml:"package,attr"`
		Tests    int    `xml:"tests,attr"`
		Errors   int    `xml:"errors,attr"`
		Failures int    `xml:"failures,attr"`
		Props    []struct {
			Name  string `xml:"name,attr"`
			Value string `xml:"value,attr"`
		} `xml:"properties>property"`
	} `xml:"testsuite"`
}

// C11Results reads plz-out/log/test_results.xml and the action log of the last invocation.
func (r *Repo) C11Results(s *C11Spec, res Result) map[string]C11Outcome {
	out := map[string]C11Outcome{}
	var doc c11Suites
	data, err := os.ReadFile(filepath.Join(r.Dir, "plz-out", "log", "test_results.xml"))
	if err == nil {
		xml.Unmarshal(data, &doc)
	}
	for _, t := range s.Tests {
		o := C11Outcome{}
		for _, su := range doc.Suites {
			if su.Name == t.Name && su.Package == C11Pkg {
				o.Present = true
				o.Passed = su.Errors == 0 && su.Failures == 0 && su.Tests > 0
				for _, p := range su.Props {
					if p.Name == "cached" && p.Value == "true" {
						o.Cached = true
					}
				}
			}
		}
		for _, l := range res.Executed {
			if l == "T"+t.Label() {
				o.Ran = true
			}
			if l == t.Label() {
				o.Built = true
			}
		}
		out[t.Name] = o
	}
	return out
}

// C11CacheKeys counts the distinct keys under which the directory cache holds a test result of t.
func (r *Repo) C11CacheKeys(t *C11Test) int {
	if r.CacheDir == "" {
		return 0
	}
	es, _ := os.ReadDir(filepath.Join(r.CacheDir, C11Pkg, t.Name))
	n := 0
	for _, e := range es {
		if _, err := os.Stat(filepath.Join(r.CacheDir, C11Pkg, t.Name, e.Name(), ".test_results_"+t.Name)); err == nil {
			n++
		}
	}
	return n
}

// ---------------------------------------------------------------------------------------------
// Editing source files the way an editor does

// C11WriteFiles brings the existing files of the package whose content differs from the spec up to date,
// either IN PLACE (open, truncate, write: the inode - and every hard link to it, e.g. a filegroup output in
// plz-out/gen - is kept) or by REPLACING the file (write a temporary file, rename it over the old one: a
// new inode). New files and the BUILD file are left to Repo.Write. It returns, per rewritten file,
// whether the inode number stayed the same.
func (r *Repo) C11WriteFiles(s *C11Spec, replace bool) map[string]bool {
	same := map[string]bool{}
	for f, want := range s.Files {
		path := filepath.Join(r.Dir, C11Pkg, f)
		old, err := os.ReadFile(path)
		if err != nil || string(old) == want {
			continue
		}
		before := inode(path)
		if replace {
			tmp := path + ".c11tmp"
			must(os.WriteFile(tmp, []byte(want), 0o644))
			must(os.Rename(tmp, path))
		} else {
			fh, err := os.OpenFile(path, os.O_WRONLY|os.O_TRUNC, 0)
			must(err)
			_, err = fh.WriteString(want)
			must(err)
			must(fh.Close())
		}
		same[f] = before == inode(path)
	}
	return same
}

func inode(path string) uint64 {
	var st syscall.Stat_t
	if syscall.Lstat(path, &st) != nil {
		return 0
	}
	return st.Ino
}

// C11XattrsWork says whether user extended attributes can be set and read back on files under dir (plz
// keeps the runtime key of a test result, and content hashes of outputs, in user xattrs).
func C11XattrsWork(dir string) bool {
	path := filepath.Join(dir, ".c11-xattr-probe")
	if os.WriteFile(path, []byte("x"), 0o644) != nil {
		return false
	}
	defer os.Remove(path)
	if syscall.Setxattr(path, "user.c11_probe", []byte("v"), 0) != nil {
		return false
	}
	buf := make([]byte, 8)
	n, err := syscall.Getxattr(path, "user.c11_probe", buf)
	return err == nil && string(buf[:n]) == "v"
}

// C11PlzArgs is the command line of the invocation.
func (inv C11Inv) PlzArgs() []string {
	args := []string{"test"}
	if inv.Config != "" {
		args = append(args, "-c", inv.Config)
	}
	if len(inv.Args) > 0 {
		args = append(args, "//"+C11Pkg+":all", "--")
		args = append(args, inv.Args...)
	}
	return args
}
