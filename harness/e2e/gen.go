package e2e

import (
	"fmt"
	"path/filepath"
	"sort"
	"strings"

	"verifharness/lib"
)

// GenOpts steers the repository generator.
type GenOpts struct {
	MaxPkgs, MaxTargets int
	DirOutputs          bool // allow targets whose output is a directory / output_dirs
	Tests               bool
	EnvTargets          bool
}

var pkgNames = []string{"p", "q", "p/sub", "r"}
var fileNames = []string{"a.txt", "b.txt", "c.txt", "d.txt", "e.txt"}
var contents = []string{"alpha\n", "beta\n", "gamma\n", "", "x", "xy", "y\n"}

// producesDir says whether the single declared output of t is a directory.
func producesDir(t *Target) bool { return t.Cmd.Op == "copydir" }

// fileTargets / dirTargets: labels usable as sources by later targets.
func collect(s *Spec, order []string, pred func(*Target) bool) []string {
	var out []string
	for _, l := range order {
		if t := s.Target(l); t != nil && pred(t) {
			out = append(out, l)
		}
	}
	return out
}

// GenSpec generates a repository. `order` lists the labels in creation order (dependencies first).
func GenSpec(r *lib.Rng, o GenOpts) (*Spec, []string) {
	s := &Spec{Pkgs: map[string]*Pkg{}}
	var order []string
	npk := r.Range(1, max(1, o.MaxPkgs))
	for i := 0; i < npk; i++ {
		pn := pkgNames[i]
		p := &Pkg{Files: map[string]string{}}
		for _, f := range fileNames[:r.Range(2, 4)] {
			p.Files[f] = lib.Pick(r, contents) + pn + f[:1]
		}
		s.Pkgs[pn] = p
	}
	pkgs := lib.SortedKeys(s.Pkgs)
	nt := r.Range(2, max(2, o.MaxTargets))
	for i := 0; i < nt; i++ {
		pn := lib.Pick(r, pkgs)
		t := genTarget(r, s, order, pn, fmt.Sprintf("t%d", i), o)
		s.Pkgs[pn].Targets = append(s.Pkgs[pn].Targets, t)
		order = append(order, "//"+pn+":"+t.Name)
	}
	return s, order
}

func localFiles(s *Spec, pn string) []string {
	fs := lib.SortedKeys(s.Pkgs[pn].Files)
	return fs
}

func isFileProducer(t *Target) bool {
	if t.Kind == "gentest" {
		return false
	}
	return !producesDir(t) && t.Cmd.Op != "outdir" && t.Cmd.Op != "fail"
}

func genTarget(r *lib.Rng, s *Spec, order []string, pn, name string, o GenOpts) *Target {
	files := localFiles(s, pn)
	fileDeps := collect(s, order, isFileProducer)
	dirDeps := collect(s, order, producesDir)
	pickSrcs := func(min int) []string {
		var srcs []string
		n := r.Range(min, 3)
		seen := map[string]bool{}
		for i := 0; i < n; i++ {
			var x string
			if len(fileDeps) > 0 && r.Chance(1, 2) {
				x = lib.Pick(r, fileDeps)
			} else if len(files) > 0 {
				x = lib.Pick(r, files)
			} else {
				continue
			}
			if !seen[x] {
				seen[x] = true
				srcs = append(srcs, x)
			}
		}
		return srcs
	}
	kinds := []string{"concat", "concat", "concat", "const", "filegroup", "text_file", "concat2"}
	if o.DirOutputs {
		kinds = append(kinds, "copydir", "copydir", "outdir")
		if len(dirDeps) > 0 {
			kinds = append(kinds, "listnames", "listnames", "listnames")
		}
	}
	if o.EnvTargets {
		kinds = append(kinds, "envdump")
	}
	switch k := lib.Pick(r, kinds); k {
	case "concat":
		return &Target{Name: name, Kind: "genrule", Srcs: pickSrcs(1), Outs: []string{name + ".out"}, Cmd: Cmd{Op: "concat"}}
	case "concat2":
		return &Target{Name: name, Kind: "genrule", Srcs: pickSrcs(1), Outs: []string{name + ".out", name + ".n"}, Cmd: Cmd{Op: "concat"}}
	case "const":
		return &Target{Name: name, Kind: "genrule", Outs: []string{name + ".out"}, Cmd: Cmd{Op: "const", Arg: lib.Pick(r, []string{"one", "two", "three"})}}
	case "filegroup":
		n := r.Range(1, min(2, len(files)))
		return &Target{Name: name, Kind: "filegroup", Srcs: append([]string{}, files[:n]...)}
	case "text_file":
		return &Target{Name: name, Kind: "text_file", Content: lib.Pick(r, []string{"hello\n", "world\n", "k=v\n"}), Outs: []string{name + ".txt"}}
	case "copydir":
		srcs := []string{}
		for _, f := range files {
			if r.Chance(2, 3) {
				srcs = append(srcs, f)
			}
		}
		if len(srcs) == 0 {
			srcs = files[:1]
		}
		return &Target{Name: name, Kind: "genrule", Srcs: srcs, Outs: []string{name + "_dir"}, Cmd: Cmd{Op: "copydir"}, OutIsDir: true}
	case "outdir":
		srcs := append([]string{}, files[:r.Range(1, len(files))]...)
		return &Target{Name: name, Kind: "genrule", Srcs: srcs, Outs: []string{name + ".marker"}, OutDirs: []string{"_o"}, Cmd: Cmd{Op: "outdir"}}
	case "listnames":
		return &Target{Name: name, Kind: "genrule", Srcs: []string{lib.Pick(r, dirDeps)}, Outs: []string{name + ".names"}, Cmd: Cmd{Op: "listnames"}}
	case "envdump":
		t := &Target{Name: name, Kind: "genrule", Outs: []string{name + ".env"}, Cmd: Cmd{Op: "envdump", Arg: "VERIF_A VERIF_B TOOLVAR"}}
		if r.Chance(1, 2) {
			t.PassEnv = []string{"VERIF_A"}
		}
		if r.Chance(1, 2) {
			t.Env = map[string]string{"TOOLVAR": lib.Pick(r, []string{"1", "two"})}
		}
		return t
	}
	panic("unreachable")
}

// ---------------------------------------------------------------------------------------------
// Edits

type Edit struct {
	Kind string `json:"kind"`
	What string `json:"what"`
}

// ApplyRandomEdit mutates s (and order) by one random edit and describes it. Edits keep the repository
// buildable (no dangling references) unless stated.
func ApplyRandomEdit(r *lib.Rng, s *Spec, order *[]string, o GenOpts, counter int) Edit {
	pkgs := lib.SortedKeys(s.Pkgs)
	for attempt := 0; attempt < 50; attempt++ {
		pn := lib.Pick(r, pkgs)
		p := s.Pkgs[pn]
		files := localFiles(s, pn)
		switch k := lib.Pick(r, []string{"content", "content", "content", "rename-in-dir", "rename-in-dir", "add-src", "drop-src", "cmd", "outs", "comment", "add-target", "remove-target", "swap-srcs", "same-content", "text", "add-file-unused"}); k {
		case "content":
			f := lib.Pick(r, files)
			nc := lib.Pick(r, contents) + fmt.Sprint(counter)
			p.Files[f] = nc
			return Edit{k, pn + "/" + f + " := " + fmt.Sprintf("%q", nc)}
		case "same-content": // rewrite a file with identical content (touch)
			f := lib.Pick(r, files)
			return Edit{k, pn + "/" + f}
		case "add-file-unused":
			f := fmt.Sprintf("n%d.txt", counter)
			p.Files[f] = "new" + fmt.Sprint(counter)
			return Edit{k, pn + "/" + f}
		case "rename-in-dir": // rename a source that is copied into an output directory by its base name
			for _, t := range p.Targets {
				if (t.Cmd.Op == "copydir" || t.Cmd.Op == "outdir") && len(t.Srcs) > 0 {
					i := r.Intn(len(t.Srcs))
					old := t.Srcs[i]
					if strings.HasPrefix(old, "//") {
						continue
					}
					nn := fmt.Sprintf("r%d.txt", counter)
					p.Files[nn] = p.Files[old]
					t.Srcs[i] = nn
					used := false
					for _, t2 := range p.Targets {
						for _, x := range t2.Srcs {
							if x == old {
								used = true
							}
						}
					}
					if !used {
						delete(p.Files, old)
					}
					return Edit{k, fmt.Sprintf("//%s:%s src %s -> %s (same content)", pn, t.Name, old, nn)}
				}
			}
		case "add-src":
			for _, t := range shuffled(r, p.Targets) {
				if t.Kind == "genrule" && (t.Cmd.Op == "concat" || t.Cmd.Op == "copydir") {
					for _, f := range files {
						if !contains(t.Srcs, f) {
							t.Srcs = append(t.Srcs, f)
							return Edit{k, fmt.Sprintf("//%s:%s += %s", pn, t.Name, f)}
						}
					}
				}
			}
		case "drop-src":
			for _, t := range shuffled(r, p.Targets) {
				if t.Kind == "genrule" && len(t.Srcs) > 1 && t.Cmd.Op != "listnames" {
					i := r.Intn(len(t.Srcs))
					x := t.Srcs[i]
					t.Srcs = append(append([]string{}, t.Srcs[:i]...), t.Srcs[i+1:]...)
					return Edit{k, fmt.Sprintf("//%s:%s -= %s", pn, t.Name, x)}
				}
			}
		case "swap-srcs":
			for _, t := range shuffled(r, p.Targets) {
				if t.Kind == "genrule" && len(t.Srcs) > 1 && t.Cmd.Op == "concat" {
					t.Srcs[0], t.Srcs[1] = t.Srcs[1], t.Srcs[0]
					return Edit{k, fmt.Sprintf("//%s:%s swap first two srcs", pn, t.Name)}
				}
			}
		case "cmd":
			for _, t := range shuffled(r, p.Targets) {
				if t.Cmd.Op == "const" {
					t.Cmd.Arg = fmt.Sprintf("v%d", counter)
					return Edit{k, fmt.Sprintf("//%s:%s const -> %s", pn, t.Name, t.Cmd.Arg)}
				}
			}
		case "text":
			for _, t := range shuffled(r, p.Targets) {
				if t.Kind == "text_file" {
					t.Content = fmt.Sprintf("text %d\n", counter)
					return Edit{k, fmt.Sprintf("//%s:%s content", pn, t.Name)}
				}
			}
		case "outs": // rename the output of a target nobody depends on
			for _, t := range shuffled(r, p.Targets) {
				if t.Kind == "genrule" && len(t.Outs) == 1 && !hasDependents(s, "//"+pn+":"+t.Name) && t.Cmd.Op != "outdir" {
					t.Outs[0] = fmt.Sprintf("%s.o%d", t.Name, counter)
					return Edit{k, fmt.Sprintf("//%s:%s out -> %s", pn, t.Name, t.Outs[0])}
				}
			}
		case "comment":
			if len(p.Targets) > 0 {
				t := lib.Pick(r, p.Targets)
				t.Comment = fmt.Sprintf("note %d", counter)
				return Edit{k, fmt.Sprintf("//%s:%s comment", pn, t.Name)}
			}
		case "add-target":
			name := fmt.Sprintf("n%d", counter)
			t := genTarget(r, s, *order, pn, name, o)
			p.Targets = append(p.Targets, t)
			*order = append(*order, "//"+pn+":"+name)
			return Edit{k, "//" + pn + ":" + name + " (" + t.Kind + "/" + t.Cmd.Op + ")"}
		case "remove-target":
			for i, t := range p.Targets {
				l := "//" + pn + ":" + t.Name
				if !hasDependents(s, l) && len(s.Labels()) > 2 {
					p.Targets = append(append([]*Target{}, p.Targets[:i]...), p.Targets[i+1:]...)
					no := []string{}
					for _, x := range *order {
						if x != l {
							no = append(no, x)
						}
					}
					*order = no
					return Edit{k, l}
				}
			}
		}
	}
	return Edit{"none", ""}
}

func shuffled(r *lib.Rng, ts []*Target) []*Target {
	out := append([]*Target{}, ts...)
	lib.Shuffle(r, out)
	return out
}

func contains(xs []string, x string) bool {
	for _, y := range xs {
		if y == x {
			return true
		}
	}
	return false
}

func hasDependents(s *Spec, label string) bool {
	for _, p := range s.Pkgs {
		for _, t := range p.Targets {
			if contains(t.Srcs, label) || contains(t.Deps, label) || contains(t.Data, label) || contains(t.Tools, label) {
				return true
			}
		}
	}
	return false
}

// DepsOf returns the labels t refers to in srcs/deps/data.
func DepsOf(t *Target) []string {
	var out []string
	for _, x := range append(append(append(append([]string{}, t.Srcs...), t.Deps...), t.Data...), t.Tools...) {
		if strings.HasPrefix(x, "//") {
			out = append(out, x)
		}
	}
	sort.Strings(out)
	return out
}

// Definition is the text of the target's BUILD entry without comments: what "its own definition" means.
func Definition(s *Spec, label, logPath string) string {
	pkg, _ := SplitLabel(label)
	t := s.Target(label)
	if t == nil {
		return ""
	}
	c := *t
	c.Comment = ""
	return c.Render(pkg, logPath)
}

// LocalInputs returns path -> content of the source files (not labels) a target reads.
func LocalInputs(s *Spec, label string) map[string]string {
	pkg, _ := SplitLabel(label)
	t := s.Target(label)
	out := map[string]string{}
	if t == nil {
		return out
	}
	for _, x := range append(append([]string{}, t.Srcs...), t.Data...) {
		if !strings.HasPrefix(x, "//") {
			out[filepath.Join(pkg, x)] = s.Pkgs[pkg].Files[x]
		}
	}
	return out
}
