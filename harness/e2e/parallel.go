package e2e

import (
	"fmt"
	"os"
	"sync"

	"verifharness/lib"
)

// RunHistories runs n independent histories, `workers` at a time, each in its own scratch subdirectory of
// base, and returns them in index order. Every history gets its own generator forked from r IN ORDER, so
// the result does not depend on scheduling.
func RunHistories(r *lib.Rng, base string, n, workers int, o HistOpts) [][]Step {
	rngs := make([]*lib.Rng, n)
	for i := range rngs {
		rngs[i] = r.Fork()
	}
	out := make([][]Step, n)
	var wg sync.WaitGroup
	sem := make(chan struct{}, workers)
	for i := 0; i < n; i++ {
		wg.Add(1)
		sem <- struct{}{}
		go func(i int) {
			defer wg.Done()
			defer func() { <-sem }()
			dir := fmt.Sprintf("%s/h%d", base, i)
			os.MkdirAll(dir, 0o755)
			out[i] = RunHistory(rngs[i], dir, o)
			os.RemoveAll(dir)
		}(i)
	}
	wg.Wait()
	return out
}
