package e2e

// Engine histories for C01 / C03 / C02: repositories in the fragment the Coq model Model/Engine.v covers
// (genrules concat/const/copydir/listnames/fail, filegroups, text_files), histories whose every step is one
// real `plz build`, and the printers that turn a history into a Coq `Engine.case`.

import (
	"crypto/sha256"
	"encoding/hex"
	"encoding/json"
	"fmt"
	"os"
	"sort"
	"strings"
	"sync"
	"time"

	"verifharness/lib"
)

type EngOpts struct {
	MaxPkgs, MaxTargets int
	Steps               int
	Cache               string // "" | "dir" | "dircompress"
	CleanRef            bool   // clean reference build (fresh directory, no cache) after every step
	Subsets             bool   // some steps request a subset of the targets
	Failures            bool   // some edits make a genrule fail / repair it; plz runs with --keep_going
	PWipe, PRevert      int    // percent of steps that delete plz-out / go back to an earlier tree
	PNoop               int    // percent of steps that rebuild the unchanged tree
	DirHeavy            bool   // prefer directory outputs and renames inside them
	Rebuild             bool   // every successful build is followed at once by a second build of the unchanged tree
	Threads             int
	cleanMemo           map[string]EngStep // clean reference results by (tree, request): a tree seen again is not rebuilt
}

type EngStep struct {
	Index     int                         `json:"index"`
	Edit      Edit                        `json:"edit"`
	Wipe      bool                        `json:"wipe"`
	Cache     bool                        `json:"cache"`
	Spec      *Spec                       `json:"spec"`
	Order     []string                    `json:"order"`
	Requested []string                    `json:"requested"`
	Exit      int                         `json:"exit"`
	Executed  []string                    `json:"executed"`
	Outputs   map[string]map[string]*Node `json:"-"`
	OutStr    map[string]string           `json:"outputs"`
	CleanExit int                         `json:"clean_exit"`
	Clean     map[string]map[string]*Node `json:"-"`
	CleanStr  map[string]string           `json:"clean_outputs,omitempty"`
	CleanExec []string                    `json:"clean_executed,omitempty"`
	Stderr    string                      `json:"stderr,omitempty"`
	Stdout    string                      `json:"-"`
	LogPath   string                      `json:"-"`
}

func engModelled(t *Target) bool {
	switch t.Kind {
	case "filegroup", "text_file":
		return true
	case "genrule":
		switch t.Cmd.Op {
		case "concat", "const", "copydir", "listnames", "fail":
			return len(t.OutDirs) == 0
		}
	}
	return false
}

func engGenTarget(r *lib.Rng, s *Spec, order []string, pn, name string, o EngOpts) *Target {
	g := GenOpts{MaxPkgs: o.MaxPkgs, MaxTargets: o.MaxTargets, DirOutputs: true}
	for {
		t := genTarget(r, s, order, pn, name, g)
		if !engModelled(t) {
			continue
		}
		if o.DirHeavy && t.Cmd.Op != "copydir" && t.Cmd.Op != "listnames" && r.Chance(1, 2) {
			continue
		}
		return t
	}
}

// EngGenSpec generates a repository inside the modelled fragment; `order` lists dependencies first.
func EngGenSpec(r *lib.Rng, o EngOpts) (*Spec, []string) {
	s := &Spec{Pkgs: map[string]*Pkg{}}
	var order []string
	npk := r.Range(1, max(1, o.MaxPkgs))
	for i := 0; i < npk; i++ {
		pn := pkgNames[i]
		p := &Pkg{Files: map[string]string{}}
		for _, f := range fileNames[:r.Range(2, 4)] {
			p.Files[f] = lib.Pick(r, contents) + pn + f[:1]
		}
		s.Pkgs[pn] = p
	}
	pkgs := lib.SortedKeys(s.Pkgs)
	nt := r.Range(2, max(2, o.MaxTargets))
	for i := 0; i < nt; i++ {
		pn := lib.Pick(r, pkgs)
		t := engGenTarget(r, s, order, pn, fmt.Sprintf("t%d", i), o)
		s.Pkgs[pn].Targets = append(s.Pkgs[pn].Targets, t)
		order = append(order, "//"+pn+":"+t.Name)
	}
	return s, order
}

func engAllModelled(s *Spec) bool {
	for _, p := range s.Pkgs {
		for _, t := range p.Targets {
			if !engModelled(t) {
				return false
			}
		}
	}
	return true
}

// engEdit applies one random edit that stays inside the modelled fragment.
func engEdit(r *lib.Rng, s *Spec, order *[]string, o EngOpts, counter int) (*Spec, Edit) {
	g := GenOpts{MaxPkgs: o.MaxPkgs, MaxTargets: o.MaxTargets, DirOutputs: true}
	for attempt := 0; attempt < 40; attempt++ {
		c := s.Clone()
		ord := append([]string{}, (*order)...)
		if o.Failures && r.Chance(1, 5) {
			if ed, ok := engBreakOrFix(r, c); ok {
				return c, ed
			}
		}
		if o.DirHeavy && r.Chance(1, 2) {
			if ed, ok := engDirEdit(r, c, counter); ok {
				return c, ed
			}
		}
		ed := ApplyRandomEdit(r, c, &ord, g, counter)
		if ed.Kind == "none" || !engAllModelled(c) || len(c.Labels()) > o.MaxTargets+2 {
			continue
		}
		*order = ord
		return c, ed
	}
	return s.Clone(), Edit{"none", ""}
}

// engDirEdit: edits aimed at the directory-hash boundary: rename a file copied into an output directory
// (same content), or swap the contents of two of its files.
func engDirEdit(r *lib.Rng, s *Spec, counter int) (Edit, bool) {
	for _, pn := range lib.SortedKeys(s.Pkgs) {
		p := s.Pkgs[pn]
		for _, t := range shuffled(r, p.Targets) {
			if t.Cmd.Op != "copydir" || len(t.Srcs) == 0 {
				continue
			}
			if len(t.Srcs) >= 2 && r.Chance(1, 3) {
				a, b := t.Srcs[0], t.Srcs[1]
				if strings.HasPrefix(a, "//") || strings.HasPrefix(b, "//") {
					continue
				}
				// move a byte from the end of one file to the front of the next one in walk order
				x, y := a, b
				if x > y {
					x, y = y, x
				}
				cx := p.Files[x]
				if len(cx) == 0 {
					continue
				}
				p.Files[y] = cx[len(cx)-1:] + p.Files[y]
				p.Files[x] = cx[:len(cx)-1]
				return Edit{"shift-byte-in-dir", fmt.Sprintf("%s/%s -> %s", pn, x, y)}, true
			}
			i := r.Intn(len(t.Srcs))
			old := t.Srcs[i]
			if strings.HasPrefix(old, "//") {
				continue
			}
			nn := fmt.Sprintf("r%d.txt", counter)
			p.Files[nn] = p.Files[old]
			t.Srcs[i] = nn
			used := false
			for _, t2 := range p.Targets {
				for _, x := range t2.Srcs {
					if x == old {
						used = true
					}
				}
			}
			if !used {
				delete(p.Files, old)
			}
			return Edit{"rename-in-dir", fmt.Sprintf("//%s:%s src %s -> %s (same content)", pn, t.Name, old, nn)}, true
		}
	}
	return Edit{}, false
}

func engBreakOrFix(r *lib.Rng, s *Spec) (Edit, bool) {
	var broken, healthy []*Target
	var bl, hl []string
	for _, l := range s.Labels() {
		t := s.Target(l)
		if t.Kind != "genrule" {
			continue
		}
		if t.Cmd.Op == "fail" {
			broken, bl = append(broken, t), append(bl, l)
		} else if t.Cmd.Op == "concat" || t.Cmd.Op == "const" {
			healthy, hl = append(healthy, t), append(hl, l)
		}
	}
	if len(broken) > 0 && (len(healthy) == 0 || r.Chance(1, 2)) {
		i := r.Intn(len(broken))
		t := broken[i]
		t.Cmd = Cmd{Op: t.Cmd.Args[0], Arg: t.Cmd.Args[1]}
		return Edit{"fix", bl[i]}, true
	}
	if len(healthy) > 0 {
		i := r.Intn(len(healthy))
		t := healthy[i]
		t.Cmd = Cmd{Op: "fail", Args: []string{t.Cmd.Op, t.Cmd.Arg}}
		return Edit{"break", hl[i]}, true
	}
	return Edit{}, false
}

// EngRunHistory generates a repository and a history and runs the real plz at every step.
func EngRunHistory(r *lib.Rng, base string, o EngOpts) []EngStep {
	spec, order := EngGenSpec(r, o)
	o.cleanMemo = map[string]EngStep{}
	repo := NewRepo(base, "repo")
	repo.Threads = o.Threads
	if o.Cache != "" {
		repo.CacheDir = base + "/cache"
		repo.Compress = o.Cache == "dircompress"
	}
	var steps []EngStep
	var past []*Spec
	var pastOrder [][]string
	for i := 0; i <= o.Steps; i++ {
		ed := Edit{"initial", ""}
		wipe := false
		if i > 0 {
			x := r.Intn(100)
			switch {
			case x < o.PWipe:
				repo.RemovePlzOut()
				wipe = true
				ed = Edit{"rm-plz-out", ""}
				if len(past) > 1 && r.Chance(1, 2) { // and move the tree, typically back
					k := r.Intn(len(past))
					spec, order = past[k].Clone(), append([]string{}, pastOrder[k]...)
					ed = Edit{"rm-plz-out+revert", fmt.Sprintf("to state %d", k)}
				}
			case x < o.PWipe+o.PRevert && len(past) > 1:
				k := r.Intn(len(past) - 1)
				spec, order = past[k].Clone(), append([]string{}, pastOrder[k]...)
				ed = Edit{"revert", fmt.Sprintf("to state %d", k)}
			case x < o.PWipe+o.PRevert+o.PNoop:
				ed = Edit{"none", "rebuild"}
			default:
				spec, ed = engEdit(r, spec, &order, o, i)
			}
		}
		past = append(past, spec.Clone())
		pastOrder = append(pastOrder, append([]string{}, order...))
		repo.Write(spec)
		req := spec.Labels()
		if o.Subsets && i > 0 && r.Chance(1, 4) {
			var sub []string
			for _, l := range req {
				if r.Chance(1, 2) {
					sub = append(sub, l)
				}
			}
			if len(sub) > 0 {
				req = sub
			}
		}
		st := EngBuild(repo, base, spec, order, req, i, ed, wipe, o)
		steps = append(steps, st)
		if o.Rebuild && st.Exit == 0 {
			o2 := o
			o2.CleanRef = false
			st2 := EngBuild(repo, base, spec, order, req, i, Edit{"rebuild", "unchanged tree"}, false, o2)
			st2.CleanExit, st2.CleanExec, st2.Clean, st2.CleanStr = st.CleanExit, st.CleanExec, st.Clean, st.CleanStr
			steps = append(steps, st2)
		}
	}
	return steps
}

// EngBuild runs one `plz build req` (and the clean reference, if asked) and reads back the observables.
func EngBuild(repo *Repo, base string, spec *Spec, order, req []string, index int, ed Edit, wipe bool, o EngOpts) EngStep {
	args := []string{"build"}
	if o.Failures {
		args = append(args, "--keep_going")
	}
	res := repo.Run(90*time.Second, append(args, req...)...)
	st := EngStep{Index: index, Edit: ed, Wipe: wipe, Cache: o.Cache != "", Spec: spec.Clone(), Order: append([]string{}, order...),
		Requested: append([]string{}, req...), Exit: res.Exit, Executed: res.Executed, LogPath: repo.LogPath, Stdout: res.Stdout}
	st.Outputs = TargetOutputs(repo, spec, req)
	st.OutStr = map[string]string{}
	for l, m := range st.Outputs {
		st.OutStr[l] = outStr(m)
	}
	if res.Exit != 0 {
		st.Stderr = tail(res.Stderr+res.Stdout, 1200)
	}
	if o.CleanRef {
		js, _ := json.Marshal(spec)
		key := string(js) + "|" + strings.Join(req, " ")
		if m, ok := o.cleanMemo[key]; ok {
			st.CleanExit, st.CleanExec, st.Clean, st.CleanStr = m.CleanExit, m.CleanExec, m.Clean, m.CleanStr
			return st
		}
		clean := repo.CleanCopy(base, "clean", spec)
		cres := clean.Run(90*time.Second, append(args, req...)...)
		st.CleanExit, st.CleanExec = cres.Exit, cres.Executed
		st.Clean = TargetOutputs(clean, spec, req)
		st.CleanStr = map[string]string{}
		for l, m := range st.Clean {
			st.CleanStr[l] = outStr(m)
		}
		if o.cleanMemo != nil {
			o.cleanMemo[key] = st
		}
	}
	return st
}

// EngRunHistories runs n histories, `workers` at a time; the result does not depend on scheduling.
func EngRunHistories(r *lib.Rng, base string, n, workers int, o func(i int) EngOpts) [][]EngStep {
	rngs := make([]*lib.Rng, n)
	for i := range rngs {
		rngs[i] = r.Fork()
	}
	out := make([][]EngStep, n)
	var wg sync.WaitGroup
	sem := make(chan struct{}, workers)
	for i := 0; i < n; i++ {
		wg.Add(1)
		sem <- struct{}{}
		go func(i int) {
			defer wg.Done()
			defer func() { <-sem }()
			dir := fmt.Sprintf("%s/h%d", base, i)
			os.MkdirAll(dir, 0o755)
			out[i] = EngRunHistory(rngs[i], dir, o(i))
			os.RemoveAll(dir)
		}(i)
	}
	wg.Wait()
	return out
}

// ---------------------------------------------------------------------------------------------
// Coq terms

func defKey(s *Spec, label, logPath string) string {
	h := sha256.Sum256([]byte(Definition(s, label, logPath)))
	return hex.EncodeToString(h[:8])
}

func engKind(t *Target) string {
	switch t.Kind {
	case "filegroup":
		return "Filegroup"
	case "text_file":
		return lib.App("TextFile", lib.Str(t.Content))
	}
	switch t.Cmd.Op {
	case "concat":
		return "(Genrule Concat)"
	case "copydir":
		return "(Genrule CopyDir)"
	case "listnames":
		return "(Genrule ListNames)"
	case "const":
		return lib.App("Genrule", lib.App("Const", lib.Str(t.Cmd.Arg)))
	case "fail":
		return "(Genrule Fail)"
	}
	panic("engine model does not cover op " + t.Cmd.Op)
}

// EngRepoTerm prints the Spec as an Engine.repo (targets in dependency order).
func EngRepoTerm(s *Spec, order []string, logPath string) string {
	var files []string
	for _, pn := range lib.SortedKeys(s.Pkgs) {
		p := s.Pkgs[pn]
		for _, f := range lib.SortedKeys(p.Files) {
			files = append(files, lib.Pair(lib.Str(pn+"/"+f), lib.Str(p.Files[f])))
		}
	}
	var ts []string
	seen := map[string]bool{}
	labels := append([]string{}, order...)
	for _, l := range s.Labels() { // anything the order does not mention goes last
		labels = append(labels, l)
	}
	for _, l := range labels {
		t := s.Target(l)
		if t == nil || seen[l] {
			continue
		}
		seen[l] = true
		pkg, _ := SplitLabel(l)
		var srcs []string
		for _, x := range t.Srcs {
			if strings.HasPrefix(x, "//") {
				srcs = append(srcs, lib.App("SLabel", lib.Str(x)))
			} else {
				srcs = append(srcs, lib.App("SFile", lib.Str(x)))
			}
		}
		outs := t.Outs
		if t.Kind == "text_file" && len(outs) == 0 {
			outs = []string{t.Name}
		}
		ts = append(ts, lib.App("mkT", lib.Str(l), lib.Str(pkg), engKind(t), lib.List(srcs), lib.StrList(outs), lib.Str(defKey(s, l, logPath))))
	}
	return lib.App("mkR", lib.List(files), lib.List(ts))
}

func NodeTerm(n *Node) string {
	switch n.Kind {
	case "file":
		return lib.App("File", lib.Bool(n.Exec), lib.Str(n.Content))
	case "dir":
		keys := make([]string, 0, len(n.Entries))
		for k := range n.Entries {
			keys = append(keys, k)
		}
		sort.Strings(keys)
		var es []string
		for _, k := range keys {
			es = append(es, lib.Pair(lib.Str(k), NodeTerm(n.Entries[k])))
		}
		return lib.App("Dir", lib.List(es))
	case "link": // no command of the closed language creates one; make it visible as a mismatch
		return lib.App("File", "true", lib.Str("<symlink> "+n.Target))
	}
	panic("absent node has no term")
}

func optNodeTerm(n *Node) string {
	if n == nil || n.Kind == "absent" {
		return "None"
	}
	return lib.Some(NodeTerm(n))
}

// EngStepTerm prints one step with its observations as an Engine.step.
func EngStepTerm(st *EngStep) string {
	var outs []string
	for _, l := range st.Requested {
		m := st.Outputs[l]
		var os []string
		for _, o := range lib.SortedKeys(m) {
			os = append(os, lib.Pair(lib.Str(o), optNodeTerm(m[o])))
		}
		outs = append(outs, lib.Pair(lib.Str(l), lib.List(os)))
	}
	ex := append([]string{}, st.Executed...)
	sort.Strings(ex)
	return lib.App("mkStep", lib.Bool(st.Wipe), lib.Bool(st.Cache), EngRepoTerm(st.Spec, st.Order, st.LogPath), lib.StrList(st.Requested),
		lib.Bool(st.Exit == 0), lib.StrList(ex), lib.List(outs))
}

func EngCaseTerm(h []EngStep) string {
	var ss []string
	for i := range h {
		ss = append(ss, EngStepTerm(&h[i]))
	}
	return lib.App("History", lib.List(ss))
}

// EngKey identifies a history for the distinct count.
func EngKey(h []EngStep) string {
	var b strings.Builder
	for i := range h {
		fmt.Fprint(&b, h[i].Edit, h[i].Spec.Labels(), h[i].OutStr, "|")
	}
	return b.String()
}

// ---------------------------------------------------------------------------------------------
// Classification of stale outputs (shared by the C01 / C02 / C03 oracles)

// PathStream is the byte stream fs.PathHasher.hash feeds to the hash for a tree: a file is its content, a
// directory the contents of its files in sorted walk order (names, boundaries and nesting are not hashed).
func PathStream(n *Node) string {
	switch n.Kind {
	case "file":
		return n.Content
	case "link":
		return "\x02" + n.Target
	case "dir":
		var b strings.Builder
		for _, k := range lib.SortedKeys(n.Entries) {
			e := n.Entries[k]
			if e.Kind == "link" {
				b.WriteString("\x02")
			} else {
				b.WriteString(PathStream(e))
			}
		}
		return b.String()
	}
	return ""
}

// staleDirClass: got and want are different trees; if both are directories with the same path-hash stream
// the difference is invisible to moveOutput (build_step.go:750) and the class says what differs.
func staleDirClass(got, want *Node) string {
	if got == nil || want == nil || got.Kind != "dir" || want.Kind != "dir" || PathStream(got) != PathStream(want) {
		return ""
	}
	a, b := lib.SortedKeys(got.Entries), lib.SortedKeys(want.Entries)
	if strings.Join(a, "\x00") != strings.Join(b, "\x00") {
		return "stale-directory-output-after-entry-rename"
	}
	return "stale-directory-output-bytes-moved-between-files"
}

// StaleClass gives the narrow defect class of label's stale outputs (got vs want) in a step, or
// "stale-output" when the difference is not explained by the directory-hash defect.
func StaleClass(spec *Spec, label string, got, want map[string]map[string]*Node) string {
	if got[label] == nil || want[label] == nil {
		return "stale-output"
	}
	cls := ""
	for o, g := range got[label] {
		w := want[label][o]
		if w == nil {
			return "stale-output"
		}
		if g.Equal(w) {
			continue
		}
		c := staleDirClass(g, w)
		if c == "" {
			cls = ""
			break
		}
		cls = c
	}
	if cls != "" {
		return cls
	}
	// a dependent of a directory output that is itself stale in this step
	t := spec.Target(label)
	if t != nil {
		for _, d := range DepsOf(t) {
			if got[d] == nil || want[d] == nil {
				continue
			}
			for o, g := range got[d] {
				if w := want[d][o]; w != nil && !g.Equal(w) && staleDirClass(g, w) != "" {
					return "dependent-of-stale-directory-output-not-rebuilt"
				}
			}
		}
	}
	return "stale-output"
}

// ---------------------------------------------------------------------------------------------
// Fixed witness histories for the directory-hash defect (every run reproduces the listed findings)

type EngWitness struct {
	Name  string
	Specs []*Spec
	Order []string
}

func witnessSpec(files map[string]string, dirSrcs []string, withList bool) *Spec {
	p := &Pkg{Files: files}
	p.Targets = append(p.Targets, &Target{Name: "d", Kind: "genrule", Srcs: dirSrcs, Outs: []string{"d_dir"}, Cmd: Cmd{Op: "copydir"}, OutIsDir: true})
	if withList {
		p.Targets = append(p.Targets, &Target{Name: "l", Kind: "genrule", Srcs: []string{"//p:d"}, Outs: []string{"l.names"}, Cmd: Cmd{Op: "listnames"}})
	}
	return &Spec{Pkgs: map[string]*Pkg{"p": p}}
}

func EngWitnesses() []EngWitness {
	return []EngWitness{
		{"rename-entry", []*Spec{
			witnessSpec(map[string]string{"a.txt": "x"}, []string{"a.txt"}, false),
			witnessSpec(map[string]string{"b.txt": "x"}, []string{"b.txt"}, false)}, []string{"//p:d"}},
		{"move-bytes", []*Spec{
			witnessSpec(map[string]string{"a.txt": "xy", "b.txt": "z"}, []string{"a.txt", "b.txt"}, false),
			witnessSpec(map[string]string{"a.txt": "x", "b.txt": "yz"}, []string{"a.txt", "b.txt"}, false)}, []string{"//p:d"}},
		{"dependent", []*Spec{
			witnessSpec(map[string]string{"a.txt": "x"}, []string{"a.txt"}, true),
			witnessSpec(map[string]string{"b.txt": "x"}, []string{"b.txt"}, true)}, []string{"//p:d", "//p:l"}},
	}
}

// EngRunSpecs builds every tree of the sequence in turn (all targets requested); wipeAt lists step indices
// before which plz-out is deleted.
func EngRunSpecs(base string, specs []*Spec, order []string, o EngOpts, wipeAt map[int]bool) []EngStep {
	repo := NewRepo(base, "repo")
	if o.Cache != "" {
		repo.CacheDir = base + "/cache"
		repo.Compress = o.Cache == "dircompress"
	}
	var h []EngStep
	for i, s := range specs {
		if wipeAt[i] {
			repo.RemovePlzOut()
		}
		repo.Write(s)
		h = append(h, EngBuild(repo, base, s, order, s.Labels(), i, Edit{Kind: "fixed", What: fmt.Sprint(i)}, wipeAt[i], o))
	}
	return h
}
