package e2e

// Engine histories for C01 / C03 / C02: repositories in the fragment the Coq model Model/Engine.v covers
// (genrules concat/const/copydir/listnames/fail, filegroups, text_files), histories whose every step is one
// real `plz build`, and the printers that turn a history into a Coq `Engine.case`.

import (
	"bytes"
	"crypto/sha256"
	"encoding/gob"
	"encoding/hex"
	"encoding/json"
	"fmt"
	"os"
	"path/filepath"
	"regexp"
	"sort"
	"strings"
	"sync"
	"time"

	"verifharness/lib"
)

type EngOpts struct {
	MaxPkgs, MaxTargets int
	Steps               int
	Cache               string // "" | "dir" | "dircompress"
	CleanRef            bool   // clean reference build (fresh directory, no cache) after every step
	Subsets             bool   // some steps request a subset of the targets
	Failures            bool   // some edits make a genrule fail / repair it; plz runs with --keep_going
	PWipe, PRevert      int    // percent of steps that delete plz-out / go back to an earlier tree
	PNoop               int    // percent of steps that rebuild the unchanged tree
	DirHeavy            bool   // prefer directory outputs and renames inside them
	Rebuild             bool   // every successful build is followed at once by a second build of the unchanged tree
	OutDirs             bool   // generate genrules with output_dirs (op outdir) and edits of their srcs / declared out
	RuleHashes          bool   // after every successful build run `plz hash --detailed` and record the rule hashes
	Threads             int
	cleanMemo           map[string]EngStep // clean reference results by (tree, request): a tree seen again is not rebuilt
}

type EngStep struct {
	Index     int                         `json:"index"`
	Edit      Edit                        `json:"edit"`
	Wipe      bool                        `json:"wipe"`
	Cache     bool                        `json:"cache"`
	Spec      *Spec                       `json:"spec"`
	Order     []string                    `json:"order"`
	Requested []string                    `json:"requested"`
	Exit      int                         `json:"exit"`
	Executed  []string                    `json:"executed"`
	Outputs   map[string]map[string]*Node `json:"-"`
	OutStr    map[string]string           `json:"outputs"`
	CleanExit int                         `json:"clean_exit"`
	Clean     map[string]map[string]*Node `json:"-"`
	CleanStr  map[string]string           `json:"clean_outputs,omitempty"`
	CleanExec []string                    `json:"clean_executed,omitempty"`
	Stderr    string                      `json:"stderr,omitempty"`
	Stdout    string                      `json:"-"`
	LogPath   string                      `json:"-"`
	// Meta: label -> OutputDirOuts of .target_build_metadata_<name> (nil entry: no such file), for every
	// requested target that is not a filegroup
	Meta map[string]*[]string `json:"meta,omitempty"`
	// RuleHash: label -> [pre-build, post-build] rule hash printed by `plz hash --detailed` (successful steps)
	RuleHash map[string][2]string `json:"rule_hash,omitempty"`
	TimedOut bool                 `json:"timed_out,omitempty"`
}

func engModelled(t *Target, od bool) bool {
	switch t.Kind {
	case "filegroup", "text_file":
		return true
	case "genrule":
		switch t.Cmd.Op {
		case "concat", "const", "copydir", "listnames", "fail", "catall":
			// list-form tools = [labels] are modelled for every command: they enter the source key (Engine.source_key) and
			// a command that does not mention $TOOLS never sees them (Engine.src_ins)
			if t.ToolName != "" {
				return false
			}
			for _, x := range t.Tools {
				if !strings.HasPrefix(x, "//") {
					return false
				}
			}
			return len(t.OutDirs) == 0
		case "usetool", "toolnames", "usentool": // the model's UseTool / ToolNames / UseNTool: the tools are labels
			// the model reads "the tools are declared in dict form" off the command: usentool <-> tools = {name: [...]}
			if (t.Cmd.Op == "usentool") != (t.ToolName != "") || (t.ToolName != "" && t.Cmd.Arg != t.ToolName) {
				return false
			}
			for _, x := range t.Tools {
				if !strings.HasPrefix(x, "//") {
					return false
				}
			}
			return len(t.OutDirs) == 0
		case "outdir": // the model's OutDir: output_dirs = ["_o"], file sources only, nobody depends on it
			if !od || len(t.OutDirs) != 1 || t.OutDirs[0] != "_o" || len(t.Outs) == 0 {
				return false
			}
			for _, x := range t.Srcs {
				if strings.HasPrefix(x, "//") || strings.HasPrefix(x, ":") {
					return false
				}
			}
			if t.ToolName != "" {
				return false
			}
			for _, x := range t.Tools {
				if !strings.HasPrefix(x, "//") {
					return false
				}
			}
			return true
		}
	}
	return false
}

// engClaimsOK: no two targets of a package may write the same path of plz-out/gen (the model runs the targets
// in one order, plz runs them in parallel): what an output_dirs target discovers (the base names of its
// sources) must not be the output of a filegroup, a declared out, or a discovery of another such target.
// Filegroups sharing a file stay allowed (both link the same source). Nobody depends on an output_dirs target.
func engClaimsOK(s *Spec) bool {
	for pn, p := range s.Pkgs {
		owner := map[string]string{}
		claim := func(path, who string, od bool) bool {
			if prev, ok := owner[path]; ok && prev != who && (od || strings.HasPrefix(prev, "od:")) {
				return false
			}
			if od {
				owner[path] = "od:" + who
			} else if _, ok := owner[path]; !ok {
				owner[path] = who
			}
			return true
		}
		hasOD := false
		for _, t := range p.Targets {
			if t.Cmd.Op == "outdir" {
				hasOD = true
			}
		}
		if !hasOD {
			continue
		}
		for _, t := range p.Targets {
			switch {
			case t.Cmd.Op == "outdir":
				for _, x := range t.Srcs {
					if !claim(filepath.Base(x), t.Name, true) {
						return false
					}
				}
				for _, o := range t.Outs {
					if !claim(o, t.Name, true) {
						return false
					}
				}
			case t.Kind == "filegroup":
				for _, x := range t.Srcs {
					if !strings.HasPrefix(x, "//") && !claim(x, t.Name, false) {
						return false
					}
				}
			default:
				outs := t.Outs
				if t.Kind == "text_file" && len(outs) == 0 {
					outs = []string{t.Name}
				}
				for _, o := range outs {
					if !claim(o, t.Name, false) {
						return false
					}
				}
			}
		}
		_ = pn
	}
	for _, l := range s.Labels() {
		for _, d := range DepsOf(s.Target(l)) {
			if dt := s.Target(d); dt != nil && dt.Cmd.Op == "outdir" {
				return false
			}
		}
	}
	return true
}

func engGenTarget(r *lib.Rng, s *Spec, order []string, pn, name string, o EngOpts) *Target {
	g := GenOpts{MaxPkgs: o.MaxPkgs, MaxTargets: o.MaxTargets, DirOutputs: true}
	for {
		t := genTarget(r, s, order, pn, name, g)
		if !engModelled(t, o.OutDirs) {
			continue
		}
		if t.Cmd.Op == "outdir" { // would its discoveries collide with what is already in the package?
			c := s.Clone()
			c.Pkgs[pn].Targets = append(c.Pkgs[pn].Targets, t)
			if !engClaimsOK(c) {
				continue
			}
		}
		if o.DirHeavy && t.Cmd.Op != "copydir" && t.Cmd.Op != "listnames" && r.Chance(1, 2) {
			continue
		}
		return t
	}
}

// EngGenSpec generates a repository inside the modelled fragment; `order` lists dependencies first.
func EngGenSpec(r *lib.Rng, o EngOpts) (*Spec, []string) {
	s := &Spec{Pkgs: map[string]*Pkg{}}
	var order []string
	npk := r.Range(1, max(1, o.MaxPkgs))
	for i := 0; i < npk; i++ {
		pn := pkgNames[i]
		p := &Pkg{Files: map[string]string{}}
		for _, f := range fileNames[:r.Range(2, 4)] {
			p.Files[f] = lib.Pick(r, contents) + pn + f[:1]
		}
		s.Pkgs[pn] = p
	}
	pkgs := lib.SortedKeys(s.Pkgs)
	nt := r.Range(2, max(2, o.MaxTargets))
	for i := 0; i < nt; i++ {
		pn := lib.Pick(r, pkgs)
		t := engGenTarget(r, s, order, pn, fmt.Sprintf("t%d", i), o)
		s.Pkgs[pn].Targets = append(s.Pkgs[pn].Targets, t)
		order = append(order, "//"+pn+":"+t.Name)
	}
	if o.OutDirs { // make sure the history has an output_dirs target to edit
		has := false
		for _, l := range order {
			has = has || s.Target(l).Cmd.Op == "outdir"
		}
		for _, pn := range pkgs {
			if has {
				break
			}
			files := localFiles(s, pn)
			for n := min(2, len(files)); n >= 1 && !has; n-- {
				for off := 0; off+n <= len(files) && !has; off++ {
					t := &Target{Name: "od", Kind: "genrule", Srcs: append([]string{}, files[off:off+n]...), Outs: []string{"od.marker"}, OutDirs: []string{"_o"}, Cmd: Cmd{Op: "outdir"}}
					c := s.Clone()
					c.Pkgs[pn].Targets = append(c.Pkgs[pn].Targets, t)
					if engClaimsOK(c) {
						s.Pkgs[pn].Targets = append(s.Pkgs[pn].Targets, t)
						order = append(order, "//"+pn+":od")
						has = true
					}
				}
			}
		}
	}
	return s, order
}

func engAllModelled(s *Spec, od bool) bool {
	for _, p := range s.Pkgs {
		for _, t := range p.Targets {
			if !engModelled(t, od) {
				return false
			}
		}
	}
	return engClaimsOK(s)
}

// engEdit applies one random edit that stays inside the modelled fragment.
func engEdit(r *lib.Rng, s *Spec, order *[]string, o EngOpts, counter int) (*Spec, Edit) {
	g := GenOpts{MaxPkgs: o.MaxPkgs, MaxTargets: o.MaxTargets, DirOutputs: true}
	for attempt := 0; attempt < 40; attempt++ {
		c := s.Clone()
		ord := append([]string{}, (*order)...)
		if o.Failures && r.Chance(1, 5) {
			if ed, ok := engBreakOrFix(r, c); ok {
				return c, ed
			}
		}
		if o.DirHeavy && r.Chance(1, 2) {
			if ed, ok := engDirEdit(r, c, counter); ok && engClaimsOK(c) {
				return c, ed
			}
			c = s.Clone()
		}
		if o.OutDirs && r.Chance(1, 3) {
			if ed, ok := engOutDirEdit(r, c, counter); ok && engClaimsOK(c) {
				return c, ed
			}
			c = s.Clone()
		}
		ed := ApplyRandomEdit(r, c, &ord, g, counter)
		if ed.Kind == "none" || !engAllModelled(c, o.OutDirs) || len(c.Labels()) > o.MaxTargets+2 {
			continue
		}
		*order = ord
		return c, ed
	}
	return s.Clone(), Edit{"none", ""}
}

// engDirEdit: edits aimed at the directory-hash boundary: rename a file copied into an output directory
// (same content), or swap the contents of two of its files.
func engDirEdit(r *lib.Rng, s *Spec, counter int) (Edit, bool) {
	for _, pn := range lib.SortedKeys(s.Pkgs) {
		p := s.Pkgs[pn]
		for _, t := range shuffled(r, p.Targets) {
			if t.Cmd.Op != "copydir" || len(t.Srcs) == 0 {
				continue
			}
			if len(t.Srcs) >= 2 && r.Chance(1, 3) {
				a, b := t.Srcs[0], t.Srcs[1]
				if strings.HasPrefix(a, "//") || strings.HasPrefix(b, "//") {
					continue
				}
				// move a byte from the end of one file to the front of the next one in walk order
				x, y := a, b
				if x > y {
					x, y = y, x
				}
				cx := p.Files[x]
				if len(cx) == 0 {
					continue
				}
				p.Files[y] = cx[len(cx)-1:] + p.Files[y]
				p.Files[x] = cx[:len(cx)-1]
				return Edit{"shift-byte-in-dir", fmt.Sprintf("%s/%s -> %s", pn, x, y)}, true
			}
			i := r.Intn(len(t.Srcs))
			old := t.Srcs[i]
			if strings.HasPrefix(old, "//") {
				continue
			}
			nn := fmt.Sprintf("r%d.txt", counter)
			p.Files[nn] = p.Files[old]
			t.Srcs[i] = nn
			used := false
			for _, t2 := range p.Targets {
				for _, x := range t2.Srcs {
					if x == old {
						used = true
					}
				}
			}
			if !used {
				delete(p.Files, old)
			}
			return Edit{"rename-in-dir", fmt.Sprintf("//%s:%s src %s -> %s (same content)", pn, t.Name, old, nn)}, true
		}
	}
	return Edit{}, false
}

// engOutDirEdit: edits aimed at the two-phase check of output_dirs targets: rename the declared out (the old one
// stays in plz-out with its record), add / drop / rename a source (changes what is discovered), edit a source.
func engOutDirEdit(r *lib.Rng, s *Spec, counter int) (Edit, bool) {
	for _, pn := range lib.SortedKeys(s.Pkgs) {
		p := s.Pkgs[pn]
		for _, t := range shuffled(r, p.Targets) {
			if t.Cmd.Op != "outdir" || len(t.Srcs) == 0 {
				continue
			}
			l := "//" + pn + ":" + t.Name
			switch r.Intn(5) {
			case 0: // a new name, or one of two fixed names so that an earlier name comes back
				nn := fmt.Sprintf("%s.m%d", t.Name, counter%2)
				if nn == t.Outs[0] {
					nn = t.Name + ".marker"
				}
				if nn == t.Outs[0] {
					continue
				}
				t.Outs[0] = nn
				return Edit{"outdir-rename-out", l + " out -> " + nn}, true
			case 1:
				for _, f := range localFiles(s, pn) {
					if !contains(t.Srcs, f) {
						t.Srcs = append(t.Srcs, f)
						return Edit{"outdir-add-src", l + " += " + f}, true
					}
				}
			case 2:
				if len(t.Srcs) > 1 {
					x := t.Srcs[len(t.Srcs)-1]
					t.Srcs = t.Srcs[:len(t.Srcs)-1]
					return Edit{"outdir-drop-src", l + " -= " + x}, true
				}
			case 3:
				f := t.Srcs[r.Intn(len(t.Srcs))]
				p.Files[f] = lib.Pick(r, contents) + fmt.Sprint(counter)
				return Edit{"outdir-src-content", pn + "/" + f}, true
			case 4: // both at once: another declared out and another set of sources
				nn := fmt.Sprintf("%s.m%d", t.Name, counter%2)
				if nn == t.Outs[0] {
					continue
				}
				t.Outs[0] = nn
				for _, f := range localFiles(s, pn) {
					if !contains(t.Srcs, f) {
						t.Srcs = append(t.Srcs, f)
						break
					}
				}
				return Edit{"outdir-rename-out+add-src", l + " out -> " + nn}, true
			}
		}
	}
	return Edit{}, false
}

func engBreakOrFix(r *lib.Rng, s *Spec) (Edit, bool) {
	var broken, healthy []*Target
	var bl, hl []string
	for _, l := range s.Labels() {
		t := s.Target(l)
		if t.Kind != "genrule" {
			continue
		}
		if t.Cmd.Op == "fail" {
			broken, bl = append(broken, t), append(bl, l)
		} else if t.Cmd.Op == "concat" || t.Cmd.Op == "const" {
			healthy, hl = append(healthy, t), append(hl, l)
		}
	}
	if len(broken) > 0 && (len(healthy) == 0 || r.Chance(1, 2)) {
		i := r.Intn(len(broken))
		t := broken[i]
		t.Cmd = Cmd{Op: t.Cmd.Args[0], Arg: t.Cmd.Args[1]}
		return Edit{"fix", bl[i]}, true
	}
	if len(healthy) > 0 {
		i := r.Intn(len(healthy))
		t := healthy[i]
		t.Cmd = Cmd{Op: "fail", Args: []string{t.Cmd.Op, t.Cmd.Arg}}
		return Edit{"break", hl[i]}, true
	}
	return Edit{}, false
}

// EngRunHistory generates a repository and a history and runs the real plz at every step.
func EngRunHistory(r *lib.Rng, base string, o EngOpts) []EngStep {
	spec, order := EngGenSpec(r, o)
	o.cleanMemo = map[string]EngStep{}
	repo := NewRepo(base, "repo")
	repo.Threads = o.Threads
	if o.Cache != "" {
		repo.CacheDir = base + "/cache"
		repo.Compress = o.Cache == "dircompress"
	}
	var steps []EngStep
	var past []*Spec
	var pastOrder [][]string
	for i := 0; i <= o.Steps; i++ {
		ed := Edit{"initial", ""}
		wipe := false
		if i > 0 {
			x := r.Intn(100)
			switch {
			case x < o.PWipe:
				repo.RemovePlzOut()
				wipe = true
				ed = Edit{"rm-plz-out", ""}
				if len(past) > 1 && r.Chance(1, 2) { // and move the tree, typically back
					k := r.Intn(len(past))
					spec, order = past[k].Clone(), append([]string{}, pastOrder[k]...)
					ed = Edit{"rm-plz-out+revert", fmt.Sprintf("to state %d", k)}
				}
			case x < o.PWipe+o.PRevert && len(past) > 1:
				k := r.Intn(len(past) - 1)
				spec, order = past[k].Clone(), append([]string{}, pastOrder[k]...)
				ed = Edit{"revert", fmt.Sprintf("to state %d", k)}
			case x < o.PWipe+o.PRevert+o.PNoop:
				ed = Edit{"none", "rebuild"}
			default:
				spec, ed = engEdit(r, spec, &order, o, i)
			}
		}
		past = append(past, spec.Clone())
		pastOrder = append(pastOrder, append([]string{}, order...))
		repo.Write(spec)
		req := spec.Labels()
		if o.Subsets && i > 0 && r.Chance(1, 4) {
			var sub []string
			for _, l := range req {
				if r.Chance(1, 2) {
					sub = append(sub, l)
				}
			}
			if len(sub) > 0 {
				req = sub
			}
		}
		st := EngBuild(repo, base, spec, order, req, i, ed, wipe, o)
		steps = append(steps, st)
		if o.Rebuild && st.Exit == 0 {
			o2 := o
			o2.CleanRef = false
			st2 := EngBuild(repo, base, spec, order, req, i, Edit{"rebuild", "unchanged tree"}, false, o2)
			st2.CleanExit, st2.CleanExec, st2.Clean, st2.CleanStr = st.CleanExit, st.CleanExec, st.Clean, st.CleanStr
			steps = append(steps, st2)
		}
	}
	return steps
}

// EngBuild runs one `plz build req` (and the clean reference, if asked) and reads back the observables.
func EngBuild(repo *Repo, base string, spec *Spec, order, req []string, index int, ed Edit, wipe bool, o EngOpts) EngStep {
	args := []string{"build"}
	if o.Failures {
		args = append(args, "--keep_going")
	}
	res := repo.Run(90*time.Second, append(args, req...)...)
	st := EngStep{Index: index, Edit: ed, Wipe: wipe, Cache: o.Cache != "", Spec: spec.Clone(), Order: append([]string{}, order...),
		Requested: append([]string{}, req...), Exit: res.Exit, Executed: res.Executed, LogPath: repo.LogPath, Stdout: res.Stdout}
	st.TimedOut = res.TimedOut
	st.Outputs = TargetOutputs(repo, spec, req)
	st.OutStr = map[string]string{}
	for l, m := range st.Outputs {
		st.OutStr[l] = outStr(m)
	}
	st.Meta = readMetadata(repo, spec, req)
	if res.Exit != 0 {
		st.Stderr = tail(res.Stderr+res.Stdout, 1200)
	}
	if o.CleanRef {
		js, _ := json.Marshal(spec)
		key := string(js) + "|" + strings.Join(req, " ")
		if m, ok := o.cleanMemo[key]; ok {
			st.CleanExit, st.CleanExec, st.Clean, st.CleanStr, st.RuleHash = m.CleanExit, m.CleanExec, m.Clean, m.CleanStr, m.RuleHash
			return st
		}
		clean := repo.CleanCopy(base, "clean", spec)
		cres := clean.Run(90*time.Second, append(args, req...)...)
		st.CleanExit, st.CleanExec = cres.Exit, cres.Executed
		st.TimedOut = st.TimedOut || cres.TimedOut
		st.Clean = TargetOutputs(clean, spec, req)
		st.CleanStr = map[string]string{}
		for l, m := range st.Clean {
			st.CleanStr[l] = outStr(m)
		}
		if o.RuleHashes && cres.Exit == 0 {
			// in the CLEAN copy (same labels and command texts, hence the same rule hashes): `plz hash` in the
			// incremental repository would store path hashes on the outputs and change what later builds do
			hres := clean.Run(90*time.Second, append([]string{"hash", "--detailed"}, req...)...)
			if hres.Exit == 0 {
				st.RuleHash = parseRuleHashes(hres.Stdout)
			}
		}
		if o.cleanMemo != nil && !cres.TimedOut {
			o.cleanMemo[key] = st
		}
	}
	return st
}

// readMetadata decodes OutputDirOuts from the gob-encoded core.BuildMetadata files of the requested rules.
func readMetadata(repo *Repo, spec *Spec, req []string) map[string]*[]string {
	out := map[string]*[]string{}
	for _, l := range req {
		t := spec.Target(l)
		if t == nil || t.Kind == "filegroup" {
			continue
		}
		pkg, name := SplitLabel(l)
		dir := "gen"
		if t.Binary {
			dir = "bin"
		}
		data, err := os.ReadFile(filepath.Join(repo.Dir, "plz-out", dir, pkg, ".target_build_metadata_"+name))
		if err != nil {
			out[l] = nil
			continue
		}
		var md struct{ OutputDirOuts []string }
		if err := gob.NewDecoder(bytes.NewReader(data)).Decode(&md); err != nil {
			x := []string{"<undecodable metadata: " + err.Error() + ">"}
			out[l] = &x
			continue
		}
		x := append([]string{}, md.OutputDirOuts...)
		out[l] = &x
	}
	return out
}

var reHashLabel = regexp.MustCompile(`^(//[^ ]*:[^ ]*):$`)
var reHashRule = regexp.MustCompile(`^\s+Rule: (\S+) \((pre|post)-build\)$`)

// parseRuleHashes reads the "Rule:" lines of `plz hash --detailed`.
func parseRuleHashes(stdout string) map[string][2]string {
	out := map[string][2]string{}
	cur := ""
	for _, line := range strings.Split(stdout, "\n") {
		if m := reHashLabel.FindStringSubmatch(line); m != nil {
			cur = m[1]
			continue
		}
		if m := reHashRule.FindStringSubmatch(line); m != nil && cur != "" {
			v := out[cur]
			if m[2] == "pre" {
				v[0] = m[1]
			} else {
				v[1] = m[1]
			}
			out[cur] = v
		}
	}
	return out
}

// EngRunHistories runs n histories, `workers` at a time; the result does not depend on scheduling.
func EngRunHistories(r *lib.Rng, base string, n, workers int, o func(i int) EngOpts) [][]EngStep {
	rngs := make([]*lib.Rng, n)
	for i := range rngs {
		rngs[i] = r.Fork()
	}
	out := make([][]EngStep, n)
	var wg sync.WaitGroup
	sem := make(chan struct{}, workers)
	for i := 0; i < n; i++ {
		wg.Add(1)
		sem <- struct{}{}
		go func(i int) {
			defer wg.Done()
			defer func() { <-sem }()
			dir := fmt.Sprintf("%s/h%d", base, i)
			os.MkdirAll(dir, 0o755)
			out[i] = EngRunHistory(rngs[i], dir, o(i))
			os.RemoveAll(dir)
		}(i)
	}
	wg.Wait()
	return out
}

// ---------------------------------------------------------------------------------------------
// Coq terms

func defKey(s *Spec, label, logPath string) string {
	h := sha256.Sum256([]byte(Definition(s, label, logPath)))
	return hex.EncodeToString(h[:8])
}

func engKind(t *Target, pkg string) string {
	switch t.Kind {
	case "filegroup":
		return "Filegroup"
	case "text_file":
		return lib.App("TextFile", lib.Str(t.Content))
	}
	switch t.Cmd.Op {
	case "concat":
		return "(Genrule Concat)"
	case "copydir":
		return "(Genrule CopyDir)"
	case "listnames":
		return "(Genrule ListNames)"
	case "const":
		return lib.App("Genrule", lib.App("Const", lib.Str(t.Cmd.Arg)))
	case "fail":
		return "(Genrule Fail)"
	case "catall":
		return lib.App("Genrule", lib.App("CatAll", lib.Str(pkg)))
	case "usetool":
		return "(Genrule UseTool)"
	case "toolnames":
		return "(Genrule ToolNames)"
	case "usentool":
		return "(Genrule UseNTool)"
	case "outdir":
		if !engModelled(t, true) {
			panic("engine model covers output_dirs targets only with output_dirs = [_o] and file sources")
		}
		return "(Genrule OutDir)"
	}
	panic("engine model does not cover op " + t.Cmd.Op)
}

// EngRepoTerm prints the Spec as an Engine.repo (targets in dependency order).
func EngRepoTerm(s *Spec, order []string, logPath string) string {
	var files []string
	for _, pn := range lib.SortedKeys(s.Pkgs) {
		p := s.Pkgs[pn]
		for _, f := range lib.SortedKeys(p.Files) {
			files = append(files, lib.Pair(lib.Str(pn+"/"+f), lib.Str(p.Files[f])))
		}
	}
	var ts []string
	seen := map[string]bool{}
	labels := append([]string{}, order...)
	for _, l := range s.Labels() { // anything the order does not mention goes last
		labels = append(labels, l)
	}
	for _, l := range labels {
		t := s.Target(l)
		if t == nil || seen[l] {
			continue
		}
		seen[l] = true
		pkg, _ := SplitLabel(l)
		var srcs []string
		for _, x := range t.Srcs {
			if strings.HasPrefix(x, "//") {
				srcs = append(srcs, lib.App("SLabel", lib.Str(x)))
			} else {
				srcs = append(srcs, lib.App("SFile", lib.Str(x)))
			}
		}
		for _, x := range t.Tools {
			srcs = append(srcs, lib.App("STool", lib.Str(x)))
		}
		outs := t.Outs
		if t.Kind == "text_file" && len(outs) == 0 {
			outs = []string{t.Name}
		}
		ts = append(ts, lib.App("mkT", lib.Str(l), lib.Str(pkg), engKind(t, pkg), lib.List(srcs), lib.StrList(outs), lib.Str(defKey(s, l, logPath))))
	}
	return lib.App("mkR", lib.List(files), lib.List(ts))
}

func NodeTerm(n *Node) string {
	switch n.Kind {
	case "file":
		return lib.App("File", lib.Bool(n.Exec), lib.Str(n.Content))
	case "dir":
		keys := make([]string, 0, len(n.Entries))
		for k := range n.Entries {
			keys = append(keys, k)
		}
		sort.Strings(keys)
		var es []string
		for _, k := range keys {
			es = append(es, lib.Pair(lib.Str(k), NodeTerm(n.Entries[k])))
		}
		return lib.App("Dir", lib.List(es))
	case "link": // no command of the closed language creates one; make it visible as a mismatch
		return lib.App("File", "true", lib.Str("<symlink> "+n.Target))
	}
	panic("absent node has no term")
}

func optNodeTerm(n *Node) string {
	if n == nil || n.Kind == "absent" {
		return "None"
	}
	return lib.Some(NodeTerm(n))
}

// EngStepTerm prints one step with its observations as an Engine.step.
func EngStepTerm(st *EngStep) string {
	var outs []string
	for _, l := range st.Requested {
		m := st.Outputs[l]
		var os []string
		for _, o := range lib.SortedKeys(m) {
			// TargetOutputs lists what an output_dirs target should discover under "_o/<source>": it lands
			// in the package's gen directory under the base name
			os = append(os, lib.Pair(lib.Str(strings.TrimPrefix(o, "_o/")), optNodeTerm(m[o])))
		}
		outs = append(outs, lib.Pair(lib.Str(l), lib.List(os)))
	}
	ex := append([]string{}, st.Executed...)
	sort.Strings(ex)
	var metas []string
	for _, l := range lib.SortedKeys(st.Meta) {
		if st.Meta[l] == nil {
			metas = append(metas, lib.Pair(lib.Str(l), "None"))
		} else {
			metas = append(metas, lib.Pair(lib.Str(l), lib.Some(lib.StrList(*st.Meta[l]))))
		}
	}
	return lib.App("mkStep", lib.Bool(st.Wipe), lib.Bool(st.Cache), EngRepoTerm(st.Spec, st.Order, st.LogPath), lib.StrList(st.Requested),
		lib.Bool(st.Exit == 0), lib.StrList(ex), lib.List(outs), lib.List(metas))
}

// EngRuleKeysTerm: for every target of the history whose rule hash was printed, the model's rule key (defKey) and
// the real pre-build rule hash; the model checks that the two induce the same partition. Returns "" when
// nothing was recorded. The second result lists the pairs for the oracle.
func EngRuleKeysTerm(h []EngStep) (string, [][2]string) {
	var pairs [][2]string
	seen := map[[2]string]bool{}
	for i := range h {
		st := &h[i]
		for _, l := range lib.SortedKeys(st.RuleHash) {
			if st.Spec.Target(l) == nil || st.RuleHash[l][0] == "" {
				continue
			}
			p := [2]string{defKey(st.Spec, l, st.LogPath), st.RuleHash[l][0]}
			if !seen[p] {
				seen[p] = true
				pairs = append(pairs, p)
			}
		}
	}
	if len(pairs) == 0 {
		return "", nil
	}
	var ts []string
	for _, p := range pairs {
		ts = append(ts, lib.Pair(lib.Str(p[0]), lib.Str(p[1])))
	}
	return lib.App("RuleKeys", lib.List(ts)), pairs
}

func EngCaseTerm(h []EngStep) string {
	var ss []string
	for i := range h {
		ss = append(ss, EngStepTerm(&h[i]))
	}
	return lib.App("History", lib.List(ss))
}

// EngKey identifies a history for the distinct count.
func EngKey(h []EngStep) string {
	var b strings.Builder
	for i := range h {
		fmt.Fprint(&b, h[i].Edit, h[i].Spec.Labels(), h[i].OutStr, "|")
	}
	return b.String()
}

// ---------------------------------------------------------------------------------------------
// Classification of stale outputs (shared by the C01 / C02 / C03 oracles)

// PathStream is the byte stream fs.PathHasher.hash feeds to the hash for a tree: a file is its content, a
// directory the contents of its files in sorted walk order (names, boundaries and nesting are not hashed).
func PathStream(n *Node) string {
	switch n.Kind {
	case "file":
		return n.Content
	case "link":
		return "\x02" + n.Target
	case "dir":
		var b strings.Builder
		for _, k := range lib.SortedKeys(n.Entries) {
			e := n.Entries[k]
			if e.Kind == "link" {
				b.WriteString("\x02")
			} else {
				b.WriteString(PathStream(e))
			}
		}
		return b.String()
	}
	return ""
}

// staleDirClass: got and want are different trees; if both are directories with the same path-hash stream
// the difference is invisible to moveOutput (build_step.go:750) and the class says what differs.
func staleDirClass(got, want *Node) string {
	if got == nil || want == nil || got.Kind != "dir" || want.Kind != "dir" || PathStream(got) != PathStream(want) {
		return ""
	}
	a, b := lib.SortedKeys(got.Entries), lib.SortedKeys(want.Entries)
	if strings.Join(a, "\x00") != strings.Join(b, "\x00") {
		return "stale-directory-output-after-entry-rename"
	}
	return "stale-directory-output-bytes-moved-between-files"
}

// StaleClass gives the narrow defect class of label's stale outputs (got vs want) in a step, or
// "stale-output" when the difference is not explained by the directory-hash defect.
func StaleClass(spec *Spec, label string, got, want map[string]map[string]*Node) string {
	if got[label] == nil || want[label] == nil {
		return "stale-output"
	}
	cls := ""
	for o, g := range got[label] {
		w := want[label][o]
		if w == nil {
			return "stale-output"
		}
		if g.Equal(w) {
			continue
		}
		c := staleDirClass(g, w)
		if c == "" {
			cls = ""
			break
		}
		cls = c
	}
	if cls != "" {
		return cls
	}
	// a dependent - direct, or through dependents that are stale for the same reason - of a directory output that
	// is itself stale in this step
	if dependsOnStaleDir(spec, label, got, want, map[string]bool{}) {
		return "dependent-of-stale-directory-output-not-rebuilt"
	}
	return "stale-output"
}

func dependsOnStaleDir(spec *Spec, label string, got, want map[string]map[string]*Node, seen map[string]bool) bool {
	t := spec.Target(label)
	if t == nil || seen[label] {
		return false
	}
	seen[label] = true
	for _, d := range DepsOf(t) {
		if got[d] == nil || want[d] == nil {
			continue
		}
		stale := false
		for o, g := range got[d] {
			if w := want[d][o]; w != nil && !g.Equal(w) {
				if staleDirClass(g, w) != "" {
					return true
				}
				stale = true
			}
		}
		if stale && dependsOnStaleDir(spec, d, got, want, seen) {
			return true
		}
	}
	return false
}

// ---------------------------------------------------------------------------------------------
// Fixed witness histories for the directory-hash defect (every run reproduces the listed findings)

type EngWitness struct {
	Name  string
	Specs []*Spec
	Order []string
}

func witnessSpec(files map[string]string, dirSrcs []string, withList bool) *Spec {
	p := &Pkg{Files: files}
	p.Targets = append(p.Targets, &Target{Name: "d", Kind: "genrule", Srcs: dirSrcs, Outs: []string{"d_dir"}, Cmd: Cmd{Op: "copydir"}, OutIsDir: true})
	if withList {
		p.Targets = append(p.Targets, &Target{Name: "l", Kind: "genrule", Srcs: []string{"//p:d"}, Outs: []string{"l.names"}, Cmd: Cmd{Op: "listnames"}})
	}
	return &Spec{Pkgs: map[string]*Pkg{"p": p}}
}

func EngWitnesses() []EngWitness {
	return []EngWitness{
		{"rename-entry", []*Spec{
			witnessSpec(map[string]string{"a.txt": "x"}, []string{"a.txt"}, false),
			witnessSpec(map[string]string{"b.txt": "x"}, []string{"b.txt"}, false)}, []string{"//p:d"}},
		{"move-bytes", []*Spec{
			witnessSpec(map[string]string{"a.txt": "xy", "b.txt": "z"}, []string{"a.txt", "b.txt"}, false),
			witnessSpec(map[string]string{"a.txt": "x", "b.txt": "yz"}, []string{"a.txt", "b.txt"}, false)}, []string{"//p:d"}},
		{"dependent", []*Spec{
			witnessSpec(map[string]string{"a.txt": "x"}, []string{"a.txt"}, true),
			witnessSpec(map[string]string{"b.txt": "x"}, []string{"b.txt"}, true)}, []string{"//p:d", "//p:l"}},
	}
}

func odSpec(files map[string]string, srcs []string, out string) *Spec {
	p := &Pkg{Files: map[string]string{}}
	for k, v := range files {
		p.Files[k] = v
	}
	p.Targets = append(p.Targets, &Target{Name: "t", Kind: "genrule", Srcs: srcs, Outs: []string{out}, OutDirs: []string{"_o"}, Cmd: Cmd{Op: "outdir"}})
	return &Spec{Pkgs: map[string]*Pkg{"p": p}}
}

// EngOutDirWitnesses: fixed histories for the output_dirs finding: the declared out of such a target is renamed
// (the old one stays in plz-out with its record), built, and renamed back; the third build fails, the fourth
// succeeds. In the first history the middle tree also discovers one more file.
func EngOutDirWitnesses() []EngWitness {
	files := map[string]string{"a.txt": "A", "b.txt": "B"}
	a := odSpec(files, []string{"a.txt"}, "m1")
	return []EngWitness{
		{"outdir-more-discovered", []*Spec{a, odSpec(files, []string{"a.txt", "b.txt"}, "m2"), a.Clone(), a.Clone()}, []string{"//p:t"}},
		{"outdir-rename-out-back", []*Spec{a.Clone(), odSpec(files, []string{"a.txt"}, "m2"), a.Clone(), a.Clone()}, []string{"//p:t"}},
	}
}

// EngSpecModelled: is every target of the tree inside the fragment of Model/Engine.v (output_dirs included)?
func EngSpecModelled(s *Spec) bool { return engAllModelled(s, true) }

var reFailedOutput = regexp.MustCompile(`rule (//[^ ]+) failed to create output`)

// ExitClass: the narrow class of step k whose incremental build failed although the clean build of the same tree
// succeeded. The known one: an output_dirs target whose declared outs were different earlier in the history
// fails with "failed to create output" (it is rebuilt after the post-build check with the outputs of an old
// metadata file still attached). Anything else is "exit-status-differs".
func ExitClass(h []EngStep, k int) string {
	st := &h[k]
	if st.Exit != 0 && st.CleanExit == 0 {
		if m := reFailedOutput.FindStringSubmatch(st.Stderr); m != nil {
			if t := st.Spec.Target(m[1]); t != nil && len(t.OutDirs) > 0 {
				for j := 0; j < k; j++ {
					if u := h[j].Spec.Target(m[1]); u != nil && len(u.OutDirs) > 0 && strings.Join(u.Outs, " ") != strings.Join(t.Outs, " ") {
						return "output-dirs-target-fails-to-rebuild-after-declared-out-renamed-back"
					}
				}
			}
		}
	}
	return "exit-status-differs"
}

// EngRunSpecs builds every tree of the sequence in turn (all targets requested); wipeAt lists step indices
// before which plz-out is deleted.
func EngRunSpecs(base string, specs []*Spec, order []string, o EngOpts, wipeAt map[int]bool) []EngStep {
	repo := NewRepo(base, "repo")
	if o.Cache != "" {
		repo.CacheDir = base + "/cache"
		repo.Compress = o.Cache == "dircompress"
	}
	var h []EngStep
	for i, s := range specs {
		if wipeAt[i] {
			repo.RemovePlzOut()
		}
		repo.Write(s)
		h = append(h, EngBuild(repo, base, s, order, s.Labels(), i, Edit{Kind: "fixed", What: fmt.Sprint(i)}, wipeAt[i], o))
	}
	return h
}
