package e2e

// Targeted input shapes for C02 (follow-up of the seeded mutations C02/m2 and C02/m3): histories with ONE shared
// directory cache (compressed or not) that the random engine generator does not reach.
//
//	multi   a dependency `dep` with 2-3 outputs (concat: the first out is the concatenation of the sources, the others
//	        their count) and dependents that read ALL of them (top, sometimes a second level mid). Only the source of
//	        dep changes: A, B, A (revert), B (revert), ... With plz-out KEPT the third build restores dep from the cache
//	        OVER the state-B outputs: buildTarget has just hashed those (oldOutputHash), so the path hasher's memo holds
//	        the B hashes of every output when the restore swaps the files; outputHash must re-hash them (recalc) or the
//	        dependents compute their source hash from the stale memo and stay at state B.
//	ntool   a tool `gen` whose OUTPUT depends on its source (concat), used by `usen` through DICT-form tools
//	        (tools = {"n": [...]}, $TOOLS_N) and by `usel` through list-form tools ($TOOLS); the tool's source is edited
//	        and reverted. With plz-out DELETED before every build everything comes from the cache or is rebuilt: the
//	        cache key of usen must change with the output of its named tool (sourceHash ranges over AllTools()).
//
//	link    (follow-up of the seeded change C02/r2-m1) a filegroup over a plain source file (its output is a HARD LINK to the
//	        user's file) and consumers behind it; the file is rewritten IN PLACE (Repo.Write: os.WriteFile on the existing
//	        file, same inode): A, B, A, B, ... with plz-out kept. A hash memoised as an xattr on the shared inode would
//	        survive the rewrite and make the third build take B's key for A's content.
//	od      (follow-up of the seeded change C02/r2-m2; oracle only - the cache entries of output_dirs targets are not in the
//	        model) a genrule with output_dirs whose sources change A, B, A with plz-out kept: the metadata is stored under the
//	        pre-build key, the artifacts under the post-build key.
//
// Every history is run by the real plz (EngBuild: build with the cache, clean reference build without) and replayed in
// Model/Engine.v (cmd UseNTool = the dict-form tools).

import (
	"fmt"
	"os"
	"sync"

	"verifharness/lib"
)

var C02ShapeKinds = []string{"multi", "ntool", "link", "od"}

// C02ShapeModelled: is the shape inside the fragment of Model/Engine.v with the cache on?
func C02ShapeModelled(kind string) bool { return kind != "od" }

// C02ShapeKeepsPlzOut: shapes that are about plz-out being KEPT (run without the wipe-before-every-build variant)
func C02ShapeKeepsPlzOut(kind string) bool { return kind == "link" || kind == "od" }

type C02ShapeOpts struct {
	Kind    string
	Cache   string // "dir" | "dircompress"
	WipeAll bool   // rm -rf plz-out before every build after the first (else: kept, with a rare wipe late in the history)
	Steps   int
}

func c02ShapeInit(r *lib.Rng, kind string) *shapeState {
	p := &Pkg{Files: map[string]string{}}
	st := &shapeState{spec: &Spec{Pkgs: map[string]*Pkg{"p": p}}}
	add := func(t *Target) {
		p.Targets = append(p.Targets, t)
		st.order = append(st.order, "//p:"+t.Name)
	}
	switch kind {
	case "multi":
		p.Files["a.txt"] = shapeContent(r, 100)
		p.Files["b.txt"] = shapeContent(r, 101)
		p.Files["t.txt"] = shapeContent(r, 102)
		srcs := []string{"a.txt"}
		if r.Chance(1, 2) {
			srcs = append(srcs, "b.txt")
		}
		outs := []string{"dep.o1", "dep.o2", "dep.o3"}[:r.Range(2, 3)]
		add(&Target{Name: "dep", Kind: "genrule", Srcs: srcs, Outs: append([]string{}, outs...), Cmd: Cmd{Op: "concat"}})
		tsrcs := []string{"//p:dep"}
		if r.Chance(1, 2) {
			tsrcs = append(tsrcs, "t.txt")
		}
		add(&Target{Name: "top", Kind: "genrule", Srcs: tsrcs, Outs: []string{"top.out"}, Cmd: Cmd{Op: "concat"}})
		if r.Chance(1, 2) {
			add(&Target{Name: "mid", Kind: "genrule", Srcs: []string{"//p:top"}, Outs: []string{"mid.out"}, Cmd: Cmd{Op: "concat"}})
		}
		if r.Chance(1, 2) { // a second reader of the same outputs
			add(&Target{Name: "alt", Kind: "genrule", Srcs: []string{"b.txt", "//p:dep"}, Outs: []string{"alt.out"}, Cmd: Cmd{Op: "concat"}})
		}
	case "ntool":
		p.Files["g.txt"] = shapeContent(r, 300)
		p.Files["u.txt"] = shapeContent(r, 301)
		gouts := []string{"gen.out"}
		if r.Chance(1, 3) {
			gouts = append(gouts, "gen.n")
		}
		add(&Target{Name: "gen", Kind: "genrule", Srcs: []string{"g.txt"}, Outs: gouts, Cmd: Cmd{Op: "concat"}})
		tools := []string{"//p:gen"}
		if r.Chance(1, 3) { // a second tool with a constant output in the same dict entry / list
			add(&Target{Name: "aux", Kind: "genrule", Outs: []string{"aux.out"}, Cmd: Cmd{Op: "const", Arg: "aux0"}})
			if r.Chance(1, 2) {
				tools = []string{"//p:aux", "//p:gen"}
			} else {
				tools = append(tools, "//p:aux")
			}
		}
		add(&Target{Name: "usen", Kind: "genrule", Srcs: []string{"u.txt"}, Tools: append([]string{}, tools...), ToolName: "n", Outs: []string{"usen.out"}, Cmd: Cmd{Op: "usentool", Arg: "n"}})
		add(&Target{Name: "usel", Kind: "genrule", Srcs: []string{"u.txt"}, Tools: append([]string{}, tools...), Outs: []string{"usel.out"}, Cmd: Cmd{Op: "usetool"}})
		if r.Chance(1, 2) {
			add(&Target{Name: "dn", Kind: "genrule", Srcs: []string{"//p:usen"}, Outs: []string{"dn.out"}, Cmd: Cmd{Op: "concat"}})
		}
		// users inside the Trust proofs of C02_partial since the tools deepening: one that reads the NAMES of the tool outputs
		// (restored from the cache with the names of the state it was stored in - the names never change in this shape) and
		// one that does not mention $TOOLS (the tools only enter its cache key)
		if r.Chance(1, 2) {
			add(&Target{Name: "usenm", Kind: "genrule", Tools: append([]string{}, tools...), Outs: []string{"usenm.out"}, Cmd: Cmd{Op: "toolnames"}})
		}
		if r.Chance(1, 2) {
			add(&Target{Name: "usec", Kind: "genrule", Srcs: []string{"u.txt"}, Tools: append([]string{}, tools...), Outs: []string{"usec.out"}, Cmd: Cmd{Op: "concat"}})
		}
	case "link":
		p.Files["a.txt"] = shapeContent(r, 400)
		p.Files["t.txt"] = shapeContent(r, 401)
		add(&Target{Name: "fg", Kind: "filegroup", Srcs: []string{"a.txt"}})
		usrcs := []string{"//p:fg"}
		if r.Chance(1, 2) {
			usrcs = append(usrcs, "t.txt")
		}
		add(&Target{Name: "use", Kind: "genrule", Srcs: usrcs, Outs: []string{"use.out"}, Cmd: Cmd{Op: "concat"}})
		if r.Chance(1, 2) {
			add(&Target{Name: "top", Kind: "genrule", Srcs: []string{"//p:use"}, Outs: []string{"top.out"}, Cmd: Cmd{Op: "concat"}})
		}
		if r.Chance(1, 2) { // a control reading the file directly
			add(&Target{Name: "ctl", Kind: "genrule", Srcs: []string{"a.txt"}, Outs: []string{"ctl.out"}, Cmd: Cmd{Op: "concat"}})
		}
	case "od":
		p.Files["a.txt"] = shapeContent(r, 500)
		p.Files["t.txt"] = shapeContent(r, 501)
		srcs := []string{"a.txt"}
		if r.Chance(1, 2) {
			srcs = append(srcs, "t.txt")
		}
		add(&Target{Name: "t", Kind: "genrule", Srcs: srcs, Outs: []string{"m1"}, OutDirs: []string{"_o"}, Cmd: Cmd{Op: "outdir"}})
	default:
		panic("unknown C02 shape " + kind)
	}
	return st
}

// c02ShapeEdit: steps 1..3 are fixed (edit the one source the shape is about, back to state 0, back to state 1), later
// steps are random: a new content, a revert to any earlier state, an edit of another source. The second result says
// whether plz-out is deleted before the build.
func c02ShapeEdit(r *lib.Rng, st *shapeState, o C02ShapeOpts, step int, past []*Spec) (Edit, bool) {
	st.counter++
	n := st.counter
	p := st.p()
	key, other := "a.txt", "t.txt"
	if o.Kind == "ntool" {
		key, other = "g.txt", "u.txt"
	}
	wipe := o.WipeAll || (step > 3 && r.Chance(1, 4))
	pre := ""
	if wipe {
		pre = "rm-plz-out+"
	}
	revert := func(k int) Edit {
		st.spec = past[k].Clone()
		return Edit{pre + "revert", fmt.Sprintf("to state %d", k)}
	}
	what := map[string]string{"multi": "dep-src-content", "ntool": "tool-src-content-output-changes",
		"link": "hard-linked-src-rewritten-in-place", "od": "output-dirs-src-content"}[o.Kind]
	switch step {
	case 1:
		p.Files[key] = shapeContent(r, 1000+n)
		return Edit{pre + what, "p/" + key}, wipe
	case 2:
		return revert(0), wipe
	case 3:
		return revert(1), wipe
	}
	switch r.Intn(4) {
	case 0:
		p.Files[key] = shapeContent(r, 1000+n)
		return Edit{pre + what, "p/" + key}, wipe
	case 1:
		p.Files[other] = shapeContent(r, 2000+n)
		return Edit{pre + "content", "p/" + other}, wipe
	default:
		return revert(r.Intn(len(past))), wipe
	}
}

// EngRunC02Shape runs one history of the given shape with a shared cache directory.
func EngRunC02Shape(r *lib.Rng, base string, so C02ShapeOpts) []EngStep {
	st := c02ShapeInit(r, so.Kind)
	repo := NewRepo(base, "repo")
	repo.CacheDir = base + "/cache"
	repo.Compress = so.Cache == "dircompress"
	o := EngOpts{CleanRef: true, Cache: so.Cache, cleanMemo: map[string]EngStep{}}
	var h []EngStep
	var past []*Spec
	for i := 0; i <= so.Steps; i++ {
		ed, wipe := Edit{"initial", ""}, false
		if i > 0 {
			ed, wipe = c02ShapeEdit(r, st, so, i, past)
			if wipe {
				repo.RemovePlzOut()
			}
		}
		ed.Kind = so.Kind + ":" + ed.Kind
		past = append(past, st.spec.Clone())
		repo.Write(st.spec)
		h = append(h, EngBuild(repo, base, st.spec, st.order, st.spec.Labels(), i, ed, wipe, o))
	}
	return h
}

// EngRunC02Shapes runs the given histories, `workers` at a time; deterministic for a given generator.
func EngRunC02Shapes(r *lib.Rng, base string, opts []C02ShapeOpts, workers int) [][]EngStep {
	rngs := make([]*lib.Rng, len(opts))
	for i := range rngs {
		rngs[i] = r.Fork()
	}
	out := make([][]EngStep, len(opts))
	var wg sync.WaitGroup
	sem := make(chan struct{}, workers)
	for i := range opts {
		wg.Add(1)
		sem <- struct{}{}
		go func(i int) {
			defer wg.Done()
			defer func() { <-sem }()
			dir := fmt.Sprintf("%s/s%d", base, i)
			os.MkdirAll(dir, 0o755)
			out[i] = EngRunC02Shape(rngs[i], dir, opts[i])
			os.RemoveAll(dir)
		}(i)
	}
	wg.Wait()
	return out
}
