package e2e

// Targeted input shapes for C01 / C03 (follow-up of the seeded mutations C01/m1-m3 and C03/m2): small repositories
// whose edit histories exercise four situations the random engine generator does not reach.
//
//	names     a genrule whose command writes the NAMES of its inputs ($SRCS) and reaches them through a filegroup;
//	          the file behind the filegroup is renamed with identical content (the consumer's rule hash is unchanged,
//	          only the path written into its source hash differs)
//	names-od  the same through the discovered outputs of an output_dirs target (oracle only: dependents of such
//	          targets are outside Model/Engine.v)
//	tmpdir    a genrule whose command globs its temporary directory (catall); the command is broken (the build fails
//	          after the sources were linked, the temporary directory stays behind), then repaired with a source dropped
//	fgdir     a filegroup whose source is a DIRECTORY, listed by a dependent; files inside are deleted, renamed with
//	          new content, added, edited
//	tool      a genrule using another target through tools = [...] ($TOOLS); the tool's source is edited such that its
//	          output stays byte-identical (cut-off through a tool), its command is edited (the user must re-run).
//	          The user reads the CONTENT of the tool's outputs (usetool), their NAMES (toolnames) or does not mention
//	          $TOOLS at all (concat with tools = [...]: the tool only enters the source hash); the tool's outputs are
//	          renamed WITH other content, appear, disappear, and - when no user reads names - are renamed with
//	          IDENTICAL content (the user is skipped and is right: inside C01_partial; with a user that reads names
//	          that is the known finding, reproduced by the fixed witness EngToolRenameWitness)
//
// Every history is run by the real plz (EngBuild: incremental build, clean reference build) and, for the modelled
// shapes, replayed in Model/Engine.v.

import (
	"fmt"
	"os"
	"sort"
	"strings"
	"sync"

	"verifharness/lib"
)

var ShapeKinds = []string{"names", "names-od", "tmpdir", "fgdir", "tool"}

// ShapeModelled: is the shape inside the fragment of Model/Engine.v?
func ShapeModelled(kind string) bool { return kind != "names-od" }

type shapeState struct {
	spec    *Spec
	order   []string
	counter int
}

func (s *shapeState) p() *Pkg { return s.spec.Pkgs["p"] }

func shapeContent(r *lib.Rng, n int) string {
	return lib.Pick(r, []string{"alpha\n", "beta\n", "gamma\n", "x", "xy", "y\n"}) + fmt.Sprint(n)
}

func shapeInit(r *lib.Rng, kind string) *shapeState {
	p := &Pkg{Files: map[string]string{}}
	st := &shapeState{spec: &Spec{Pkgs: map[string]*Pkg{"p": p}}}
	add := func(t *Target) {
		p.Targets = append(p.Targets, t)
		st.order = append(st.order, "//p:"+t.Name)
	}
	for i, f := range fileNames[:r.Range(2, 4)] {
		p.Files[f] = shapeContent(r, 100+i)
	}
	files := lib.SortedKeys(p.Files)
	switch kind {
	case "names":
		add(&Target{Name: "fg", Kind: "filegroup", Srcs: append([]string{}, files[:r.Range(1, 2)]...)})
		srcs := []string{"//p:fg"}
		if r.Chance(1, 3) {
			srcs = append(srcs, files[len(files)-1])
		}
		add(&Target{Name: "ln", Kind: "genrule", Srcs: srcs, Outs: []string{"ln.names"}, Cmd: Cmd{Op: "listnames"}})
		if r.Chance(1, 2) {
			add(&Target{Name: "cc", Kind: "genrule", Srcs: []string{"//p:fg"}, Outs: []string{"cc.out"}, Cmd: Cmd{Op: "concat"}})
		}
	case "names-od":
		add(&Target{Name: "od", Kind: "genrule", Srcs: append([]string{}, files[:r.Range(1, 2)]...), Outs: []string{"od.marker"}, OutDirs: []string{"_o"}, Cmd: Cmd{Op: "outdir"}})
		add(&Target{Name: "ln", Kind: "genrule", Srcs: []string{"//p:od"}, Outs: []string{"ln.names"}, Cmd: Cmd{Op: "listnames"}})
	case "tmpdir":
		add(&Target{Name: "ca", Kind: "genrule", Srcs: append([]string{}, files...), Outs: []string{"ca.out"}, Cmd: Cmd{Op: "catall"}})
		if r.Chance(1, 2) {
			add(&Target{Name: "dn", Kind: "genrule", Srcs: []string{"//p:ca"}, Outs: []string{"dn.out"}, Cmd: Cmd{Op: "concat"}})
		}
	case "fgdir":
		p.Files["dd/x.txt"] = shapeContent(r, 200)
		p.Files["dd/y.txt"] = shapeContent(r, 201)
		if r.Chance(1, 2) {
			p.Files["dd/sub/z.txt"] = shapeContent(r, 202)
		}
		if r.Chance(1, 3) {
			p.Files["dd/sub/w.txt"] = shapeContent(r, 203)
		}
		srcs := []string{"dd"}
		if r.Chance(1, 3) {
			srcs = append(srcs, files[0])
		}
		add(&Target{Name: "fgd", Kind: "filegroup", Srcs: srcs})
		add(&Target{Name: "lsd", Kind: "genrule", Srcs: []string{"//p:fgd"}, Outs: []string{"lsd.names"}, Cmd: Cmd{Op: "listnames"}})
	case "tool":
		p.Files["g.txt"] = shapeContent(r, 300)
		p.Files["u.txt"] = shapeContent(r, 301)
		add(&Target{Name: "gen", Kind: "genrule", Srcs: []string{"g.txt"}, Outs: []string{"gen.out"}, Cmd: Cmd{Op: "const", Arg: "tool0"}})
		srcs := []string{"u.txt"}
		if r.Chance(1, 2) {
			add(&Target{Name: "lib", Kind: "genrule", Srcs: []string{files[0]}, Outs: []string{"lib.out"}, Cmd: Cmd{Op: "concat"}})
			srcs = append(srcs, "//p:lib")
		}
		op := lib.Pick(r, []string{"usetool", "usetool", "toolnames", "concat"})
		add(&Target{Name: "use", Kind: "genrule", Srcs: srcs, Tools: []string{"//p:gen"}, Outs: []string{"use.out"}, Cmd: Cmd{Op: op}})
		if r.Chance(1, 3) {
			op2 := lib.Pick(r, []string{"usetool", "toolnames", "concat"})
			add(&Target{Name: "use2", Kind: "genrule", Srcs: []string{"u.txt"}, Tools: []string{"//p:gen"}, Outs: []string{"use2.out"}, Cmd: Cmd{Op: op2}})
		}
	default:
		panic("unknown shape " + kind)
	}
	return st
}

func fileUsed(p *Pkg, f string) bool {
	for _, t := range p.Targets {
		if contains(t.Srcs, f) {
			return true
		}
	}
	return false
}

func dirFiles(p *Pkg, dir string) []string {
	var out []string
	for _, f := range lib.SortedKeys(p.Files) {
		if strings.HasPrefix(f, dir+"/") {
			out = append(out, f)
		}
	}
	return out
}

// shapeEdit applies one edit; the first edit (step 1) is the one the shape is about; for tmpdir the first two are
// (break the command, repair it and drop a source), for tool the second one changes the names of the tool's outputs.
func shapeEdit(r *lib.Rng, st *shapeState, kind string, step int) Edit {
	first := step == 1
	st.counter++
	n := st.counter
	p := st.p()
	t := func(name string) *Target { return st.spec.Target("//p:" + name) }
	content := func() Edit {
		var fs []string
		for _, f := range lib.SortedKeys(p.Files) {
			if !strings.Contains(f, "/") {
				fs = append(fs, f)
			}
		}
		f := lib.Pick(r, fs)
		p.Files[f] = shapeContent(r, 1000+n)
		return Edit{"content", "p/" + f}
	}
	renameSrc := func(tg *Target, what string) (Edit, bool) { // rename one file source of tg, same content
		var idx []int
		for i, x := range tg.Srcs {
			if !strings.HasPrefix(x, "//") {
				idx = append(idx, i)
			}
		}
		if len(idx) == 0 {
			return Edit{}, false
		}
		i := lib.Pick(r, idx)
		old := tg.Srcs[i]
		nn := fmt.Sprintf("m%d.txt", n)
		p.Files[nn] = p.Files[old]
		tg.Srcs[i] = nn
		if !fileUsed(p, old) {
			delete(p.Files, old)
		}
		return Edit{what, fmt.Sprintf("//p:%s src %s -> %s (same content)", tg.Name, old, nn)}, true
	}
	addSrc := func(tg *Target) (Edit, bool) {
		for _, f := range lib.SortedKeys(p.Files) {
			if !strings.Contains(f, "/") && !contains(tg.Srcs, f) && f != "g.txt" && f != "u.txt" {
				tg.Srcs = append(tg.Srcs, f)
				return Edit{"add-src", fmt.Sprintf("//p:%s += %s", tg.Name, f)}, true
			}
		}
		return Edit{}, false
	}
	dropSrc := func(tg *Target) (Edit, bool) {
		var idx []int
		for i, x := range tg.Srcs {
			if !strings.HasPrefix(x, "//") {
				idx = append(idx, i)
			}
		}
		if len(idx) < 2 {
			return Edit{}, false
		}
		i := lib.Pick(r, idx)
		x := tg.Srcs[i]
		tg.Srcs = append(append([]string{}, tg.Srcs[:i]...), tg.Srcs[i+1:]...)
		return Edit{"drop-src", fmt.Sprintf("//p:%s -= %s", tg.Name, x)}, true
	}
	for attempt := 0; attempt < 30; attempt++ {
		switch kind {
		case "names":
			k := lib.Pick(r, []string{"rename", "rename", "content", "add", "drop", "comment"})
			if first {
				k = "rename"
			}
			switch k {
			case "rename":
				if ed, ok := renameSrc(t("fg"), "rename-behind-filegroup"); ok {
					return ed
				}
			case "content":
				return content()
			case "add":
				if ed, ok := addSrc(t("fg")); ok {
					return ed
				}
			case "drop":
				if ed, ok := dropSrc(t("fg")); ok {
					return ed
				}
			case "comment":
				t("ln").Comment = fmt.Sprintf("note %d", n)
				return Edit{"comment", "//p:ln"}
			}
		case "names-od":
			k := lib.Pick(r, []string{"rename", "rename", "content", "add", "drop"})
			if first {
				k = "rename"
			}
			switch k {
			case "rename":
				if ed, ok := renameSrc(t("od"), "rename-behind-output-dir"); ok {
					return ed
				}
			case "content":
				return content()
			case "add":
				if ed, ok := addSrc(t("od")); ok {
					return ed
				}
			case "drop":
				if ed, ok := dropSrc(t("od")); ok {
					return ed
				}
			}
		case "tmpdir":
			ca := t("ca")
			if ca.Cmd.Op == "fail" {
				k := lib.Pick(r, []string{"fix+drop", "fix+drop", "fix", "fix+add", "content"})
				if step == 2 {
					k = "fix+drop"
				}
				if len(ca.Srcs) < 2 && k == "fix+drop" {
					k = "fix"
				}
				switch k {
				case "fix", "fix+drop", "fix+add":
					ca.Cmd = Cmd{Op: "catall"}
					what := "//p:ca"
					if k == "fix+drop" {
						ed, _ := dropSrc(ca)
						what = ed.What
					}
					if k == "fix+add" {
						if ed, ok := addSrc(ca); ok {
							what = ed.What
						}
					}
					return Edit{"fix-cmd" + strings.TrimPrefix(k, "fix"), what}
				case "content":
					return content()
				}
			} else {
				k := lib.Pick(r, []string{"break", "break", "drop", "add", "content", "rename"})
				if first {
					k = "break"
				}
				switch k {
				case "break":
					ca.Cmd = Cmd{Op: "fail", Args: []string{"catall", ""}}
					return Edit{"break-cmd", "//p:ca"}
				case "drop":
					if ed, ok := dropSrc(ca); ok {
						return ed
					}
				case "add":
					if len(p.Files) < 4 {
						p.Files[fmt.Sprintf("n%d.txt", n)] = shapeContent(r, 2000+n)
					}
					if ed, ok := addSrc(ca); ok {
						return ed
					}
				case "content":
					return content()
				case "rename":
					if ed, ok := renameSrc(ca, "rename-src"); ok {
						return ed
					}
				}
			}
		case "fgdir":
			in := dirFiles(p, "dd")
			k := lib.Pick(r, []string{"delete", "delete", "rename-new-content", "rename-new-content", "add", "content", "comment"})
			if first {
				k = lib.Pick(r, []string{"delete", "rename-new-content"})
			}
			switch k {
			case "delete":
				if len(in) >= 2 {
					f := lib.Pick(r, in)
					delete(p.Files, f)
					return Edit{"delete-in-dir-source", "p/" + f}
				}
			case "rename-new-content":
				f := lib.Pick(r, in)
				nn := f[:strings.LastIndex(f, "/")+1] + fmt.Sprintf("k%d.txt", n)
				delete(p.Files, f)
				p.Files[nn] = shapeContent(r, 3000+n)
				return Edit{"rename-in-dir-source-new-content", "p/" + f + " -> " + nn}
			case "add":
				if len(in) < 4 {
					nn := lib.Pick(r, []string{"dd/", "dd/sub/", "dd/t/"}) + fmt.Sprintf("a%d.txt", n)
					p.Files[nn] = shapeContent(r, 4000+n)
					return Edit{"add-in-dir-source", "p/" + nn}
				}
			case "content":
				f := lib.Pick(r, in)
				p.Files[f] = shapeContent(r, 5000+n)
				return Edit{"content-in-dir-source", "p/" + f}
			case "comment":
				t("lsd").Comment = fmt.Sprintf("note %d", n)
				return Edit{"comment", "//p:lsd"}
			}
		case "tool":
			k := lib.Pick(r, []string{"tool-src", "tool-src", "tool-cmd", "use-src", "comment", "rebuild",
				"tool-out-rename-new", "tool-out-rename-new", "tool-out-rename-same", "tool-out-add", "tool-out-drop"})
			if first {
				k = "tool-src"
			}
			if step == 2 { // the second targeted edit: the tool's output names change
				k = lib.Pick(r, []string{"tool-out-rename-new", "tool-out-rename-new", "tool-out-rename-same", "tool-out-add"})
			}
			gen := t("gen")
			readsNames := false
			for _, x := range p.Targets {
				readsNames = readsNames || x.Cmd.Op == "toolnames"
			}
			switch k {
			case "tool-out-rename-new": // an output of the tool renamed AND its content changed: every user must re-run
				i := r.Intn(len(gen.Outs))
				old := gen.Outs[i]
				gen.Outs[i] = fmt.Sprintf("gen%d.out", n)
				gen.Cmd.Arg = fmt.Sprintf("tool%d", n)
				return Edit{"tool-output-renamed-new-content", fmt.Sprintf("//p:gen out %s -> %s, const -> %s", old, gen.Outs[i], gen.Cmd.Arg)}
			case "tool-out-rename-same": // renamed with identical content: users that do not read names are skipped, rightly
				if readsNames {
					continue
				}
				i := r.Intn(len(gen.Outs))
				old := gen.Outs[i]
				gen.Outs[i] = fmt.Sprintf("gen%d.out", n)
				return Edit{"tool-output-renamed-same-content-blind-user", fmt.Sprintf("//p:gen out %s -> %s", old, gen.Outs[i])}
			case "tool-out-add":
				if len(gen.Outs) >= 3 {
					continue
				}
				gen.Outs = append(gen.Outs, fmt.Sprintf("extra%d.out", n))
				return Edit{"tool-output-appears", "//p:gen += " + gen.Outs[len(gen.Outs)-1]}
			case "tool-out-drop":
				if len(gen.Outs) < 2 {
					continue
				}
				i := r.Intn(len(gen.Outs))
				old := gen.Outs[i]
				gen.Outs = append(append([]string{}, gen.Outs[:i]...), gen.Outs[i+1:]...)
				return Edit{"tool-output-disappears", "//p:gen -= " + old}
			case "tool-src":
				p.Files["g.txt"] = shapeContent(r, 6000+n)
				return Edit{"tool-source-edited-output-identical", "p/g.txt"}
			case "tool-cmd":
				t("gen").Cmd.Arg = fmt.Sprintf("tool%d", n)
				return Edit{"tool-cmd", "//p:gen const -> " + t("gen").Cmd.Arg}
			case "use-src":
				p.Files["u.txt"] = shapeContent(r, 7000+n)
				return Edit{"content", "p/u.txt"}
			case "comment":
				t("gen").Comment = fmt.Sprintf("note %d", n)
				return Edit{"comment", "//p:gen"}
			case "rebuild":
				return Edit{"none", "rebuild"}
			}
		}
	}
	return Edit{"none", ""}
}

// EngRunShape runs one history of the given shape: the initial tree, the shape's own edit, then random edits.
func EngRunShape(r *lib.Rng, base, kind string, steps int) []EngStep {
	st := shapeInit(r, kind)
	repo := NewRepo(base, "repo")
	o := EngOpts{CleanRef: true, Failures: kind == "tmpdir", cleanMemo: map[string]EngStep{}}
	var h []EngStep
	for i := 0; i <= steps; i++ {
		ed := Edit{"initial", ""}
		if i > 0 {
			ed = shapeEdit(r, st, kind, i)
		}
		ed.Kind = kind + ":" + ed.Kind
		repo.Write(st.spec)
		h = append(h, EngBuild(repo, base, st.spec, st.order, st.spec.Labels(), i, ed, false, o))
	}
	return h
}

// EngRunShapes runs n histories per shape, `workers` at a time; deterministic for a given generator.
func EngRunShapes(r *lib.Rng, base string, n, steps, workers int) map[string][][]EngStep {
	type job struct {
		kind string
		i    int
		rng  *lib.Rng
	}
	var jobs []job
	out := map[string][][]EngStep{}
	for _, k := range ShapeKinds {
		out[k] = make([][]EngStep, n)
		for i := 0; i < n; i++ {
			jobs = append(jobs, job{k, i, r.Fork()})
		}
	}
	var wg sync.WaitGroup
	sem := make(chan struct{}, workers)
	for _, j := range jobs {
		wg.Add(1)
		sem <- struct{}{}
		go func(j job) {
			defer wg.Done()
			defer func() { <-sem }()
			dir := fmt.Sprintf("%s/%s%d", base, j.kind, j.i)
			os.MkdirAll(dir, 0o755)
			out[j.kind][j.i] = EngRunShape(j.rng, dir, j.kind, steps)
			os.RemoveAll(dir)
		}(j)
	}
	wg.Wait()
	return out
}

// ---------------------------------------------------------------------------------------------
// the executed-set oracle (the C03 half of the property): why may the command of `label` run at step st?

// InputFiles: path -> content of every source file (files below a directory source included) a target reads.
func InputFiles(s *Spec, label string) map[string]string {
	pkg, _ := SplitLabel(label)
	t := s.Target(label)
	out := map[string]string{}
	if t == nil {
		return out
	}
	for _, x := range append(append([]string{}, t.Srcs...), t.Data...) {
		if strings.HasPrefix(x, "//") || strings.HasPrefix(x, ":") {
			continue
		}
		for f, c := range s.Pkgs[pkg].Files {
			if f == x || strings.HasPrefix(f, x+"/") {
				out[pkg+"/"+f] = c
			}
		}
	}
	return out
}

func mapStr(m map[string]string) string {
	var b strings.Builder
	ks := make([]string, 0, len(m))
	for k := range m {
		ks = append(ks, k)
	}
	sort.Strings(ks)
	for _, k := range ks {
		fmt.Fprintf(&b, "%q=%q;", k, m[k])
	}
	return b.String()
}

// EngAllowed says why the command of label may run at step st (previous build: prev), or "" when nothing it reads
// changed: its definition, its source files and the CLEAN outputs of everything it refers to (srcs, deps, tools) are
// those of the previous tree and plz-out was not deleted.
func EngAllowed(prev, st *EngStep, label string) string {
	if st.Wipe {
		return "plz-out-deleted"
	}
	if prev.Spec.Target(label) == nil {
		return "new-target"
	}
	if Definition(prev.Spec, label, st.LogPath) != Definition(st.Spec, label, st.LogPath) {
		return "definition-changed"
	}
	if mapStr(InputFiles(prev.Spec, label)) != mapStr(InputFiles(st.Spec, label)) {
		return "source-file-changed"
	}
	for _, d := range DepsOf(st.Spec.Target(label)) {
		if ok, _ := OutputsEqual(prev.Clean[d], st.Clean[d]); !ok {
			return "dependency-output-changed"
		}
	}
	return ""
}

// ---------------------------------------------------------------------------------------------
// Fixed witness of the finding tool-output-renamed-same-content-user-not-rebuilt: `use` writes the NAMES of the outputs
// of its tool `gen` ($TOOLS); the output of gen is renamed gen.out -> gen2.out with identical content. sourceHash writes
// only the content hash of a tool output and the rule hash of use lists the label of gen, not its outs: use is not
// re-run and keeps "gen.out".

const ToolRenameClass = "tool-output-renamed-same-content-user-not-rebuilt"

func toolRenameSpec(out string) *Spec {
	p := &Pkg{Files: map[string]string{}}
	p.Targets = append(p.Targets, &Target{Name: "gen", Kind: "genrule", Outs: []string{out}, Cmd: Cmd{Op: "const", Arg: "tool"}})
	p.Targets = append(p.Targets, &Target{Name: "use", Kind: "genrule", Tools: []string{"//p:gen"}, Outs: []string{"use.out"}, Cmd: Cmd{Op: "toolnames"}})
	return &Spec{Pkgs: map[string]*Pkg{"p": p}}
}

func EngToolRenameWitness() EngWitness {
	return EngWitness{"tool-output-renamed", []*Spec{toolRenameSpec("gen.out"), toolRenameSpec("gen2.out")}, []string{"//p:gen", "//p:use"}}
}

// ToolRenameStale: is label's stale output at step k of h explained by the finding - a target whose command writes the
// names of its tools' outputs, one of whose tools had other output names earlier in the history?
func ToolRenameStale(h []EngStep, k int, label string) bool {
	t := h[k].Spec.Target(label)
	if t == nil || t.Cmd.Op != "toolnames" {
		return false
	}
	for _, tl := range t.Tools {
		cur := h[k].Spec.Target(tl)
		for j := 0; j < k && cur != nil; j++ {
			if old := h[j].Spec.Target(tl); old != nil && strings.Join(old.Outs, " ") != strings.Join(cur.Outs, " ") {
				return true
			}
		}
	}
	return false
}
