package e2e

// C10: repositories whose genrules dump their WHOLE environment (`env | sort`), driven under chosen caller
// environments. Own renderer (the closed command language of e2e.go is not extended; nothing existing changes).

import (
	"fmt"
	"os"
	"path/filepath"
	"sort"
	"strings"
	"time"
)

// C10Target is a genrule whose single output is the sorted dump of its environment.
type C10Target struct {
	Name    string            `json:"name"`
	PassEnv []string          `json:"pass_env,omitempty"`
	HasPass bool              `json:"has_pass_env,omitempty"` // pass_env given (possibly empty list)
	Env     map[string]string `json:"env,omitempty"`
	Srcs    []string          `json:"srcs,omitempty"` // files of the package
	// Sandbox: "" = attribute not given, "True" / "False" = sandbox = True / False
	Sandbox string `json:"sandbox,omitempty"`
}

// C10Spec is one package `p` of dumping genrules plus the [build]/[buildenv] configuration under test.
type C10Spec struct {
	PassEnv       []string          `json:"cfg_pass_env,omitempty"`
	PassUnsafeEnv []string          `json:"cfg_pass_unsafe_env,omitempty"`
	BuildEnv      map[string]string `json:"buildenv,omitempty"`
	Targets       []*C10Target      `json:"targets"`
	// BuiltinSandbox: [sandbox] build = true with an empty tool (plz re-execs itself as `plz sandbox`). The commands then
	// cannot append to the action log (read-only root, fresh /tmp); they add a RUN_ID line to the dump instead.
	BuiltinSandbox bool `json:"builtin_sandbox,omitempty"`
}

func (s *C10Spec) Labels() []string {
	out := []string{}
	for _, t := range s.Targets {
		out = append(out, "//p:"+t.Name)
	}
	return out
}

func (s *C10Spec) Target(label string) *C10Target {
	for _, t := range s.Targets {
		if "//p:"+t.Name == label {
			return t
		}
	}
	return nil
}

func (s *C10Spec) configLines() []string {
	// appended after e2e's fixed header, which ends inside [display]; reopen [build]
	out := []string{"[build]"}
	for _, v := range s.PassEnv {
		out = append(out, "passenv = "+v)
	}
	for _, v := range s.PassUnsafeEnv {
		out = append(out, "passunsafeenv = "+v)
	}
	if s.BuiltinSandbox {
		out = append(out, "[sandbox]", "build = true", "tool =")
	}
	if len(s.BuildEnv) > 0 {
		out = append(out, "[buildenv]")
		keys := make([]string, 0, len(s.BuildEnv))
		for k := range s.BuildEnv {
			keys = append(keys, k)
		}
		sort.Strings(keys)
		for _, k := range keys {
			out = append(out, k+" = "+s.BuildEnv[k])
		}
	}
	return out
}

// C10Write materialises the repository (idempotent; never touches plz-out).
func (r *Repo) C10Write(s *C10Spec) {
	files := map[string]string{".plzconfig": r.configText(&Spec{Config: s.configLines()})}
	var b strings.Builder
	srcs := map[string]bool{}
	for _, t := range s.Targets {
		label := "//p:" + t.Name
		fmt.Fprintf(&b, "genrule(\n    name = %s,\n    outs = [%s],\n", pyStr(t.Name), pyStr(t.Name+".env"))
		if len(t.Srcs) > 0 {
			fmt.Fprintf(&b, "    srcs = %s,\n", pyList(t.Srcs))
			for _, f := range t.Srcs {
				srcs[f] = true
			}
		}
		if s.BuiltinSandbox {
			fmt.Fprintf(&b, "    cmd = %s,\n", pyStr("env | sort > $OUT && echo RUN_ID=$RANDOM-$(date +%s%N) >> $OUT"))
			if t.Sandbox != "" {
				fmt.Fprintf(&b, "    sandbox = %s,\n", t.Sandbox)
			}
		} else {
			fmt.Fprintf(&b, "    cmd = %s,\n", pyStr(fmt.Sprintf("echo %s >> %s && env | sort > $OUT", label, r.LogPath)))
		}
		if t.HasPass || len(t.PassEnv) > 0 {
			fmt.Fprintf(&b, "    pass_env = %s,\n", pyList(t.PassEnv))
		}
		if len(t.Env) > 0 {
			keys := make([]string, 0, len(t.Env))
			for k := range t.Env {
				keys = append(keys, k)
			}
			sort.Strings(keys)
			parts := []string{}
			for _, k := range keys {
				parts = append(parts, pyStr(k)+": "+pyStr(t.Env[k]))
			}
			fmt.Fprintf(&b, "    env = {%s},\n", strings.Join(parts, ", "))
		}
		b.WriteString(")\n\n")
	}
	files["p/BUILD"] = b.String()
	for f := range srcs {
		files["p/"+f] = "content of " + f + "\n"
	}
	for rel, content := range files {
		path := filepath.Join(r.Dir, rel)
		if old, err := os.ReadFile(path); err == nil && string(old) == content {
			continue
		}
		must(os.MkdirAll(filepath.Dir(path), 0o755))
		must(os.WriteFile(path, []byte(content), 0o644))
	}
}

// C10Dump is the environment a build command saw, as written by `env | sort`.
type C10Dump struct {
	Present bool              `json:"present"`
	Vars    map[string]string `json:"vars"`
	Raw     string            `json:"-"`
}

// C10ReadDump reads plz-out/gen/p/<name>.env. Values never contain newlines (the generator avoids them).
func (r *Repo) C10ReadDump(name string) C10Dump {
	data, err := os.ReadFile(filepath.Join(r.Dir, "plz-out", "gen", "p", name+".env"))
	if err != nil {
		return C10Dump{}
	}
	d := C10Dump{Present: true, Vars: map[string]string{}, Raw: string(data)}
	for _, line := range strings.Split(string(data), "\n") {
		if i := strings.IndexByte(line, '='); i > 0 {
			d.Vars[line[:i]] = line[i+1:]
		}
	}
	return d
}

// C10Step is one invocation of `plz build` of all targets under a caller environment.
type C10Step struct {
	Caller   map[string]string  `json:"caller"` // the complete environment of the plz process
	Exit     int                `json:"exit"`
	Executed []string           `json:"executed"`
	Dumps    map[string]C10Dump `json:"dumps"` // label -> dump after the step
	Stderr   string             `json:"stderr,omitempty"`
}

// C10Build runs plz under exactly the given environment and reads back every dump.
func (r *Repo) C10Build(s *C10Spec, caller map[string]string) C10Step {
	env := make([]string, 0, len(caller))
	for k, v := range caller {
		env = append(env, k+"="+v)
	}
	sort.Strings(env)
	r.Env = env
	res := r.Run(90*time.Second, append([]string{"build"}, s.Labels()...)...)
	st := C10Step{Caller: caller, Exit: res.Exit, Executed: res.Executed, Dumps: map[string]C10Dump{}}
	sort.Strings(st.Executed)
	for _, t := range s.Targets {
		st.Dumps["//p:"+t.Name] = r.C10ReadDump(t.Name)
	}
	if res.Exit != 0 {
		st.Stderr = tail(res.Stderr+res.Stdout, 1500)
	}
	return st
}
