package e2e

// C04 / C05: trace validation of the build scheduler on the real plz binary.
//
// A SchedCase is a small repository (genrules only) with a dependency graph, optional injected failures (a failing
// command, a BUILD file that does not parse or fails while it is evaluated, a dependency on an undeclared target or on a
// missing package, a dependency cycle), the labels to request, --keep_going or not and a thread count. Every command
// appends "S <label>" to an action log outside the repository when it starts and "E <label>" when it has finished
// ("F <label>" just before a failing command exits). plz is run with --trace_file, which records the BuildResult stream
// (one B event when a target's build starts, one E event with its final description).
//
// The Coq case is (graph, observed event sequence, exit status); Model/Sched.v replays it. SchedOracle checks the
// properties directly on the action log, the trace, the exit status and the wall time, without the model.

import (
	"encoding/json"
	"fmt"
	"os"
	"path/filepath"
	"sort"
	"strings"
	"sync"
	"time"

	"verifharness/lib"
)

type SchedTarget struct {
	Pkg   string   `json:"pkg"`
	Name  string   `json:"name"`
	Deps  []string `json:"deps,omitempty"` // labels
	Fail  bool     `json:"fail,omitempty"`
	Sleep string   `json:"sleep,omitempty"`
	// named tools / require-provide (the scheduler must treat a tool like any other dependency): ToolDeps is the subset of
	// Deps that is declared as tools = {"mytool": [...]} instead of srcs
	ToolDeps []string          `json:"tool_deps,omitempty"`
	Requires []string          `json:"requires,omitempty"`
	Provides map[string]string `json:"provides,omitempty"`
	Binary   bool              `json:"binary,omitempty"`
	SrcFile  string            `json:"src_file,omitempty"` // a source file in the package (content "v1"; "v2" after the edit of an "edittool" case)
	// FailOnV2: the command succeeds while SrcFile holds "v1" and fails once it holds "v2"; BigOut > 0: the (successful)
	// command leaves an output DIRECTORY of that many files, which RemoveOutputs has to delete when the rebuild fails
	FailOnV2 bool `json:"fail_on_v2,omitempty"`
	BigOut   int  `json:"big_out,omitempty"`
}

func (t *SchedTarget) Label() string { return "//" + t.Pkg + ":" + t.Name }

type SchedCase struct {
	Kind      string            `json:"kind"`              // what was injected
	Shape     string            `json:"shape"`             // graph shape
	Targets   []*SchedTarget    `json:"targets"`           // in BUILD-file order within each package
	Broken    map[string]string `json:"broken,omitempty"`  // package -> "syntax" | "runtime" (error after the last target) | "subrepo-order" (after the last target: subinclude of a target of a local subrepo BEFORE the subrepo() call of the same file that defines it) ; SubrepoOK: package -> "same" (subrepo() then subinclude(), same file) | "other" (subrepo() in another package's file)
	SubrepoOK map[string]string `json:"subrepo_ok,omitempty"`
	Requested []string          `json:"requested"`         // labels on the command line
	KeepGoing bool              `json:"keep_going"`
	Threads   int               `json:"threads"`
	Second    string            `json:"second,omitempty"`  // "" | "rebuild": observe a second invocation on the built tree | "edittool": build First, edit the source files, observe the build of Requested
	First     []string          `json:"first,omitempty"`   // labels requested by the first invocation of an "edittool" case
	SlowSecs  int               `json:"slow_secs,omitempty"` // a command of this case sleeps that long: added to the wall-clock bound
}

type SchedEvent struct {
	Ph    string `json:"ph"`
	Label string `json:"label"`
	Desc  string `json:"desc"`
	Err   string `json:"err,omitempty"`
}

type SchedObs struct {
	Log       []string     `json:"log"`
	Events    []SchedEvent `json:"events"`
	TraceOK   bool         `json:"trace_ok"` // the trace file was complete (closing bracket present)
	Exit      int          `json:"exit"`
	WallMs    int64        `json:"wall_ms"`
	TimedOut  bool         `json:"timed_out"`
	Stderr    string       `json:"stderr,omitempty"`
	LateLines []string     `json:"late_lines,omitempty"` // action-log lines that appeared after plz had exited
	BoundMs   int64        `json:"bound_ms"`             // the wall-clock bound that applied to this invocation
	SubrepoMsg int         `json:"subrepo_msg,omitempty"` // 1: "... is not defined in this package yet", 2: "Subrepo ... is not defined (referenced by ...)", 3: some other failure
}

// SchedBound is the wall-clock bound of the oracle for one invocation on an idle machine (cycles cost the 5 s timer).
// On a loaded machine the bound is scaled by a calibration run: 8 s + 40 x the time of a one-target build (see Calibrate).
const SchedBound = 20 * time.Second

// Calibrate measures how long the real plz needs for a one-target repository right now (median of three runs) and returns
// the bound to apply to the generated invocations.
func Calibrate(base string) (time.Duration, time.Duration) {
	c := &SchedCase{Kind: "calibration", Targets: []*SchedTarget{{Pkg: "p0", Name: "t00"}}, Requested: []string{"//p0:t00"}, Threads: 1}
	var ws []time.Duration
	for i := 0; i < 3; i++ {
		dir := fmt.Sprintf("%s/cal%d", base, i)
		os.MkdirAll(dir, 0o755)
		o := c.RunSched(dir, 120*time.Second)
		os.RemoveAll(dir)
		ws = append(ws, time.Duration(o.WallMs)*time.Millisecond)
	}
	sort.Slice(ws, func(i, j int) bool { return ws[i] < ws[j] })
	bound := 8*time.Second + 40*ws[1]
	if bound < SchedBound {
		bound = SchedBound
	}
	return ws[1], bound
}

func (c *SchedCase) target(label string) *SchedTarget {
	for _, t := range c.Targets {
		if t.Label() == label {
			return t
		}
	}
	return nil
}

func (c *SchedCase) hasDir(p string) bool {
	for _, q := range c.pkgs() {
		if q == p {
			return true
		}
	}
	return false
}

func (c *SchedCase) pkgs() []string {
	seen := map[string]bool{}
	for _, t := range c.Targets {
		seen[t.Pkg] = true
	}
	for p := range c.Broken {
		seen[p] = true
	}
	return lib.SortedKeys(seen)
}

func schedCmd(t *SchedTarget, logPath string) string {
	l := t.Label()
	sl := ""
	if t.Sleep != "" {
		sl = " && sleep " + t.Sleep
	}
	if t.Fail {
		return fmt.Sprintf("echo S %s >> %s%s && echo F %s >> %s && exit 1", l, logPath, sl, l, logPath)
	}
	if t.FailOnV2 {
		// v1: fill the output directory and succeed; v2: fail (the stale directory of the first build is still there)
		return fmt.Sprintf("echo S %s >> %s%s && if grep -q v2 $SRCS; then echo F %s >> %s; exit 1; fi; mkdir $OUTS && for i in $(seq 1 %d); do echo x > $OUTS/f$i; done && echo E %s >> %s",
			l, logPath, sl, l, logPath, t.BigOut, l, logPath)
	}
	return fmt.Sprintf("echo S %s >> %s%s && cat $SRCS /dev/null > $OUTS && echo E %s >> %s", l, logPath, sl, l, logPath)
}

// WriteSched materialises the case under r.Dir.
func (c *SchedCase) WriteSched(r *Repo) {
	must(os.WriteFile(filepath.Join(r.Dir, ".plzconfig"), []byte(r.configText(&Spec{})), 0o644))
	for _, p := range c.pkgs() {
		var b strings.Builder
		if c.Broken[p] == "syntax" {
			b.WriteString("def broken(:\n")
		}
		for _, t := range c.Targets {
			if t.Pkg != p {
				continue
			}
			fmt.Fprintf(&b, "genrule(\n    name = %s,\n", pyStr(t.Name))
			isTool := map[string]bool{}
			for _, d := range t.ToolDeps {
				isTool[d] = true
			}
			srcs := []string{}
			if t.SrcFile != "" {
				srcs = append(srcs, t.SrcFile)
			}
			for _, d := range t.Deps {
				if !isTool[d] {
					srcs = append(srcs, d)
				}
			}
			if len(srcs) > 0 {
				fmt.Fprintf(&b, "    srcs = %s,\n", pyList(srcs))
			}
			if len(t.ToolDeps) > 0 {
				fmt.Fprintf(&b, "    tools = {\"mytool\": %s},\n", pyList(t.ToolDeps))
			}
			if len(t.Requires) > 0 {
				fmt.Fprintf(&b, "    requires = %s,\n", pyList(t.Requires))
			}
			if len(t.Provides) > 0 {
				parts := []string{}
				for _, k := range lib.SortedKeys(t.Provides) {
					parts = append(parts, pyStr(k)+": "+pyStr(t.Provides[k]))
				}
				fmt.Fprintf(&b, "    provides = {%s},\n", strings.Join(parts, ", "))
			}
			if t.Binary {
				b.WriteString("    binary = True,\n")
			}
			fmt.Fprintf(&b, "    outs = [%s],\n    cmd = %s,\n    visibility = [\"PUBLIC\"],\n)\n\n", pyStr(t.Name+".out"), pyStr(schedCmd(t, r.LogPath)))
		}
		if c.Broken[p] == "runtime" {
			b.WriteString("fail(\"injected evaluation error\")\n")
		}
		// a local subrepo <p>/sr rooted at third_party/sr_<p>, and a subinclude of its //:defs
		if c.Broken[p] == "subrepo-order" { // used before it is defined: "subrepo ... is not defined in this package yet"
			fmt.Fprintf(&b, "subinclude(\"///%s/sr//:defs\")\nsubrepo(name = \"sr\", path = \"third_party/sr_%s\")\n", p, p)
			c.writeSubrepoTree(r, p)
		}
		if c.Broken[p] == "subrepo-elsewhere-undefined" { // package srdef_<p> exists but does not define the subrepo
			fmt.Fprintf(&b, "subinclude(\"///srdef_%s/nosr//:defs\")\n", p)
			must(os.MkdirAll(filepath.Join(r.Dir, "srdef_"+p), 0o755))
			must(os.WriteFile(filepath.Join(r.Dir, "srdef_"+p, "BUILD"), []byte("# defines nothing\n"), 0o644))
		}
		if c.Broken[p] == "subrepo-undefined" { // never defined: the package is parsed again for it -> must fail, not wait for itself
			fmt.Fprintf(&b, "subinclude(\"///%s/nosr//:defs\")\n", p)
		}
		if c.SubrepoOK[p] == "same" {
			fmt.Fprintf(&b, "subrepo(name = \"sr\", path = \"third_party/sr_%s\")\nsubinclude(\"///%s/sr//:defs\")\n", p, p)
			c.writeSubrepoTree(r, p)
		}
		if c.SubrepoOK[p] == "other" { // defined by package srdef_<p> (which holds nothing else)
			fmt.Fprintf(&b, "subinclude(\"///srdef_%s/sr//:defs\")\n", p)
			must(os.MkdirAll(filepath.Join(r.Dir, "srdef_"+p), 0o755))
			must(os.WriteFile(filepath.Join(r.Dir, "srdef_"+p, "BUILD"), []byte(fmt.Sprintf("subrepo(name = \"sr\", path = \"third_party/sr_%s\")\n", p)), 0o644))
			c.writeSubrepoTree(r, p)
		}
		must(os.MkdirAll(filepath.Join(r.Dir, p), 0o755))
		must(os.WriteFile(filepath.Join(r.Dir, p, "BUILD"), []byte(b.String()), 0o644))
		for _, t := range c.Targets {
			if t.Pkg == p && t.SrcFile != "" {
				must(os.WriteFile(filepath.Join(r.Dir, p, t.SrcFile), []byte("v1\n"), 0o644))
			}
		}
	}
}

// writeSubrepoTree: third_party/sr_<p> = a tiny repository with one filegroup //:defs over a .build_defs file
func (c *SchedCase) writeSubrepoTree(r *Repo, p string) {
	dir := filepath.Join(r.Dir, "third_party", "sr_"+p)
	must(os.MkdirAll(dir, 0o755))
	must(os.WriteFile(filepath.Join(dir, ".plzconfig"), []byte("[build]\npath = /usr/local/bin:/usr/bin:/bin\n"), 0o644))
	must(os.WriteFile(filepath.Join(dir, "defs.build_defs"), []byte("SR_X = 1\n"), 0o644))
	must(os.WriteFile(filepath.Join(dir, "BUILD"), []byte("filegroup(name = \"defs\", srcs = [\"defs.build_defs\"], visibility = [\"PUBLIC\"])\n"), 0o644))
}

func readSchedTrace(path string) ([]SchedEvent, bool) {
	data, err := os.ReadFile(path)
	if err != nil {
		return nil, false
	}
	text := strings.TrimSpace(string(data))
	complete := strings.HasSuffix(text, "]")
	var out []SchedEvent
	for _, line := range strings.Split(text, "\n") {
		line = strings.TrimSuffix(strings.TrimSpace(line), ",")
		if !strings.HasPrefix(line, "{") {
			continue
		}
		var e struct {
			Name string `json:"name"`
			Cat  string `json:"cat"`
			Ph   string `json:"ph"`
			Args struct {
				Description string `json:"description"`
				Err         string `json:"err"`
			} `json:"args"`
		}
		if json.Unmarshal([]byte(line), &e) != nil {
			complete = false
			continue
		}
		if e.Cat != "Build" || e.Ph == "i" {
			continue
		}
		out = append(out, SchedEvent{Ph: e.Ph, Label: e.Name, Desc: e.Args.Description, Err: e.Args.Err})
	}
	return out, complete
}

// RunSched runs the case with the real plz in a fresh repository under base.
func (c *SchedCase) RunSched(base string, bound time.Duration) SchedObs {
	r := NewRepo(base, "repo")
	r.CacheDir = filepath.Join(base, "cache")
	r.Threads = c.Threads
	c.WriteSched(r)
	bound += time.Duration(c.SlowSecs) * time.Second
	tracePath := filepath.Join(base, "trace.json")
	args := []string{"build", "--trace_file", tracePath}
	if c.KeepGoing {
		args = append(args, "--keep_going")
	}
	args = append(args, c.Requested...)
	if c.Second == "rebuild" {
		r.Run(bound+10*time.Second, args...)
		os.Remove(tracePath)
	}
	if c.Second == "edittool" {
		first := []string{"build"}
		if c.KeepGoing {
			first = append(first, "--keep_going")
		}
		r.Run(bound+10*time.Second, append(first, c.First...)...)
		for _, t := range c.Targets {
			if t.SrcFile != "" {
				must(os.WriteFile(filepath.Join(r.Dir, t.Pkg, t.SrcFile), []byte("v2\n"), 0o644))
			}
		}
	}
	kill := bound + 5*time.Second
	if v := os.Getenv("VERIF_SCHED_KILL_S"); v != "" {
		if n, err := time.ParseDuration(v + "s"); err == nil {
			kill = n
		}
	}
	res := r.Run(kill, args...)
	obs := SchedObs{Log: res.Executed, Exit: res.Exit, WallMs: res.Wall.Milliseconds(), TimedOut: res.TimedOut, BoundMs: bound.Milliseconds()}
	obs.Events, obs.TraceOK = readSchedTrace(tracePath)
	switch {
	case strings.Contains(res.Stderr, "is not defined in this package yet"):
		obs.SubrepoMsg = 1
	case strings.Contains(res.Stderr, "is not defined (referenced by"):
		obs.SubrepoMsg = 2
	case res.Exit != 0:
		obs.SubrepoMsg = 3
	}
	if res.Exit != 0 {
		obs.Stderr = res.Stderr
		if len(obs.Stderr) > 1500 {
			obs.Stderr = obs.Stderr[:1500]
		}
	}
	// anything still writing to the action log after plz has exited?
	if !res.TimedOut {
		time.Sleep(150 * time.Millisecond)
		if late := r.ReadLog(); len(late) > len(obs.Log) {
			obs.LateLines = late[len(obs.Log):]
		}
	}
	return obs
}

// ---------------------------------------------------------------------------------------------
// generator

type SchedOpts struct {
	Kind      string // none | fail | syntax | runtime | undefined | undefchain | missingpkg | cycle1 | cycle2 | cycle3 | hang | wide | namedtool
	ForceKG   int    // 0: random, 1: --keep_going, 2: without
	Second    string
	MaxTarget int
	Variant   int // which sub-shape of a kind with several (subrepoorder, subrepook): the index of the case within its kind
}

func sleepOf(r *lib.Rng) string {
	return []string{"", "", "0.02", "0.05", "0.1", "0.15"}[r.Intn(6)]
}

// GenSched generates one case. Labels: packages p0..p3, targets t00..; dependencies point to lower-numbered targets,
// so the base graph is a DAG.
func GenSched(r *lib.Rng, o SchedOpts) *SchedCase {
	if o.Kind == "namedtool" {
		return genNamedTool(r, o)
	}
	if o.Kind == "undefchain" {
		return genUndefChain(r, o)
	}
	if o.Kind == "slowfail" {
		return genSlowFail(r, o)
	}
	if o.Kind == "stalefail" {
		return genStaleFail(r, o)
	}
	c := &SchedCase{Kind: o.Kind, Broken: map[string]string{}, Second: o.Second}
	c.Threads = []int{1, 2, 16}[r.Intn(3)]
	c.KeepGoing = r.Bool()
	nPkg := r.Range(1, 3)
	max := o.MaxTarget
	if max == 0 {
		max = 10
	}
	n := r.Range(3, max)
	c.Shape = []string{"random", "chain", "diamond", "fanin", "random"}[r.Intn(5)]
	if o.Kind == "wide" {
		c.Shape = "wide"
		n = r.Range(6, 10)
		nPkg = n
		c.Threads = []int{2, 16}[r.Intn(2)]
		c.KeepGoing = r.Chance(3, 4)
	}
	for i := 0; i < n; i++ {
		t := &SchedTarget{Pkg: fmt.Sprintf("p%d", r.Intn(nPkg)), Name: fmt.Sprintf("t%02d", i), Sleep: sleepOf(r)}
		if c.Shape == "wide" {
			t.Pkg = fmt.Sprintf("p%d", i)
		}
		c.Targets = append(c.Targets, t)
	}
	dep := func(i, j int) { // i depends on j
		l := c.Targets[j].Label()
		for _, d := range c.Targets[i].Deps {
			if d == l {
				return
			}
		}
		c.Targets[i].Deps = append(c.Targets[i].Deps, l)
	}
	switch c.Shape {
	case "chain":
		for i := 1; i < n; i++ {
			dep(i, i-1)
			if r.Chance(1, 4) && i >= 2 {
				dep(i, r.Intn(i-1))
			}
		}
	case "diamond": // 0 <- {1..n-2} <- n-1
		for i := 1; i < n-1; i++ {
			dep(i, 0)
			dep(n-1, i)
		}
	case "fanin": // many leaves, one or two sinks
		k := n - 1 - r.Intn(2)
		if k < 2 {
			k = 2
		}
		for i := k; i < n; i++ {
			for j := 0; j < k; j++ {
				if r.Chance(3, 4) {
					dep(i, j)
				}
			}
			if i > k {
				dep(i, k)
			}
		}
	case "wide":
		// independent targets
	default:
		for i := 1; i < n; i++ {
			for j := 0; j < i; j++ {
				if r.Chance(1, 3) {
					dep(i, j)
				}
			}
		}
	}
	// requested: the last target, sometimes more
	req := map[string]bool{c.Targets[n-1].Label(): true}
	for i := 0; i < n; i++ {
		if r.Chance(1, 4) || c.Shape == "wide" {
			req[c.Targets[i].Label()] = true
		}
	}
	victim := r.Intn(n)
	switch o.Kind {
	case "fail":
		c.Targets[victim].Fail = true
		if r.Chance(1, 3) {
			c.Targets[r.Intn(n)].Fail = true
		}
	case "wide":
		k := r.Range(1, 3)
		for i := 0; i < k; i++ {
			t := c.Targets[r.Intn(n)]
			t.Fail, t.Sleep = true, ""
		}
		for _, t := range c.Targets {
			if !t.Fail && r.Chance(1, 2) {
				t.Sleep = []string{"0.2", "0.3", "0.5"}[r.Intn(3)]
			}
		}
	case "syntax", "runtime":
		c.Broken[c.Targets[victim].Pkg] = o.Kind
	case "subrepoorder": // BUILD-file errors around subrepos: used before defined in the same file / never defined
		c.Broken[c.Targets[victim].Pkg] = []string{"subrepo-order", "subrepo-undefined", "subrepo-elsewhere-undefined", "subrepo-order"}[o.Variant%4]
	case "subrepook": // controls: the same statements in the right order, or the subrepo defined by another package
		c.SubrepoOK = map[string]string{c.Targets[victim].Pkg: []string{"other", "same"}[o.Variant%2]}
	case "undefined":
		c.Targets[victim].Deps = append(c.Targets[victim].Deps, "//"+c.Targets[r.Intn(n)].Pkg+":nosuch")
	case "missingpkg":
		c.Targets[victim].Deps = append(c.Targets[victim].Deps, "//nopkg:x")
	case "cycle1", "cycle2", "cycle3", "hang":
		k := map[string]int{"cycle1": 1, "cycle2": 2, "cycle3": 3, "hang": 2}[o.Kind]
		pkg := c.Targets[victim].Pkg
		var cyc []*SchedTarget
		for i := 0; i < k; i++ {
			cyc = append(cyc, &SchedTarget{Pkg: pkg, Name: fmt.Sprintf("y%02d", i)})
		}
		for i := 0; i < k; i++ {
			cyc[i].Deps = []string{cyc[(i+1)%k].Label()}
		}
		if r.Bool() && n > 1 { // the cycle also hangs off the DAG
			cyc[0].Deps = append(cyc[0].Deps, c.Targets[r.Intn(n)].Label())
		}
		c.Targets = append(c.Targets, cyc...)
		if o.Kind == "hang" {
			// the known finding: --keep_going, a failing command and a cycle, both requested
			c.KeepGoing = true
			f := &SchedTarget{Pkg: pkg, Name: "f00", Fail: true}
			c.Targets = append(c.Targets, f)
			req = map[string]bool{f.Label(): true, cyc[0].Label(): true}
		} else if r.Bool() {
			c.Targets[n-1].Deps = append(c.Targets[n-1].Deps, cyc[0].Label())
		} else {
			req[cyc[r.Intn(k)].Label()] = true
		}
	}
	for _, t := range c.Targets {
		sort.Strings(t.Deps)
	}
	c.Requested = lib.SortedKeys(req)
	lib.Shuffle(r, c.Requested)
	return c
}

// genUndefChain: the undefined dependency is found by queueTargetAsync (asyncError), not by a parse task, and other
// targets are waiting for the broken one. Package p0 = {a00, t01}, t01 (last in the BUILD file) depends on //p0:nosuch;
// p0 is parsed for the requested //p0:a00, so t01 is only activated through its dependents, when p0 is already loaded.
// Package p1 holds a chain u00 <- u01 <- ... with u00 depending on //p0:t01, and an independent z00; the end of the chain
// and z00 are requested as well.
func genUndefChain(r *lib.Rng, o SchedOpts) *SchedCase {
	c := &SchedCase{Kind: o.Kind, Shape: "chain", Broken: map[string]string{}, Threads: []int{1, 2, 16}[r.Intn(3)], KeepGoing: r.Bool()}
	if o.ForceKG != 0 {
		c.KeepGoing = o.ForceKG == 1
	}
	a := &SchedTarget{Pkg: "p0", Name: "a00", Sleep: sleepOf(r)}
	broken := &SchedTarget{Pkg: "p0", Name: "t01", Deps: []string{"//p0:nosuch"}}
	if r.Bool() {
		broken.Deps = append(broken.Deps, a.Label())
		sort.Strings(broken.Deps)
	}
	c.Targets = []*SchedTarget{a, broken}
	n := r.Range(1, 4)
	prev := broken.Label()
	for i := 0; i < n; i++ {
		u := &SchedTarget{Pkg: "p1", Name: fmt.Sprintf("u%02d", i), Deps: []string{prev}, Sleep: sleepOf(r)}
		c.Targets = append(c.Targets, u)
		prev = u.Label()
	}
	other := &SchedTarget{Pkg: "p1", Name: "z00", Sleep: sleepOf(r)}
	c.Targets = append(c.Targets, other)
	c.Requested = []string{a.Label(), prev, other.Label()} // a00 first: its parse task is the one that parses p0
	return c
}

// genSlowFail: a dependency whose command runs for longer than waitOnChan's 10 s "still waiting" timer - twice, since
// queueTargetAsync waits in both of its passes - and THEN fails. Its dependents (one through srcs, one through a named
// tool, a chain on top) must still be waiting when it fails, and must never start.
func genSlowFail(r *lib.Rng, o SchedOpts) *SchedCase {
	c := &SchedCase{Kind: o.Kind, Shape: "fanin", Broken: map[string]string{}, Threads: []int{2, 16}[r.Intn(2)], KeepGoing: r.Bool(), SlowSecs: 25}
	slow := &SchedTarget{Pkg: "p0", Name: "a00", Fail: true, Sleep: "25", Binary: true}
	u0 := &SchedTarget{Pkg: "p0", Name: "u00", Deps: []string{slow.Label()}}
	u1 := &SchedTarget{Pkg: "p1", Name: "u01", Deps: []string{slow.Label()}, ToolDeps: []string{slow.Label()}}
	u2 := &SchedTarget{Pkg: "p1", Name: "u02", Deps: []string{u0.Label()}}
	z := &SchedTarget{Pkg: "p1", Name: "z00", Sleep: sleepOf(r)}
	c.Targets = []*SchedTarget{slow, u0, u1, u2, z}
	c.Requested = []string{u2.Label(), u1.Label(), z.Label()}
	lib.Shuffle(r, c.Requested)
	return c
}

// genStaleFail: a (a tool of b) is built once, leaving a large output directory; then its source changes so that the
// rebuild fails and Build() has to remove the stale outputs before it marks the target Failed. b (and a chain on top of it)
// waits for a and must not be started, with --keep_going.
func genStaleFail(r *lib.Rng, o SchedOpts) *SchedCase {
	c := &SchedCase{Kind: o.Kind, Shape: "tool", Broken: map[string]string{}, Threads: []int{2, 4, 16}[r.Intn(3)], KeepGoing: true, Second: "edittool"}
	a := &SchedTarget{Pkg: "p0", Name: "a00", SrcFile: "flag.txt", FailOnV2: true, BigOut: []int{3000, 5000}[r.Intn(2)], Binary: true}
	b := &SchedTarget{Pkg: "p0", Name: "b00", Deps: []string{a.Label()}, ToolDeps: []string{a.Label()}}
	c.Targets = []*SchedTarget{a, b}
	top := b
	for i := 0; i < r.Intn(3); i++ {
		u := &SchedTarget{Pkg: "p0", Name: fmt.Sprintf("u%02d", i), Deps: []string{top.Label()}}
		c.Targets = append(c.Targets, u)
		top = u
	}
	if r.Bool() { // a second waiter, through srcs
		c.Targets = append(c.Targets, &SchedTarget{Pkg: "p0", Name: "w00", Deps: []string{a.Label()}})
		c.Requested = append(c.Requested, "//p0:w00")
	}
	c.First = []string{a.Label()}
	c.Requested = append(c.Requested, top.Label())
	return c
}

// genNamedTool: x uses tool as a NAMED tool and requires "k"; tool provides {"k": tf}. Because tool is a tool of x the
// provide does not apply: x depends on tool itself and must wait for it. First invocation builds tool only; then tool's
// source file is edited; the observed invocation builds x (and things on top of it) and tool: x must not start before
// the rebuilt tool has finished.
func genNamedTool(r *lib.Rng, o SchedOpts) *SchedCase {
	c := &SchedCase{Kind: o.Kind, Shape: "tool", Broken: map[string]string{}, Threads: []int{2, 16}[r.Intn(2)], KeepGoing: r.Bool(), Second: "edittool"}
	pkg := "p0"
	tf := &SchedTarget{Pkg: pkg, Name: "t00"}
	tool := &SchedTarget{Pkg: pkg, Name: "t01", SrcFile: "version.txt", Binary: true, Sleep: []string{"0.4", "0.6", "0.8"}[r.Intn(3)],
		Provides: map[string]string{"k": tf.Label()}}
	x := &SchedTarget{Pkg: pkg, Name: "t02", Deps: []string{tool.Label()}, ToolDeps: []string{tool.Label()}, Requires: []string{"k"}}
	c.Targets = []*SchedTarget{tf, tool, x}
	top := x
	for i := 0; i < r.Intn(3); i++ {
		u := &SchedTarget{Pkg: pkg, Name: fmt.Sprintf("t%02d", 3+i), Deps: []string{top.Label()}, Sleep: sleepOf(r)}
		if r.Bool() {
			u.Deps = append(u.Deps, tf.Label())
			sort.Strings(u.Deps)
		}
		c.Targets = append(c.Targets, u)
		top = u
	}
	c.First = []string{tool.Label()}
	c.Requested = []string{top.Label(), tool.Label()}
	lib.Shuffle(r, c.Requested)
	return c
}

// ---------------------------------------------------------------------------------------------
// the model's view of a case: labels numbered in (package, name) order - the order of BuildLabels.Less

type SchedIndex struct {
	Labels []string
	Num    map[string]int
	Pkgs   []string
	PkgNum map[string]int
}

func (c *SchedCase) Index() *SchedIndex {
	seen := map[string]bool{}
	for _, t := range c.Targets {
		seen[t.Label()] = true
		for _, d := range t.Deps {
			seen[d] = true
		}
	}
	for _, l := range c.Requested {
		seen[l] = true
	}
	ix := &SchedIndex{Num: map[string]int{}, PkgNum: map[string]int{}}
	ix.Labels = lib.SortedKeys(seen) // "//p0:t00" < "//p0:t01" < "//p1:..." : same as (package, name) order for these names
	sort.Slice(ix.Labels, func(i, j int) bool {
		pi, ni := SplitLabel(ix.Labels[i])
		pj, nj := SplitLabel(ix.Labels[j])
		if pi != pj {
			return pi < pj
		}
		return ni < nj
	})
	ps := map[string]bool{}
	for i, l := range ix.Labels {
		ix.Num[l] = i
		p, _ := SplitLabel(l)
		ps[p] = true
	}
	ix.Pkgs = lib.SortedKeys(ps)
	for i, p := range ix.Pkgs {
		ix.PkgNum[p] = i
	}
	return ix
}

func natList(xs []int) string {
	out := make([]string, len(xs))
	for i, x := range xs {
		out[i] = fmt.Sprint(x)
	}
	return "[" + strings.Join(out, ";") + "]"
}

// GraphTerm prints `graph_of pkgs deps decl pkg_ok req keep_going threads`.
func (c *SchedCase) GraphTerm(ix *SchedIndex) string {
	var pkgs, deps, decl, pkgok []string
	hasDir := map[string]bool{}
	for _, p := range c.pkgs() {
		hasDir[p] = true
	}
	for _, l := range ix.Labels {
		p, _ := SplitLabel(l)
		pkgs = append(pkgs, fmt.Sprint(ix.PkgNum[p]))
		t := c.target(l)
		ds := []int{}
		if t != nil {
			for _, d := range t.Deps {
				ds = append(ds, ix.Num[d])
			}
			sort.Ints(ds)
		}
		deps = append(deps, natList(ds))
		// a syntax error is found before anything is evaluated: no target of that file is ever added
		decl = append(decl, lib.Bool(t != nil && c.Broken[p] != "syntax"))
	}
	for _, p := range ix.Pkgs {
		pkgok = append(pkgok, lib.Bool(hasDir[p] && c.Broken[p] == ""))
	}
	req := []int{}
	for _, l := range c.Requested {
		req = append(req, ix.Num[l])
	}
	return fmt.Sprintf("(graph_of %s [%s] [%s] [%s] %s %s %d)", "["+strings.Join(pkgs, ";")+"]", strings.Join(deps, ";"),
		strings.Join(decl, ";"), strings.Join(pkgok, ";"), natList(req), lib.Bool(c.KeepGoing), c.Threads)
}

// EventTerms translates the observed trace; ok is false when an event is not understood.
func (c *SchedCase) EventTerms(ix *SchedIndex, obs *SchedObs) (string, bool) {
	var out []string
	ok := true
	for _, e := range obs.Events {
		n, known := ix.Num[e.Label]
		if !known && strings.HasPrefix(e.Label, "///") {
			continue // the subincluded filegroup of a subrepo: outside the modelled graph
		}
		if !known {
			ok = false
			continue
		}
		switch {
		case e.Ph == "B":
			out = append(out, fmt.Sprintf("EvStart %d", n))
		case e.Err != "" && strings.HasPrefix(e.Desc, "Build failed"):
			out = append(out, fmt.Sprintf("EvEnd %d RFailed", n))
		case e.Err != "" && strings.Contains(e.Err, "Dependency cycle found"):
			cyc := []int{}
			lines := strings.Split(e.Err, "\n")
			for _, ln := range lines[1:] {
				ln = strings.TrimSpace(strings.TrimPrefix(strings.TrimSpace(ln), "->"))
				if k, isLabel := ix.Num[ln]; isLabel {
					cyc = append(cyc, k)
				}
			}
			if len(cyc) >= 2 && cyc[0] == cyc[len(cyc)-1] {
				cyc = cyc[:len(cyc)-1]
			}
			if len(cyc) == 0 {
				ok = false
			}
			out = append(out, fmt.Sprintf("EvErr %d %s", n, natList(cyc)))
		case e.Err != "":
			out = append(out, fmt.Sprintf("EvErr %d []", n))
		case e.Desc == "Built":
			out = append(out, fmt.Sprintf("EvEnd %d (RBuilt Built)", n))
		case e.Desc == "Built (unchanged)":
			out = append(out, fmt.Sprintf("EvEnd %d (RBuilt Unchanged)", n))
		case e.Desc == "Unchanged":
			out = append(out, fmt.Sprintf("EvEnd %d (RBuilt Reused)", n))
		case e.Desc == "Cached":
			out = append(out, fmt.Sprintf("EvEnd %d (RBuilt Cached)", n))
		case e.Desc == "Dependency failed":
			out = append(out, fmt.Sprintf("EvEnd %d RDepFailed", n))
		default:
			ok = false
		}
	}
	return "[" + strings.Join(out, "; ") + "]", ok
}

// CoqCase is the Model/Sched.v case for an observation.
func (c *SchedCase) CoqCase(obs *SchedObs) (string, bool) {
	ix := c.Index()
	evs, ok := c.EventTerms(ix, obs)
	// which label's parse task evaluated a failing BUILD file: plz names it ("<label> failed:") in its error output
	hints := []int{}
	for _, line := range strings.Split(obs.Stderr, "\n") {
		if i := strings.Index(line, "ERROR: //"); i >= 0 && strings.Contains(line, " failed:") {
			l := strings.Fields(line[i+len("ERROR: "):])[0]
			p, _ := SplitLabel(l)
			if n, known := ix.Num[l]; known && (c.Broken[p] != "" || !c.hasDir(p)) {
				hints = append(hints, n)
			}
		}
	}
	// The result stream may lack its tail (forwardResults vs CloseResults). Commands that ran to their end (E line) or
	// failed (F line) according to the action log but have no final result in the stream, in the order they started:
	ended, failedCmd, finalSeen := map[string]bool{}, map[string]bool{}, map[string]bool{}
	for _, line := range obs.Log {
		if f := strings.Fields(line); len(f) == 2 {
			ended[f[1]] = ended[f[1]] || f[0] == "E"
			failedCmd[f[1]] = failedCmd[f[1]] || f[0] == "F"
		}
	}
	for _, e := range obs.Events {
		if e.Ph == "E" {
			finalSeen[e.Label] = true
		}
	}
	tail, done := []string{}, map[string]bool{}
	for _, line := range obs.Log {
		f := strings.Fields(line)
		if len(f) != 2 || f[0] != "S" || done[f[1]] || finalSeen[f[1]] || !(ended[f[1]] || failedCmd[f[1]]) {
			continue
		}
		if n, known := ix.Num[f[1]]; known {
			done[f[1]] = true
			tail = append(tail, fmt.Sprintf("(%d, %s)", n, lib.Bool(ended[f[1]])))
		}
	}
	return fmt.Sprintf("CRun %s %s %s [%s] %s", c.GraphTerm(ix), natList(hints), evs, strings.Join(tail, "; "), lib.Bool(obs.Exit != 0)), ok
}

// subrepoPackageParsed says whether the package carrying the subrepo statements is in the dependency closure of the requested
// targets: plz parses nothing else, so only then is checkSubrepo's decision observable.
func (c *SchedCase) subrepoPackageParsed() bool {
	want := map[string]bool{}
	for p, k := range c.Broken {
		if strings.HasPrefix(k, "subrepo-") {
			want[p] = true
		}
	}
	for p := range c.SubrepoOK {
		want[p] = true
	}
	seen := map[string]bool{}
	todo := append([]string{}, c.Requested...)
	for len(todo) > 0 {
		l := todo[0]
		todo = todo[1:]
		if seen[l] {
			continue
		}
		seen[l] = true
		p, _ := SplitLabel(l)
		if want[p] {
			return true
		}
		if t := c.target(l); t != nil {
			todo = append(todo, t.Deps...)
		}
	}
	return false
}

// SubrepoCase is the Model/Sched.v case for checkSubrepo's decision in a case with subrepo statements ("" if there are
// none): CSub registered definer_defines label definer dependent observed. A package label is (subrepo, package): subrepo 0 =
// the host repository, 1 = the subrepo; package 0 = a root package, 1 = the package with the statements, 2 = srdef_<p>.
func (c *SchedCase) SubrepoCase(obs *SchedObs) string {
	kind := ""
	for _, k := range c.Broken {
		if strings.HasPrefix(k, "subrepo-") {
			kind = k
		}
	}
	for _, k := range c.SubrepoOK {
		kind = "ok-" + k
	}
	reg, defines, definer := false, true, "(0, 1)"
	switch kind {
	case "":
		return ""
	case "subrepo-order":
	case "subrepo-undefined":
		defines = false
	case "subrepo-elsewhere-undefined":
		defines, definer = false, "(0, 2)"
	case "ok-same":
		reg = true
	case "ok-other":
		definer = "(0, 2)"
	}
	return fmt.Sprintf("CSub %s %s (1, 0) %s (0, 1) %d", lib.Bool(reg), lib.Bool(defines), definer, obs.SubrepoMsg)
}

// ---------------------------------------------------------------------------------------------
// the oracle (independent of the model)

type SchedFinding struct {
	Prop  string // C04 | C05
	Class string
	What  string
}

// closure returns the labels reachable from the requested ones through declared dependencies (declared or not).
func (c *SchedCase) closure() map[string]bool {
	seen := map[string]bool{}
	var visit func(l string)
	visit = func(l string) {
		if seen[l] {
			return
		}
		seen[l] = true
		if t := c.target(l); t != nil {
			for _, d := range t.Deps {
				visit(d)
			}
		}
	}
	for _, l := range c.Requested {
		visit(l)
	}
	return seen
}

// cannotBuild: labels of the closure that cannot be built, with the reason.
func (c *SchedCase) cannotBuild() map[string]string {
	bad := map[string]string{}
	cl := c.closure()
	hasDir := map[string]bool{}
	for _, p := range c.pkgs() {
		hasDir[p] = true
	}
	for l := range cl {
		p, _ := SplitLabel(l)
		t := c.target(l)
		switch {
		case !hasDir[p]:
			bad[l] = "missing package"
		case c.Broken[p] != "":
			bad[l] = "BUILD file error"
		case t == nil:
			bad[l] = "undeclared target"
		case t.Fail, t.FailOnV2 && c.Second == "edittool":
			bad[l] = "failing command"
		}
	}
	// cycles: a label of the closure that reaches itself
	for l := range cl {
		seen := map[string]bool{}
		var reach func(x string) bool
		reach = func(x string) bool {
			t := c.target(x)
			if t == nil {
				return false
			}
			for _, d := range t.Deps {
				if d == l {
					return true
				}
				if !seen[d] {
					seen[d] = true
					if reach(d) {
						return true
					}
				}
			}
			return false
		}
		if reach(l) {
			bad[l] = "dependency cycle"
		}
	}
	return bad
}

// SchedOracle checks C04 and C05 on one observation.
func SchedOracle(c *SchedCase, obs *SchedObs) []SchedFinding {
	var out []SchedFinding
	add := func(prop, class, f string, a ...any) {
		out = append(out, SchedFinding{prop, class, fmt.Sprintf(f, a...)})
	}
	bad := c.cannotBuild()
	hasCycle, hasCmdFail := false, false
	for _, why := range bad {
		hasCycle = hasCycle || why == "dependency cycle"
	}
	// --- the action log
	started, ended, failedCmd := map[string]int{}, map[string]int{}, map[string]int{}
	pos := map[string]int{} // position of the E line
	startsInLog := map[string]bool{}
	for _, line := range obs.Log {
		if f := strings.Fields(line); len(f) == 2 && f[0] == "S" {
			startsInLog[f[1]] = true
		}
	}
	for i, line := range obs.Log {
		f := strings.Fields(line)
		if len(f) != 2 {
			continue
		}
		switch f[0] {
		case "S":
			started[f[1]]++
			t := c.target(f[1])
			if t == nil {
				add("C04", "unknown-action-ran", "the action log names %s, which the repository does not declare", f[1])
				continue
			}
			for _, d := range t.Deps {
				if c.Second != "" && !startsInLog[d] && bad[d] == "" {
					continue // a later invocation: the dependency was up to date and did not run at all
				}
				if _, done := pos[d]; !done {
					if failedCmd[d] > 0 || bad[d] != "" {
						add("C05", "ran-after-failed-dependency", "%s started although its dependency %s cannot be built (%s)", f[1], d, bad[d])
						add("C04", "started-although-dependency-failed", "%s started although its dependency %s did not succeed (%s)", f[1], d, bad[d])
					} else {
						add("C04", "started-before-dependency-finished", "%s started before its dependency %s had finished (log line %d)", f[1], d, i)
					}
				}
			}
		case "E":
			ended[f[1]]++
			pos[f[1]] = i
		case "F":
			failedCmd[f[1]]++
			hasCmdFail = true
		}
	}
	for l, n := range started {
		if n > 1 {
			add("C04", "action-ran-twice", "%s started %d times in one invocation", l, n)
		}
	}
	// transitively: nothing that depends (transitively) on something unbuildable may start
	for l := range started {
		seen := map[string]bool{}
		var visit func(x string) string
		visit = func(x string) string {
			if t := c.target(x); t != nil {
				for _, d := range t.Deps {
					if bad[d] != "" {
						return d
					}
					if !seen[d] {
						seen[d] = true
						if b := visit(d); b != "" {
							return b
						}
					}
				}
			}
			return ""
		}
		if b := visit(l); b != "" && c.target(l) != nil {
			direct := false
			for _, d := range c.target(l).Deps {
				direct = direct || d == b
			}
			if !direct {
				add("C05", "ran-after-failed-dependency", "%s started although %s, which it depends on transitively, cannot be built (%s)", l, b, bad[b])
			}
		}
	}
	if len(obs.LateLines) > 0 {
		add("C05", "command-outlives-plz", "the action log grew after plz had exited: %v", obs.LateLines)
	}
	// --- termination
	if obs.TimedOut || obs.WallMs > obs.BoundMs {
		undefElsewhere := false
		for _, k := range c.Broken {
			undefElsewhere = undefElsewhere || k == "subrepo-elsewhere-undefined"
		}
		for _, k := range c.SubrepoOK {
			undefElsewhere = undefElsewhere || k == "other"
		}
		if undefElsewhere && c.Threads == 1 {
			// found by the subrepo shapes on the unchanged tree: with -n 1 a subinclude of a target of a subrepo that ANOTHER,
			// not yet parsed package is expected to define (whether it does or not) never returns; every target declared
			// before the subinclude is built and plz then sits there
			add("C05", "subinclude-subrepo-of-other-package-hangs-with-one-thread", "with -n 1 a BUILD file that subincludes a target of a subrepo which another (not yet parsed) package is expected to define: plz did not terminate within %d ms (wall %d ms)", obs.BoundMs, obs.WallMs)
		} else if c.KeepGoing && hasCmdFail && hasCycle {
			add("C05", "keep-going-failure-disables-cycle-check", "with --keep_going, a failed command and a dependency cycle plz did not terminate within %d ms", obs.BoundMs)
		} else {
			add("C05", "build-did-not-terminate", "plz did not terminate within %d ms (wall %d ms, killed=%v)", obs.BoundMs, obs.WallMs, obs.TimedOut)
		}
		return out
	}
	// --- exit status
	if (obs.Exit != 0) != (len(bad) > 0) {
		add("C05", "exit-status-wrong", "exit status %d but %d requested targets or dependencies cannot be built %v; stderr: %s", obs.Exit, len(bad), bad, obs.Stderr)
	}
	// --- the result stream: every command that ran to its end is reported exactly once
	if obs.TraceOK {
		begins, ends := map[string]int{}, map[string]int{}
		kind := map[string]string{}
		for _, e := range obs.Events {
			if e.Ph == "B" {
				begins[e.Label]++
			} else if e.Ph == "E" {
				ends[e.Label]++
				if e.Err != "" {
					kind[e.Label] = "failed"
				} else {
					kind[e.Label] = e.Desc
				}
			}
		}
		// plz must not even begin to build a target one of whose (transitive) dependencies cannot be built
		for l := range begins {
			if c.target(l) == nil {
				continue
			}
			seen := map[string]bool{}
			var visit func(x string) string
			visit = func(x string) string {
				if t := c.target(x); t != nil {
					for _, d := range t.Deps {
						if bad[d] != "" {
							return d
						}
						if !seen[d] {
							seen[d] = true
							if b := visit(d); b != "" {
								return b
							}
						}
					}
				}
				return ""
			}
			if b := visit(l); b != "" && started[l] == 0 {
				add("C05", "ran-after-failed-dependency", "plz began to build %s although %s, which it depends on, cannot be built (%s)", l, b, bad[b])
				add("C04", "started-although-dependency-failed", "plz began to build %s although %s, which it depends on, did not succeed (%s)", l, b, bad[b])
			}
		}
		for l, n := range ends {
			if n > 1 {
				add("C04", "result-reported-twice", "%s has %d final results in the result stream", l, n)
			}
		}
		for l, n := range begins {
			if n > 1 {
				add("C04", "action-ran-twice", "%s began building %d times according to the result stream", l, n)
			}
		}
		for l := range ended {
			if ends[l] == 0 {
				add("C04", "result-lost-at-shutdown", "%s ran to completion but no final result for it reached the result stream", l)
			} else if k := kind[l]; k != "Built" && k != "Built (unchanged)" {
				add("C04", "result-misreported", "%s ran to completion but was reported as %q", l, k)
			}
		}
		for l := range failedCmd {
			if ends[l] == 0 {
				add("C04", "result-lost-at-shutdown", "%s's command failed but no final result for it reached the result stream", l)
			} else if kind[l] != "failed" {
				add("C04", "result-misreported", "%s's command failed but it was reported as %q", l, kind[l])
			}
		}
		if obs.Exit == 0 {
			// a successful invocation has completed every target of the closure: each must have its one final result
			for l := range c.closure() {
				if ends[l] == 0 && ended[l] == 0 {
					add("C04", "result-lost-at-shutdown", "exit status 0 but no final result for %s reached the result stream", l)
				}
			}
		}
		for l := range started {
			if ended[l] == 0 && failedCmd[l] == 0 {
				add("C05", "command-abandoned", "%s's command started but neither finished nor failed before plz exited", l)
			}
		}
	}
	return out
}

// RunScheds runs the cases `workers` at a time, each in its own scratch directory under base.
func RunScheds(base string, cases []*SchedCase, workers int, bound time.Duration) []SchedObs {
	out := make([]SchedObs, len(cases))
	var wg sync.WaitGroup
	sem := make(chan struct{}, workers)
	for i := range cases {
		wg.Add(1)
		sem <- struct{}{}
		go func(i int) {
			defer wg.Done()
			defer func() { <-sem }()
			dir := fmt.Sprintf("%s/s%d", base, i)
			os.MkdirAll(dir, 0o755)
			out[i] = cases[i].RunSched(dir, bound)
			os.RemoveAll(dir)
		}(i)
	}
	wg.Wait()
	return out
}

// RunSchedProperty is the whole harness for one of the two properties (they share generator, runs and model).
func RunSchedProperty(c *lib.Ctx, prop string) {
	c.Model("From PlzV Require Import Model.Sched.", "Sched.case", "Sched.check")
	c.Rule("generated repositories of 3-13 genrules in 1-3 packages (chains, diamonds, wide fan-in, random DAGs, independent targets in separate packages) " +
		"with seeded sleeps, -n 1/2/16, with and without --keep_going, several requested labels; injected: failing commands, a BUILD file with a syntax error or " +
		"an evaluation error, a dependency on an undeclared target or a missing package, an undeclared dependency found by queueTargetAsync in an already loaded package with dependents waiting (mostly --keep_going), dependency cycles of length 1-3, a rebuild of an already built tree, a named tool with provides/requires whose source is edited between two invocations; " +
		"observed: the action log (start/end lines written by the commands), the BuildResult stream (--trace_file), exit status, wall time. " +
		"distinct = distinct (graph, flags, event sequence); non-trivial = at least two commands ran or a failure was injected")
	base := Scratch(strings.ToLower(prop))
	defer os.RemoveAll(base)

	var cases []*SchedCase
	var replay SchedCase
	if c.ReadReplay(&replay) && len(replay.Targets) > 0 {
		repeat := 5
		if v := os.Getenv("VERIF_SCHED_REPEAT"); v != "" { // stability runs: the same case many times
			fmt.Sscan(v, &repeat)
		}
		for i := 0; i < repeat; i++ {
			cp := replay
			cases = append(cases, &cp)
		}
	} else {
		plan := []struct {
			kind   string
			quick  int
			thor   int
			second string
		}{
			{"none", 18, 400, ""}, {"none", 3, 60, "rebuild"}, {"fail", 16, 400, ""}, {"wide", 12, 400, ""},
			{"syntax", 5, 80, ""}, {"runtime", 5, 80, ""}, {"undefined", 6, 80, ""}, {"missingpkg", 5, 80, ""},
			{"cycle1", 1, 6, ""}, {"cycle2", 1, 6, ""}, {"cycle3", 1, 6, ""}, {"hang", 1, 2, ""},
			{"undefchain", 6, 60, ""}, {"namedtool", 1, 20, "edittool"},
			{"subrepoorder", 5, 40, ""}, {"subrepook", 2, 20, ""}, {"slowfail", 1, 3, ""}, {"stalefail", 1, 20, "edittool"},
		}
		if prop == "C04" { // C04 concentrates on successful and partially failing builds, C05 on failures
			plan[0].quick, plan[2].quick, plan[3].quick = 26, 16, 12
			plan[4].quick, plan[5].quick, plan[6].quick, plan[7].quick = 2, 2, 3, 2
			plan[8].quick, plan[9].quick, plan[10].quick, plan[11].quick = 0, 1, 0, 0
			plan[11].thor = 0
			plan[12].quick, plan[13].quick = 3, 3
			plan[14].quick, plan[15].quick, plan[16].quick, plan[17].quick = 1, 1, 0, 4
		} else {
			plan[0].quick, plan[3].quick = 6, 16
		}
		for _, p := range plan {
			for i := 0; i < c.Scale(p.quick, p.thor); i++ {
				kg := 0
				if p.kind == "undefchain" { // mostly with --keep_going (a hang needs it), some without
					kg = 1
					if i%3 == 2 {
						kg = 2
					}
				}
				cases = append(cases, GenSched(c.Rng.Fork(), SchedOpts{Kind: p.kind, Second: p.second, ForceKG: kg, Variant: i}))
			}
		}
	}
	// the slow cases (timer, hang) first so that they overlap with everything else
	sort.SliceStable(cases, func(i, j int) bool {
		slow := func(k string) bool { return strings.HasPrefix(k, "cycle") || k == "hang" || k == "slowfail" }
		return slow(cases[i].Kind) && !slow(cases[j].Kind)
	})
	ref, bound := Calibrate(base)
	c.Note("calibration: a one-target build takes %v now; wall-clock bound per invocation %v", ref, bound)
	obs := RunScheds(base, cases, c.Scale(8, 10), bound)
	for i, sc := range cases {
		o := &obs[i]
		js := map[string]any{"kind": sc.Kind, "shape": sc.Shape, "targets": sc.Targets, "broken": sc.Broken, "requested": sc.Requested,
			"keep_going": sc.KeepGoing, "threads": sc.Threads, "second": sc.Second, "first": sc.First, "subrepo_ok": sc.SubrepoOK, "slow_secs": sc.SlowSecs, "observed": o}
		term, understood := sc.CoqCase(o)
		started := 0
		for _, l := range o.Log {
			if strings.HasPrefix(l, "S ") {
				started++
			}
		}
		key := fmt.Sprint(term)
		c.Hist("kind", sc.Kind)
		c.Hist("shape", sc.Shape)
		c.HistN("threads", sc.Threads)
		c.Hist("keep_going", fmt.Sprint(sc.KeepGoing))
		c.HistN("commands-started", started)
		c.Hist("exit", fmt.Sprint(o.Exit))
		c.Oracle()
		findings := SchedOracle(sc, o)
		skipModel := false
		for _, f := range findings {
			if f.Prop == prop {
				c.Fail(f.Class, f.What, js)
			}
			// A lost tail of the result stream is part of the model (reported = a prefix of the log; the case carries the
			// commands the action log knows about). Not replayable: a rebuild that lost "Unchanged" results (no action log
			// to tell what happened), a command that was abandoned or outlived plz.
			if (f.Class == "result-lost-at-shutdown" && sc.Second != "") || f.Class == "command-abandoned" || f.Class == "command-outlives-plz" {
				skipModel = true
			}
		}
		if sc.Kind == "subrepoorder" && o.SubrepoMsg != 0 {
			// plz reports the error against the subincluded label (///p/sr//:defs), not against the label whose parse task was
			// evaluating the BUILD file, so the hint trace validation needs for a failing package is not observable: the run is
			// checked by the oracle and by the CSub case below only
			skipModel = true
		} else if o.TimedOut {
			skipModel = true // the oracle has reported it; there is no terminated run to replay
		} else if !o.TraceOK {
			c.Note("case %d (%s): trace file incomplete (plz exited through log.Fatalf); model case not emitted; stderr: %.300s", i, sc.Kind, o.Stderr)
			skipModel = true
		}
		if !understood {
			c.Note("case %d (%s): an event of the result stream was not understood: %v", i, sc.Kind, o.Events)
		}
		if skipModel {
			c.Eval(js, key, started >= 2 || sc.Kind != "none")
		} else {
			c.Case(term, js, key, started >= 2 || sc.Kind != "none")
		}
		// checkSubrepo's decision (defined before use / used before defined / defined elsewhere / nowhere), seen through plz's error message
		if sub := sc.SubrepoCase(o); sub != "" && !o.TimedOut && sc.subrepoPackageParsed() {
			c.Case(sub, js, "sub:"+key, true)
		}
	}
}
