package aspgen

import (
	"fmt"

	"verifharness/lib"
)

// ---------------------------------------------------------------------------------------------
// Typed random generation. Expressions are generated as trees with CPython's meaning in mind (so that
// CPython evaluates them without a type error) and then FLATTENED with only the parentheses CPython needs:
// this is what gives chains of mixed precedence, which asp then groups in its own way.

type ty int

const (
	tInt ty = iota
	tBool
	tStr
	tLInt
	tLStr
	tDict
)

type gtree struct {
	op   string // binary
	un   string // prefix
	l, r *gtree
	leaf *Val
}

func leaf(v *Val) *gtree { return &gtree{leaf: v} }

func treePrec(t *gtree) int {
	switch {
	case t.leaf != nil:
		return 100
	case t.un != "":
		return pprec(t.un)
	}
	return pprec(t.op)
}

// flatten prints the tree as a flat chain, adding a paren value only where CPython would otherwise group differently.
func flatten(t *gtree) *Expr {
	if t.leaf != nil {
		return E(t.leaf)
	}
	asVal := func(c *gtree) *Val {
		if c.leaf != nil {
			return c.leaf
		}
		return Paren(flatten(c))
	}
	if t.un != "" {
		// prefix operator: operand inline when it binds tighter than the operator
		if t.l.leaf != nil || treePrec(t.l) > pprec(t.un) {
			inner := flatten(t.l)
			if len(inner.Ops) > 0 && inner.Ops[0].Val == nil {
				// two prefix operators in a row cannot be parsed by asp
				return E(Paren(inner), Un(t.un))
			}
			return &Expr{Val: inner.Val, Ops: append([]Op{Un(t.un)}, inner.Ops...)}
		}
		return E(Paren(flatten(t.l)), Un(t.un))
	}
	p := pprec(t.op)
	var left *Expr
	lp := treePrec(t.l)
	if t.l.leaf != nil || lp > p || (lp == p && !isCmp(t.op) && t.l.un == "") {
		left = flatten(t.l)
	} else {
		left = E(Paren(flatten(t.l)))
	}
	ops := append([]Op{}, left.Ops...)
	rp := treePrec(t.r)
	if t.r.leaf != nil {
		ops = append(ops, Bin(t.op, t.r.leaf))
	} else if rp > p {
		right := flatten(t.r)
		if len(right.Ops) > 0 && right.Ops[0].Val == nil {
			// operand with a prefix operator: the prefix entry FOLLOWS the binary entry
			if right.Ops[0].Op == "not" && p >= pprec("not") {
				ops = append(ops, Bin(t.op, Paren(right)))
			} else {
				ops = append(ops, Bin(t.op, right.Val))
				ops = append(ops, right.Ops...)
			}
		} else {
			ops = append(ops, Bin(t.op, right.Val))
			ops = append(ops, right.Ops...)
		}
	} else {
		ops = append(ops, Bin(t.op, asVal(t.r)))
	}
	return &Expr{Val: left.Val, Ops: ops}
}

// Gen is a typed program generator.
type Gen struct {
	R     *lib.Rng
	vars  map[ty][]string
	spare map[string]bool // list variables whose backing array may have spare capacity
	n     int
	stmts []*Stmt
	funcs []string // int -> int functions defined so far
	lfun  []string // functions returning a fresh list of ints
	// knobs
	AllowDiv bool
}

func NewGen(r *lib.Rng) *Gen {
	return &Gen{R: r, vars: map[ty][]string{}, spare: map[string]bool{}}
}

func (g *Gen) fresh(t ty) string {
	g.n++
	name := fmt.Sprintf("v%d", g.n)
	g.vars[t] = append(g.vars[t], name)
	return name
}

var words = []string{"a", "b", "lib", "src", "héllo", "ß", "漢字", "x-1", "go_test", "", "Zed", "a b", "😀", "10", "//pkg:t", "%", "tail"}

func (g *Gen) intLit() *Val {
	r := g.R
	switch r.Intn(12) {
	case 0, 1, 2, 3, 4:
		return Int(r.Range(0, 9))
	case 5, 6:
		return Int(-r.Range(1, 9))
	case 7:
		return Int(r.Range(10, 1000))
	case 8:
		return Int(-r.Range(10, 1000))
	case 9:
		return Int(lib.Pick(r, []int{2147483647, -2147483648, 4294967296, 65536, 99999999}))
	case 10:
		return Int(lib.Pick(r, []int{0, 1, -1, 2, 3, 7}))
	default:
		if r.Chance(1, 6) {
			return Int(lib.Pick(r, []int{900000000000000000, -90000000000000000, 9007199254740993, 3037000500}))
		}
		return Int(r.Range(0, 99))
	}
}

func (g *Gen) strLit() *Val { return Str(lib.Pick(g.R, words)) }

func (g *Gen) intLeaf(depth int) *Val {
	r := g.R
	if vs := g.vars[tInt]; len(vs) > 0 && r.Chance(2, 5) {
		return Ident(lib.Pick(r, vs))
	}
	if depth > 0 && r.Chance(1, 5) {
		switch r.Intn(5) {
		case 0:
			if vs := g.vars[tLInt]; len(vs) > 0 {
				return Call("len", IdE(lib.Pick(r, vs)))
			}
		case 1:
			if vs := g.vars[tStr]; len(vs) > 0 {
				return Call("len", IdE(lib.Pick(r, vs)))
			}
		case 2:
			if len(g.funcs) > 0 {
				return Call(lib.Pick(r, g.funcs), flatten(g.intTree(depth-1)))
			}
		case 3:
			if vs := g.vars[tLInt]; len(vs) > 0 {
				// guarded element access
				return Call(lib.Pick(r, []string{"min", "max"}), E(List(IntE(r.Range(-5, 5))), Bin("+", Ident(lib.Pick(r, vs)))))
			}
		case 4:
			return Paren(&Expr{Val: g.intLit(), If: flatten(g.boolTree(depth - 1)), Els: E(g.intLit())})
		}
	}
	return g.intLit()
}

func (g *Gen) intTree(depth int) *gtree {
	r := g.R
	if depth <= 0 || r.Chance(1, 4) {
		return leaf(g.intLeaf(depth))
	}
	if r.Chance(1, 8) {
		return &gtree{un: "neg", l: g.intTree(depth - 1)}
	}
	ops := []string{"+", "-", "*", "+", "-", "*", "%", "//"}
	if g.AllowDiv {
		ops = append(ops, "/")
	}
	op := lib.Pick(r, ops)
	t := &gtree{op: op, l: g.intTree(depth - 1), r: g.intTree(depth - 1)}
	if op == "%" || op == "//" || op == "/" {
		// keep the divisor a non-zero literal most of the time
		if !r.Chance(1, 12) {
			d := r.Range(1, 9)
			if r.Chance(1, 3) {
				d = -d
			}
			t.r = leaf(Int(d))
		}
	}
	return t
}

func (g *Gen) strTree(depth int) *gtree {
	r := g.R
	if depth <= 0 || r.Chance(1, 3) {
		if vs := g.vars[tStr]; len(vs) > 0 && r.Chance(1, 2) {
			return leaf(Ident(lib.Pick(r, vs)))
		}
		return leaf(g.strLit())
	}
	switch r.Intn(6) {
	case 0, 1:
		return &gtree{op: "+", l: g.strTree(depth - 1), r: g.strTree(depth - 1)}
	case 2:
		return &gtree{op: "*", l: g.strTree(depth - 1), r: leaf(Int(r.Range(0, 3)))}
	case 3:
		return leaf(Call("str", flatten(g.intTree(depth-1))))
	case 4:
		if vs := g.vars[tLStr]; len(vs) > 0 {
			return leaf(Method(Str(lib.Pick(r, []string{",", " ", "", "--"})), "join", IdE(lib.Pick(r, vs))))
		}
	}
	return leaf(g.strLit())
}

func (g *Gen) boolTree(depth int) *gtree {
	r := g.R
	if depth <= 0 || r.Chance(1, 5) {
		switch r.Intn(4) {
		case 0:
			return leaf(True())
		case 1:
			return leaf(False())
		default:
			return &gtree{op: lib.Pick(r, []string{"<", ">", "<=", ">=", "==", "!="}), l: leaf(g.intLeaf(0)), r: leaf(g.intLeaf(0))}
		}
	}
	switch r.Intn(10) {
	case 0, 1, 2:
		return &gtree{op: lib.Pick(r, []string{"<", ">", "<=", ">=", "==", "!="}), l: g.intTree(depth - 1), r: g.intTree(depth - 1)}
	case 3:
		return &gtree{op: lib.Pick(r, []string{"<", ">", "==", "!=", "in", "not in"}), l: g.strTree(depth - 1), r: g.strTree(depth - 1)}
	case 4, 5:
		return &gtree{op: "and", l: g.boolishTree(depth - 1), r: g.boolishTree(depth - 1)}
	case 6, 7:
		return &gtree{op: "or", l: g.boolishTree(depth - 1), r: g.boolishTree(depth - 1)}
	case 8:
		return &gtree{un: "not", l: g.boolishTree(depth - 1)}
	default:
		if vs := g.vars[tLInt]; len(vs) > 0 {
			return &gtree{op: lib.Pick(r, []string{"in", "not in"}), l: g.intTree(0), r: leaf(Ident(lib.Pick(r, vs)))}
		}
		return &gtree{op: "==", l: g.intTree(depth - 1), r: g.boolTree(0)}
	}
}

// boolishTree: operands of and/or/not - any value has a truth value in both languages.
func (g *Gen) boolishTree(depth int) *gtree {
	if g.R.Chance(1, 3) {
		return g.intTree(depth)
	}
	return g.boolTree(depth)
}

func (g *Gen) listIntExpr(depth int) *Expr {
	r := g.R
	lit := func() *Val {
		n := r.Range(0, 5)
		es := []*Expr{}
		for i := 0; i < n; i++ {
			es = append(es, flatten(g.intTree(1)))
		}
		return List(es...)
	}
	noSpare := []string{}
	for _, v := range g.vars[tLInt] {
		if !g.spare[v] {
			noSpare = append(noSpare, v)
		}
	}
	switch r.Intn(9) {
	case 0:
		if len(g.vars[tLInt]) > 0 {
			return E(Call(lib.Pick(r, []string{"sorted", "reversed"}), IdE(lib.Pick(r, g.vars[tLInt]))))
		}
	case 1:
		if len(noSpare) > 0 {
			return E(Ident(lib.Pick(r, noSpare)), Bin("+", lit()))
		}
	case 2:
		x := "x"
		src := E(Call("range", IntE(r.Range(0, 6))))
		if len(g.vars[tLInt]) > 0 && r.Bool() {
			src = IdE(lib.Pick(r, g.vars[tLInt]))
		}
		body := flatten(&gtree{op: lib.Pick(r, []string{"+", "*", "-", "%"}), l: leaf(Ident(x)), r: leaf(Int(r.Range(1, 5)))})
		return E(Comp(body, []string{x}, src, nil))
	case 3:
		if len(g.lfun) > 0 {
			return E(Call(lib.Pick(r, g.lfun), flatten(g.intTree(1))))
		}
	case 4:
		if len(g.vars[tLInt]) > 0 {
			v := Call("sorted", IdE(lib.Pick(r, g.vars[tLInt])))
			v.Args = append(v.Args, Arg{Name: "reverse", E: E(lib.Pick(r, []*Val{True(), False()}))})
			return E(v)
		}
	case 5:
		return E(lit(), Bin("*", Int(r.Range(0, 3))))
	}
	return E(lit())
}

func (g *Gen) listStrExpr() *Expr {
	r := g.R
	switch r.Intn(4) {
	case 0:
		return E(Method(Str(lib.Pick(r, []string{"a,b,c", "x", "", "p/q/r", "é,ß"})), "split", StrE(lib.Pick(r, []string{",", "/", "b"}))))
	case 1:
		if len(g.vars[tLStr]) > 0 {
			return E(Call("sorted", IdE(lib.Pick(r, g.vars[tLStr]))))
		}
	}
	n := r.Range(0, 4)
	es := []*Expr{}
	for i := 0; i < n; i++ {
		es = append(es, flatten(g.strTree(1)))
	}
	return E(List(es...))
}

func (g *Gen) exprOf(t ty, depth int) *Expr {
	switch t {
	case tInt:
		return flatten(g.intTree(depth))
	case tBool:
		return flatten(g.boolTree(depth))
	case tStr:
		return flatten(g.strTree(depth))
	case tLInt:
		return g.listIntExpr(depth)
	case tLStr:
		return g.listStrExpr()
	default:
		n := g.R.Range(0, 3)
		keys, vals := []string{}, []*Expr{}
		for i := 0; i < n; i++ {
			keys = append(keys, lib.Pick(g.R, []string{"b", "a", "k", "zz", "é"}))
			vals = append(vals, flatten(g.intTree(1)))
		}
		return E(Dict(keys, vals))
	}
}

// ChainProgram: one to three assignments of int/bool operator chains over literals and earlier variables.
func (g *Gen) ChainProgram() Prog {
	n := g.R.Range(1, 3)
	for i := 0; i < n; i++ {
		t := tInt
		if g.R.Chance(2, 5) {
			t = tBool
		}
		e := g.exprOf(t, g.R.Range(2, 4))
		name := g.fresh(t)
		g.stmts = append(g.stmts, Assign(name, e))
	}
	return g.stmts
}

// Program: a richer program: lists, strings, dicts, builtins, a function or two, a loop, an if.
func (g *Gen) Program() Prog {
	r := g.R
	n := r.Range(3, 8)
	for i := 0; i < n; i++ {
		switch r.Intn(14) {
		case 0, 1, 2:
			e := g.exprOf(tInt, r.Range(1, 3))
			g.stmts = append(g.stmts, Assign(g.fresh(tInt), e))
		case 3:
			e := g.exprOf(tBool, r.Range(1, 3))
			g.stmts = append(g.stmts, Assign(g.fresh(tBool), e))
		case 4:
			e := g.exprOf(tStr, 2)
			g.stmts = append(g.stmts, Assign(g.fresh(tStr), e))
		case 5, 6:
			e := g.exprOf(tLInt, 2)
			g.stmts = append(g.stmts, Assign(g.fresh(tLInt), e))
		case 7:
			e := g.exprOf(tLStr, 1)
			g.stmts = append(g.stmts, Assign(g.fresh(tLStr), e))
		case 8:
			// filtered comprehension: the result has spare capacity
			if vs := g.vars[tLInt]; len(vs) > 0 {
				src := lib.Pick(r, vs)
				cond := flatten(&gtree{op: lib.Pick(r, []string{"<", ">", "!=", "%"}), l: leaf(Ident("x")), r: leaf(Int(r.Range(1, 4)))})
				e := E(Comp(IdE("x"), []string{"x"}, IdE(src), cond))
				name := g.fresh(tLInt)
				g.spare[name] = true
				g.stmts = append(g.stmts, Assign(name, e))
			}
		case 9:
			// int -> int function
			name := fmt.Sprintf("f%d", len(g.funcs)+len(g.lfun))
			saved := g.vars
			g.vars = map[ty][]string{tInt: {"a", "b"}}
			body := flatten(g.intTree(2))
			g.vars = saved
			g.stmts = append(g.stmts, Def(name, []Arg{{Name: "a"}, {Name: "b", E: IntE(r.Range(-3, 9))}}, Return(body)))
			g.funcs = append(g.funcs, name)
		case 10:
			// function returning a fresh list literal: repeated calls must be independent
			name := fmt.Sprintf("f%d", len(g.funcs)+len(g.lfun))
			g.stmts = append(g.stmts, Def(name, []Arg{{Name: "a"}}, Return(E(List(IdE("a"), IntE(r.Range(0, 9)), IntE(r.Range(0, 9)))))))
			g.lfun = append(g.lfun, name)
		case 11:
			// accumulate over a list
			if vs := g.vars[tLInt]; len(vs) > 0 {
				acc := g.fresh(tInt)
				g.stmts = append(g.stmts, Assign(acc, IntE(r.Range(0, 3))))
				upd := flatten(&gtree{op: lib.Pick(r, []string{"+", "-", "*"}), l: leaf(Ident(acc)), r: &gtree{op: lib.Pick(r, []string{"*", "+", "%"}), l: leaf(Ident("x")), r: leaf(Int(r.Range(1, 4)))}})
				var body []*Stmt
				if r.Bool() {
					body = []*Stmt{Assign(acc, upd)}
				} else {
					body = []*Stmt{If(flatten(g.boolTreeOver("x")), []*Stmt{Aug(acc, IdE("x"))}, []*Stmt{Assign(acc, upd)})}
				}
				g.stmts = append(g.stmts, For([]string{"x"}, IdE(lib.Pick(r, vs)), body...))
			}
		case 12:
			// dict, stored into, read back
			d := g.fresh(tDict)
			g.stmts = append(g.stmts, Assign(d, g.exprOf(tDict, 1)))
			g.stmts = append(g.stmts, IdxAssign(d, StrE(lib.Pick(r, []string{"k", "a", "n"})), g.exprOf(tInt, 1)))
			g.stmts = append(g.stmts, Assign(g.fresh(tLStr), E(Comp(IdE("k"), []string{"k"}, E(Method(Ident(d), "keys")), nil))))
		case 13:
			// enumerate / zip
			if vs := g.vars[tLInt]; len(vs) > 0 {
				v := lib.Pick(r, vs)
				body := E(Ident("i"), Bin("*", Ident("x")))
				if r.Bool() {
					g.stmts = append(g.stmts, Assign(g.fresh(tLInt), E(Comp(body, []string{"i", "x"}, E(Call("enumerate", IdE(v))), nil))))
				} else {
					g.stmts = append(g.stmts, Assign(g.fresh(tLInt), E(Comp(body, []string{"i", "x"}, E(Call("zip", IdE(v), IdE(v))), nil))))
				}
			}
		}
	}
	// observe everything list-like through str() as well (classes: container formatting)
	if vs := g.vars[tLInt]; len(vs) > 0 && r.Chance(1, 4) {
		g.stmts = append(g.stmts, Assign(g.fresh(tStr), E(Call("str", IdE(lib.Pick(r, vs))))))
	}
	return g.stmts
}

func (g *Gen) boolTreeOver(x string) *gtree {
	r := g.R
	return &gtree{op: lib.Pick(r, []string{"<", ">", "==", "!="}), l: &gtree{op: "%", l: leaf(Ident(x)), r: leaf(Int(r.Range(2, 4)))}, r: leaf(Int(r.Range(0, 2)))}
}

// Malformed: a program with one ill-typed operation; the property only asks that asp does not silently
// produce a value where CPython raises.
func (g *Gen) Malformed() Prog {
	r := g.R
	bad := [][2]*Val{
		{Int(1), Str("a")}, {Str("a"), Int(1)}, {List(IntE(1)), Int(2)}, {None(), Int(1)}, {Int(3), None()},
		{Str("x"), List(StrE("y"))}, {List(IntE(1)), Str("s")}, {Dict([]string{"a"}, []*Expr{IntE(1)}), Int(1)},
	}
	pair := lib.Pick(r, bad)
	op := lib.Pick(r, []string{"+", "-", "<", "*", "%", "//", "in"})
	stmts := Prog{Assign("ok", flatten(g.intTree(1)))}
	switch r.Intn(6) {
	case 0:
		stmts = append(stmts, Assign("bad", E(Call("len", IntE(5)))))
	case 1:
		stmts = append(stmts, Assign("bad", E(Index(List(IntE(1), IntE(2)), IntE(r.Range(2, 5))))))
	case 2:
		stmts = append(stmts, Assign("bad", E(Index(Dict([]string{"a"}, []*Expr{IntE(1)}), StrE("zz")))))
	case 3:
		stmts = append(stmts, Assign("bad", E(Ident("undefined_name"), Bin("+", Int(1)))))
	case 4:
		stmts = append(stmts, Assign("bad", E(Call("sorted", E(List(IntE(2), StrE("a"), IntE(1)))))))
	default:
		stmts = append(stmts, Assign("bad", E(pair[0], Bin(op, pair[1]))))
	}
	return stmts
}
