package aspgen

import (
	"strconv"
	"strings"
)

// Classification support. None of this is part of the property oracle (which is: real asp against
// python3 on the same text); it only NAMES a failure. A failing program is re-run by python3 in an
// "emulated" rendering in which every construct with a known asp/CPython difference goes through a helper
// that reproduces asp's behaviour when its toggle (= defect class) is on. A failure is attributed to the
// classes whose toggle is necessary for the emulation to reproduce asp's result; a failure the full
// emulation cannot reproduce is unexplained and is reported as such.

// precedences of Operator.Precedence() and of CPython's grammar (only their order matters)
var aspPrec = map[string]int{"neg": 4, "*": 3, "/": 3, "//": 3, "%": 3, "+": 2, "-": 2, "|": 1, "not": -1, "and": -2, "or": -3}
var pyPrec = map[string]int{"or": 1, "and": 2, "not": 3, "|": 5, "+": 9, "-": 9, "*": 10, "/": 10, "//": 10, "%": 10, "neg": 11}

func aprec(op string) int { return aspPrec[op] } // comparisons: 0
func pprec(op string) int {
	if p, ok := pyPrec[op]; ok {
		return p
	}
	return 4
}
func isCmp(op string) bool {
	switch op {
	case "<", ">", "<=", ">=", "==", "!=", "in", "not in", "is", "is not":
		return true
	}
	return false
}

// Chain classes (Model/C16_Ops.v chain_class).
const (
	ClsRest      = "ops-rest-as-right-operand"
	ClsLazy      = "ops-lazy-drops-tail"
	ClsPrefix    = "ops-prefix-takes-rest"
	ClsNeg       = "ops-neg-takes-rest"
	ClsCmp       = "ops-comparison-not-chained"
	ClsPrefixBad = "ops-prefix-after-tighter"
)

// ChainClass returns the class of the first place where interpretOps and CPython group differently ("" if none).
func ChainClass(ops []Op) string {
	for i := 0; i+1 < len(ops); i++ {
		i0, i1 := ops[i], ops[i+1]
		if aprec(i0.Op) >= aprec(i1.Op) {
			if i0.Val != nil && i1.Val != nil && isCmp(i0.Op) && isCmp(i1.Op) {
				return ClsCmp
			}
			if i1.Val == nil {
				return ClsPrefixBad
			}
			continue
		}
		all := true
		for _, j := range ops[i+1:] {
			if !(aprec(i0.Op) < aprec(j.Op)) {
				all = false
			}
		}
		if all {
			continue
		}
		switch {
		case i0.Val == nil:
			return ClsPrefix
		case i1.Val == nil && i1.Op == "neg":
			return ClsNeg
		case i0.Op == "and" || i0.Op == "or":
			return ClsLazy
		default:
			return ClsRest
		}
	}
	return ""
}

type tnode struct {
	leaf *Val
	un   string
	op   string
	l, r *tnode
}

func nodeOf(o Op, acc *tnode) *tnode {
	if o.Val == nil {
		return &tnode{un: o.Op, l: acc}
	}
	return &tnode{op: o.Op, l: acc, r: &tnode{leaf: o.Val}}
}

// aspTree: the grouping of scope.interpretOps.
func aspTree(acc *tnode, ops []Op) *tnode {
	if len(ops) == 0 {
		return acc
	}
	if len(ops) == 1 {
		return nodeOf(ops[0], acc)
	}
	if aprec(ops[0].Op) >= aprec(ops[1].Op) {
		return aspTree(nodeOf(ops[0], acc), ops[1:])
	}
	if ops[0].Val == nil {
		return &tnode{un: ops[0].Op, l: aspTree(acc, ops[1:])}
	}
	return &tnode{op: ops[0].Op, l: acc, r: aspTree(&tnode{leaf: ops[0].Val}, ops[1:])}
}

// pyTree: CPython's grouping (operator precedence parsing, comparison chains become conjunctions).
func pyTree(acc *tnode, ops []Op) *tnode {
	type entry struct {
		l     *tnode
		op    string
		un    bool
		chain *tnode
	}
	reduce := func(e entry, cur *tnode) *tnode {
		if e.un {
			return &tnode{un: e.op, l: cur}
		}
		if e.chain != nil {
			return &tnode{op: "and", l: e.l, r: &tnode{op: e.op, l: e.chain, r: cur}}
		}
		return &tnode{op: e.op, l: e.l, r: cur}
	}
	var stk []entry
	cur := acc
	for _, o := range ops {
		if o.Val == nil {
			stk = append(stk, entry{op: o.Op, un: true})
			continue
		}
		p := pprec(o.Op)
		var chain *tnode
		for len(stk) > 0 {
			e := stk[len(stk)-1]
			if pprec(e.op) > p {
				stk, cur = stk[:len(stk)-1], reduce(e, cur)
			} else if pprec(e.op) == p {
				if !e.un && isCmp(e.op) && isCmp(o.Op) {
					chain = cur
					stk, cur = stk[:len(stk)-1], reduce(e, cur)
					break
				}
				stk, cur = stk[:len(stk)-1], reduce(e, cur)
			} else {
				break
			}
		}
		stk = append(stk, entry{l: cur, op: o.Op, chain: chain})
		cur = &tnode{leaf: o.Val}
	}
	for i := len(stk) - 1; i >= 0; i-- {
		cur = reduce(stk[i], cur)
	}
	return cur
}

// Emu renders programs for python3 with asp's behaviour emulated for the classes in T.
type Emu struct{ T map[string]bool }

var emuHelper = map[string]string{"+": "_add", "-": "_sub", "*": "_mul", "/": "_div", "//": "_fdiv", "%": "_mod"}

func (m Emu) tree(t *tnode) string {
	switch {
	case t.leaf != nil:
		return m.val(t.leaf)
	case t.un == "neg":
		return "_neg(" + m.tree(t.l) + ")"
	case t.un == "not":
		return "(not " + m.tree(t.l) + ")"
	}
	l, r := m.tree(t.l), m.tree(t.r)
	if h, ok := emuHelper[t.op]; ok {
		return h + "(" + l + ", " + r + ")"
	}
	switch t.op {
	case "==":
		return "_eq(" + l + ", " + r + ")"
	case "!=":
		return "(not _eq(" + l + ", " + r + "))"
	case "in":
		return "_in(" + l + ", " + r + ")"
	case "not in":
		return "(not _in(" + l + ", " + r + "))"
	}
	return "(" + l + " " + opText[t.op] + " " + r + ")"
}

func (m Emu) args(as []Arg) string {
	parts := []string{}
	for _, a := range as {
		if a.Name != "" {
			parts = append(parts, a.Name+"="+m.Expr(a.E))
		} else {
			parts = append(parts, m.Expr(a.E))
		}
	}
	return strings.Join(parts, ", ")
}

func (m Emu) exprs(es []*Expr) string {
	parts := []string{}
	for _, e := range es {
		parts = append(parts, m.Expr(e))
	}
	return strings.Join(parts, ", ")
}

func (m Emu) val(v *Val) string {
	var b strings.Builder
	switch v.K {
	case "int":
		if v.Octal != "" && !m.T["octal-literal-read-as-decimal"] {
			b.WriteString("0o" + v.Octal)
		} else if v.Int < 0 {
			b.WriteString("(" + strconv.Itoa(v.Int) + ")")
		} else {
			b.WriteString(strconv.Itoa(v.Int))
		}
	case "str":
		b.WriteString(quote(v.Str))
	case "true":
		b.WriteString("True")
	case "false":
		b.WriteString("False")
	case "none":
		b.WriteString("None")
	case "list":
		b.WriteString("[" + m.exprs(v.Items) + "]")
	case "comp":
		b.WriteString("[" + m.Expr(v.Items[0]) + " for " + strings.Join(v.Names, ", ") + " in " + m.Expr(v.Iter))
		if v.Cond != nil {
			b.WriteString(" if " + m.Expr(v.Cond))
		}
		b.WriteString("]")
	case "dict":
		parts := []string{}
		for i := range v.Keys {
			parts = append(parts, m.Expr(v.Keys[i])+": "+m.Expr(v.Items[i]))
		}
		b.WriteString("{" + strings.Join(parts, ", ") + "}")
	case "paren":
		b.WriteString("(" + m.Expr(v.Items[0]) + ")")
	case "ident":
		name := v.Name
		if v.Call && name == "str" {
			name = "_str"
		}
		if !v.Call && (v.Meth == "keys" || v.Meth == "values" || v.Meth == "items") && len(v.MArgs) == 0 {
			b.WriteString("_d" + v.Meth + "(" + name + ")")
		} else {
			b.WriteString(name)
			if v.Call {
				b.WriteString("(" + m.args(v.Args) + ")")
			}
			if v.Meth != "" {
				b.WriteString("." + v.Meth + "(" + m.args(v.MArgs) + ")")
			}
		}
	}
	for _, sl := range v.Slices {
		b.WriteString("[")
		if sl.Lo != nil {
			b.WriteString(m.Expr(sl.Lo))
		}
		if sl.Colon {
			b.WriteString(":")
			if sl.Hi != nil {
				b.WriteString(m.Expr(sl.Hi))
			}
		}
		b.WriteString("]")
	}
	if v.PMeth != "" {
		b.WriteString("." + v.PMeth + "(" + m.args(v.PMArgs) + ")")
	}
	return b.String()
}

// Expr renders one expression; its operator chain is grouped as asp groups it when the class of the chain
// is switched on, as CPython groups it otherwise.
func (m Emu) Expr(e *Expr) string {
	acc := &tnode{leaf: e.Val}
	var t *tnode
	if cls := ChainClass(e.Ops); cls != "" && m.T[cls] {
		t = aspTree(acc, e.Ops)
	} else {
		t = pyTree(acc, e.Ops)
	}
	out := m.tree(t)
	if e.If != nil {
		out = "(" + out + " if " + m.Expr(e.If) + " else " + m.Expr(e.Els) + ")"
	}
	return out
}

func (m Emu) stmts(b *strings.Builder, ss []*Stmt, ind string) {
	for _, s := range ss {
		switch s.K {
		case "assign":
			b.WriteString(ind + s.Name + " = " + m.Expr(s.E) + "\n")
		case "aug":
			if m.T["augassign-rebinds"] {
				b.WriteString(ind + s.Name + " = _add(" + s.Name + ", " + m.Expr(s.E) + ")\n")
			} else {
				b.WriteString(ind + s.Name + " += " + m.Expr(s.E) + "\n")
			}
		case "idxassign":
			b.WriteString(ind + s.Name + "[" + m.Expr(s.Idx) + "] = " + m.Expr(s.E) + "\n")
		case "idxaug":
			i := m.Expr(s.Idx)
			if m.T["augassign-rebinds"] {
				b.WriteString(ind + s.Name + "[" + i + "] = _add(" + s.Name + "[" + i + "], " + m.Expr(s.E) + ")\n")
			} else {
				b.WriteString(ind + s.Name + "[" + i + "] += " + m.Expr(s.E) + "\n")
			}
		case "unpack":
			b.WriteString(ind + strings.Join(s.Names, ", ") + " = " + m.Expr(s.E) + "\n")
		case "if":
			b.WriteString(ind + "if " + m.Expr(s.E) + ":\n")
			m.stmts(b, s.Body, ind+"    ")
			for _, el := range s.Elif {
				b.WriteString(ind + "elif " + m.Expr(el.E) + ":\n")
				m.stmts(b, el.Body, ind+"    ")
			}
			if s.Else != nil {
				b.WriteString(ind + "else:\n")
				m.stmts(b, s.Else, ind+"    ")
			}
		case "for":
			b.WriteString(ind + "for " + strings.Join(s.Names, ", ") + " in " + m.Expr(s.E) + ":\n")
			m.stmts(b, s.Body, ind+"    ")
		case "def":
			parts := []string{}
			for _, a := range s.Args {
				if a.E != nil {
					parts = append(parts, a.Name+"="+m.Expr(a.E))
				} else {
					parts = append(parts, a.Name)
				}
			}
			b.WriteString(ind + "def " + s.Name + "(" + strings.Join(parts, ", ") + "):\n")
			m.stmts(b, s.Body, ind+"    ")
		case "return":
			if s.E == nil {
				b.WriteString(ind + "return\n")
			} else {
				b.WriteString(ind + "return " + m.Expr(s.E) + "\n")
			}
		case "call":
			b.WriteString(ind + s.Name + "(" + m.args(s.Args) + ")\n")
		case "assert":
			b.WriteString(ind + "assert " + m.Expr(s.E) + "\n")
		default:
			b.WriteString(ind + s.K + "\n")
		}
	}
}

// Source renders the program.
func (m Emu) Source(p Prog) string {
	var b strings.Builder
	m.stmts(&b, p, "")
	return b.String()
}

// Toggles lists the enabled classes (for the python driver).
func (m Emu) Toggles() []string {
	out := []string{}
	for k, on := range m.T {
		if on {
			out = append(out, k)
		}
	}
	return out
}

// ExprClasses are the classes the emulation can switch (the expression-level differences).
var ExprClasses = []string{ClsRest, ClsLazy, ClsPrefix, ClsNeg, ClsCmp,
	"int-mod-truncated", "int-div-truncated", "floordiv-by-zero-no-error", "floordiv-float-precision", "int-overflow-wraps",
	"eq-strict-types", "str-of-container-go-format", "octal-literal-read-as-decimal", "augassign-rebinds", "dict-enumeration-sorted"}
