package aspgen

import (
	"fmt"
	"strconv"
	"strings"

	"verifharness/lib"
)

// ---------------------------------------------------------------------------------------------
// Source text: valid for the asp lexer/parser AND for CPython (same text goes to both).

var opText = map[string]string{"+": "+", "-": "-", "*": "*", "/": "/", "//": "//", "%": "%", "<": "<", ">": ">", "<=": "<=", ">=": ">=",
	"==": "==", "!=": "!=", "in": "in", "not in": "not in", "and": "and", "or": "or", "|": "|", "is": "is", "is not": "is not"}

func quote(s string) string {
	var b strings.Builder
	b.WriteByte('"')
	for i := 0; i < len(s); i++ {
		switch c := s[i]; c {
		case '\\':
			b.WriteString(`\\`)
		case '"':
			b.WriteString(`\"`)
		case '\n':
			b.WriteString(`\n`)
		case '\t':
			b.WriteString(`\t`)
		default:
			b.WriteByte(c)
		}
	}
	b.WriteByte('"')
	return b.String()
}

func srcArgs(as []Arg) string {
	parts := []string{}
	for _, a := range as {
		if a.Name != "" {
			parts = append(parts, a.Name+"="+SrcExpr(a.E))
		} else {
			parts = append(parts, SrcExpr(a.E))
		}
	}
	return strings.Join(parts, ", ")
}

func srcExprs(es []*Expr) string {
	parts := []string{}
	for _, e := range es {
		parts = append(parts, SrcExpr(e))
	}
	return strings.Join(parts, ", ")
}

func SrcVal(v *Val) string {
	var b strings.Builder
	switch v.K {
	case "int":
		if v.Octal != "" {
			b.WriteString("0o" + v.Octal)
		} else {
			b.WriteString(strconv.Itoa(v.Int))
		}
	case "str":
		b.WriteString(quote(v.Str))
	case "true":
		b.WriteString("True")
	case "false":
		b.WriteString("False")
	case "none":
		b.WriteString("None")
	case "list":
		b.WriteString("[" + srcExprs(v.Items) + "]")
	case "comp":
		b.WriteString("[" + SrcExpr(v.Items[0]) + " for " + strings.Join(v.Names, ", ") + " in " + SrcExpr(v.Iter))
		if v.Cond != nil {
			b.WriteString(" if " + SrcExpr(v.Cond))
		}
		b.WriteString("]")
	case "dict":
		parts := []string{}
		for i := range v.Keys {
			parts = append(parts, SrcExpr(v.Keys[i])+": "+SrcExpr(v.Items[i]))
		}
		b.WriteString("{" + strings.Join(parts, ", ") + "}")
	case "paren":
		b.WriteString("(" + SrcExpr(v.Items[0]) + ")")
	case "ident":
		b.WriteString(v.Name)
		if v.Call {
			b.WriteString("(" + srcArgs(v.Args) + ")")
		}
		if v.Meth != "" {
			b.WriteString("." + v.Meth + "(" + srcArgs(v.MArgs) + ")")
		}
	default:
		panic("aspgen: cannot print value kind " + v.K)
	}
	for _, sl := range v.Slices {
		b.WriteString("[")
		if sl.Lo != nil {
			b.WriteString(SrcExpr(sl.Lo))
		}
		if sl.Colon {
			b.WriteString(":")
			if sl.Hi != nil {
				b.WriteString(SrcExpr(sl.Hi))
			}
		}
		b.WriteString("]")
	}
	if v.PMeth != "" {
		b.WriteString("." + v.PMeth + "(" + srcArgs(v.PMArgs) + ")")
	}
	return b.String()
}

func prefixText(op string) string {
	if op == "neg" {
		return "- "
	}
	return "not "
}

func SrcExpr(e *Expr) string {
	var b strings.Builder
	ops := e.Ops
	i := 0
	if len(ops) > 0 && ops[0].Val == nil {
		b.WriteString(prefixText(ops[0].Op))
		i = 1
	}
	b.WriteString(SrcVal(e.Val))
	for ; i < len(ops); i++ {
		if ops[i].Val == nil {
			panic("aspgen: prefix operator in an unprintable position")
		}
		b.WriteString(" " + opText[ops[i].Op] + " ")
		if i+1 < len(ops) && ops[i+1].Val == nil {
			b.WriteString(prefixText(ops[i+1].Op))
			b.WriteString(SrcVal(ops[i].Val))
			i++
		} else {
			b.WriteString(SrcVal(ops[i].Val))
		}
	}
	if e.If != nil {
		b.WriteString(" if " + SrcExpr(e.If) + " else " + SrcExpr(e.Els))
	}
	return b.String()
}

func srcStmts(b *strings.Builder, ss []*Stmt, ind string) {
	for _, s := range ss {
		switch s.K {
		case "assign":
			b.WriteString(ind + s.Name + " = " + SrcExpr(s.E) + "\n")
		case "aug":
			b.WriteString(ind + s.Name + " += " + SrcExpr(s.E) + "\n")
		case "idxassign":
			b.WriteString(ind + s.Name + "[" + SrcExpr(s.Idx) + "] = " + SrcExpr(s.E) + "\n")
		case "idxaug":
			b.WriteString(ind + s.Name + "[" + SrcExpr(s.Idx) + "] += " + SrcExpr(s.E) + "\n")
		case "unpack":
			b.WriteString(ind + strings.Join(s.Names, ", ") + " = " + SrcExpr(s.E) + "\n")
		case "if":
			b.WriteString(ind + "if " + SrcExpr(s.E) + ":\n")
			srcStmts(b, s.Body, ind+"    ")
			for _, el := range s.Elif {
				b.WriteString(ind + "elif " + SrcExpr(el.E) + ":\n")
				srcStmts(b, el.Body, ind+"    ")
			}
			if s.Else != nil {
				b.WriteString(ind + "else:\n")
				srcStmts(b, s.Else, ind+"    ")
			}
		case "for":
			b.WriteString(ind + "for " + strings.Join(s.Names, ", ") + " in " + SrcExpr(s.E) + ":\n")
			srcStmts(b, s.Body, ind+"    ")
		case "def":
			parts := []string{}
			for _, a := range s.Args {
				if a.E != nil {
					parts = append(parts, a.Name+"="+SrcExpr(a.E))
				} else {
					parts = append(parts, a.Name)
				}
			}
			b.WriteString(ind + "def " + s.Name + "(" + strings.Join(parts, ", ") + "):\n")
			srcStmts(b, s.Body, ind+"    ")
		case "return":
			if s.E == nil {
				b.WriteString(ind + "return\n")
			} else {
				b.WriteString(ind + "return " + SrcExpr(s.E) + "\n")
			}
		case "call":
			b.WriteString(ind + s.Name + "(" + srcArgs(s.Args) + ")\n")
		case "assert":
			b.WriteString(ind + "assert " + SrcExpr(s.E) + "\n")
		case "pass", "break", "continue":
			b.WriteString(ind + s.K + "\n")
		default:
			panic("aspgen: cannot print statement kind " + s.K)
		}
	}
}

// Source prints a program.
func Source(p Prog) string {
	var b strings.Builder
	srcStmts(&b, p, "")
	return b.String()
}

// ---------------------------------------------------------------------------------------------
// Coq terms of Model/C16_Syntax.v

var coqBin = map[string]string{"+": "Add", "-": "Sub", "*": "Mul", "/": "Div", "//": "FloorDiv", "%": "Mod", "<": "C16_Syntax.Lt", ">": "C16_Syntax.Gt",
	"<=": "Le", ">=": "Ge", "==": "C16_Syntax.Eq", "!=": "Ne", "in": "In", "not in": "NotIn", "and": "And", "or": "Or", "|": "Union", "is": "Is", "is not": "IsNot"}

func coqOptExpr(e *Expr) string {
	if e == nil {
		return "None"
	}
	return "(Some " + CoqExpr(e) + ")"
}

func coqArgs(as []Arg) string {
	parts := []string{}
	for _, a := range as {
		n := "None"
		if a.Name != "" {
			n = "(Some " + lib.Str(a.Name) + ")"
		}
		parts = append(parts, "("+n+", "+CoqExpr(a.E)+")")
	}
	return lib.List(parts)
}

func coqExprList(es []*Expr) string {
	parts := []string{}
	for _, e := range es {
		parts = append(parts, CoqExpr(e))
	}
	return lib.List(parts)
}

func coqPlainArgs(as []Arg) string {
	parts := []string{}
	for _, a := range as {
		if a.Name != "" {
			panic("aspgen: named argument in a method call is outside the modelled fragment")
		}
		parts = append(parts, CoqExpr(a.E))
	}
	return lib.List(parts)
}

func CoqVal(v *Val) string {
	var t string
	switch v.K {
	case "int":
		t = "(XInt " + lib.Z(int64(v.Int)) + ")"
	case "str":
		t = "(XStr " + lib.Str(v.Str) + ")"
	case "true":
		t = "XTrue"
	case "false":
		t = "XFalse"
	case "none":
		t = "XNone"
	case "list":
		t = "(XList " + coqExprList(v.Items) + ")"
	case "comp":
		t = "(XComp " + CoqExpr(v.Items[0]) + " " + lib.StrList(v.Names) + " " + CoqExpr(v.Iter) + " " + coqOptExpr(v.Cond) + ")"
	case "dict":
		parts := []string{}
		for i := range v.Keys {
			parts = append(parts, "("+CoqExpr(v.Keys[i])+", "+CoqExpr(v.Items[i])+")")
		}
		t = "(XDict " + lib.List(parts) + ")"
	case "paren":
		t = "(XParen " + CoqExpr(v.Items[0]) + ")"
	case "ident":
		if v.Call {
			t = "(XCall " + lib.Str(v.Name) + " " + coqArgs(v.Args) + ")"
		} else {
			t = "(XIdent " + lib.Str(v.Name) + ")"
		}
		if v.Meth != "" {
			t = "(XMeth " + t + " " + lib.Str(v.Meth) + " " + coqPlainArgs(v.MArgs) + ")"
		}
	default:
		panic("aspgen: no Coq term for value kind " + v.K)
	}
	for _, sl := range v.Slices {
		if sl.Colon {
			t = "(XSlice " + t + " " + coqOptExpr(sl.Lo) + " " + coqOptExpr(sl.Hi) + ")"
		} else {
			t = "(XIndex " + t + " " + CoqExpr(sl.Lo) + ")"
		}
	}
	if v.PMeth != "" {
		t = "(XMeth " + t + " " + lib.Str(v.PMeth) + " " + coqPlainArgs(v.PMArgs) + ")"
	}
	return t
}

func CoqExpr(e *Expr) string {
	ops := []string{}
	for _, o := range e.Ops {
		if o.Val == nil {
			u := "Neg"
			if o.Op == "not" {
				u = "Not"
			}
			ops = append(ops, "OUn "+u)
		} else {
			ops = append(ops, "OBin "+coqBin[o.Op]+" "+CoqVal(o.Val))
		}
	}
	iff := "None"
	if e.If != nil {
		iff = "(Some (" + CoqExpr(e.If) + ", " + CoqExpr(e.Els) + "))"
	}
	return "(Ex " + CoqVal(e.Val) + " " + lib.List(ops) + " " + iff + ")"
}

func coqStmts(ss []*Stmt) string {
	parts := []string{}
	for _, s := range ss {
		parts = append(parts, coqStmt(s))
	}
	return lib.List(parts)
}

func coqStmt(s *Stmt) string {
	switch s.K {
	case "assign":
		return "SAssign " + lib.Str(s.Name) + " " + CoqExpr(s.E)
	case "aug":
		return "SAug " + lib.Str(s.Name) + " " + CoqExpr(s.E)
	case "idxassign":
		return "SIdxAssign " + lib.Str(s.Name) + " " + CoqExpr(s.Idx) + " " + CoqExpr(s.E)
	case "idxaug":
		return "SIdxAug " + lib.Str(s.Name) + " " + CoqExpr(s.Idx) + " " + CoqExpr(s.E)
	case "unpack":
		return "SUnpack " + lib.StrList(s.Names) + " " + CoqExpr(s.E)
	case "if":
		elifs := []string{}
		for _, el := range s.Elif {
			elifs = append(elifs, "("+CoqExpr(el.E)+", "+coqStmts(el.Body)+")")
		}
		return "SIf " + CoqExpr(s.E) + " " + coqStmts(s.Body) + " " + lib.List(elifs) + " " + coqStmts(s.Else)
	case "for":
		return "SFor " + lib.StrList(s.Names) + " " + CoqExpr(s.E) + " " + coqStmts(s.Body)
	case "def":
		args := []string{}
		for _, a := range s.Args {
			args = append(args, "("+lib.Str(a.Name)+", "+coqOptExpr(a.E)+")")
		}
		return "SDef " + lib.Str(s.Name) + " " + lib.List(args) + " " + coqStmts(s.Body)
	case "return":
		return "SReturn " + coqOptExpr(s.E)
	case "call":
		return "SCall " + lib.Str(s.Name) + " " + coqArgs(s.Args)
	case "assert":
		return "SAssert " + CoqExpr(s.E)
	case "pass":
		return "SPass"
	case "break":
		return "SBreak"
	case "continue":
		return "SContinue"
	}
	panic("aspgen: no Coq term for statement kind " + s.K)
}

// CoqProg prints a program as a term of type C16_Syntax.prog.
func CoqProg(p Prog) string { return coqStmts(p) }

// ---------------------------------------------------------------------------------------------
// Observed values: typed JSON of the hook -> Coq obs term / plain (CPython-comparable) form.

// CoqObs converts the hook's typed rendering (decoded with json.Number) into a term of type obs.
func CoqObs(v any) string {
	switch t := v.(type) {
	case nil:
		return "ONone"
	case bool:
		return "(OBool " + lib.Bool(t) + ")"
	case string:
		return "(OStr " + lib.Str(t) + ")"
	case jsonNumber:
		return "(OInt (" + string(t) + ")%Z)"
	case []any:
		tag, _ := t[0].(string)
		switch tag {
		case "NIL":
			return "ONil"
		case "R":
			return fmt.Sprintf("(ORange (%s)%%Z (%s)%%Z (%s)%%Z)", t[1].(jsonNumber), t[2].(jsonNumber), t[3].(jsonNumber))
		case "L", "FL":
			items := []string{}
			for _, x := range t[2:] {
				items = append(items, CoqObs(x))
			}
			return "(OList " + lib.Bool(tag == "FL") + " " + string(t[1].(jsonNumber)) + "%nat " + lib.List(items) + ")"
		}
	case map[string]any:
		for tag, body := range t {
			switch tag {
			case "D", "FD":
				m := body.(map[string]any)
				items := []string{}
				for _, k := range lib.SortedKeys(m) {
					items = append(items, "("+lib.Str(k)+", "+CoqObs(m[k])+")")
				}
				return "(ODict " + lib.Bool(tag == "FD") + " " + lib.List(items) + ")"
			case "F":
				return "(OFunc " + lib.Str(body.(string)) + ")"
			default:
				return "OOther"
			}
		}
	}
	return "OOther"
}

// CoqGlobals prints a globals object of the hook as list (str * obs), keys sorted bytewise.
func CoqGlobals(g map[string]any) string {
	items := []string{}
	for _, k := range lib.SortedKeys(g) {
		items = append(items, "("+lib.Str(k)+", "+CoqObs(g[k])+")")
	}
	return lib.List(items)
}
