package aspgen

import (
	"bytes"
	"encoding/json"
	"fmt"
	"os"
	"os/exec"
	"sort"
	"strings"
	"time"

	"github.com/thought-machine/please/src/parse/asp"
)

type jsonNumber = json.Number

// File is one BUILD file (a package) or one subincludable build_defs file of a run.
type File struct {
	Name string `json:"name"`
	Src  string `json:"src"`
	Defs bool   `json:"defs,omitempty"`
	Prog Prog   `json:"-"`
}

// NewFile prints the program.
func NewFile(name string, p Prog, defs bool) File {
	return File{Name: name, Src: Source(p), Defs: defs, Prog: p}
}

// Result is what the real interpreter produced for one BUILD file.
type Result struct {
	Name  string
	Err   string
	After map[string]any // typed rendering (see the hook), numbers as json.Number
	Final map[string]any
}

func decode(raw json.RawMessage) map[string]any {
	if raw == nil {
		return nil
	}
	dec := json.NewDecoder(bytes.NewReader(raw))
	dec.UseNumber()
	var m map[string]any
	if err := dec.Decode(&m); err != nil {
		panic(fmt.Sprintf("aspgen: cannot decode hook output %s: %v", raw, err))
	}
	return m
}

// Eval runs the files through the REAL parser and interpreter (asp.VerifC16Eval).
func Eval(files []File, concurrent bool) []Result {
	in := make([]asp.VerifC16File, len(files))
	for i, f := range files {
		in[i] = asp.VerifC16File{Name: f.Name, Src: f.Src, Defs: f.Defs}
	}
	out, err := asp.VerifC16Eval(in, concurrent)
	if err != nil {
		panic(err)
	}
	res := make([]Result, len(out))
	for i, o := range out {
		res[i] = Result{Name: o.Name, Err: o.Err, After: decode(o.After), Final: decode(o.Final)}
	}
	return res
}

// EvalOne runs a single BUILD file.
func EvalOne(p Prog) Result { return Eval([]File{NewFile("p", p, false)}, false)[0] }

// ParseDump returns the real parser's AST of src in the JSON shape of Prog.
func ParseDump(src string) (string, error) { return asp.VerifC16Parse(src) }

// Plain converts the typed rendering to the CPython-comparable one: lists (frozen or not) and ranges become
// lists, dicts maps; functions are dropped by the caller (ok == false).
func Plain(v any) (any, bool) {
	switch t := v.(type) {
	case []any:
		tag, _ := t[0].(string)
		switch tag {
		case "NIL":
			return "NIL-LIST", true
		case "R":
			a, _ := t[1].(jsonNumber).Int64()
			b, _ := t[2].(jsonNumber).Int64()
			c, _ := t[3].(jsonNumber).Int64()
			out := []any{}
			if c > 0 {
				for i := a; i < b && len(out) < 100000; i += c {
					out = append(out, jsonNumber(fmt.Sprint(i)))
				}
			}
			return out, true
		default:
			out := []any{}
			for _, x := range t[2:] {
				p, ok := Plain(x)
				if !ok {
					return nil, false
				}
				out = append(out, p)
			}
			return out, true
		}
	case map[string]any:
		for tag, body := range t {
			switch tag {
			case "D", "FD":
				out := map[string]any{}
				for k, x := range body.(map[string]any) {
					p, ok := Plain(x)
					if !ok {
						return nil, false
					}
					out[k] = p
				}
				return out, true
			default:
				return nil, false
			}
		}
	}
	return v, true
}

// PlainGlobals drops functions and converts the rest.
func PlainGlobals(g map[string]any) map[string]any {
	out := map[string]any{}
	for k, v := range g {
		if p, ok := Plain(v); ok {
			out[k] = p
		}
	}
	return out
}

// Canon prints a plain value canonically (sorted keys, numbers verbatim).
func Canon(v any) string {
	var b strings.Builder
	canon(&b, v)
	return b.String()
}

func canon(b *strings.Builder, v any) {
	switch t := v.(type) {
	case nil:
		b.WriteString("null")
	case bool:
		fmt.Fprint(b, t)
	case jsonNumber:
		b.WriteString(string(t))
	case string:
		x, _ := json.Marshal(t)
		b.Write(x)
	case []any:
		b.WriteByte('[')
		for i, x := range t {
			if i > 0 {
				b.WriteByte(',')
			}
			canon(b, x)
		}
		b.WriteByte(']')
	case map[string]any:
		keys := make([]string, 0, len(t))
		for k := range t {
			keys = append(keys, k)
		}
		sort.Strings(keys)
		b.WriteByte('{')
		for i, k := range keys {
			if i > 0 {
				b.WriteByte(',')
			}
			x, _ := json.Marshal(k)
			b.Write(x)
			b.WriteByte(':')
			canon(b, t[k])
		}
		b.WriteByte('}')
	default:
		fmt.Fprintf(b, "%v", t)
	}
}

// ---------------------------------------------------------------------------------------------
// CPython

// PyJob is one program text for python3 with the set of emulation toggles (nil for plain CPython semantics).
type PyJob struct {
	Src     string   `json:"src"`
	Toggles []string `json:"toggles"`
}

// PyResult is what python3 computed: the JSON-able globals, or the exception.
type PyResult struct {
	OK      map[string]any `json:"ok"`
	Err     string         `json:"err"`
	Float   bool           `json:"float"`
	Skipped []string       `json:"skipped"`
}

// RunPython executes all jobs in ONE python3 process (each in a fresh namespace).
func RunPython(jobs []PyJob, dir string) []PyResult {
	if len(jobs) == 0 {
		return nil
	}
	script := dir + "/c16_driver.py"
	if err := os.WriteFile(script, []byte(pyDriver), 0o644); err != nil {
		panic(err)
	}
	in, _ := json.Marshal(jobs)
	cmd := exec.Command("python3", "-S", script)
	cmd.Stdin = bytes.NewReader(in)
	var out, errb bytes.Buffer
	cmd.Stdout, cmd.Stderr = &out, &errb
	if err := cmd.Start(); err != nil {
		panic(err)
	}
	done := make(chan error, 1)
	go func() { done <- cmd.Wait() }()
	select {
	case err := <-done:
		if err != nil {
			panic(fmt.Sprintf("python3 driver failed: %v\n%s", err, errb.String()))
		}
	case <-time.After(300 * time.Second):
		cmd.Process.Kill()
		panic("python3 driver timed out")
	}
	dec := json.NewDecoder(&out)
	dec.UseNumber()
	var res []PyResult
	if err := dec.Decode(&res); err != nil {
		panic(fmt.Sprintf("cannot decode python3 driver output: %v\n%s", err, errb.String()))
	}
	if len(res) != len(jobs) {
		panic("python3 driver returned the wrong number of results")
	}
	return res
}

const pyDriver = `
import sys, json, math, functools
_brange, _bzip, _benum, _brev, _bmap, _bfilter = range, zip, enumerate, reversed, map, filter
_T = set()
def _isint(x): return isinstance(x, int) and not isinstance(x, bool)
def _w(x):
    if 'int-overflow-wraps' in _T and _isint(x): return ((x + 2**63) % 2**64) - 2**63
    return x
def _add(a, b):
    r = a + b
    return _w(r) if _isint(a) and _isint(b) else r
def _sub(a, b):
    r = a - b
    return _w(r) if _isint(a) and _isint(b) else r
def _mul(a, b):
    r = a * b
    return _w(r) if _isint(a) and _isint(b) else r
def _neg(a): return _w(-a)
def _div(a, b):
    if _isint(a) and _isint(b) and 'int-div-truncated' in _T:
        q = abs(a) // abs(b)
        return _w(q if (a < 0) == (b < 0) else -q)
    return a / b
def _fdiv(a, b):
    if _isint(a) and _isint(b):
        if b == 0 and 'floordiv-by-zero-no-error' in _T: return -2**63
        if 'floordiv-float-precision' in _T and b != 0: return int(math.floor(float(a) / float(b)))
    return a // b
def _mod(a, b):
    if _isint(a) and _isint(b) and 'int-mod-truncated' in _T:
        r = abs(a) % abs(b)
        return -r if a < 0 else r
    return a % b
def _strict(a, b):
    if type(a) is not type(b): return False
    if isinstance(a, list): return len(a) == len(b) and all(_strict(x, y) for x, y in _bzip(a, b))
    if isinstance(a, dict): return a.keys() == b.keys() and all(_strict(a[k], b[k]) for k in a)
    return a == b
def _eq(a, b):
    if 'eq-strict-types' in _T: return _strict(a, b)
    return a == b
def _in(a, c):
    if 'eq-strict-types' in _T and isinstance(c, list): return any(type(x) is type(a) and x == a for x in c)
    return a in c
def _gostr(x):
    if isinstance(x, list): return '[' + ' '.join(_gostr(i) for i in x) + ']'
    if isinstance(x, dict): return '{' + ', '.join('"%s": %s' % (k, _gostr(x[k])) for k in sorted(x)) + '}'
    return str(x)
def _str(x):
    if 'str-of-container-go-format' in _T: return _gostr(x)
    return str(x)
def _dkeys(d):
    return sorted(d.keys()) if 'dict-enumeration-sorted' in _T else list(d.keys())
def _dvalues(d):
    return [d[k] for k in _dkeys(d)]
def _ditems(d):
    return [[k, d[k]] for k in _dkeys(d)]
def _prelude():
    return {
        'range': lambda *a: list(_brange(*a)),
        'zip': lambda *a: [list(t) for t in _bzip(*a)],
        'enumerate': lambda s: [[i, x] for i, x in _benum(s)],
        'reversed': lambda s: list(_brev(s)),
        'map': lambda f, s: list(_bmap(f, s)),
        'filter': lambda f, s: list(_bfilter(f, s)),
        'reduce': lambda f, s, initializer=None: functools.reduce(f, s) if initializer is None else functools.reduce(f, s, initializer),
        '_add': _add, '_sub': _sub, '_mul': _mul, '_neg': _neg, '_div': _div, '_fdiv': _fdiv, '_mod': _mod,
        '_eq': _eq, '_in': _in, '_str': _str, '_dkeys': _dkeys, '_dvalues': _dvalues, '_ditems': _ditems,
    }
def _hasfloat(v):
    if isinstance(v, float): return True
    if isinstance(v, (list, tuple)): return any(_hasfloat(x) for x in v)
    if isinstance(v, dict): return any(_hasfloat(x) for x in v.values())
    return False
def _run(job):
    global _T
    _T = set(job.get('toggles') or [])
    pre = _prelude()
    ns = dict(pre)
    try:
        exec(compile(job['src'], '<prog>', 'exec'), ns)
    except BaseException as e:
        return {'err': type(e).__name__ + ': ' + str(e)}
    out, skipped, fl = {}, [], False
    for k, v in ns.items():
        if k.startswith('_') or (k in pre and ns[k] is pre[k]) or callable(v):
            continue
        try:
            json.dumps(v)
        except Exception:
            skipped.append(k)
            continue
        if _hasfloat(v): fl = True
        out[k] = v
    return {'ok': out, 'float': fl, 'skipped': skipped}
sys.setrecursionlimit(10000)
jobs = json.load(sys.stdin)
print(json.dumps([_run(j) for j in jobs]))
`
