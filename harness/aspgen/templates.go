package aspgen

// Targeted programs: the witnesses of the known differences between asp and CPython (each with the exact
// values asp is known to produce, so that any OTHER deviation in the same program is still unexplained),
// and the inputs that failed before a fix (they must agree with CPython now).

type Template struct {
	Name  string
	Class string            // "" = must agree with CPython
	Defs  Prog              // optional build_defs file (subincluded by the BUILD file as //defs:d)
	Build Prog              // AST form (gets model cases); nil when Raw is used
	Raw   string            // raw BUILD text for constructs outside the generated AST (oracle only)
	PyRaw string            // text for python3 when it must differ from Raw (never the case for AST templates)
	Asp   map[string]string // canonical plain values asp is known to produce where it differs from CPython
	PyErr bool              // CPython raises on this program (asp is known not to)
}

func ints(xs ...int) *Val {
	es := []*Expr{}
	for _, x := range xs {
		es = append(es, IntE(x))
	}
	return List(es...)
}

func Templates() []Template {
	x := IdE("x")
	return []Template{
		// ---- operator chains (classified through the emulation toggles) ----
		{Name: "chain-rest", Class: ClsRest, Build: Prog{Assign("a", E(Int(10), Bin("-", Int(2)), Bin("*", Int(3)), Bin("-", Int(1))))}},
		{Name: "chain-lazy", Class: ClsLazy, Build: Prog{Assign("a", E(Int(0), Bin("and", Int(1)), Bin("==", Int(1)), Bin("or", Int(5))))}},
		{Name: "chain-not", Class: ClsPrefix, Build: Prog{Assign("a", E(Int(1), Un("not"), Bin("==", Int(2)), Bin("or", Int(1))))}},
		{Name: "chain-neg", Class: ClsNeg, Build: Prog{Assign("a", E(Int(2), Bin("*", Int(3)), Un("neg"), Bin("+", Int(10))))}},
		{Name: "chain-cmp", Class: ClsCmp, Build: Prog{Assign("a", E(Int(1), Bin("<", Int(2)), Bin("==", True())))}},
		{Name: "int-mod", Class: "int-mod-truncated", Build: Prog{Assign("a", E(Int(-7), Bin("%", Int(3))))}},
		{Name: "int-div", Class: "int-div-truncated", Build: Prog{Assign("a", E(Int(7), Bin("/", Int(2))))}},
		{Name: "floordiv-zero", Class: "floordiv-by-zero-no-error", Build: Prog{Assign("a", E(Int(1), Bin("//", Int(0))))}, PyErr: true},
		{Name: "floordiv-float", Class: "floordiv-float-precision", Build: Prog{Assign("a", E(Int(9007199254740993), Bin("//", Int(1))))}},
		{Name: "int-overflow", Class: "int-overflow-wraps", Build: Prog{Assign("a", E(Int(900000000000000000), Bin("*", Int(11))))}},
		{Name: "eq-int-bool", Class: "eq-strict-types", Build: Prog{Assign("a", E(Int(1), Bin("==", True()))), Assign("b", E(True(), Bin("in", ints(1))))}},
		{Name: "str-list", Class: "str-of-container-go-format", Build: Prog{Assign("a", E(Call("str", E(ints(1, 2))))), Assign("b", E(Call("str", E(Dict([]string{"k"}, []*Expr{StrE("v")})))))}},
		{Name: "octal", Class: "octal-literal-read-as-decimal", Build: Prog{Assign("a", E(&Val{K: "int", Int: 17, Octal: "17"}))}},
		{Name: "aug-rebinds", Class: "augassign-rebinds", Build: Prog{Assign("a", E(ints(1))), Assign("b", IdE("a")), Aug("b", E(ints(2)))}},
		{Name: "dict-order", Class: "dict-enumeration-sorted", Build: Prog{
			Assign("d", E(Dict([]string{"b", "a"}, []*Expr{IntE(1), IntE(2)}))),
			Assign("k", E(Comp(IdE("k0"), []string{"k0"}, E(Method(Ident("d"), "keys")), nil)))}},

		// ---- heap: aliasing through Go slices (exact known outcome) ----
		{Name: "append-spare", Class: "list-add-writes-spare-capacity", Asp: map[string]string{"b": "[1,2,4]"}, Build: Prog{
			Assign("a", E(Comp(x, []string{"x"}, E(ints(1, 2, 3)), E(Ident("x"), Bin("<", Int(3)))))),
			Assign("b", E(Ident("a"), Bin("+", ints(3)))),
			Assign("c", E(Ident("a"), Bin("+", ints(4))))}},
		{Name: "slice-write", Class: "slice-shares-array", Asp: map[string]string{"m": "[7,2,3]"}, Build: Prog{
			Assign("m", E(ints(1, 2, 3))),
			Assign("n", E(SliceOf(Ident("m"), IntE(0), IntE(2)))),
			IdxAssign("n", IntE(0), IntE(7))}},
		{Name: "slice-append", Class: "slice-shares-array", Asp: map[string]string{"m": "[1,2,9]"}, Build: Prog{
			Assign("m", E(ints(1, 2, 3))),
			Assign("n", E(SliceOf(Ident("m"), IntE(0), IntE(2)))),
			Assign("o", E(Ident("n"), Bin("+", ints(9))))}},
		{Name: "add-empty-aliases", Class: "slice-shares-array", Asp: map[string]string{"a": "[9,2]"}, Build: Prog{
			Assign("a", E(ints(1, 2))),
			Assign("b", E(Ident("a"), Bin("+", List()))),
			IdxAssign("b", IntE(0), IntE(9))}},
		{Name: "str-slice-bytes", Class: "string-slice-by-bytes", Asp: map[string]string{"r": `"é"`}, Build: Prog{
			Assign("r", E(SliceOf(Str("héllo"), IntE(1), IntE(3))))}},
		{Name: "range-neg-step", Class: "range-negative-step-empty", Asp: map[string]string{"r": "[]"}, Build: Prog{
			Assign("r", E(Comp(x, []string{"x"}, E(Call("range", IntE(5), IntE(0), IntE(-1))), nil)))}},
		{Name: "default-at-call", Class: "default-arg-evaluated-at-call", Asp: map[string]string{"z": "2"}, Build: Prog{
			Assign("y", IntE(1)),
			Def("f", []Arg{{Name: "q", E: IdE("y")}}, Return(IdE("q"))),
			Assign("y", IntE(2)),
			Assign("z", E(Call("f")))}},
		{Name: "const-literal-shared", Class: "constant-list-literal-shared", Asp: map[string]string{"b": "[9,2,3]"},
			Defs:  Prog{Def("f", nil, Return(E(ints(1, 2, 3))))},
			Build: Prog{CallStmt("subinclude", StrE("//defs:d")), Assign("a", E(Call("f"))), IdxAssign("a", IntE(0), IntE(9)), Assign("b", E(Call("f")))}},
		{Name: "percent-list", Class: "percent-format-list-operand", Asp: map[string]string{"s": `"a-3"`}, PyErr: true, Build: Prog{
			Assign("s", E(Str("%s-%d"), Bin("%", List(StrE("a"), IntE(3)))))}},

		{Name: "percent-mismatch", Class: "percent-format-mismatch-no-error", Asp: map[string]string{"s": `"a%!(EXTRA asp.pyInt=1)"`}, PyErr: true, Build: Prog{
			Assign("s", E(Str("a"), Bin("%", Int(1))))}},

		// ---- raw text (constructs the AST does not cover) ----
		{Name: "filter-nil", Class: "filter-empty-result-nil", Asp: map[string]string{"f": `"NIL-LIST"`}, Raw: "f = filter(lambda v: v > 5, [1, 2])\n"},
		{Name: "range-truthy", Class: "range-always-truthy", Asp: map[string]string{"t": "1"}, Raw: "t = 1 if range(0) else 2\n"},
		{Name: "split-default", Class: "split-default-separator", Asp: map[string]string{"s": `["a","","b"]`}, Raw: "s = \"a  b\".split()\n"},

		// ---- fixed defects: these must agree with CPython now ----
		{Name: "corpus-sorted-reversed-alias", Build: Prog{
			Assign("l", E(List(StrE("c"), StrE("a"), StrE("b")))),
			Assign("s", E(Call("sorted", IdE("l")))),
			Assign("m", E(List(StrE("x"), StrE("y"), StrE("z")))),
			Assign("r", E(Call("reversed", IdE("m"))))}},
		{Name: "sorted-then-mutate", Build: Prog{
			Assign("l", E(ints(3, 1, 2))),
			Assign("s", E(Call("sorted", IdE("l")))),
			IdxAssign("s", IntE(0), IntE(99)),
			Assign("t", E(Call("reversed", IdE("l")))),
			IdxAssign("t", IntE(0), IntE(77))}},
		{Name: "literal-fresh-per-call", Build: Prog{
			Def("f", nil, Return(E(ints(1, 2, 3)))),
			Assign("a", E(Call("f"))), IdxAssign("a", IntE(0), IntE(9)), Assign("b", E(Call("f")))}},
		{Name: "alias-whole-list", Build: Prog{
			Assign("a", E(ints(1, 2))), Assign("b", IdE("a")), IdxAssign("b", IntE(0), IntE(5))}},
		{Name: "nested-literal-alias", Build: Prog{
			Assign("a", E(List(E(ints(1)), E(ints(2))))), Assign("b", E(Index(Ident("a"), IntE(0)))), IdxAssign("b", IntE(0), IntE(5)),
			Assign("c", E(Ident("a"), Bin("+", List(E(ints(3))))))}},
	}
}
