// Package aspgen generates programs of the BUILD language (asp) as ASTs, prints them to source text,
// to Coq terms of Model/C16_Syntax.v and to an "emulated" Python text, evaluates them through the verif
// hook of package asp and through python3. Shared by the harnesses of C16, C17 and C18.
package aspgen

import "encoding/json"

// The AST mirrors the dump of asp.VerifC16Parse field by field (same JSON tags), so that
// json.Marshal(generated) == dump(parse(print(generated))) validates the printer.

type Expr struct {
	Val *Val  `json:"v"`
	Ops []Op  `json:"ops,omitempty"`
	If  *Expr `json:"if,omitempty"`
	Els *Expr `json:"else,omitempty"`
}

// Op is one entry of Expression.Op: a binary operator with its operand, or a prefix operator ("neg", "not")
// without one. A prefix operator that precedes the operand of a binary operator FOLLOWS that entry.
type Op struct {
	Op  string `json:"op"`
	Val *Val   `json:"v,omitempty"`
}

type Arg struct {
	Name string `json:"n,omitempty"`
	E    *Expr  `json:"e,omitempty"`
}

type Slice struct {
	Colon bool  `json:"colon,omitempty"`
	Lo    *Expr `json:"lo,omitempty"`
	Hi    *Expr `json:"hi,omitempty"`
}

type Val struct {
	K      string   `json:"k"` // int str true false none list comp dict paren ident
	Int    int      `json:"int,omitempty"`
	Str    string   `json:"str,omitempty"`
	Items  []*Expr  `json:"items,omitempty"`
	Keys   []*Expr  `json:"keys,omitempty"`
	Names  []string `json:"names,omitempty"`
	Iter   *Expr    `json:"iter,omitempty"`
	Cond   *Expr    `json:"cond,omitempty"`
	Name   string   `json:"name,omitempty"`
	Call   bool     `json:"call,omitempty"`
	Args   []Arg    `json:"args,omitempty"`
	Slices []Slice  `json:"slices,omitempty"`
	Meth   string   `json:"meth,omitempty"` // ident.meth(margs), applied before the slices
	MArgs  []Arg    `json:"margs,omitempty"`
	PMeth  string   `json:"pmeth,omitempty"` // value-level property call, applied after the slices
	PMArgs []Arg    `json:"pmargs,omitempty"`

	// Octal is set for an int literal that is to be printed as 0o<digits>; not part of the dump
	// (the lexer reads the digits as DECIMAL: Int holds that value).
	Octal string `json:"-"`
}

type Stmt struct {
	K     string   `json:"k"` // assign aug idxassign idxaug unpack if elif for def return call assert pass break continue
	Name  string   `json:"name,omitempty"`
	Names []string `json:"names,omitempty"`
	Idx   *Expr    `json:"idx,omitempty"`
	E     *Expr    `json:"e,omitempty"`
	Args  []Arg    `json:"args,omitempty"`
	Body  []*Stmt  `json:"body,omitempty"`
	Elif  []*Stmt  `json:"elif,omitempty"`
	Else  []*Stmt  `json:"els,omitempty"`
}

type Prog []*Stmt

func (p Prog) JSON() string {
	if p == nil {
		p = Prog{}
	}
	b, err := json.Marshal(p)
	if err != nil {
		panic(err)
	}
	return string(b)
}

// ---- constructors ----

func E(v *Val, ops ...Op) *Expr { return &Expr{Val: v, Ops: ops} }
func Int(i int) *Val            { return &Val{K: "int", Int: i} }
func Str(s string) *Val         { return &Val{K: "str", Str: s} }
func True() *Val                { return &Val{K: "true"} }
func False() *Val               { return &Val{K: "false"} }
func None() *Val                { return &Val{K: "none"} }
func Ident(n string) *Val       { return &Val{K: "ident", Name: n} }
func Paren(e *Expr) *Val        { return &Val{K: "paren", Items: []*Expr{e}} }
func List(es ...*Expr) *Val     { return &Val{K: "list", Items: es} }
func Call(n string, args ...*Expr) *Val {
	v := &Val{K: "ident", Name: n, Call: true}
	for _, a := range args {
		v.Args = append(v.Args, Arg{E: a})
	}
	return v
}
func Comp(e *Expr, names []string, it *Expr, cond *Expr) *Val {
	return &Val{K: "comp", Items: []*Expr{e}, Names: names, Iter: it, Cond: cond}
}
func Dict(keys []string, vals []*Expr) *Val {
	v := &Val{K: "dict"}
	for i, k := range keys {
		v.Keys = append(v.Keys, E(Str(k)))
		v.Items = append(v.Items, vals[i])
	}
	return v
}
func Bin(op string, v *Val) Op { return Op{Op: op, Val: v} }
func Un(op string) Op          { return Op{Op: op} }
func IntE(i int) *Expr         { return E(Int(i)) }
func StrE(s string) *Expr      { return E(Str(s)) }
func IdE(n string) *Expr       { return E(Ident(n)) }

// Index returns v[i] (v is copied).
func Index(v *Val, i *Expr) *Val {
	c := *v
	c.Slices = append(append([]Slice{}, v.Slices...), Slice{Lo: i})
	return &c
}

// SliceOf returns v[lo:hi].
func SliceOf(v *Val, lo, hi *Expr) *Val {
	c := *v
	c.Slices = append(append([]Slice{}, v.Slices...), Slice{Colon: true, Lo: lo, Hi: hi})
	return &c
}

// Method returns v.m(args): on a plain identifier it is the ident action, otherwise the value-level property.
func Method(v *Val, m string, args ...*Expr) *Val {
	c := *v
	as := []Arg{}
	for _, a := range args {
		as = append(as, Arg{E: a})
	}
	if c.K == "ident" && !c.Call && len(c.Slices) == 0 && c.Meth == "" {
		c.Meth, c.MArgs = m, as
		if len(as) == 0 {
			c.MArgs = nil
		}
	} else {
		c.PMeth, c.PMArgs = m, as
		if len(as) == 0 {
			c.PMArgs = nil
		}
	}
	return &c
}

func Assign(n string, e *Expr) *Stmt       { return &Stmt{K: "assign", Name: n, E: e} }
func Aug(n string, e *Expr) *Stmt          { return &Stmt{K: "aug", Name: n, E: e} }
func IdxAssign(n string, i, e *Expr) *Stmt { return &Stmt{K: "idxassign", Name: n, Idx: i, E: e} }
func IdxAug(n string, i, e *Expr) *Stmt    { return &Stmt{K: "idxaug", Name: n, Idx: i, E: e} }
func Return(e *Expr) *Stmt                 { return &Stmt{K: "return", E: e} }
func For(names []string, it *Expr, body ...*Stmt) *Stmt {
	return &Stmt{K: "for", Names: names, E: it, Body: body}
}
func If(c *Expr, body []*Stmt, els []*Stmt) *Stmt { return &Stmt{K: "if", E: c, Body: body, Else: els} }
func Def(n string, args []Arg, body ...*Stmt) *Stmt {
	return &Stmt{K: "def", Name: n, Args: args, Body: body}
}
func CallStmt(n string, args ...*Expr) *Stmt {
	s := &Stmt{K: "call", Name: n}
	for _, a := range args {
		s.Args = append(s.Args, Arg{E: a})
	}
	return s
}
