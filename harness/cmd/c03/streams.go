package main

// Three targeted streams of the C03 harness (follow-up of the seeded changes C03/r2-m1..m3). Each drives the real plz
// binary, has its own narrow oracle classes and emits cases for Model/C03Ext.v (LinkHist / ConcRuns / NamedNoop) next to
// the engine histories (Eng).
//
//	link   a filegroup of a plain source file (output = hard link to the user's file), a consumer of the filegroup and
//	       a control target reading the file directly; histories of builds in fresh processes, no-op builds, edits IN
//	       PLACE (same inode), replacements (temporary file + rename: new inode), rewrites with identical content and
//	       rm -rf plz-out. The second step always is a no-op build, the third an edit in place.
//	conc   a slow target a and a dependent b; 2 or 3 `plz build` processes started at the same moment on a clean tree,
//	       on the unchanged tree, after an edit, then a single build: every command must run at most once per round.
//	named  a target whose outs is a dict with 4-6 named groups (and one with a single group, one with list outs), built
//	       once and then again and again on the unchanged tree (each build a new process: a new map iteration order).

import (
	"bytes"
	"fmt"
	"os"
	"os/exec"
	"path/filepath"
	"sort"
	"strings"
	"sync"
	"syscall"
	"time"

	"verifharness/e2e"
	"verifharness/lib"
)

type linkEvent struct {
	Kind    string `json:"kind"` // build | edit-in-place | replace | same-content | rm-plz-out
	Content string `json:"content,omitempty"`
}

type linkHist struct {
	C0       string        `json:"c0"`
	Events   []linkEvent   `json:"events"`
	Steps    []e2e.EngStep `json:"-"`
	UseRan   []bool        `json:"use_ran"`
	CtlRan   []bool        `json:"ctl_ran"`
	TimedOut bool          `json:"timed_out,omitempty"`
}

func linkSpec(content string, extra bool) (*e2e.Spec, []string) {
	p := &e2e.Pkg{Files: map[string]string{"data.txt": content, "b.txt": "bee\n"}}
	useSrcs := []string{"//p:fg"}
	if extra {
		useSrcs = append(useSrcs, "b.txt")
	}
	p.Targets = []*e2e.Target{
		{Name: "fg", Kind: "filegroup", Srcs: []string{"data.txt"}},
		{Name: "use", Kind: "genrule", Srcs: useSrcs, Outs: []string{"use.out"}, Cmd: e2e.Cmd{Op: "concat"}},
		{Name: "ctl", Kind: "genrule", Srcs: []string{"data.txt"}, Outs: []string{"ctl.out"}, Cmd: e2e.Cmd{Op: "concat"}},
	}
	return &e2e.Spec{Pkgs: map[string]*e2e.Pkg{"p": p}}, []string{"//p:fg", "//p:use", "//p:ctl"}
}

func has(xs []string, x string) bool {
	for _, y := range xs {
		if y == x {
			return true
		}
	}
	return false
}

// runLink runs one history of the link stream.
func runLink(r *lib.Rng, base string, steps int) *linkHist {
	os.MkdirAll(base, 0o755)
	c0 := "one\n"
	h := &linkHist{C0: c0}
	spec, order := linkSpec(c0, r.Chance(1, 2))
	repo := e2e.NewRepo(base, "repo")
	data := filepath.Join(repo.Dir, "p", "data.txt")
	n := 0
	build := func(ed e2e.Edit, wipe bool) {
		repo.Write(spec)
		st := e2e.EngBuild(repo, base, spec, order, spec.Labels(), len(h.Steps), ed, wipe, e2e.EngOpts{CleanRef: true})
		h.Steps = append(h.Steps, st)
		h.Events = append(h.Events, linkEvent{Kind: "build"})
		h.UseRan = append(h.UseRan, has(st.Executed, "//p:use"))
		h.CtlRan = append(h.CtlRan, has(st.Executed, "//p:ctl"))
		h.TimedOut = h.TimedOut || st.TimedOut || st.Exit == -9 || st.CleanExit == -9
	}
	build(e2e.Edit{Kind: "link:initial"}, false)
	for i := 1; i <= steps && !h.TimedOut; i++ {
		kind := lib.Pick(r, []string{"edit-in-place", "edit-in-place", "edit-in-place", "replace", "noop", "noop", "same-content", "rm-plz-out"})
		if i == 1 {
			kind = "noop" // a build in a NEW process while the link already exists
		}
		if i == 2 {
			kind = "edit-in-place"
		}
		n++
		wipe := false
		switch kind {
		case "edit-in-place": // os.WriteFile truncates the existing file: same inode (Repo.Write does exactly that)
			c := fmt.Sprintf("%s%d\n", lib.Pick(r, []string{"two", "three", "x"}), n)
			spec.Pkgs["p"].Files["data.txt"] = c
			h.Events = append(h.Events, linkEvent{Kind: kind, Content: c})
		case "replace": // what most editors do: a new inode
			c := fmt.Sprintf("%s%d\n", lib.Pick(r, []string{"new", "other"}), n)
			if r.Chance(1, 4) {
				c = spec.Pkgs["p"].Files["data.txt"] // replaced by a file with the same bytes
			}
			spec.Pkgs["p"].Files["data.txt"] = c
			if err := os.WriteFile(data+".tmp", []byte(c), 0o644); err != nil {
				panic(err)
			}
			if err := os.Rename(data+".tmp", data); err != nil {
				panic(err)
			}
			h.Events = append(h.Events, linkEvent{Kind: kind, Content: c})
		case "same-content": // rewritten in place with the bytes it has
			c := spec.Pkgs["p"].Files["data.txt"]
			if err := os.WriteFile(data, []byte(c), 0o644); err != nil {
				panic(err)
			}
			h.Events = append(h.Events, linkEvent{Kind: "edit-in-place", Content: c})
		case "rm-plz-out":
			repo.RemovePlzOut()
			wipe = true
			h.Events = append(h.Events, linkEvent{Kind: kind})
		}
		build(e2e.Edit{Kind: "link:" + kind}, wipe)
	}
	return h
}

func linkTerm(h *linkHist) string {
	var evs []string
	for _, e := range h.Events {
		switch e.Kind {
		case "build":
			evs = append(evs, "C03Ext.Build")
		case "edit-in-place":
			evs = append(evs, lib.App("C03Ext.EditInPlace", lib.Str(e.Content)))
		case "replace":
			evs = append(evs, lib.App("C03Ext.Replace", lib.Str(e.Content)))
		case "rm-plz-out":
			evs = append(evs, "C03Ext.RmOut")
		default:
			panic("link event " + e.Kind)
		}
	}
	var obs []string
	for _, b := range h.UseRan {
		obs = append(obs, lib.Bool(b))
	}
	return lib.App("LinkHist", lib.Str(h.C0), lib.List(evs), lib.List(obs))
}

// linkOracle: per build, the consumer (through the filegroup) and the control (direct) must run exactly when the content
// of data.txt is not the one of the previous build or plz-out was deleted since.
func linkOracle(c *lib.Ctx, id int, h *linkHist) {
	cur, last, haveLast := h.C0, "", false
	k := 0
	for _, e := range h.Events {
		switch e.Kind {
		case "edit-in-place", "replace":
			cur = e.Content
		case "rm-plz-out":
			haveLast = false
		case "build":
			st := &h.Steps[k]
			want := !haveLast || last != cur
			js := map[string]any{"stream": "link", "history": id, "build": k, "events": h.Events, "use_ran": h.UseRan[:k+1], "ctl_ran": h.CtlRan[:k+1],
				"exit": st.Exit, "executed": st.Executed, "outputs": st.OutStr, "clean_outputs": st.CleanStr}
			c.Oracle()
			c.Hist("edit", st.Edit.Kind)
			if st.Exit != 0 {
				c.Fail("link-build-fails", fmt.Sprintf("build %d of the filegroup-link history: exit %d: %s", k, st.Exit, st.Stderr), js)
			} else {
				for _, x := range []struct {
					label string
					ran   bool
					via   string
				}{{"//p:use", h.UseRan[k], "through the filegroup //p:fg"}, {"//p:ctl", h.CtlRan[k], "directly"}} {
					switch {
					case want && !x.ran:
						c.Fail("changed-source-consumer-not-rerun", fmt.Sprintf("%s reads p/data.txt %s; its content changed (%q -> %q, %s) but the command did not run", x.label, x.via, last, cur, st.Edit.Kind), js)
					case !want && x.ran:
						c.Fail("unneeded-rerun-link", fmt.Sprintf("%s ran again although p/data.txt has the content of the previous build (%s)", x.label, st.Edit.Kind), js)
					}
				}
				if ok, why := e2e.OutputsEqual(st.Outputs["//p:use"], st.Clean["//p:use"]); !ok && st.CleanExit == 0 {
					c.Fail("changed-source-consumer-not-rerun", "output of //p:use differs from the clean build: "+why, js)
				}
			}
			last, haveLast = cur, true
			k++
		}
	}
}

// ---------------------------------------------------------------------------------------------
// conc

type concRound struct {
	What   string         `json:"what"`
	Procs  int            `json:"procs"`
	Fresh  bool           `json:"out_of_date"`
	Exits  []int          `json:"exits"`
	Counts map[string]int `json:"counts"`
	Killed bool           `json:"timed_out,omitempty"`
}

// runConcurrent starts n `plz build args` at the same moment in the repository and returns the exit codes and how often
// each label was written to the (shared) action log.
func runConcurrent(repo *e2e.Repo, n int, timeout time.Duration, args ...string) ([]int, map[string]int, bool) {
	os.Remove(repo.LogPath)
	exits := make([]int, n)
	killed := false
	var mu sync.Mutex
	var wg sync.WaitGroup
	start := make(chan struct{})
	for i := 0; i < n; i++ {
		wg.Add(1)
		go func(i int) {
			defer wg.Done()
			cmd := exec.Command(repo.Plz, append([]string{"--plain_output", "-v", "1"}, args...)...)
			cmd.Dir = repo.Dir
			cmd.Env = []string{"PATH=/usr/local/bin:/usr/bin:/bin", "HOME=/nonexistent-verif-home", "LANG=C", "USER=verif"}
			cmd.SysProcAttr = &syscall.SysProcAttr{Setpgid: true}
			var out bytes.Buffer
			cmd.Stdout, cmd.Stderr = &out, &out
			<-start
			if err := cmd.Start(); err != nil {
				panic(err)
			}
			done := make(chan error, 1)
			go func() { done <- cmd.Wait() }()
			select {
			case err := <-done:
				if err != nil {
					if ee, ok := err.(*exec.ExitError); ok {
						exits[i] = ee.ExitCode()
					} else {
						exits[i] = -1
					}
				}
			case <-time.After(timeout):
				syscall.Kill(-cmd.Process.Pid, syscall.SIGKILL)
				<-done
				exits[i] = -9
				mu.Lock()
				killed = true
				mu.Unlock()
			}
		}(i)
	}
	close(start)
	wg.Wait()
	counts := map[string]int{}
	for _, l := range repo.ReadLog() {
		counts[l]++
	}
	return exits, counts, killed
}

func runConc(r *lib.Rng, base string, procs int) []concRound {
	os.MkdirAll(base, 0o755)
	p := &e2e.Pkg{Files: map[string]string{"a.txt": "one\n", "b.txt": "bee\n"}}
	p.Targets = []*e2e.Target{
		{Name: "a", Kind: "genrule", Srcs: []string{"a.txt"}, Outs: []string{"a.out"}, Cmd: e2e.Cmd{Op: "sleepconcat", Arg: "2"}},
		{Name: "b", Kind: "genrule", Srcs: []string{"//p:a", "b.txt"}, Outs: []string{"b.out"}, Cmd: e2e.Cmd{Op: "concat"}},
	}
	spec := &e2e.Spec{Pkgs: map[string]*e2e.Pkg{"p": p}}
	repo := e2e.NewRepo(base, "repo")
	repo.Write(spec)
	var out []concRound
	round := func(what string, n int, fresh bool) {
		exits, counts, killed := runConcurrent(repo, n, 120*time.Second, "build", "//p:b")
		out = append(out, concRound{What: what, Procs: n, Fresh: fresh, Exits: exits, Counts: counts, Killed: killed})
	}
	round("clean tree", procs, true)
	round("unchanged tree", procs, false)
	p.Files["a.txt"] = lib.Pick(r, []string{"two\n", "deux\n"})
	repo.Write(spec)
	round("a.txt edited", procs, true)
	round("unchanged tree, single build", 1, false)
	return out
}

func concOracle(c *lib.Ctx, id int, rounds []concRound) {
	for k, rd := range rounds {
		js := map[string]any{"stream": "conc", "history": id, "round": k, "rounds": rounds[:k+1]}
		if rd.Killed {
			c.Hist("edit", "timed-out")
			return
		}
		c.Hist("edit", "conc:"+rd.What)
		c.Oracle()
		failed := false
		for _, e := range rd.Exits {
			failed = failed || e != 0
		}
		if failed {
			c.Fail("concurrent-build-fails", fmt.Sprintf("%d concurrent `plz build //p:b` (%s): exit codes %v", rd.Procs, rd.What, rd.Exits), js)
			return
		}
		want := 0
		if rd.Fresh {
			want = 1
		}
		for _, l := range []string{"//p:a", "//p:b"} {
			switch got := rd.Counts[l]; {
			case got > 1:
				c.Fail("command-ran-more-than-once-under-concurrent-builds", fmt.Sprintf("%d concurrent `plz build //p:b` (%s): the command of %s ran %d times", rd.Procs, rd.What, l, got), js)
			case got > want:
				c.Fail("unneeded-rerun-under-concurrent-builds", fmt.Sprintf("%d concurrent `plz build //p:b` (%s): the command of %s ran although nothing changed", rd.Procs, rd.What, l), js)
			case got < want:
				c.Fail("concurrent-builds-did-not-run-command", fmt.Sprintf("%d concurrent `plz build //p:b` (%s): the command of %s did not run", rd.Procs, rd.What, l), js)
			}
		}
		// the model case: the slow target a (both processes meet at it)
		c.Case(lib.App("ConcRuns", lib.Bool(!rd.Fresh), lib.Nat(rd.Procs), lib.Nat(rd.Counts["//p:a"])), js, fmt.Sprint("conc", id, k, rd.Procs, rd.Fresh), rd.Procs > 1)
	}
}

// ---------------------------------------------------------------------------------------------
// named

type namedHist struct {
	Groups   map[string][]string `json:"groups"`
	Steps    []e2e.EngStep       `json:"-"`
	Kinds    []string            `json:"kinds"`
	Reruns   int                 `json:"reruns_of_multi_in_noop_builds"`
	TimedOut bool                `json:"timed_out,omitempty"`
}

var groupNames = []string{"hdrs", "srcs", "docs", "data", "gen", "meta", "aux", "lib"}

func runNamed(r *lib.Rng, base string, ngroups, noops int) *namedHist {
	os.MkdirAll(base, 0o755)
	names := append([]string{}, groupNames...)
	lib.Shuffle(r, names)
	groups := map[string][]string{}
	var all []string
	for i, g := range names[:ngroups] {
		outs := []string{fmt.Sprintf("m_%s.out", g)}
		if i == 0 && r.Chance(1, 2) {
			outs = append(outs, fmt.Sprintf("m_%s.2", g))
		}
		groups[g] = outs
		all = append(all, outs...)
	}
	sort.Strings(all)
	p := &e2e.Pkg{Files: map[string]string{"one.txt": "1\n", "multi.txt": "m1\n"}}
	p.Targets = []*e2e.Target{
		{Name: "one", Kind: "genrule", Srcs: []string{"one.txt"}, Outs: []string{"one_a.out", "one_b.out"}, Cmd: e2e.Cmd{Op: "const", Arg: "one"}},
		{Name: "two", Kind: "genrule", Srcs: []string{"one.txt"}, Outs: []string{"two_a.out", "two_b.out"}, OutGroups: map[string][]string{"only": {"two_a.out", "two_b.out"}}, Cmd: e2e.Cmd{Op: "const", Arg: "two"}},
		{Name: "multi", Kind: "genrule", Srcs: []string{"multi.txt"}, Outs: all, OutGroups: groups, Cmd: e2e.Cmd{Op: "const", Arg: "multi"}},
		{Name: "top", Kind: "genrule", Srcs: []string{"//p:one", "//p:two", "//p:multi"}, Outs: []string{"top.out"}, Cmd: e2e.Cmd{Op: "concat"}},
	}
	spec := &e2e.Spec{Pkgs: map[string]*e2e.Pkg{"p": p}}
	order := []string{"//p:one", "//p:two", "//p:multi", "//p:top"}
	repo := e2e.NewRepo(base, "repo")
	h := &namedHist{Groups: groups}
	build := func(kind string, clean bool) {
		repo.Write(spec)
		st := e2e.EngBuild(repo, base, spec, order, spec.Labels(), len(h.Steps), e2e.Edit{Kind: "named:" + kind}, false, e2e.EngOpts{CleanRef: clean})
		if !clean && len(h.Steps) > 0 {
			prev := h.Steps[len(h.Steps)-1]
			st.CleanExit, st.CleanExec, st.Clean, st.CleanStr = prev.CleanExit, prev.CleanExec, prev.Clean, prev.CleanStr
		}
		h.Steps = append(h.Steps, st)
		h.Kinds = append(h.Kinds, kind)
		h.TimedOut = h.TimedOut || st.TimedOut || st.Exit == -9 || st.CleanExit == -9
		if kind == "noop" && has(st.Executed, "//p:multi") {
			h.Reruns++
		}
	}
	build("initial", true)
	for i := 0; i < noops && !h.TimedOut; i++ {
		build("noop", false)
	}
	if !h.TimedOut {
		p.Files["multi.txt"] = "m2\n" // multi runs again to byte-identical outputs: top is cut off
		build("edit-src-of-named-outs-target", true)
	}
	for i := 0; i < 2 && !h.TimedOut; i++ {
		build("noop", false)
	}
	return h
}

func namedOracle(c *lib.Ctx, id int, h *namedHist) {
	for k := range h.Steps {
		st := &h.Steps[k]
		js := map[string]any{"stream": "named", "history": id, "build": k, "kinds": h.Kinds[:k+1], "groups": h.Groups, "exit": st.Exit, "executed": st.Executed, "BUILD": st.Spec.Target("//p:multi").Render("p", st.LogPath)}
		c.Hist("edit", st.Edit.Kind)
		c.Oracle()
		if st.Exit != 0 {
			c.Fail("named-outs-build-fails", fmt.Sprintf("build %d: exit %d: %s", k, st.Exit, st.Stderr), js)
			return
		}
		ex := append([]string{}, st.Executed...)
		sort.Strings(ex)
		switch h.Kinds[k] {
		case "initial":
			if strings.Join(ex, " ") != "//p:multi //p:one //p:top //p:two" {
				c.Fail("named-outs-first-build-wrong", fmt.Sprintf("the first build executed %v", ex), js)
			}
		case "noop":
			for _, l := range ex {
				cls := "second-build-not-a-noop"
				if len(st.Spec.Target(l).OutGroups) > 1 {
					cls = "noop-build-reran-target-with-named-outs"
				}
				c.Fail(cls, fmt.Sprintf("build %d of the unchanged tree (a new process) ran %s again; outs = %v", k, l, st.Spec.Target(l).OutGroups), js)
			}
		default: // the source of multi was edited: multi runs, its outputs are byte-identical, top is cut off
			if !has(ex, "//p:multi") {
				c.Fail("changed-source-consumer-not-rerun", "multi.txt was edited but //p:multi did not run", js)
			}
			for _, l := range ex {
				if l != "//p:multi" {
					c.Fail("unneeded-rerun-named", fmt.Sprintf("%s ran although only multi.txt changed and //p:multi was rebuilt to identical outputs", l), js)
				}
			}
		}
	}
}

func namedTerm(h *namedHist) string {
	var gs []string
	for _, g := range lib.SortedKeys(h.Groups) {
		gs = append(gs, lib.Pair(lib.Str(g), lib.StrList(h.Groups[g])))
	}
	return lib.App("NamedNoop", lib.List(gs), lib.Nat(h.Reruns))
}
