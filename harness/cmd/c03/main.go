// C03: no-op and cut-off - actions re-run only when their inputs changed (end to end, real plz).
//
// Every step of a history is `plz build` of all targets followed at once by a second `plz build` of the
// unchanged tree. Oracles (model independent): (a) the second build executes no command and exits 0;
// (b) after an edit, a command ran only if its target is new, its BUILD entry changed, one of its source files
// changed, the CLEAN outputs of one of its dependencies changed (clean reference builds of successive trees),
// or plz-out had been deleted. The whole history (both builds of every step) is replayed in Model/Engine.v.
// (c) the converse for plain files: a genrule one of whose source files - its own, or those of a filegroup it reads -
// has other content than at the previous build must run (class changed-source-consumer-not-rerun).
// streams.go adds three targeted streams (hard-linked filegroup outputs under edits in place, concurrent double
// invocations, dict outs under repeated no-op builds) with their own cases for Model/C03Ext.v; every case is wrapped
// in C03Ext.case (Eng = an engine history).
package main

import (
	"fmt"
	"os"
	"strings"
	"sync"
	"time"

	"verifharness/e2e"
	"verifharness/lib"
)

func main() {
	lib.Main("C03", func(c *lib.Ctx) {
		c.Model("From PlzV Require Import Model.Engine Model.C03Ext.", "C03Ext.case", "C03Ext.check")
		c.Rule("generated repositories (1-2 packages, 2-6 targets: genrules concat/const/copydir/listnames and, in every other history, output_dirs targets; filegroups, text_files) with edit histories " +
			"(content edits, rewrites with identical content, renames inside output directories, srcs/outs/cmd changes, comments, unused files, added/removed targets, " +
			"rm -rf plz-out, going back to an earlier tree); every tree is built twice in a row by the real plz; the executed commands come from an action log " +
			"outside the repository. distinct = distinct histories; non-trivial = at least two steps changed the tree")
		base := e2e.Scratch("c03")
		defer os.RemoveAll(base)
		n := c.Scale(9, 300)
		steps := c.Scale(4, 7)
		corpusWitness(c, base)
		// the targeted streams run next to the generated histories
		var wg sync.WaitGroup
		nlink := c.Scale(2, 24)
		links := make([]*linkHist, nlink)
		for i := range links {
			wg.Add(1)
			go func(i int, r *lib.Rng) {
				defer wg.Done()
				links[i] = runLink(r, fmt.Sprintf("%s/link%d", base, i), c.Scale(5, 9))
			}(i, c.Rng.Fork())
		}
		nconc := c.Scale(2, 6)
		concs := make([][]concRound, nconc)
		for i := range concs {
			wg.Add(1)
			go func(i int, r *lib.Rng) {
				defer wg.Done()
				concs[i] = runConc(r, fmt.Sprintf("%s/conc%d", base, i), 2+i%2)
			}(i, c.Rng.Fork())
		}
		nnamed := c.Scale(2, 8)
		nameds := make([]*namedHist, nnamed)
		for i := range nameds {
			wg.Add(1)
			go func(i int, r *lib.Rng) {
				defer wg.Done()
				nameds[i] = runNamed(r, fmt.Sprintf("%s/named%d", base, i), 4+2*(i%2), c.Scale(6, 12))
			}(i, c.Rng.Fork())
		}
		if os.Getenv("C03_STREAMS_ONLY") != "" { // development aid: only the targeted streams
			n = 0
		}
		all := e2e.EngRunHistories(c.Rng, base, n, 8, func(i int) e2e.EngOpts {
			return e2e.EngOpts{MaxPkgs: 2, MaxTargets: 6, Steps: steps, CleanRef: true, Rebuild: true, PWipe: 6, PRevert: 12, PNoop: 4, DirHeavy: i%3 == 0, OutDirs: i%2 == 1}
		})
		for i, h := range all {
			changed := 0
			var prev *e2e.EngStep
			timedOut := false
			for k := range h {
				timedOut = timedOut || h[k].TimedOut || h[k].Exit == -9 || h[k].CleanExit == -9
			}
			if timedOut { // a plz invocation was killed by the harness timeout (overloaded machine): no verdict
				c.Hist("edit", "timed-out")
				continue
			}
			for k := range h {
				st := &h[k]
				c.Hist("edit", st.Edit.Kind)
				c.HistN("executed", len(st.Executed))
				if st.Edit.Kind == "rebuild" {
					c.Oracle()
					if st.Exit != 0 || len(st.Executed) > 0 {
						c.Fail("second-build-not-a-noop", fmt.Sprintf("second `plz build` of the unchanged tree: exit %d, executed %v (first build ran %v)", st.Exit, st.Executed, prev.Executed), histJSON(i, h, k))
					}
					continue
				}
				if k > 0 && st.Edit.Kind != "none" {
					changed++
				}
				if prev != nil && st.Exit == 0 && prev.Exit == 0 {
					c.Oracle()
					for _, l := range st.Executed {
						if why := allowed(prev, st, l); why == "" {
							c.Fail(classify(st, l), fmt.Sprintf("%s ran again after %v although its definition, its source files and the clean outputs of its dependencies are unchanged", l, st.Edit), histJSON(i, h, k))
						} else {
							c.Hist("reason", why)
						}
					}
					// the other direction, for plain files only: a genrule one of whose source FILES - its own, or those of a
					// filegroup it reads - has other content than at the previous build must run
					for _, l := range st.Spec.Labels() {
						if why := mustRun(prev, st, l); why != "" && !has(st.Executed, l) {
							c.Fail("changed-source-consumer-not-rerun", fmt.Sprintf("%s did not run after %v although %s", l, st.Edit, why), histJSON(i, h, k))
						}
					}
				}
				prev = st
			}
			c.Case(engTerm(h), histJSON(i, h, len(h)-1), e2e.EngKey(h), changed >= 2)
		}
		wg.Wait()
		for i, h := range links {
			if h.TimedOut {
				c.Hist("edit", "timed-out")
				continue
			}
			linkOracle(c, 3000+i, h)
			js := map[string]any{"stream": "link", "history": 3000 + i, "events": h.Events, "use_ran": h.UseRan, "ctl_ran": h.CtlRan}
			c.Case(linkTerm(h), js, fmt.Sprint("link", h.Events), len(h.Events) >= 6)
			c.Case(engTerm(h.Steps), histJSON(3000+i, h.Steps, len(h.Steps)-1), "link-eng"+e2e.EngKey(h.Steps), true)
		}
		for i, rounds := range concs {
			concOracle(c, 3100+i, rounds)
		}
		for i, h := range nameds {
			if h.TimedOut {
				c.Hist("edit", "timed-out")
				continue
			}
			namedOracle(c, 3200+i, h)
			js := map[string]any{"stream": "named", "history": 3200 + i, "groups": h.Groups, "kinds": h.Kinds, "reruns": h.Reruns}
			c.Case(namedTerm(h), js, fmt.Sprint("named", h.Groups), len(h.Groups) >= 2)
			c.Case(engTerm(h.Steps), histJSON(3200+i, h.Steps, len(h.Steps)-1), "named-eng"+e2e.EngKey(h.Steps), true)
		}
		// targeted shapes (harness/e2e/c01_shapes.go): names reached through labels, the temporary directory after a failed
		// build, filegroups of directories, tools rebuilt to byte-identical outputs (cut-off through tools = [...])
		nshapes := c.Scale(1, 30)
		if os.Getenv("C03_STREAMS_ONLY") != "" {
			nshapes = 0
		}
		shapes := e2e.EngRunShapes(c.Rng.Fork(), base+"/shapes", nshapes, c.Scale(3, 6), 8)
		for ki, kind := range e2e.ShapeKinds {
			for hi, h := range shapes[kind] {
				id := 2000 + 100*ki + hi
				bad := false
				for k := range h {
					bad = bad || h[k].TimedOut || h[k].Exit == -9 || h[k].CleanExit == -9
				}
				if bad {
					c.Hist("edit", "timed-out")
					continue
				}
				changed := 0
				for k := range h {
					st := &h[k]
					c.Hist("edit", st.Edit.Kind)
					if k == 0 {
						continue
					}
					changed++
					if st.Exit == 0 && h[k-1].Exit == 0 {
						c.Oracle()
						for _, l := range st.Executed {
							if why := e2e.EngAllowed(&h[k-1], st, l); why == "" {
								c.Fail("unneeded-rerun-"+kind, fmt.Sprintf("%s ran again after %v although its definition, its source files and the clean outputs of its dependencies and tools are unchanged", l, st.Edit), histJSON(id, h, k))
							} else {
								c.Hist("reason", why)
							}
						}
					}
				}
				if e2e.ShapeModelled(kind) {
					c.Case(engTerm(h), histJSON(id, h, len(h)-1), e2e.EngKey(h), changed >= 2)
				}
			}
		}
	})
}

// corpusWitness: /verif/corpus/C03/prefixed_hashes_output_dirs.BUILD - a target with output_dirs and a prefixed
// hash ("sha1: ..."), the input on which UnprefixedHashes used to strip the prefixes of target.Hashes in place
// (fixed in /repo 72ca340): the post-build rule hash then differed from the recorded one and the SECOND build of
// the unchanged tree re-ran the command. Built twice (three times) here; the later builds must be no-ops.
func corpusWitness(c *lib.Ctx, base string) {
	dir := os.Getenv("VERIF_DIR")
	if dir == "" {
		dir = "/verif"
	}
	text, err := os.ReadFile(dir + "/corpus/C03/prefixed_hashes_output_dirs.BUILD")
	if err != nil {
		panic(err)
	}
	repo := e2e.NewRepo(base, "corpus")
	repo.Write(&e2e.Spec{Pkgs: map[string]*e2e.Pkg{}})
	build := strings.Replace(string(text), `cmd = "`, `cmd = "echo //p:t >> `+repo.LogPath+` && `, 1)
	if build == string(text) {
		panic("corpus witness: no cmd to instrument")
	}
	os.MkdirAll(repo.Dir+"/p", 0o755)
	if err := os.WriteFile(repo.Dir+"/p/BUILD", []byte(build), 0o644); err != nil {
		panic(err)
	}
	js := map[string]any{"corpus": "C03/prefixed_hashes_output_dirs.BUILD", "BUILD": build}
	for i := 0; i < 3; i++ {
		res := repo.Run(90*time.Second, "build", "//p:t")
		if res.TimedOut {
			c.Hist("edit", "timed-out")
			return
		}
		c.Hist("edit", "corpus-witness")
		c.Eval(js, fmt.Sprint("corpus", i), i > 0)
		c.Oracle()
		if res.Exit != 0 {
			c.Fail("corpus-witness-build-fails", fmt.Sprintf("build %d of the output_dirs + prefixed hash witness: exit %d: %s", i+1, res.Exit, res.Stderr), js)
			return
		}
		if i == 0 && len(res.Executed) != 1 {
			c.Fail("corpus-witness-build-fails", fmt.Sprintf("first build executed %v", res.Executed), js)
		}
		if i > 0 && len(res.Executed) > 0 {
			c.Fail("second-build-not-a-noop", fmt.Sprintf("build %d of the unchanged output_dirs + prefixed hash witness executed %v", i+1, res.Executed), js)
		}
	}
}

// allowed says why the command of label may run at step st (previous build: prev), or "" if nothing it reads changed.
func allowed(prev, st *e2e.EngStep, label string) string {
	if st.Wipe {
		return "plz-out-deleted"
	}
	if prev.Spec.Target(label) == nil {
		return "new-target"
	}
	if e2e.Definition(prev.Spec, label, st.LogPath) != e2e.Definition(st.Spec, label, st.LogPath) {
		return "definition-changed"
	}
	a, b := e2e.LocalInputs(prev.Spec, label), e2e.LocalInputs(st.Spec, label)
	if fmt.Sprint(a) != fmt.Sprint(b) {
		return "source-file-changed"
	}
	for _, d := range e2e.DepsOf(st.Spec.Target(label)) {
		if ok, _ := e2e.OutputsEqual(prev.Clean[d], st.Clean[d]); !ok {
			return "dependency-output-changed"
		}
	}
	// outputs that an earlier, different definition of another target had removed or replaced cannot occur here:
	// output names are unique per target. What is left is an output missing in plz-out before the build.
	return ""
}

func engTerm(h []e2e.EngStep) string { return lib.App("Eng", e2e.EngCaseTerm(h)) }

// mustRun: label is a genrule of both trees and a plain source file it reads - directly, or through a filegroup of plain
// files - has other content than in the previous tree: says which, else "".
func mustRun(prev, st *e2e.EngStep, label string) string {
	t, u := st.Spec.Target(label), prev.Spec.Target(label)
	if t == nil || u == nil || t.Kind != "genrule" {
		return ""
	}
	files := func(s *e2e.Spec, t *e2e.Target, pkg string) map[string]string {
		out := map[string]string{}
		add := func(pkg string, srcs []string) {
			for _, x := range srcs {
				if !strings.HasPrefix(x, "//") && !strings.HasPrefix(x, ":") {
					if c, ok := s.Pkgs[pkg].Files[x]; ok {
						out[pkg+"/"+x] = c
					}
				}
			}
		}
		add(pkg, t.Srcs)
		for _, x := range t.Srcs {
			if !strings.HasPrefix(x, "//") {
				continue
			}
			if d := s.Target(x); d != nil && d.Kind == "filegroup" {
				dp, _ := e2e.SplitLabel(x)
				add(dp, d.Srcs)
			}
		}
		return out
	}
	pkg, _ := e2e.SplitLabel(label)
	a, b := files(prev.Spec, u, pkg), files(st.Spec, t, pkg)
	for _, f := range lib.SortedKeys(b) {
		if old, ok := a[f]; ok && old != b[f] {
			return fmt.Sprintf("the content of %s changed (%q -> %q)", f, old, b[f])
		}
	}
	return ""
}

func classify(st *e2e.EngStep, label string) string {
	t := st.Spec.Target(label)
	if t == nil {
		return "unneeded-rerun"
	}
	for _, d := range e2e.DepsOf(t) {
		if dt := st.Spec.Target(d); dt != nil && dt.Cmd.Op == "copydir" {
			return "unneeded-rerun-of-dependent-of-directory-output"
		}
	}
	return "unneeded-rerun-" + strings.ReplaceAll(t.Kind+"-"+t.Cmd.Op, "_", "-")
}

func histJSON(i int, h []e2e.EngStep, upto int) map[string]any {
	specs := []*e2e.Spec{}
	edits := []e2e.Edit{}
	for _, s := range h[:upto+1] {
		specs = append(specs, s.Spec)
		edits = append(edits, s.Edit)
	}
	st := h[upto]
	return map[string]any{"history": i, "step": upto, "edits": edits, "specs": specs, "exit": st.Exit, "executed": st.Executed, "outputs": st.OutStr}
}
