// C21: glob() returns exactly the files its documented semantics select.
// Implementation side of the correspondence (real fs.Globber on trees materialised on disk, fs.Match,
// toRegexString through the verif hook) + a model-independent property oracle (segment-wise reference).
package main

import (
	"encoding/json"
	"fmt"
	"os"
	"path/filepath"
	"sort"
	"strings"

	"verifharness/lib"

	"github.com/thought-machine/please/src/fs"
	"github.com/thought-machine/please/src/parse/asp"
)

// ------------------------------------------------------------------------------------------ patterns

type atom struct {
	K     string    `json:"k"` // "l" literal, "?" , "*" , "[" class
	C     byte      `json:"c,omitempty"`
	Neg   bool      `json:"neg,omitempty"`
	Items [][2]byte `json:"items,omitempty"`
}

type pseg struct {
	DStar bool   `json:"dstar,omitempty"`
	Atoms []atom `json:"atoms,omitempty"`
}

type pat []pseg

func lit(x string) []atom {
	out := []atom{}
	for i := 0; i < len(x); i++ {
		out = append(out, litAtom(x[i]))
	}
	return out
}

// a literal byte; bytes that are special to filepath.Match are written as a one-character class
func litAtom(c byte) atom {
	if c == '[' || c == '*' || c == '?' {
		return atom{K: "[", Items: [][2]byte{{c, c}}}
	}
	return atom{K: "l", C: c}
}

func renderSeg(g pseg) string {
	if g.DStar {
		return "**"
	}
	var b strings.Builder
	for _, a := range g.Atoms {
		switch a.K {
		case "l":
			b.WriteByte(a.C)
		case "?":
			b.WriteByte('?')
		case "*":
			b.WriteByte('*')
		case "[":
			b.WriteByte('[')
			if a.Neg {
				b.WriteByte('^')
			}
			for _, it := range a.Items {
				if it[0] == it[1] {
					b.WriteByte(it[0])
				} else {
					b.WriteByte(it[0])
					b.WriteByte('-')
					b.WriteByte(it[1])
				}
			}
			b.WriteByte(']')
		}
	}
	return b.String()
}

func render(p pat) string {
	segs := make([]string, len(p))
	for i, g := range p {
		segs[i] = renderSeg(g)
	}
	return strings.Join(segs, "/")
}

func renderAll(ps []pat) []string {
	out := make([]string, len(ps))
	for i, p := range ps {
		out[i] = render(p)
	}
	return out
}

func coqAtom(a atom) string {
	switch a.K {
	case "l":
		return lib.App("ALit", lib.N(uint64(a.C)))
	case "?":
		return "AQ"
	case "*":
		return "AStar"
	}
	items := []string{}
	for _, it := range a.Items {
		items = append(items, lib.Pair(lib.N(uint64(it[0])), lib.N(uint64(it[1]))))
	}
	return lib.App("AClass", lib.Bool(a.Neg), lib.List(items))
}

func coqPat(p pat) string {
	segs := []string{}
	for _, g := range p {
		if g.DStar {
			segs = append(segs, "DStar")
			continue
		}
		as := []string{}
		for _, a := range g.Atoms {
			as = append(as, coqAtom(a))
		}
		segs = append(segs, lib.App("Seg", lib.List(as)))
	}
	return lib.List(segs)
}

func coqPats(ps []pat) string {
	out := []string{}
	for _, p := range ps {
		out = append(out, coqPat(p))
	}
	return lib.List(out)
}

// ------------------------------------------------------------------------------------------ trees

const (
	kFile = iota
	kSymFile
	kSymDir
	kDir
)

type node struct {
	Kind   int
	Target string
	Kids   []entry // sorted by name (bytes), as ReadDir returns them
}

type entry struct {
	Name string
	N    *node
}

func (n *node) sortKids() {
	sort.Slice(n.Kids, func(i, j int) bool { return n.Kids[i].Name < n.Kids[j].Name })
	for _, k := range n.Kids {
		if k.N.Kind == kDir {
			k.N.sortKids()
		}
	}
}

func (n *node) json() any {
	switch n.Kind {
	case kFile:
		return "f"
	case kSymFile, kSymDir:
		return "l:" + n.Target
	}
	m := map[string]any{}
	for _, k := range n.Kids {
		m[k.Name] = k.N.json()
	}
	return m
}

func nodeFromJSON(v any) *node {
	switch x := v.(type) {
	case string:
		if strings.HasPrefix(x, "l:") {
			return &node{Kind: kSymFile, Target: x[2:]}
		}
		return &node{Kind: kFile}
	case map[string]any:
		n := &node{Kind: kDir}
		for name, k := range x {
			n.Kids = append(n.Kids, entry{name, nodeFromJSON(k)})
		}
		return n
	}
	panic("bad tree json")
}

// symlink kinds are decided by what the target resolves to inside the same directory
func (n *node) fixSymKinds() {
	for _, k := range n.Kids {
		if k.N.Kind == kSymFile || k.N.Kind == kSymDir {
			k.N.Kind = kSymFile
			for _, o := range n.Kids {
				if o.Name == k.N.Target && o.N.Kind == kDir {
					k.N.Kind = kSymDir
				}
			}
		}
		if k.N.Kind == kDir {
			k.N.fixSymKinds()
		}
	}
}

func (n *node) coq() string {
	switch n.Kind {
	case kFile:
		return "File"
	case kSymFile, kSymDir:
		return "Sym"
	}
	ks := []string{}
	for _, k := range n.Kids {
		ks = append(ks, lib.Pair(lib.Str(k.Name), k.N.coq()))
	}
	return lib.App("Dir", lib.List(ks))
}

func (n *node) materialise(dir string) {
	if err := os.MkdirAll(dir, 0o755); err != nil {
		panic(err)
	}
	for _, k := range n.Kids {
		p := filepath.Join(dir, k.Name)
		switch k.N.Kind {
		case kFile:
			if err := os.WriteFile(p, nil, 0o644); err != nil {
				panic(err)
			}
		case kSymFile, kSymDir:
			if err := os.Symlink(k.N.Target, p); err != nil {
				panic(err)
			}
		case kDir:
			k.N.materialise(p)
		}
	}
}

func (n *node) hasKid(name string) bool {
	for _, k := range n.Kids {
		if k.Name == name {
			return true
		}
	}
	return false
}

func (n *node) count() (files, dirs int) {
	for _, k := range n.Kids {
		if k.N.Kind == kDir {
			f, d := k.N.count()
			files, dirs = files+f, dirs+d+1
		} else {
			files++
		}
	}
	return
}

// every entry below the package root, with its path segments
type ent struct {
	Segs []string
	N    *node
}

func (n *node) all(prefix []string, out *[]ent) {
	for _, k := range n.Kids {
		segs := append(append([]string{}, prefix...), k.Name)
		*out = append(*out, ent{segs, k.N})
		if k.N.Kind == kDir {
			k.N.all(segs, out)
		}
	}
}

var buildFileNames = []string{"BUILD", "BUILD.plz"}

func isBuildName(x string) bool { return x == "BUILD" || x == "BUILD.plz" }

func nameHidden(x string) bool {
	return strings.HasPrefix(x, ".") || (strings.HasPrefix(x, "#") && strings.HasSuffix(x, "#"))
}

// ------------------------------------------------------------------------------------------ the reference
// Independent of the model and of the implementation: segment-wise matching, by dynamic programming.

func atomMatches(a atom, c byte) bool {
	switch a.K {
	case "l":
		return a.C == c
	case "?":
		return true
	case "[":
		in := false
		for _, it := range a.Items {
			if it[0] <= c && c <= it[1] {
				in = true
			}
		}
		return in != a.Neg
	}
	return false
}

// refSeg: does the pattern segment match the whole name?  (table over positions; `*` = any run)
func refSeg(as []atom, name string) bool {
	cur := make([]bool, len(name)+1)
	cur[0] = true
	for _, a := range as {
		next := make([]bool, len(name)+1)
		if a.K == "*" {
			seen := false
			for i := 0; i <= len(name); i++ {
				seen = seen || cur[i]
				next[i] = seen
			}
		} else {
			for i := 0; i < len(name); i++ {
				if cur[i] && atomMatches(a, name[i]) {
					next[i+1] = true
				}
			}
		}
		cur = next
	}
	return cur[len(name)]
}

// refPath: `**` = any number of whole segments (at least one when it ends the pattern)
func refPath(p pat, segs []string) bool {
	cur := make([]bool, len(segs)+1)
	cur[0] = true
	for gi, g := range p {
		next := make([]bool, len(segs)+1)
		if g.DStar {
			seen := false
			last := gi == len(p)-1
			for i := 0; i <= len(segs); i++ {
				if last {
					next[i] = seen // strictly more segments than some reachable position
					seen = seen || cur[i]
				} else {
					seen = seen || cur[i]
					next[i] = seen
				}
			}
		} else {
			for i := 0; i < len(segs); i++ {
				if cur[i] && refSeg(g.Atoms, segs[i]) {
					next[i+1] = true
				}
			}
		}
		cur = next
	}
	return cur[len(segs)]
}

func segsHavePrefix(segs, prefix []string) bool {
	if len(prefix) > len(segs) {
		return false
	}
	for i := range prefix {
		if segs[i] != prefix[i] {
			return false
		}
	}
	return true
}

// an exclude entry: no '/' -> against the file name; otherwise against the path from the package; an entry that
// literally names a directory (or the file itself) excludes everything beneath it
func refExcluded(e pat, segs []string) bool {
	litSegs := make([]string, len(e))
	for i, g := range e {
		litSegs[i] = renderSeg(g)
	}
	if segsHavePrefix(segs, litSegs) {
		return true
	}
	if len(e) == 1 && !e[0].DStar {
		return refSeg(e[0].Atoms, segs[len(segs)-1])
	}
	return refPath(e, segs)
}

type query struct {
	Pkg    string
	Inc    []pat
	Exc    []pat
	Hidden bool
	Syms   bool
}

// the source files of the package: regular files (symlinks to files with Syms), not in a sub-package, not in the
// repository's plz-out, no hidden component unless Hidden
func refCandidate(q query, tree *node, e ent) bool {
	if !(e.N.Kind == kFile || (q.Syms && (e.N.Kind == kSymFile))) {
		return false
	}
	cur := tree
	for i, sname := range e.Segs {
		if !q.Hidden && nameHidden(sname) {
			return false
		}
		if q.Pkg == "" && i == 0 && sname == "plz-out" {
			return false
		}
		if i < len(e.Segs)-1 {
			for _, k := range cur.Kids {
				if k.Name == sname {
					cur = k.N
				}
			}
			for _, k := range cur.Kids {
				if isBuildName(k.Name) {
					return false
				}
			}
		}
	}
	return true
}

func refSelected(q query, tree *node, e ent) bool {
	if !refCandidate(q, tree, e) {
		return false
	}
	inc := false
	for _, p := range q.Inc {
		inc = inc || refPath(p, e.Segs)
	}
	if !inc {
		return false
	}
	for _, x := range q.Exc {
		if refExcluded(x, e.Segs) {
			return false
		}
	}
	return true
}

// ------------------------------------------------------------------------------------------ classification
// A discrepancy between the implementation and the reference is labelled by the smallest set of KNOWN deviations
// of src/fs/glob.go that explains it (emulated on the joined path string, as the code works); anything that no set
// explains is an unexplained mismatch.  The emulation is used for labelling only, never to decide pass/fail.

const (
	qDirs       = 1 << iota // directories (and symlinks to them) are candidates like files
	qHiddenBase             // only the base name is tested for hiddenness
	qRootDStar              // in the root package a leading `**/` needs at least one directory
	qQmSep                  // in a pattern containing `**`, `?` also matches '/'
	qNegSep                 // a negated class also matches '/'
	qPlzOut                 // in the root package anything NAMED plz-out is skipped, at any depth
	qAll        = 1<<iota - 1
)

var quirkClass = []struct {
	bit   int
	class string
}{
	{qDirs, "directory-returned"},
	{qHiddenBase, "file-in-hidden-directory-returned"},
	{qRootDStar, "leading-doublestar-needs-a-directory-in-root-package"},
	{qQmSep, "question-mark-matches-separator-in-doublestar-pattern"},
	{qNegSep, "negated-class-matches-separator"},
	{qPlzOut, "entry-named-plz-out-skipped-at-any-depth-in-root-package"},
}

type stok struct {
	kind string // "1" single, "*" star of non-sep, "opt" optional leading dirs, "any" everything
	a    atom
	sep  bool // kind "1": a '/' literal
}

func emuTokens(p pat, pkg string, quirks int) []stok {
	ts := []stok{}
	for i, g := range p {
		last := i == len(p)-1
		if g.DStar {
			switch {
			case last:
				ts = append(ts, stok{kind: "any"})
			case i == 0 && pkg == "" && quirks&qRootDStar != 0:
				ts = append(ts, stok{kind: "any"}, stok{kind: "1", sep: true})
			default:
				ts = append(ts, stok{kind: "opt"})
			}
			continue
		}
		for _, a := range g.Atoms {
			if a.K == "*" {
				ts = append(ts, stok{kind: "*"})
			} else {
				ts = append(ts, stok{kind: "1", a: a})
			}
		}
		if !last {
			ts = append(ts, stok{kind: "1", sep: true})
		}
	}
	return ts
}

func emuMatch(ts []stok, x string, regexMode bool, quirks int) bool {
	if len(ts) == 0 {
		return x == ""
	}
	t := ts[0]
	switch t.kind {
	case "any":
		for i := 0; i <= len(x); i++ {
			if emuMatch(ts[1:], x[i:], regexMode, quirks) {
				return true
			}
		}
		return false
	case "opt":
		if emuMatch(ts[1:], x, regexMode, quirks) {
			return true
		}
		for i := 0; i < len(x); i++ {
			if x[i] == '/' && emuMatch(ts[1:], x[i+1:], regexMode, quirks) {
				return true
			}
		}
		return false
	case "*":
		for i := 0; i <= len(x); i++ {
			if emuMatch(ts[1:], x[i:], regexMode, quirks) {
				return true
			}
			if i < len(x) && x[i] == '/' {
				break
			}
		}
		return false
	}
	if x == "" {
		return false
	}
	c := x[0]
	ok := false
	switch {
	case t.sep:
		ok = c == '/'
	case c == '/':
		ok = (t.a.K == "?" && regexMode && quirks&qQmSep != 0) || (t.a.K == "[" && t.a.Neg && quirks&qNegSep != 0 && atomMatches(t.a, c))
	default:
		ok = atomMatches(t.a, c)
	}
	return ok && emuMatch(ts[1:], x[1:], regexMode, quirks)
}

func emuPattern(p pat, pkg string, path string, quirks int) bool {
	return emuMatch(emuTokens(p, pkg, quirks), path, strings.Contains(render(p), "**"), quirks)
}

func emuSelected(q query, tree *node, e ent, quirks int) bool {
	// candidates
	isFile := e.N.Kind == kFile || (q.Syms && e.N.Kind == kSymFile)
	isDirLike := e.N.Kind == kDir || (q.Syms && e.N.Kind == kSymDir)
	if !isFile && !(isDirLike && quirks&qDirs != 0) {
		return false
	}
	cur := tree
	for i, sname := range e.Segs {
		lastSeg := i == len(e.Segs)-1
		if !q.Hidden && nameHidden(sname) && (quirks&qHiddenBase == 0 || lastSeg) {
			return false
		}
		if q.Pkg == "" && sname == "plz-out" && (i == 0 || quirks&qPlzOut != 0) {
			return false
		}
		if quirks&qPlzOut != 0 && q.Pkg == "" {
			// a non-directory named plz-out ends the walk of its directory: later siblings are never seen
			for _, k := range cur.Kids {
				if k.Name == "plz-out" && k.N.Kind != kDir && k.Name < sname {
					return false
				}
			}
		}
		var next *node
		for _, k := range cur.Kids {
			if k.Name == sname {
				next = k.N
			}
		}
		if next != nil && next.Kind == kDir {
			for _, k := range next.Kids {
				if isBuildName(k.Name) {
					return false // the directory is a package of its own (itself included)
				}
			}
		}
		if !lastSeg {
			cur = next
		}
	}
	path := strings.Join(e.Segs, "/")
	inc := false
	for _, p := range q.Inc {
		inc = inc || emuPattern(p, q.Pkg, path, quirks)
	}
	if !inc {
		return false
	}
	for _, x := range q.Exc {
		lit := render(x)
		if path == lit || strings.HasPrefix(path, lit+"/") {
			return false
		}
		if len(x) == 1 {
			if emuPattern(x, "x", e.Segs[len(e.Segs)-1], quirks) {
				return false
			}
		} else if emuPattern(x, q.Pkg, path, quirks) {
			return false
		}
	}
	return true
}

func popcount(x int) int {
	n := 0
	for ; x != 0; x &= x - 1 {
		n++
	}
	return n
}

const regexMeta = "(){}|^$\\"

// unescaped regular-expression metacharacters in a pattern that goes through toRegexString
func hasRegexMeta(p pat) bool {
	if !strings.Contains(render(p), "**") {
		return false
	}
	for _, g := range p {
		for _, a := range g.Atoms {
			if a.K == "l" && strings.IndexByte(regexMeta+"]", a.C) >= 0 {
				return true
			}
			if a.K == "[" {
				for _, it := range a.Items {
					if strings.IndexByte("[]\\^", it[0]) >= 0 || strings.IndexByte("[]\\^", it[1]) >= 0 {
						return true
					}
				}
			}
		}
	}
	return false
}

func classify(q query, tree *node, e ent, got bool) string {
	best, bestN := -1, 99
	for qs := 1; qs <= qAll; qs++ {
		if n := popcount(qs); n < bestN && emuSelected(q, tree, e, qs) == got {
			best, bestN = qs, n
		}
	}
	if best >= 0 {
		for _, qc := range quirkClass {
			if best&qc.bit != 0 {
				return qc.class
			}
		}
	}
	for _, p := range append(append([]pat{}, q.Inc...), q.Exc...) {
		if hasRegexMeta(p) {
			return "regex-metacharacter-unescaped-in-doublestar-pattern"
		}
	}
	return "unexplained-mismatch"
}

// ------------------------------------------------------------------------------------------ running the real code

type result struct {
	Out   []string
	Panic string
}

func runGlob(repo string, q query) (res result) {
	cwd, _ := os.Getwd()
	if err := os.Chdir(repo); err != nil {
		panic(err)
	}
	defer os.Chdir(cwd)
	defer func() {
		if r := recover(); r != nil {
			res = result{Panic: fmt.Sprint(r)}
		}
	}()
	out := fs.NewGlobber(fs.HostFS, buildFileNames).Glob(q.Pkg, renderAll(q.Inc), renderAll(q.Exc), q.Hidden, q.Syms)
	if out == nil {
		out = []string{}
	}
	return result{Out: out}
}

// does the Coq model cover this pattern (Model/C21.v parse_regex)?  Patterns without `**` always are.
func modellable(p pat) bool {
	r := render(p)
	if !strings.Contains(r, "**") {
		return !strings.Contains(r, "\\")
	}
	depth := 0
	for _, g := range p {
		for _, a := range g.Atoms {
			switch a.K {
			case "l":
				switch {
				case a.C == '(':
					depth++
				case a.C == ')':
					depth--
					if depth < 0 {
						return false
					}
				case strings.IndexByte("{}|^$\\]", a.C) >= 0:
					return false
				}
			case "[":
				for _, it := range a.Items {
					if strings.IndexByte("[]\\^-", it[0]) >= 0 || strings.IndexByte("[]\\^-", it[1]) >= 0 || it[0] > it[1] {
						return false
					}
				}
			}
		}
	}
	return depth == 0
}

// ------------------------------------------------------------------------------------------ generators

var plainNames = []string{"a", "b", "ab", "a.txt", "b.txt", "ab.txt", "c.go", "c_test.go", "x", "x.txt", "main.go", "d1", "d2", "src", "lib", "a.b.c", "aXb", "a-b", "z"}
var hiddenNames = []string{".h", ".hid", ".x.txt", "#a#", "#", ".a"}
var halfHidden = []string{"#b", "b#", "a.#"}
var metaNames = []string{"b(1).txt", "a+b.txt", "x{1}.go", "a|b", "^c", "d$", "[e].txt", "a b", "(a)", "a++", "x.y+z", "$a.go", "a^b.txt", "{a}", "a]b", "p|q.txt"}

func genName(r *lib.Rng) string {
	switch x := r.Intn(20); {
	case x < 11:
		return lib.Pick(r, plainNames)
	case x < 14:
		return lib.Pick(r, hiddenNames)
	case x < 15:
		return lib.Pick(r, halfHidden)
	default:
		return lib.Pick(r, metaNames)
	}
}

func genDir(r *lib.Rng, depth int, top bool, pkgIsRepoRoot bool) *node {
	n := &node{Kind: kDir}
	used := map[string]bool{}
	add := func(name string, k *node) {
		if !used[name] {
			used[name] = true
			n.Kids = append(n.Kids, entry{name, k})
		}
	}
	cnt := r.Range(1, 5)
	if top {
		cnt = r.Range(2, 6)
	}
	for i := 0; i < cnt; i++ {
		name := genName(r)
		if depth < 3 && r.Chance(2, 5) {
			add(name, genDir(r, depth+1, false, pkgIsRepoRoot))
		} else {
			add(name, &node{Kind: kFile})
		}
	}
	// a sub-package: its build file is a regular file, or (a third of them) a symbolic link to a sibling / a shared
	// template elsewhere; one in four holds BOTH configured build file names
	if !top && r.Chance(1, 4) {
		mk := func() *node {
			if r.Chance(1, 3) {
				target := "../BUILD.tmpl"
				if len(n.Kids) > 0 && r.Bool() {
					if k := lib.Pick(r, n.Kids); k.N.Kind == kFile {
						target = k.Name
					}
				}
				return &node{Kind: kSymFile, Target: target}
			}
			return &node{Kind: kFile}
		}
		first := lib.Pick(r, buildFileNames)
		add(first, mk())
		if r.Chance(1, 4) {
			for _, other := range buildFileNames {
				add(other, mk())
			}
		}
	}
	// the package's own directory: one build file, or two of different configured names (a leftover / alternative)
	if top && r.Chance(1, 2) {
		add("BUILD", &node{Kind: kFile})
		if r.Chance(1, 3) {
			add("BUILD.plz", &node{Kind: kFile})
		}
	} else if top && r.Chance(1, 6) {
		add("BUILD.plz", &node{Kind: kFile})
	}
	// plz-out: the output tree at the top of the repository; rarely something else of that name
	if top && r.Chance(1, 3) {
		add("plz-out", genDir(r, depth+1, false, pkgIsRepoRoot))
	} else if r.Chance(1, 25) {
		if r.Chance(3, 4) {
			add("plz-out", genDir(r, 3, false, pkgIsRepoRoot))
		} else {
			add("plz-out", &node{Kind: kFile})
		}
	}
	// symlinks to a sibling
	if len(n.Kids) > 0 && r.Chance(1, 6) {
		target := lib.Pick(r, n.Kids)
		k := kSymFile
		if target.N.Kind == kDir {
			k = kSymDir
		}
		if target.N.Kind != kSymFile && target.N.Kind != kSymDir {
			add(lib.Pick(r, []string{"lnk", "lnk.txt", ".lnk", "l(1)"}), &node{Kind: k, Target: target.Name})
		}
	}
	return n
}

func classFor(r *lib.Rng, c byte) atom {
	switch r.Intn(4) {
	case 0:
		return atom{K: "[", Items: [][2]byte{{c, c}, {'q', 'q'}}}
	case 1:
		lo, hi := c, c
		if c > 'a' && c < 'z' || c > '1' && c < '9' || c > 'A' && c < 'Z' {
			lo, hi = c-1, c+1
		}
		return atom{K: "[", Items: [][2]byte{{lo, hi}}}
	case 2:
		return atom{K: "[", Neg: true, Items: [][2]byte{{'q', 'q'}}}
	default:
		return atom{K: "[", Items: [][2]byte{{'a', 'z'}, {'0', '9'}}}
	}
}

// a segment pattern derived from a name: literal, `*`, prefix*/*suffix, `?`/class substitutions
func genSeg(r *lib.Rng, name string) pseg {
	switch x := r.Intn(12); {
	case x < 3:
		return pseg{Atoms: lit(name)}
	case x < 5:
		return pseg{Atoms: []atom{{K: "*"}}}
	case x < 7: // *suffix
		if i := strings.LastIndexByte(name, '.'); i > 0 {
			return pseg{Atoms: append([]atom{{K: "*"}}, lit(name[i:])...)}
		}
		return pseg{Atoms: append([]atom{{K: "*"}}, lit(name[len(name)-1:])...)}
	case x < 8: // prefix*
		k := r.Range(1, len(name))
		return pseg{Atoms: append(lit(name[:k]), atom{K: "*"})}
	case x < 9: // pre*suf
		k := r.Range(0, len(name)-1)
		as := append(lit(name[:k]), atom{K: "*"})
		return pseg{Atoms: append(as, lit(name[min(len(name), k+r.Range(0, 2)):])...)}
	default:
		as := lit(name)
		for j := range as {
			if r.Chance(1, 3) {
				if r.Bool() {
					as[j] = atom{K: "?"}
				} else if as[j].K == "l" && strings.IndexByte("-]\\^", as[j].C) < 0 {
					as[j] = classFor(r, as[j].C)
				}
			}
		}
		if r.Chance(1, 4) {
			as = append(as, atom{K: "*"})
		}
		return pseg{Atoms: as}
	}
}

func genPattern(r *lib.Rng, ents []ent) pat {
	var segs []string
	if len(ents) > 0 && r.Chance(9, 10) {
		segs = lib.Pick(r, ents).Segs
	} else {
		for i, n := 0, r.Range(1, 3); i < n; i++ {
			segs = append(segs, genName(r))
		}
	}
	p := pat{}
	for _, sname := range segs {
		p = append(p, genSeg(r, sname))
	}
	// `**`: replace a run of leading/inner segments, or add one
	switch x := r.Intn(10); {
	case x < 3 && len(p) >= 1: // **/last...
		k := r.Range(0, len(p)-1)
		p = append(pat{{DStar: true}}, p[k:]...)
	case x < 4 && len(p) >= 2: // first/**/last
		p = pat{p[0], {DStar: true}, p[len(p)-1]}
	case x < 5: // prefix/**
		k := r.Range(0, len(p)-1)
		p = append(append(pat{}, p[:k]...), pseg{DStar: true})
	case x < 6 && len(p) >= 2: // insert in the middle
		k := r.Range(1, len(p)-1)
		p = append(append(append(pat{}, p[:k]...), pseg{DStar: true}), p[k:]...)
	}
	return p
}

func genExclude(r *lib.Rng, ents []ent) pat {
	if len(ents) > 0 {
		e := lib.Pick(r, ents)
		switch x := r.Intn(10); {
		case x < 4: // relative: one segment, against the file name
			return pat{genSeg(r, e.Segs[len(e.Segs)-1])}
		case x < 6: // a literal directory / file path
			k := r.Range(1, len(e.Segs))
			p := pat{}
			for _, sname := range e.Segs[:k] {
				p = append(p, pseg{Atoms: lit(sname)})
			}
			return p
		}
	}
	return genPattern(r, ents)
}

func pkgDir(repo, pkg string) string {
	if pkg == "" {
		return repo
	}
	return filepath.Join(repo, pkg)
}

// ------------------------------------------------------------------------------------------ one query

func jsQuery(q query, tree *node, res result) map[string]any {
	return map[string]any{"pkg": q.Pkg, "tree": tree.json(), "include": renderAll(q.Inc), "exclude": renderAll(q.Exc),
		"inc": q.Inc, "exc": q.Exc, "hidden": q.Hidden, "include_symlinks": q.Syms, "returned": res.Out, "panic": res.Panic}
}

// the glob() builtin of the BUILD language (src/parse/asp/builtins.go glob): the same query written as a BUILD file
// `filename` of the package and interpreted in process with Parse.BuildFileName = buildFileNames.  ok = false: the
// patterns cannot be written as plain asp string literals.
func runBuiltin(repo string, q query, filename string) (res result, src string, ok bool) {
	inc, ok1 := aspList(renderAll(q.Inc))
	exc, ok2 := aspList(renderAll(q.Exc))
	if !ok1 || !ok2 {
		return result{}, "", false
	}
	src = fmt.Sprintf("g0 = glob(include = %s, exclude = %s, hidden = %s, include_symlinks = %s, allow_empty = True)\n", inc, exc, pyBool(q.Hidden), pyBool(q.Syms))
	cwd, _ := os.Getwd()
	if err := os.Chdir(repo); err != nil {
		panic(err)
	}
	defer os.Chdir(cwd)
	lists, errText := asp.VerifC21Glob(buildFileNames, q.Pkg, filename, src)
	if errText != "" {
		return result{Panic: errText}, src, true
	}
	out := lists["g0"]
	if out == nil {
		out = []string{}
	}
	return result{Out: out}, src, true
}

func bfnPats() []pat {
	out := []pat{}
	for _, b := range buildFileNames {
		out = append(out, pat{{Atoms: lit(b)}})
	}
	return out
}

// the first directory on the way to e (e itself included when it is a directory) that holds an entry named like a
// build file; nonRegular: every such entry of it is a symbolic link or a directory
func firstSubpackage(tree *node, e ent) (found, nonRegular bool) {
	cur := tree
	for _, sname := range e.Segs {
		var next *node
		for _, k := range cur.Kids {
			if k.Name == sname {
				next = k.N
			}
		}
		if next == nil || next.Kind != kDir {
			return false, false
		}
		has, reg := false, false
		for _, k := range next.Kids {
			if isBuildName(k.Name) {
				has = true
				reg = reg || k.N.Kind == kFile
			}
		}
		if has {
			return true, !reg
		}
		cur = next
	}
	return false, false
}

func runQuery(c *lib.Ctx, repo string, tree *node, ents []ent, q query, toModel bool) {
	runQueryB(c, repo, tree, ents, q, toModel, "")
}

// builtinFile != "": the query goes through the glob() builtin as the BUILD file of that name (which appends the
// configured build file names to the excludes); otherwise straight to fs.Globber.Glob
func runQueryB(c *lib.Ctx, repo string, tree *node, ents []ent, q query, toModel bool, builtinFile string) {
	var res result
	var buildSrc string
	if builtinFile != "" {
		var ok bool
		if res, buildSrc, ok = runBuiltin(repo, q, builtinFile); !ok {
			return
		}
		c.Hist("builtin_two_build_file_names_in_package_dir", lib.Bool(tree.hasKid("BUILD") && tree.hasKid("BUILD.plz")))
	} else {
		res = runGlob(repo, q)
	}
	called := q // what was asked
	if builtinFile != "" {
		// what the documented semantics select: build files are never sources
		q.Exc = append(append([]pat{}, q.Exc...), bfnPats()...)
	}
	js := jsQuery(called, tree, res)
	if builtinFile != "" {
		js["builtin"], js["build_file_name"], js["build_file"] = true, builtinFile, buildSrc
	}
	key := fmt.Sprint(tree.json(), q.Pkg, renderAll(q.Inc), renderAll(q.Exc), q.Hidden, q.Syms, builtinFile)
	if builtinFile != "" {
		// the builtin = the Globber with the configured build file names appended to the excludes, list for list
		c.Oracle()
		if pres := runGlob(repo, q); !sameResult(res, pres) {
			c.Fail("glob-builtin-differs-from-globber-with-build-file-names-excluded", fmt.Sprintf("BUILD file %q: glob(%q, exclude=%q, hidden=%v) returned %q (error %q); fs.Globber.Glob with exclude + %q returns %q (panic %q)",
				builtinFile, renderAll(called.Inc), renderAll(called.Exc), q.Hidden, res.Out, res.Panic, buildFileNames, pres.Out, pres.Panic), js)
		}
	}
	hasDStar := false
	for _, p := range append(append([]pat{}, q.Inc...), q.Exc...) {
		hasDStar = hasDStar || strings.Contains(render(p), "**")
	}
	nontrivial := len(res.Out) > 0 && len(ents) >= 3
	c.Hist("doublestar", lib.Bool(hasDStar))
	c.Hist("excludes", fmt.Sprint(len(q.Exc)))
	c.Hist("returned", bucket(len(res.Out)))
	if q.Pkg == "" {
		c.Hist("package", "root")
	} else {
		c.Hist("package", "nested")
	}

	// ---- oracle: compare with the reference on every entry of the tree (and on what was returned)
	c.Oracle()
	anyMeta := false
	for _, p := range append(append([]pat{}, q.Inc...), q.Exc...) {
		anyMeta = anyMeta || hasRegexMeta(p)
	}
	if res.Panic != "" {
		cls := "glob-panicked"
		if anyMeta && strings.Contains(res.Panic, "error parsing regexp") {
			cls = "regex-metacharacter-unescaped-in-doublestar-pattern"
		}
		c.Fail(cls, "glob panicked on a well-formed pattern: "+res.Panic, js)
		c.Eval(js, key, false)
		return
	}
	got := map[string]int{}
	for _, f := range res.Out {
		got[f]++
	}
	known := map[string]bool{}
	for _, e := range ents {
		path := strings.Join(e.Segs, "/")
		known[path] = true
		want := refSelected(q, tree, e)
		have := got[path] > 0
		if want != have {
			cls := classify(q, tree, e, have)
			if want && !have && q.Pkg != "" && isBuildName(filepath.Base(q.Pkg)) {
				// walkDir calls isBuildFile on the package directory itself and returns SkipDir from the root
				cls = "package-directory-named-like-build-file"
			}
			if !want && have && cls == "unexplained-mismatch" {
				if found, nonReg := firstSubpackage(tree, e); found && nonReg {
					// the directory is a package (fs.IsPackage follows links), but the walk did not treat it as one
					cls = "entry-of-subpackage-with-non-regular-build-file-returned"
				} else if builtinFile != "" && isBuildName(e.Segs[len(e.Segs)-1]) {
					cls = "build-file-returned-by-glob-builtin"
				}
			}
			via := ""
			if builtinFile != "" {
				via = fmt.Sprintf("BUILD file %q (build file names %q are never sources): ", builtinFile, buildFileNames)
			}
			what := fmt.Sprintf("%sglob(%q, exclude=%q, hidden=%v) in package %q returned %q, which the documented semantics do not select", via, renderAll(called.Inc), renderAll(called.Exc), q.Hidden, q.Pkg, path)
			if want {
				what = fmt.Sprintf("%sglob(%q, exclude=%q, hidden=%v) in package %q did not return %q, which the documented semantics select", via, renderAll(called.Inc), renderAll(called.Exc), q.Hidden, q.Pkg, path)
			}
			c.Fail(cls, what, js)
		}
	}
	for f := range got {
		if !known[f] {
			if f == "." && q.Pkg == "" {
				c.Fail("directory-returned", fmt.Sprintf("glob(%q, hidden=%v) in the root package returned \".\", the package directory itself", renderAll(q.Inc), q.Hidden), js)
			} else if anyMeta {
				c.Fail("regex-metacharacter-unescaped-in-doublestar-pattern", fmt.Sprintf("glob(%q) in package %q returned %q, which is not an entry of the package", renderAll(q.Inc), q.Pkg, f), js)
			} else {
				c.Fail("returned-path-not-in-package", fmt.Sprintf("glob returned %q, which is not an entry of the package", f), js)
			}
		}
	}

	// ---- the builtin's own promise, directly: nothing named like a configured build file is ever a source
	if builtinFile != "" {
		c.Oracle()
		for f := range got {
			if isBuildName(filepath.Base(f)) && known[f] {
				if found, nonReg := firstSubpackage(tree, ent{Segs: strings.Split(f, "/")}); found && nonReg {
					continue // reported above under its own class
				}
				c.Fail("build-file-returned-by-glob-builtin", fmt.Sprintf("BUILD file %q: glob(%q, exclude=%q) returned %q, a file named like a configured build file (%q)",
					builtinFile, renderAll(called.Inc), renderAll(called.Exc), f, buildFileNames), js)
			}
		}
	}

	// ---- model side
	ok := toModel
	for _, p := range append(append([]pat{}, q.Inc...), q.Exc...) {
		ok = ok && modellable(p)
	}
	if ok && builtinFile != "" {
		c.Case(lib.App("CBuiltin", lib.StrList(buildFileNames), lib.Str(q.Pkg), tree.coq(), coqPats(called.Inc), coqPats(called.Exc),
			lib.Bool(q.Hidden), lib.Bool(q.Syms), lib.StrList(res.Out)), js, key, nontrivial)
	} else if ok {
		c.Case(lib.App("CGlobS", lib.StrList(buildFileNames), lib.Str(q.Pkg), tree.coq(), coqPats(q.Inc), coqPats(q.Exc),
			lib.Bool(q.Hidden), lib.Bool(q.Syms), lib.StrList(res.Out)), js, key, nontrivial)
	} else {
		c.Eval(js, key, nontrivial)
	}
}

// ------------------------------------------------------------------------------------------ histories on one Globber
// A Globber is persisted over the glob() calls of one BUILD file; its walkedDirs cache is state.  A history of calls
// on ONE Globber over one repository tree must return, call by call, what a fresh Globber returns (oracle), and what
// the model's state machine returns, with the same final cache (tie).

type call struct {
	Pkg    string `json:"pkg"`
	Inc    []pat  `json:"inc"`
	Exc    []pat  `json:"exc"`
	Hidden bool   `json:"hidden"`
	Syms   bool   `json:"include_symlinks"`
}

func safeGlob(g *fs.Globber, cl call, extraExc []string) (res result) {
	defer func() {
		if r := recover(); r != nil {
			res = result{Panic: fmt.Sprint(r)}
		}
	}()
	out := g.Glob(cl.Pkg, renderAll(cl.Inc), append(renderAll(cl.Exc), extraExc...), cl.Hidden, cl.Syms)
	if out == nil {
		out = []string{}
	}
	return result{Out: out}
}

func sameResult(a, b result) bool {
	if (a.Panic != "") != (b.Panic != "") {
		return false
	}
	return a.Panic != "" || fmt.Sprintf("%q", a.Out) == fmt.Sprintf("%q", b.Out)
}

func sameWalked(a, b fs.VerifC21Walked) bool {
	return a.Root == b.Root && fmt.Sprintf("%q", a.FileNames) == fmt.Sprintf("%q", b.FileNames) &&
		fmt.Sprintf("%q", a.Symlinks) == fmt.Sprintf("%q", b.Symlinks) && fmt.Sprintf("%q", a.SubPackages) == fmt.Sprintf("%q", b.SubPackages)
}

func coqResult(r result) string {
	if r.Panic != "" {
		return "None"
	}
	return lib.Some(lib.StrList(r.Out))
}

func describeCall(cl call) string {
	return fmt.Sprintf("glob(%q, exclude=%q, hidden=%v, include_symlinks=%v) in package %q", renderAll(cl.Inc), renderAll(cl.Exc), cl.Hidden, cl.Syms, cl.Pkg)
}

func jsCalls(calls []call, outs, fresh []result) []map[string]any {
	js := []map[string]any{}
	for i, cl := range calls {
		m := map[string]any{"pkg": cl.Pkg, "inc": cl.Inc, "exc": cl.Exc, "include": renderAll(cl.Inc), "exclude": renderAll(cl.Exc),
			"hidden": cl.Hidden, "include_symlinks": cl.Syms}
		if outs != nil {
			m["returned"], m["panic"] = outs[i].Out, outs[i].Panic
			m["fresh_globber_returned"], m["fresh_globber_panic"] = fresh[i].Out, fresh[i].Panic
		}
		js = append(js, m)
	}
	return js
}

// asp source of one glob() call; ok = false when a pattern cannot be written as a plain asp string literal
func aspList(xs []string) (string, bool) {
	items := []string{}
	for _, x := range xs {
		if strings.ContainsAny(x, "\"\\\n") {
			return "", false
		}
		items = append(items, `"`+x+`"`)
	}
	return "[" + strings.Join(items, ", ") + "]", true
}

func pyBool(b bool) string {
	if b {
		return "True"
	}
	return "False"
}

// runSequence: `calls` on one Globber over `tree` (materialised as the repository root).  With e2e, all calls must be
// in one package: the same history is also run through the real asp interpreter (one BUILD file with one glob() per
// call, parsed and interpreted in process; the builtin keeps one Globber per BUILD file scope).
func runSequence(c *lib.Ctx, tree *node, calls []call, e2e bool, toModel bool) {
	withTree(c, "", tree, func(repo string, _ []ent) {
		cwd, _ := os.Getwd()
		if err := os.Chdir(repo); err != nil {
			panic(err)
		}
		defer os.Chdir(cwd)
		g := fs.NewGlobber(fs.HostFS, buildFileNames)
		outs, fresh := make([]result, len(calls)), make([]result, len(calls))
		for i, cl := range calls {
			outs[i] = safeGlob(g, cl, nil)
			fresh[i] = safeGlob(fs.NewGlobber(fs.HostFS, buildFileNames), cl, nil)
		}
		cache := fs.VerifC21Cache(g)
		js := map[string]any{"sequence": true, "tree": tree.json(), "calls": jsCalls(calls, outs, fresh), "cache": cache, "e2e": e2e}
		key := "seq" + fmt.Sprint(tree.json(), e2e)
		roots := map[string]int{}
		flip, anyOut, panicked := false, false, false
		seenPlain := map[string]bool{}
		for i, cl := range calls {
			key += fmt.Sprint("|", cl.Pkg, renderAll(cl.Inc), renderAll(cl.Exc), cl.Hidden, cl.Syms)
			roots[cl.Pkg]++
			if cl.Hidden && seenPlain[cl.Pkg] {
				flip = true
			}
			if !cl.Hidden {
				seenPlain[cl.Pkg] = true
			}
			anyOut = anyOut || len(outs[i].Out) > 0
			panicked = panicked || outs[i].Panic != "" || fresh[i].Panic != ""
		}
		repeated := false
		for _, n := range roots {
			repeated = repeated || n >= 2
		}
		nontrivial := repeated && anyOut
		c.Hist("seq_calls", fmt.Sprint(len(calls)))
		c.Hist("seq_roots", fmt.Sprint(len(roots)))
		c.Hist("seq_hidden_false_then_true_same_root", lib.Bool(flip))
		c.Hist("seq_cached_roots", fmt.Sprint(len(cache)))

		// ---- oracle 1: cache transparency, call by call (exact list, or both panic)
		for i, cl := range calls {
			c.Oracle()
			if !sameResult(outs[i], fresh[i]) {
				c.Fail("globber-cache-changes-result", fmt.Sprintf("call %d of %d on one Globber: %s returned %q (panic %q), a fresh Globber returns %q (panic %q)",
					i+1, len(calls), describeCall(cl), outs[i].Out, outs[i].Panic, fresh[i].Out, fresh[i].Panic), js)
			}
		}
		// ---- oracle 2: every cached entry is what a walk of that root by a fresh Globber collects, whatever the flags
		//      of the call that filled it; and only roots of the history are cached
		for _, w := range cache {
			c.Oracle()
			pkg := w.Root
			if pkg == "." {
				pkg = ""
			}
			for _, flags := range [][2]bool{{true, false}, {false, true}} {
				fg := fs.NewGlobber(fs.HostFS, buildFileNames)
				safeGlob(fg, call{Pkg: pkg, Inc: []pat{{segOf([]atom{star()})}}, Hidden: flags[0], Syms: flags[1]}, nil)
				fc := fs.VerifC21Cache(fg)
				if len(fc) != 1 || !sameWalked(fc[0], w) {
					c.Fail("globber-cache-entry-differs-from-fresh-walk", fmt.Sprintf("after the history the Globber's cache for root %q holds files %q symlinks %q subpackages %q; a fresh walk of that root (by a glob with hidden=%v, include_symlinks=%v) collects %+v",
						w.Root, w.FileNames, w.Symlinks, w.SubPackages, flags[0], flags[1], fc), js)
					break
				}
			}
			if _, ok := roots[pkg]; !ok {
				c.Fail("globber-cache-key-not-a-root-of-the-history", fmt.Sprintf("the cache holds root %q, which no call named", w.Root), js)
			}
		}

		// ---- end to end: the same history as one BUILD file through the asp interpreter.  The in-process parser state
		//      (core.NewDefaultBuildState, no .plzconfig read) has NO build file names, so the builtin's Globber is
		//      NewGlobber(HostFS, nil) and nothing is appended to the excludes: the expected results are those of a fresh
		//      Globber configured the same way.
		if e2e {
			pkg := calls[0].Pkg
			var e2eBfn []string
			var src, srcSafe strings.Builder
			ok := true
			want := make([]result, len(calls))
			pg := fs.NewGlobber(fs.HostFS, e2eBfn)
			for i, cl := range calls {
				inc, ok1 := aspList(renderAll(cl.Inc))
				exc, ok2 := aspList(renderAll(cl.Exc))
				want[i] = safeGlob(fs.NewGlobber(fs.HostFS, e2eBfn), cl, nil)
				persisted := safeGlob(pg, cl, nil)
				ok = ok && ok1 && ok2 && cl.Pkg == pkg && want[i].Panic == "" && persisted.Panic == "" && len(cl.Inc) > 0
				// allow_empty=False only where the result on a Globber with this very history is non-empty (an empty
				// result is a fatal error of the whole process, not a recoverable one)
				allowEmpty := !(len(want[i].Out) > 0 && len(persisted.Out) > 0 && i%2 == 1)
				fmt.Fprintf(&src, "g%d = glob(include = %s, exclude = %s, hidden = %s, include_symlinks = %s, allow_empty = %s)\n",
					i, inc, exc, pyBool(cl.Hidden), pyBool(cl.Syms), pyBool(allowEmpty))
				fmt.Fprintf(&srcSafe, "g%d = glob(include = %s, exclude = %s, hidden = %s, include_symlinks = %s, allow_empty = True)\n",
					i, inc, exc, pyBool(cl.Hidden), pyBool(cl.Syms))
			}
			srcText := src.String()
			if ok {
				// dry run with allow_empty=True everywhere: an unexpectedly empty result must become a reported failing input,
				// not a fatal exit of the harness; only when every result is the expected one is the file with
				// allow_empty=False run
				res, err := asp.VerifC16Eval([]asp.VerifC16File{{Name: pkg, Src: srcSafe.String()}}, false)
				if err == nil && len(res) == 1 && res[0].Err == "" {
					var raw map[string]json.RawMessage
					if json.Unmarshal(res[0].After, &raw) == nil {
						for i := range calls {
							var l []any
							got := []string{}
							if json.Unmarshal(raw[fmt.Sprintf("g%d", i)], &l) == nil && len(l) >= 2 {
								for _, x := range l[2:] {
									got = append(got, fmt.Sprint(x))
								}
							}
							if fmt.Sprintf("%q", got) != fmt.Sprintf("%q", want[i].Out) {
								srcText = srcSafe.String()
							}
						}
					}
				}
			}
			if ok {
				js["build_file"] = srcText
				c.Oracle()
				res, err := asp.VerifC16Eval([]asp.VerifC16File{{Name: pkg, Src: srcText}}, false)
				c.Hist("seq_as_build_file_through_asp", "run")
				if err != nil || len(res) != 1 || res[0].Err != "" {
					msg := fmt.Sprint(err)
					if err == nil && len(res) == 1 {
						msg = res[0].Err
					}
					c.Fail("glob-builtin-failed", "a BUILD file of glob() calls failed in the asp interpreter: "+msg, js)
				} else {
					var raw map[string]json.RawMessage
					if err := json.Unmarshal(res[0].After, &raw); err != nil {
						panic(err)
					}
					for i, cl := range calls {
						var l []any
						got := []string{}
						if json.Unmarshal(raw[fmt.Sprintf("g%d", i)], &l) == nil && len(l) >= 2 {
							for _, x := range l[2:] {
								got = append(got, fmt.Sprint(x))
							}
						}
						if fmt.Sprintf("%q", got) != fmt.Sprintf("%q", want[i].Out) {
							c.Fail("globber-cache-changes-result", fmt.Sprintf("BUILD file of package %q, glob() call %d of %d: %s returned %q through the asp builtin (one Globber per BUILD file), a fresh Globber returns %q",
								pkg, i+1, len(calls), describeCall(cl), got, want[i].Out), js)
						}
					}
				}
			}
		}

		// ---- model side: the state machine of Model/C21.v (results and final cache)
		ok := toModel
		for _, cl := range calls {
			// the root is joined into every pattern: the model covers roots without glob / regexp metacharacters
			ok = ok && !strings.ContainsAny(cl.Pkg, "(){}|^$\\[]*?")
			for _, p := range append(append([]pat{}, cl.Inc...), cl.Exc...) {
				ok = ok && modellable(p)
			}
		}
		if ok {
			cs, rs, fin := []string{}, []string{}, []string{}
			for i, cl := range calls {
				cs = append(cs, lib.App("Call", lib.Str(cl.Pkg), lib.StrList(renderAll(cl.Inc)), lib.StrList(renderAll(cl.Exc)), lib.Bool(cl.Hidden), lib.Bool(cl.Syms)))
				rs = append(rs, coqResult(outs[i]))
			}
			for _, w := range cache {
				fin = append(fin, lib.Pair(lib.Str(w.Root), lib.App("Walked", lib.StrList(w.FileNames), lib.StrList(w.Symlinks), lib.StrList(w.SubPackages))))
			}
			c.Case(lib.App("CSeq", lib.StrList(buildFileNames), tree.coq(), lib.List(cs), lib.List(rs), lib.List(fin)), js, key, nontrivial)
		} else {
			c.Eval(js, key, nontrivial)
		}
		_ = panicked
	})
}

// every directory of the tree (as a package path), the repository root first
func (n *node) dirs(prefix string, out *[]string) {
	for _, k := range n.Kids {
		if k.N.Kind == kDir {
			p := k.Name
			if prefix != "" {
				p = prefix + "/" + k.Name
			}
			*out = append(*out, p)
			k.N.dirs(p, out)
		}
	}
}

func (n *node) at(pkg string) *node {
	cur := n
	if pkg == "" {
		return cur
	}
	for _, seg := range strings.Split(pkg, "/") {
		var next *node
		for _, k := range cur.Kids {
			if k.Name == seg {
				next = k.N
			}
		}
		cur = next
	}
	return cur
}

var broadPatterns = []pat{{dstar}, {segOf([]atom{star()})}, {dstar, segOf([]atom{star()})}, {segOf([]atom{star()}), dstar},
	{segOf([]atom{star()}), segOf([]atom{star()})}, {dstar, segOf([]atom{star()}, lit(".txt"))}, {segOf([]atom{{K: "?"}}, []atom{star()})}}

// a history of 2-5 calls over 1-3 roots of the tree; hidden entries are planted so that the hidden flag matters
func genSequence(r *lib.Rng, oneRoot bool) (*node, []call) {
	tree := genDir(r, 0, true, true)
	plant := func(n *node) {
		name := lib.Pick(r, []string{".hid.txt", "#x#", ".a", ".x.txt"})
		for _, k := range n.Kids {
			if k.Name == name {
				return
			}
		}
		n.Kids = append(n.Kids, entry{name, &node{Kind: kFile}})
	}
	var ds []string
	tree.dirs("", &ds)
	if r.Chance(3, 4) {
		plant(tree)
	}
	if len(ds) > 0 && r.Chance(3, 4) {
		plant(tree.at(lib.Pick(r, ds)))
	}
	tree.sortKids()
	roots := []string{""}
	if len(ds) > 0 && r.Chance(1, 3) {
		roots[0] = lib.Pick(r, ds)
	}
	for i, n := 0, r.Intn(4); i < n && len(ds) > 0 && !oneRoot; i++ {
		roots = append(roots, lib.Pick(r, ds))
	}
	ncalls := r.Range(2, 5)
	calls := []call{}
	var prev *call
	for i := 0; i < ncalls; i++ {
		pkg := roots[0]
		if r.Chance(1, 2) {
			pkg = lib.Pick(r, roots)
		}
		var ents []ent
		tree.at(pkg).all(nil, &ents)
		cl := call{Pkg: pkg, Hidden: r.Bool(), Syms: r.Bool()}
		switch {
		case prev != nil && r.Chance(1, 3):
			// the same query again on the same root, with the flags changed: only the cache is between the two
			cl = call{Pkg: prev.Pkg, Inc: prev.Inc, Exc: prev.Exc, Hidden: !prev.Hidden, Syms: prev.Syms != r.Chance(1, 3)}
		default:
			for k, n := 0, r.Range(1, 2); k < n; k++ {
				if r.Chance(1, 3) {
					cl.Inc = append(cl.Inc, lib.Pick(r, broadPatterns))
				} else {
					cl.Inc = append(cl.Inc, genPattern(r, ents))
				}
			}
			if r.Chance(1, 12) {
				cl.Inc = nil // no include at all: nothing is walked, nothing cached
			}
			for k, n := 0, r.Intn(3); k < n; k++ {
				cl.Exc = append(cl.Exc, genExclude(r, ents))
			}
		}
		calls = append(calls, cl)
		prev = &calls[len(calls)-1]
	}
	return tree, calls
}

func bucket(n int) string {
	switch {
	case n == 0:
		return "0"
	case n <= 2:
		return "1-2"
	case n <= 5:
		return "3-5"
	}
	return "6+"
}

func withTree(c *lib.Ctx, pkg string, tree *node, f func(repo string, ents []ent)) {
	tree.sortKids()
	repo, err := os.MkdirTemp(c.Out, "tree")
	if err != nil {
		panic(err)
	}
	defer os.RemoveAll(repo)
	tree.materialise(pkgDir(repo, pkg))
	var ents []ent
	tree.all(nil, &ents)
	f(repo, ents)
}

func symlink(name, target string) entry { return entry{name, &node{Kind: kSymFile, Target: target}} }

// make sure the directory holds a regular file of that name
func (n *node) setFile(name string) {
	for i, k := range n.Kids {
		if k.Name == name {
			n.Kids[i].N = &node{Kind: kFile}
			return
		}
	}
	n.Kids = append(n.Kids, entry{name, &node{Kind: kFile}})
}

func dir(kids ...entry) *node { return &node{Kind: kDir, Kids: kids} }
func file(name string) entry { return entry{name, &node{Kind: kFile}} }
func sub(name string, kids ...entry) entry {
	return entry{name, dir(kids...)}
}
func star() atom { return atom{K: "*"} }
func segOf(as ...[]atom) pseg {
	out := []atom{}
	for _, a := range as {
		out = append(out, a...)
	}
	return pseg{Atoms: out}
}

var dstar = pseg{DStar: true}

func main() {
	lib.Main("C21", func(c *lib.Ctx) {
		c.Model("From PlzV Require Import Model.C21.", "C21.case", "C21.check")
		c.Rule("directory trees generated on disk (depth <= 4; plain, hidden, half-hidden and regex-metacharacter names; sub-packages = directories holding BUILD/BUILD.plz; plz-out; symlinks) " +
			"as the root package or a nested package, x queries (1-3 include and 0-2 exclude patterns derived from paths of the tree by generalising segments to *, prefix*, *suffix, ?, [class], and runs of segments to **; hidden and include_symlinks flags) " +
			"through the real fs.Globber.Glob on fs.HostFS; every entry of the tree is compared with an independent segment-wise reference matcher; " +
			"queries whose patterns the model covers are also compared with the Coq model (exact returned list); plus fs.Match on pattern x path pairs and toRegexString on generated strings; " +
			"plus histories of 2-5 Glob calls on ONE Globber over 1-3 roots of one tree (hidden entries planted; a third repeat the previous query with the hidden flag flipped), compared call by call with a fresh Globber (cache transparency), " +
			"cache entry by cache entry with a fresh walk, with the model's state machine (results and final walkedDirs through the hook), and for one-package histories with the same calls written as a BUILD file and run through the asp interpreter. " +
			"Unusual build file entries are generated throughout: a quarter of the sub-directories are sub-packages, a third of their build files are symbolic links (to a sibling or a template outside), a quarter hold both configured names; the package directory holds BUILD, BUILD.plz or both. " +
			"plus generated queries written as a BUILD file and run through the real asp glob() builtin in process with Parse.BuildFileName = [BUILD, BUILD.plz] (hook asp.VerifC21Glob; package parsed from the first configured name present; half of the package directories hold both names), " +
			"compared with the reference in which build file names are never sources, with fs.Globber.Glob given the excludes plus the build file names (exact list), and with the model's glob_builtin. " +
			"distinct = distinct (tree, query); non-trivial = tree with >= 3 entries and a non-empty result")

		var rq struct {
			Pkg     string         `json:"pkg"`
			Tree    map[string]any `json:"tree"`
			Inc     []pat          `json:"inc"`
			Exc     []pat          `json:"exc"`
			Hidden  bool           `json:"hidden"`
			Symlink bool           `json:"include_symlinks"`
			Calls   []call         `json:"calls"`
			E2E     bool           `json:"e2e"`
			Builtin bool           `json:"builtin"`
			BFile   string         `json:"build_file_name"`
		}
		if c.ReadReplay(&rq) && rq.Tree != nil {
			tree := nodeFromJSON(rq.Tree)
			tree.fixSymKinds()
			if len(rq.Calls) > 0 {
				runSequence(c, tree, rq.Calls, rq.E2E, true)
				return
			}
			withTree(c, rq.Pkg, tree, func(repo string, ents []ent) {
				bf := ""
				if rq.Builtin {
					bf = rq.BFile
				}
				runQueryB(c, repo, tree, ents, query{rq.Pkg, rq.Inc, rq.Exc, rq.Hidden, rq.Symlink}, true, bf)
			})
			return
		}

		// ---- 1. the witnesses of the known findings (the trees of Proof/C21.v witness_*), in the root package and in
		//         a nested one, with neighbouring queries that must agree with the reference
		txt := lit(".txt")
		anyTxt := segOf([]atom{star()}, txt)
		qm := atom{K: "?"}
		negQ := atom{K: "[", Neg: true, Items: [][2]byte{{'q', 'q'}}}
		w1 := dir(sub(".hid", file("x.txt")), file("a.txt"))
		w2 := dir(sub("d1", file("b(1).txt"), file("b1.txt")))
		w3 := dir(sub("d1", file("a.txt")), file("x.txt"))
		w5 := dir(sub("d", file("c.txt")), file("dxc.txt"))
		w7 := dir(sub("d", sub("plz-out", file("a.txt"))), sub("plz-out", file("g.txt")))
		w8 := dir(file("BUILD"), sub("d1", file("a.txt"), sub("d2", file("c.txt"))), sub("sub", file("BUILD"), file("s.txt")), sub("lib", file("a_test.go"), file("a.go")))
		type fixedCase struct {
			tree *node
			inc  []pat
			exc  []pat
			hid  bool
		}
		for _, fc := range []fixedCase{
			{w1, []pat{{dstar, anyTxt}}, nil, false},
			{w1, []pat{{dstar, anyTxt}}, nil, true},
			{w1, []pat{{segOf(lit(".hid")), anyTxt}}, nil, false},
			{w2, []pat{{dstar, segOf(lit("b(1).txt"))}}, nil, false},
			{w2, []pat{{segOf(lit("d1")), segOf(lit("b(1).txt"))}}, nil, false},
			{w3, []pat{{segOf([]atom{star()})}}, nil, false},
			{w3, []pat{{dstar}}, nil, true},
			{w3, []pat{{dstar, anyTxt}}, nil, false},
			{w3, []pat{{anyTxt}, {segOf([]atom{star()}), anyTxt}}, nil, false},
			{w5, []pat{{dstar, segOf(lit("d"), []atom{qm}, lit("c.txt"))}}, nil, false},
			{w5, []pat{{segOf(lit("d"), []atom{qm}, lit("c.txt"))}}, nil, false},
			{w5, []pat{{segOf(lit("d"), []atom{negQ}, lit("c.txt"))}}, nil, false},
			{w7, []pat{{segOf([]atom{star()}), dstar}}, nil, false},
			{w8, []pat{{dstar, anyTxt}, {segOf(lit("lib")), dstar}}, []pat{{segOf([]atom{star()}, lit("_test.go"))}, {segOf(lit("d1")), segOf(lit("d2"))}}, false},
			{w8, []pat{{segOf(lit("d1")), dstar, segOf(lit("c.txt"))}, {segOf(lit("sub")), dstar}}, []pat{{segOf(lit("BUILD"))}}, false},
		} {
			for _, pkg := range []string{"", "p"} {
				withTree(c, pkg, fc.tree, func(repo string, ents []ent) {
					runQuery(c, repo, fc.tree, ents, query{pkg, fc.inc, fc.exc, fc.hid, false}, true)
				})
			}
		}

		// ---- 1b. the non-vacuity witnesses of the tree-level theorem (Proof/C21_tree.v t8_tree, t9_tree: inputs outside
		//          every defect class in the root package resp. a nested one) and the package named like a BUILD file
		goPat := segOf([]atom{star()}, lit(".go"))
		t8 := dir(file("BUILD"), sub("d1", file("a.txt"), sub("d2", file("c.txt"))), sub("lib", file(".hid.go"), file("a.go"), file("a_test.go")),
			sub("plz-out", file("g.txt")), sub("sub", file("BUILD"), file("s.txt")))
		t9 := dir(file("a"), file("a.txt"), sub("ab", file("a"), file("ab"), file("x.txt")), file("b+"))
		t8exc := []pat{{segOf([]atom{star()}, lit("_test.go"))}, {segOf(lit("d1")), segOf(lit("d2"))}}
		for _, fc := range []struct {
			pkg  string
			tree *node
			inc  []pat
			exc  []pat
		}{
			{"", t8, []pat{{segOf(lit("d1")), dstar, anyTxt}, {segOf(lit("lib")), goPat}}, t8exc},
			{"third_party/go", t8, []pat{{dstar, anyTxt}}, t8exc},
			{"", t9, []pat{{segOf(lit("a."), []atom{star()})}, {segOf(lit("ab")), segOf([]atom{star()})}}, []pat{{segOf(lit("a"))}}},
			{"pkg", t9, []pat{{dstar, anyTxt}, {segOf(lit("b+"))}}, []pat{{segOf(lit("a"))}}},
			{"a/BUILD", dir(file("BUILD.plz"), sub("d", file("y.txt")), file("x.txt")), []pat{{dstar, anyTxt}}, nil},
			{"BUILD.plz", dir(file("BUILD"), file("x.txt")), []pat{{anyTxt}}, nil},
		} {
			withTree(c, fc.pkg, fc.tree, func(repo string, ents []ent) {
				runQuery(c, repo, fc.tree, ents, query{fc.pkg, fc.inc, fc.exc, false, false}, true)
			})
		}

		// ---- 1c. unusual trees: a sub-directory whose build file is a symbolic link (to a shared template) is a package
		//          of its own like any other; a package directory holding two configured build file names
		symBuild := dir(file("a.txt"), sub("plain", file("p.txt")), sub("sub", symlink("BUILD", "../../tmpl/BUILD.tmpl"), sub("deep", file("d.txt")), file("s.txt")),
			sub("sub2", symlink("BUILD.plz", "s2.txt"), file("s2.txt")))
		for _, pkg := range []string{"", "pkg"} {
			for _, inc := range [][]pat{{{dstar, anyTxt}}, {{segOf(lit("sub")), segOf([]atom{star()})}, {segOf([]atom{star()}), anyTxt}}, {{dstar}}} {
				for _, syms := range []bool{false, true} {
					withTree(c, pkg, symBuild, func(repo string, ents []ent) {
						runQuery(c, repo, symBuild, ents, query{pkg, inc, nil, false, syms}, true)
					})
				}
			}
		}
		twoNames := dir(file("BUILD"), file("BUILD.plz"), file("a.txt"), sub("dir", file("x.txt")), sub("sub", file("BUILD.plz"), file("s.txt")))
		for _, pkg := range []string{"", "pkg"} {
			for _, parsedFrom := range buildFileNames {
				for _, qq := range []query{
					{pkg, []pat{{segOf([]atom{star()})}}, nil, false, false},
					{pkg, []pat{{dstar}}, []pat{{segOf(lit("dir"))}}, false, false},
					{pkg, []pat{{segOf(lit("BUILD"), []atom{star()})}, {anyTxt}}, nil, true, true},
				} {
					withTree(c, pkg, twoNames, func(repo string, ents []ent) {
						runQueryB(c, repo, twoNames, ents, qq, true, filepath.Join(pkg, parsedFrom))
					})
				}
			}
		}

		// ---- 2. generated trees x generated queries
		ntrees := c.Scale(60, 1500)
		perTree := c.Scale(8, 12)
		modelPerTree := c.Scale(3, 4)
		for i := 0; i < ntrees; i++ {
			r := c.Rng.Fork()
			pkg := ""
			if r.Chance(1, 2) {
				pkg = lib.Pick(r, []string{"pkg", "a/pkg", "third_party/go", "p+q"})
			}
			tree := genDir(r, 0, true, pkg == "")
			files, dirs := tree.count()
			c.Hist("tree_files", bucket(files))
			c.Hist("tree_dirs", bucket(dirs))
			withTree(c, pkg, tree, func(repo string, ents []ent) {
				for j := 0; j < perTree; j++ {
					q := query{Pkg: pkg, Hidden: r.Chance(1, 4), Syms: r.Chance(1, 2)}
					for k, n := 0, r.Range(1, 3); k < n; k++ {
						q.Inc = append(q.Inc, genPattern(r, ents))
					}
					for k, n := 0, r.Intn(3); k < n; k++ {
						q.Exc = append(q.Exc, genExclude(r, ents))
					}
					if r.Chance(1, 3) { // as the builtin does: the BUILD file names are always excluded
						q.Exc = append(q.Exc, pat{{Atoms: lit("BUILD")}}, pat{{Atoms: lit("BUILD.plz")}})
					}
					runQuery(c, repo, tree, ents, q, j < modelPerTree)
				}
				// ---- 3. fs.Match on pattern x path pairs of this tree (no filtering, no disk)
				for j, n := 0, c.Scale(4, 8); j < n && len(ents) > 0; j++ {
					p := genPattern(r, ents)
					e := lib.Pick(r, ents)
					path := strings.Join(e.Segs, "/")
					c.Oracle()
					m, err := fs.Match(render(p), path)
					if err != nil && hasRegexMeta(p) {
						c.Fail("regex-metacharacter-unescaped-in-doublestar-pattern", fmt.Sprintf("fs.Match(%q, %q) failed on a well-formed pattern: %v", render(p), path, err), map[string]any{"pattern": render(p), "path": path})
						continue
					}
					if err != nil {
						c.Fail("match-error", fmt.Sprintf("fs.Match(%q, %q) failed on a well-formed pattern: %v", render(p), path, err), map[string]any{"pattern": render(p), "path": path})
						continue
					}
					js := map[string]any{"pattern": render(p), "path": path, "match": m}
					if want := refPath(p, e.Segs); want != m {
						q := query{Pkg: "", Inc: []pat{p}, Hidden: true, Syms: true}
						cls := classifyMatch(q, p, e, m)
						c.Fail(cls, fmt.Sprintf("fs.Match(%q, %q) = %v, the documented semantics say %v", render(p), path, m, want), js)
					}
					if modellable(p) {
						c.Case(lib.App("CMatch", lib.Str(render(p)), lib.Str(path), lib.Bool(m)), js, "m"+render(p)+"\x00"+path, m)
					}
				}
			})
		}

		// ---- 5. histories of Glob calls on ONE Globber (the walkedDirs cache is state): the history of Proof/C21_cache.v
		//         (h_tree, h_calls - with a root that does not exist), then generated ones over 1-3 roots of one tree, and
		//         one-package histories that are also run as a BUILD file through the asp interpreter
		hTree := dir(file(".top.txt"), file("a.txt"), sub("d", file("#c.txt#"), file(".b.txt"), file("e.txt")), sub("sub", file("BUILD"), file("s.txt")))
		starSeg := segOf([]atom{star()})
		hCalls := []call{
			{"", []pat{{dstar, anyTxt}, {anyTxt}}, nil, false, false},
			{"", []pat{{dstar, anyTxt}, {anyTxt}}, nil, true, false},
			{"d", []pat{{starSeg}}, []pat{{segOf(lit("e."), []atom{star()})}}, true, false},
			{"", []pat{{dstar, anyTxt}}, []pat{{segOf(lit("e."), []atom{star()})}}, true, true},
			{"nowhere", []pat{{starSeg}}, nil, false, false},
		}
		runSequence(c, hTree, hCalls, false, true)
		runSequence(c, hTree, hCalls[:2], true, true)
		runSequence(c, hTree, []call{hCalls[2], {"d", []pat{{starSeg}}, nil, false, false}, hCalls[2]}, true, true)
		for i, n := 0, c.Scale(70, 1500); i < n; i++ {
			r := c.Rng.Fork()
			e2e := i%3 == 2
			tree, calls := genSequence(r, e2e)
			runSequence(c, tree, calls, e2e, true)
		}

		// ---- 6. the glob() builtin of the BUILD language: generated package trees that hold one or BOTH configured build
		//         file names (plz parses the first configured name that exists), queries written as a BUILD file and
		//         interpreted in process with Parse.BuildFileName configured; compared with the reference in which build
		//         file names are never sources, with the model (glob_builtin) and with the plain Globber given the same
		//         excludes plus the build file names
		for i, n := 0, c.Scale(45, 900); i < n; i++ {
			r := c.Rng.Fork()
			pkg := ""
			if r.Chance(1, 2) {
				pkg = lib.Pick(r, []string{"pkg", "a/pkg", "third_party/go"})
			}
			tree := genDir(r, 0, true, pkg == "")
			switch r.Intn(4) {
			case 0:
				tree.setFile("BUILD")
			case 1:
				tree.setFile("BUILD.plz")
			default:
				tree.setFile("BUILD")
				tree.setFile("BUILD.plz")
			}
			parsedFrom := "BUILD.plz"
			if tree.hasKid("BUILD") {
				parsedFrom = "BUILD"
			}
			withTree(c, pkg, tree, func(repo string, ents []ent) {
				for j := 0; j < 4; j++ {
					q := query{Pkg: pkg, Hidden: r.Chance(1, 4), Syms: r.Chance(1, 2)}
					if j == 0 {
						q.Inc = []pat{lib.Pick(r, broadPatterns)}
					} else {
						for k, n := 0, r.Range(1, 2); k < n; k++ {
							q.Inc = append(q.Inc, genPattern(r, ents))
						}
					}
					for k, n := 0, r.Intn(3); k < n; k++ {
						q.Exc = append(q.Exc, genExclude(r, ents))
					}
					// skip what the plain Globber cannot answer (a pattern that does not compile panics inside the interpreter too)
					plain := q
					plain.Exc = append(append([]pat{}, q.Exc...), bfnPats()...)
					pres := runGlob(repo, plain)
					if pres.Panic != "" {
						continue
					}
					runQueryB(c, repo, tree, ents, q, j < 3, filepath.Join(pkg, parsedFrom))
				}
			})
		}

		// ---- 4. toRegexString on rendered patterns and on adversarial strings
		alphabet := []byte("+.?*/[^]ab(")
		for i, n := 0, c.Scale(150, 2000); i < n; i++ {
			r := c.Rng.Fork()
			b := make([]byte, r.Range(0, 14))
			for j := range b {
				b[j] = lib.Pick(r, alphabet)
			}
			in := string(b)
			out := fs.VerifToRegexString(in)
			c.Case(lib.App("CRegex", lib.Str(in), lib.Str(out)), map[string]any{"pattern": in, "regex": out}, "r"+in, strings.Contains(in, "*"))
		}
	})
}

// a discrepancy of the bare matcher (fs.Match = patternToMatcher(".", p)): the same deviation classes
func classifyMatch(q query, p pat, e ent, got bool) string {
	path := strings.Join(e.Segs, "/")
	best, bestN := -1, 99
	for qs := 1; qs <= qAll; qs++ {
		if qs&(qDirs|qHiddenBase|qPlzOut) != 0 {
			continue
		}
		if n := popcount(qs); n < bestN && emuPattern(p, "", path, qs) == got {
			best, bestN = qs, n
		}
	}
	if best >= 0 {
		for _, qc := range quirkClass {
			if best&qc.bit != 0 {
				return qc.class
			}
		}
	}
	if hasRegexMeta(p) {
		return "regex-metacharacter-unescaped-in-doublestar-pattern"
	}
	return "unexplained-mismatch"
}
