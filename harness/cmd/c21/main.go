package main

import (
	"fmt"
	"os"
	"path/filepath"

	"github.com/thought-machine/please/src/fs"
)

func mk(root string, files map[string]string) {
	for p, c := range files {
		full := filepath.Join(root, p)
		os.MkdirAll(filepath.Dir(full), 0o755)
		if c == "DIR" {
			os.MkdirAll(full, 0o755)
		} else if len(c) > 3 && c[:3] == "-> " {
			os.Symlink(c[3:], full)
		} else {
			os.WriteFile(full, []byte(c), 0o644)
		}
	}
}

func try(fsys string, root string, inc, exc []string, hidden bool) {
	defer func() {
		if r := recover(); r != nil {
			fmt.Printf("root=%q inc=%q exc=%q hidden=%v -> PANIC %v\n", root, inc, exc, hidden, r)
		}
	}()
	out := fs.Glob(os.DirFS(fsys), []string{"BUILD"}, root, inc, exc, hidden)
	fmt.Printf("root=%q inc=%q exc=%q hidden=%v -> %q\n", root, inc, exc, hidden, out)
}

func main() {
	d := os.Args[1]
	mk(d, map[string]string{
		"x.txt": "", "BUILD": "", ".h.txt": "", "#e.txt#": "", ".hid/x.txt": "", ".hid/sub/y.txt": "",
		"d1/a.txt": "", "d1/b(1).txt": "", "d1/d2/c.txt": "", "d1/a+b.txt": "", "d1/a/b": "",
		"sub/BUILD": "", "sub/s.txt": "", "sub/aaa.txt": "", "sub/zzz/q.txt": "", "sub/aa/r.txt": "",
		"plz-out/gen/g.txt": "", "d1/plz-out/p.txt": "", "lnk.txt": "-> x.txt", "dlnk": "-> d1",
		"pkg/BUILD": "", "pkg/p.txt": "", "pkg/plz-out/o.txt": "", "pkg/e/f.txt": "", "pkg/inner/BUILD": "", "pkg/inner/i.txt": "",
		"pkg/axb": "", "pkg/a/b": "", "empty": "DIR", "d1/x{1}.txt": "", "d1/$x.txt": "", "d1/x|y.txt":"", "d1/^x.txt":"", "d1/[x].txt":"",
	})
	for _, root := range []string{"", "pkg"} {
		try(d, root, []string{"*"}, nil, false)
		try(d, root, []string{"**"}, nil, false)
		try(d, root, []string{"**"}, nil, true)
		try(d, root, []string{"**/*.txt"}, nil, false)
		try(d, root, []string{"*.txt"}, nil, false)
		try(d, root, []string{"**/a?b"}, nil, false)
		try(d, root, []string{"*/*.txt"}, []string{"a*"}, false)
		try(d, root, []string{"**/*.txt"}, []string{"d1"}, false)
		try(d, root, []string{"**/*.txt"}, []string{"d1/d2/**"}, false)
		try(d, root, []string{"**/*.txt"}, []string{"**/c.txt"}, false)
	}
	try(d, "", []string{"**/b(1).txt"}, nil, false)
	try(d, "", []string{"d1/b(1).txt"}, nil, false)
	try(d, "", []string{"d1/**/b(1).txt"}, nil, false)
	try(d, "", []string{"d1/**/a+b.txt"}, nil, false)
	try(d, "", []string{"d1/**/x{1}.txt"}, nil, false)
	try(d, "", []string{"d1/**/$x.txt"}, nil, false)
	try(d, "", []string{"d1/**/x|y.txt"}, nil, false)
	try(d, "", []string{"d1/**/^x.txt"}, nil, false)
	try(d, "", []string{"d1/**/[[]x].txt"}, nil, false)
	try(d, "", []string{"d1/[[]x].txt"}, nil, false)
	try(d, "", []string{"d1/**"}, nil, false)
	try(d, "", []string{"d1/**/*"}, nil, false)
	try(d, "", []string{"**/d2/**"}, nil, false)
	try(d, "", []string{"./d1/*.txt"}, nil, false)
	try(d, "", []string{"d1/../x.txt"}, nil, false)
	try(d, "", []string{"d1/"}, nil, false)
	try(d, "", []string{"[a-"}, nil, false)
	try(d, "", []string{"**/[a-"}, nil, false)
	try(d, "", []string{".hid/*.txt"}, nil, false)
	try(d, "", []string{".*"}, nil, false)
	try(d, "", []string{"**/.*"}, nil, true)
	try(d, "", []string{"*.txt", "x.*"}, nil, false)
	try(d, "", []string{"dlnk/*"}, nil, false)
	try(d, "", []string{"d1/***"}, nil, false)
	try(d, "", []string{"d1**"}, nil, false)
	try(d, "", []string{"**.txt"}, nil, false)
	try(d, "", []string{"**/[^a]*.txt"}, nil, false)
	try(d, "", []string{"d1/[!a]*.txt"}, nil, false)
	try(d, "", []string{"d1/[^a]*.txt"}, nil, false)
}
