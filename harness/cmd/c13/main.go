package main

import (
	"bytes"
	"compress/gzip"
	"fmt"
	"io"
	"net/http"
	"net/http/httptest"
	"os"
	"path/filepath"
	"sync"
	"time"

	gologging "gopkg.in/op/go-logging.v1"

	"github.com/thought-machine/please/src/cache"
	"github.com/thought-machine/please/src/core"
)

func main() {
	gologging.SetLevel(gologging.CRITICAL, "plz")
	dir, _ := os.MkdirTemp("", "c13-proto-")
	defer os.RemoveAll(dir)
	os.Chdir(dir)
	var mu sync.Mutex
	blobs := map[string][]byte{}
	srv := httptest.NewServer(http.HandlerFunc(func(w http.ResponseWriter, r *http.Request) {
		mu.Lock()
		defer mu.Unlock()
		switch r.Method {
		case http.MethodPut:
			b, err := io.ReadAll(r.Body)
			if err != nil {
				w.WriteHeader(400)
				return
			}
			blobs[r.URL.Path] = b
		case http.MethodGet:
			b, ok := blobs[r.URL.Path]
			if !ok {
				w.WriteHeader(404)
				return
			}
			w.Write(b)
		}
	}))
	defer srv.Close()
	hc, err := cache.VerifNewHTTPCache(srv.URL, true, 0, 5*time.Second)
	if err != nil {
		panic(err)
	}
	target := core.NewBuildTarget(core.NewBuildLabel("pkg", "t"))
	out := target.OutDir()
	os.MkdirAll(filepath.Join(out, "d"), 0o755)
	os.WriteFile(filepath.Join(out, "a.txt"), bytes.Repeat([]byte("a"), 300000), 0o644)
	os.WriteFile(filepath.Join(out, "d/x"), bytes.Repeat([]byte("x"), 700), 0o644)
	os.WriteFile(filepath.Join(out, "d/y"), []byte(""), 0o644)
	os.Symlink("x", filepath.Join(out, "d/z"))
	hc.Store(target, []byte("k1"), []string{"a.txt", "d"})
	for k, v := range blobs {
		zr, _ := gzip.NewReader(bytes.NewReader(v))
		raw, err := io.ReadAll(zr)
		fmt.Println(k, len(v), len(raw), err)
		for i := 0; i+512 <= len(raw); i += 512 {
			fmt.Printf("%d: %q type=%q\n", i, bytes.TrimRight(raw[i:i+100], "\x00"), raw[i+156])
		}
	}
	// cmd
	store := filepath.Join(dir, "store")
	os.MkdirAll(store, 0o755)
	for _, sc := range []string{
		`exec cat > "` + store + `/$CACHE_KEY"`,
		`exec dd bs=512 status=none > "` + store + `/$CACHE_KEY"`,
		`cat > "` + store + `/$CACHE_KEY.tmp" && mv "` + store + `/$CACHE_KEY.tmp" "` + store + `/$CACHE_KEY"`,
		`cat | cat > "` + store + `/$CACHE_KEY"`,
		`cat | (cat > "` + store + `/$CACHE_KEY.tmp" && mv "` + store + `/$CACHE_KEY.tmp" "` + store + `/$CACHE_KEY")`,
	} {
		for trial := 0; trial < 12; trial++ {
			os.RemoveAll(store)
			os.MkdirAll(store, 0o755)
			cc := cache.VerifNewCmdCache(sc, `cat "`+store+`/$CACHE_KEY"`)
			t0 := time.Now()
			cc.Store(target, []byte("k2"), []string{"a.txt", "d", "missing", "a.txt"})
			el := time.Since(t0)
			time.Sleep(100 * time.Millisecond)
			es, _ := os.ReadDir(store)
			desc := ""
			for _, e := range es {
				i, _ := e.Info()
				desc += fmt.Sprintf("%s:%d ", e.Name(), i.Size())
			}
			os.Rename(out, out+".bak")
			hit := cc.Retrieve(target, []byte("k2"), nil)
			_, ea := os.Stat(filepath.Join(out, "a.txt"))
			_, ed := os.Stat(filepath.Join(out, "d/x"))
			os.RemoveAll(out)
			os.Rename(out+".bak", out)
			fmt.Printf("%-60.60s store=%v [%s] hit=%v a=%v d/x=%v\n", sc[len(sc)-40:], el, desc, hit, ea == nil, ed == nil)
		}
	}
}
