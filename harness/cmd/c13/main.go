// C13: remote (HTTP) and command caches store complete artifacts or nothing.
// Implementation side of the correspondence + a model-independent property oracle.
//
// Every scenario is: build an output tree (possibly with a read fault at one position), Store it
// through the real httpCache / cmdCache (possibly with a transport fault), empty the output
// directory, Retrieve (possibly with a transport fault) and look at what came back.
package main

import (
	"archive/tar"
	"bytes"
	"compress/gzip"
	"encoding/hex"
	"fmt"
	"io"
	"net"
	"net/http"
	"net/http/httptest"
	"os"
	"path/filepath"
	"sort"
	"strings"
	"sync"
	"syscall"
	"time"

	gologging "gopkg.in/op/go-logging.v1"

	"verifharness/lib"

	"github.com/thought-machine/please/src/cache"
	"github.com/thought-machine/please/src/core"
)

// ---------------------------------------------------------------------------------------------
// output trees

type tnode struct {
	Kind     string   `json:"kind"` // file | link | dir | sock | missing
	Name     string   `json:"name"` // relative to the target's output directory
	Byte     byte     `json:"byte,omitempty"`
	Size     int      `json:"size,omitempty"` // file: Size copies of Byte ...
	Text     string   `json:"text,omitempty"` // ... or this literal content
	Target   string   `json:"target,omitempty"`
	Children []*tnode `json:"children,omitempty"`
	// Vanish: the entry exists when the store starts and when its directory is listed, and is
	// removed (with everything below it) before the archive writer reaches it
	Vanish bool `json:"vanish,omitempty"`
}

func (t *tnode) content() []byte {
	if t.Text != "" || t.Size == 0 {
		return []byte(t.Text)
	}
	return bytes.Repeat([]byte{t.Byte}, t.Size)
}

func (t *tnode) healthy() bool {
	if t.Vanish {
		return false
	}
	switch t.Kind {
	case "file", "link":
		return true
	case "dir":
		for _, c := range t.Children {
			if !c.healthy() {
				return false
			}
		}
		return true
	}
	return false
}

func (t *tnode) clone() *tnode {
	c := *t
	c.Children = nil
	for _, ch := range t.Children {
		c.Children = append(c.Children, ch.clone())
	}
	return &c
}

func (t *tnode) each(f func(*tnode)) {
	f(t)
	for _, c := range t.Children {
		c.each(f)
	}
}

// materialise creates the tree below dir.
func (t *tnode) materialise(dir string) {
	p := filepath.Join(dir, t.Name)
	switch t.Kind {
	case "file":
		must(os.MkdirAll(filepath.Dir(p), 0o755))
		must(os.WriteFile(p, t.content(), 0o644))
	case "link":
		must(os.MkdirAll(filepath.Dir(p), 0o755))
		must(os.Symlink(t.Target, p))
	case "dir":
		must(os.MkdirAll(p, 0o755))
		for _, c := range t.Children {
			c.materialise(dir)
		}
	case "sock":
		must(os.MkdirAll(filepath.Dir(p), 0o755))
		// a unix socket: exists, Lstat works, tar.FileInfoHeader refuses it. The path given to
		// bind must be short, so bind relative to the directory.
		l, err := net.ListenUnix("unix", &net.UnixAddr{Name: p, Net: "unix"})
		must(err)
		l.SetUnlinkOnClose(false)
		l.Close()
	case "missing":
	}
}

func coqContent(b []byte) string {
	if len(b) > 48 {
		same := true
		for _, x := range b {
			if x != b[0] {
				same = false
				break
			}
		}
		if same {
			return fmt.Sprintf("(rep %d %d)", len(b), b[0])
		}
	}
	return lib.Str(string(b))
}

func (t *tnode) coq(outDir string) string {
	n := lib.Str(filepath.Join(outDir, t.Name))
	switch t.Kind {
	case "file":
		return lib.App("TFile", n, coqContent(t.content()))
	case "link":
		return lib.App("TLink", n, lib.Str(t.Target))
	case "dir":
		cs := []string{}
		for _, c := range t.Children {
			cs = append(cs, c.coq(outDir))
		}
		return lib.App("TDir", n, lib.List(cs))
	case "sock":
		return lib.App("TSock", n)
	}
	return lib.App("TMissing", n)
}

// ---------------------------------------------------------------------------------------------
// scenarios

// one retrieve attempt (into an empty output directory) on the entry a scenario's store left
type retr struct {
	GetFault string `json:"get_fault,omitempty"` // http: "" | status | cut-length | cut-chunked | cut-close
	GetCut   int    `json:"get_cut,omitempty"`   // offset into the stored (gzip) body
	RetrCut  int    `json:"retr_cut"`            // cmd: the command emits this many bytes; -1: the whole entry
	RetrExit int    `json:"retr_exit,omitempty"` // cmd: exit status of the retrieve command
}

type scenario struct {
	Cache string   `json:"cache"` // http | cmd
	Files []*tnode `json:"files"`
	// http
	PutFault string `json:"put_fault,omitempty"` // "" | abort | status
	// cmd
	StoreStyle string `json:"store_style,omitempty"` // plain | atomic | pipe | pipe-atomic | exec | head-fail | atomic-head-fail
	StoreHead  int    `json:"store_head,omitempty"`
	Retrs      []retr `json:"retrieves"`
	Why        string `json:"why,omitempty"`
	// an entry vanishes during the store (the node with Vanish set). Hold: a regular file that the
	// walk reaches after the directory of that entry was listed and before the entry itself; the
	// harness holds a write lease on it, so the archive writer's open() of it blocks in the kernel
	// until the harness has removed the entry and released the lease. HoldByCmd: instead, the
	// store command removes the entry after it consumed StoreHead bytes of a much longer archive
	// (the writer is then blocked on the pipe, in the middle of an earlier large file).
	Hold      string `json:"hold,omitempty"`
	HoldByCmd bool   `json:"hold_by_cmd,omitempty"`
	// follow-up 2.
	// Kind "atomic": command cache, the store command publishes only if it ran to its end (tmp, a
	// pause, mv - all by sh itself); one fault-free retrieve.
	// Kind "into": a fault-free store, then each retrieve goes into an output directory that
	// already holds Pre (a stale link, the empty file an earlier failed retrieve left, ...).
	// Kind "mplex": Files are the outputs of the target (plain files and links); Ops is a history
	// on the multiplexer over Order (build+store / wipe the output directory / retrieve).
	Kind  string   `json:"kind,omitempty"`
	Pre   []*tnode `json:"pre,omitempty"`
	Order []string `json:"order,omitempty"`
	Ops   []mop    `json:"ops,omitempty"`
}

// one operation of a multiplexer history
type mop struct {
	Op string `json:"op"` // build | wipe | retrieve
	// stores made by this operation (the build's Store, or the back-fill after a retrieve)
	PutFault  string `json:"put_fault,omitempty"`  // http: "" | abort | status
	CmdRefuse bool   `json:"cmd_refuse,omitempty"` // cmd: the store command fails without publishing
	// retrieve: the fault of each cache's own retrieve
	R retr `json:"r"`
}

func (sc *scenario) vanishNode() *tnode {
	var v *tnode
	for _, f := range sc.Files {
		f.each(func(t *tnode) {
			if t.Vanish && v == nil {
				v = t
			}
		})
	}
	return v
}

// vanishPos: the position of the vanishing node in walk order through all declared outputs
func (sc *scenario) vanishPos() int {
	pos, found := 0, -1
	for _, f := range sc.Files {
		f.each(func(t *tnode) {
			if t.Vanish && found < 0 {
				found = pos
			}
			pos++
		})
	}
	return found
}

type retrObs struct {
	Hit        bool              `json:"hit"`
	Hung       bool              `json:"hung,omitempty"`
	Disk       map[string]string `json:"disk"` // path -> description, for the report
	diskCoq    []string
	Complete   bool   `json:"complete"` // every declared output is back, exactly
	Incomplete string `json:"incomplete,omitempty"`
	tarCut     int    // http GetCut: tar bytes that decompress before the error
	preCoq     []string
}

type observed struct {
	Stored    bool       `json:"stored"`
	StoredLen int        `json:"stored_len"` // tar bytes held under the key
	Footer    bool       `json:"footer"`     // ... ending in the two zero blocks
	Members   []string   `json:"members"`
	R         []*retrObs `json:"retrieves"`
	Vanished  string     `json:"vanished,omitempty"` // how the removal during the store went
	Steps     []*mstepObs `json:"steps,omitempty"`   // mplex: after each operation
}

type entryObs struct {
	Stored  bool     `json:"stored"`
	Len     int      `json:"len"`
	Members []string `json:"members"`
	Wrote   bool     `json:"wrote"` // this operation stored into the cache
}

type mstepObs struct {
	Op         string            `json:"op"`
	Result     string            `json:"result,omitempty"` // retrieve: hit | miss | hung
	Entries    []*entryObs       `json:"entries"`          // per cache, in Order
	Disk       map[string]string `json:"disk"`
	Incomplete string            `json:"incomplete,omitempty"` // first declared output that is not back exactly
	tarCut     int
	diskCoq    []string
}

var whole = retr{RetrCut: -1}

func allHealthy(files []*tnode) bool {
	for _, f := range files {
		if !f.healthy() {
			return false
		}
	}
	return true
}

// worker: one package (so one output directory), one HTTP server, one command-store directory
type worker struct {
	id     int
	root   string
	target *core.BuildTarget
	outDir string
	store  string
	srv    *httptest.Server
	mu     sync.Mutex
	blobs  map[string][]byte
	plan   *scenario
	rplan  retr
	puts   int // PUT bodies stored
	lastLo int // tar offsets of the content of the last regular file (for get fault cut-in-last)
	lastHi int
}

func newWorker(root string, id int) *worker {
	w := &worker{id: id, root: root, blobs: map[string][]byte{}}
	w.target = core.NewBuildTarget(core.NewBuildLabel(fmt.Sprintf("p%d", id), "t"))
	w.outDir = w.target.OutDir()
	w.store = filepath.Join(root, fmt.Sprintf("store%d", id))
	must(os.MkdirAll(w.store, 0o755))
	w.srv = httptest.NewServer(http.HandlerFunc(w.serve))
	return w
}

func (w *worker) serve(rw http.ResponseWriter, r *http.Request) {
	w.mu.Lock()
	sc, rt := w.plan, w.rplan
	w.mu.Unlock()
	switch r.Method {
	case http.MethodPut:
		switch sc.PutFault {
		case "abort": // the connection dies while the body is in flight
			io.CopyN(io.Discard, r.Body, 10)
			panic(http.ErrAbortHandler)
		case "status":
			io.Copy(io.Discard, r.Body)
			rw.WriteHeader(http.StatusInsufficientStorage)
			return
		}
		b, err := io.ReadAll(r.Body)
		if err != nil { // a server keeps only bodies it received completely
			rw.WriteHeader(http.StatusBadRequest)
			return
		}
		w.mu.Lock()
		w.blobs[r.URL.Path] = b
		w.puts++
		w.mu.Unlock()
	case http.MethodGet:
		w.mu.Lock()
		b, ok := w.blobs[r.URL.Path]
		w.mu.Unlock()
		if !ok {
			rw.WriteHeader(http.StatusNotFound)
			return
		}
		cut := min(rt.GetCut, len(b))
		if rt.GetFault == "cut-in-last" {
			w.mu.Lock()
			cut = cutInsideLast(b, w.lastLo, w.lastHi)
			w.mu.Unlock()
		}
		switch rt.GetFault {
		case "status":
			rw.WriteHeader(http.StatusForbidden)
			rw.Write([]byte("no"))
		case "cut-length", "cut-in-last": // Content-Length promises everything, the connection dies early
			rw.Header().Set("Content-Length", fmt.Sprint(len(b)))
			rw.Write(b[:cut])
			if f, ok := rw.(http.Flusher); ok {
				f.Flush()
			}
			panic(http.ErrAbortHandler)
		case "cut-chunked":
			if f, ok := rw.(http.Flusher); ok {
				rw.Write(b[:cut])
				f.Flush()
			}
			panic(http.ErrAbortHandler)
		case "cut-close": // close-delimited body: the truncation looks like a clean end of file
			conn, buf, err := rw.(http.Hijacker).Hijack()
			must(err)
			buf.WriteString("HTTP/1.1 200 OK\r\nConnection: close\r\n\r\n")
			buf.Write(b[:cut])
			buf.Flush()
			conn.Close()
		default:
			rw.Write(b)
		}
	}
}

func sq(s string) string { return "'" + strings.ReplaceAll(s, "'", `'\''`) + "'" }

func (w *worker) commands(sc *scenario, r retr) (string, string) {
	f := sq(w.store) + `/"$CACHE_KEY"`
	tmp := sq(w.store) + `/"$CACHE_KEY".tmp`
	var st string
	switch sc.StoreStyle {
	case "plain":
		st = "cat > " + f
	case "atomic":
		st = "cat > " + tmp + " && mv " + tmp + " " + f
	case "pipe":
		st = "cat | cat > " + f
	case "pipe-atomic":
		st = "cat | (cat > " + tmp + " && mv " + tmp + " " + f + ")"
	case "exec":
		st = "exec cat > " + f
	case "head-fail": // the store command itself fails partway, leaving what it had written
		st = fmt.Sprintf("head -c %d > %s; cat > /dev/null; exit 1", sc.StoreHead, f)
	case "atomic-head-fail":
		st = fmt.Sprintf("head -c %d > %s; cat > /dev/null; exit 1", sc.StoreHead, tmp)
	case "atomic-slow": // as atomic, with time for a kill to land between the copy and the rename
		st = "cat > " + tmp + " && sleep 0.15 && mv " + tmp + " " + f
	case "mplex": // atomic; refuses when the harness says so; logs each publication
		st = "if [ -e " + sq(w.store) + "/refuse ]; then cat > /dev/null; exit 1; fi; cat > " + tmp + " && mv " + tmp + " " + f +
			" && echo stored >> " + sq(w.store) + "/log"
	case "atomic-rm-midway": // tmp+mv done by sh itself; removes an output entry after StoreHead bytes
		v := sc.vanishNode()
		st = fmt.Sprintf("head -c %d > %s; rm -rf %s; cat >> %s && mv %s %s", sc.StoreHead, tmp,
			sq(filepath.Join(w.root, w.outDir, v.Name)), tmp, tmp, f)
	default:
		panic("store style " + sc.StoreStyle)
	}
	rt := "cat " + f
	if r.RetrCut >= 0 {
		rt = fmt.Sprintf("head -c %d %s", r.RetrCut, f)
	}
	if r.RetrExit != 0 {
		rt = fmt.Sprintf("%s; exit %d", rt, r.RetrExit)
	}
	return st, rt
}

func (w *worker) run(idx int, sc *scenario) *observed {
	if sc.Kind == "mplex" {
		return w.runMplex(idx, sc)
	}
	key := []byte(fmt.Sprintf("key-%06d", idx))
	hexKey := hex.EncodeToString(key)
	ob := &observed{}
	must(os.RemoveAll(w.outDir))
	must(os.MkdirAll(w.outDir, 0o755))
	names := []string{}
	for _, f := range sc.Files {
		f.materialise(w.outDir)
		names = append(names, f.Name)
	}
	var raw, gz []byte // the tar bytes held under the key after the store
	if sc.Cache == "http" {
		w.mu.Lock()
		w.plan = sc
		w.mu.Unlock()
		hc, err := cache.VerifNewHTTPCache(w.srv.URL, true, 0, 10*time.Second)
		must(err)
		ob.Vanished = w.storeWithVanish(sc, func() { hc.Store(w.target, key, names) })
		w.mu.Lock()
		var ok bool
		gz, ok = w.blobs["/"+hexKey]
		w.mu.Unlock()
		if ok {
			ob.Stored = true
			zr, err := gzip.NewReader(bytes.NewReader(gz))
			must(err)
			raw, err = io.ReadAll(zr)
			must(err)
		}
	} else {
		st, _ := w.commands(sc, whole)
		cc := cache.VerifNewCmdCache(st, "false")
		ob.Vanished = w.storeWithVanish(sc, func() { cc.Store(w.target, key, names) })
		// the command (or what survives of it) may still be draining its stdin
		p := filepath.Join(w.store, hexKey)
		last, stable := int64(-2), 0
		for i := 0; i < 600 && stable < 4; i++ {
			time.Sleep(5 * time.Millisecond)
			sz := int64(-1)
			if fi, err := os.Stat(p); err == nil {
				sz = fi.Size()
			}
			if _, err := os.Stat(p + ".tmp"); err == nil && sc.StoreStyle == "pipe-atomic" {
				sz = -3 - int64(i) // the rename is still to come
			}
			if sz == last {
				stable++
			} else {
				stable = 0
			}
			last = sz
		}
		if b, err := os.ReadFile(p); err == nil {
			ob.Stored = true
			raw = b
		}
	}
	ob.StoredLen = len(raw)
	ob.Footer = len(raw) >= 1024 && bytes.Equal(raw[len(raw)-1024:], make([]byte, 1024))
	ob.Members = []string{}
	tr := tar.NewReader(bytes.NewReader(raw))
	for {
		h, err := tr.Next()
		if err != nil {
			break
		}
		ob.Members = append(ob.Members, h.Name)
	}
	for _, r := range sc.Retrs {
		ob.R = append(ob.R, w.retrieve(sc, r, key, gz))
	}
	must(os.RemoveAll(w.outDir))
	if sc.Cache == "cmd" {
		os.Remove(filepath.Join(w.store, hexKey))
		os.Remove(filepath.Join(w.store, hexKey+".tmp"))
	}
	return ob
}

// Linux file leases (fcntl F_SETLEASE): while a write lease is held on a file, an open() of it by
// anybody else blocks until the holder releases the lease; F_GETLEASE tells the holder that a
// break is pending. This gives a race-free hook INSIDE a running Store: the archive writer is
// stopped exactly where it opens a chosen regular file.
const (
	fSetLease = 1024
	fGetLease = 1025
	fRdLck    = 0
	fWrLck    = 1
	fUnLck    = 2
)

func fcntl(fd int, cmd, arg uintptr) (uintptr, error) {
	r, _, e := syscall.Syscall(syscall.SYS_FCNTL, uintptr(fd), cmd, arg)
	if e != 0 {
		return r, e
	}
	return r, nil
}

// storeWithVanish runs store(); if the scenario has a vanishing entry with a Hold file, the entry
// is removed while the archive writer is blocked opening the Hold file.
func (w *worker) storeWithVanish(sc *scenario, store func()) string {
	v := sc.vanishNode()
	if v == nil {
		store()
		return ""
	}
	vpath := filepath.Join(w.outDir, v.Name)
	if sc.HoldByCmd {
		store()
		if _, err := os.Lstat(vpath); err == nil {
			panic("c13: the store command did not remove " + vpath)
		}
		return "removed-by-store-command"
	}
	fd, err := syscall.Open(filepath.Join(w.outDir, sc.Hold), syscall.O_RDONLY|syscall.O_CLOEXEC, 0)
	must(err)
	defer syscall.Close(fd)
	// EAGAIN: somebody else still has the file open - another worker's freshly forked child that
	// has not reached its exec yet inherits, for a moment, a copy of every descriptor of this process
	for try := 0; ; try++ {
		_, err := fcntl(fd, fSetLease, fWrLck)
		if err == nil {
			break
		}
		if err != syscall.EAGAIN || try > 2000 {
			panic(fmt.Sprintf("c13: cannot take a write lease on %s: %v", sc.Hold, err))
		}
		time.Sleep(time.Millisecond)
	}
	done := make(chan struct{})
	go func() { store(); close(done) }()
	res := ""
	for deadline := time.Now().Add(40 * time.Second); res == ""; {
		if l, err := fcntl(fd, fGetLease, 0); err != nil || l != fWrLck {
			// the writer is blocked in open(Hold): its directory listing is behind it
			must(os.RemoveAll(vpath))
			res = "removed-while-writer-blocked-opening-" + sc.Hold
			break
		}
		select {
		case <-done:
			res = "store-finished-without-opening-hold"
		case <-time.After(200 * time.Microsecond):
			if time.Now().After(deadline) {
				res = "timeout"
			}
		}
	}
	fcntl(fd, fSetLease, fUnLck)
	<-done
	if !strings.HasPrefix(res, "removed") {
		panic("c13: vanish hook not reached: " + res + " (hold " + sc.Hold + ")")
	}
	return res
}

// retrieve runs one Retrieve into an empty output directory and records what came back.
func (w *worker) retrieve(sc *scenario, r retr, key, gz []byte) *retrObs {
	ob := &retrObs{Disk: map[string]string{}}
	var c core.Cache
	if sc.Cache == "http" {
		w.mu.Lock()
		w.rplan = r
		w.mu.Unlock()
		hc, err := cache.VerifNewHTTPCache(w.srv.URL, true, 0, 10*time.Second)
		must(err)
		c = hc
		if strings.HasPrefix(r.GetFault, "cut") && gz != nil {
			cut := min(r.GetCut, len(gz))
			if zr, err := gzip.NewReader(bytes.NewReader(gz[:cut])); err == nil {
				part, _ := io.ReadAll(zr)
				ob.tarCut = len(part)
			}
		}
	} else {
		_, rt := w.commands(sc, r)
		c = cache.VerifNewCmdCache("", rt)
	}
	must(os.RemoveAll(w.outDir))
	must(os.MkdirAll(w.outDir, 0o755)) // the output directory itself exists, and is empty ...
	for _, p := range sc.Pre {         // ... or holds what is left from earlier
		p.materialise(w.outDir)
	}
	ob.preCoq = w.snapshot()
	done := make(chan bool, 1)
	go func() { done <- c.Retrieve(w.target, key, nil) }()
	select {
	case ob.Hit = <-done:
	case <-time.After(45 * time.Second):
		ob.Hung = true // neither a hit nor a miss: Retrieve does not return
	}
	ob.Complete = allHealthy(sc.Files)
	for _, f := range sc.Files {
		f.each(func(t *tnode) {
			p := filepath.Join(w.outDir, t.Name)
			fi, err := os.Lstat(p)
			got, coq := "absent", "None"
			switch {
			case err != nil:
			case fi.Mode()&os.ModeSymlink != 0:
				l, _ := os.Readlink(p)
				got, coq = "link:"+l, lib.Some(lib.App("NLink", lib.Str(l)))
			case fi.IsDir():
				got, coq = "dir", lib.Some("NDir")
			case fi.Mode().IsRegular():
				b, err := os.ReadFile(p)
				must(err)
				got, coq = fmt.Sprintf("file:%d:%x", len(b), sum(b)), lib.Some(lib.App("NFile", coqContent(b)))
			default:
				got, coq = "other", lib.Some("NDir")
			}
			want := ""
			switch {
			case t.Vanish:
				want = "unreadable"
			case t.Kind == "file":
				b := t.content()
				want = fmt.Sprintf("file:%d:%x", len(b), sum(b))
			case t.Kind == "link":
				want = "link:" + t.Target
			case t.Kind == "dir":
				want = "dir"
			default:
				want = "unreadable"
			}
			if got != want && ob.Incomplete == "" {
				ob.Incomplete = fmt.Sprintf("%s: want %s, have %s", t.Name, want, got)
			}
			ob.Disk[t.Name] = got
			ob.diskCoq = append(ob.diskCoq, lib.Pair(lib.Str(p), coq))
		})
	}
	if ob.Incomplete != "" {
		ob.Complete = false
	}
	for _, f := range sc.Pre {
		f.each(func(t *tnode) {
			if _, seen := ob.Disk[t.Name]; !seen {
				got, coq := w.look(t.Name)
				ob.Disk[t.Name] = got
				ob.diskCoq = append(ob.diskCoq, lib.Pair(lib.Str(filepath.Join(w.outDir, t.Name)), coq))
			}
		})
	}
	return ob
}

// look describes what is at a path below the output directory
func (w *worker) look(name string) (string, string) {
	p := filepath.Join(w.outDir, name)
	fi, err := os.Lstat(p)
	switch {
	case err != nil:
		return "absent", "None"
	case fi.Mode()&os.ModeSymlink != 0:
		l, _ := os.Readlink(p)
		return "link:" + l, lib.Some(lib.App("NLink", lib.Str(l)))
	case fi.IsDir():
		return "dir", lib.Some("NDir")
	case fi.Mode().IsRegular():
		b, err := os.ReadFile(p)
		must(err)
		return fmt.Sprintf("file:%d:%x", len(b), sum(b)), lib.Some(lib.App("NFile", coqContent(b)))
	}
	return "other", lib.Some("NDir")
}

// snapshot lists everything below the output directory as Coq pairs (path, node)
func (w *worker) snapshot() []string {
	out := []string{}
	filepath.Walk(w.outDir, func(p string, fi os.FileInfo, err error) error {
		if err != nil || p == w.outDir {
			return nil
		}
		rel, _ := filepath.Rel(w.outDir, p)
		_, coq := w.look(rel)
		out = append(out, lib.Pair(lib.Str(p), strings.TrimSuffix(strings.TrimPrefix(coq, "(Some "), ")")))
		return nil
	})
	return out
}

// cutInsideLast: an offset into the gzip body at which the decompressed prefix ends inside the
// content of the last regular file (tar offsets lo <= n < hi); the largest such offset
func cutInsideLast(gz []byte, lo, hi int) int {
	for c := len(gz) - 1; c > 0; c-- {
		if n := gunzipPrefix(gz[:c]); n >= lo && n < hi {
			return c
		}
	}
	return len(gz) / 2
}

func gunzipPrefix(gz []byte) int {
	zr, err := gzip.NewReader(bytes.NewReader(gz))
	if err != nil {
		return 0
	}
	part, _ := io.ReadAll(zr)
	return len(part)
}

func tarMembers(raw []byte) []string {
	out := []string{}
	tr := tar.NewReader(bytes.NewReader(raw))
	for {
		h, err := tr.Next()
		if err != nil {
			return out
		}
		out = append(out, h.Name)
	}
}

// runMplex plays a history on the multiplexer over the worker's HTTP server and command store.
func (w *worker) runMplex(idx int, sc *scenario) *observed {
	key := []byte(fmt.Sprintf("key-%06d", idx))
	hexKey := hex.EncodeToString(key)
	ob := &observed{Members: []string{}}
	entry, logf, refuse := filepath.Join(w.store, hexKey), filepath.Join(w.store, "log"), filepath.Join(w.store, "refuse")
	for _, p := range []string{entry, entry + ".tmp", logf, refuse} {
		os.Remove(p)
	}
	names := []string{}
	for _, f := range sc.Files {
		names = append(names, f.Name)
	}
	// where the content of the last regular file lies in the archive of the complete outputs
	off, lo, hi := 0, 0, 0
	for _, f := range sc.Files {
		off += 512
		if f.Kind == "file" {
			n := len(f.content())
			lo, hi = off, off+n
			off += (n + 511) / 512 * 512
		}
	}
	w.mu.Lock()
	w.lastLo, w.lastHi = lo, hi
	w.mu.Unlock()
	logLines := func() int {
		b, _ := os.ReadFile(logf)
		return bytes.Count(b, []byte("\n"))
	}
	must(os.RemoveAll(w.outDir))
	must(os.MkdirAll(w.outDir, 0o755))
	for _, op := range sc.Ops {
		so := &mstepObs{Op: op.Op, Disk: map[string]string{}}
		plan := &scenario{PutFault: op.PutFault, StoreStyle: "mplex"}
		w.mu.Lock()
		w.plan, w.rplan = plan, op.R
		puts0 := w.puts
		gz := w.blobs["/"+hexKey]
		w.mu.Unlock()
		log0 := logLines()
		if op.CmdRefuse {
			must(os.WriteFile(refuse, nil, 0o644))
		} else {
			os.Remove(refuse)
		}
		st, rt := w.commands(plan, op.R)
		hc, err := cache.VerifNewHTTPCache(w.srv.URL, true, 0, 10*time.Second)
		must(err)
		cc := cache.VerifNewCmdCache(st, rt)
		cs := []core.Cache{}
		for _, k := range sc.Order {
			if k == "http" {
				cs = append(cs, hc)
			} else {
				cs = append(cs, cc)
			}
		}
		mp := cache.VerifNewMultiplexer(cs...)
		switch op.Op {
		case "build":
			must(os.RemoveAll(w.outDir))
			must(os.MkdirAll(w.outDir, 0o755))
			for _, f := range sc.Files {
				f.materialise(w.outDir)
			}
			mp.Store(w.target, key, names)
		case "wipe":
			must(os.RemoveAll(w.outDir))
			must(os.MkdirAll(w.outDir, 0o755))
		case "retrieve":
			if gz != nil {
				switch {
				case op.R.GetFault == "cut-in-last":
					so.tarCut = gunzipPrefix(gz[:cutInsideLast(gz, lo, hi)])
				case strings.HasPrefix(op.R.GetFault, "cut"):
					so.tarCut = gunzipPrefix(gz[:min(op.R.GetCut, len(gz))])
				}
			}
			done := make(chan bool, 1)
			go func() { done <- mp.Retrieve(w.target, key, names) }()
			select {
			case h := <-done:
				so.Result = map[bool]string{true: "hit", false: "miss"}[h]
			case <-time.After(45 * time.Second):
				so.Result = "hung"
			}
		default:
			panic("mplex op " + op.Op)
		}
		// what each cache holds now
		w.mu.Lock()
		gz2, okHTTP := w.blobs["/"+hexKey]
		wroteHTTP := w.puts > puts0
		w.mu.Unlock()
		for _, k := range sc.Order {
			e := &entryObs{Members: []string{}}
			var raw []byte
			if k == "http" {
				e.Stored, e.Wrote = okHTTP, wroteHTTP
				if okHTTP {
					zr, err := gzip.NewReader(bytes.NewReader(gz2))
					must(err)
					raw, err = io.ReadAll(zr)
					must(err)
				}
			} else {
				b, err := os.ReadFile(entry)
				e.Stored, e.Wrote = err == nil, logLines() > log0
				raw = b
			}
			e.Len, e.Members = len(raw), tarMembers(raw)
			so.Entries = append(so.Entries, e)
		}
		for _, f := range sc.Files {
			got, coq := w.look(f.Name)
			want := "link:" + f.Target
			if f.Kind == "file" {
				b := f.content()
				want = fmt.Sprintf("file:%d:%x", len(b), sum(b))
			}
			if got != want && so.Incomplete == "" {
				so.Incomplete = fmt.Sprintf("%s: want %s, have %s", f.Name, want, got)
			}
			so.Disk[f.Name] = got
			so.diskCoq = append(so.diskCoq, lib.Pair(lib.Str(filepath.Join(w.outDir, f.Name)), coq))
		}
		ob.Steps = append(ob.Steps, so)
	}
	must(os.RemoveAll(w.outDir))
	for _, p := range []string{entry, entry + ".tmp", logf, refuse} {
		os.Remove(p)
	}
	w.mu.Lock()
	delete(w.blobs, "/"+hexKey)
	w.mu.Unlock()
	return ob
}

func (sc *scenario) coqMplex(w *worker, ob *observed) string {
	files := []string{}
	for _, f := range sc.Files {
		files = append(files, f.coq(w.outDir))
	}
	kinds := []string{}
	for _, k := range sc.Order {
		kinds = append(kinds, map[bool]string{true: "KHttp", false: "KCmd"}[k == "http"])
	}
	steps := []string{}
	for i, op := range sc.Ops {
		so := ob.Steps[i]
		sfs, rfs, ents := []string{}, []string{}, []string{}
		for ci, k := range sc.Order {
			e := so.Entries[ci]
			sfs = append(sfs, lib.Opt(e.Wrote, lib.N(uint64(map[bool]int{true: 0, false: e.Len}[k == "http"]))))
			if k == "http" {
				g := "GetOk"
				switch {
				case op.R.GetFault == "status":
					g = "GetStatus"
				case strings.HasPrefix(op.R.GetFault, "cut"):
					g = lib.App("GetCut", lib.N(uint64(so.tarCut)))
				}
				rfs = append(rfs, lib.App("RF", g, "None", "true"))
			} else {
				rfs = append(rfs, lib.App("RF", "GetOk", lib.Opt(op.R.RetrCut >= 0, lib.N(uint64(max(op.R.RetrCut, 0)))), lib.Bool(op.R.RetrExit == 0)))
			}
			ents = append(ents, "("+lib.Bool(e.Stored)+", "+lib.N(uint64(e.Len))+", "+lib.StrList(e.Members)+")")
		}
		var o, res string
		switch op.Op {
		case "build":
			o, res = lib.App("OBuild", lib.List(sfs)), "None"
		case "wipe":
			o, res = "OWipe", "None"
		default:
			o, res = lib.App("ORetrieve", lib.List(rfs), lib.List(sfs)), lib.Some(lib.Bool(so.Result == "hit"))
		}
		steps = append(steps, lib.Pair(o, "("+res+", "+lib.List(ents)+", "+lib.List(so.diskCoq)+")"))
	}
	return lib.App("CMplex", lib.Str(w.outDir), lib.List(files), lib.List(kinds), lib.List(steps))
}

func sum(b []byte) uint32 { // adler-like, only for the report
	var a, c uint32 = 1, 0
	for _, x := range b {
		a = (a + uint32(x)) % 65521
		c = (c + a) % 65521
	}
	return c<<16 | a
}

func must(err error) {
	if err != nil {
		panic(err)
	}
}

// ---------------------------------------------------------------------------------------------
// generators

func file(name string, size int, b byte) *tnode {
	return &tnode{Kind: "file", Name: name, Size: size, Byte: b}
}
func text(name, s string) *tnode  { return &tnode{Kind: "file", Name: name, Text: s} }
func link(name, to string) *tnode { return &tnode{Kind: "link", Name: name, Target: to} }
func dir(name string, ch ...*tnode) *tnode {
	sort.Slice(ch, func(i, j int) bool { return ch[i].Name < ch[j].Name })
	return &tnode{Kind: "dir", Name: name, Children: ch}
}
func missing(name string) *tnode { return &tnode{Kind: "missing", Name: name} }
func sock(name string) *tnode    { return &tnode{Kind: "sock", Name: name} }

var sizes = []int{0, 1, 3, 100, 511, 512, 513, 700, 1024, 1500}

func fixedSets() [][]*tnode {
	return [][]*tnode{
		{text("a.txt", "a"), text("c.txt", "c")}, // with b.txt missing in between: the pre-fix witness (corpus/C13)
		{text("only.txt", "hello")},
		{file("e", 0, 0)},
		{file("b512", 512, 'x'), file("b511", 511, 'y'), file("b513", 513, 'z')},
		{dir("d", text("d/x", "xx"), file("d/y", 0, 0), link("d/z", "x")), text("a.txt", "aaa")},
		{dir("empty")},
		{link("dangling", "nowhere"), link("up", "../t"), text("z", "zz")},
		{dir("n", dir("n/m", text("n/m/deep", "deep"), dir("n/m/e")), text("n/top", "t")), file("k", 1024, 'k')},
		{text("sub/x.txt", "in a subdirectory that is not itself an output"), link("sub/l", "x.txt"), text("y", "y")},
		{link("lone/l", "nowhere"), text("y", "y")}, // readTar does not create the parent of a symlink
		{},
	}
}

func randomSet(r *lib.Rng) []*tnode {
	n := r.Range(1, 5)
	out := []*tnode{}
	for i := 0; i < n; i++ {
		name := fmt.Sprintf("o%d", i)
		switch r.Intn(6) {
		case 0, 1, 2:
			out = append(out, file(name, lib.Pick(r, sizes), byte('a'+r.Intn(26))))
		case 3:
			out = append(out, link(name, lib.Pick(r, []string{"o0", "nowhere", "."})))
		default:
			ch := []*tnode{}
			for j, m := 0, r.Intn(4); j < m; j++ {
				cn := fmt.Sprintf("%s/c%d", name, j)
				switch r.Intn(5) {
				case 0:
					ch = append(ch, link(cn, "c0"))
				case 1:
					ch = append(ch, dir(cn, file(cn+"/g", lib.Pick(r, sizes), 'g')))
				default:
					ch = append(ch, file(cn, lib.Pick(r, sizes), byte('A'+r.Intn(26))))
				}
			}
			out = append(out, dir(name, ch...))
		}
	}
	return out
}

func cloneSet(s []*tnode) []*tnode {
	out := []*tnode{}
	for _, t := range s {
		out = append(out, t.clone())
	}
	return out
}

// faulted returns every way of injecting one read fault into the set: a declared output that
// does not exist at each position of the list, each output replaced by a missing one, and an
// unreadable member (a socket) at each position inside each directory output.
func faulted(s []*tnode) [][]*tnode {
	out := [][]*tnode{}
	for i := 0; i <= len(s); i++ {
		c := cloneSet(s)
		c = append(c[:i], append([]*tnode{missing("gone.txt")}, c[i:]...)...)
		out = append(out, c)
	}
	for i := range s {
		c := cloneSet(s)
		c[i] = missing(s[i].Name)
		out = append(out, c)
	}
	for i := range s {
		if s[i].Kind != "dir" {
			continue
		}
		for j := 0; j <= len(s[i].Children); j++ {
			c := cloneSet(s)
			ch := c[i].Children
			// a name that sorts at position j
			var name string
			switch {
			case j == 0:
				name = c[i].Name + "/!s"
			default:
				name = ch[j-1].Name + "~s"
			}
			c[i].Children = append(ch[:j:j], append([]*tnode{sock(name)}, ch[j:]...)...)
			out = append(out, c)
		}
	}
	return out
}

// a set with one entry marked to vanish during the store, and the file to hold the writer at
type vanishSet struct {
	files []*tnode
	hold  string
}

// vanishing returns every way of making one entry below a directory output disappear between
// the listing of its directory and the archive writer's visit: each child (file, link or
// subdirectory, at any depth) of each directory that is preceded, among the entries below that
// same directory, by a regular file - the writer is held where it opens the last such file.
func vanishing(s []*tnode) []vanishSet {
	out := []vanishSet{}
	for i := range s {
		var visit func(path []int, d *tnode)
		visit = func(path []int, d *tnode) {
			if d.Kind != "dir" {
				return
			}
			lastReg := ""
			for j, ch := range d.Children {
				if lastReg != "" {
					c := cloneSet(s)
					n := c[i]
					for _, k := range path {
						n = n.Children[k]
					}
					n.Children[j].Vanish = true
					out = append(out, vanishSet{c, lastReg})
				}
				visit(append(append([]int{}, path...), j), ch)
				ch.each(func(t *tnode) {
					if t.Kind == "file" {
						lastReg = t.Name
					}
				})
			}
		}
		visit(nil, s[i])
	}
	return out
}

// sets aimed at the vanishing-entry fault: directory outputs whose entries are preceded by regular files
func vanishSets() [][]*tnode {
	return [][]*tnode{
		{dir("v", file("v/aa", 3000, 'a'), text("v/zz", "the last file of the output\n")), text("after.txt", "after")},
		{text("before.txt", "b"), dir("w", text("w/a", "a"), dir("w/b", text("w/b/x", "x"), file("w/b/y", 513, 'y')), text("w/c", "c"), link("w/d", "a")), file("k", 1024, 'k')},
		{dir("u", file("u/0", 0, 0), dir("u/e"), link("u/l", "0"), file("u/m", 512, 'm'))},
	}
}

func setSize(s []*tnode) int {
	n := 0
	for _, t := range s {
		t.each(func(*tnode) { n++ })
	}
	return n
}

// ---------------------------------------------------------------------------------------------

func (sc *scenario) storeFaulty() bool {
	return !allHealthy(sc.Files) || sc.PutFault != "" || sc.StoreStyle == "head-fail" || sc.StoreStyle == "atomic-head-fail" || len(sc.Pre) > 0
}
func (r retr) faulty() bool { return r.GetFault != "" || r.RetrCut >= 0 || r.RetrExit != 0 }

func (sc *scenario) coq(w *worker, ob *observed, i int) string {
	files := []string{}
	for _, f := range sc.Files {
		files = append(files, f.coq(w.outDir))
	}
	r, ro := sc.Retrs[i], ob.R[i]
	switch sc.Kind {
	case "atomic":
		return lib.App("CCmdAtomic", lib.Str(w.outDir), lib.List(files),
			lib.Bool(ob.Stored), lib.N(uint64(ob.StoredLen)), lib.StrList(ob.Members), lib.Bool(ro.Hit), lib.List(ro.diskCoq))
	case "into":
		if sc.Cache == "http" {
			g := "GetOk"
			switch {
			case r.GetFault == "status":
				g = "GetStatus"
			case strings.HasPrefix(r.GetFault, "cut"):
				g = lib.App("GetCut", lib.N(uint64(ro.tarCut)))
			}
			return lib.App("CHttpInto", lib.Str(w.outDir), lib.List(files), lib.List(ro.preCoq), g, lib.Bool(ro.Hit), lib.List(ro.diskCoq))
		}
		return lib.App("CCmdInto", lib.Str(w.outDir), lib.List(files), lib.List(ro.preCoq),
			lib.Opt(r.RetrCut >= 0, lib.N(uint64(max(r.RetrCut, 0)))), lib.Bool(r.RetrExit == 0), lib.Bool(ro.Hit), lib.List(ro.diskCoq))
	}
	if sc.Cache == "http" {
		g := "GetOk"
		switch {
		case r.GetFault == "status":
			g = "GetStatus"
		case strings.HasPrefix(r.GetFault, "cut"):
			g = lib.App("GetCut", lib.N(uint64(ro.tarCut)))
		}
		if vp := sc.vanishPos(); vp >= 0 {
			// the tree is printed intact (Vanish does not change a node's term): the model removes node vp itself
			return lib.App("CHttpV", lib.Str(w.outDir), lib.List(files), lib.Nat(vp), lib.Bool(sc.PutFault == ""), g,
				lib.Bool(ob.Stored), lib.N(uint64(ob.StoredLen)), lib.StrList(ob.Members), lib.Bool(ro.Hit), lib.List(ro.diskCoq))
		}
		return lib.App("CHttp", lib.Str(w.outDir), lib.List(files), lib.Bool(sc.PutFault == ""), g,
			lib.Bool(ob.Stored), lib.N(uint64(ob.StoredLen)), lib.StrList(ob.Members), lib.Bool(ro.Hit), lib.List(ro.diskCoq))
	}
	all := allHealthy(sc.Files) && sc.StoreStyle != "head-fail" && sc.StoreStyle != "atomic-head-fail"
	if vp := sc.vanishPos(); vp >= 0 {
		return lib.App("CCmdV", lib.Str(w.outDir), lib.List(files), lib.Nat(vp), lib.Opt(ob.Stored, lib.N(uint64(ob.StoredLen))), lib.Bool(all),
			lib.Opt(r.RetrCut >= 0, lib.N(uint64(max(r.RetrCut, 0)))), lib.Bool(r.RetrExit == 0),
			lib.StrList(ob.Members), lib.Bool(ro.Hit), lib.List(ro.diskCoq))
	}
	return lib.App("CCmd", lib.Str(w.outDir), lib.List(files), lib.Opt(ob.Stored, lib.N(uint64(ob.StoredLen))), lib.Bool(all),
		lib.Opt(r.RetrCut >= 0, lib.N(uint64(max(r.RetrCut, 0)))), lib.Bool(r.RetrExit == 0),
		lib.StrList(ob.Members), lib.Bool(ro.Hit), lib.List(ro.diskCoq))
}

func main() {
	gologging.SetLevel(gologging.CRITICAL, "plz")
	lib.Main("C13", func(c *lib.Ctx) {
		c.Model("From PlzV Require Import Model.C13.", "C13.case", "C13.check")
		c.Rule("output sets (10 fixed adversarial + random: 1-5 outputs, files of sizes around the 512-byte tar block, symlinks, nested directories) " +
			"x every read-fault position (a missing output inserted at / substituted for each list position, an unarchivable socket at each position inside each directory output, " +
			"and an entry below a directory output - file, link or subtree at any depth - REMOVED DURING the store after its directory was listed and before the archive writer " +
			"reaches it: the writer is stopped by a file lease where it opens the regular file in front of it, or the store command itself removes the entry midway) " +
			"x cache (httpCache against an in-process server; cmdCache with plain, tmp+mv, pipeline, pipeline+tmp+mv, exec'd and failing store commands) " +
			"x transport faults (PUT aborted mid-body / refused; GET body cut at sampled offsets with Content-Length, chunked and close-delimited framing; non-200 status; " +
			"retrieve command output cut at sampled offsets, non-zero exit). One evaluation = one store followed by one retrieve into an empty output directory; " +
			"distinct = distinct (tree, cache, store fault, retrieve fault); non-trivial = at least one fault injected and at least one readable output. " +
			"Follow-up 2: (a) command-cache stores through a command that publishes only if it ran to its end (cat > tmp && sleep && mv by sh itself) with a read fault " +
			"BEFORE ANYTHING was written (first declared output missing / replaced by a missing one / an unarchivable socket), after the last output, and none; " +
			"(b) fault-free stores followed by retrieves INTO an output directory where the path of an output is occupied (each symlink: a stale link, the same link, an empty file, " +
			"a short file; each regular file: an empty or stale file), through both caches, whole and cut; " +
			"(c) histories on the real cacheMultiplexer over the real httpCache and cmdCache (both orders): build+Store / empty the output directory / Retrieve with per-cache faults " +
			"(GET cut INSIDE the content of the last file so that every output exists and the last is short, command output cut there, status, exit 1; PUT refused/aborted, store command refusing) - " +
			"fixed histories (total miss over half-restored outputs then fault-free retrieves, back-fill after a hit behind a failed cache, ...) and random ones of 5-10 operations; " +
			"one evaluation = one history, observed after every operation (result, what each cache holds, the output directory)")

		var scs []*scenario
		var one struct {
			Scenario *scenario `json:"scenario"`
		}
		if c.ReadReplay(&one) && one.Scenario != nil { // before the chdir: the replay path may be relative
			scs = []*scenario{one.Scenario}
		} else {
			scs = generate(c)
		}

		root, err := os.MkdirTemp("", "c13-")
		must(err)
		defer os.RemoveAll(root)
		must(os.Chdir(root))

		nw := 6
		workers := make([]*worker, nw)
		for i := range workers {
			workers[i] = newWorker(root, i)
			defer workers[i].srv.Close()
		}
		obs := make([]*observed, len(scs))
		var wg sync.WaitGroup
		for wi := range workers {
			wg.Add(1)
			go func(wi int) {
				defer wg.Done()
				for i := wi; i < len(scs); i += nw {
					t0 := time.Now()
					obs[i] = workers[wi].run(i, scs[i])
					if os.Getenv("C13_TIMING") != "" {
						fmt.Fprintf(os.Stderr, "T %s%s %s %d %d\n", scs[i].Cache, scs[i].Kind, storeFaultName(scs[i]), len(scs[i].Retrs), time.Since(t0).Milliseconds())
					}
				}
			}(wi)
		}
		wg.Wait()

		for i, sc := range scs {
			w := workers[i%nw]
			if sc.Kind == "mplex" {
				ob := obs[i]
				js := map[string]any{"scenario": sc, "observed": ob}
				faulty := false
				for _, op := range sc.Ops {
					faulty = faulty || op.R.faulty() || op.PutFault != "" || op.CmdRefuse
				}
				c.Case(sc.coqMplex(w, ob), js, keyOf(sc), faulty && len(sc.Files) > 0)
				c.Hist("cache", "mplex:"+strings.Join(sc.Order, "+"))
				c.HistN("mplex_ops", len(sc.Ops))
				for k, so := range ob.Steps {
					if so.Op != "retrieve" {
						continue
					}
					c.Hist("outcome", "mplex-"+so.Result+map[bool]string{true: "", false: "-INCOMPLETE"}[so.Result != "hit" || so.Incomplete == ""])
					// ---- the property, directly: a hit restored every output exactly ----
					c.Oracle()
					if so.Result == "hit" && so.Incomplete != "" {
						c.Fail("mplex-hit-with-incomplete-outputs", fmt.Sprintf("multiplexer over %v: operation %d (retrieve) reports a hit but %s; history: %s",
							sc.Order, k, so.Incomplete, historyOf(sc, ob, k)), js)
					}
					c.Oracle()
					if so.Result == "hung" {
						c.Fail("retrieve-does-not-return", "the multiplexer's Retrieve neither reports a hit nor a miss within 45 s", js)
					}
				}
				continue
			}
			readable := false
			for _, f := range sc.Files {
				f.each(func(t *tnode) { readable = readable || t.Kind == "file" || t.Kind == "link" })
			}
			// whatever a store with a read fault leaves must not go on past the fault: its members are
			// a prefix of the members in front of the first unreadable one
			c.Oracle()
			if !allHealthy(sc.Files) {
				front := membersBeforeFault(sc.Files, w.outDir)
				bad := len(obs[i].Members) > len(front)
				for k := 0; !bad && k < len(obs[i].Members); k++ {
					bad = obs[i].Members[k] != front[k]
				}
				if bad && sc.vanishNode() != nil {
					c.Fail("store-went-on-after-vanished-entry", fmt.Sprintf("%s cache: an entry of a directory output was removed after the directory had been listed "+
						"and before the archive writer reached it (%s); the stored entry holds %v, the members in front of the vanished entry are %v",
						sc.Cache, obs[i].Vanished, obs[i].Members, front), map[string]any{"scenario": sc, "observed": obs[i]})
				} else if bad {
					c.Fail("store-went-on-after-read-fault", fmt.Sprintf("%s cache: the stored entry holds %v, the members in front of the unreadable output are %v",
						sc.Cache, obs[i].Members, front), map[string]any{"scenario": sc, "observed": obs[i]})
				}
			}
			c.Oracle()
			if sc.Kind == "atomic" && !allHealthy(sc.Files) && obs[i].Stored {
				c.Fail("cmd-atomic-store-published-after-read-fault", fmt.Sprintf("command cache: an output could not be read (%s), yet a store command that publishes "+
					"only when it ran to its end (cat > tmp && sleep && mv, all by sh itself) published an entry holding %v: the cancel did not stop it",
					firstFault(sc.Files), obs[i].Members), map[string]any{"scenario": sc, "observed": obs[i]})
			}
			c.Oracle()
			if obs[i].Stored && sc.Cache == "http" && (sc.PutFault != "" || !allHealthy(sc.Files)) {
				c.Fail("http-entry-left-by-failed-store", "the server holds an entry after a store that failed ("+storeFaultName(sc)+")",
					map[string]any{"scenario": sc, "observed": obs[i]})
			}
			for ri, r := range sc.Retrs {
				ob, ro := obs[i], obs[i].R[ri]
				one := *sc
				one.Retrs = []retr{r}
				js := map[string]any{"scenario": &one, "observed": map[string]any{"stored": ob.Stored, "stored_len": ob.StoredLen,
					"footer": ob.Footer, "members": ob.Members, "retrieve": ro}}
				faulty := sc.storeFaulty() || r.faulty()
				c.Case(sc.coq(w, ob, ri), js, keyOf(&one), faulty && readable)
				c.Hist("cache", sc.Cache)
				c.Hist("store_fault", storeFaultName(sc))
				c.Hist("retrieve_fault", retrFaultName(r))
				c.HistN("tree_nodes", setSize(sc.Files))
				c.Hist("outcome", outcome(ro))

				// ---- the property, directly on the implementation ----
				c.Oracle()
				if ro.Hit && !ro.Complete {
					class := "hit-with-incomplete-outputs"
					// the archive stops exactly at the unreadable output (the known command-cache
					// defect finishes THAT archive; an archive that goes on behind the fault is another matter)
					stopsAtFault := sameStrings(ob.Members, membersBeforeFault(sc.Files, w.outDir))
					switch {
					case len(sc.Pre) > 0:
						// the path of an output was occupied when the retrieve ran: that retrieve cannot have
						// restored it and must be a miss
						class = "hit-over-occupied-output-path"
					case sc.Kind == "atomic" && !allHealthy(sc.Files):
						// sh itself publishes, after a pause: killed or never started, it cannot have
						class = "cmd-atomic-store-published-after-read-fault"
					case sc.Cache == "http" && sc.vanishNode() != nil:
						class = "http-hit-after-entry-vanished-during-store"
					case sc.Cache == "cmd" && sc.vanishNode() != nil && !(ob.Footer && stopsAtFault && !r.faulty()):
						class = "cmd-hit-after-entry-vanished-during-store"
					case sc.Cache == "http" && !allHealthy(sc.Files):
						class = "http-hit-after-read-fault"
					case sc.Cache == "http" && sc.PutFault != "":
						class = "http-hit-after-put-fault"
					case sc.Cache == "http" && r.GetFault != "":
						class = "http-hit-on-failed-get"
					case sc.Cache == "cmd" && !allHealthy(sc.Files) && ob.Footer && stopsAtFault && !r.faulty() &&
						sc.StoreStyle != "head-fail" && sc.StoreStyle != "atomic-head-fail":
						// the store command received, after the read error, an archive that is closed
						// with the end-of-archive marker and a clean end of input
						class = "cmd-read-fault-archive-finished-with-footer"
					case sc.Cache == "cmd" && r.faulty():
						class = "cmd-hit-on-failed-retrieve"
					case sc.Cache == "cmd":
						class = "cmd-hit-after-failed-store"
					}
					c.Fail(class, fmt.Sprintf("%s cache: Retrieve reports a hit but %s (store fault: %s, retrieve fault: %s)",
						sc.Cache, ro.Incomplete+unreadableNote(sc), storeFaultName(sc), retrFaultName(r)), js)
				}
				c.Oracle()
				if ro.Hung {
					c.Fail("retrieve-does-not-return", "Retrieve neither reports a hit nor a miss within 45 s ("+retrFaultName(r)+")", js)
				}
				c.Oracle()
				if ro.Hit && sc.Cache == "cmd" && r.RetrExit != 0 {
					c.Fail("cmd-hit-despite-failed-retrieve-command", "the retrieve command exited non-zero and Retrieve reports a hit", js)
				}
				c.Oracle()
				if ro.Hit && sc.Cache == "cmd" && r.RetrCut >= 0 && r.RetrCut < ob.StoredLen {
					c.Fail("cmd-hit-on-truncated-output", "the retrieve command's output ended before the end of the entry and Retrieve reports a hit", js)
				}
			}
		}
	})
}

func firstFault(files []*tnode) string {
	pos, out := 0, ""
	for _, f := range files {
		f.each(func(t *tnode) {
			if out == "" && (t.Kind == "sock" || t.Kind == "missing" || t.Vanish) {
				out = fmt.Sprintf("%s %s at walk position %d", t.Kind, t.Name, pos)
			}
			pos++
		})
	}
	return out
}

func historyOf(sc *scenario, ob *observed, upto int) string {
	var b strings.Builder
	for k := 0; k <= upto && k < len(sc.Ops); k++ {
		op, so := sc.Ops[k], ob.Steps[k]
		fmt.Fprintf(&b, "[%d %s", k, op.Op)
		if op.Op == "retrieve" {
			fmt.Fprintf(&b, " (%s) -> %s", retrFaultName(op.R), so.Result)
		}
		for ci, e := range so.Entries {
			if e.Wrote {
				fmt.Fprintf(&b, "; stored into %s: %d bytes", sc.Order[ci], e.Len)
			}
		}
		b.WriteString("] ")
	}
	return b.String()
}

func sameStrings(a, b []string) bool {
	if len(a) != len(b) {
		return false
	}
	for i := range a {
		if a[i] != b[i] {
			return false
		}
	}
	return true
}

func membersBeforeFault(files []*tnode, outDir string) []string {
	out, stop := []string{}, false
	for _, f := range files {
		f.each(func(t *tnode) {
			if t.Kind == "sock" || t.Kind == "missing" || t.Vanish {
				stop = true
			}
			if !stop {
				out = append(out, filepath.Join(outDir, t.Name))
			}
		})
	}
	return out
}

func membersBeforeFaultCount(files []*tnode) int { return len(membersBeforeFault(files, "")) }

func unreadableNote(sc *scenario) string {
	if allHealthy(sc.Files) {
		return ""
	}
	if v := sc.vanishNode(); v != nil {
		return " [" + v.Name + " was removed during the store, after its directory had been listed]"
	}
	return " [an output could not be read during the store]"
}

func keyOf(sc *scenario) string {
	var b strings.Builder
	fmt.Fprintf(&b, "%s|%s|%s|%d|%+v|%s|%v|%s|%v|%+v", sc.Cache, sc.PutFault, sc.StoreStyle, sc.StoreHead, sc.Retrs, sc.Hold, sc.HoldByCmd, sc.Kind, sc.Order, sc.Ops)
	for _, f := range sc.Pre {
		f.each(func(t *tnode) { fmt.Fprintf(&b, "|pre:%s:%s:%d:%s:%s", t.Kind, t.Name, t.Size, t.Text, t.Target) })
	}
	for _, f := range sc.Files {
		f.each(func(t *tnode) {
			fmt.Fprintf(&b, "|%s:%s:%d:%d:%s:%s:%v", t.Kind, t.Name, t.Size, t.Byte, t.Text, t.Target, t.Vanish)
		})
	}
	return b.String()
}

func storeFaultName(sc *scenario) string {
	switch {
	case !allHealthy(sc.Files):
		k := "read-fault"
		for _, f := range sc.Files {
			f.each(func(t *tnode) {
				if t.Kind == "sock" {
					k = "read-fault-inside-dir"
				}
				if t.Vanish {
					k = "entry-vanished-during-store"
				}
			})
		}
		if sc.Kind == "atomic" && membersBeforeFaultCount(sc.Files) == 0 {
			k += "-before-anything-was-written"
		}
		if sc.Cache == "cmd" {
			return k + "/" + sc.StoreStyle
		}
		return k
	case sc.PutFault != "":
		return "put-" + sc.PutFault
	case sc.StoreStyle == "head-fail" || sc.StoreStyle == "atomic-head-fail":
		return "command-" + sc.StoreStyle
	case len(sc.Pre) > 0:
		return "none/retrieve-over-occupied-path"
	}
	return "none"
}

func retrFaultName(r retr) string {
	switch {
	case r.GetFault != "":
		return "get-" + r.GetFault
	case r.RetrCut >= 0 && r.RetrExit != 0:
		return "output-cut+exit"
	case r.RetrCut >= 0:
		return "output-cut"
	case r.RetrExit != 0:
		return "exit"
	}
	return "none"
}

func outcome(ob *retrObs) string {
	switch {
	case ob.Hit && ob.Complete:
		return "hit-complete"
	case ob.Hit:
		return "hit-INCOMPLETE"
	}
	return "miss"
}

// tarLen is the length of the archive the real writer produces for a healthy set, computed
// from the tar layout (header block + content padded to 512 per member, two zero blocks).
func tarLen(s []*tnode) int {
	n := 1024
	for _, t := range s {
		t.each(func(t *tnode) {
			n += 512
			if t.Kind == "file" {
				n += (len(t.content()) + 511) / 512 * 512
			}
		})
	}
	return n
}

func cutOffsets(r *lib.Rng, n, count int, every bool) []int {
	set := map[int]bool{}
	if every {
		for i := 0; i < n; i++ {
			set[i] = true
		}
	} else {
		for _, x := range []int{0, 1, 9, 10, 11, 18, n / 2, n - 9, n - 8, n - 7, n - 1} {
			if x >= 0 && x < n {
				set[x] = true
			}
		}
		for i := 0; i < count; i++ {
			set[r.Intn(max(n, 1))] = true
		}
	}
	out := []int{}
	for k := range set {
		out = append(out, k)
	}
	sort.Ints(out)
	return out
}

func blockOffsets(r *lib.Rng, n, count int, dense bool) []int {
	set := map[int]bool{}
	edge := []int{0, n - 1, n - 512, n - 513, n - 1024, n - 1025}
	lib.Shuffle(r, edge)
	for i, e := range edge {
		if dense || i < 2 {
			set[e] = true
		}
	}
	if dense {
		for b := 0; b <= n; b += 64 {
			set[b] = true
		}
		for b := 0; b <= n; b += 512 {
			set[b], set[b+1], set[b-1] = true, true, true
		}
	}
	for i := 0; i < count; i++ {
		b := r.Intn(max(n/512, 1)) * 512
		set[b+lib.Pick(r, []int{-1, 0, 0, 1, 100, 511})] = true
		set[r.Intn(max(n, 1))] = true
	}
	out := []int{}
	for k := range set {
		if k >= 0 && k < n {
			out = append(out, k)
		}
	}
	sort.Ints(out)
	return out
}

func generate(c *lib.Ctx) []*scenario {
	r := c.Rng.Fork()
	var scs []*scenario
	add := func(sc *scenario) {
		if sc.Retrs == nil && sc.Kind != "mplex" {
			sc.Retrs = []retr{whole}
		}
		scs = append(scs, sc)
	}
	sets := fixedSets()
	nfixed := len(sets)
	for i, n := 0, c.Scale(14, 150); i < n; i++ {
		sets = append(sets, randomSet(r))
	}
	getFaults := []string{"cut-length", "cut-chunked", "cut-close"}
	styles := []string{"plain", "atomic", "pipe", "pipe-atomic", "exec"}

	// 0. the input that demonstrated the defect fixed by dde3306 (corpus/C13), on both caches
	witness := []*tnode{text("a.txt", "a"), missing("b.txt"), text("c.txt", "c")}
	add(&scenario{Cache: "http", Files: cloneSet(witness), Why: "corpus: http store with an unreadable output"})
	// 0b. the same with enough data in front of the fault for the store command to be running
	// (and, for a pipeline, to have started its children) when the fault is hit
	big := []*tnode{file("big.bin", 300000, 'a'), missing("b.txt"), text("c.txt", "c")}
	add(&scenario{Cache: "http", Files: cloneSet(big), Why: "read fault after 300 kB"})
	for _, st := range styles {
		add(&scenario{Cache: "cmd", Files: cloneSet(witness), StoreStyle: st, Why: "corpus witness through the command cache"})
		for k := 0; k < c.Scale(1, 3); k++ {
			add(&scenario{Cache: "cmd", Files: cloneSet(big), StoreStyle: st, Why: "read fault after 300 kB: the store command is running"})
		}
	}

	ncmd := 0
	for si, s := range sets {
		fixed := si < nfixed
		// 1. HTTP: every read-fault position
		fs := faulted(s)
		for _, f := range fs {
			add(&scenario{Cache: "http", Files: f})
		}
		// 2. HTTP: healthy store, then every kind of transport fault
		add(&scenario{Cache: "http", Files: cloneSet(s), PutFault: "abort"})
		add(&scenario{Cache: "http", Files: cloneSet(s), PutFault: "status"})
		rs := []retr{whole, {GetFault: "status", RetrCut: -1}}
		gzGuess := 60 + 12*setSize(s) // the real length is only known after the store; offsets beyond it mean "no cut"
		for _, off := range cutOffsets(r, gzGuess+40, c.Scale(3, 12), c.Thor && fixed) {
			rs = append(rs, retr{GetFault: lib.Pick(r, getFaults), GetCut: off, RetrCut: -1})
		}
		add(&scenario{Cache: "http", Files: cloneSet(s), Retrs: rs})

		// 3. command cache (each process it starts is expensive, so the quick tier samples):
		// read faults through the store styles
		for fi, f := range fs {
			if !c.Thor && !((fixed && si < 4) || fi == si%len(fs)) {
				continue
			}
			st := styles[(fi+si)%len(styles)]
			add(&scenario{Cache: "cmd", Files: cloneSet(f), StoreStyle: st})
			ncmd++
			if c.Thor && fixed {
				for _, st2 := range styles {
					if st2 != st {
						add(&scenario{Cache: "cmd", Files: cloneSet(f), StoreStyle: st2})
					}
				}
			}
		}
		// 4. command cache: healthy store, faults in the retrieve command; failing store commands
		n := tarLen(s)
		rs = []retr{whole, {RetrCut: -1, RetrExit: 1}}
		for _, off := range blockOffsets(r, n, c.Scale(1, 6), c.Thor && fixed) {
			rs = append(rs, retr{RetrCut: off, RetrExit: lib.Pick(r, []int{0, 0, 0, 2})})
		}
		if c.Thor || fixed || si%2 == 0 {
			add(&scenario{Cache: "cmd", Files: cloneSet(s), StoreStyle: lib.Pick(r, styles), Retrs: rs})
		}
		if c.Thor || si%3 == 0 {
			offs := blockOffsets(r, n, 1, false)
			add(&scenario{Cache: "cmd", Files: cloneSet(s), StoreStyle: "head-fail", StoreHead: lib.Pick(r, offs)})
			add(&scenario{Cache: "cmd", Files: cloneSet(s), StoreStyle: lib.Pick(r, []string{"head-fail", "atomic-head-fail"}), StoreHead: lib.Pick(r, []int{n, n + 100, n / 2})})
		}
	}
	// 5. an entry of a directory output vanishes DURING the store, after its directory was listed
	// and before the archive writer reaches it (every such position of the dedicated sets, of
	// the fixed sets and of the random sets), through both caches
	nv, vstyles := 0, []string{"atomic", "pipe-atomic", "plain", "atomic", "pipe", "exec"}
	vsets := append(vanishSets(), sets...)
	for si, s := range vsets {
		for vi, v := range vanishing(s) {
			add(&scenario{Cache: "http", Files: v.files, Hold: v.hold, Why: "entry vanishes during the store"})
			nv++
			if c.Thor || si < 3 || vi == si%3 {
				add(&scenario{Cache: "cmd", Files: cloneSet(v.files), Hold: v.hold, StoreStyle: vstyles[(si+vi)%len(vstyles)],
					Why: "entry vanishes during the store"})
				nv++
			}
		}
	}
	// 5b. the same fault produced by the store command itself: it removes the last entry of the
	// directory after consuming 64 kB of a 300 kB first entry (the writer cannot be further than
	// the pipe buffers ahead), and publishes (tmp + mv by sh itself) only if it runs to completion
	for k := 0; k < c.Scale(1, 3); k++ {
		zz := text("outdir/zz", "the last file of the output\n")
		zz.Vanish = true
		add(&scenario{Cache: "cmd", Files: []*tnode{dir("outdir", file("outdir/aa", 300000, 'a'), zz), text("tail.txt", "t")},
			StoreStyle: "atomic-rm-midway", StoreHead: 65536, HoldByCmd: true, Why: "the store command removes an entry midway"})
		nv++
	}
	n5 := len(scs)
	// 6. (follow-up 2) a read fault BEFORE ANYTHING was written - the first declared output is missing or
	// cannot be archived - through a store command that publishes only if it ran to its end: the
	// archive writer is started before the store process exists, so the cancel can come first.
	// With later positions and no fault for contrast.
	for si, s := range sets {
		if len(s) == 0 || (!c.Thor && si >= 5 && si != nfixed) {
			continue
		}
		first := [][]*tnode{
			append([]*tnode{missing("gone.txt")}, cloneSet(s)...),
			append([]*tnode{missing(s[0].Name)}, cloneSet(s[1:])...),
			append([]*tnode{sock("first.sock")}, cloneSet(s)...),
		}
		for vi, f := range first {
			for k := 0; k < c.Scale(1, 3); k++ {
				if c.Thor || si < 2 || vi == si%3 {
					add(&scenario{Kind: "atomic", Cache: "cmd", Files: cloneSet(f), StoreStyle: "atomic-slow", Why: "read fault before anything was written"})
				}
			}
		}
		if c.Thor || si < 3 {
			add(&scenario{Kind: "atomic", Cache: "cmd", Files: append(cloneSet(s), missing("gone.txt")), StoreStyle: "atomic-slow", Why: "read fault after the last output"})
			add(&scenario{Kind: "atomic", Cache: "cmd", Files: cloneSet(s), StoreStyle: "atomic-slow", Why: "no fault"})
		}
	}
	for k := 0; k < c.Scale(3, 8); k++ { // the shape of the seeded demonstration: three files, the first one missing
		add(&scenario{Kind: "atomic", Cache: "cmd", Files: []*tnode{missing("a.txt"), file("b.txt", 2000, 'b'), file("c.txt", 1000, 'c')},
			StoreStyle: "atomic-slow", Why: "the first of three outputs is missing"})
	}
	n6 := len(scs)

	// 7. (follow-up 2) retrieve into an output directory in which the path of an output is already
	// occupied: a stale link, the same link, an empty or short regular file (what openFile leaves when
	// a retrieve fails right after creating it), at every symlink and every regular file of the set
	intoSets := [][]*tnode{
		{file("lib.so.2", 5000, 'L'), link("lib.so", "lib.so.2")},
		{link("first", "second"), text("second", "2")},
	}
	for si, s := range append(intoSets, sets...) {
		nlinks := 0
		for _, f := range s {
			f.each(func(t *tnode) {
				if t.Kind == "link" {
					nlinks++
				}
			})
		}
		if nlinks == 0 && !(c.Thor || si%4 == 0) {
			continue
		}
		k := 0
		for _, f := range s {
			f.each(func(t *tnode) {
				var pres [][]*tnode
				switch t.Kind {
				case "link":
					pres = [][]*tnode{{link(t.Name, t.Target+".old")}, {link(t.Name, t.Target)}, {file(t.Name, 0, 0)}, {text(t.Name, "x")}}
				case "file":
					pres = [][]*tnode{{file(t.Name, 0, 0)}, {text(t.Name, "stale")}}
					if !c.Thor && si >= 2 {
						pres = pres[(si+k)%2:][:1]
						if k > 2 {
							pres = nil
						}
					}
				}
				for pi, pre := range pres {
					k++
					rs := []retr{whole}
					if pi == 0 {
						rs = append(rs, retr{GetFault: "cut-length", GetCut: 30 + r.Intn(40), RetrCut: -1})
					}
					add(&scenario{Kind: "into", Cache: "http", Files: cloneSet(s), Pre: pre, Retrs: rs, Why: "retrieve over an occupied path"})
					if c.Thor || (si < 2 && t.Kind == "link") || (t.Kind == "link" && k%7 == 0) {
						add(&scenario{Kind: "into", Cache: "cmd", Files: cloneSet(s), Pre: pre, StoreStyle: "atomic", Why: "retrieve over an occupied path"})
					}
				}
			})
		}
	}
	n7 := len(scs)

	// 8. (follow-up 2) histories on the multiplexer (HTTP + command cache, as newSyncCache orders
	// them, and the other way round): build+store / wipe / retrieve, with a retrieve that fails
	// partway INSIDE the content of the last file (every output then exists, the last one short)
	// followed by fault-free retrieves; fixed histories and random ones
	mplexSets := [][]*tnode{
		{file("a.txt", 1000, 'a'), file("b.txt", 6000, 'b')},
		{text("x", "xx"), link("l", "x"), file("big", 3000, 'B')},
		{file("only", 2500, 'o')},
	}
	inLast := func(s []*tnode) int { // a tar offset inside the content of the last regular file
		off, at := 0, 0
		for _, f := range s {
			off += 512
			if f.Kind == "file" {
				n := len(f.content())
				at = off + n/2
				off += (n + 511) / 512 * 512
			}
		}
		return at
	}
	cutHTTP := retr{GetFault: "cut-in-last", RetrCut: -1}
	hists := func(s []*tnode) [][]mop {
		cutCmd := retr{RetrCut: inLast(s)}
		cutBoth := retr{GetFault: "cut-in-last", RetrCut: inLast(s)}
		return [][]mop{
			// the first cache fails partway, the second has nothing: a total miss over half-restored outputs
			{{Op: "build", CmdRefuse: true}, {Op: "wipe"}, {Op: "retrieve", R: cutHTTP}, {Op: "wipe"}, {Op: "retrieve", R: whole}},
			{{Op: "build", CmdRefuse: true}, {Op: "wipe"}, {Op: "retrieve", R: cutHTTP}, {Op: "retrieve", R: whole}},
			{{Op: "build", PutFault: "status"}, {Op: "wipe"}, {Op: "retrieve", R: cutCmd}, {Op: "wipe"}, {Op: "retrieve", R: whole}},
			// both have it, both fail partway
			{{Op: "build"}, {Op: "wipe"}, {Op: "retrieve", R: cutBoth}, {Op: "wipe"}, {Op: "retrieve", R: whole}},
			// the first fails partway, the second hits: the first is back-filled from restored outputs
			{{Op: "build"}, {Op: "wipe"}, {Op: "retrieve", R: cutHTTP}, {Op: "wipe"}, {Op: "retrieve", R: whole}},
			{{Op: "build", PutFault: "abort"}, {Op: "wipe"}, {Op: "retrieve", R: whole}, {Op: "wipe"}, {Op: "retrieve", R: cutCmd}},
			// nothing anywhere, empty output directory
			{{Op: "retrieve", R: whole}, {Op: "build"}, {Op: "wipe"}, {Op: "retrieve", R: retr{GetFault: "status", RetrCut: -1, RetrExit: 1}}, {Op: "retrieve", R: whole}},
		}
	}
	orders := [][]string{{"http", "cmd"}, {"cmd", "http"}}
	for si, s := range mplexSets {
		for hi, h := range hists(s) {
			for oi, o := range orders {
				if c.Thor || (si == 0 && (hi < 2 || hi%2 == oi)) || (si > 0 && (hi+si)%4 == oi) {
					add(&scenario{Kind: "mplex", Files: cloneSet(s), Order: o, Ops: h, Why: "multiplexer history"})
				}
			}
		}
	}
	for k, n := 0, c.Scale(8, 80); k < n; k++ {
		s := cloneSet(mplexSets[r.Intn(len(mplexSets))])
		rfaults := []retr{whole, whole, cutHTTP, {RetrCut: inLast(s)}, {GetFault: "cut-in-last", RetrCut: inLast(s)}, {GetFault: "status", RetrCut: -1},
			{RetrCut: -1, RetrExit: 1}, {GetFault: "cut-length", GetCut: 20 + r.Intn(60), RetrCut: 512 * r.Intn(6)}}
		ops := []mop{{Op: "build", CmdRefuse: r.Intn(3) == 0, PutFault: lib.Pick(r, []string{"", "", "status", "abort"})}}
		for j, m := 0, r.Range(2, 5); j < m; j++ {
			switch r.Intn(5) {
			case 0:
				ops = append(ops, mop{Op: "build", CmdRefuse: r.Intn(4) == 0, PutFault: lib.Pick(r, []string{"", "", "", "status"})})
			case 1:
				ops = append(ops, mop{Op: "wipe"})
			default:
				if r.Intn(2) == 0 {
					ops = append(ops, mop{Op: "wipe"})
				}
				ops = append(ops, mop{Op: "retrieve", R: lib.Pick(r, rfaults), CmdRefuse: r.Intn(5) == 0, PutFault: lib.Pick(r, []string{"", "", "", "status"})})
			}
		}
		ops = append(ops, mop{Op: "wipe"}, mop{Op: "retrieve", R: whole})
		add(&scenario{Kind: "mplex", Files: s, Order: orders[r.Intn(2)], Ops: ops, Why: "random multiplexer history"})
	}
	c.Note("%d output sets (%d fixed), %d stores, %d of them with an entry vanishing during the store; follow-up 2: %d stores through a publish-on-success command "+
		"(read fault before anything was written, later, none), %d retrieves into an output directory with an occupied path, %d multiplexer histories",
		len(sets), nfixed, n5, nv, n6-n5, n7-n6, len(scs)-n7)
	return scs
}
