// C11: test results are reused only when the test's runtime inputs are unchanged (end to end, real plz).
package main

import (
	"encoding/json"
	"fmt"
	"os"
	"sort"
	"strings"
	"sync"
	"time"

	"verifharness/e2e"
	"verifharness/lib"
)

// ---------------------------------------------------------------------------------------------
// One step of a history as the harness saw it.

type stepRec struct {
	Index    int                       `json:"index"`
	Edit     e2e.Edit                  `json:"edit"`
	Rm       bool                      `json:"rm_plz_out"`
	Inv      e2e.C11Inv                `json:"invocation"`
	Replace  bool                      `json:"files_replaced"` // changed files were replaced (new inode) rather than rewritten in place
	SameIno  map[string]bool           `json:"rewritten_same_inode,omitempty"`
	Spec     *e2e.C11Spec              `json:"spec"`
	Exit     int                       `json:"exit"`
	Clean    int                       `json:"clean_exit"`
	Inc      map[string]e2e.C11Outcome `json:"incremental"`
	Fresh    map[string]e2e.C11Outcome `json:"fresh"`
	NKeys    map[string]int            `json:"cache_keys"`
	Executed []string                  `json:"executed"`
	Stderr   string                    `json:"stderr,omitempty"`
}

type history struct {
	Index     int       `json:"history"`
	Kind      string    `json:"kind"` // scripted:<name> | random
	CacheOn   bool      `json:"cache_on"`
	LogPath   string    `json:"log_path"`
	Steps     []stepRec `json:"steps"`
	FreshRuns int       `json:"fresh_runs"`
}

// a plan yields the successive states of the tree; it is either scripted or random
type plan struct {
	kind       string
	cacheOn    bool
	initial    *e2e.C11Spec
	next       func(i int, cur *e2e.C11Spec, past []*e2e.C11Spec) move
	steps      int
	initialInv e2e.C11Inv // how the first invocation is made
}

// a move is one step of a plan: the next tree, how its changed files are written, and how plz is invoked
type move struct {
	spec    *e2e.C11Spec
	ed      e2e.Edit
	rm      bool
	inv     e2e.C11Inv
	replace bool
}

// at most this many plz processes at a time, over all histories
var plzSem = make(chan struct{}, 12)

func runPlz(r *e2e.Repo, args ...string) e2e.Result {
	plzSem <- struct{}{}
	defer func() { <-plzSem }()
	return r.Run(120*time.Second, args...)
}

type freshRes struct {
	out  map[string]e2e.C11Outcome
	exit int
}

func runPlan(idx int, base string, p plan) history {
	repo := e2e.NewRepo(base, "repo")
	if p.cacheOn {
		repo.CacheDir = base + "/cache"
	}
	h := history{Index: idx, Kind: p.kind, CacheOn: p.cacheOn, LogPath: repo.LogPath}
	// the successive trees do not depend on what plz does, so they are computed first ...
	cur := p.initial
	var past []*e2e.C11Spec
	var moves []move
	for i := 0; i <= p.steps; i++ {
		m := move{spec: cur, ed: e2e.Edit{Kind: "initial"}, inv: p.initialInv}
		if i > 0 {
			m = p.next(i, cur.Clone(), past)
			cur = m.spec
		}
		past = append(past, cur.Clone())
		moves = append(moves, m)
	}
	// ... and the fresh run of every distinct (tree, invocation) (a clean copy: no plz-out, no cache) goes on concurrently
	fresh := map[string]*freshRes{}
	keyOf := func(i int) string {
		js, _ := json.Marshal([]any{past[i], moves[i].inv})
		return string(js)
	}
	var wg sync.WaitGroup
	for i, s := range past {
		k := keyOf(i)
		if _, ok := fresh[k]; ok {
			continue
		}
		fr := &freshRes{}
		fresh[k] = fr
		wg.Add(1)
		go func(i int, s *e2e.C11Spec) {
			defer wg.Done()
			clean := e2e.NewRepo(base, fmt.Sprintf("clean%d", i))
			clean.Write(s.Spec(clean.LogPath))
			res := runPlz(clean, moves[i].inv.PlzArgs()...)
			fr.out, fr.exit = clean.C11Results(s, res), res.Exit
			os.RemoveAll(clean.Dir)
		}(i, s)
	}
	for i, s := range past {
		m := moves[i]
		if m.rm {
			repo.RemovePlzOut()
		}
		sameIno := repo.C11WriteFiles(s, m.replace)
		repo.Write(s.Spec(repo.LogPath))
		res := runPlz(repo, m.inv.PlzArgs()...)
		st := stepRec{Index: i, Edit: m.ed, Rm: m.rm, Inv: m.inv, Replace: m.replace, SameIno: sameIno, Spec: s, Exit: res.Exit, Executed: res.Executed, NKeys: map[string]int{}}
		st.Inc = repo.C11Results(s, res)
		for _, t := range s.Tests {
			st.NKeys[t.Name] = repo.C11CacheKeys(t)
		}
		if res.Exit != 0 {
			st.Stderr = tailStr(res.Stderr+res.Stdout, 1200)
		}
		h.Steps = append(h.Steps, st)
	}
	wg.Wait()
	for i := range h.Steps {
		fr := fresh[keyOf(i)]
		h.Steps[i].Fresh, h.Steps[i].Clean = fr.out, fr.exit
	}
	h.FreshRuns = len(fresh)
	return h
}

func tailStr(s string, n int) string {
	if len(s) > n {
		return s[len(s)-n:]
	}
	return s
}

// ---------------------------------------------------------------------------------------------
// Generator

var words = []string{"ok\n", "no\n", "yes ok\n", "", "nope\n", "okay\n", "yes\n"}

func baseSpec() *e2e.C11Spec {
	return &e2e.C11Spec{Files: map[string]string{
		"a.txt": "ok\n", "b.txt": "no\n", "c.txt": "yes\n",
		"s1.txt": "bin ok\n", "s2.txt": "more\n", "s3.txt": "bin ok\n",
		"dd/a.txt": "one\n", "dd/b.txt": "two ok\n",
		"u.txt": "unrelated\n",
	}, Gens: []*e2e.C11Gen{{Name: "g0", Out: "x0.txt", Content: "ok"}, {Name: "g1", Out: "x1.txt", Content: "no"}},
		Groups: []*e2e.C11Group{{Name: "fg0", Srcs: []string{"a.txt", "b.txt"}}, {Name: "fg1", Srcs: []string{"c.txt"}}}}
}

var dataPool = []string{"a.txt", "b.txt", "c.txt", ":g0", ":g1", "dd", ":fg0", ":fg1"}

func genCmd(r *lib.Rng, s *e2e.C11Spec, t *e2e.C11Test) {
	if len(t.Cmds) > 0 { // a dict: one of its entries gets another command
		i := r.Intn(len(t.Cmds))
		t.Cmds[i].Op, t.Cmds[i].Arg = genOp(r, s, t)
		return
	}
	t.Op, t.Arg = genOp(r, s, t)
}

func genOp(r *lib.Rng, s *e2e.C11Spec, t *e2e.C11Test) (string, string) {
	switch r.Intn(15) {
	case 11, 12, 13:
		// the regular file AT one destination holds a word: sensitive to which content lies where
		cands := []string{}
		for _, f := range s.RuntimeFiles(t) {
			if f.Role == "data" && !f.Node.Dir {
				cands = append(cands, f.Dest)
			}
		}
		cands = append(cands, "p/a.txt", "p/x0.txt")
		return "filehas", lib.Pick(r, []string{"ok", "ok", "yes", "no"}) + " " + lib.Pick(r, cands)
	case 0, 1, 2, 3:
		return "passif", lib.Pick(r, []string{"ok", "ok", "yes", "two"})
	case 4:
		return "binok", lib.Pick(r, []string{"ok", "more"})
	case 5, 6, 7:
		// a path that exists now, most of the time
		cands := []string{}
		for _, f := range s.RuntimeFiles(t) {
			if f.Role == "data" {
				cands = append(cands, f.Dest)
				for _, e := range f.Node.Entries {
					cands = append(cands, f.Dest+"/"+e[0])
				}
			}
		}
		cands = append(cands, "p/x0.txt", "p/dd/a.txt")
		return "exists", lib.Pick(r, cands)
	case 8:
		return "true", ""
	case 9:
		return "argis", "good"
	case 10:
		return "argisnot", "bad"
	}
	return "fail", ""
}

// genDict turns the plain test command of t into a per-config dict whose entry for the default config is
// that command (most of the time), so that the effective command under the default config is unchanged.
func genDict(r *lib.Rng, s *e2e.C11Spec, t *e2e.C11Test) {
	op2, arg2 := genOp(r, s, t)
	switch r.Intn(4) {
	case 0, 1:
		t.Cmds = []e2e.C11Alt{{Config: "opt", Op: t.Op, Arg: t.Arg}, {Config: "dbg", Op: op2, Arg: arg2}}
	case 2: // Go iterates the map in any order; the BUILD file lists dbg first here
		t.Cmds = []e2e.C11Alt{{Config: "dbg", Op: op2, Arg: arg2}, {Config: "opt", Op: t.Op, Arg: t.Arg}}
	default: // no entry for the default config, none for the fallback config: the highest config name wins
		t.Cmds = []e2e.C11Alt{{Config: "dbg", Op: t.Op, Arg: t.Arg}, {Config: "cover", Op: op2, Arg: arg2}}
	}
}

func genSpec(r *lib.Rng) *e2e.C11Spec {
	s := baseSpec()
	for k := range s.Files {
		if strings.HasSuffix(k, ".txt") && !strings.HasPrefix(k, "s") && k != "u.txt" && r.Chance(1, 3) {
			s.Files[k] = lib.Pick(r, words)
		}
	}
	if r.Chance(1, 4) { // a local file with the name of g0's output: two sources for one destination
		s.Files["x0.txt"] = lib.Pick(r, words)
	}
	n := r.Range(1, 3)
	for i := 0; i < n; i++ {
		t := &e2e.C11Test{Name: fmt.Sprintf("t%d", i), Out: fmt.Sprintf("t%d.bin", i)}
		t.Srcs = []string{lib.Pick(r, []string{"s1.txt", "s2.txt"})}
		if r.Chance(1, 3) {
			t.Srcs = append(t.Srcs, "s2.txt")
			if t.Srcs[0] == "s2.txt" {
				t.Srcs[1] = "s1.txt"
			}
		}
		pool := append([]string{}, dataPool...)
		if _, ok := s.Files["x0.txt"]; ok {
			pool = append(pool, "x0.txt", "x0.txt")
		}
		lib.Shuffle(r, pool)
		t.Data = append([]string{}, pool[:r.Range(0, 3)]...)
		genCmd(r, s, t)
		if r.Chance(1, 3) {
			genDict(r, s, t)
		}
		s.Tests = append(s.Tests, t)
	}
	return s
}

func keysWith(s *e2e.C11Spec, pred func(string) bool) []string {
	var out []string
	for k := range s.Files {
		if pred(k) {
			out = append(out, k)
		}
	}
	sort.Strings(out)
	return out
}

// flipWord rewrites a content so that the presence of "ok" flips where possible.
func flipWord(r *lib.Rng, old string, n int) string {
	if strings.Contains(old, "ok") {
		return lib.Pick(r, []string{"no\n", "nope\n", fmt.Sprintf("n%d\n", n)})
	}
	return lib.Pick(r, []string{"ok\n", "yes ok\n", fmt.Sprintf("ok %d\n", n)})
}

func cmdDesc(t *e2e.C11Test) string {
	if len(t.Cmds) == 0 {
		return t.Op + " " + t.Arg
	}
	return fmt.Sprint(t.Cmds)
}

func randomEdit(r *lib.Rng, s *e2e.C11Spec, n int) e2e.Edit {
	for attempt := 0; attempt < 40; attempt++ {
		switch k := lib.Pick(r, []string{"data-content", "data-content", "data-content", "unrelated", "noop", "test-cmd", "test-cmd", "cmd-form",
			"src-same-binary", "src-content", "gen-content", "gen-rename", "gen-rename", "dir-entry-rename", "dir-entry-rename", "dir-content",
			"data-list", "comment", "dir-entry-move", "data-permute", "data-permute", "data-permute", "gen-swap"}); k {
		case "data-permute": // the contents of the data files are permuted among them: the same contents, at other names
			fs := []string{"a.txt", "b.txt", "c.txt"}
			lib.Shuffle(r, fs)
			if r.Chance(1, 2) {
				fs = fs[:2]
			}
			old := []string{}
			for _, f := range fs {
				old = append(old, s.Files[f])
			}
			changed := false
			for i, f := range fs { // swap of two / rotation of three
				s.Files[f] = old[(i+1)%len(fs)]
				changed = changed || s.Files[f] != old[i]
			}
			if changed {
				return e2e.Edit{Kind: k, What: fmt.Sprintf("contents of %v rotated", fs)}
			}
		case "gen-swap": // the outputs of two data dependencies exchange their contents
			if len(s.Gens) >= 2 && s.Gens[0].Content != s.Gens[1].Content {
				s.Gens[0].Content, s.Gens[1].Content = s.Gens[1].Content, s.Gens[0].Content
				return e2e.Edit{Kind: k, What: s.Gens[0].Name + " <-> " + s.Gens[1].Name}
			}
		case "data-content":
			f := lib.Pick(r, []string{"a.txt", "b.txt", "c.txt"})
			s.Files[f] = flipWord(r, s.Files[f], n)
			return e2e.Edit{Kind: k, What: fmt.Sprintf("%s := %q", f, s.Files[f])}
		case "unrelated":
			s.Files["u.txt"] = fmt.Sprintf("unrelated %d\n", n)
			return e2e.Edit{Kind: k, What: "u.txt"}
		case "noop":
			return e2e.Edit{Kind: k}
		case "test-cmd":
			t := lib.Pick(r, s.Tests)
			old := cmdDesc(t)
			oop, oarg := t.Effective("")
			genCmd(r, s, t)
			if cmdDesc(t) != old {
				kind := "test-cmd"
				if len(t.Cmds) > 0 {
					kind = "test-cmd-inactive" // inactive under the default config
					if nop, narg := t.Effective(""); nop != oop || narg != oarg {
						kind = "test-cmd-active"
					}
				}
				return e2e.Edit{Kind: kind, What: fmt.Sprintf("%s: %s -> %s", t.Name, old, cmdDesc(t))}
			}
		case "cmd-form": // plain string <-> dict; the effective command under the default config is kept
			t := lib.Pick(r, s.Tests)
			old := cmdDesc(t)
			if len(t.Cmds) > 0 {
				t.Op, t.Arg = t.Effective("")
				t.Cmds = nil
			} else {
				genDict(r, s, t)
			}
			return e2e.Edit{Kind: k, What: fmt.Sprintf("%s: %s -> %s", t.Name, old, cmdDesc(t))}
		case "src-same-binary": // another source with identical content: the binary is rebuilt to the same bytes
			t := lib.Pick(r, s.Tests)
			for i, src := range t.Srcs {
				if src == "s1.txt" || src == "s3.txt" {
					t.Srcs[i] = map[string]string{"s1.txt": "s3.txt", "s3.txt": "s1.txt"}[src]
					if s.Files["s1.txt"] == s.Files["s3.txt"] {
						return e2e.Edit{Kind: k, What: fmt.Sprintf("%s: src %s -> %s", t.Name, src, t.Srcs[i])}
					}
					return e2e.Edit{Kind: "src-content", What: fmt.Sprintf("%s: src %s -> %s", t.Name, src, t.Srcs[i])}
				}
			}
		case "src-content":
			f := lib.Pick(r, []string{"s1.txt", "s2.txt"})
			s.Files[f] = lib.Pick(r, []string{"bin ok\n", "bin\n", "more\n", fmt.Sprintf("bin %d\n", n)})
			return e2e.Edit{Kind: k, What: fmt.Sprintf("%s := %q", f, s.Files[f])}
		case "gen-content":
			g := lib.Pick(r, s.Gens)
			g.Content = strings.TrimSuffix(flipWord(r, g.Content, n), "\n")
			return e2e.Edit{Kind: k, What: fmt.Sprintf("%s := %q", g.Name, g.Content)}
		case "gen-rename": // the output of a data dependency gets another name, same content
			g := lib.Pick(r, s.Gens)
			old := g.Out
			g.Out = fmt.Sprintf("y%d.txt", n)
			if r.Chance(1, 3) {
				g.Out = map[string]string{"g0": "x0.txt", "g1": "x1.txt"}[g.Name]
			}
			if g.Out != old {
				return e2e.Edit{Kind: k, What: fmt.Sprintf("%s out %s -> %s", g.Name, old, g.Out)}
			}
		case "dir-entry-rename": // keeps the walk order of the directory, so the directory's path hash is unchanged
			es := keysWith(s, func(f string) bool { return strings.HasPrefix(f, "dd/") })
			if len(es) == 0 {
				continue
			}
			i := r.Intn(len(es))
			nn := es[i][:len(es[i])-len(".txt")] + "a.txt" // "dd/a.txt" -> "dd/aa.txt": same position
			if strings.HasSuffix(es[i], "aa.txt") && r.Chance(1, 2) {
				nn = strings.TrimSuffix(es[i], "a.txt") + ".txt"
			}
			if _, clash := s.Files[nn]; clash || (i+1 < len(es) && nn >= es[i+1]) {
				continue
			}
			s.Files[nn] = s.Files[es[i]]
			delete(s.Files, es[i])
			return e2e.Edit{Kind: k, What: es[i] + " -> " + nn}
		case "dir-entry-move": // a rename that changes the walk order
			es := keysWith(s, func(f string) bool { return strings.HasPrefix(f, "dd/") })
			if len(es) < 2 {
				continue
			}
			nn := fmt.Sprintf("dd/z%d.txt", n)
			s.Files[nn] = s.Files[es[0]]
			delete(s.Files, es[0])
			return e2e.Edit{Kind: k, What: es[0] + " -> " + nn}
		case "dir-content":
			es := keysWith(s, func(f string) bool { return strings.HasPrefix(f, "dd/") })
			if len(es) == 0 {
				continue
			}
			f := lib.Pick(r, es)
			s.Files[f] = flipWord(r, s.Files[f], n)
			return e2e.Edit{Kind: k, What: fmt.Sprintf("%s := %q", f, s.Files[f])}
		case "data-list":
			t := lib.Pick(r, s.Tests)
			pool := append([]string{}, dataPool...)
			lib.Shuffle(r, pool)
			old := fmt.Sprint(t.Data)
			switch {
			case len(t.Data) > 1 && r.Chance(1, 3):
				t.Data[0], t.Data[1] = t.Data[1], t.Data[0]
			case len(t.Data) > 0 && r.Chance(1, 2):
				t.Data = t.Data[:len(t.Data)-1]
			default:
				for _, d := range pool {
					dup := false
					for _, x := range t.Data {
						dup = dup || x == d
					}
					if !dup {
						t.Data = append(t.Data, d)
						break
					}
				}
			}
			if fmt.Sprint(t.Data) != old {
				return e2e.Edit{Kind: k, What: fmt.Sprintf("%s: %s -> %v", t.Name, old, t.Data)}
			}
		case "comment":
			t := lib.Pick(r, s.Tests)
			t.Comment = fmt.Sprintf("note %d", n)
			return e2e.Edit{Kind: k, What: t.Name}
		}
	}
	return e2e.Edit{Kind: "noop"}
}

func randomInv(r *lib.Rng) e2e.C11Inv {
	inv := e2e.C11Inv{}
	if r.Chance(1, 5) {
		inv.Args = []string{lib.Pick(r, []string{"good", "good", "bad"})}
	}
	if r.Chance(1, 5) {
		inv.Config = "dbg"
	}
	return inv
}

func randomPlan(r *lib.Rng, steps int, cacheOn bool) plan {
	return plan{kind: "random", cacheOn: cacheOn, initial: genSpec(r), steps: steps,
		next: func(i int, cur *e2e.C11Spec, past []*e2e.C11Spec) move {
			inv, replace := randomInv(r), r.Chance(1, 2)
			switch {
			case r.Chance(1, 8):
				return move{spec: cur, ed: e2e.Edit{Kind: "rm-plz-out"}, rm: true, inv: inv, replace: replace}
			case len(past) > 1 && r.Chance(1, 4):
				k := r.Intn(len(past) - 1)
				return move{spec: past[k].Clone(), ed: e2e.Edit{Kind: "revert", What: fmt.Sprintf("to state %d", k)}, inv: inv, replace: replace}
			}
			ed := randomEdit(r, cur, i)
			return move{spec: cur, ed: ed, inv: inv, replace: replace}
		}}
}

// scripted histories aimed at the boundary of the property
type scriptStep struct {
	kind    string
	rm      bool
	f       func(s *e2e.C11Spec)
	args    []string // plz test //p:all -- args
	config  string   // plz test -c config
	replace bool     // changed files are replaced (new inode) instead of rewritten in place
}

func scripted(name string, cacheOn bool, tests []*e2e.C11Test, steps []scriptStep) plan {
	s := baseSpec()
	s.Tests = tests
	return plan{kind: "scripted:" + name, cacheOn: cacheOn, initial: s, steps: len(steps),
		next: func(i int, cur *e2e.C11Spec, past []*e2e.C11Spec) move {
			st := steps[i-1]
			if st.f != nil {
				st.f(cur)
			}
			return move{spec: cur, ed: e2e.Edit{Kind: st.kind}, rm: st.rm, inv: e2e.C11Inv{Args: st.args, Config: st.config}, replace: st.replace}
		}}
}

func tst(name, op, arg string, data ...string) *e2e.C11Test {
	return &e2e.C11Test{Name: name, Srcs: []string{"s1.txt"}, Out: name + ".bin", Data: data, Op: op, Arg: arg}
}

func setFile(f, c string) func(*e2e.C11Spec) { return func(s *e2e.C11Spec) { s.Files[f] = c } }

func scriptedPlans(thorough bool) []plan {
	var ps []plan
	for _, cache := range []bool{false, true} {
		// pass -> fail -> fail again -> pass -> unrelated edit -> plz-out deleted
		ps = append(ps, scripted("flip", cache, []*e2e.C11Test{tst("t0", "passif", "ok", "a.txt", "b.txt"), tst("t1", "true", "")}, []scriptStep{
			{kind: "noop"},
			{kind: "data-content", f: setFile("a.txt", "no\n")},
			{kind: "noop"},
			{kind: "data-content", f: setFile("a.txt", "ok\n")},
			{kind: "unrelated", f: setFile("u.txt", "other\n")},
			{kind: "rm-plz-out", rm: true},
		}))
		if !cache && !thorough {
			continue
		}
		// data A -> B -> A with the binary reused; then binary A -> B -> A
		ps = append(ps, scripted("aba", cache, []*e2e.C11Test{tst("t0", "passif", "ok", "a.txt"), tst("t1", "binok", "ok")}, []scriptStep{
			{kind: "data-content", f: setFile("a.txt", "yes ok\n")},
			{kind: "data-content", f: setFile("a.txt", "ok\n")},
			{kind: "src-content", f: setFile("s1.txt", "bin\n")},
			{kind: "src-content", f: setFile("s1.txt", "bin ok\n")},
			{kind: "src-same-binary", f: func(s *e2e.C11Spec) { s.Tests[0].Srcs[0] = "s3.txt" }},
			{kind: "test-cmd", f: func(s *e2e.C11Spec) { s.Tests[0].Arg = "yes" }},
			{kind: "test-cmd", f: func(s *e2e.C11Spec) { s.Tests[0].Arg = "ok" }},
		}))
	}
	// the output of a data dependency is renamed (same content)
	ps = append(ps, scripted("gen-rename", false, []*e2e.C11Test{tst("t0", "exists", "p/x0.txt", ":g0"), tst("t1", "passif", "ok", ":g0")}, []scriptStep{
		{kind: "noop"},
		{kind: "gen-rename", f: func(s *e2e.C11Spec) { s.Gens[0].Out = "y0.txt" }},
		{kind: "gen-rename", f: func(s *e2e.C11Spec) { s.Gens[0].Out = "x0.txt" }},
	}))
	// an entry of a data directory is renamed (same content, same walk order), then moved
	ps = append(ps, scripted("dir-rename", true, []*e2e.C11Test{tst("t0", "exists", "p/dd/a.txt", "dd"), tst("t1", "passif", "two", "dd")}, []scriptStep{
		{kind: "dir-entry-rename", f: func(s *e2e.C11Spec) { s.Files["dd/aa.txt"] = s.Files["dd/a.txt"]; delete(s.Files, "dd/a.txt") }},
		{kind: "dir-entry-move", f: func(s *e2e.C11Spec) { s.Files["dd/z.txt"] = s.Files["dd/aa.txt"]; delete(s.Files, "dd/aa.txt") }},
		{kind: "dir-content", f: setFile("dd/b.txt", "2\n")},
	}))
	// two sources for one destination: the local file wins, the dependency's output is neither copied nor hashed
	ps = append(ps, scripted("alias", false, []*e2e.C11Test{tst("t0", "passif", "ok", "x0.txt", ":g0"), tst("t1", "passif", "ok", ":g0", "x0.txt")}, []scriptStep{
		{kind: "gen-content", f: func(s *e2e.C11Spec) { s.Gens[0].Content = "no" }},
		{kind: "data-content", f: setFile("x0.txt", "ok\n")},
		{kind: "gen-content", f: func(s *e2e.C11Spec) { s.Gens[0].Content = "ok" }},
	}))
	ps[len(ps)-1].initial.Files["x0.txt"] = "nope\n"

	// ---- permutations of contents among the runtime files: the same multiset of contents, at other files ----
	swapFiles := func(fs ...string) func(*e2e.C11Spec) {
		return func(s *e2e.C11Spec) {
			old := []string{}
			for _, f := range fs {
				old = append(old, s.Files[f])
			}
			for i, f := range fs {
				s.Files[f] = old[(i+1)%len(fs)]
			}
		}
	}
	swapGens := func(s *e2e.C11Spec) { s.Gens[0].Content, s.Gens[1].Content = s.Gens[1].Content, s.Gens[0].Content }
	for _, cache := range []bool{true, false} {
		if !cache && !thorough {
			continue
		}
		// a.txt = "ok", b.txt = "no", c.txt = "yes"; g0 = "ok", g1 = "no"; fg0 = filegroup(a.txt, b.txt)
		ps = append(ps, scripted("permute", cache, []*e2e.C11Test{
			tst("t0", "filehas", "ok p/a.txt", "a.txt", "b.txt"),
			tst("t1", "filehas", "ok p/x0.txt", ":g0", ":g1"),
			tst("t2", "filehas", "ok p/a.txt", ":fg0"),
			tst("t3", "passif", "ok", "b.txt", "a.txt", "c.txt"), // passes before and after: must still run again
			tst("t4", "filehas", "yes p/c.txt", "a.txt", "c.txt", "b.txt")}, []scriptStep{
			{kind: "noop"},
			{kind: "data-permute", f: swapFiles("a.txt", "b.txt")}, // in place: t0, t2 must run and fail
			{kind: "noop"}, // and fail again
			{kind: "data-permute", f: swapFiles("a.txt", "b.txt"), replace: true}, // back
			{kind: "gen-swap", f: swapGens},                                       // t1 must run and fail
			{kind: "gen-swap", f: swapGens},
			{kind: "data-permute", f: swapFiles("a.txt", "b.txt", "c.txt")},                // a=no b=yes c=ok: t0, t4 fail
			{kind: "data-permute", f: swapFiles("a.txt", "b.txt", "c.txt"), replace: true}, // a=yes b=ok c=no
			{kind: "data-permute", f: swapFiles("a.txt", "c.txt")},                         // a=no b=ok c=yes
		}))
	}

	// ---- test arguments: a run with arguments is neither stored nor may it be the source of a reused result ----
	good, bad := []string{"good"}, []string{"bad"}
	for _, cache := range []bool{false, true} {
		if cache && !thorough {
			continue
		}
		ps = append(ps, scripted("args", cache, []*e2e.C11Test{tst("t0", "argis", "good"), tst("t1", "argisnot", "bad"),
			tst("t2", "exists", "p/a.txt", "a.txt"), tst("t3", "passif", "ok", "a.txt")}, []scriptStep{
			{kind: "args", args: good}, // t0 passes with the argument only; nothing of this run may be stored
			{kind: "noop"},             // plain: t0 must run again and fail
			{kind: "args", args: good},
			{kind: "args", args: good},
			{kind: "args", args: bad}, // t1, t2 fail with this argument (and have a stored plain pass)
			{kind: "noop"},
			{kind: "data-content", f: setFile("a.txt", "no\n"), args: good},
			{kind: "noop"},
			{kind: "rm-plz-out", rm: true, args: good},
			{kind: "noop"},
		}))
	}
	// the first invocation of a history has arguments
	ps = append(ps, scripted("args-first", true, []*e2e.C11Test{tst("t0", "argis", "good"), tst("t1", "passif", "ok", "a.txt")}, []scriptStep{
		{kind: "noop"},
		{kind: "args", args: good},
		{kind: "noop"},
	}))
	ps[len(ps)-1].initialInv = e2e.C11Inv{Args: good}

	// ---- data through a filegroup of source files (outputs hard-linked to the sources); files edited in place ----
	for _, cache := range []bool{false, true} {
		if cache && !thorough {
			continue
		}
		ps = append(ps, scripted("filegroup-inplace", cache, []*e2e.C11Test{tst("t0", "passif", "ok", ":fg0"), tst("t1", "passif", "yes", ":fg1", ":fg0"),
			tst("t2", "exists", "p/c.txt", ":fg1"), tst("t3", "passif", "ok", "a.txt")}, []scriptStep{
			{kind: "noop"}, // the cached run
			{kind: "data-inplace", f: setFile("a.txt", "no\n")}, // same inode: t0 must run and fail (b.txt = "no")
			{kind: "noop"},
			{kind: "data-inplace", f: setFile("a.txt", "ok\n")},
			{kind: "noop"},
			{kind: "data-replace", f: setFile("a.txt", "nope\n"), replace: true}, // new inode
			{kind: "noop"},
			{kind: "data-inplace", f: setFile("c.txt", "no\n")},
			{kind: "data-inplace", f: func(s *e2e.C11Spec) { s.Files["a.txt"] = "ok\n"; s.Files["c.txt"] = "yes\n" }},
			{kind: "noop"},
			{kind: "data-inplace", f: func(s *e2e.C11Spec) { s.Files["a.txt"] = "n0\n"; s.Files["c.txt"] = "n0\n" }},
		}))
	}

	// ---- test_cmd per build config: only the active config's command matters, and it must invalidate ----
	dict := func(name string, alts ...e2e.C11Alt) *e2e.C11Test {
		t := tst(name, "fail", "", "a.txt", "c.txt") // a.txt = "ok", c.txt = "yes"
		t.Cmds = alts
		return t
	}
	alt := func(cfg, op, arg string) e2e.C11Alt { return e2e.C11Alt{Config: cfg, Op: op, Arg: arg} }
	setAlt := func(ti, ai int, op, arg string) func(*e2e.C11Spec) {
		return func(s *e2e.C11Spec) { s.Tests[ti].Cmds[ai].Op, s.Tests[ti].Cmds[ai].Arg = op, arg }
	}
	for _, cache := range []bool{true, false} {
		if !cache && !thorough {
			continue
		}
		ps = append(ps, scripted("dict-cmd", cache, []*e2e.C11Test{
			dict("t0", alt("opt", "passif", "ok"), alt("dbg", "passif", "yes")),
			dict("t1", alt("dbg", "passif", "ok"), alt("cover", "passif", "yes")), // opt: neither active nor fallback -> highest name (dbg)
			tst("t2", "passif", "ok", "a.txt", "c.txt")}, []scriptStep{
			{kind: "noop"},
			{kind: "test-cmd-inactive", f: setAlt(0, 1, "passif", "nope")},              // dbg edited while opt runs: still cached
			{kind: "test-cmd-active", f: setAlt(0, 0, "passif", "nope")},                // opt edited: must run, fails
			{kind: "config", config: "dbg"},                                             // dbg command (nope): runs, fails
			{kind: "test-cmd-active", f: setAlt(0, 1, "passif", "yes"), config: "dbg"},  // dbg edited while dbg runs: passes
			{kind: "test-cmd-inactive", f: setAlt(0, 0, "passif", "ok"), config: "dbg"}, // opt edited while dbg runs: cached
			{kind: "noop"}, // opt again (ok): passes
			{kind: "test-cmd-active", f: setAlt(1, 0, "passif", "nope")},                                                         // t1: dbg is its effective command under opt
			{kind: "test-cmd-inactive", f: setAlt(1, 1, "fail", "")},                                                             // t1: cover is not
			{kind: "cmd-form", f: func(s *e2e.C11Spec) { s.Tests[0].Op, s.Tests[0].Arg, s.Tests[0].Cmds = "passif", "ok", nil }}, // dict -> the same plain string: cached
			{kind: "cmd-form", f: func(s *e2e.C11Spec) {
				s.Tests[2].Cmds = []e2e.C11Alt{alt("dbg", "fail", ""), alt("opt", "passif", "ok")}
			}},
			{kind: "test-cmd-active", f: setAlt(2, 1, "passif", "nope")},
		}))
	}
	return ps
}

// ---------------------------------------------------------------------------------------------
// Coq terms

func coqNode(n e2e.C11Node) string {
	if !n.Dir {
		return lib.App("File", lib.Str(n.Content))
	}
	es := []string{}
	for _, e := range n.Entries {
		es = append(es, lib.Pair(lib.Str(e[0]), lib.Str(e[1])))
	}
	return lib.App("Dir", lib.List(es))
}

func coqCmd(op, arg string) string {
	switch op {
	case "passif":
		return lib.App("TPassIf", lib.Str(arg))
	case "binok":
		return lib.App("TBinOk", lib.Str(arg))
	case "exists":
		parts := strings.Split(arg, "/")
		if len(parts) >= 3 {
			return lib.App("TExists", lib.Str(strings.Join(parts[:2], "/")), lib.Some(lib.Str(strings.Join(parts[2:], "/"))))
		}
		return lib.App("TExists", lib.Str(arg), "None")
	case "true":
		return "TTrue"
	case "argis":
		return lib.App("TArgIs", lib.Str(arg))
	case "argisnot":
		return lib.App("TArgIsNot", lib.Str(arg))
	case "filehas":
		w, dest := e2e.C11FileHasArg(arg)
		return lib.App("TFileHas", lib.Str(dest), lib.Str(w))
	}
	return "TFail"
}

// coqCmds is the test command as the BUILD file has it: one string or the dict, every text with its meaning.
func coqCmds(t *e2e.C11Test, logPath string) string {
	if len(t.Cmds) == 0 {
		return lib.App("Single", lib.Str(t.TestCmd(logPath)), coqCmd(t.Op, t.Arg))
	}
	es := []string{}
	for _, a := range t.Cmds {
		es = append(es, lib.Pair(lib.Str(a.Config), lib.Pair(lib.Str(t.AltCmd(a, logPath)), coqCmd(a.Op, a.Arg))))
	}
	return lib.App("PerConfig", lib.List(es))
}

func coqSrc(s *e2e.C11Spec, t *e2e.C11Test, logPath string) string {
	files := []string{}
	rf := s.RuntimeFiles(t)
	for _, f := range rf {
		role := "RData"
		if f.Role == "out" {
			role = "ROut"
		}
		files = append(files, fmt.Sprintf("{| rf_role := %s; rf_dest := %s; rf_node := %s |}", role, lib.Str(f.Dest), coqNode(f.Node)))
	}
	return fmt.Sprintf("{| ts_rule := %s; ts_cmds := %s; ts_files := %s; ts_bin := %s; ts_build := %s |}",
		lib.StrList(t.RuleFields(logPath)), coqCmds(t, logPath), lib.List(files), lib.Str(rf[0].Node.Content), lib.StrList(s.BuildFields(t, logPath)))
}

func reportOf(o e2e.C11Outcome) string {
	switch {
	case o.Passed && !o.Ran:
		return "CachedPass"
	case o.Passed:
		return "RanPass"
	}
	return "RanFail"
}

// ---------------------------------------------------------------------------------------------
// Property oracle

// contentStreams is what a content-only digest of the test directory can distinguish: per destination in
// order, the file content or the concatenated contents of a directory's files.
func namesOnlyDifference(a, b []e2e.C11RFile) (sameStreams, sameDests, dirNamesDiffer, permuted bool) {
	da, db := dedup(a), dedup(b)
	if len(da) != len(db) {
		return false, false, false, false
	}
	sameStreams, sameDests = true, true
	sa, sb := []string{}, []string{}
	defer func() {
		// the same multiset of content streams, at the same destinations, but not the same content at every position
		sort.Strings(sa)
		sort.Strings(sb)
		permuted = sameDests && !sameStreams && fmt.Sprintf("%q", sa) == fmt.Sprintf("%q", sb)
	}()
	for i := range da {
		sa, sb = append(sa, stream(da[i].Node)), append(sb, stream(db[i].Node))
		if stream(da[i].Node) != stream(db[i].Node) {
			sameStreams = false
		}
		if da[i].Dest != db[i].Dest {
			sameDests = false
		}
		if da[i].Node.Dir && db[i].Node.Dir && fmt.Sprint(da[i].Node.Entries) != fmt.Sprint(db[i].Node.Entries) {
			dirNamesDiffer = true
		}
	}
	return
}

func dedup(fs []e2e.C11RFile) []e2e.C11RFile {
	seen := map[string]bool{}
	var out []e2e.C11RFile
	for _, f := range fs {
		if !seen[f.Dest] {
			seen[f.Dest] = true
			out = append(out, f)
		}
	}
	return out
}

func stream(n e2e.C11Node) string {
	if !n.Dir {
		return n.Content
	}
	x := ""
	for _, e := range n.Entries {
		x += e[1]
	}
	return x
}

// classify names the narrow class of a stale result of test `name` at step i: it looks for an earlier
// passing run whose runtime inputs differ from the current ones only in names.
func classify(h history, i int, name string) string {
	cur := h.Steps[i].Spec
	var ct *e2e.C11Test
	for _, t := range cur.Tests {
		if t.Name == name {
			ct = t
		}
	}
	for j := i - 1; j >= 0; j-- {
		o := h.Steps[j].Inc[name]
		if !(o.Ran && o.Passed) || len(h.Steps[j].Inv.Args) > 0 {
			continue
		}
		for _, pt := range h.Steps[j].Spec.Tests {
			if pt.Name != name || pt.EffectiveCmd(h.Steps[j].Inv.Config, "") != ct.EffectiveCmd(h.Steps[i].Inv.Config, "") || fmt.Sprint(pt.Data) != fmt.Sprint(ct.Data) {
				continue
			}
			sameStreams, sameDests, dirNames, permuted := namesOnlyDifference(h.Steps[j].Spec.RuntimeFiles(pt), cur.RuntimeFiles(ct))
			switch {
			case permuted:
				// NOT a known finding: RuntimeHash combines the per-file digests in iteration order, so this cannot happen
				return "runtime-file-contents-permuted-same-multiset"
			case sameStreams && !sameDests:
				return "data-dependency-output-renamed-same-content"
			case sameStreams && sameDests && dirNames:
				return "data-directory-entry-renamed-same-content"
			}
		}
	}
	return "stale-test-result"
}

func invKind(inv e2e.C11Inv) string {
	k := "plain"
	if len(inv.Args) > 0 {
		k = "with arguments"
	}
	if inv.Config != "" {
		k += ", -c " + inv.Config
	}
	return k
}

func main() {
	lib.Main("C11", func(c *lib.Ctx) {
		c.Model("From PlzV Require Import Model.C11.", "C11.case", "C11.check")
		c.Rule("generated repositories of 1-3 gentest targets (binary = concatenation of sources; data = local files, a local directory, outputs of genrules, " +
			"also two sources for one destination; test command from a closed language: passif W / binok W / exists PATH / true / fail) under edit histories " +
			"(data content flips pass<->fail, unrelated edits, test command changes, source changes with identical and with different binary, renames of a data " +
			"dependency's output and of directory entries with the same content, data list changes, comments, reverts, deleting plz-out; PERMUTATIONS of the contents " +
			"among the data files a.txt/b.txt/c.txt (swap of two, rotation of three, in place and by replacement - also seen through a filegroup) and among the outputs of " +
			"two data dependencies, with the command filehas W DEST = `grep -qs W DEST`, which depends on WHICH file holds a content), with and without a " +
			"directory cache; also: data through filegroups of source files (outputs hard-linked to the sources) with changed files rewritten IN PLACE (same inode) " +
			"or replaced (new inode); invocations with test arguments (`plz test //p:all -- good|bad`, commands argis W / argisnot W depend on them) mixed with plain ones; " +
			"test_cmd as a per-config dict (opt/dbg/cover) with edits of the active and of inactive configs' commands, `-c dbg`, and dict <-> string form changes; " +
			"after every edit the real `plz test` is run and compared, per target, with the same invocation on a clean copy of the same tree. " +
			"distinct = distinct (history, step, target); non-trivial = a step after the first")
		var plans []plan
		plans = scriptedPlans(c.Thor)
		nrandom := c.Scale(8, 60)
		steps := c.Scale(5, 7)
		for i := 0; i < nrandom; i++ {
			r := c.Rng.Fork()
			plans = append(plans, randomPlan(r, steps, i%2 == 0))
		}
		if only := os.Getenv("VERIF_C11_ONLY"); only != "" {
			// debugging aid: run only the histories whose kind contains this text (the verdict of such a run is partial)
			kept := []plan{}
			for _, p := range plans {
				if strings.Contains(p.kind, only) {
					kept = append(kept, p)
				}
			}
			plans = kept
			c.Note("VERIF_C11_ONLY=%s: %d histories kept", only, len(plans))
		}
		base := e2e.Scratch("c11")
		defer os.RemoveAll(base)
		if !e2e.C11XattrsWork(base) {
			// without user xattrs plz cannot stamp a results file (every test re-runs) nor keep content hashes on outputs:
			// the filegroup / in-place histories would be vacuous
			c.Note("user xattrs do not work under %s: the filegroup-inplace histories are skipped", base)
			kept := plans[:0]
			for _, p := range plans {
				if !strings.Contains(p.kind, "filegroup-inplace") {
					kept = append(kept, p)
				}
			}
			plans = kept
		} else {
			c.Note("user xattrs work under %s", base)
		}
		hs := make([]history, len(plans))
		var wg sync.WaitGroup
		for i := range plans {
			wg.Add(1)
			go func(i int) {
				defer wg.Done()
				dir := fmt.Sprintf("%s/h%d", base, i)
				os.MkdirAll(dir, 0o755)
				hs[i] = runPlan(i, dir, plans[i])
				os.RemoveAll(dir)
			}(i)
		}
		wg.Wait()

		invocations := 0
		for _, h := range hs {
			c.Hist("history", h.Kind)
			// every test name that exists in every step of the history gives one model case
			names := map[string]bool{}
			for _, t := range h.Steps[0].Spec.Tests {
				names[t.Name] = true
			}
			invocations += len(h.Steps) + h.FreshRuns
			for _, st := range h.Steps {
				c.Hist("edit", st.Edit.Kind)
				for name := range names {
					found := false
					for _, t := range st.Spec.Tests {
						found = found || t.Name == name
					}
					if !found {
						delete(names, name)
					}
				}
			}
			for _, name := range lib.SortedKeys(names) {
				var items []string
				var js []any
				ranPassInputs := map[string]bool{} // runtime inputs of the runs that passed so far
				for i, st := range h.Steps {
					var t *e2e.C11Test
					for _, x := range st.Spec.Tests {
						if x.Name == name {
							t = x
						}
					}
					inc, fresh := st.Inc[name], st.Fresh[name]
					stepTerm := fmt.Sprintf("{| s_rm := %s; s_config := %s; s_args := %s; s_src := %s |}", lib.Bool(st.Rm), lib.Str(st.Inv.Config),
						lib.StrList(st.Inv.Args), coqSrc(st.Spec, t, h.LogPath))
					obsTerm := fmt.Sprintf("{| o_report := %s; o_fresh := %s; o_nkeys := %s; o_built := %s |}", reportOf(inc), lib.Bool(fresh.Passed), lib.Nat(st.NKeys[name]), lib.Bool(inc.Built))
					items = append(items, lib.Pair(stepTerm, obsTerm))
					sj := map[string]any{"history": h.Index, "kind": h.Kind, "cache_on": h.CacheOn, "step": i, "edit": st.Edit, "rm_plz_out": st.Rm, "invocation": "plz " + strings.Join(st.Inv.PlzArgs(), " "),
						"files_replaced": st.Replace, "rewritten_same_inode": st.SameIno, "test": t,
						"runtime_files": st.Spec.RuntimeFiles(t), "incremental": inc, "fresh": fresh, "cache_keys": st.NKeys[name], "exit": st.Exit, "clean_exit": st.Clean}
					js = append(js, sj)
					in := st.Spec.RuntimeInputs(t, st.Inv.Config, h.LogPath)
					withHist := func() map[string]any {
						m := map[string]any{"failing_step": sj}
						edits := []any{}
						for _, p := range h.Steps[:i+1] {
							edits = append(edits, map[string]any{"edit": p.Edit, "rm_plz_out": p.Rm, "invocation": "plz " + strings.Join(p.Inv.PlzArgs(), " "),
								"files_replaced": p.Replace, "rewritten_same_inode": p.SameIno, "spec": p.Spec, "incremental": p.Inc[name]})
						}
						m["history"], m["cache_on"], m["stderr"] = edits, h.CacheOn, st.Stderr
						return m
					}
					c.Eval(sj, fmt.Sprint(h.Index, i, name), i > 0)
					c.Hist("report", reportOf(inc))
					c.Hist("fresh", fmt.Sprint(fresh.Passed))

					// --- the property oracle (does not use the model) ---
					c.Oracle()
					switch {
					case !inc.Present || !fresh.Present:
						c.Fail("no-result-reported", fmt.Sprintf("//p:%s has no suite in test_results.xml (incremental %v, fresh %v) after %v", name, inc.Present, fresh.Present, st.Edit), withHist())
						continue
					case fresh.Passed != st.Spec.ExpectedInv(t, st.Inv):
						c.Fail("harness-semantics", fmt.Sprintf("//p:%s: fresh run passed=%v but the command language says %v", name, fresh.Passed, st.Spec.ExpectedInv(t, st.Inv)), withHist())
					}
					inv := "plz " + strings.Join(st.Inv.PlzArgs(), " ")
					if inc.Passed != fresh.Passed {
						cls := classify(h, i, name)
						if len(st.Inv.Args) > 0 && !inc.Ran && inc.Passed && ranPassInputs[in] {
							// the defect repaired by /repo bdc0c8a (regression class): needToRun ignores the arguments and hands
							// out the stored result of an ARGUMENT-LESS passing run with the current command and test directory
							cls = "run-with-arguments-reuses-argumentless-result"
						}
						c.Fail(cls, fmt.Sprintf("//p:%s after %v: incremental `%s` reports passed=%v (cached=%v), the same invocation on a fresh copy of the same tree passed=%v",
							name, st.Edit, inv, inc.Passed, inc.Cached, fresh.Passed), withHist())
					}
					c.Oracle()
					if inc.Cached == inc.Ran {
						c.Fail("cached-flag-vs-execution", fmt.Sprintf("//p:%s: reported cached=%v but the test command ran=%v", name, inc.Cached, inc.Ran), withHist())
					}
					c.Oracle()
					if !inc.Passed && !inc.Ran {
						c.Fail("failure-without-run", fmt.Sprintf("//p:%s: a failure was reported without running the test in this invocation", name), withHist())
					}
					c.Oracle()
					if !inc.Ran && inc.Passed && !ranPassInputs[in] {
						cls := classify(h, i, name)
						if cls == "stale-test-result" {
							cls = "reused-without-passing-run"
						}
						c.Fail(cls, fmt.Sprintf("//p:%s after %v (`%s`): a result was reused although no earlier run WITHOUT test arguments with the current effective test command and test directory passed", name, st.Edit, inv), withHist())
					}
					c.Oracle()
					if len(st.Inv.Args) > 0 && !inc.Ran && inc.Passed == fresh.Passed {
						// an invocation with test arguments never reuses a result, whether or not the arguments change the
						// outcome (a differing outcome is reported above)
						c.Fail("run-with-arguments-reuses-argumentless-result", fmt.Sprintf("//p:%s after %v: `%s` was given test arguments but the test command did not run (reported cached=%v)",
							name, st.Edit, inv, inc.Cached), withHist())
					}
					if inc.Ran && inc.Passed && len(st.Inv.Args) == 0 {
						ranPassInputs[in] = true
					}
					c.Hist("invocation", invKind(st.Inv))

				}
				c.Case(lib.App("CHist", lib.Bool(h.CacheOn), lib.List(items)), map[string]any{"history": h.Index, "kind": h.Kind, "test": name, "steps": js},
					fmt.Sprint("case", h.Index, name), true)
			}
			// exit status of the whole invocation
			for i, st := range h.Steps {
				for f, same := range st.SameIno {
					c.Hist("file-rewrite", map[bool]string{true: "in-place (same inode)", false: "replaced (new inode)"}[same])
					c.Oracle()
					if same == st.Replace {
						c.Fail("harness-semantics", fmt.Sprintf("history %d step %d: %s files_replaced=%v but the inode stayed the same=%v", h.Index, i, f, st.Replace, same),
							map[string]any{"history": h.Index, "step": i, "file": f})
					}
				}
				c.Oracle()
				all, allFresh := true, true
				for _, o := range st.Inc {
					all = all && o.Passed
				}
				for _, o := range st.Fresh {
					allFresh = allFresh && o.Passed
				}
				// the exit status must agree with the per-target report (whether that report is right is judged per target above)
				if (st.Exit == 0) != all || (st.Clean == 0) != allFresh {
					c.Fail("exit-status", fmt.Sprintf("history %d step %d: exit %d (all reported passed: %v), fresh exit %d (all passed: %v)", h.Index, i, st.Exit, all, st.Clean, allFresh),
						map[string]any{"history": h.Index, "step": i, "spec": st.Spec, "incremental": st.Inc, "fresh": st.Fresh, "stderr": st.Stderr})
				}
			}
		}
		c.Note("%d histories (%d scripted), %d plz invocations (one fresh run per distinct tree of a history)", len(hs), len(scriptedPlans(c.Thor)), invocations)
	})
}
