// C24 end-to-end stream for the exact mode of `plz query changes --since REV`: the whole path through
// src/please.go "query.changes" (CurrentRevIdentifier / checkout REV / readConfig / parse / checkout back / readConfig /
// parse / DiffGraphs) and src/scm/git.go, on real git repositories with a HISTORY.
//
// Every scenario is a git repository with 3-4 commits on `main` (sometimes with a branch `base` left at the first commit
// and a branch `feature` created before the last commit).  A commit is one of
//
//	config-hash     only .plzconfig changes, in an option that enters Configuration.Hash (build.nonce, build.lang,
//	                [buildenv], licences.reject): every target's hash changes
//	config-neutral  only .plzconfig changes, in an option that does not (please.motd)
//	build-edit      a random edit of BUILD files / sources (harness/e2e)
//	new-target      a new target that consumes an existing one, plus a changed command of an existing target
//	file-edit       the content of a source file
//
// and the query is run twice with the same REV (HEAD~1, HEAD~2, a commit hash, or the branch `base`): with HEAD on
// the branch and with a DETACHED HEAD at the same commit (the normal situation of a CI checkout).  Oracles:
//
//   - hash oracle, independent of the query and of the work tree it ran in: `plz hash --detailed //...` in two FRESH
//     checkouts (git worktree) of REV and of the HEAD commit; a target of HEAD whose (Config, Rule, Source, Tool) hashes
//     differ from REV's, or that is new, must be reported at level -1; one whose Config or Rule hash differs or that is
//     new must be reported at every level;
//   - the run must leave HEAD where it was (same branch, or detached at the same commit);
//   - the CLI answer equals query.DiffGraphs in process on a mirror of the two revisions, with `config changed` taken
//     from the generator's description of the two .plzconfig files;
//   - the model: the git operation history, the snapshots (configuration key, mirrored graph) of ALL commits, REV, the
//     files git reports, the level, HEAD before, the reported set and HEAD after go into a CSince case.
package main

import (
	"fmt"
	"os"
	"path/filepath"
	"strings"
	"sync"
	"time"

	"verifharness/e2e"
	"verifharness/lib"
)

type headDesc struct {
	Branch string `json:"branch,omitempty"` // "" = detached
	Commit int    `json:"commit"`           // index of the commit HEAD is at (-1: not a commit of the scenario)
}

type sinceQuery struct {
	Detached   bool     `json:"detached_head"`
	HeadBefore headDesc `json:"head_before"`
	HeadAfter  headDesc `json:"head_after"`
	Exit       int      `json:"exit"`
	Reported   []string `json:"reported"`
	Stderr     string   `json:"stderr,omitempty"`
}

type sinceRun struct {
	Idx      int                 `json:"scenario"`
	Specs    []*e2e.Spec         `json:"-"`
	Configs  [][]string          `json:"plzconfig_extra_lines"` // per commit
	Kinds    []string            `json:"commit_kinds"`          // per commit after the first
	Edits    []string            `json:"edits"`
	Ops      []string            `json:"git_operations"` // the model's operations, as text
	OpsCoq   []string            `json:"-"`
	Since    string              `json:"since"`
	SinceCoq string              `json:"-"`
	SinceIdx int                 `json:"since_commit"`
	Tip      int                 `json:"head_commit"`
	Level    int                 `json:"level"`
	Files    []string            `json:"git_changed_files"`
	HashOld  map[string][]string `json:"hash_since,omitempty"`
	HashNew  map[string][]string `json:"hash_head,omitempty"`
	Queries  []sinceQuery        `json:"queries"`
	Errs     []string            `json:"errors,omitempty"`
	commits  []string            // commit hashes
}

// options that enter Configuration.Hash (src/core/config.go) ...
var cfgHashOptions = [][2]string{{"build", "nonce"}, {"build", "lang"}, {"buildenv", "verif-opt"}, {"licences", "reject"}}

func cfgValue(opt [2]string, k int) string {
	switch opt[1] {
	case "lang":
		// never the default (en_GB.UTF-8): writing the default down does not change the hash
		return []string{"C", "en_US.UTF-8", "C.UTF-8", "POSIX"}[k%4]
	case "reject":
		return fmt.Sprintf("Verif-Licence-%d", k)
	}
	return fmt.Sprintf("v%d", k)
}

// the extra .plzconfig lines of a commit: hash-relevant options and the neutral one, in a fixed order
func cfgLines(hashOpts map[string]string, motd string) []string {
	out := []string{}
	for _, o := range cfgHashOptions {
		if v, ok := hashOpts[o[0]+"."+o[1]]; ok {
			out = append(out, "["+o[0]+"]", o[1]+" = "+v)
		}
	}
	if motd != "" {
		out = append(out, "[please]", "motd = "+motd)
	}
	return out
}


// `plz hash --detailed //...`: per target the lines "Config: ..", "Rule: .. (pre-build)", "Rule: .. (post-build)",
// "Source: ..", "Source: <path>: ..", "Tool: ..: .."
func plzHashDetailed(repo *e2e.Repo) (map[string][]string, error) {
	res := repo.Run(180*time.Second, "hash", "--detailed", "//...")
	if res.Exit != 0 {
		return nil, fmt.Errorf("plz hash --detailed exit %d: %s", res.Exit, tailStr(res.Stderr+res.Stdout, 400))
	}
	m := map[string][]string{}
	cur := ""
	for _, l := range strings.Split(res.Stdout, "\n") {
		switch {
		case strings.HasPrefix(l, "//") && strings.HasSuffix(l, ":"):
			cur = strings.TrimSuffix(l, ":")
			m[cur] = []string{}
		case cur != "" && strings.HasPrefix(l, " ") && strings.Contains(l, ": "):
			t := strings.TrimSpace(l)
			if strings.HasPrefix(t, "//") { // the summary lines of the plain form
				continue
			}
			m[cur] = append(m[cur], t)
		}
	}
	if len(m) == 0 {
		return nil, fmt.Errorf("plz hash --detailed printed no target: %s", tailStr(res.Stdout, 300))
	}
	return m, nil
}

// the Config / Rule lines of a detailed hash
func definitionPart(lines []string) string {
	out := []string{}
	for _, l := range lines {
		if strings.HasPrefix(l, "Config: ") || strings.HasPrefix(l, "Rule: ") {
			out = append(out, l)
		}
	}
	return strings.Join(out, "\n")
}

func configPart(lines []string) string {
	for _, l := range lines {
		if strings.HasPrefix(l, "Config: ") {
			return l
		}
	}
	return ""
}

func execSince(base string, idx int, r *lib.Rng, quick bool) *sinceRun {
	run := &sinceRun{Idx: idx}
	fail := func(f string, a ...any) *sinceRun {
		run.Errs = append(run.Errs, fmt.Sprintf(f, a...))
		return run
	}
	name := fmt.Sprintf("s%d", idx)
	repo := e2e.NewRepo(base, name)
	gitDir := filepath.Join(base, name+".git")
	if _, err := gitCmd(base, "init", "-q", "--separate-git-dir="+gitDir, repo.Dir); err != nil {
		return fail("%v", err)
	}
	if _, err := gitCmd(repo.Dir, "symbolic-ref", "HEAD", "refs/heads/main"); err != nil {
		return fail("%v", err)
	}
	gitFile, err := os.ReadFile(filepath.Join(repo.Dir, ".git"))
	if err != nil {
		return fail("%v", err)
	}
	commit := func(s *e2e.Spec, msg string) error {
		repo.Write(s) // removes every file it does not know: put the git pointer and the ignore file back
		if err := os.WriteFile(filepath.Join(repo.Dir, ".git"), gitFile, 0o644); err != nil {
			return err
		}
		if err := os.WriteFile(filepath.Join(repo.Dir, ".gitignore"), []byte("plz-out\n"), 0o644); err != nil {
			return err
		}
		if _, err := gitCmd(repo.Dir, "add", "-A"); err != nil {
			return err
		}
		if _, err := gitCmd(repo.Dir, "commit", "-q", "--allow-empty", "-m", msg); err != nil {
			return err
		}
		h, err := gitCmd(repo.Dir, "rev-parse", "HEAD")
		run.commits = append(run.commits, strings.TrimSpace(h))
		return err
	}
	op := func(text, coq string) {
		run.Ops = append(run.Ops, text)
		run.OpsCoq = append(run.OpsCoq, coq)
	}

	opts := e2e.GenOpts{MaxPkgs: 3, MaxTargets: 5}
	spec, order := e2e.GenSpec(r, opts)
	hashOpts := map[string]string{}
	motd := ""
	if r.Chance(1, 3) {
		hashOpts["build.nonce"] = "v0"
	}
	spec.Config = cfgLines(hashOpts, motd)
	snapshot := func() {
		run.Specs = append(run.Specs, spec.Clone())
		run.Configs = append(run.Configs, append([]string{}, spec.Config...))
	}
	if err := commit(spec, "c0"); err != nil {
		return fail("%v", err)
	}
	snapshot()
	hasBase := r.Chance(1, 2)
	if hasBase {
		if _, err := gitCmd(repo.Dir, "branch", "base"); err != nil {
			return fail("%v", err)
		}
		op("git branch base", `OpBranchAt (s "base") RHead`)
	}
	ncommits := 2
	if !quick || r.Chance(1, 3) {
		ncommits = r.Range(2, 3)
	}
	kinds := []string{"config-hash", "config-neutral", "build-edit", "build-edit", "new-target", "file-edit"}
	for k := 1; k <= ncommits; k++ {
		kind := lib.Pick(r, kinds)
		if k == ncommits {
			switch idx % 3 {
			case 0:
				kind = "config-hash"
			case 1:
				kind = "new-target"
			}
			if r.Chance(1, 3) {
				if _, err := gitCmd(repo.Dir, "checkout", "-q", "-b", "feature"); err != nil {
					return fail("%v", err)
				}
				op("git checkout -b feature", `OpNewBranch (s "feature")`)
			}
		}
		spec = spec.Clone()
		what := ""
		switch kind {
		case "config-hash":
			o := lib.Pick(r, cfgHashOptions)
			hashOpts[o[0]+"."+o[1]] = cfgValue(o, k+idx)
			what = o[0] + "." + o[1] + " = " + hashOpts[o[0]+"."+o[1]]
		case "config-neutral":
			motd = fmt.Sprintf("note-%d", k)
			what = "please.motd = " + motd
		case "build-edit":
			e := e2e.ApplyRandomEdit(r, spec, &order, opts, 100*idx+k)
			what = e.Kind + " " + e.What
		case "new-target":
			pn := lib.Pick(r, lib.SortedKeys(spec.Pkgs))
			p := spec.Pkgs[pn]
			nt := &e2e.Target{Name: fmt.Sprintf("added%d", k), Kind: "genrule", Outs: []string{fmt.Sprintf("added%d.out", k)}, Cmd: e2e.Cmd{Op: "concat"}}
			if len(p.Targets) > 0 && p.Targets[0].Kind != "gentest" {
				nt.Srcs = []string{"//" + pn + ":" + p.Targets[0].Name} // the full form: harness/e2e looks for dependents by full label
			} else {
				nt.Srcs = []string{lib.SortedKeys(p.Files)[0]}
			}
			p.Targets = append(p.Targets, nt)
			order = append(order, "//"+pn+":"+nt.Name)
			what = "//" + pn + ":" + nt.Name + " added"
			// and an existing genrule gets another command
			for _, l := range order {
				if t := spec.Target(l); t != nil && t.Kind == "genrule" && t.Cmd.Op == "const" {
					t.Cmd.Arg += fmt.Sprintf(" edited%d", k)
					what += ", command of " + l + " edited"
					break
				}
			}
		case "file-edit":
			pn := lib.Pick(r, lib.SortedKeys(spec.Pkgs))
			f := lib.Pick(r, lib.SortedKeys(spec.Pkgs[pn].Files))
			spec.Pkgs[pn].Files[f] += fmt.Sprintf("edited %d\n", k)
			what = pn + "/" + f
		}
		spec.Config = cfgLines(hashOpts, motd)
		if err := commit(spec, fmt.Sprintf("c%d", k)); err != nil {
			return fail("%v", err)
		}
		snapshot()
		run.Kinds = append(run.Kinds, kind)
		run.Edits = append(run.Edits, what)
		op(fmt.Sprintf("git commit (c%d: %s)", k, kind), fmt.Sprintf("COMMIT %d", k))
	}
	run.Tip = ncommits

	// the revision argument
	type sinceOpt struct {
		arg, coq string
		idx      int
	}
	sopts := []sinceOpt{{"HEAD~1", "(RHeadMinus 1)", ncommits - 1}, {run.commits[ncommits-1], fmt.Sprintf("(RCommit %d)", ncommits-1), ncommits - 1}}
	if idx%3 == 2 {
		sopts = append(sopts, sinceOpt{"HEAD~2", "(RHeadMinus 2)", ncommits - 2}, sinceOpt{run.commits[0], "(RCommit 0)", 0})
		if hasBase {
			sopts = append(sopts, sinceOpt{"base", `(RBranch (s "base"))`, 0}, sinceOpt{"base", `(RBranch (s "base"))`, 0})
		}
	}
	so := lib.Pick(r, sopts)
	run.Since, run.SinceCoq, run.SinceIdx = so.arg, so.coq, so.idx
	run.Level = -1
	if idx%3 == 2 {
		run.Level = lib.Pick(r, []int{-1, -1, 1, 0})
	}
	out, err := gitCmd(repo.Dir, "diff", "--name-only", run.commits[run.SinceIdx], run.commits[run.Tip])
	if err != nil {
		return fail("%v", err)
	}
	for _, f := range strings.Split(out, "\n") {
		if f = strings.TrimSpace(f); f != "" {
			run.Files = append(run.Files, f)
		}
	}

	// the hash oracle: fresh checkouts of the two revisions
	for k, ci := range []int{run.SinceIdx, run.Tip} {
		wdir := filepath.Join(base, fmt.Sprintf("%s-w%d", name, k))
		if _, err := gitCmd(repo.Dir, "worktree", "add", "-q", "--detach", wdir, run.commits[ci]); err != nil {
			return fail("%v", err)
		}
		w := &e2e.Repo{Dir: wdir, Plz: repo.Plz, LogPath: repo.LogPath + fmt.Sprintf(".w%d", k)}
		h, err := plzHashDetailed(w)
		if err != nil {
			run.Errs = append(run.Errs, fmt.Sprintf("hash of commit %d: %v", ci, err))
		}
		if k == 0 {
			run.HashOld = h
		} else {
			run.HashNew = h
		}
		os.RemoveAll(wdir)
		gitCmd(repo.Dir, "worktree", "prune")
	}

	headNow := func() headDesc {
		h := headDesc{Commit: -1}
		if b, err := gitCmd(repo.Dir, "symbolic-ref", "-q", "--short", "HEAD"); err == nil {
			h.Branch = strings.TrimSpace(b)
		}
		c, _ := gitCmd(repo.Dir, "rev-parse", "HEAD")
		for i, x := range run.commits {
			if x == strings.TrimSpace(c) {
				h.Commit = i
			}
		}
		return h
	}
	for _, detached := range []bool{false, true} {
		if detached {
			if _, err := gitCmd(repo.Dir, "checkout", "-q", "--detach", run.commits[run.Tip]); err != nil {
				return fail("%v", err)
			}
		}
		q := sinceQuery{Detached: detached, HeadBefore: headNow()}
		res := repo.Run(180*time.Second, "query", "changes", "--since", run.Since, fmt.Sprintf("--level=%d", run.Level))
		q.Exit, q.Reported, q.HeadAfter = res.Exit, labelLines(res.Stdout), headNow()
		if res.Exit != 0 {
			q.Stderr = tailStr(res.Stderr, 400)
		}
		run.Queries = append(run.Queries, q)
		if q.HeadAfter != q.HeadBefore {
			// put the work tree back for the next run (and say so: the oracle reports it)
			target := run.commits[run.Tip]
			if q.HeadBefore.Branch != "" {
				target = q.HeadBefore.Branch
			}
			gitCmd(repo.Dir, "checkout", "-q", target)
		}
	}
	return run
}

func headCoq(h headDesc) string {
	if h.Branch != "" {
		return lib.App("OnBranch", lib.Str(h.Branch))
	}
	return lib.App("Detached", lib.Nat(max(h.Commit, 0)))
}

func runSince(c *lib.Ctx) {
	if os.Getenv("VERIF_PLZ") == "" {
		c.Note("since: VERIF_PLZ not set, the --since history stream was skipped")
		return
	}
	n := c.Scale(6, 60)
	base := e2e.Scratch("c24s")
	defer os.RemoveAll(base)
	rngs := make([]*lib.Rng, n)
	for i := range rngs {
		rngs[i] = c.Rng.Fork()
	}
	runs := make([]*sinceRun, n)
	var wg sync.WaitGroup
	sem := make(chan struct{}, 6)
	for i := 0; i < n; i++ {
		wg.Add(1)
		go func(i int) {
			defer wg.Done()
			sem <- struct{}{}
			defer func() { <-sem }()
			runs[i] = execSince(base, i, rngs[i], !c.Thor)
		}(i)
	}
	wg.Wait()
	for i, run := range runs {
		if len(run.Queries) == 0 {
			// the scenario could not be set up at all: a broken check, not a verdict
			panic(fmt.Sprintf("since scenario %d could not be run: %v", i, run.Errs))
		}
		logPath := filepath.Join(base, fmt.Sprintf("s%d.actions.log", i))
		descs := make([]*gdesc, len(run.Specs))
		for k, s := range run.Specs {
			descs[k] = mirror(s, logPath)
		}
		cfgKeys := make([]string, len(run.Configs))
		for k, lines := range run.Configs {
			// the hash-relevant part of the generator's description of .plzconfig
			rel := []string{}
			for j := 0; j+1 < len(lines); j += 2 {
				if lines[j] != "[please]" {
					rel = append(rel, lines[j]+lines[j+1])
				}
			}
			cfgKeys[k] = strings.Join(rel, ";")
		}
		cfgDiff := cfgKeys[run.SinceIdx] != cfgKeys[run.Tip]
		dOld, dNew := descs[run.SinceIdx], descs[run.Tip]
		for _, k := range run.Kinds {
			c.Hist("since_commit_kind", k)
		}
		c.Hist("since_rev", map[bool]string{true: "commit-hash", false: run.Since}[len(run.Since) == 40])
		c.Hist("since_config_changed", fmt.Sprint(cfgDiff))

		// ---- hash oracle
		var changedAll, changedDef []string
		if run.HashOld != nil && run.HashNew != nil {
			for _, l := range lib.SortedKeys(run.HashNew) {
				old, ok := run.HashOld[l]
				if !ok || strings.Join(old, "\n") != strings.Join(run.HashNew[l], "\n") {
					changedAll = append(changedAll, l)
				}
				if !ok || definitionPart(old) != definitionPart(run.HashNew[l]) {
					changedDef = append(changedDef, l)
				}
			}
			// the description of the configuration and the Config hash plz computes must agree
			c.Oracle()
			var oldCfg, newCfg string
			for _, l := range run.HashOld {
				oldCfg = configPart(l)
			}
			for _, l := range run.HashNew {
				newCfg = configPart(l)
			}
			if (oldCfg != newCfg) != cfgDiff {
				c.Fail("since-config-hash-vs-description", fmt.Sprintf("scenario %d: .plzconfig extra lines %v -> %v: the generator says hash-relevant change = %v, `plz hash --detailed` prints %s -> %s",
					i, run.Configs[run.SinceIdx], run.Configs[run.Tip], cfgDiff, oldCfg, newCfg), run)
			}
			c.HistN("since_hash_changed", min(len(changedAll), 6))
		} else {
			c.Note("since scenario %d: no hash oracle (%v)", i, run.Errs)
		}

		n := number(descs...)
		for _, q := range run.Queries {
			where := map[bool]string{true: "detached HEAD", false: "on branch " + q.HeadBefore.Branch}[q.Detached]
			c.Hist("since_head", map[bool]string{true: "detached", false: "branch"}[q.Detached])
			c.Oracle()
			if q.Exit != 0 {
				c.Fail("since-plz-query-changes-failed", fmt.Sprintf("scenario %d (%s): plz query changes --since %s: exit %d: %s", i, where, run.Since, q.Exit, q.Stderr), run)
				continue
			}
			c.Oracle()
			if q.HeadAfter != q.HeadBefore {
				c.Fail("since-work-tree-not-restored", fmt.Sprintf("scenario %d (%s): HEAD was %+v before `plz query changes --since %s` and is %+v after it",
					i, where, q.HeadBefore, run.Since, q.HeadAfter), run)
			}
			if run.HashOld != nil && run.HashNew != nil {
				need, what := changedAll, "(Config, Rule, Source, Tool) hashes"
				if run.Level != -1 {
					need, what = changedDef, "(Config, Rule) hashes"
				}
				c.Oracle()
				missing := []string{}
				for _, l := range need {
					if !contains(q.Reported, l) && !contains(dNew.byLabel(l).Labels, "manual") {
						missing = append(missing, l)
					}
				}
				if len(missing) > 0 {
					c.Fail("since-hash-changed-target-not-reported", fmt.Sprintf("scenario %d (%s), --since %s (commit %d -> %d, last commit: %s) level %d: the %s of %v differ between fresh checkouts of the two revisions (or the target is new) but only %v is reported",
						i, where, run.Since, run.SinceIdx, run.Tip, run.Kinds[len(run.Kinds)-1], run.Level, what, missing, q.Reported), run)
				}
			}
			// in process, on the mirror of the two revisions
			got := runQuery(c, dNew, qdesc{Files: run.Files, Level: run.Level, Before: dOld, CfgDiff: cfgDiff}, false, fmt.Sprint("since", i, "/", q.Detached))
			c.Oracle()
			if !sameStrings(q.Reported, got) {
				c.Fail("since-cli-differs-from-in-process", fmt.Sprintf("scenario %d (%s): plz query changes --since %s --level %d printed %v, query.DiffGraphs on the mirror of commits %d and %d (config changed: %v) %v",
					i, where, run.Since, run.Level, q.Reported, run.SinceIdx, run.Tip, cfgDiff, got), run)
			}
			// the model case
			unknown := false
			repIDs := []uint64{}
			for _, l := range q.Reported {
				if _, ok := n.ids[l]; !ok {
					unknown = true
					continue
				}
				repIDs = append(repIDs, n.id(l))
			}
			if unknown {
				c.Fail("since-reported-unknown-label", fmt.Sprintf("scenario %d: %v", i, q.Reported), run)
				continue
			}
			snaps := make([]string, len(descs))
			for k, d := range descs {
				b := buildGraph(0, d)
				snaps[k] = lib.App("mkSnap", lib.N(n.key("cfg:"+cfgKeys[k])), b.coq(n))
			}
			ops := []string{}
			for _, o := range run.OpsCoq {
				var k int
				if _, err := fmt.Sscanf(o, "COMMIT %d", &k); err == nil {
					o = lib.App("OpCommit", snaps[k])
				}
				ops = append(ops, o)
			}
			if q.Detached {
				ops = append(ops, lib.App("OpCheckout", lib.App("RCommit", lib.Nat(run.Tip))))
			}
			c.Case(lib.App("CSince", lib.Str("main"), snaps[0], lib.List(ops), run.SinceCoq, lib.StrList(run.Files), lib.Z(int64(run.Level)),
				lib.Bool(false), headCoq(q.HeadBefore), lib.NList(repIDs), headCoq(q.HeadAfter)),
				run, fmt.Sprint("since", i, "/", q.Detached), len(changedAll) > 0 || cfgDiff)
		}
	}
}

func (d *gdesc) byLabel(l string) *tdesc {
	for i := range d.Targets {
		if d.Targets[i].Label == l {
			return &d.Targets[i]
		}
	}
	return &tdesc{}
}
