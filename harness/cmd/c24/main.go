// C24: change detection never misses an affected target.
// Implementation side of the correspondence + model-independent property oracle.
//
// Graphs are real core.BuildGraph values (packages, targets with file / directory / label sources, data, tools,
// require/provide, hidden children, subrepo targets, subincludes, include/exclude labels).  The code under test
// is the exported query.Changes and query.DiffGraphs.  The oracle works on the generator's own description of
// the graph: it never calls HasSource / FindRevdeps / ProvideFor and never looks at the Coq model.
//
// The property is about never MISSING a target: a reported target that the reference does not require is not a
// violation; such targets are counted (histogram `extra_reported`).
package main

import (
	"encoding/hex"
	"encoding/json"
	"fmt"
	"path/filepath"
	"sort"
	"strings"

	"verifharness/lib"

	"github.com/thought-machine/please/src/build"
	"github.com/thought-machine/please/src/cli"
	"github.com/thought-machine/please/src/core"
	"github.com/thought-machine/please/src/query"
	gologging "gopkg.in/op/go-logging.v1"
)

// ------------------------------------------------------------------------------------------------
// descriptions

// An input entry is a package-relative file (or directory) name, or a label when it starts with "//".
type tdesc struct {
	Label     string              `json:"l"`
	Srcs      []string            `json:"srcs,omitempty"`
	Named     map[string][]string `json:"named,omitempty"`
	Data      []string            `json:"data,omitempty"`
	NamedData map[string][]string `json:"named_data,omitempty"`
	// label tools or "/abs" system tools: the BUILD language never yields an in-repo file as a tool
	// (parseSource turns a relative non-label tool into a lookup on PATH)
	Tools     []string            `json:"tools,omitempty"`
	TestTools []string            `json:"test_tools,omitempty"` // makes the target a test
	Deps      []string            `json:"deps,omitempty"`
	Req       []string            `json:"req,omitempty"`
	Prov      map[string][]string `json:"prov,omitempty"`
	Labels    []string            `json:"labels,omitempty"`
	Cmd       string              `json:"cmd,omitempty"`
}

type gdesc struct {
	Targets     []tdesc             `json:"targets"`
	Pkgs        []string            `json:"pkgs"`                  // host packages (a package may have no target)
	Subincludes map[string][]string `json:"subincludes,omitempty"` // host package -> labels it subincludes
	Subrepos    map[string]string   `json:"subrepos,omitempty"`    // subrepo name -> label of the target that defines it ("" = none)
	Include     []string            `json:"include,omitempty"`
	Exclude     []string            `json:"exclude,omitempty"`
}

type qdesc struct {
	Files   []string `json:"files"`
	Level   int      `json:"level"`
	IncSub  bool     `json:"include_subrepos"`
	Before  *gdesc   `json:"before,omitempty"` // diff mode when set
	CfgDiff bool     `json:"config_changed,omitempty"`
}

func isLabel(s string) bool { return strings.HasPrefix(s, "//") }
func isAbs(s string) bool   { return strings.HasPrefix(s, "/") && !isLabel(s) }

func splitLabel(s string) (sub, pkg, name string) {
	if strings.HasPrefix(s, "///") {
		rest := s[3:]
		i := strings.Index(rest, "//")
		sub, s = rest[:i], rest[i:]
	}
	s = strings.TrimPrefix(s, "//")
	i := strings.LastIndex(s, ":")
	return sub, s[:i], s[i+1:]
}

func lbl(s string) core.BuildLabel {
	sub, pkg, name := splitLabel(s)
	return core.BuildLabel{Subrepo: sub, PackageName: pkg, Name: name}
}

func input(pkg, e string) core.BuildInput {
	switch {
	case isLabel(e):
		return lbl(e)
	case isAbs(e):
		return core.SystemFileLabel{Path: e}
	default:
		return core.FileLabel{File: e, Package: pkg}
	}
}

func sortedNamed(m map[string][]string) []string {
	out := []string{}
	for _, k := range lib.SortedKeys(m) {
		out = append(out, m[k]...)
	}
	return out
}

// every entry HasSource looks at, in AllSources() ++ AllData() order
func (t *tdesc) srcData() []string {
	out := append([]string{}, t.Srcs...)
	out = append(out, sortedNamed(t.Named)...)
	out = append(out, t.Data...)
	return append(out, sortedNamed(t.NamedData)...)
}
func (t *tdesc) allData() []string  { return append(append([]string{}, t.Data...), sortedNamed(t.NamedData)...) }
func (t *tdesc) allTools() []string { return append(append([]string{}, t.Tools...), t.TestTools...) }

// declared dependencies as the generator sees them: explicit ones and every label-valued input
func (t *tdesc) depLabels() []string {
	out := []string{}
	seen := map[string]bool{}
	for _, l := range [][]string{t.Deps, t.srcData(), t.allTools()} {
		for _, e := range l {
			if isLabel(e) && !seen[e] {
				seen[e] = true
				out = append(out, e)
			}
		}
	}
	return out
}

var langs = []string{"go", "py", "cc"}

func langID(s string) uint64 {
	for i, l := range langs {
		if l == s {
			return uint64(i + 1)
		}
	}
	panic("lang " + s)
}

// ------------------------------------------------------------------------------------------------
// building the real graph and printing the model's view of it

var states [2]*core.BuildState

type built struct {
	d     *gdesc
	state *core.BuildState
	byLbl map[string]*tdesc
}

func included(d *gdesc, t *tdesc) bool {
	has := func(l string) bool {
		// requirements are implicit labels (BuildTarget.AddRequire)
		return contains(t.Labels, l) || contains(t.Req, l)
	}
	inc := len(d.Include) == 0
	for _, i := range d.Include {
		if has(i) {
			inc = true
		}
	}
	for _, e := range d.Exclude {
		if has(e) {
			inc = false
		}
	}
	return inc
}

func buildGraph(slot int, d *gdesc) *built {
	if states[slot] == nil {
		states[slot] = core.NewBuildState(core.DefaultConfiguration())
	}
	state := states[slot]
	state.Graph = core.NewGraph()
	state.SetIncludeAndExclude(d.Include, d.Exclude)
	state.Hashes.Config = []byte("config")
	b := &built{d: d, state: state, byLbl: map[string]*tdesc{}}
	type pk struct{ name, sub string }
	pkgs := map[pk]*core.Package{}
	for _, p := range d.Pkgs {
		pkgs[pk{p, ""}] = core.NewPackage(p)
		state.Graph.AddPackage(pkgs[pk{p, ""}])
	}
	real := map[string]*core.BuildTarget{}
	for i := range d.Targets {
		td := &d.Targets[i]
		b.byLbl[td.Label] = td
		l := lbl(td.Label)
		t := core.NewBuildTarget(l)
		if len(td.TestTools) > 0 {
			t.Test = new(core.TestFields)
		}
		for _, e := range td.Srcs {
			t.AddSource(input(l.PackageName, e))
		}
		for _, k := range lib.SortedKeys(td.Named) {
			for _, e := range td.Named[k] {
				t.AddNamedSource(k, input(l.PackageName, e))
			}
		}
		for _, e := range td.Data {
			t.AddDatum(input(l.PackageName, e))
		}
		for _, k := range lib.SortedKeys(td.NamedData) {
			for _, e := range td.NamedData[k] {
				t.AddNamedDatum(k, input(l.PackageName, e))
			}
		}
		for _, e := range td.Tools {
			t.AddTool(input(l.PackageName, e))
		}
		for _, e := range td.TestTools {
			t.AddTestTool(input(l.PackageName, e))
		}
		for _, e := range td.Deps {
			t.AddDependency(lbl(e))
		}
		for _, r := range td.Req {
			t.AddRequire(r)
		}
		for _, k := range lib.SortedKeys(td.Prov) {
			ls := []core.BuildLabel{}
			for _, x := range td.Prov[k] {
				ls = append(ls, lbl(x))
			}
			t.AddProvide(k, ls)
		}
		for _, x := range td.Labels {
			t.AddLabel(x)
		}
		t.Command = td.Cmd
		state.Graph.AddTarget(t)
		key := pk{l.PackageName, l.Subrepo}
		if pkgs[key] == nil {
			if l.Subrepo == "" {
				panic("host target in a package that is not listed: " + td.Label)
			}
			pkgs[key] = core.NewPackageSubrepo(l.PackageName, l.Subrepo)
			state.Graph.AddPackage(pkgs[key])
		}
		pkgs[key].AddTarget(t)
		real[td.Label] = t
	}
	for _, name := range lib.SortedKeys(d.Subrepos) {
		var def *core.BuildTarget
		if d.Subrepos[name] != "" {
			def = real[d.Subrepos[name]]
		}
		sr := core.NewSubrepo(state, name, "third_party/"+name, def, cli.Arch{}, false)
		state.Graph.AddSubrepo(sr)
		for _, td := range d.Targets {
			if sub, _, _ := splitLabel(td.Label); sub == name {
				real[td.Label].Subrepo = sr
			}
		}
	}
	for _, p := range lib.SortedKeys(d.Subincludes) {
		for _, l := range d.Subincludes[p] {
			pkgs[pk{p, ""}].RegisterSubinclude(lbl(l))
		}
	}
	return b
}

// numbering of labels and of abstract keys, shared by the graphs of one case
type numbering struct {
	ids  map[string]int
	keys map[string]int
}

func number(ds ...*gdesc) *numbering {
	set := map[string]bool{}
	for _, d := range ds {
		for i := range d.Targets {
			t := &d.Targets[i]
			set[t.Label] = true
			for _, l := range t.depLabels() {
				set[l] = true
			}
			for _, ls := range t.Prov {
				for _, l := range ls {
					set[l] = true
				}
			}
		}
		for _, l := range d.Subrepos {
			if l != "" {
				set[l] = true
			}
		}
		for _, ls := range d.Subincludes {
			for _, l := range ls {
				set[l] = true
			}
		}
	}
	n := &numbering{ids: map[string]int{}, keys: map[string]int{}}
	for i, l := range lib.SortedKeys(set) {
		n.ids[l] = i
	}
	return n
}

func (n *numbering) id(l string) uint64 {
	v, ok := n.ids[l]
	if !ok {
		panic("unnumbered label " + l)
	}
	return uint64(v)
}

func (n *numbering) idOf(l core.BuildLabel) uint64 { return n.id(l.String()) }

func (n *numbering) key(s string) uint64 {
	if _, ok := n.keys[s]; !ok {
		n.keys[s] = len(n.keys) + 1
	}
	return uint64(n.keys[s])
}

func (n *numbering) idList(ls []string) string {
	out := []uint64{}
	for _, l := range ls {
		out = append(out, n.id(l))
	}
	return lib.NList(out)
}

func filterEntries(es []string, keep func(string) bool) []string {
	out := []string{}
	for _, e := range es {
		if keep(e) {
			out = append(out, e)
		}
	}
	return out
}

// the model's graph: Graph.AllTargets() order, DeclaredDependencies() order, RuleHash as an abstract key
func (b *built) coq(n *numbering) string {
	ts := []string{}
	for _, t := range b.state.Graph.AllTargets() {
		td := b.byLbl[t.Label.String()]
		deps := []uint64{}
		for _, dl := range t.DeclaredDependencies() {
			deps = append(deps, n.idOf(dl))
		}
		req := []uint64{}
		for _, r := range t.Requires {
			req = append(req, langID(r))
		}
		prov := []string{}
		for _, k := range lib.SortedKeys(td.Prov) {
			prov = append(prov, lib.Pair(lib.N(langID(k)), n.idList(td.Prov[k])))
		}
		subT := "None"
		if t.Subrepo != nil && t.Subrepo.Target != nil {
			subT = lib.Some(lib.N(n.idOf(t.Subrepo.Target.Label)))
		}
		inc := included(b.d, td)
		if inc != b.state.ShouldInclude(t) {
			panic(fmt.Sprintf("harness: include filter of %s: %v vs ShouldInclude %v; labels %v include %v exclude %v state %v %v", td.Label, inc, !inc, td.Labels, b.d.Include, b.d.Exclude, b.state.Include, b.state.Exclude) + fmt.Sprint(t.Labels, t.IsTest(), t.HasLabel("py"), t.HasLabel("slow"), t.ShouldInclude(b.state.Include, b.state.Exclude)))
		}
		// changes.go sourceHash: one hash of the local paths per tool that is not a label, in AllTools() order
		srckey := []string{}
		for _, e := range td.Tools {
			if !isLabel(e) {
				srckey = append(srckey, e)
			}
		}
		ts = append(ts, lib.App("mkT",
			lib.N(n.idOf(t.Label)), lib.Str(t.Label.PackageName), lib.Bool(t.Subrepo != nil), subT,
			lib.StrList(td.srcData()),
			lib.NList(deps), lib.NList(req), lib.List(prov),
			n.idList(filterEntries(td.allData(), isLabel)), n.idList(filterEntries(td.allTools(), isLabel)),
			lib.Bool(inc),
			lib.N(n.key("def:"+hex.EncodeToString(build.RuleHash(b.state, t, true, false)))),
			lib.N(n.key("src:"+strings.Join(srckey, "\x00")))))
	}
	subs := []string{}
	for _, p := range lib.SortedKeys(b.d.Subincludes) {
		for _, l := range b.d.Subincludes[p] {
			subs = append(subs, lib.Pair(lib.Str(p), lib.N(n.id(l))))
		}
	}
	return lib.App("mkG", lib.List(ts), lib.StrList(b.d.Pkgs), lib.List(subs))
}

// ------------------------------------------------------------------------------------------------
// the reference (oracle): written against the description only

func segs(p string) []string {
	if p == "" {
		return nil
	}
	return strings.Split(p, "/")
}

func joinPkg(pkg, p string) string {
	if pkg == "" {
		return p
	}
	return pkg + "/" + p
}

// f is the path p itself or lies below the directory p (segment-wise)
func under(p, f string) bool {
	ps, fs := segs(p), segs(f)
	if len(ps) == 0 || len(ps) > len(fs) {
		return false
	}
	for i := range ps {
		if ps[i] != fs[i] {
			return false
		}
	}
	return true
}

// the closest enclosing host package of a file: the longest proper directory prefix that is a package
func closestPkg(d *gdesc, f string) (string, bool) {
	fs := segs(f)
	for k := len(fs) - 1; k >= 0; k-- {
		cand := strings.Join(fs[:k], "/")
		for _, p := range d.Pkgs {
			if p == cand {
				return p, true
			}
		}
	}
	return "", false
}

type reference struct {
	d        *gdesc
	byLbl    map[string]*tdesc
	rev      map[string][]string // label -> targets that depend on it (resolved through require/provide)
	revSub   map[string][]string // subrepo-defining target -> targets of that subrepo
	revIncl  map[string][]string // subincluded label -> targets of the packages that subinclude it
	consumes func(t *tdesc, f string, tools bool) bool
}

func contains(xs []string, x string) bool {
	for _, y := range xs {
		if y == x {
			return true
		}
	}
	return false
}

func newReference(d *gdesc) *reference {
	r := &reference{d: d, byLbl: map[string]*tdesc{}, rev: map[string][]string{}, revSub: map[string][]string{}, revIncl: map[string][]string{}}
	for i := range d.Targets {
		r.byLbl[d.Targets[i].Label] = &d.Targets[i]
	}
	for i := range d.Targets {
		u := &d.Targets[i]
		for _, dl := range u.depLabels() {
			t2 := r.byLbl[dl]
			if t2 == nil {
				continue
			}
			res := []string{dl}
			// a dependency is replaced by what the dependency provides for a language the dependent requires,
			// unless the dependent uses it as data or as a tool
			if len(t2.Prov) > 0 && len(u.Req) > 0 && !contains(filterEntries(u.allData(), isLabel), dl) && !contains(filterEntries(u.allTools(), isLabel), dl) {
				sub, found := []string{}, false
				for _, q := range u.Req {
					if ls, ok := t2.Prov[q]; ok {
						sub, found = append(sub, ls...), true
					}
				}
				if found {
					res = sub
				}
			}
			for _, x := range res {
				r.rev[x] = append(r.rev[x], u.Label)
			}
		}
		sub, pkg, _ := splitLabel(u.Label)
		if sub != "" {
			if def := d.Subrepos[sub]; def != "" {
				r.revSub[def] = append(r.revSub[def], u.Label)
			}
		} else {
			for _, l := range d.Subincludes[pkg] {
				r.revIncl[l] = append(r.revIncl[l], u.Label)
			}
		}
	}
	return r
}

// does host target t consume file f (as a source / data entry)?
// The package must own the file (closest enclosing package), which plz enforces for sources and data.
func (r *reference) consumesFile(t *tdesc, f string) bool {
	sub, pkg, _ := splitLabel(t.Label)
	if sub != "" {
		return false
	}
	if own, ok := closestPkg(r.d, f); !ok || own != pkg {
		return false
	}
	for _, e := range t.srcData() {
		if !isLabel(e) && !isAbs(e) && under(joinPkg(pkg, e), f) {
			return true
		}
	}
	return false
}

// distances (number of dependency steps) from the base set; kinds selects the edge kinds followed
func (r *reference) closure(base []string, subEdges, inclEdges bool) map[string]int {
	dist := map[string]int{}
	queue := []string{}
	for _, b := range base {
		if _, ok := dist[b]; !ok {
			dist[b] = 0
			queue = append(queue, b)
		}
	}
	for len(queue) > 0 {
		x := queue[0]
		queue = queue[1:]
		next := append([]string{}, r.rev[x]...)
		if subEdges {
			next = append(next, r.revSub[x]...)
		}
		if inclEdges {
			next = append(next, r.revIncl[x]...)
		}
		for _, u := range next {
			if _, ok := dist[u]; !ok {
				dist[u] = dist[x] + 1
				queue = append(queue, u)
			}
		}
	}
	return dist
}

func (r *reference) visible(l string, incSub bool) bool {
	t := r.byLbl[l]
	sub, _, _ := splitLabel(l)
	return t != nil && included(r.d, t) && (incSub || sub == "")
}

// ------------------------------------------------------------------------------------------------
// one query on one graph (or pair of graphs)

type caseJS struct {
	Graph    *gdesc   `json:"graph"`
	Query    qdesc    `json:"query"`
	Reported []string `json:"reported"`
}

func tdescEqual(a, b *tdesc) bool {
	x, _ := json.Marshal(a)
	y, _ := json.Marshal(b)
	return string(x) == string(y)
}

// runQuery returns what the implementation reported (sorted label strings).
func runQuery(c *lib.Ctx, d *gdesc, q qdesc, withCase bool, tag string) []string {
	after := buildGraph(1, d)
	var before *built
	ds := []*gdesc{d}
	if q.Before != nil {
		before = buildGraph(0, q.Before)
		if q.CfgDiff {
			before.state.Hashes.Config = []byte("other config")
		}
		ds = append(ds, q.Before)
	}
	n := number(ds...)

	// ---- the implementation
	var got core.BuildLabels
	if before != nil {
		got = query.DiffGraphs(before.state, after.state, q.Files, q.Level, q.IncSub)
	} else {
		got = query.Changes(after.state, q.Files, q.Level, q.IncSub)
	}
	reported := map[string]bool{}
	repList := []string{}
	repIDs := []uint64{}
	for _, l := range got {
		reported[l.String()] = true
		repList = append(repList, l.String())
		repIDs = append(repIDs, n.idOf(l))
	}
	js := caseJS{Graph: d, Query: q, Reported: repList}

	// ---- the reference
	ref := newReference(d)
	base := []string{}
	defChanged := 0
	for i := range d.Targets {
		t := &d.Targets[i]
		direct := false
		for _, f := range q.Files {
			if ref.consumesFile(t, f) {
				direct = true
			}
		}
		if q.Before != nil {
			var old *tdesc
			for j := range q.Before.Targets {
				if q.Before.Targets[j].Label == t.Label {
					old = &q.Before.Targets[j]
				}
			}
			if old == nil || !tdescEqual(old, t) || q.CfgDiff {
				direct = true
				defChanged++
			}
		}
		if direct {
			base = append(base, t.Label)
		}
	}
	// tiers of required targets: (1) what the property demands over the dependency edges plz builds with (and the
	// subrepo -> defining target edge when subrepos are included), (2) + that edge also without include_subrepos
	// (a host target can depend on a subrepo target), (3) + subinclude edges: only without a `before` graph, because
	// with one a target of a subincluding package is affected exactly when its own definition changed
	type tier struct {
		class string
		dist  map[string]int
	}
	tiers := []tier{
		{"affected-target-not-reported", ref.closure(base, q.IncSub, false)},
		{"subrepo-edge-needs-include-subrepos", ref.closure(base, true, false)},
	}
	if q.Before == nil {
		tiers = append(tiers, tier{"subincluding-package-not-followed", ref.closure(base, true, true)})
	}
	c.Oracle()
	missing := map[string]string{}
	required := map[string]bool{}
	for _, tier := range tiers {
		for l, dist := range tier.dist {
			need := dist == 0 || q.Level == -1 || (q.Level > 0 && dist <= q.Level)
			if !need || !ref.visible(l, q.IncSub) {
				continue
			}
			required[l] = true
			if !reported[l] {
				if _, ok := missing[l]; !ok {
					missing[l] = tier.class
				}
			}
		}
	}
	byClass := map[string][]string{}
	for l, cl := range missing {
		if cl == "affected-target-not-reported" && q.Level > 0 {
			cl = "affected-target-within-level-not-reported"
		}
		byClass[cl] = append(byClass[cl], l)
	}
	for _, cl := range lib.SortedKeys(byClass) {
		sort.Strings(byClass[cl])
		c.Fail(cl, fmt.Sprintf("files %v level %d include_subrepos %v%s: reported %v, missing %v", q.Files, q.Level, q.IncSub,
			map[bool]string{true: " (graph diff)", false: ""}[q.Before != nil], repList, byClass[cl]), js)
	}
	extra := 0
	for l := range reported {
		if !required[l] {
			extra++
		}
	}
	c.HistN("extra_reported", min(extra, 5))
	c.HistN("reported", min(len(repList), 10))
	c.Hist("level", fmt.Sprint(q.Level))
	c.Hist("mode", map[bool]string{true: "diff", false: "files"}[q.Before != nil])

	// ---- the model side
	key := fmt.Sprintf("%s %#v", tag, q)
	nontrivial := len(base) > 0 && len(tiers[0].dist) > len(base)
	if !withCase {
		c.Eval(js, key, nontrivial)
		return repList
	}
	level := lib.Z(int64(q.Level))
	if before != nil {
		c.Case(lib.App("CDiff", lib.Bool(q.CfgDiff), before.coq(n), after.coq(n), lib.StrList(q.Files), level, lib.Bool(q.IncSub), lib.NList(repIDs)),
			js, key, nontrivial)
	} else {
		c.Case(lib.App("CChanges", after.coq(n), lib.StrList(q.Files), level, lib.Bool(q.IncSub), lib.NList(repIDs)), js, key, nontrivial)
	}
	return repList
}

// ------------------------------------------------------------------------------------------------
// generator

var pkgPool = []string{"", "a", "a/b", "a/b/c", "ab", "a/bc", "d", "d/e/f"}
var dirPool = []string{"", "", "sub", "sub/deep", "res", "a", "b", "e"}
var filePool = []string{"f.go", "g.go", "res", "resource.txt", "x.txt", "a", "main.py"}

func hasPkg(pkgs []string, p string) bool { return contains(pkgs, p) }

// a package-relative path that package pkg owns, also when it is used as a directory
func validEntry(pkgs []string, pkg, e string) bool {
	full := joinPkg(pkg, e)
	fs := segs(full)
	for k := len(fs) - 1; k >= 0; k-- {
		cand := strings.Join(fs[:k], "/")
		if hasPkg(pkgs, cand) {
			if cand != pkg {
				return false
			}
			break
		}
	}
	for _, p := range pkgs {
		if p == full || strings.HasPrefix(p, full+"/") {
			return false
		}
	}
	return true
}

func genEntry(r *lib.Rng, pkgs []string, pkg string, valid bool) string {
	for try := 0; try < 20; try++ {
		e := lib.Pick(r, filePool)
		if dir := lib.Pick(r, dirPool); dir != "" {
			e = dir + "/" + e
			if r.Chance(1, 6) {
				e = dir // the directory itself as a source
			}
		}
		if !valid || validEntry(pkgs, pkg, e) {
			return e
		}
	}
	return "only.txt"
}

func generate(r *lib.Rng) *gdesc {
	d := &gdesc{}
	// packages
	for _, p := range pkgPool {
		take := r.Chance(1, 2)
		if p == "" {
			take = r.Chance(3, 5)
		}
		if take {
			d.Pkgs = append(d.Pkgs, p)
		}
	}
	if len(d.Pkgs) == 0 {
		d.Pkgs = []string{"a"}
	}
	withSub := r.Chance(1, 3)
	nt := r.Range(2, 8)
	labels := []string{}
	for i := 0; i < nt; i++ {
		pkg := lib.Pick(r, d.Pkgs)
		name := fmt.Sprintf("t%d", i)
		l := "//" + pkg + ":" + name
		// a hidden child of an earlier rule of the same package
		if i > 0 && r.Chance(1, 4) {
			psub, ppkg, pname := splitLabel(labels[r.Intn(len(labels))])
			if psub == "" && !strings.HasPrefix(pname, "_") {
				l = "//" + ppkg + ":_" + pname + "#" + lib.Pick(r, []string{"lib", "zip", "srcs"})
				pkg = ppkg
				if contains(labels, l) {
					l = "//" + pkg + ":" + name
				}
			}
		}
		if withSub && r.Chance(1, 4) {
			l = "///sr//" + lib.Pick(r, []string{"x", "x/y", "a"}) + ":" + name
		}
		sub, _, _ := splitLabel(l)
		t := tdesc{Label: l, Cmd: "echo " + name}
		valid := !r.Chance(1, 12)
		if sub == "" {
			_, pkg, _ = splitLabel(l)
			for k := r.Range(0, 3); k > 0; k-- {
				t.Srcs = appendNew(t.Srcs, genEntry(r, d.Pkgs, pkg, valid))
			}
			if r.Chance(1, 4) {
				t.Named = map[string][]string{"hdrs": {genEntry(r, d.Pkgs, pkg, valid)}}
				if r.Chance(1, 2) {
					t.Named["srcs"] = []string{genEntry(r, d.Pkgs, pkg, valid)}
				}
			}
			if r.Chance(1, 3) {
				t.Data = appendNew(t.Data, genEntry(r, d.Pkgs, pkg, valid))
			}
			if r.Chance(1, 6) {
				t.NamedData = map[string][]string{"cfg": {genEntry(r, d.Pkgs, pkg, valid)}}
			}
			if r.Chance(1, 8) {
				t.Tools = append(t.Tools, lib.Pick(r, []string{"/usr/bin/python3", "/bin/sh"}))
			}
		}
		// dependencies on earlier targets (acyclic), in the various roles
		for _, prev := range labels {
			if !r.Chance(1, 3) {
				continue
			}
			switch r.Intn(8) {
			case 0:
				t.Srcs = appendNew(t.Srcs, prev)
			case 1:
				t.Data = appendNew(t.Data, prev)
			case 2:
				t.Tools = appendNew(t.Tools, prev)
			case 3:
				t.TestTools = appendNew(t.TestTools, prev)
			default:
				t.Deps = appendNew(t.Deps, prev)
			}
		}
		if r.Chance(1, 25) {
			t.Deps = appendNew(t.Deps, "//missing:dep")
		}
		if r.Chance(1, 3) {
			t.Req = append(t.Req, lib.Pick(r, langs))
			if r.Chance(1, 3) {
				t.Req = appendNew(t.Req, lib.Pick(r, langs))
			}
		}
		if len(labels) > 0 && r.Chance(1, 3) {
			t.Prov = map[string][]string{}
			for k := r.Range(1, 2); k > 0; k-- {
				ls := []string{}
				for j := r.Range(0, 2); j > 0; j-- {
					ls = appendNew(ls, lib.Pick(r, labels))
				}
				t.Prov[lib.Pick(r, langs)] = ls
			}
		}
		if r.Chance(1, 6) {
			t.Labels = append(t.Labels, lib.Pick(r, []string{"manual", "slow", "py"}))
		}
		d.Targets = append(d.Targets, t)
		labels = append(labels, l)
	}
	if withSub {
		d.Subrepos = map[string]string{"sr": ""}
		hosts := filterEntries(labels, func(l string) bool { return !strings.HasPrefix(l, "///") })
		if len(hosts) > 0 && r.Chance(3, 4) {
			d.Subrepos["sr"] = lib.Pick(r, hosts)
		}
	}
	if r.Chance(1, 4) {
		d.Subincludes = map[string][]string{}
		hosts := filterEntries(labels, func(l string) bool { return !strings.HasPrefix(l, "///") })
		for k := r.Range(1, 2); k > 0 && len(hosts) > 0; k-- {
			p := lib.Pick(r, d.Pkgs)
			d.Subincludes[p] = appendNew(d.Subincludes[p], lib.Pick(r, hosts))
		}
	}
	switch r.Intn(6) {
	case 0:
		d.Exclude = []string{"manual"}
	case 1:
		d.Include = []string{"py", "slow"}
	case 2:
		d.Exclude = []string{"manual", "slow"}
	}
	return d
}

func appendNew(xs []string, x string) []string {
	if contains(xs, x) {
		return xs
	}
	return append(xs, x)
}

// candidate changed files: the consumed files themselves, files below them, BUILD files, near misses, unowned files
func genFiles(r *lib.Rng, d *gdesc) []string {
	cands := []string{}
	for i := range d.Targets {
		t := &d.Targets[i]
		sub, pkg, _ := splitLabel(t.Label)
		if sub != "" {
			continue
		}
		for _, e := range t.srcData() {
			if isLabel(e) || isAbs(e) {
				continue
			}
			full := joinPkg(pkg, e)
			cands = append(cands, full, full, full+"/inner.go", full+"/x/y.txt", full+"x", filepath.Dir(full)+"/other.go")
		}
	}
	for _, p := range d.Pkgs {
		cands = append(cands, joinPkg(p, "BUILD"), joinPkg(p, "new.go"), joinPkg(p, "sub/new.go"))
	}
	cands = append(cands, "zz/q.txt", "a/b/c/d/e.txt", "top.txt", "d/e/mid.txt", "/usr/bin/python3")
	out := []string{}
	for k := r.Range(1, 4); k > 0; k-- {
		out = appendNew(out, strings.TrimPrefix(lib.Pick(r, cands), "./"))
	}
	return out
}

func cloneDesc(d *gdesc) *gdesc {
	n := *d
	n.Targets = make([]tdesc, len(d.Targets))
	for i, t := range d.Targets {
		n.Targets[i] = t
		n.Targets[i].Srcs = append([]string{}, t.Srcs...)
		n.Targets[i].Data = append([]string{}, t.Data...)
		n.Targets[i].Tools = append([]string{}, t.Tools...)
		n.Targets[i].Deps = append([]string{}, t.Deps...)
		n.Targets[i].Labels = append([]string{}, t.Labels...)
		n.Targets[i].Req = append([]string{}, t.Req...)
	}
	return &n
}

// derive the "before" graph from the "after" graph by undoing a few definition edits
func genBefore(r *lib.Rng, after *gdesc) *gdesc {
	b := cloneDesc(after)
	for k := r.Range(0, 3); k > 0 && len(b.Targets) > 0; k-- {
		i := r.Intn(len(b.Targets))
		t := &b.Targets[i]
		sub, _, _ := splitLabel(t.Label)
		switch r.Intn(8) {
		case 0:
			t.Cmd += " --old"
		case 1:
			if sub == "" {
				t.Srcs = append(t.Srcs, "removed_since.go")
			} else {
				t.Cmd = "old"
			}
		case 2:
			t.Labels = append(t.Labels, "old_label")
		case 3: // the target is new in `after`
			b.Targets = append(b.Targets[:i], b.Targets[i+1:]...)
		case 4:
			if len(t.Deps) > 0 {
				t.Deps = t.Deps[:len(t.Deps)-1]
			} else {
				t.Cmd += " x"
			}
		case 5: // an out-of-repo tool changed
			t.Tools = append(t.Tools, "/opt/old/tool")
		case 6:
			if sub == "" {
				t.Data = append(t.Data, "old_data.txt")
			} else {
				t.Cmd = "older"
			}
		case 7: // a target that exists only before
			b.Targets = append(b.Targets, tdesc{Label: fmt.Sprintf("//%s:gone%d", lib.Pick(r, b.Pkgs), k), Cmd: "gone"})
		}
	}
	return b
}

var levels = []int{0, -1, -1, 1, 2, 3}

func runGraph(c *lib.Ctx, r *lib.Rng, d *gdesc, tag string, queries int) {
	for k := 0; k < queries; k++ {
		q := qdesc{Files: genFiles(r, d), Level: lib.Pick(r, levels), IncSub: r.Chance(1, 2)}
		if r.Chance(1, 40) {
			q.Level = -2
		}
		if k%3 == 2 {
			q.Before = genBefore(r, d)
			q.CfgDiff = r.Chance(1, 10)
			if r.Chance(1, 2) {
				q.Files = nil
			}
		}
		runQuery(c, d, q, k < 3, fmt.Sprint(tag, "/", k))
	}
	c.HistN("targets", len(d.Targets))
	c.HistN("packages", len(d.Pkgs))
}

// Ladders: a chain c0 <- c1 <- ... <- ck with random shortcuts, side nodes that open a second, shorter path to a late
// chain node (c0|c1 <- s <- cj) and a tail that is reachable through ck only; c0 consumes the changed file.  A node is reachable over paths of different lengths, so a level-limited search that is not
// breadth first (wrong queue discipline, depth taken from the wrong path) cuts the report short.  Target names are
// shuffled so that the long path is met first about as often as the short one.
func genLadder(r *lib.Rng) (*gdesc, []string) {
	k := r.Range(3, 6)    // chain c0..ck
	tail := r.Range(1, 2) // nodes behind ck that are reachable through ck only
	side := r.Range(1, 2) // side nodes: s depends on an early chain node, a later chain node depends on s (a second, shorter path)
	n := k + 1 + tail + side
	names := make([]int, n)
	for i := range names {
		names[i] = i
	}
	lib.Shuffle(r, names)
	label := func(i int) string { return fmt.Sprintf("//a:n%d", names[i]) }
	d := &gdesc{Pkgs: []string{"a"}}
	deps := make([][]string, n)
	for i := 1; i <= k; i++ {
		deps[i] = []string{label(i - 1)}
		for j := 0; j < i-1; j++ {
			if r.Chance(1, 12) {
				deps[i] = append(deps[i], label(j))
			}
		}
	}
	for i := k + 1; i <= k+tail; i++ {
		deps[i] = []string{label(i - 1)}
		if r.Chance(1, 3) {
			deps[i] = []string{label(k)}
		}
	}
	for s := k + tail + 1; s < n; s++ {
		from := r.Range(0, 1)
		to := r.Range(from+2, k)
		if r.Chance(2, 3) {
			to = k
		}
		deps[s] = []string{label(from)}
		deps[to] = appendNew(deps[to], label(s))
	}
	for i := 0; i < n; i++ {
		if r.Chance(1, 2) {
			lib.Shuffle(r, deps[i])
		}
		d.Targets = append(d.Targets, tdesc{Label: label(i), Srcs: []string{fmt.Sprintf("f%d.go", i)}, Deps: deps[i], Cmd: "c"})
	}
	lib.Shuffle(r, d.Targets)
	return d, []string{"a/f0.go"}
}

func runLadders(c *lib.Ctx) {
	n := c.Scale(40, 600)
	for i := 0; i < n; i++ {
		r := c.Rng.Fork()
		d, files := genLadder(r)
		for k, lvl := range []int{3, 4, r.Range(1, 2), r.Range(5, 7), -1} {
			q := qdesc{Files: files, Level: lvl}
			if r.Chance(1, 4) {
				q.Before = cloneDesc(d) // the same search from the before/after entry point
			}
			runQuery(c, d, q, k < 3, fmt.Sprint("ladder", i, "/", k))
		}
		c.HistN("ladder_targets", len(d.Targets))
	}
}

// fixed graphs: the documented examples and the witnesses of the known defect classes
func fixedCases() []caseJS {
	lib1 := tdesc{Label: "//a:lib", Srcs: []string{"lib.go", "res"}, Cmd: "c"}
	bin := tdesc{Label: "//a/b:bin", Srcs: []string{"main.go"}, Deps: []string{"//a:lib"}, Cmd: "c"}
	tst := tdesc{Label: "//a/b:test", Srcs: []string{"t.go"}, Data: []string{"testdata"}, Deps: []string{"//a/b:bin"}, Cmd: "c"}
	base := gdesc{Targets: []tdesc{lib1, bin, tst}, Pkgs: []string{"a", "a/b"}}
	tool := gdesc{Targets: []tdesc{{Label: "//a:gen", Srcs: []string{"gen.sh"}, Cmd: "c"},
		{Label: "//a:user", Tools: []string{"//a:gen", "/bin/sh"}, Cmd: "c"}}, Pkgs: []string{"a"}}
	incl := gdesc{Targets: []tdesc{{Label: "//defs:defs", Srcs: []string{"rules.build_defs"}, Cmd: "c"},
		{Label: "//a:lib", Srcs: []string{"lib.go"}, Cmd: "c"}}, Pkgs: []string{"a", "defs"},
		Subincludes: map[string][]string{"a": {"//defs:defs"}}}
	subr := gdesc{Targets: []tdesc{{Label: "//third_party:sr", Srcs: []string{"sr.patch"}, Cmd: "c"},
		{Label: "///sr//x:lib", Cmd: "c"}, {Label: "//a:app", Deps: []string{"///sr//x:lib"}, Cmd: "c"}},
		Pkgs: []string{"a", "third_party"}, Subrepos: map[string]string{"sr": "//third_party:sr"}}
	return []caseJS{
		{Graph: &base, Query: qdesc{Files: []string{"a/lib.go"}, Level: -1}},
		{Graph: &base, Query: qdesc{Files: []string{"a/res/img/x.png"}, Level: 1}},
		{Graph: &base, Query: qdesc{Files: []string{"a/b/testdata/in.txt", "a/b/unknown.go"}, Level: 0}},
		{Graph: &tool, Query: qdesc{Files: []string{"a/gen.sh"}, Level: -1}},
		{Graph: &incl, Query: qdesc{Files: []string{"defs/rules.build_defs"}, Level: -1}},
		{Graph: &subr, Query: qdesc{Files: []string{"third_party/sr.patch"}, Level: -1, IncSub: false}},
		{Graph: &subr, Query: qdesc{Files: []string{"third_party/sr.patch"}, Level: -1, IncSub: true}},
	}
}

// filepath.Dir on the class of paths the model covers (no ".", ".." or empty interior segments)
func dirCases(c *lib.Ctx) {
	paths := []string{"", "a", "a/b", "a/b/c.txt", "/", "/a", "/a/b", "a/", "ab/cd/", ".", "x.y/z", "a/b/c/d/e/f"}
	for i := 0; i < 40; i++ {
		n := c.Rng.Range(1, 5)
		parts := []string{}
		for j := 0; j < n; j++ {
			parts = append(parts, lib.Pick(c.Rng, []string{"a", "bc", "d.e", "_f", "g-h"}))
		}
		p := strings.Join(parts, "/")
		if c.Rng.Chance(1, 5) {
			p = "/" + p
		}
		paths = append(paths, p)
	}
	for _, p := range paths {
		c.Case(lib.App("CDir", lib.Str(p), lib.Str(filepath.Dir(p))), map[string]string{"path": p, "dir": filepath.Dir(p)}, "dir "+p, strings.Contains(p, "/"))
	}
}

func main() {
	gologging.SetLevel(gologging.CRITICAL, "plz")
	lib.Main("C24", func(c *lib.Ctx) {
		c.Model("From PlzV Require Import Model.C24.", "C24.case", "C24.check")
		c.Rule("random graphs of 2-8 targets over 1-8 host packages drawn from a pool of nested / prefix-sharing directories (root package optional), " +
			"file, directory and label sources, named sources, data, named data, file / label / system tools, test tools, require/provide, hidden children, " +
			"subrepo targets with a defining target, subincludes, include/exclude labels, 1 in 12 targets with entries owned by another package; " +
			"per graph several queries: 1-4 changed files (consumed files, files below directory sources, BUILD files, near misses, unowned and absolute paths), " +
			"level in {0,-1,1,2,3,-2}, include_subrepos, every third query a before/after graph pair derived by definition edits (command, source, label, dependency, " +
			"out-of-repo tool, data, added and removed targets, config). distinct = distinct (graph, query); non-trivial = some target is directly affected and some other target depends on it. " +
			"Ladders: chains of 4-7 targets with random shortcuts, 1-2 side targets that open a shorter path to a late chain target, and a tail of 1-2 targets reachable through the chain's last target only (several path lengths to the same target, shuffled names and dependency order), the file of the chain's first target changed, levels 3, 4, one of 1-2, one of 5-7, and -1. " +
			"End to end (needs the plz binary): generated repositories (harness/e2e: up to 4 packages incl. a nested one, genrule / filegroup / text_file targets over files and labels, " +
			"2 in 3 with a directory source holding nested files) committed to a git work tree, 1-3 random edits (file contents, files under the directory source, sources added / dropped / swapped, commands, " +
			"outputs, comments, targets added / removed, unused files) committed on top; real `plz query changes --since HEAD~1 --level N` and `plz query changes --level N <changed files>` " +
			"compared with query.DiffGraphs / query.Changes in process on a mirror of the two states (each also a model case) and with `plz hash //...` of both states. " +
			"Histories (needs the plz binary): git repositories with 3-4 commits on main, optionally a branch left at the first commit and a branch created before the last commit; a commit changes only .plzconfig " +
			"in an option that enters the configuration hash (build.nonce, build.lang, [buildenv], licences.reject), only .plzconfig in one that does not (please.motd), BUILD files / sources by a random edit, " +
			"adds a target and edits a command, or edits a file; every third scenario ends in a configuration-only commit, every third in a BUILD-only commit; `plz query changes --since REV --level N` " +
			"(REV = HEAD~1, HEAD~2, a commit hash or a branch) is run on the branch AND on a detached HEAD at the same commit; compared with `plz hash --detailed //...` of FRESH checkouts of the two revisions " +
			"(changed or new => reported), with HEAD before = HEAD after, with query.DiffGraphs in process, and with the model of the whole flow over the operation history (CSince cases)")
		var replay caseJS
		if c.ReadReplay(&replay) && replay.Graph != nil {
			runQuery(c, replay.Graph, replay.Query, true, "replay")
			return
		}
		for i, f := range fixedCases() {
			runQuery(c, f.Graph, f.Query, true, fmt.Sprint("fixed", i))
		}
		dirCases(c)
		n := c.Scale(100, 2500)
		for i := 0; i < n; i++ {
			r := c.Rng.Fork()
			d := generate(r)
			runGraph(c, r, d, fmt.Sprint("g", i), c.Scale(10, 12))
		}
		runLadders(c)
		runE2E(c)
		runSince(c)
		c.Note("a reported target that the reference does not require is not a violation (histogram extra_reported counts them per query)")
	})
}
