// C28 deepening: the REAL input-root construction and action composition, end to end.
// Real BuildTargets with sources (files on disk) and dependencies (outputs known to the client) in a
// real BuildGraph; the real Client.uploadInputs / buildAction / buildCommand run on a client without
// a connection (verif hook), with a channel that records the uploads.
package main

import (
	"crypto/sha256"
	"encoding/hex"
	"encoding/json"
	"fmt"
	"os"
	"path/filepath"
	"sort"
	"strings"

	"verifharness/lib"

	"github.com/alessio/shellescape"
	"github.com/bazelbuild/remote-apis-sdks/go/pkg/uploadinfo"
	pb "github.com/bazelbuild/remote-apis/build/bazel/remote/execution/v2"
	"google.golang.org/protobuf/proto"
	"google.golang.org/protobuf/types/known/durationpb"

	"github.com/thought-machine/please/src/core"
	"github.com/thought-machine/please/src/remote"
)

var e2eState *core.BuildState

// one BuildState for the whole run (NewBuildState costs ~70 ms and starts a watchdog); a fresh graph per build
func theState() *core.BuildState {
	if e2eState == nil {
		cfg := core.DefaultConfiguration()
		cfg.Build.HashFunction = "sha256"
		cfg.Remote.Platform = []string{"OSFamily=linux"}
		e2eState = core.NewBuildState(cfg)
		e2eState.LogTestRunning(core.NewBuildTarget(core.BuildLabel{PackageName: "verif", Name: "park"}), 1, core.TargetTesting, "")
	}
	return e2eState
}

type srcFile struct {
	Rel     string `json:"rel"` // relative to the package
	Content string `json:"content,omitempty"`
	Exec    bool   `json:"exec,omitempty"`
	Link    string `json:"link,omitempty"` // symlink target, if a symlink
}

type depDecl struct {
	Pkg   string `json:"pkg"`
	Name  string `json:"name"`
	IsSrc bool   `json:"is_src"` // also listed in srcs
	Outs  []op   `json:"outs"`   // entries of its output Directory (Pkg field unused)
}

type scenario struct {
	Pkg   string    `json:"pkg"`
	Files []srcFile `json:"files"` // files on disk below the package
	Srcs  []string  `json:"srcs"`  // declared file sources (a file or a directory), package relative
	Deps  []depDecl `json:"deps"`
}

// declared ops of a scenario: what a file system holding these inputs looks like, independent of any order
func (sc scenario) ops() []op {
	var out []op
	for _, f := range sc.Files {
		covered := false
		for _, s := range sc.Srcs {
			if f.Rel == s || strings.HasPrefix(f.Rel, s+"/") {
				covered = true
			}
		}
		if !covered {
			continue
		}
		o := op{Pkg: ".", Name: filepath.Join(sc.Pkg, f.Rel)}
		if f.Link != "" {
			o.Kind, o.Target = kSym, f.Link
		} else {
			h := sha256.Sum256([]byte(f.Content))
			o.Kind, o.Hash, o.Size, o.Exec = kFile, hex.EncodeToString(h[:]), int64(len(f.Content)), f.Exec
		}
		out = append(out, o)
	}
	for _, d := range sc.Deps {
		for _, e := range d.Outs {
			e.Pkg = d.Pkg
			out = append(out, e)
		}
	}
	return out
}

type e2eOrder struct {
	srcs    []int   // order of AddSource over (file sources ++ source deps)
	deps    []int   // order of AddDependency
	entries [][]int // per dep: order of the entries in its output Directory
}

type e2eResult struct {
	root     *pb.Directory
	rootDg   string
	dirs     []*pb.Directory // every Directory message found below the root among the recorded uploads
	dirDgs   []string
	nSent    int
	cmd      *pb.Command
	actionDg string
	err      string
}

func depOutputs(d depDecl, order []int) *pb.Directory {
	out := &pb.Directory{}
	for _, i := range order {
		e := d.Outs[i]
		switch e.Kind {
		case kFile:
			out.Files = append(out.Files, &pb.FileNode{Name: e.Name, Digest: &pb.Digest{Hash: e.Hash, SizeBytes: e.Size}, IsExecutable: e.Exec})
		case kDir:
			out.Directories = append(out.Directories, &pb.DirectoryNode{Name: e.Name, Digest: &pb.Digest{Hash: e.Hash, SizeBytes: e.Size}})
		case kSym:
			out.Symlinks = append(out.Symlinks, &pb.SymlinkNode{Name: e.Name, Target: e.Target})
		}
	}
	return out
}

func runE2E(sc scenario, o e2eOrder) (res e2eResult) {
	defer func() {
		if r := recover(); r != nil {
			res.err = "panic: " + fmt.Sprint(r)
		}
	}()
	state := theState()
	state.Graph = core.NewGraph()
	v := remote.VerifNewClient(state, "/home/verif-nobody")
	t, err := addScenario(state, v, sc, o)
	if err != nil {
		res.err = err.Error()
		return
	}
	return prepareOn(v, t)
}

// addScenario declares the scenario's target and its dependencies in state.Graph and gives the client the outputs of
// the dependencies; several scenarios (distinct top-level directories) can share one graph and one client.
func addScenario(state *core.BuildState, v *remote.VerifClient, sc scenario, o e2eOrder) (*core.BuildTarget, error) {
	t := core.NewBuildTarget(core.BuildLabel{PackageName: sc.Pkg, Name: "t"})
	labels := make([]core.BuildLabel, len(sc.Deps))
	for i, d := range sc.Deps {
		dt := core.NewBuildTarget(core.BuildLabel{PackageName: d.Pkg, Name: d.Name})
		for _, e := range d.Outs {
			dt.AddOutput(e.Name)
		}
		state.Graph.AddTarget(dt)
		labels[i] = dt.Label
		v.SetOutputs(dt.Label, depOutputs(d, o.entries[i]))
	}
	var inputs []core.BuildInput
	for _, s := range sc.Srcs {
		inputs = append(inputs, core.FileLabel{File: s, Package: sc.Pkg})
	}
	for i, d := range sc.Deps {
		if d.IsSrc {
			inputs = append(inputs, labels[i])
		}
	}
	for _, i := range o.srcs {
		t.AddSource(inputs[i])
	}
	for _, i := range o.deps {
		t.AddDependency(labels[i])
	}
	t.AddOutput("out")
	t.Command = "true"
	state.Graph.AddTarget(t)
	if err := t.ResolveDependencies(state.Graph); err != nil {
		return nil, err
	}
	return t, nil
}

// prepareOn runs the real uploadInputs and buildAction for one target on the given client.
func prepareOn(v *remote.VerifClient, t *core.BuildTarget) (res e2eResult) {
	defer func() {
		if r := recover(); r != nil {
			res.err = "panic: " + fmt.Sprint(r)
		}
	}()
	root, sent, err := v.UploadInputs(t, false)
	if err != nil {
		res.err = err.Error()
		return
	}
	res.root, res.rootDg, res.nSent = root, refDigest(root), len(sent)
	// the Directory messages among the recorded uploads: follow the digests down from the root
	byDg := map[string]*uploadinfo.Entry{}
	for _, e := range sent {
		byDg[fmt.Sprintf("%s/%d", e.Digest.Hash, e.Digest.Size)] = e
	}
	var follow func(d *pb.Directory)
	follow = func(d *pb.Directory) {
		for _, n := range d.Directories {
			if e, ok := byDg[dg(n.Digest)]; ok && e.Contents != nil {
				child := &pb.Directory{}
				if proto.Unmarshal(e.Contents, child) == nil {
					follow(child)
					res.dirs = append(res.dirs, child)
					res.dirDgs = append(res.dirDgs, dg(n.Digest))
				}
			}
		}
	}
	follow(root)
	if e, ok := byDg[res.rootDg]; !ok || e.Contents == nil {
		res.err = "the root Directory was not among the recorded uploads"
		return
	}
	res.dirs = append(res.dirs, root)
	res.dirDgs = append(res.dirDgs, res.rootDg)
	cmd, adg, err := v.BuildAction(t, false, false, 0)
	if err != nil {
		res.err = err.Error()
		return
	}
	res.cmd, res.actionDg = cmd, dg(adg)
	// the action digest is the digest of Action{digest(Command), digest(root), timeout, platform}, recomputed here
	want := msgDigest(&pb.Action{
		CommandDigest:   protoDigest(cmd),
		InputRootDigest: protoDigest(root),
		Timeout:         durationpb.New(0),
		Platform:        v.TargetPlatform(t),
	})
	if want != res.actionDg {
		res.err = "action digest " + short(res.actionDg) + " is not the digest of Action{Command, root, timeout, platform} = " + short(want)
	}
	return
}

func msgDigest(m proto.Message) string {
	blob, err := proto.MarshalOptions{Deterministic: true}.Marshal(m)
	if err != nil {
		panic(err)
	}
	h := sha256.Sum256(blob)
	return fmt.Sprintf("%s/%d", hex.EncodeToString(h[:]), len(blob))
}

func protoDigest(m proto.Message) *pb.Digest {
	blob, err := proto.MarshalOptions{Deterministic: true}.Marshal(m)
	if err != nil {
		panic(err)
	}
	h := sha256.Sum256(blob)
	return &pb.Digest{Hash: hex.EncodeToString(h[:]), SizeBytes: int64(len(blob))}
}

// crossKind: a name in two kinds of one Directory message
func crossKind(d *pb.Directory) string {
	seen := map[string]string{}
	add := func(kind, n string) string {
		if k, ok := seen[n]; ok && k != kind {
			return fmt.Sprintf("%q is a %s and a %s", n, k, kind)
		}
		seen[n] = kind
		return ""
	}
	for _, f := range d.Files {
		if r := add("file", f.Name); r != "" {
			return r
		}
	}
	for _, x := range d.Directories {
		if r := add("directory", x.Name); r != "" {
			return r
		}
	}
	for _, x := range d.Symlinks {
		if r := add("symlink", x.Name); r != "" {
			return r
		}
	}
	return ""
}

func genScenario(r *lib.Rng, idx int, overlap bool) scenario {
	top := fmt.Sprintf("w%d", idx)
	sc := scenario{Pkg: top + "/" + lib.Pick(r, []string{"p", "p/q", "a"})}
	pool := []string{"a.txt", "b.txt", "sub/b.txt", "sub/c/d.txt", "sub/l", "lib.so", "x/y"}
	nf := r.Range(0, 4)
	used := map[string]bool{}
	for i := 0; i < nf; i++ {
		rel := lib.Pick(r, pool)
		if used[rel] {
			continue
		}
		used[rel] = true
		f := srcFile{Rel: rel, Content: lib.Pick(r, []string{"A", "BB", "", "hello\n"}), Exec: r.Chance(1, 4)}
		if filepath.Base(rel) == "l" {
			f = srcFile{Rel: rel, Link: lib.Pick(r, []string{"b.txt", "../a.txt"})}
		}
		sc.Files = append(sc.Files, f)
	}
	srcSet := map[string]bool{}
	for _, f := range sc.Files {
		s := f.Rel
		if i := strings.Index(s, "/"); i > 0 && r.Bool() {
			s = s[:i] // declare the directory instead of the file
		}
		if r.Chance(4, 5) {
			srcSet[s] = true
		}
		if r.Chance(1, 6) {
			srcSet[f.Rel] = true // the file AND its directory: a duplicate declaration
		}
	}
	sc.Srcs = lib.SortedKeys(srcSet)
	nd := r.Range(1, 3)
	for i := 0; i < nd; i++ {
		d := depDecl{Pkg: lib.Pick(r, []string{sc.Pkg, top + "/d", sc.Pkg + "/sub", top}), Name: fmt.Sprintf("d%d", i), IsSrc: r.Chance(1, 3)}
		for k := r.Range(1, 3); k > 0; k-- {
			e := op{Kind: lib.Pick(r, []int{kFile, kFile, kDir, kSym}), Name: lib.Pick(r, []string{"o1", "gen/o2", "gen/x/o3", "od", "c/d.txt", "ln"}) + fmt.Sprint(i)}
			randPayload(r, &e)
			d.Outs = append(d.Outs, e)
		}
		sc.Deps = append(sc.Deps, d)
	}
	if overlap {
		// a dependency's output directory p/x and another dependency's file below p/x
		sc.Deps = append(sc.Deps,
			// (both listed in srcs: plain dependencies are visited in label order, sources in declaration order)
			depDecl{Pkg: sc.Pkg, Name: "ovd", IsSrc: true, Outs: []op{{Kind: kDir, Name: "gen", Hash: "d7", Size: 81}}},
			depDecl{Pkg: sc.Pkg, Name: "ovf", IsSrc: true, Outs: []op{{Kind: kFile, Name: "gen/inner", Hash: "f7", Size: 1}}})
	}
	return sc
}

func (sc scenario) materialise() error {
	for _, f := range sc.Files {
		p := filepath.Join(sc.Pkg, f.Rel)
		if err := os.MkdirAll(filepath.Dir(p), 0o755); err != nil {
			return err
		}
		if f.Link != "" {
			if err := os.Symlink(f.Link, p); err != nil {
				return err
			}
			continue
		}
		mode := os.FileMode(0o644)
		if f.Exec {
			mode = 0o755
		}
		if err := os.WriteFile(p, []byte(f.Content), mode); err != nil {
			return err
		}
	}
	return os.MkdirAll(sc.Pkg, 0o755)
}

func permOf(r *lib.Rng, n int, k int) []int {
	p := make([]int, n)
	for i := range p {
		p[i] = i
	}
	switch k {
	case 0:
	case 1:
		for i := range p {
			p[i] = n - 1 - i
		}
	default:
		lib.Shuffle(r, p)
	}
	return p
}

func e2eStream(c *lib.Ctx, n, nOverlap int) {
	tmp, err := os.MkdirTemp("", "c28e2e")
	if err != nil {
		panic(err)
	}
	old, _ := os.Getwd()
	defer func() { os.Chdir(old); os.RemoveAll(tmp) }()
	if err := os.Chdir(tmp); err != nil {
		panic(err)
	}
	for i := 0; i < n+nOverlap; i++ {
		r := c.Rng.Fork()
		overlap := i >= n
		var sc scenario
		var ops []op
		var sh shape
		for tries := 0; ; tries++ {
			sc = genScenario(r, i*100+tries, overlap)
			ops = sc.ops()
			sh = classify(ops)
			if sh.legit() && sh.Overlap == overlap {
				break
			}
		}
		if err := sc.materialise(); err != nil {
			panic(err)
		}
		stream := "e2e"
		if overlap {
			stream = "e2e-overlap"
		}
		c.Hist("stream", stream)
		c.HistN("e2e_declared_entries", len(ops))
		nIn := len(sc.Srcs)
		for _, d := range sc.Deps {
			if d.IsSrc {
				nIn++
			}
		}
		want := ""
		if !overlap {
			want = refDigest(refTree(ops).message())
		}
		digests := map[string]int{}
		actions := map[string]int{} // action digests over the orders that keep the source order (= the Command) fixed
		var first e2eResult
		const orders = 6
		for k := 0; k < orders; k++ {
			o := e2eOrder{srcs: permOf(r, nIn, k), deps: permOf(r, len(sc.Deps), (k+1)%3)}
			if k >= 3 {
				o.srcs = permOf(r, nIn, 0) // source order fixed: the Command must not change either
			}
			for _, d := range sc.Deps {
				o.entries = append(o.entries, permOf(r, len(d.Outs), k))
			}
			res := runE2E(sc, o)
			c.Oracle()
			in := map[string]any{"scenario": sc, "order": map[string]any{"srcs": o.srcs, "deps": o.deps, "entries": o.entries}, "stream": stream}
			if res.err != "" {
				c.Fail("e2e-build-action-fails", "real uploadInputs/buildAction failed on a legitimate target: "+res.err, in)
				continue
			}
			in["root"], in["root_digest"] = jsMsg(res.root), res.rootDg
			if k == 0 {
				first = res
			}
			digests[res.rootDg]++
			if k == 0 || k >= 3 {
				actions[res.actionDg]++
			}
			for j, m := range res.dirs {
				if why := canonical(m); why != "" {
					c.Fail("directory-not-canonical", "e2e: Directory message is not canonical: "+why, in)
				}
				if why := crossKind(m); why != "" {
					c.Fail("directory-name-in-two-kinds", "e2e: "+why, in)
				}
				if refDigest(m) != res.dirDgs[j] {
					c.Fail("sent-digest-wrong", "e2e: the digest recorded for a Directory message is not the SHA-256/size of its marshalling", in)
				}
			}
			if want != "" && res.rootDg != want {
				c.Fail("root-differs-from-canonical-tree", fmt.Sprintf("e2e: input root digest %s differs from the canonical tree of the declared inputs (%s)", short(res.rootDg), short(want)), in)
			}
			for j := 1; j < len(res.cmd.EnvironmentVariables); j++ {
				if !(res.cmd.EnvironmentVariables[j-1].Name < res.cmd.EnvironmentVariables[j].Name) {
					c.Fail("env-not-sorted-set", "e2e: Command environment not strictly sorted by name", in)
				}
			}
			c.Eval(in, fmt.Sprint("e2e", sc, o), len(ops) >= 3)
		}
		in := map[string]any{"scenario": sc, "stream": stream, "root_digests": digests, "action_digests": actions}
		if len(digests) > 1 {
			if overlap {
				c.Fail("output-dir-overlaps-interior-dir", "e2e (real uploadInputDir): different input root digests over declaration/discovery orders: a dependency's output directory and another dependency's file below it", in)
			} else {
				c.Fail("root-digest-order-dependent", "e2e (real uploadInputDir): different input root digests over declaration/discovery orders of one input set", in)
			}
		}
		if len(actions) > 1 && !overlap {
			c.Fail("action-digest-order-dependent", "e2e (real buildAction): different action digests over dependency declaration orders / dependency output enumeration orders with the sources in one order", in)
		}
		if !overlap && first.root != nil {
			coqOps := []string{}
			for _, o := range ops {
				coqOps = append(coqOps, coqOp(o))
			}
			sent := []string{}
			for j, d := range first.dirs {
				sent = append(sent, lib.Pair(coqMsg(d), lib.Str(short(first.dirDgs[j]))))
			}
			c.Case(lib.App("CRoot", lib.List(coqOps), lib.List(sent), coqMsg(first.root)),
				map[string]any{"scenario": sc, "root": jsMsg(first.root)}, fmt.Sprint("e2ecase", sc), len(ops) >= 3)
		}
	}
}

// ---------------------------------------------------------------------------------------------
// the Command: real buildCommand on targets whose outputs / named outputs / output directories /
// labels / env are declared in varying orders

type cmdDecl struct {
	Pkg     string      `json:"pkg"`
	Outs    []string    `json:"outs"`
	Named   [][2]string `json:"named"`
	OutDirs []string    `json:"output_dirs"`
	Labels  []string    `json:"labels"`
	CfgPlat []string    `json:"config_platform"`
	Env     [][2]string `json:"env"`
	Cmd     string      `json:"cmd"`
	EOE     bool        `json:"exit_on_error"`
}

func runCmd(d cmdDecl) (*pb.Command, string, error) {
	state := theState()
	state.Graph = core.NewGraph()
	state.Config.Build.ExitOnError = d.EOE
	state.Config.Remote.Platform = d.CfgPlat
	defer func() { state.Config.Remote.Platform = []string{"OSFamily=linux"} }()
	v := remote.VerifNewClient(state, "/home/verif-nobody")
	t := core.NewBuildTarget(core.BuildLabel{PackageName: d.Pkg, Name: "t"})
	for _, o := range d.Outs {
		t.AddOutput(o)
	}
	for _, n := range d.Named {
		t.AddNamedOutput(n[0], n[1])
	}
	for _, o := range d.OutDirs {
		t.AddOutputDirectory(o)
	}
	t.Labels = append([]string{}, d.Labels...)
	if len(d.Env) > 0 {
		t.Env = map[string]string{}
		for _, kv := range d.Env {
			t.Env[kv[0]] = kv[1]
		}
	}
	t.Command = d.Cmd
	state.Graph.AddTarget(t)
	cmd, err := v.BuildCommand(t, &pb.Directory{}, false, false, false, 0)
	if err != nil {
		return nil, "", err
	}
	return cmd, msgDigest(cmd), nil
}

func sortedStrings(xs []string) bool { return sort.StringsAreSorted(xs) }

// observe records a departure of the Command / Action messages from REAPI canonical form that is outside
// C28 as worded (the property speaks of the order of INPUTS and of Directory messages; the declaration
// order of a target's own output_dirs / labels belongs to the target's definition): a histogram bucket per
// class and one note with the first witness, in the evidence. Proposed KNOWN_FINDINGS lines exist for these
// classes; to turn them into oracle failures replace the body by c.Fail(class, what, input).
var observed = map[string]bool{}

func observe(c *lib.Ctx, class, what string, input any) {
	c.Hist("command_not_reapi_canonical", class)
	if !observed[class] {
		observed[class] = true
		js, _ := json.Marshal(input)
		c.Note("observed on the real buildCommand [%s]: %s; first witness: %s", class, what, js)
	}
}

func cmdStream(c *lib.Ctx, n int) {
	outPool := []string{"zz", "out1", "./out1", "a/b", "a.b", "pkg", "w", "B"}
	dirPool := []string{"a_dir", "b_dir", "x/**", "od", "zz_dir/**"}
	labelPool := []string{"remote-platform-property:size=big", "remote-platform-property:arch=y", "remote-platform-property:novalue",
		"remote-platform-property:a=b=c", "manual", "remote-platform-property:OSFamily=zz", "remote"}
	for i := 0; i < n; i++ {
		r := c.Rng.Fork()
		d := cmdDecl{Pkg: lib.Pick(r, []string{"pkg", "a/b", "w"}), Cmd: lib.Pick(r, []string{"echo hi", "", "true"}), EOE: r.Bool(),
			CfgPlat: lib.Pick(r, [][]string{{"OSFamily=linux"}, {}, {"a=b", "bad", "OSFamily=linux"}})}
		for k := r.Range(1, 4); k > 0; k-- {
			d.Outs = append(d.Outs, lib.Pick(r, outPool))
		}
		for k := r.Range(0, 3); k > 0; k-- {
			d.Named = append(d.Named, [2]string{lib.Pick(r, []string{"g1", "g2"}), lib.Pick(r, []string{"n1", "n2", "zz", "./n1"})})
		}
		for k := r.Range(0, 3); k > 0; k-- {
			o := lib.Pick(r, dirPool)
			dup := false
			for _, x := range d.OutDirs {
				dup = dup || x == o
			}
			if !dup {
				d.OutDirs = append(d.OutDirs, o)
			}
		}
		for k := r.Range(0, 3); k > 0; k-- {
			d.Labels = append(d.Labels, lib.Pick(r, labelPool))
		}
		seenK := map[string]bool{}
		for k := r.Range(0, 3); k > 0; k-- {
			key := lib.Pick(r, []string{"A", "B", "AB", "Z_1"})
			if !seenK[key] {
				seenK[key] = true
				d.Env = append(d.Env, [2]string{key, lib.Pick(r, []string{"1", "x y", "", "it's", "$HOME/x"})})
			}
		}
		cmd, dg0, err := runCmd(d)
		c.Oracle()
		if err != nil {
			c.Fail("build-command-fails", "real buildCommand failed: "+err.Error(), d)
			continue
		}
		// (a) what the code sorts away: AddOutput / AddNamedOutput call order, target.Env insertion order, repeated runs (map order)
		for k := 0; k < 3; k++ {
			d2 := d
			d2.Outs = append([]string{}, d.Outs...)
			lib.Shuffle(r, d2.Outs)
			d2.Env = append([][2]string{}, d.Env...)
			lib.Shuffle(r, d2.Env)
			_, dg2, err := runCmd(d2)
			c.Oracle()
			if err != nil || dg2 != dg0 {
				c.Fail("command-depends-on-call-order", "the Command differs when AddOutput calls / target.Env entries are made in another order (or between two runs)", map[string]any{"decl": d, "other": d2})
			}
		}
		for j := 1; j < len(cmd.EnvironmentVariables); j++ {
			if !(cmd.EnvironmentVariables[j-1].Name < cmd.EnvironmentVariables[j].Name) {
				c.Fail("env-not-sorted-set", "Command environment not strictly sorted by name", d)
			}
		}
		// (b) what it does not sort
		js := map[string]any{"decl": d, "output_paths": cmd.OutputPaths}
		if !sortedStrings(cmd.OutputPaths) {
			observe(c, "command-output-paths-not-sorted", fmt.Sprintf("Command.OutputPaths %v is not sorted (sorted outputs, then output directories in declaration order)", cmd.OutputPaths), js)
		}
		if len(d.OutDirs) >= 2 {
			d2 := d
			d2.OutDirs = append([]string{}, d.OutDirs...)
			d2.OutDirs[0], d2.OutDirs[1] = d2.OutDirs[1], d2.OutDirs[0]
			_, dg2, err := runCmd(d2)
			c.Oracle()
			if err == nil && dg2 != dg0 {
				observe(c, "command-digest-depends-on-output-dirs-order", "permuting output_dirs changes the Command digest (output directories are appended in declaration order)", map[string]any{"decl": d, "other": d2})
			}
		}
		props := []string{}
		for _, p := range cmd.Platform.GetProperties() { //nolint:staticcheck
			props = append(props, p.Name+"\x00"+p.Value)
		}
		if !sortedStrings(props) {
			shown := []string{}
			for _, p := range cmd.Platform.GetProperties() { //nolint:staticcheck
				shown = append(shown, p.Name+"="+p.Value)
			}
			observe(c, "platform-properties-not-sorted", fmt.Sprintf("Platform properties %v are not sorted by name then value (label properties in declaration order, then the configured ones)", shown), map[string]any{"decl": d, "properties": shown})
		}
		pl := []int{}
		for j, l := range d.Labels {
			if strings.HasPrefix(l, "remote-platform-property:") && strings.Contains(l, "=") {
				pl = append(pl, j)
			}
		}
		if len(pl) >= 2 && d.Labels[pl[0]] != d.Labels[pl[1]] {
			d2 := d
			d2.Labels = append([]string{}, d.Labels...)
			d2.Labels[pl[0]], d2.Labels[pl[1]] = d2.Labels[pl[1]], d2.Labels[pl[0]]
			_, dg2, err := runCmd(d2)
			c.Oracle()
			if err == nil && dg2 != dg0 {
				observe(c, "command-digest-depends-on-platform-label-order", "permuting the remote-platform-property labels changes the Command digest", map[string]any{"decl": d, "other": d2})
			}
		}
		// model case
		named := []string{}
		for _, nv := range d.Named {
			named = append(named, lib.Pair(lib.Str(nv[0]), lib.Str(nv[1])))
		}
		tenv := []string{}
		for _, kv := range d.Env {
			tenv = append(tenv, lib.Pair(lib.Str(kv[0]), lib.Pair(lib.Str(kv[1]), lib.Str(shellescape.Quote(kv[1])))))
		}
		plat := []string{}
		for _, p := range cmd.Platform.GetProperties() { //nolint:staticcheck
			plat = append(plat, lib.Pair(lib.Str(p.Name), lib.Str(p.Value)))
		}
		c.Case(lib.App("CCmd", lib.StrList(d.Outs), lib.List(named), lib.StrList(d.OutDirs), lib.StrList(d.Labels), lib.StrList(d.CfgPlat),
			lib.List(tenv), lib.Str(d.Pkg), lib.Str(d.Cmd), lib.Str("bash"), lib.Bool(d.EOE),
			lib.StrList(cmd.Arguments), lib.StrList(cmd.OutputPaths), lib.List(plat)),
			map[string]any{"decl": d, "arguments": cmd.Arguments, "output_paths": cmd.OutputPaths}, fmt.Sprint("cmd", d), len(d.Outs)+len(d.OutDirs)+len(d.Labels) >= 3)
		c.HistN("command_output_dirs", len(d.OutDirs))
	}
	// the test Command: outputs sorted, then test.results appended
	{
		state := theState()
		state.Graph = core.NewGraph()
		v := remote.VerifNewClient(state, "/home/verif-nobody")
		t := core.NewBuildTarget(core.BuildLabel{PackageName: "pkg", Name: "tt"})
		t.AddOutput("tt")
		t.Test = new(core.TestFields)
		t.Test.Command = "echo test"
		t.AddTestOutput("x.out")
		t.AddTestOutput("a.out")
		state.Graph.AddTarget(t)
		cmd, err := v.BuildCommand(t, &pb.Directory{}, true, false, false, 1)
		c.Oracle()
		if err != nil {
			c.Fail("build-command-fails", "real buildTestCommand failed: "+err.Error(), nil)
		} else if !sortedStrings(cmd.OutputPaths) {
			observe(c, "test-output-paths-not-sorted", fmt.Sprintf("test Command.OutputPaths %v is not sorted (sorted test outputs, then test.coverage/test.results appended)", cmd.OutputPaths),
				map[string]any{"test_outputs": []string{"x.out", "a.out"}, "output_paths": cmd.OutputPaths})
		}
	}
}
