// C28 follow-up (round 2): the digests depend on NOTHING BUT the inputs and the command.
//   - not on what other goroutines do with the same Client at the same time (concStream): N goroutines call the real
//     Client.buildAction on one client; every digest must be the one the same target gets when prepared alone, which
//     in turn is recomputed here with an independent marshaller + SHA-256;
//   - not on what happened earlier in the process (faultStream): a source file cannot be read while the action is
//     prepared (uploadInputs must fail), the fault is repaired, the action is prepared again on the same BuildState
//     (same PathHasher): the input root must be the canonical tree of what is on disk now, and the action digest the
//     one a process with a fresh PathHasher computes.
package main

import (
	"crypto/sha256"
	"fmt"
	"os"
	"path/filepath"
	"sort"
	"strings"
	"sync"
	"syscall"

	"verifharness/lib"

	pb "github.com/bazelbuild/remote-apis/build/bazel/remote/execution/v2"

	"github.com/thought-machine/please/src/core"
	"github.com/thought-machine/please/src/fs"
	"github.com/thought-machine/please/src/remote"
)

// inScratch runs f with a fresh temporary directory as the working directory (= the repo root for the real code).
func inScratch(f func()) {
	tmp, err := os.MkdirTemp("", "c28fu")
	if err != nil {
		panic(err)
	}
	old, _ := os.Getwd()
	defer func() { os.Chdir(old); os.RemoveAll(tmp) }()
	if err := os.Chdir(tmp); err != nil {
		panic(err)
	}
	f()
}

func idOrder(sc scenario) e2eOrder {
	nIn := len(sc.Srcs)
	for _, d := range sc.Deps {
		if d.IsSrc {
			nIn++
		}
	}
	o := e2eOrder{srcs: permOf(nil, nIn, 0), deps: permOf(nil, len(sc.Deps), 0)}
	for _, d := range sc.Deps {
		o.entries = append(o.entries, permOf(nil, len(d.Outs), 0))
	}
	return o
}

// ---------------------------------------------------------------------------------------------
// concurrency

// a dependency in the ROOT package with n output files: they land in the root Directory itself, so that the message
// buildAction digests first is as large as one likes (the root of a target deep in the tree is one DirectoryNode)
func bulkDep(tag string, n int) depDecl {
	d := depDecl{Pkg: "", Name: "bulk_" + tag}
	for j := 0; j < n; j++ {
		d.Outs = append(d.Outs, op{Kind: kFile, Name: fmt.Sprintf("%s_file_%03d.txt", tag, j), Hash: fmt.Sprintf("%s%061x", tag[:3], j), Size: int64(j)})
	}
	return d
}

type concGroup struct {
	Stream    string     `json:"stream"`
	Scenarios []scenario `json:"scenarios"` // Bulk expanded by expand()
	Bulk      []int      `json:"bulk"`      // per scenario: number of root-level files of its extra dependency
	Rounds    int        `json:"rounds"`
	Hammer    int        `json:"hammer"` // extra goroutines that call Client.digestMessage on Directory messages in a loop
}

func (g concGroup) expand() []scenario {
	out := make([]scenario, len(g.Scenarios))
	for i, sc := range g.Scenarios {
		sc.Deps = append(append([]depDecl{}, sc.Deps...), bulkDep(fmt.Sprintf("b%02d", i), g.Bulk[i]))
		out[i] = sc
	}
	return out
}

func bigDir(tag string, n int) *pb.Directory {
	d := &pb.Directory{}
	for j := 0; j < n; j++ {
		d.Files = append(d.Files, &pb.FileNode{Name: fmt.Sprintf("%s_%04d", tag, j), Digest: &pb.Digest{Hash: fmt.Sprintf("%064x", j*7+len(tag)), SizeBytes: int64(j)}})
	}
	return d
}

type concOutcome struct {
	refs   []e2eResult
	got    []map[string]int // per target: action digest -> times returned by the concurrent calls
	errs   []string
	hWrong int // digestMessage results of the hammer goroutines that were not the digest of their message
	hTotal int
}

// runConc: every scenario becomes a target in ONE graph on ONE client; each is prepared alone (twice), then all at once.
func runConc(g concGroup) (out concOutcome, setupErr string) {
	scs := g.expand()
	state := theState()
	state.Graph = core.NewGraph()
	v := remote.VerifNewClient(state, "/home/verif-nobody")
	ts := make([]*core.BuildTarget, len(scs))
	for i, sc := range scs {
		if err := sc.materialise(); err != nil {
			panic(err)
		}
		t, err := addScenario(state, v, sc, idOrder(sc))
		if err != nil {
			return out, err.Error()
		}
		ts[i] = t
	}
	for i := range scs {
		res := prepareOn(v, ts[i])
		if res.err != "" {
			return out, fmt.Sprintf("target %d alone: %s", i, res.err)
		}
		again := prepareOn(v, ts[i])
		if again.err != "" || again.actionDg != res.actionDg || again.rootDg != res.rootDg {
			return out, fmt.Sprintf("target %d: two preparations in a row differ: %s / %s (%s)", i, short(res.actionDg), short(again.actionDg), again.err)
		}
		out.refs = append(out.refs, res)
	}
	out.got = make([]map[string]int, len(scs))
	var mu sync.Mutex
	var wg, hwg sync.WaitGroup
	start := make(chan struct{})
	stop := make(chan struct{})
	for i := range scs {
		out.got[i] = map[string]int{}
		wg.Add(1)
		go func(i int) {
			defer wg.Done()
			local := map[string]int{}
			var errs []string
			func() {
				defer func() {
					if r := recover(); r != nil {
						errs = append(errs, fmt.Sprintf("target %d: panic: %v", i, r))
					}
				}()
				<-start
				for k := 0; k < g.Rounds; k++ {
					_, adg, err := v.BuildAction(ts[i], false, false, 0)
					if err != nil {
						errs = append(errs, fmt.Sprintf("target %d: %v", i, err))
						continue
					}
					local[dg(adg)]++
				}
			}()
			mu.Lock()
			out.got[i] = local
			out.errs = append(out.errs, errs...)
			mu.Unlock()
		}(i)
	}
	for h := 0; h < g.Hammer; h++ {
		hwg.Add(1)
		go func(h int) {
			defer hwg.Done()
			d := bigDir(fmt.Sprintf("h%d", h), 150+90*h)
			want := refDigest(d)
			wrong, total := 0, 0
			func() {
				defer func() {
					if r := recover(); r != nil {
						wrong++
					}
				}()
				<-start
				for {
					select {
					case <-stop:
						return
					default:
					}
					total++
					if dg(v.DigestMessage(d)) != want {
						wrong++
					}
				}
			}()
			mu.Lock()
			out.hWrong += wrong
			out.hTotal += total
			mu.Unlock()
		}(h)
	}
	close(start)
	wg.Wait()
	close(stop)
	hwg.Wait()
	return out, ""
}

func coqCmd(cmd *pb.Command) string {
	env, plat := []string{}, []string{}
	for _, e := range cmd.EnvironmentVariables {
		env = append(env, lib.Pair(lib.Str(e.Name), lib.Str(e.Value)))
	}
	for _, p := range cmd.Platform.GetProperties() { //nolint:staticcheck
		plat = append(plat, lib.Pair(lib.Str(p.Name), lib.Str(p.Value)))
	}
	return lib.App("CM", lib.StrList(cmd.Arguments), lib.List(env), lib.StrList(cmd.OutputPaths), lib.List(plat))
}

// checkConc applies the oracle to one group and emits its model case.
func checkConc(c *lib.Ctx, r *lib.Rng, g concGroup, emit bool) {
	out, setupErr := runConc(g)
	c.Oracle()
	in := map[string]any{"stream": g.Stream, "scenarios": g.Scenarios, "bulk": g.Bulk, "rounds": g.Rounds, "hammer": g.Hammer}
	if setupErr != "" {
		c.Fail("e2e-build-action-fails", "real uploadInputs/buildAction failed on a legitimate target (sequential part of the concurrent stream): "+setupErr, in)
		return
	}
	c.Hist("stream", g.Stream)
	c.HistN("concurrent_goroutines", len(g.Scenarios)+g.Hammer)
	for _, e := range out.errs {
		c.Fail("concurrent-build-action-fails", "buildAction failed or panicked when called from several goroutines on one client: "+e, in)
	}
	total, wrong := 0, 0
	for i, m := range out.got {
		c.Oracle()
		want := out.refs[i].actionDg
		for d, n := range m {
			total += n
			if d != want {
				wrong += n
				in2 := map[string]any{"target": i, "want_sequential": want, "got_concurrent": d, "times": n}
				for k, x := range in {
					in2[k] = x
				}
				c.Fail("concurrent-action-digest-differs", fmt.Sprintf("the action digest of target %d computed while %d other goroutines use the same client (%s) is not the one it has when prepared alone (%s): it does not depend on the target's inputs and command only",
					i, len(g.Scenarios)+g.Hammer-1, short(d), short(want)), in2)
			}
		}
		c.Eval(map[string]any{"stream": g.Stream, "target": g.Scenarios[i].Pkg, "distinct_digests": len(m)}, fmt.Sprint("conc", g.Scenarios[i], g.Bulk[i], len(g.Scenarios), g.Hammer), true)
	}
	c.Hist("concurrent_action_digests", fmt.Sprintf("computed=%d wrong=%d", total, wrong))
	if out.hWrong > 0 {
		c.Fail("concurrent-digest-message-differs", fmt.Sprintf("%d of %d Client.digestMessage results obtained while other goroutines digest on the same client are not the SHA-256/size of the message", out.hWrong, out.hTotal), in)
	}
	if !emit {
		return
	}
	// model case: the goroutines as the model's threads, the reference digests as the hash function, a random schedule
	ths, obs := []string{}, []string{}
	sched := []int{}
	for i, ref := range out.refs {
		plat := []string{}
		for _, p := range ref.cmd.Platform.GetProperties() { //nolint:staticcheck
			plat = append(plat, lib.Pair(lib.Str(p.Name), lib.Str(p.Value)))
		}
		ths = append(ths, lib.App("CT", coqMsg(ref.root), lib.Str(short(ref.rootDg)), coqCmd(ref.cmd), lib.Str(short(msgDigest(ref.cmd))),
			lib.N(0), lib.List(plat), lib.Str(short(ref.actionDg))))
		ds := []string{}
		for _, d := range lib.SortedKeys(out.got[i]) {
			ds = append(ds, short(d))
		}
		obs = append(obs, lib.StrList(ds))
		for k := r.Range(9, 11); k > 0; k-- {
			sched = append(sched, i)
		}
	}
	lib.Shuffle(r, sched)
	c.Case(lib.App("CConc", lib.List(ths), "["+strings.Join(natList(sched), "; ")+"]", lib.List(obs)),
		map[string]any{"stream": g.Stream, "scenarios": g.Scenarios, "bulk": g.Bulk, "rounds": g.Rounds, "hammer": g.Hammer, "schedule": sched},
		fmt.Sprint("conccase", g), true)
}

func natList(xs []int) []string {
	out := make([]string, len(xs))
	for i, x := range xs {
		out[i] = lib.Nat(x)
	}
	return out
}

func concStream(c *lib.Ctx, groups int) {
	sizes := []int{2, 4, 8, 6, 3, 8, 5, 7}
	for gi := 0; gi < groups; gi++ {
		r := c.Rng.Fork()
		n := sizes[gi%len(sizes)]
		g := concGroup{Stream: "concurrent", Rounds: c.Scale(120, 400), Hammer: []int{0, 2, 3}[gi%3]}
		for i := 0; i < n; i++ {
			for tries := 0; ; tries++ {
				sc := genScenario(r, 500000+gi*10000+i*100+tries, false)
				if sh := classify(sc.ops()); sh.legit() && !sh.Overlap {
					g.Scenarios = append(g.Scenarios, sc)
					break
				}
			}
			g.Bulk = append(g.Bulk, 25*(i+1)+r.Intn(10))
		}
		inScratch(func() { checkConc(c, r, g, true) })
	}
}

// ---------------------------------------------------------------------------------------------
// a read fault while the action is prepared, repaired, prepared again in the same process

type faultCase struct {
	Stream   string   `json:"stream"`
	Scenario scenario `json:"scenario"`
	Victim   string   `json:"victim"` // package-relative path of the source file that cannot be read at first
	Kind     string   `json:"kind"`   // "socket": exists, open(2) fails (ENXIO); "missing": not there yet
}

func (sc scenario) covered(rel string) bool {
	for _, s := range sc.Srcs {
		if rel == s || strings.HasPrefix(rel, s+"/") {
			return true
		}
	}
	return false
}

func fileToken(content string) string {
	h := sha256.Sum256([]byte(content))
	return short(fmt.Sprintf("%x/%d", h[:], len(content)))
}

func checkFault(c *lib.Ctx, fc faultCase) {
	sc := fc.Scenario
	ops := sc.ops()
	in := map[string]any{"stream": fc.Stream, "scenario": sc, "victim": fc.Victim, "kind": fc.Kind}
	var victim srcFile
	for _, f := range sc.Files {
		if f.Rel == fc.Victim {
			victim = f
		}
	}
	// the file system at the time of the first preparation
	first := sc
	first.Files = nil
	for _, f := range sc.Files {
		if f.Rel != fc.Victim {
			first.Files = append(first.Files, f)
		}
	}
	if err := first.materialise(); err != nil {
		panic(err)
	}
	vpath := filepath.Join(sc.Pkg, fc.Victim)
	if err := os.MkdirAll(filepath.Dir(vpath), 0o755); err != nil {
		panic(err)
	}
	if fc.Kind == "socket" {
		if err := syscall.Mknod(vpath, syscall.S_IFSOCK|0o644, 0); err != nil {
			c.Note("fault stream: mknod of a socket failed (%v); scenario skipped", err)
			return
		}
	}
	state := theState()
	state.Graph = core.NewGraph()
	v := remote.VerifNewClient(state, "/home/verif-nobody")
	t, err := addScenario(state, v, sc, idOrder(sc))
	if err != nil {
		c.Fail("e2e-build-action-fails", "fault stream: "+err.Error(), in)
		return
	}
	c.Hist("stream", fc.Stream)
	c.Hist("fault_kind", fc.Kind)
	// 1. the fault: preparing the action must fail, not digest something
	res1 := prepareOn(v, t)
	c.Oracle()
	if res1.err == "" {
		c.Fail("unreadable-input-digested", "uploadInputs/buildAction succeeded although the source file "+vpath+" cannot be read ("+fc.Kind+"): the input root describes something that is not the content of the inputs", in)
	}
	// 2. the repair
	os.Remove(vpath)
	mode := os.FileMode(0o644)
	if victim.Exec {
		mode = 0o755
	}
	if err := os.WriteFile(vpath, []byte(victim.Content), mode); err != nil {
		panic(err)
	}
	want := refDigest(refTree(ops).message())
	res2 := prepareOn(v, t)
	res3 := prepareOn(v, t)
	// what a process that never saw the fault computes: a fresh PathHasher, a fresh client, a fresh graph
	oldHasher := state.PathHasher
	state.PathHasher = fs.NewPathHasher(core.RepoRoot, false, sha256.New, "sha256")
	state.Graph = core.NewGraph()
	vf := remote.VerifNewClient(state, "/home/verif-nobody")
	var fresh e2eResult
	if tf, err := addScenario(state, vf, sc, idOrder(sc)); err != nil {
		fresh.err = err.Error()
	} else {
		fresh = prepareOn(vf, tf)
	}
	state.PathHasher = oldHasher
	c.Oracle()
	if fresh.err != "" {
		c.Fail("e2e-build-action-fails", "fault stream: a fresh process fails on the repaired inputs: "+fresh.err, in)
		return
	}
	in["fresh_root_digest"], in["fresh_action_digest"] = fresh.rootDg, fresh.actionDg
	for k, res := range []e2eResult{res2, res3} {
		c.Oracle()
		if res.err != "" {
			c.Fail("prepare-fails-after-repair", fmt.Sprintf("preparation %d after the repair still fails in the process that saw the fault: %s (a fresh process succeeds)", k+2, res.err), in)
			continue
		}
		in2 := map[string]any{"preparation": k + 2, "root": jsMsg(res.root), "root_digest": res.rootDg, "action_digest": res.actionDg}
		for kk, x := range in {
			in2[kk] = x
		}
		if res.rootDg != want || res.rootDg != fresh.rootDg {
			c.Fail("input-root-stale-after-read-fault", fmt.Sprintf("after a source file could not be read once and was repaired, the input root digest %s is neither the canonical tree of what is on disk (%s) nor what a fresh process computes (%s): it depends on the earlier fault, not on the content of the inputs",
				short(res.rootDg), short(want), short(fresh.rootDg)), in2)
		}
		if res.actionDg != fresh.actionDg {
			c.Fail("action-digest-depends-on-earlier-fault", fmt.Sprintf("action digest %s in the process that saw the read fault, %s in a fresh process, same inputs on disk", short(res.actionDg), short(fresh.actionDg)), in2)
		}
		for j, m := range res.dirs {
			if why := canonical(m); why != "" {
				c.Fail("directory-not-canonical", "fault stream: Directory message is not canonical: "+why, in2)
			}
			if refDigest(m) != res.dirDgs[j] {
				c.Fail("sent-digest-wrong", "fault stream: the digest recorded for a Directory message is not the SHA-256/size of its marshalling", in2)
			}
		}
	}
	c.Eval(in, fmt.Sprint("fault", fc), true)

	// model case: the history of this process
	var hist, fixed, srcs []string
	for _, o := range ops {
		isDisk := false
		if o.Kind == kFile {
			for _, f := range sc.Files {
				if f.Link == "" && sc.covered(f.Rel) && filepath.Join(sc.Pkg, f.Rel) == o.full() && o.Pkg == "." {
					isDisk = true
				}
			}
		}
		if !isDisk {
			fixed = append(fixed, coqOp(o))
		}
	}
	good := func(f srcFile) string { return lib.App("FGood", lib.Str(fileToken(f.Content)), lib.Bool(f.Exec)) }
	for _, f := range sc.Files {
		if f.Link != "" || !sc.covered(f.Rel) {
			continue
		}
		p := filepath.Join(sc.Pkg, f.Rel)
		srcs = append(srcs, lib.App("SRC", coqPath(filepath.Dir(p)), lib.Str(filepath.Base(p))))
		if f.Rel == fc.Victim {
			if fc.Kind == "socket" {
				hist = append(hist, lib.App("PSet", coqPath(p), lib.App("FBad", lib.Str(fileToken("")))))
			}
			continue
		}
		hist = append(hist, lib.App("PSet", coqPath(p), good(f)))
	}
	prep := lib.App("PPrep", lib.List(srcs))
	hist = append(hist, prep, lib.App("PSet", coqPath(vpath), good(victim)), prep, prep)
	sentSeen := map[string]bool{}
	sent, obs := []string{}, []string{}
	for _, res := range []e2eResult{res1, res2, res3} {
		if res.err != "" || res.root == nil {
			obs = append(obs, "None")
			continue
		}
		obs = append(obs, lib.Some(coqMsg(res.root)))
		for j, d := range res.dirs {
			if key := res.dirDgs[j]; !sentSeen[key] {
				sentSeen[key] = true
				sent = append(sent, lib.Pair(coqMsg(d), lib.Str(short(key))))
			}
		}
	}
	c.Case(lib.App("CPrep", lib.List(fixed), lib.List(hist), lib.List(sent), lib.List(obs)),
		map[string]any{"stream": fc.Stream, "scenario": sc, "victim": fc.Victim, "kind": fc.Kind}, fmt.Sprint("faultcase", fc), true)
}

func faultStream(c *lib.Ctx, n int) {
	for i := 0; i < n; i++ {
		r := c.Rng.Fork()
		var fc faultCase
		for tries := 0; ; tries++ {
			sc := genScenario(r, 700000+i*100+tries, false)
			if sh := classify(sc.ops()); !sh.legit() || sh.Overlap {
				continue
			}
			cands := []srcFile{}
			for _, f := range sc.Files {
				if f.Link == "" && sc.covered(f.Rel) {
					cands = append(cands, f)
				}
			}
			if len(cands) == 0 {
				// give it a source file of its own
				f := srcFile{Rel: "data.txt", Content: lib.Pick(r, []string{"the real content\n", "x", ""})}
				sc.Files = append(sc.Files, f)
				sc.Srcs = append(sc.Srcs, f.Rel)
				sort.Strings(sc.Srcs)
				cands = append(cands, f)
			}
			vic := lib.Pick(r, cands)
			kind := "socket"
			direct := false
			for _, s := range sc.Srcs {
				direct = direct || s == vic.Rel
			}
			underDir := false
			for _, s := range sc.Srcs {
				underDir = underDir || strings.HasPrefix(vic.Rel, s+"/")
			}
			if direct && !underDir && i%4 == 3 {
				kind = "missing"
			}
			fc = faultCase{Stream: "read-fault", Scenario: sc, Victim: vic.Rel, Kind: kind}
			break
		}
		inScratch(func() { checkFault(c, fc) })
	}
}
