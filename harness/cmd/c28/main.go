// C28: remote action digests are canonical. Implementation side of the correspondence (the real
// dirBuilder and buildEnv of src/remote, through the verif hook) + model-independent property oracle.
package main

import (
	"crypto/sha256"
	"encoding/hex"
	"fmt"
	"path/filepath"
	"strings"

	"verifharness/lib"

	"github.com/bazelbuild/remote-apis-sdks/go/pkg/uploadinfo"
	pb "github.com/bazelbuild/remote-apis/build/bazel/remote/execution/v2"
	"google.golang.org/protobuf/proto"

	"github.com/thought-machine/please/src/remote"
)

// ---------------------------------------------------------------------------------------------
// inputs

const (
	kFile = 0
	kDir  = 1 // output directory of a dependency: digest known, contents opaque
	kSym  = 2
)

// One declaration of an input, as uploadInputDir sees it: an entry of the output Directory of a
// dependency whose package directory is Pkg; Name may carry directories ("a/b/f").
type op struct {
	Kind   int    `json:"kind"`
	Pkg    string `json:"pkg"`
	Name   string `json:"name"`
	Hash   string `json:"hash,omitempty"`
	Size   int64  `json:"size,omitempty"`
	Exec   bool   `json:"exec,omitempty"`
	Target string `json:"target,omitempty"`
}

func (o op) full() string { return filepath.Join(o.Pkg, o.Name) }
func (o op) dir() string  { return filepath.Dir(o.full()) }
func (o op) base() string { return filepath.Base(o.Name) }
func (o op) payload() string {
	return fmt.Sprintf("%d|%s|%d|%v|%s", o.Kind, o.Hash, o.Size, o.Exec, o.Target)
}

func segs(p string) []string {
	if p == "." || p == "" {
		return nil
	}
	return strings.Split(p, "/")
}

func dg(d *pb.Digest) string { return fmt.Sprintf("%s/%d", d.GetHash(), d.GetSizeBytes()) }

// ---------------------------------------------------------------------------------------------
// the implementation

type built struct {
	Root     *pb.Directory
	RootDg   string
	Sent     []*pb.Directory
	SentDg   []string
	Panicked string
}

func runImpl(ops []op, order []int) (res built) {
	defer func() {
		if r := recover(); r != nil {
			res.Panicked = fmt.Sprint(r)
		}
	}()
	b := remote.VerifNewDirBuilder()
	for _, i := range order {
		o := ops[i]
		out := &pb.Directory{}
		switch o.Kind {
		case kFile:
			out.Files = []*pb.FileNode{{Name: o.Name, Digest: &pb.Digest{Hash: o.Hash, SizeBytes: o.Size}, IsExecutable: o.Exec}}
		case kDir:
			out.Directories = []*pb.DirectoryNode{{Name: o.Name, Digest: &pb.Digest{Hash: o.Hash, SizeBytes: o.Size}}}
		case kSym:
			out.Symlinks = []*pb.SymlinkNode{{Name: o.Name, Target: o.Target}}
		}
		b.AddOutputs(o.Pkg, out)
	}
	ch := make(chan *uploadinfo.Entry, 4096)
	root := b.Build(ch)
	close(ch)
	for e := range ch {
		d := &pb.Directory{}
		if err := proto.Unmarshal(e.Contents, d); err != nil {
			panic(err)
		}
		res.Sent = append(res.Sent, d)
		res.SentDg = append(res.SentDg, fmt.Sprintf("%s/%d", e.Digest.Hash, e.Digest.Size))
	}
	res.Root = root
	res.RootDg = refDigest(root)
	return res
}

// refDigest: SHA-256 of the deterministic marshalling, computed here (not by the code under test).
func refDigest(d *pb.Directory) string {
	blob, err := proto.MarshalOptions{Deterministic: true}.Marshal(d)
	if err != nil {
		panic(err)
	}
	h := sha256.Sum256(blob)
	return fmt.Sprintf("%s/%d", hex.EncodeToString(h[:]), len(blob))
}

// ---------------------------------------------------------------------------------------------
// reference: the canonical Merkle tree of a set of declarations, written from the REAPI rules
// (entries sorted by name, one entry per name), independent of any insertion order.

type refNode struct {
	files map[string]op
	dirs  map[string]op
	syms  map[string]op
	kids  map[string]*refNode
}

func newRef() *refNode {
	return &refNode{files: map[string]op{}, dirs: map[string]op{}, syms: map[string]op{}, kids: map[string]*refNode{}}
}

func refTree(ops []op) *refNode {
	root := newRef()
	for _, o := range ops {
		n := root
		for _, sg := range segs(o.dir()) {
			if n.kids[sg] == nil {
				n.kids[sg] = newRef()
			}
			n = n.kids[sg]
		}
		switch o.Kind {
		case kFile:
			n.files[o.base()] = o
		case kDir:
			n.dirs[o.base()] = o
		case kSym:
			n.syms[o.base()] = o
		}
	}
	return root
}

func (n *refNode) message() *pb.Directory {
	d := &pb.Directory{}
	for _, k := range lib.SortedKeys(n.files) {
		o := n.files[k]
		d.Files = append(d.Files, &pb.FileNode{Name: k, Digest: &pb.Digest{Hash: o.Hash, SizeBytes: o.Size}, IsExecutable: o.Exec})
	}
	names := map[string]bool{}
	for k := range n.dirs {
		names[k] = true
	}
	for k := range n.kids {
		names[k] = true
	}
	for _, k := range lib.SortedKeys(names) {
		if kid, ok := n.kids[k]; ok {
			m := kid.message()
			parts := strings.Split(refDigest(m), "/")
			var size int64
			fmt.Sscan(parts[1], &size)
			d.Directories = append(d.Directories, &pb.DirectoryNode{Name: k, Digest: &pb.Digest{Hash: parts[0], SizeBytes: size}})
		} else {
			o := n.dirs[k]
			d.Directories = append(d.Directories, &pb.DirectoryNode{Name: k, Digest: &pb.Digest{Hash: o.Hash, SizeBytes: o.Size}})
		}
	}
	for _, k := range lib.SortedKeys(n.syms) {
		d.Symlinks = append(d.Symlinks, &pb.SymlinkNode{Name: k, Target: n.syms[k].Target})
	}
	return d
}

// ---------------------------------------------------------------------------------------------
// classification of an input set (what kind of stream it belongs to)

type shape struct {
	KindClash   bool // one name carries two kinds in one directory (cannot exist on a file system)
	PayloadDiff bool // one (directory, name, kind) declared twice with different payloads
	Overlap     bool // an opaque output directory p/x AND some other input below p/x
	Dups        int
}

func classify(ops []op) shape {
	var sh shape
	interior := map[string]bool{}
	for _, o := range ops {
		d := o.dir()
		for d != "." {
			interior[d] = true
			d = filepath.Dir(d)
		}
	}
	kind := map[string]int{}
	pay := map[string]string{}
	for _, o := range ops {
		f := o.full()
		if k, ok := kind[f]; ok {
			if k != o.Kind {
				sh.KindClash = true
			} else if pay[f] != o.payload() {
				sh.PayloadDiff = true
			} else {
				sh.Dups++
			}
		}
		kind[f] = o.Kind
		pay[f] = o.payload()
		if interior[f] {
			if o.Kind == kDir {
				sh.Overlap = true
			} else {
				sh.KindClash = true
			}
		}
	}
	return sh
}

func (s shape) legit() bool { return !s.KindClash && !s.PayloadDiff }

// ---------------------------------------------------------------------------------------------
// Coq printers

func coqPath(p string) string { return lib.StrList(segs(p)) }

func coqOp(o op) string {
	switch o.Kind {
	case kFile:
		return lib.App("AddFile", coqPath(o.dir()), lib.App("FN", lib.Str(o.base()), lib.Str(short(fmt.Sprintf("%s/%d", o.Hash, o.Size))), lib.Bool(o.Exec)))
	case kDir:
		return lib.App("AddDir", coqPath(o.dir()), lib.Str(o.base()), lib.Str(short(fmt.Sprintf("%s/%d", o.Hash, o.Size))))
	}
	return lib.App("AddSym", coqPath(o.dir()), lib.App("SN", lib.Str(o.base()), lib.Str(o.Target)))
}

func coqMsg(d *pb.Directory) string {
	fs, ds, ss := []string{}, []string{}, []string{}
	for _, f := range d.Files {
		fs = append(fs, lib.App("FN", lib.Str(f.Name), lib.Str(short(dg(f.Digest))), lib.Bool(f.IsExecutable)))
	}
	for _, x := range d.Directories {
		ds = append(ds, lib.App("DN", lib.Str(x.Name), lib.Opt(x.Digest != nil, lib.Str(short(dg(x.Digest))))))
	}
	for _, x := range d.Symlinks {
		ss = append(ss, lib.App("SN", lib.Str(x.Name), lib.Str(x.Target)))
	}
	return lib.App("DM", lib.List(fs), lib.List(ds), lib.List(ss))
}

func jsMsg(d *pb.Directory) map[string]any {
	fs, ds, ss := []string{}, []string{}, []string{}
	for _, f := range d.Files {
		fs = append(fs, fmt.Sprintf("%s=%s%s", f.Name, short(dg(f.Digest)), map[bool]string{true: "*", false: ""}[f.IsExecutable]))
	}
	for _, x := range d.Directories {
		ds = append(ds, fmt.Sprintf("%s=%s", x.Name, short(dg(x.Digest))))
	}
	for _, x := range d.Symlinks {
		ss = append(ss, fmt.Sprintf("%s->%s", x.Name, x.Target))
	}
	return map[string]any{"files": fs, "dirs": ds, "syms": ss}
}

// short abbreviates a real SHA-256 digest (the model treats digests as opaque tokens; 48 bits keep them distinct).
func short(x string) string {
	if len(x) > 14 {
		return x[:12] + ".."
	}
	return x
}

// ---------------------------------------------------------------------------------------------
// oracle helpers

// canonical: entries of each kind strictly increasing by name; no name in two kinds.
func canonical(d *pb.Directory) string {
	seen := map[string]bool{}
	check := func(kind string, names []string) string {
		for i, n := range names {
			if i > 0 && !(names[i-1] < n) {
				return fmt.Sprintf("%s not strictly sorted: %q then %q", kind, names[i-1], n)
			}
			if seen[n] {
				return fmt.Sprintf("name %q appears in two kinds", n)
			}
			seen[n] = true
		}
		return ""
	}
	var fs, ds, ss []string
	for _, f := range d.Files {
		fs = append(fs, f.Name)
	}
	for _, x := range d.Directories {
		ds = append(ds, x.Name)
	}
	for _, x := range d.Symlinks {
		ss = append(ss, x.Name)
	}
	for _, r := range []string{check("files", fs), check("directories", ds), check("symlinks", ss)} {
		if r != "" {
			return r
		}
	}
	return ""
}

func perKindSorted(d *pb.Directory) bool {
	ok := true
	for i := 1; i < len(d.Files); i++ {
		ok = ok && d.Files[i-1].Name < d.Files[i].Name
	}
	for i := 1; i < len(d.Directories); i++ {
		ok = ok && d.Directories[i-1].Name < d.Directories[i].Name
	}
	for i := 1; i < len(d.Symlinks); i++ {
		ok = ok && d.Symlinks[i-1].Name < d.Symlinks[i].Name
	}
	return ok
}

func orders(r *lib.Rng, n, exhaustiveUpTo, sampled int) [][]int {
	out := [][]int{}
	if n <= exhaustiveUpTo {
		lib.Perms(n, func(p []int) { out = append(out, append([]int{}, p...)) })
		return out
	}
	id := make([]int, n)
	rev := make([]int, n)
	for i := range id {
		id[i], rev[i] = i, n-1-i
	}
	out = append(out, id, rev)
	for k := 0; k < sampled; k++ {
		p := append([]int{}, id...)
		lib.Shuffle(r, p)
		out = append(out, p)
	}
	return out
}

// ---------------------------------------------------------------------------------------------
// generators

var dirNames = []string{"a", "b", "c"}
var leafNames = []string{"a", "b", "c", "f", "g", "lib.so", "B", "a.b", "a-b"}
var targets = []string{"f", "../g", "/abs/x", "a/b"}

func randDir(r *lib.Rng, maxDepth int) string {
	n := r.Intn(maxDepth + 1)
	parts := []string{}
	for i := 0; i < n; i++ {
		parts = append(parts, lib.Pick(r, dirNames))
	}
	if len(parts) == 0 {
		return "."
	}
	return strings.Join(parts, "/")
}

func randPayload(r *lib.Rng, o *op) {
	switch o.Kind {
	case kFile:
		o.Hash, o.Size, o.Exec = fmt.Sprintf("f%d", r.Intn(4)), int64(r.Intn(3)), r.Chance(1, 4)
	case kDir:
		o.Hash, o.Size = fmt.Sprintf("d%d", r.Intn(4)), int64(80+r.Intn(3))
	case kSym:
		o.Target = lib.Pick(r, targets)
	}
}

// splitPkg moves a random number of leading directories of the path into the package name.
func splitPkg(r *lib.Rng, full string) (string, string) {
	parts := strings.Split(full, "/")
	k := 0
	if r.Chance(1, 3) {
		k = r.Intn(len(parts))
	}
	if k == 0 {
		return ".", full
	}
	return strings.Join(parts[:k], "/"), strings.Join(parts[k:], "/")
}

// legitSet: a set of declarations that a file system can hold: every (directory, name) has one kind
// and one payload; duplicates repeat a declaration verbatim (possibly through another package split).
func legitSet(r *lib.Rng, nEntries, nDups int) []op {
	for {
		ops := []op{}
		used := map[string]bool{}
		for tries := 0; len(ops) < nEntries && tries < 50; tries++ {
			d := randDir(r, 3)
			full := filepath.Join(d, lib.Pick(r, leafNames))
			if used[full] {
				continue
			}
			o := op{Kind: lib.Pick(r, []int{kFile, kFile, kDir, kSym})}
			o.Pkg, o.Name = splitPkg(r, full)
			randPayload(r, &o)
			cand := append(append([]op{}, ops...), o)
			if sh := classify(cand); sh.KindClash || sh.Overlap {
				continue
			}
			used[full] = true
			ops = cand
		}
		for i := 0; i < nDups && len(ops) > 0; i++ {
			o := lib.Pick(r, ops)
			o.Pkg, o.Name = splitPkg(r, o.full())
			ops = append(ops, o)
		}
		if len(ops) > 0 {
			lib.Shuffle(r, ops)
			return ops
		}
	}
}

// overlapSet: a legitimate layout in which a dependency's output directory p/x (digest known) is
// declared together with another input that lies below p/x.
func overlapSet(r *lib.Rng, extra int) []op {
	d := randDir(r, 1)
	x := lib.Pick(r, dirNames)
	od := op{Kind: kDir, Pkg: ".", Name: filepath.Join(d, x)}
	randPayload(r, &od)
	in := op{Kind: lib.Pick(r, []int{kFile, kSym}), Pkg: ".", Name: filepath.Join(d, x, lib.Pick(r, []string{"f", "g", "c/f"}))}
	randPayload(r, &in)
	ops := []op{od, in}
	for i := 0; i < extra; i++ {
		o := op{Kind: kFile, Pkg: ".", Name: filepath.Join(randDir(r, 1), lib.Pick(r, []string{"f", "g", "h"}))}
		randPayload(r, &o)
		cand := append(append([]op{}, ops...), o)
		if sh := classify(cand); sh.KindClash || sh.PayloadDiff {
			continue
		}
		ops = cand
	}
	lib.Shuffle(r, ops)
	return ops
}

// malformedSet: outside the hypothesis - one name with two kinds in a directory, or one
// declaration repeated with a different payload.
func malformedSet(r *lib.Rng) []op {
	base := legitSet(r, r.Range(1, 3), 0)
	v := lib.Pick(r, base)
	w := v
	if r.Bool() {
		w.Kind = (v.Kind + 1 + r.Intn(2)) % 3
		w.Hash, w.Size, w.Exec, w.Target = "", 0, false, ""
		randPayload(r, &w)
	} else {
		for w.payload() == v.payload() {
			randPayload(r, &w)
			if w.Kind == kFile {
				w.Exec = !v.Exec
			}
		}
	}
	ops := append(base, w)
	if r.Chance(1, 3) { // a file where another input needs a directory
		d := randDir(r, 2)
		if d != "." {
			ops = append(ops, op{Kind: kFile, Pkg: ".", Name: d, Hash: "f9", Size: 1},
				op{Kind: kFile, Pkg: ".", Name: d + "/f", Hash: "f1", Size: 1})
		}
	}
	lib.Shuffle(r, ops)
	return ops
}

// ---------------------------------------------------------------------------------------------

func jsOps(ops []op, order []int) []op {
	out := make([]op, len(order))
	for i, k := range order {
		out[i] = ops[k]
	}
	return out
}

func emitCase(c *lib.Ctx, ops []op, order []int, res built, nontrivial bool) {
	coqOps := []string{}
	for _, i := range order {
		coqOps = append(coqOps, coqOp(ops[i]))
	}
	sent := []string{}
	for i, d := range res.Sent {
		sent = append(sent, lib.Pair(coqMsg(d), lib.Str(short(res.SentDg[i]))))
	}
	js := map[string]any{"ops": jsOps(ops, order), "root": jsMsg(res.Root), "root_digest": res.RootDg}
	c.Case(lib.App("CBuild", lib.List(coqOps), lib.List(sent), coqMsg(res.Root)), js,
		fmt.Sprint(jsOps(ops, order)), nontrivial)
}

func main() {
	lib.Main("C28", func(c *lib.Ctx) {
		c.Model("From PlzV Require Import Model.C28.", "C28.case", "C28.check")
		c.Rule("input sets of 1-7 declarations (files, output directories with known digest, symlinks; directories nested to depth 3 over 3 names; " +
			"leaf names overlapping the directory names; verbatim duplicate declarations; package/name split varied) inserted into the real dirBuilder " +
			"through the uploadInputDir append sites in ALL permutations (<=5 declarations) or 26 sampled ones; streams: legitimate sets, " +
			"output-directory-overlaps-interior-directory sets, malformed sets (kind clash / unequal duplicate payloads); plus buildEnv on random maps; " +
			"plus END TO END: real BuildTargets (0-4 source files/dirs/symlinks on disk, 1-5 dependencies with stored output Directories, some also sources) in a real BuildGraph " +
			"through the real Client.uploadInputs and buildAction on a connection-less client, 6 orders each (source declaration order, dependency declaration order, " +
			"entry order inside each dependency's output Directory); plus CONCURRENCY: groups of 2-8 such targets (each with an extra root-package dependency of 25-210 files, so that the root message is large) in one graph on ONE client, " +
			"each prepared alone twice and then all at once from one goroutine per target (120 rounds), in some groups next to 2-3 goroutines calling digestMessage directly, every concurrent action digest compared with the sequential one; " +
			"plus READ FAULTS: one source file of a target is a unix socket (open fails) or absent during the first real uploadInputs, then becomes a regular file, and the action is prepared twice more on the same BuildState and once with a fresh PathHasher; plus the real buildCommand on targets with outputs / named outputs / output dirs / platform labels / env declared in varying orders. " +
			"distinct = distinct ordered declaration lists; non-trivial = >=3 declarations with a nested directory or a duplicate")

		var replay struct {
			Ops       []op       `json:"ops"`
			Stream    string     `json:"stream"`
			Scenarios []scenario `json:"scenarios"`
			Bulk      []int      `json:"bulk"`
			Rounds    int        `json:"rounds"`
			Hammer    int        `json:"hammer"`
			Scenario  scenario   `json:"scenario"`
			Victim    string     `json:"victim"`
			Kind      string     `json:"kind"`
		}
		if c.ReadReplay(&replay) {
			switch {
			case len(replay.Ops) > 0:
				checkSet(c, c.Rng.Fork(), replay.Ops, "replay", 6, 200)
				return
			case replay.Stream == "concurrent" && len(replay.Scenarios) > 0 && len(replay.Bulk) == len(replay.Scenarios):
				// an interleaving cannot be replayed step by step: the same targets, the same number of goroutines, more rounds
				g := concGroup{Stream: "concurrent", Scenarios: replay.Scenarios, Bulk: replay.Bulk, Rounds: 4 * max(replay.Rounds, 100), Hammer: replay.Hammer}
				inScratch(func() { checkConc(c, c.Rng.Fork(), g, true) })
				return
			case replay.Stream == "read-fault" && replay.Victim != "":
				inScratch(func() {
					checkFault(c, faultCase{Stream: "read-fault", Scenario: replay.Scenario, Victim: replay.Victim, Kind: replay.Kind})
				})
				return
			}
		}

		// --- 0. fixed corpus: the smallest instances of every stream
		corpus := [][]op{
			{{Kind: kFile, Pkg: ".", Name: "b", Hash: "f1", Size: 1}, {Kind: kFile, Pkg: ".", Name: "a", Hash: "f2", Size: 1}, {Kind: kFile, Pkg: ".", Name: "b", Hash: "f1", Size: 1}},
			{{Kind: kFile, Pkg: ".", Name: "a/b/f", Hash: "f1", Size: 1}, {Kind: kSym, Pkg: "a", Name: "l", Target: "b/f"}, {Kind: kDir, Pkg: "a", Name: "c", Hash: "d1", Size: 80}, {Kind: kFile, Pkg: "a/b", Name: "f", Hash: "f1", Size: 1}},
			{{Kind: kDir, Pkg: ".", Name: "x", Hash: "d1", Size: 80}, {Kind: kFile, Pkg: ".", Name: "x/f", Hash: "f1", Size: 1}},
			{{Kind: kFile, Pkg: ".", Name: "b", Hash: "f1", Size: 1}, {Kind: kDir, Pkg: ".", Name: "b", Hash: "d1", Size: 80}, {Kind: kFile, Pkg: ".", Name: "a", Hash: "f1", Size: 1}},
		}
		for _, ops := range corpus {
			checkSet(c, c.Rng.Fork(), ops, "corpus", 5, 24)
		}

		// --- 1. legitimate sets
		nLegit := c.Scale(110, 5000)
		for i := 0; i < nLegit; i++ {
			r := c.Rng.Fork()
			n := r.Range(1, 5)
			if i%5 == 4 {
				n = r.Range(6, 7)
			}
			dups := 0
			if n >= 2 && r.Chance(1, 2) {
				dups = r.Range(1, min(2, n-1))
			}
			checkSet(c, r, legitSet(r, n-dups, dups), "legit", 5, 24)
		}
		// --- 2. output directory overlapping an interior directory
		for i := 0; i < c.Scale(25, 600); i++ {
			r := c.Rng.Fork()
			checkSet(c, r, overlapSet(r, r.Intn(3)), "overlap", 5, 24)
		}
		// --- 3. malformed sets: the complement of the theorem's hypothesis
		for i := 0; i < c.Scale(40, 1000); i++ {
			r := c.Rng.Fork()
			checkSet(c, r, malformedSet(r), "malformed", 5, 24)
		}
		// --- 4. end to end: real BuildTargets in a real BuildGraph through the real uploadInputs / buildAction
		e2eStream(c, c.Scale(40, 600), c.Scale(6, 60))
		// --- 5. the Command: real buildCommand over declaration orders of outputs / output dirs / labels / env
		cmdStream(c, c.Scale(60, 1200))
		// --- 5b. follow-up round 2: N goroutines on one client; a read fault, repaired, same process
		concStream(c, c.Scale(6, 40))
		faultStream(c, c.Scale(24, 400))
		// --- 6. buildEnv (last: every call makes a BuildState whose watchdog dumps goroutines after 5 idle seconds)
		envStream(c, c.Scale(60, 1500))
	})
}

// checkSet runs one set of declarations in many orders through the implementation, applies the
// oracle, and emits correspondence cases for the first, the last and one middle order.
func checkSet(c *lib.Ctx, r *lib.Rng, ops []op, stream string, exhaustiveUpTo, sampled int) {
	sh := classify(ops)
	os := orders(r, len(ops), exhaustiveUpTo, sampled)
	c.HistN("declarations_per_set", len(ops))
	c.Hist("stream", stream)
	if sh.Dups > 0 {
		c.Hist("sets_with_duplicate_declarations", stream)
	}
	nested := false
	for _, o := range ops {
		nested = nested || strings.Count(o.dir(), "/") >= 1
	}
	nontrivial := len(ops) >= 3 && (nested || sh.Dups > 0)
	var want string
	if sh.legit() && !sh.Overlap {
		want = refDigest(refTree(ops).message())
	}
	digests := map[string][]int{}
	var firstRes built
	for k, o := range os {
		res := runImpl(ops, o)
		c.Oracle()
		in := map[string]any{"ops": jsOps(ops, o), "stream": stream}
		if res.Panicked != "" {
			if sh.legit() {
				c.Fail("dirbuilder-panics", "Build panicked on a legitimate input set: "+res.Panicked, in)
			} else {
				c.Hist("malformed_outcome", "panic")
			}
			continue
		}
		if k == 0 {
			firstRes = res
		}
		in["root"], in["root_digest"] = jsMsg(res.Root), res.RootDg
		if _, seen := digests[res.RootDg]; !seen {
			digests[res.RootDg] = o
		}
		// every message produced is canonical
		for _, m := range append(append([]*pb.Directory{}, res.Sent...), res.Root) {
			if !perKindSorted(m) {
				c.Fail("directory-not-sorted", "a Directory message has a kind whose entries are not strictly increasing by name", in)
			} else if why := canonical(m); why != "" {
				if sh.legit() {
					c.Fail("directory-not-canonical", "Directory message for a legitimate input set is not canonical: "+why, in)
				} else {
					c.Hist("malformed_outcome", "name-in-two-kinds-in-output")
				}
			}
		}
		// the digests the code attached to the messages are the digests of those messages
		sentSet := map[string]bool{}
		for i, m := range res.Sent {
			sentSet[res.SentDg[i]] = true
			if refDigest(m) != res.SentDg[i] {
				c.Fail("sent-digest-wrong", "the digest sent with a Directory message is not the SHA-256/size of its marshalling", in)
			}
		}
		if len(res.Sent) == 0 || res.SentDg[len(res.SentDg)-1] != res.RootDg {
			c.Fail("root-not-sent-last", "the last message sent is not the root that Build returns", in)
		}
		// content and layout: equal to the canonical Merkle tree of the declared set
		if want != "" && res.RootDg != want {
			c.Fail("root-differs-from-canonical-tree", fmt.Sprintf("input root digest %s differs from the canonical tree of the declared inputs (%s)", short(res.RootDg), short(want)), in)
		}
		if k == 0 || k == len(os)-1 || k == len(os)/2 {
			emitCase(c, ops, o, res, nontrivial)
		} else {
			c.Eval(in, fmt.Sprint(jsOps(ops, o)), nontrivial)
		}
	}
	if len(digests) > 1 {
		keys := lib.SortedKeys(digests)
		in := map[string]any{"ops": jsOps(ops, digests[keys[0]]), "order1": digests[keys[0]], "order2": digests[keys[1]],
			"digest1": keys[0], "digest2": keys[1], "stream": stream}
		what := fmt.Sprintf("%d different input root digests over the insertion orders of one input set", len(digests))
		switch {
		case !sh.legit():
			c.Hist("malformed_outcome", "order-dependent-digest")
		case sh.Overlap:
			c.Fail("output-dir-overlaps-interior-dir", what+": an output directory p/x with a known digest and another input below p/x; the first one inserted wins", in)
		default:
			c.Fail("root-digest-order-dependent", what, in)
		}
	} else if !sh.legit() {
		c.Hist("malformed_outcome", "order-independent-digest")
	}
	_ = firstRes
}

// ---------------------------------------------------------------------------------------------
// buildEnv

func envStream(c *lib.Ctx, n int) {
	keys := []string{"PATH", "HOME", "SANDBOX", "_BINARY", "A", "B", "AB", "a", "TMP_DIR", "", "Z"}
	parts := []string{"/usr/bin", "/bin", "/home/u/bin", "/home/u", "/home/user2/x", "/opt/please", "/opt/please/bin", "", "."}
	for i := 0; i < n; i++ {
		r := c.Rng.Fork()
		env := map[string]string{}
		order := []string{}
		for k := r.Range(0, 6); k > 0; k-- {
			name := lib.Pick(r, keys)
			if _, ok := env[name]; ok {
				continue
			}
			v := lib.Pick(r, []string{"", "x", "true", "1:2"})
			if name == "PATH" {
				ps := []string{}
				for j := r.Range(0, 5); j > 0; j-- {
					ps = append(ps, lib.Pick(r, parts))
				}
				v = strings.Join(ps, ":")
			}
			env[name] = v
			order = append(order, name)
		}
		loc := lib.Pick(r, []string{"/opt/please", "", "/bin"})
		home := lib.Pick(r, []string{"/home/u", "/home/u", "/root", ""})
		ht, ib, sb := r.Bool(), r.Bool(), r.Bool()
		in := map[string]string{}
		for k, v := range env {
			in[k] = v
		}
		run := func() []*pb.Command_EnvironmentVariable {
			cp := map[string]string{}
			for k, v := range in {
				cp[k] = v
			}
			return remote.VerifBuildEnv(cp, loc, home, ht, ib, sb)
		}
		out := run()
		js := map[string]any{"env": in, "location": loc, "home": home, "target": ht, "binary": ib, "sandbox": sb}
		c.Oracle()
		wantKeys := map[string]bool{}
		for k := range in {
			wantKeys[k] = true
		}
		if sb {
			wantKeys["SANDBOX"] = true
		}
		if ht && ib {
			wantKeys["_BINARY"] = true
		}
		bad := len(out) != len(wantKeys)
		for j, v := range out {
			if j > 0 && !(out[j-1].Name < v.Name) {
				bad = true
			}
			if !wantKeys[v.Name] {
				bad = true
			}
		}
		if bad {
			c.Fail("env-not-sorted-set", "buildEnv output is not the strictly name-sorted list of the environment's variables", js)
		}
		for k := 0; k < 3; k++ {
			again := run()
			same := len(again) == len(out)
			for j := 0; same && j < len(out); j++ {
				same = again[j].Name == out[j].Name && again[j].Value == out[j].Value
			}
			if !same {
				c.Fail("env-order-dependent", "buildEnv gives different lists for the same map", js)
			}
		}
		envList := func(names []string, m map[string]string) string {
			items := []string{}
			for _, k := range names {
				items = append(items, lib.Pair(lib.Str(k), lib.Str(m[k])))
			}
			return lib.List(items)
		}
		outItems := []string{}
		for _, v := range out {
			outItems = append(outItems, lib.Pair(lib.Str(v.Name), lib.Str(v.Value)))
		}
		lib.Shuffle(r, order)
		c.Case(lib.App("CEnv", lib.Str(loc), lib.Str(home), lib.Bool(ht), lib.Bool(ib), lib.Bool(sb), envList(order, in), lib.List(outItems)),
			js, fmt.Sprint("env", in, loc, home, ht, ib, sb), len(in) >= 2)
		c.HistN("env_size", len(in))
	}
}
