// Part D of C02: traces of file changes, hashes (with and without recalc) and moves run against the real fs.PathHasher
// (xattrs off) and replayed in Model/C02.v (CMemo): the memo model behind the theorems C02_memo is the code's.
// The restore path of buildTarget (hash the outputs that are there, swap the files behind the hasher's back, hash again,
// then a dependent's Hash(path, recalc=false)) is one of the generated trace shapes; its oracle is the property itself:
// after the second pass with recalc=true the dependent's answer is the hash of the file that is there now.
package main

import (
	"crypto/sha1"
	"encoding/hex"
	"fmt"
	"os"
	"path/filepath"

	"github.com/thought-machine/please/src/fs"

	"verifharness/lib"
)

type memoEv struct {
	Kind   string `json:"kind"` // write | remove | hash | move
	Path   string `json:"path"`
	Value  string `json:"value,omitempty"`
	Recalc bool   `json:"recalc,omitempty"`
	Answer string `json:"answer,omitempty"` // hash events: the content whose hash was answered, "<error>", or "<unknown hash>"
}

func runMemoTrace(root string, evs []memoEv) []memoEv {
	os.RemoveAll(root)
	if err := os.MkdirAll(root, 0o755); err != nil {
		panic(err)
	}
	defer os.RemoveAll(root)
	// the hasher makes every path relative to its root and then uses it as is: like plz it must run IN the root
	cwd, err := os.Getwd()
	if err != nil {
		panic(err)
	}
	if err := os.Chdir(root); err != nil {
		panic(err)
	}
	defer os.Chdir(cwd)
	h := fs.NewPathHasher(root, false, sha1.New, "sha1")
	known := map[string]string{}
	sum := func(v string) string { x := sha1.Sum([]byte(v)); return hex.EncodeToString(x[:]) }
	out := append([]memoEv{}, evs...)
	for i := range out {
		e := &out[i]
		p := filepath.Join(root, e.Path)
		known[sum(e.Value)] = e.Value
		switch e.Kind {
		case "write": // replaced behind the hasher's back, the way dirCache.retrieveFiles does: RemoveAll, then a new file
			os.RemoveAll(p)
			if err := os.WriteFile(p, []byte(e.Value), 0o644); err != nil {
				panic(err)
			}
		case "remove":
			os.RemoveAll(p)
		case "hash":
			res, err := h.Hash(p, e.Recalc, false, false)
			switch {
			case err != nil:
				e.Answer = "<error>"
			default:
				if v, ok := known[hex.EncodeToString(res)]; ok {
					e.Answer = v
				} else {
					e.Answer = "<unknown hash>"
				}
			}
		case "move": // moveOutput: the new file is hashed in the temporary directory, moved over the old one, MoveHash
			tmp := filepath.Join(root, fmt.Sprintf("tmp%d", i))
			if err := os.WriteFile(tmp, []byte(e.Value), 0o644); err != nil {
				panic(err)
			}
			if _, err := h.Hash(tmp, false, false, false); err != nil {
				panic(err)
			}
			os.RemoveAll(p)
			if err := os.Rename(tmp, p); err != nil {
				panic(err)
			}
			h.MoveHash(tmp, p)
		}
	}
	return out
}

func memoTerm(evs []memoEv) string {
	var es, obs []string
	for _, e := range evs {
		switch e.Kind {
		case "write":
			es = append(es, lib.App("EWrite", lib.Str(e.Path), lib.Some(lib.Str(e.Value))))
		case "remove":
			es = append(es, lib.App("EWrite", lib.Str(e.Path), "None"))
		case "hash":
			es = append(es, lib.App("EHash", lib.Bool(e.Recalc), lib.Str(e.Path)))
			if e.Answer == "<error>" {
				obs = append(obs, "None")
			} else {
				obs = append(obs, lib.Some(lib.Str(e.Answer)))
			}
		case "move":
			es = append(es, lib.App("EMove", lib.Str(e.Path), lib.Str(e.Value)))
		}
	}
	return lib.App("CMemo", lib.List(es), lib.List(obs))
}

var memoPaths = []string{"o1", "o2", "o3"}

// genMemoTrace: either a random trace, or the restore path of buildTarget over 1-3 outputs (old hashes, swap, new hashes with
// the given recalc flag, dependents' reads), preceded and followed by random events.
func genMemoTrace(r *lib.Rng, restore bool) (evs []memoEv, outs []string, newVals map[string]string) {
	n := 0
	val := func() string { n++; return fmt.Sprintf("v%d-%s", n, lib.Pick(r, []string{"a", "bb", ""})) }
	random := func(k int) {
		for i := 0; i < k; i++ {
			p := lib.Pick(r, memoPaths)
			switch r.Intn(6) {
			case 0:
				evs = append(evs, memoEv{Kind: "write", Path: p, Value: val()})
			case 1:
				evs = append(evs, memoEv{Kind: "remove", Path: p})
			case 2:
				evs = append(evs, memoEv{Kind: "hash", Path: p, Recalc: true})
			case 3, 4:
				evs = append(evs, memoEv{Kind: "hash", Path: p})
			case 5:
				evs = append(evs, memoEv{Kind: "move", Path: p, Value: val()})
			}
		}
	}
	if !restore {
		random(r.Range(4, 14))
		return evs, nil, nil
	}
	random(r.Range(0, 5))
	outs = memoPaths[:r.Range(1, 3)]
	newVals = map[string]string{}
	for _, p := range outs { // oldOutputHash: every output that is there is hashed (the loop stops at the first absent one: an error)
		evs = append(evs, memoEv{Kind: "hash", Path: p, Recalc: true})
	}
	for _, p := range outs { // the cache swaps the files
		newVals[p] = val()
		evs = append(evs, memoEv{Kind: "write", Path: p, Value: newVals[p]})
	}
	for _, p := range outs { // calculateAndCheckRuleHash -> outputHash, recalc = true
		evs = append(evs, memoEv{Kind: "hash", Path: p, Recalc: true})
	}
	for _, p := range outs { // a dependent's sourceHash
		evs = append(evs, memoEv{Kind: "hash", Path: p})
	}
	return evs, outs, newVals
}

func memoPart(c *lib.Ctx, base string) {
	n := c.Scale(60, 1500)
	for i := 0; i < n; i++ {
		r := c.Rng.Fork()
		restore := i%3 == 0
		evs, outs, newVals := genMemoTrace(r, restore)
		res := runMemoTrace(filepath.Join(base, "memo"), evs)
		key := fmt.Sprint(res)
		stale := false
		// oracle (every trace): an answer given with recalc = true is the content on disk at that moment
		disk := map[string]*string{}
		for _, e := range res {
			switch e.Kind {
			case "write", "move":
				v := e.Value
				disk[e.Path] = &v
			case "remove":
				disk[e.Path] = nil
			case "hash":
				cur := disk[e.Path]
				if e.Recalc {
					c.Oracle()
					if (cur == nil) != (e.Answer == "<error>") || (cur != nil && *cur != e.Answer) {
						c.Fail("recalc-hash-not-of-current-file", fmt.Sprintf("Hash(%s, recalc=true) answered %q", e.Path, e.Answer), res)
					}
				} else if cur == nil && e.Answer != "<error>" || cur != nil && *cur != e.Answer {
					stale = true // a memoised answer that is not the file: allowed by the hasher's contract, the theorems say when
				}
			}
		}
		if restore { // the property on the restore path: the dependents' reads (the last len(outs) events) see the restored files
			for j, p := range outs {
				e := res[len(res)-len(outs)+j]
				c.Oracle()
				if e.Answer != newVals[p] {
					c.Fail("stale-hash-after-restore", fmt.Sprintf("after the restore path Hash(%s, recalc=false) answered %q, the restored file is %q", p, e.Answer, newVals[p]), res)
				}
			}
			c.Hist("memo-trace", fmt.Sprintf("restore-path-%d-outputs", len(outs)))
		} else {
			c.Hist("memo-trace", fmt.Sprintf("random stale-answer=%v", stale))
		}
		c.Case(memoTerm(res), map[string]any{"memo_trace": res}, "memo:"+key, restore || stale)
	}
}
