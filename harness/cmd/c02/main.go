// C02: cache restores are indistinguishable from building (end to end, real plz, local directory cache).
//
// Histories share one cache directory (dircompress on in every other history), move the tree between a few
// states (A, B, A, ...), and delete plz-out between builds. Oracles (model independent): after every step the
// outputs equal those of a clean build of the same tree in a fresh directory WITHOUT cache; when plz-out was
// deleted and the tree equals one that was built completely earlier in the history, no command runs (everything
// comes from the cache). The whole history is replayed in Model/Engine.v with the cache switched on.
package main

import (
	"encoding/json"
	"fmt"
	"os"
	"sort"
	"sync"

	"verifharness/e2e"
	"verifharness/lib"
)

func main() {
	lib.Main("C02", func(c *lib.Ctx) {
		c.Model("From PlzV Require Import Model.Engine Model.C02.", "C02.case", "C02.check")
		c.Rule("generated repositories (1-2 packages, 2-6 targets: genrules concat/const/copydir/listnames, filegroups, text_files) with a local directory cache " +
			"(compressed in every other history); histories of edits, frequent rm -rf plz-out (alone or together with going back to an earlier tree) and reverts, " +
			"so that trees recur with a warm cache; every step is compared with a clean build without cache. distinct = distinct histories; " +
			"non-trivial = at least one step restored from the cache (plz-out deleted, nothing or not everything executed)")
		base := e2e.Scratch("c02")
		defer os.RemoveAll(base)

		n := c.Scale(8, 300)
		steps := c.Scale(5, 8)
		mode := func(i int) string {
			if i%2 == 1 {
				return "dircompress"
			}
			return "dir"
		}
		rH := c.Rng.Fork()
		wits := e2e.EngWitnesses()
		modes := []string{"dir", "dircompress"}
		witH := make([][]e2e.EngStep, len(wits)*len(modes))
		var all [][]e2e.EngStep
		var wg sync.WaitGroup
		// part C: the targeted shapes
		var shapeOpts []e2e.C02ShapeOpts
		for rep := 0; rep < c.Scale(1, 12); rep++ {
			for _, k := range e2e.C02ShapeKinds {
				for _, m := range modes {
					for _, w := range []bool{false, true} {
						if w && e2e.C02ShapeKeepsPlzOut(k) {
							continue
						}
						shapeOpts = append(shapeOpts, e2e.C02ShapeOpts{Kind: k, Cache: m, WipeAll: w, Steps: c.Scale(4, 7)})
					}
				}
			}
		}
		rS := c.Rng.Fork()
		var shapes [][]e2e.EngStep
		wg.Add(2 + len(witH))
		go func() {
			defer wg.Done()
			shapes = e2e.EngRunC02Shapes(rS, base+"/shapes", shapeOpts, 8)
		}()
		go func() {
			defer wg.Done()
			all = e2e.EngRunHistories(rH, base, n, 8, func(i int) e2e.EngOpts {
				return e2e.EngOpts{MaxPkgs: 2, MaxTargets: 6, Steps: steps, CleanRef: true, Cache: mode(i), PWipe: 40, PRevert: 20, PNoop: 0, DirHeavy: i%4 == 0}
			})
		}()
		// fixed witnesses: tree A, tree B (an entry of an output directory renamed), rm -rf plz-out, tree B again
		for wi := range wits {
			for ci := range modes {
				go func(wi, ci int) {
					defer wg.Done()
					dir := fmt.Sprintf("%s/w%d_%d", base, wi, ci)
					os.MkdirAll(dir, 0o755)
					w := wits[wi]
					specs := []*e2e.Spec{w.Specs[0], w.Specs[1], w.Specs[1]}
					witH[wi*len(modes)+ci] = e2e.EngRunSpecs(dir, specs, w.Order, e2e.EngOpts{CleanRef: true, Cache: modes[ci]}, map[int]bool{2: true})
				}(wi, ci)
			}
		}
		wg.Wait()
		for wi, w := range wits {
			for ci, m := range modes {
				h := witH[wi*len(modes)+ci]
				if timedOut(c, h) {
					continue
				}
				for k := range h {
					c.Hist("edit", "witness-"+w.Name)
					oracle(c, 1000+wi, h, k, m)
				}
				c.Case(engCase(h), histJSON(1000+wi, h, len(h)-1, m), e2e.EngKey(h)+m, true)
			}
		}
		for i, h := range shapes {
			o := shapeOpts[i]
			if timedOut(c, h) {
				continue
			}
			nontrivial := false
			for k := range h {
				st := &h[k]
				c.Hist("edit", st.Edit.Kind)
				c.Hist("cache", o.Cache)
				c.Hist("shape", fmt.Sprintf("%s wipe-all=%v", o.Kind, o.WipeAll))
				if k > 0 && st.Exit == 0 && h[k-1].Exit == 0 {
					switch o.Kind {
					case "multi": // the dependency's outputs changed, its command did not run, plz-out was there: restored over the old outputs
						if same, _ := e2e.OutputsEqual(st.Clean["//p:dep"], h[k-1].Clean["//p:dep"]); !same && !st.Wipe && !contains(st.Executed, "//p:dep") {
							nontrivial = true
							c.Hist("restore", "multi-output dependency restored over other outputs")
						}
					case "link", "od": // the key source changed since the previous build and plz-out was kept
						if !st.Wipe && st.Spec.Pkgs["p"].Files["a.txt"] != h[k-1].Spec.Pkgs["p"].Files["a.txt"] {
							nontrivial = true
							c.Hist("restore", o.Kind+": key source changed with plz-out kept")
						}
					case "ntool":
						if same, _ := e2e.OutputsEqual(st.Clean["//p:gen"], h[k-1].Clean["//p:gen"]); !same {
							nontrivial = true
							if st.Wipe && !contains(st.Executed, "//p:usen") {
								c.Hist("restore", "user of a named tool restored after the tool's output changed back")
							}
						}
					}
				}
				oracle(c, 2000+i, h, k, o.Cache)
			}
			if e2e.C02ShapeModelled(o.Kind) {
				c.Case(engCase(h), histJSON(2000+i, h, len(h)-1, o.Cache), e2e.EngKey(h)+o.Cache+fmt.Sprint(o.WipeAll), nontrivial)
			} else {
				c.Eval(histJSON(2000+i, h, len(h)-1, o.Cache), e2e.EngKey(h)+o.Cache+fmt.Sprint(o.WipeAll), nontrivial)
			}
		}
		memoPart(c, base)
		for i, h := range all {
			if timedOut(c, h) {
				continue
			}
			restored := false
			for k := range h {
				st := &h[k]
				c.Hist("edit", st.Edit.Kind)
				c.Hist("cache", mode(i))
				if st.Wipe && len(st.Executed) < len(st.CleanExec) {
					restored = true
				}
				oracle(c, i, h, k, mode(i))
			}
			c.Case(engCase(h), histJSON(i, h, len(h)-1, mode(i)), e2e.EngKey(h)+mode(i), restored)
		}
	})
}

// timedOut: a plz invocation of the history was killed by the harness timeout (overloaded machine): the history says nothing
// about the property or the model, it is counted and dropped (as in cmd/c01).
func timedOut(c *lib.Ctx, h []e2e.EngStep) bool {
	for k := range h {
		if h[k].TimedOut || h[k].Exit == -9 || h[k].CleanExit == -9 {
			c.Hist("edit", "timed-out")
			return true
		}
	}
	return false
}

// the engine histories are one constructor of C02.case (the other: traces against the real path hasher, memo.go)
func engCase(h []e2e.EngStep) string { return lib.App("CEng", e2e.EngCaseTerm(h)) }

func contains(xs []string, x string) bool {
	for _, y := range xs {
		if y == x {
			return true
		}
	}
	return false
}

func specKey(s *e2e.Spec) string { b, _ := json.Marshal(s); return string(b) }

func oracle(c *lib.Ctx, i int, h []e2e.EngStep, k int, mode string) {
	st := &h[k]
	c.Oracle()
	if (st.Exit == 0) != (st.CleanExit == 0) {
		c.Fail("exit-status-differs", fmt.Sprintf("with cache exit %d, clean exit %d after %v: %s", st.Exit, st.CleanExit, st.Edit, st.Stderr), histJSON(i, h, k, mode))
		return
	}
	if st.Exit != 0 {
		return
	}
	labels := make([]string, 0, len(st.Outputs))
	for l := range st.Outputs {
		labels = append(labels, l)
	}
	sort.Strings(labels)
	for _, l := range labels {
		if ok, why := e2e.OutputsEqual(st.Outputs[l], st.Clean[l]); !ok {
			cls := e2e.StaleClass(st.Spec, l, st.Outputs, st.Clean)
			if st.Wipe {
				cls = "restored-" + cls
			}
			c.Fail(cls, fmt.Sprintf("%s after %v (cache %s): with cache vs clean without cache: %s", l, st.Edit, mode, why), histJSON(i, h, k, mode))
		}
	}
	// a tree that was built completely before, plz-out deleted: everything must come from the cache
	if st.Wipe {
		for j := 0; j < k; j++ {
			if h[j].Exit == 0 && specKey(h[j].Spec) == specKey(st.Spec) && len(h[j].Requested) == len(st.Requested) {
				c.Oracle()
				if len(st.Executed) > 0 {
					c.Fail("warm-cache-miss", fmt.Sprintf("tree of step %d again after rm -rf plz-out (cache %s): commands ran: %v", j, mode, st.Executed), histJSON(i, h, k, mode))
				}
				break
			}
		}
	}
}

func histJSON(i int, h []e2e.EngStep, upto int, mode string) map[string]any {
	specs := []*e2e.Spec{}
	edits := []e2e.Edit{}
	for _, s := range h[:upto+1] {
		specs = append(specs, s.Spec)
		edits = append(edits, s.Edit)
	}
	st := h[upto]
	return map[string]any{"history": i, "cache": mode, "step": upto, "edits": edits, "specs": specs, "exit": st.Exit, "clean_exit": st.CleanExit,
		"executed": st.Executed, "outputs": st.OutStr, "clean": st.CleanStr}
}
