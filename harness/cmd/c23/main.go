// C23: dependency queries (somepath / deps / revdeps) agree with graph reachability.
// Implementation side of the correspondence + model-independent property oracle.
//
// Graphs are built from real core.BuildTarget / core.Package / core.BuildGraph values; the three queries are
// the exported query.SomePath / query.Deps / query.ReverseDeps, whose printed output is captured and parsed.
// The oracle is a reference BFS / 0-1 BFS over the generator's own description of the graph (it never calls
// the code under test and never looks at the Coq model).
package main

import (
	"bytes"
	"fmt"
	"io"
	"os"
	"sort"
	"strings"

	"verifharness/lib"

	"github.com/thought-machine/please/src/core"
	"github.com/thought-machine/please/src/query"
	gologging "gopkg.in/op/go-logging.v1"
)

// ------------------------------------------------------------------------------------------------
// graph descriptions

type tdesc struct {
	Label string              `json:"l"`
	Deps  []string            `json:"d,omitempty"`
	Req   []string            `json:"r,omitempty"`
	Prov  map[string][]string `json:"p,omitempty"`
}

type gdesc struct {
	Targets []tdesc `json:"targets"`
	WF      bool    `json:"wf"` // every hidden target is a `_x#tag` whose parent x exists, rule blocks are contiguous
	// RC: well-named like WF (every `_x#tag` has its rule x) but the targets are in arbitrary order, so a sub-target may
	// depend on its own rule and RULES may depend on each other cyclically through their sub-targets (the targets stay acyclic)
	RC bool `json:"rc,omitempty"`
}

func (d gdesc) oracleOK() bool { return d.WF || d.RC }

var langs = []string{"go", "py", "cc"}

func langID(s string) uint64 {
	for i, l := range langs {
		if l == s {
			return uint64(i + 1)
		}
	}
	panic("lang " + s)
}

type built struct {
	d      gdesc
	state  *core.BuildState
	ids    map[string]int // label string -> number (BuildLabel.Less order over targets and their Parent() labels)
	names  []string
	coq    string
	byName map[string]*tdesc
}

func lbl(s string) core.BuildLabel { return core.ParseBuildLabel(s, "") }

// one BuildState for the whole run (each NewBuildState starts a watchdog goroutine); every case gets a fresh graph
var theState *core.BuildState

func build(d gdesc) *built {
	if theState == nil {
		theState = core.NewBuildState(core.DefaultConfiguration())
	}
	state := theState
	state.Graph = core.NewGraph()
	pkgs := map[string]*core.Package{}
	b := &built{d: d, state: state, ids: map[string]int{}, byName: map[string]*tdesc{}}
	all := core.BuildLabels{}
	seen := map[core.BuildLabel]bool{}
	for i := range d.Targets {
		td := &d.Targets[i]
		b.byName[td.Label] = td
		l := lbl(td.Label)
		t := core.NewBuildTarget(l)
		for _, dep := range td.Deps {
			t.AddDependency(lbl(dep))
		}
		for _, r := range td.Req {
			t.AddRequire(r)
		}
		for _, k := range lib.SortedKeys(td.Prov) {
			ls := []core.BuildLabel{}
			for _, x := range td.Prov[k] {
				ls = append(ls, lbl(x))
			}
			t.AddProvide(k, ls)
		}
		state.Graph.AddTarget(t)
		p := pkgs[l.PackageName]
		if p == nil {
			p = core.NewPackage(l.PackageName)
			pkgs[l.PackageName] = p
			state.Graph.AddPackage(p)
		}
		p.AddTarget(t)
		for _, x := range []core.BuildLabel{l, l.Parent()} {
			if !seen[x] {
				seen[x] = true
				all = append(all, x)
			}
		}
	}
	sort.Sort(all)
	for i, l := range all {
		b.ids[l.String()] = i
		b.names = append(b.names, l.String())
	}
	// the Coq graph: AllTargets() order, DeclaredDependencies() order, Label.Parent(), Label.IsHidden()
	entries := []string{}
	for _, t := range state.Graph.AllTargets() {
		deps := []uint64{}
		for _, dl := range t.DeclaredDependencies() {
			deps = append(deps, uint64(b.ids[dl.String()]))
		}
		req := []uint64{}
		for _, r := range t.Requires {
			req = append(req, langID(r))
		}
		prov := []string{}
		for _, k := range lib.SortedKeys(b.byName[t.Label.String()].Prov) {
			ls := []uint64{}
			for _, x := range t.Provides[k] {
				ls = append(ls, uint64(b.ids[x.String()]))
			}
			prov = append(prov, lib.Pair(lib.N(langID(k)), lib.NList(ls)))
		}
		entries = append(entries, lib.Pair(lib.N(uint64(b.ids[t.Label.String()])),
			lib.App("mkT", lib.NList(deps), lib.N(uint64(b.ids[t.Label.Parent().String()])), lib.Bool(t.Label.IsHidden()),
				lib.NList(req), lib.List(prov))))
	}
	b.coq = lib.List(entries)
	return b
}

func (b *built) idList(ls []string) string {
	out := []uint64{}
	for _, l := range ls {
		out = append(out, uint64(b.ids[l]))
	}
	return lib.NList(out)
}

// ------------------------------------------------------------------------------------------------
// running the real queries

func capture(f func()) string {
	old := os.Stdout
	r, w, err := os.Pipe()
	if err != nil {
		panic(err)
	}
	os.Stdout = w
	ch := make(chan string)
	go func() {
		data, _ := io.ReadAll(r)
		ch <- string(data)
	}()
	func() {
		defer func() { w.Close(); os.Stdout = old }()
		f()
	}()
	out := <-ch
	r.Close()
	return out
}

func labels(ls []string) []core.BuildLabel {
	out := []core.BuildLabel{}
	for _, l := range ls {
		out = append(out, lbl(l))
	}
	return out
}

// runSomePath returns the printed path ([] when the command reports that there is none).
func (b *built) runSomePath(from, to, except []string, showHidden bool) []string {
	var err error
	out := capture(func() { err = query.SomePath(b.state.Graph, labels(from), labels(to), labels(except), showHidden) })
	path := []string{}
	for _, line := range strings.Split(out, "\n") {
		if strings.HasPrefix(line, "  ") {
			path = append(path, strings.TrimSpace(line))
		}
	}
	if (err != nil) != (len(path) == 0) {
		panic(fmt.Sprintf("somepath: err=%v but output %q", err, out))
	}
	return path
}

type leveled struct {
	Level int    `json:"lv"`
	Label string `json:"l"`
}

func (b *built) runDeps(roots []string, hidden bool, level int) []leveled {
	var buf bytes.Buffer
	query.Deps(&buf, b.state, labels(roots), hidden, level, false)
	out := []leveled{}
	for _, line := range strings.Split(buf.String(), "\n") {
		if line == "" {
			continue
		}
		t := strings.TrimLeft(line, " ")
		out = append(out, leveled{Level: (len(line) - len(t)) / 2, Label: t})
	}
	return out
}

func (b *built) runRevdeps(roots []string, hidden bool, level int) []string {
	out := capture(func() { query.ReverseDeps(b.state, labels(roots), level, hidden) })
	res := []string{}
	for _, line := range strings.Split(out, "\n") {
		if line != "" {
			res = append(res, line)
		}
	}
	return res
}

// ------------------------------------------------------------------------------------------------
// the reference: edges, reachability, 0/1-weighted distance - from the description only

func isSub(name string) bool { // `_x#tag`
	i := strings.LastIndex(name, ":")
	n := name[i+1:]
	return strings.HasPrefix(n, "_") && strings.Contains(n, "#")
}

func ruleOf(name string) string {
	if !isSub(name) {
		return name
	}
	i := strings.LastIndex(name, ":")
	n := name[i+1:]
	n = strings.TrimLeft(n[:strings.Index(n, "#")], "_")
	return name[:i+1] + n
}

type ref struct {
	d     gdesc
	by    map[string]*tdesc
	order []string
}

func newRef(d gdesc) *ref {
	r := &ref{d: d, by: map[string]*tdesc{}}
	for i := range d.Targets {
		r.by[d.Targets[i].Label] = &d.Targets[i]
		r.order = append(r.order, d.Targets[i].Label)
	}
	return r
}

// what `dep` stands for when `user` depends on it (require/provide)
func (r *ref) provided(dep, user string) []string {
	dt, ut := r.by[dep], r.by[user]
	found := false
	out := []string{}
	for _, q := range ut.Req {
		if ls, ok := dt.Prov[q]; ok {
			found = true
			out = append(out, ls...)
		}
	}
	if !found {
		return []string{dep}
	}
	return out
}

// direct dependencies of u, not going through any declared dependency in `except`
func (r *ref) edges(u string, except map[string]bool) []string {
	out := []string{}
	for _, d := range r.by[u].Deps {
		if r.by[d] == nil || except[d] {
			continue
		}
		out = append(out, r.provided(d, u)...)
	}
	return out
}

func (r *ref) hasEdge(u, v string, except map[string]bool) bool {
	for _, x := range r.edges(u, except) {
		if x == v {
			return true
		}
	}
	return false
}

func (r *ref) reachable(from string, except map[string]bool) map[string]bool {
	seen := map[string]bool{from: true}
	todo := []string{from}
	for len(todo) > 0 {
		u := todo[0]
		todo = todo[1:]
		for _, v := range r.edges(u, except) {
			if !seen[v] && r.by[v] != nil {
				seen[v] = true
				todo = append(todo, v)
			}
		}
	}
	return seen
}

// a path from a to b or into one of b's hidden sub-targets
func (r *ref) connects(a, b string, except map[string]bool) bool {
	for v := range r.reachable(a, except) {
		if v == b || (isSub(v) && ruleOf(v) == b) {
			return true
		}
	}
	return false
}

// an edge between a rule and its own hidden sub-targets costs nothing (unless hidden targets are shown).
// deps (forward, u depends on v): free only INTO a sub-target of u's rule (a sub-target depending on its own rule
// pays a level: the rule is printed).  revdeps (reverse, v depends on u): free whenever both belong to one rule.
func cost(u, v string, hidden, reverse bool) int {
	if hidden || ruleOf(u) != ruleOf(v) {
		return 1
	}
	if reverse || isSub(v) {
		return 0
	}
	return 1
}

const inf = 1 << 30

// forward distances from root over NON-EMPTY paths... the graphs are acyclic, so every other node qualifies
func (r *ref) dist(starts []string, hidden, reverse bool) map[string]int {
	dist := map[string]int{}
	for _, n := range r.order {
		dist[n] = inf
	}
	for _, s := range starts {
		dist[s] = 0
	}
	radj := map[string][]string{}
	if reverse {
		for _, u := range r.order {
			for _, v := range r.edges(u, nil) {
				radj[v] = append(radj[v], u)
			}
		}
	}
	// Bellman-Ford style relaxation: tiny graphs, no cleverness wanted in a reference
	for changed := true; changed; {
		changed = false
		for _, u := range r.order {
			if dist[u] == inf {
				continue
			}
			next := r.edges(u, nil)
			if reverse {
				next = radj[u]
			}
			for _, v := range next {
				if _, ok := dist[v]; !ok {
					continue
				}
				c := cost(u, v, hidden, reverse)
				if dist[u]+c < dist[v] {
					dist[v] = dist[u] + c
					changed = true
				}
			}
		}
	}
	return dist
}

// longest path cost from the starts (acyclic graphs), to recognise nodes reachable at different depths
func (r *ref) longest(starts []string, hidden, reverse bool) map[string]int {
	long := map[string]int{}
	for _, s := range starts {
		long[s] = 0
	}
	radj := map[string][]string{}
	if reverse {
		for _, u := range r.order {
			for _, v := range r.edges(u, nil) {
				radj[v] = append(radj[v], u)
			}
		}
	}
	for i := 0; i <= len(r.order); i++ {
		for _, u := range r.order {
			lu, ok := long[u]
			if !ok {
				continue
			}
			next := r.edges(u, nil)
			if reverse {
				next = radj[u]
			}
			for _, v := range next {
				if r.by[v] == nil {
					continue
				}
				if lv, ok := long[v]; !ok || lu+cost(u, v, hidden, reverse) > lv {
					long[v] = lu + cost(u, v, hidden, reverse)
				}
			}
		}
	}
	return long
}

// all costs of dependency chains from the starts (a start itself: the empty chain, cost 0); the graphs are acyclic
func (r *ref) costSets(starts []string, hidden, reverse bool) map[string]map[int]bool {
	cs := map[string]map[int]bool{}
	for _, n := range r.order {
		cs[n] = map[int]bool{}
	}
	for _, s := range starts {
		cs[s][0] = true
	}
	radj := map[string][]string{}
	if reverse {
		for _, u := range r.order {
			for _, v := range r.edges(u, nil) {
				radj[v] = append(radj[v], u)
			}
		}
	}
	for changed := true; changed; {
		changed = false
		for _, u := range r.order {
			next := r.edges(u, nil)
			if reverse {
				next = radj[u]
			}
			for _, v := range next {
				if cs[v] == nil {
					continue
				}
				for c := range cs[u] {
					if k := c + cost(u, v, hidden, reverse); k <= len(r.order)+1 && !cs[v][k] {
						cs[v][k] = true
						changed = true
					}
				}
			}
		}
	}
	return cs
}

func within(d, level int) bool { return d != inf && (level == -1 || d <= level) }

func setOf(xs []string) map[string]bool {
	m := map[string]bool{}
	for _, x := range xs {
		m[x] = true
	}
	return m
}

func sortedSet(m map[string]bool) []string {
	out := []string{}
	for k, v := range m {
		if v {
			out = append(out, k)
		}
	}
	sort.Strings(out)
	return out
}

func diff(a, b map[string]bool) []string { // a \ b
	out := []string{}
	for k := range a {
		if !b[k] {
			out = append(out, k)
		}
	}
	sort.Strings(out)
	return out
}

// ------------------------------------------------------------------------------------------------
// generator

func pkgOf(i int) string { return []string{"p", "q"}[i] }

func generate(r *lib.Rng, mode int) gdesc {
	wf := mode != 1 // well-named

	npk := r.Range(1, 2)
	ruleNames := []string{"a", "b", "c", "d", "e", "f", "g", "h", "k", "m"}
	lib.Shuffle(r, ruleNames)
	nr := r.Range(2, 7)
	tags := []string{"t1", "t2", "go", "py"}
	type node struct {
		label string
		rule  int
	}
	blocks := [][]node{}
	for i := 0; i < nr; i++ {
		pk := pkgOf(r.Intn(npk))
		name := ruleNames[i]
		blk := []node{{label: "//" + pk + ":" + name, rule: i}}
		nch := 0
		if r.Chance(3, 5) {
			nch = r.Range(1, 3)
		}
		tg := append([]string{}, tags...)
		lib.Shuffle(r, tg)
		under := "_"
		if !wf && r.Chance(1, 6) {
			under = "__"
		}
		for c := 0; c < nch; c++ {
			blk = append(blk, node{label: "//" + pk + ":" + under + name + "#" + tg[c], rule: i})
		}
		if !wf && r.Chance(1, 4) {
			// a sub-target whose rule does not exist, a hidden name that is nobody's sub-target, a '#' without '_'
			switch r.Intn(3) {
			case 0:
				blk = append(blk, node{label: "//" + pk + ":_z" + name + "#t1", rule: -1})
			case 1:
				blk = append(blk, node{label: "//" + pk + ":_h" + name, rule: -1})
			case 2:
				blk = append(blk, node{label: "//" + pk + ":" + name + "#x", rule: -1})
			}
		}
		blocks = append(blocks, blk)
	}
	nodes := []node{}
	for _, blk := range blocks {
		nodes = append(nodes, blk...)
	}
	if (!wf && r.Chance(1, 2)) || mode == 2 {
		lib.Shuffle(r, nodes) // sub-targets before their rule, interleaved rules
	}
	pOther := r.Range(12, 35)
	d := gdesc{WF: mode == 0, RC: mode == 2}
	for i, n := range nodes {
		td := tdesc{Label: n.label}
		for j := i + 1; j < len(nodes); j++ {
			p := pOther
			if n.rule >= 0 && nodes[j].rule == n.rule {
				p = 65
			}
			if r.Intn(100) < p {
				td.Deps = append(td.Deps, nodes[j].label)
			}
		}
		if r.Chance(3, 10) {
			ls := append([]string{}, langs...)
			lib.Shuffle(r, ls)
			td.Req = ls[:r.Range(1, 2)]
		}
		if i+1 < len(nodes) && r.Chance(3, 10) {
			td.Prov = map[string][]string{}
			for k := r.Range(1, 2); k > 0; k-- {
				lang := lib.Pick(r, langs)
				n := r.Range(1, 2)
				if r.Chance(1, 8) {
					n = 0
				}
				ls := []string{}
				for ; n > 0; n-- {
					// prefer the rule's own sub-targets (the usual shape), else anything later
					j := r.Range(i+1, len(nodes)-1)
					for try := 0; try < 3 && nodes[j].rule != nodes[i].rule; try++ {
						j = r.Range(i+1, len(nodes)-1)
					}
					ls = append(ls, nodes[j].label)
				}
				td.Prov[lang] = ls
			}
		}
		d.Targets = append(d.Targets, td)
	}
	return d
}

func fixedGraphs() []gdesc {
	t := func(l string, deps ...string) tdesc { return tdesc{Label: "//q:" + l, Deps: prefix(deps)} }
	return []gdesc{
		// DESIGN.md witness: x is first met at depth 3 below a->m, so y (3 steps away through b) is never printed
		{WF: true, Targets: []tdesc{t("root", "a", "b"), t("a", "m"), t("m", "x"), t("b", "x"), t("x", "y"), t("y")}},
		// revdeps: the queue is not ordered by depth once a zero-cost edge is followed
		{WF: true, Targets: []tdesc{t("e", "d"), t("d", "a", "r"), t("a", "_r#t"), t("r", "_r#t"), t("_r#t", "y"), t("y")}},
		// hidden chain, require/provide
		{WF: true, Targets: []tdesc{
			{Label: "//q:top", Deps: []string{"//q:lib"}, Req: []string{"go"}},
			{Label: "//q:lib", Deps: []string{"//q:_lib#go", "//q:_lib#py"}, Prov: map[string][]string{"go": {"//q:_lib#go"}}},
			{Label: "//q:_lib#go", Deps: []string{"//q:base"}},
			{Label: "//q:_lib#py", Deps: []string{"//q:other"}},
			{Label: "//q:base"}, {Label: "//q:other"}}},
		// rules depending on each other cyclically through a sub-target (targets acyclic): x depends on r, r's own _r#b
		// depends on x.  `revdeps //q:r` reports x AND r itself (cost 2 through _r#b), at every level but 0 and 1.
		{RC: true, Targets: []tdesc{t("_r#b", "x"), t("x", "r"), t("r")}},
		// a sub-target depending on its own rule: deps pays a level for it (the rule is printed), revdeps does not
		{RC: true, Targets: []tdesc{t("top", "_r#b"), t("_r#b", "r"), t("r", "leaf"), t("leaf")}},
	}
}

func prefix(xs []string) []string {
	out := []string{}
	for _, x := range xs {
		out = append(out, "//q:"+x)
	}
	return out
}

// ------------------------------------------------------------------------------------------------

type qrec struct {
	Kind    string    `json:"kind"`
	From    []string  `json:"from,omitempty"`
	To      []string  `json:"to,omitempty"`
	Except  []string  `json:"except,omitempty"`
	Roots   []string  `json:"roots,omitempty"`
	Hidden  bool      `json:"hidden"`
	Level   int       `json:"level"`
	Path    []string  `json:"path,omitempty"`
	Printed []leveled `json:"printed,omitempty"`
	Set     []string  `json:"set,omitempty"`
	Unique  bool      `json:"unique,omitempty"`
}

type runner struct {
	c   *lib.Ctx
	b   *built
	ref *ref
	qs  []string
	js  []qrec
}

func (x *runner) input(q qrec) map[string]any {
	return map[string]any{"graph": x.b.d, "query": q}
}

func (x *runner) somepath(from, to, except []string, showHidden bool) {
	b, c, r := x.b, x.c, x.ref
	path := b.runSomePath(from, to, except, showHidden)
	q := qrec{Kind: "somepath", From: from, To: to, Except: except, Hidden: showHidden, Path: path}
	x.qs = append(x.qs, lib.App("QSome", b.idList(except), b.idList(from), b.idList(to), lib.Bool(showHidden), b.idList(path)))
	x.js = append(x.js, q)
	// oracle
	c.Oracle()
	ex := setOf(except)
	exists := false
	for _, a := range from {
		for _, z := range to {
			if r.connects(a, z, ex) || r.connects(z, a, ex) {
				exists = true
			}
		}
	}
	c.Hist("somepath", fmt.Sprintf("exists=%v", exists))
	if exists && len(path) == 0 {
		c.Fail("somepath-misses-existing-path", fmt.Sprintf("a dependency path between %v and %v exists but none is printed", from, to), x.input(q))
		return
	}
	if !exists && len(path) != 0 {
		c.Fail("somepath-prints-path-that-does-not-exist", fmt.Sprintf("no dependency path between %v and %v, printed %v", from, to, path), x.input(q))
		return
	}
	if len(path) == 0 {
		return
	}
	// every printed path is a real dependency chain between the two ends
	norm := func(l string) string {
		if showHidden {
			return l
		}
		return ruleOf(l)
	}
	okEnds := false
	for _, a := range from {
		for _, z := range to {
			for _, p := range [][2]string{{a, z}, {z, a}} {
				last := path[len(path)-1]
				if path[0] == norm(p[0]) && (last == norm(p[1]) || (showHidden && isSub(last) && ruleOf(last) == p[1])) {
					okEnds = true
				}
			}
		}
	}
	if !okEnds {
		c.Fail("somepath-wrong-endpoints", fmt.Sprintf("printed path %v does not join %v and %v", path, from, to), x.input(q))
	}
	for i := 0; i+1 < len(path); i++ {
		ok := false
		if showHidden {
			ok = r.hasEdge(path[i], path[i+1], ex)
		} else {
			// between rules: some target of the first rule depends on some target of the second
			for _, u := range r.order {
				for _, v := range r.edges(u, ex) {
					if ruleOf(u) == path[i] && ruleOf(v) == path[i+1] {
						ok = true
					}
				}
			}
		}
		if !ok {
			c.Fail("somepath-not-a-chain", fmt.Sprintf("printed path %v: %s does not depend on %s", path, path[i], path[i+1]), x.input(q))
		}
	}
}

func (x *runner) deps(roots []string, hidden bool, level int) {
	b, c, r := x.b, x.c, x.ref
	printed := b.runDeps(roots, hidden, level)
	q := qrec{Kind: "deps", Roots: roots, Hidden: hidden, Level: level, Printed: printed}
	items := []string{}
	got := map[string]bool{}
	for _, p := range printed {
		items = append(items, lib.Pair(lib.Z(int64(p.Level)), lib.N(uint64(b.ids[p.Label]))))
		got[p.Label] = true
	}
	x.qs = append(x.qs, lib.App("QDeps", b.idList(roots), lib.Bool(hidden), lib.Z(int64(level)), lib.List(items)))
	x.js = append(x.js, q)
	if !b.d.oracleOK() {
		return
	}
	c.Oracle()
	want := map[string]bool{}
	shadow := map[string]bool{} // nodes below a node that is reachable (from the roots) at two different depths
	minDist, maxLong := map[string]int{}, map[string]int{}
	for _, root := range roots {
		d := r.dist([]string{root}, hidden, false)
		long := r.longest([]string{root}, hidden, false)
		for n, dn := range d {
			if n != root && within(dn, level) && (hidden || !isSub(n)) {
				want[n] = true
			}
			if n == root || dn == inf {
				continue
			}
			if v, ok := minDist[n]; !ok || dn < v {
				minDist[n] = dn
			}
			if long[n] > maxLong[n] {
				maxLong[n] = long[n]
			}
		}
	}
	for n, dn := range minDist {
		if maxLong[n] > dn {
			for m := range r.reachable(n, nil) {
				if m != n {
					shadow[m] = true
				}
			}
		}
	}
	// the harness's own "no target is reachable from the roots at two different costs" (cheapest = dearest chain),
	// compared with the model's executable side condition unique_costb of the exactness theorem
	unique := true
	for n, dn := range minDist {
		if maxLong[n] != dn {
			unique = false
		}
	}
	if level == -1 {
		x.qs = append(x.qs, lib.App("QUniq", b.idList(roots), lib.Bool(hidden), lib.Bool(unique)))
		x.js = append(x.js, qrec{Kind: "unique_cost", Roots: roots, Hidden: hidden, Unique: unique})
		c.Hist("deps_unique_cost", fmt.Sprint(unique))
	}
	missing, extra := diff(want, got), diff(got, want)
	if len(missing) > 0 && unique {
		// proved impossible for the model (deps_exact_unique_cost): a miss here is a new defect, never the known finding
		c.Fail("deps-omits-target-although-costs-unique", fmt.Sprintf("deps %v --level %d omits %v although every target has one cost only", roots, level, missing), x.input(q))
		return
	}
	if len(extra) > 0 {
		c.Fail("deps-reports-target-beyond-level", fmt.Sprintf("deps %v --level %d prints %v which are not within %d steps", roots, level, extra, level), x.input(q))
	}
	if len(missing) > 0 {
		class := "deps-omits-target-within-level"
		all := level >= 1
		for _, m := range missing {
			all = all && shadow[m]
		}
		if all {
			// every omitted target sits below a node that can also be reached by a longer path: that node was
			// first met at the level limit (or deeper), marked done, and never expanded again
			class = "deps-level-cutoff-shadowed-by-deeper-first-visit"
		}
		c.Fail(class, fmt.Sprintf("deps %v --level %d omits %v although within %d steps", roots, level, missing, level), x.input(q))
	}
	c.Hist("deps_level", fmt.Sprint(level))
}

func (x *runner) revdeps(roots []string, hidden bool, level int) {
	b, c, r := x.b, x.c, x.ref
	printed := b.runRevdeps(roots, hidden, level)
	q := qrec{Kind: "revdeps", Roots: roots, Hidden: hidden, Level: level, Set: printed}
	for i := 0; i < 2; i++ { // children are enumerated in Go map order: the output must not depend on it
		again := b.runRevdeps(roots, hidden, level)
		c.Oracle()
		if strings.Join(again, " ") != strings.Join(printed, " ") {
			c.Fail("revdeps-output-depends-on-map-order", fmt.Sprintf("two runs of revdeps %v --level %d print %v and %v", roots, level, printed, again), x.input(q))
		}
	}
	x.qs = append(x.qs, lib.App("QRev", b.idList(roots), lib.Bool(hidden), lib.Z(int64(level)), b.idList(printed)))
	x.js = append(x.js, q)
	if !b.d.oracleOK() {
		return
	}
	c.Oracle()
	// per root: the targets with a dependency chain of cost 1..level to the root (or to one of its own sub-targets)
	want := map[string]bool{}
	multi := false
	minDist, maxLong := map[string]int{}, map[string]int{}
	for _, root := range roots {
		starts := []string{root}
		if !hidden && !isSub(root) {
			for _, n := range r.order {
				if isSub(n) && ruleOf(n) == root {
					starts = append(starts, n)
				}
			}
		}
		d := r.dist(starts, hidden, true)
		long := r.longest(starts, hidden, true)
		// SOME dependency chain of cost 1..level (not the cheapest one: when rules depend on each other cyclically
		// through their sub-targets, a start - cheapest cost 0 - also has chains of positive cost, and its rule is a
		// reverse dependency of itself)
		for n, set := range r.costSets(starts, hidden, true) {
			for cst := range set {
				if cst >= 1 && within(cst, level) {
					if hidden {
						want[n] = true
					} else {
						want[ruleOf(n)] = true
					}
				}
			}
		}
		for n, dn := range d {
			if dn == inf {
				continue
			}
			if v, ok := minDist[n]; !ok || dn < v {
				minDist[n] = dn
			}
			if long[n] > maxLong[n] {
				maxLong[n] = long[n]
			}
		}
	}
	for n, dn := range minDist {
		if maxLong[n] > dn { // some target can be reached by dependency chains of different cost
			multi = true
		}
	}
	got := setOf(printed)
	missing, extra := diff(want, got), diff(got, want)
	if len(extra) > 0 {
		c.Fail("revdeps-reports-target-beyond-level", fmt.Sprintf("revdeps %v --level %d prints %v which are not within %d steps", roots, level, extra, level), x.input(q))
	}
	if len(missing) > 0 {
		class := "revdeps-omits-target-within-level"
		if hidden {
			class = "revdeps-hidden-omits-target-within-level" // proved impossible for the model (revdeps_hidden_exact)
		} else if level == -1 {
			class = "revdeps-unlimited-omits-reverse-dependency" // proved impossible for the model (revdeps_unlimited_exact)
		}
		if level >= 1 && !hidden && multi {
			class = "revdeps-fifo-depth-shadowed-by-zero-cost-edge"
		}
		c.Fail(class, fmt.Sprintf("revdeps %v --level %d omits %v although within %d steps", roots, level, missing, level), x.input(q))
	}
	c.Hist("revdeps_level", fmt.Sprint(level))
}

func (x *runner) flush(key string, nontrivial bool) {
	x.c.Case(lib.App("Case", x.b.coq, lib.List(x.qs)), map[string]any{"graph": x.b.d, "queries": x.js}, key, nontrivial)
}

func runGraph(c *lib.Ctx, r *lib.Rng, d gdesc, key string) {
	b := build(d)
	x := &runner{c: c, b: b, ref: newRef(d)}
	names := x.ref.order
	pick := func() string { return lib.Pick(r, names) }
	// somepath
	for i := 0; i < 5; i++ {
		var except []string
		if r.Chance(1, 4) {
			except = []string{pick()}
		}
		x.somepath([]string{pick()}, []string{pick()}, except, r.Chance(1, 2))
	}
	x.somepath([]string{pick(), pick()}, []string{pick(), pick()}, nil, r.Chance(1, 2))
	// deps: from the first targets in topological order (they see most of the graph) and a random one
	for _, roots := range [][]string{{names[0]}, {pick()}, {pick(), names[r.Intn(min(2, len(names)))]}} {
		hidden := r.Chance(1, 4)
		for level := -1; level <= 5; level++ {
			x.deps(roots, hidden, level)
		}
	}
	// revdeps: towards the last targets and a random one
	for _, roots := range [][]string{{names[len(names)-1]}, {pick()}, {pick(), names[len(names)-1-r.Intn(min(2, len(names)))]}} {
		hidden := r.Chance(1, 4)
		for level := -1; level <= 5; level++ {
			x.revdeps(roots, hidden, level)
		}
	}
	// non-trivial: some target can be reached from the first root by paths of different cost
	nontrivial := false
	dd, ll := x.ref.dist([]string{names[0]}, false, false), x.ref.longest([]string{names[0]}, false, false)
	for n, v := range dd {
		if v != inf && ll[n] > v {
			nontrivial = true
		}
	}
	c.HistN("targets", len(names))
	c.Hist("wf", fmt.Sprint(d.WF))
	c.Hist("rule_order_arbitrary", fmt.Sprint(d.RC))
	c.Hist("multi_depth_node", fmt.Sprint(nontrivial))
	x.flush(key, nontrivial)
}

func main() {
	gologging.SetLevel(gologging.CRITICAL, "plz")
	lib.Main("C23", func(c *lib.Ctx) {
		c.Model("From PlzV Require Import Model.C23.", "C23.case", "C23.check")
		c.Rule("random acyclic graphs of 2-7 rules in 1-2 packages, each rule with 0-3 hidden `_x#tag` sub-targets, require/provide " +
			"(incl. empty provides), denser edges inside a rule; half well-formed (rule blocks contiguous, every sub-target's rule exists: " +
			"oracle + correspondence), a quarter adversarial names (`__x#t`, `_zx#t1` without a rule, `_hx`, `x#x`, interleaved rules: correspondence only), " +
			"a quarter well-named but in arbitrary order (a sub-target may depend on its own rule, rules may depend on each other cyclically through sub-targets: oracle + correspondence); " +
			"plus fixed witnesses. Per graph: 6 somepath queries (random ends, except, showHidden, one with two from/to labels), " +
			"deps and revdeps from 3 root sets x levels -1..5 x hidden, and per deps root set the harness's own unique-cost test against the model's unique_costb. distinct = distinct graph; non-trivial = some target is reachable from the first root by paths of different cost")
		var replay struct {
			Graph gdesc `json:"graph"`
			Query qrec  `json:"query"`
		}
		if c.ReadReplay(&replay) && len(replay.Graph.Targets) > 0 {
			runGraph(c, c.Rng.Fork(), replay.Graph, "replay")
			return
		}
		for i, d := range fixedGraphs() {
			runGraph(c, c.Rng.Fork(), d, fmt.Sprint("fixed", i))
		}
		n := c.Scale(150, 3000)
		for i := 0; i < n; i++ {
			r := c.Rng.Fork()
			d := generate(r, []int{0, 0, 1, 2}[i%4])
			runGraph(c, r, d, fmt.Sprint("g", i))
		}
	})
}
