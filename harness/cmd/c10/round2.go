// C10 round-2 follow-up streams.
//
//   - triStateStream (in-process): every target-level pass_env variable in its THREE states - not set, set but empty,
//     set to a value - under the real core.BuildEnvironment and build.RuleHash. Oracle: callers the rule hash does not
//     tell apart must get the same build environment (env = f(what is hashed)); a value must change the hash.
//   - headerStream (in-process, hook build.VerifC10Headers = setHeaders): remote_file targets whose declared header
//     values refer to listed, unlisted and build variables. Oracle: two callers that differ only in unlisted variables
//     send the same headers, and no unlisted value is ever sent.
//   - endToEndR2: the real plz on repositories with `[build] xattrs = false` (hashes in .rule_hash_ side files) or the
//     default, with a genrule that dumps its environment and FAILS when T_A = "bad", a dependant of it, and remote_file
//     targets fetching from a local HTTP server that echoes the request headers. Histories: tri-state moves
//     (unset <-> empty <-> value), good -> bad -> good, unlisted changes, and clean rebuilds compared byte for byte with
//     the incremental state. Oracle: expected re-runs from the hash-visible view, outputs present after success,
//     incremental == clean, no unlisted token in any output.
//
// All three feed the Coq model (CBuildEnv / CRuleHashEq / CHeader / CHistory).
package main

import (
	"bytes"
	"fmt"
	"net/http"
	"net/http/httptest"
	"os"
	"path/filepath"
	"runtime"
	"sort"
	"strings"
	"sync"
	"time"

	"verifharness/e2e"
	"verifharness/lib"

	"github.com/thought-machine/please/src/build"
	"github.com/thought-machine/please/src/cli"
	"github.com/thought-machine/please/src/core"
)

// ------------------------------------------------------------------------------------------- in-process: tri-state

func triStateStream(c *lib.Ctx) {
	n := c.Scale(40, 1200)
	for i := 0; i < n; i++ {
		r := c.Rng.Fork()
		cs, ts, cl := genCfg(r), genTgt(r), genCaller(r)
		ts.Env = nil // the env dict's cross references have their own (known) class
		if !ts.HasPass || len(ts.PassEnv) == 0 {
			ts.HasPass, ts.PassEnv = true, append(subset(r, varPool, 2), lib.Pick(r, []string{"VA", "VB", "VC", "V_D", "lower_v", "XSECRET"}))
		}
		// a target-level pass_env variable that no configuration-level list mentions (those use os.LookupEnv by design)
		cands := []string{}
		for _, v := range ts.PassEnv {
			if !contains(cs.PassEnv, v) && !contains(cs.PassUnsafe, v) && !contains(cands, v) {
				cands = append(cands, v)
			}
		}
		if len(cands) == 0 {
			continue
		}
		v := lib.Pick(r, cands)
		cU, cE, cV := cl.clone(), cl.clone(), cl.clone()
		delete(cU, v)
		cE[v] = ""
		cV[v] = lib.Pick(r, []string{"x", "tri" + fmt.Sprint(i), "v w", "a=b", "~"})
		oU, oE, oV := observe(cs, ts, cU, 2), observe(cs, ts, cE, 2), observe(cs, ts, cV, 2)
		js := map[string]any{"cfg": cs, "target": ts, "variable": v, "caller_unset": cU, "caller_empty": cE, "caller_value": cV}
		c.Hist("tri_state_var", map[bool]string{true: "also-unsafe", false: "pass-env-only"}[contains(ts.PassUnsafe, v)])

		// env = f(what is hashed): the same rule and config hash must mean the same environment
		c.Oracle()
		sameHash := bytes.Equal(oU.RuleHash, oE.RuleHash) && bytes.Equal(oU.CfgHash, oE.CfgHash)
		if sameHash && !sameMap(oU.BuildEnvs[0], oE.BuildEnvs[0]) {
			c.Fail("pass-env-unset-vs-empty-visible-not-hashed", fmt.Sprintf("target pass_env variable %s: NOT SET and SET-BUT-EMPTY give the same rule hash but different build environments: %v vs %v",
				v, diffMaps(oU.BuildEnvs[0], oE.BuildEnvs[0]), diffMaps(oE.BuildEnvs[0], oU.BuildEnvs[0])), js)
		}
		c.Oracle()
		if bytes.Equal(oV.RuleHash, oE.RuleHash) || bytes.Equal(oV.RuleHash, oU.RuleHash) {
			c.Fail("pass-env-change-not-hashed", fmt.Sprintf("target pass_env variable %s: value %q hashes like the empty / unset state", v, cV[v]), js)
		}
		c.Oracle()
		if got, ok := oV.BuildEnvs[0][v]; !ok || got != cV[v] {
			if v != "HOME" && v != "TMP_DIR" { // BuildEnvironment sets these itself, after the pass loops
				c.Fail("listed-variable-not-passed", fmt.Sprintf("target pass_env variable %s=%q is not in the build environment (got %q, present %v)", v, cV[v], got, ok), js)
			}
		}
		emitBuildEnv(c, cs, ts, cU, oU, true)
		emitBuildEnv(c, cs, ts, cE, oE, true)
		emitBuildEnv(c, cs, ts, cV, oV, true)
		emitHashEq(c, cs, ts, cU, cE, oU, oE)
		emitHashEq(c, cs, ts, cE, cV, oE, oV)
	}
}

// ------------------------------------------------------------------------------------------- in-process: remote_file headers

var headerRawPool = []string{"$VA", "${VB}-x", "tok $LEAK1", "$NAME/$PKG", "t=$TMP_DIR", "${UNDEF}", "$$", "plain", "$HOME", "Bearer ${LEAK_B}", "$USER:$VC",
	"${VA}${LEAK1}", "$PATH", "$V_D$", "a:$lower_v:b", "${}", "$LEAK_NEW", "$OUT", "$SRCS|$OUTS", "$EDITOR-$VA-$TERM", "${SECRET_K}", "$PLZ_X", "$XDG_CONFIG_HOME"}

func observeHeaders(cs cfgSpec, ts tgtSpec, cl caller, raws []string) (obs, []string, error) {
	setProcessEnv(cl)
	cfg, mc := loadConfig(cs)
	state.Config = cfg
	state.Arch = cli.Arch{OS: cs.OS, Arch: cs.Arch}
	t, mt := makeTarget(ts)
	t.IsRemoteFile = true
	for i, raw := range raws {
		t.AddLabel(fmt.Sprintf("remote_file:header:X-C10-H%d:%s", i, raw))
	}
	env := core.BuildEnvironment(state, t, tmpDir)
	hdr, err := build.VerifC10Headers(t, env, "http://127.0.0.1:9/c10")
	if err != nil {
		return obs{}, nil, err
	}
	vals := make([]string, len(raws))
	for i := range raws {
		vals[i] = hdr.Get(fmt.Sprintf("X-C10-H%d", i))
	}
	return obs{Cfg: mc, Tgt: mt, BuildEnvs: []map[string]string{env}}, vals, nil
}

func headerStream(c *lib.Ctx) {
	n := c.Scale(40, 1200)
	for i := 0; i < n; i++ {
		r := c.Rng.Fork()
		cs, ts, cl := genCfg(r), genTgt(r), genCaller(r)
		ts.Env = nil
		allowed := listed(cs, ts)
		// every unlisted variable carries a unique token
		tokens := map[string]string{}
		for _, v := range append(append([]string{}, varPool...), extraPool...) {
			if !allowed[v] && (r.Chance(2, 3) || v == "LEAK1" || v == "LEAK_B") {
				tokens[v] = fmt.Sprintf("hleak%dq%d", i, len(tokens))
				cl[v] = tokens[v]
			}
		}
		c2 := cl.clone()
		for _, v := range lib.SortedKeys(tokens) {
			if r.Chance(1, 4) {
				delete(c2, v)
			} else {
				c2[v] = "other-" + tokens[v][1:]
			}
		}
		c2["LEAK_NEW"] = fmt.Sprintf("hnew%d", i)
		raws := []string{}
		for k := r.Range(2, 4); k > 0; k-- {
			raws = append(raws, lib.Pick(r, headerRawPool))
		}
		o1, h1, err1 := observeHeaders(cs, ts, cl, raws)
		o2, h2, err2 := observeHeaders(cs, ts, c2, raws)
		js := map[string]any{"cfg": cs, "target": ts, "headers": raws, "caller": cl, "caller2": c2, "sent": h1, "sent2": h2}
		c.Oracle()
		if err1 != nil || err2 != nil {
			c.Fail("remote-file-headers-error", fmt.Sprintf("setHeaders failed: %v / %v", err1, err2), js)
			continue
		}
		c.HistN("header_count", len(raws))
		for k, raw := range raws {
			c.Oracle()
			if h1[k] != h2[k] {
				c.Fail("unlisted-caller-variable-visible-in-remote-file-header", fmt.Sprintf("remote_file header declared as %q: callers that differ only in UNLISTED variables send %q vs %q", raw, h1[k], h2[k]), js)
			}
			for v, tok := range tokens {
				if strings.Contains(h1[k], tok) {
					c.Fail("unlisted-caller-variable-visible-in-remote-file-header", fmt.Sprintf("remote_file header declared as %q is sent as %q, which carries the value of the caller's %s (listed in no pass_env)", raw, h1[k], v), js)
				}
			}
			// a listed target-level variable is what the caller has
			c.Case(lib.App("CHeader", o1.Cfg.coq(), o1.Tgt.coq(), lib.Str(tmpDir), coqEnv(cl), lib.Str(raw), lib.Str(h1[k])),
				map[string]any{"kind": "remote-file-header", "cfg": cs, "target": ts, "caller": cl, "declared": raw, "sent": h1[k]}, fmt.Sprint("hdr", cs, ts, cl, raw), strings.Contains(raw, "$"))
			if h1[k] != h2[k] {
				c.Case(lib.App("CHeader", o2.Cfg.coq(), o2.Tgt.coq(), lib.Str(tmpDir), coqEnv(c2), lib.Str(raw), lib.Str(h2[k])),
					map[string]any{"kind": "remote-file-header", "cfg": cs, "target": ts, "caller": c2, "declared": raw, "sent": h2[k]}, fmt.Sprint("hdr", cs, ts, c2, raw), true)
			}
		}
	}
}

// ------------------------------------------------------------------------------------------- end to end

// the local server: answers every GET with the three headers it received; counts hits per path
type r2Hit struct {
	Count int
	Last  map[string]string
}

type r2ServerT struct {
	sync.Mutex
	hits map[string]*r2Hit
	srv  *httptest.Server
}

var r2HeaderNames = []string{"X-C10-Listed", "X-C10-Unlisted", "X-C10-Mixed"}

func newR2Server() *r2ServerT {
	s := &r2ServerT{hits: map[string]*r2Hit{}}
	s.srv = httptest.NewServer(http.HandlerFunc(func(w http.ResponseWriter, req *http.Request) {
		last := map[string]string{}
		var b strings.Builder
		for _, h := range r2HeaderNames {
			last[h] = req.Header.Get(h)
			fmt.Fprintf(&b, "%s=[%s]\n", h, req.Header.Get(h))
		}
		s.Lock()
		hit := s.hits[req.URL.Path]
		if hit == nil {
			hit = &r2Hit{}
			s.hits[req.URL.Path] = hit
		}
		hit.Count++
		hit.Last = last
		s.Unlock()
		w.Header().Set("Content-Length", fmt.Sprint(b.Len()))
		w.WriteHeader(200)
		w.Write([]byte(b.String()))
	}))
	return s
}

func (s *r2ServerT) get(path string) (int, map[string]string) {
	s.Lock()
	defer s.Unlock()
	if h := s.hits[path]; h != nil {
		return h.Count, h.Last
	}
	return 0, nil
}

type r2Remote struct {
	Name    string            `json:"name"`
	PassEnv []string          `json:"pass_env,omitempty"`
	Headers map[string]string `json:"headers"`
	Path    string            `json:"url_path"`
}

type r2Spec struct {
	Xattrs     bool        `json:"xattrs"`
	CfgPassEnv []string    `json:"cfg_pass_env,omitempty"`
	GenPassEnv []string    `json:"g0_pass_env"`
	FailVar    string      `json:"g0_fails_when"`
	FailVal    string      `json:"g0_fails_on_value"`
	Remotes    []*r2Remote `json:"remote_files"`
}

type r2StepObs struct {
	Kind    string            `json:"kind"`
	Clean   bool              `json:"rm_plz_out_before"`
	Caller  map[string]string `json:"caller"`
	Exit    int               `json:"exit"`
	Ran     map[string]bool   `json:"ran"`
	Present map[string]bool   `json:"present"`
	Out     map[string]string `json:"-"`
	Stderr  string            `json:"stderr,omitempty"`
}

type r2History struct {
	Spec  *r2Spec
	Steps []r2StepObs
	Fails []lib.Failing
	Cases []e2eCase
	Orcl  int
}

func r2Write(repo *e2e.Repo, spec *r2Spec, base string) {
	var cfg strings.Builder
	cfg.WriteString("[build]\npath = /usr/local/bin:/usr/bin:/bin\n")
	if !spec.Xattrs {
		cfg.WriteString("xattrs = false\n")
	}
	for _, v := range spec.CfgPassEnv {
		cfg.WriteString("passenv = " + v + "\n")
	}
	cfg.WriteString("[cache]\ndir =\n[display]\nupdatetitle = false\n")
	var b strings.Builder
	fmt.Fprintf(&b, "genrule(\n    name = 'g0',\n    outs = ['g0.env'],\n    cmd = 'echo //p:g0 >> %s && [ \"${%s-}\" != \"%s\" ] && env | sort > $OUT',\n    pass_env = %s,\n)\n\n",
		repo.LogPath, spec.FailVar, spec.FailVal, pyList(spec.GenPassEnv))
	fmt.Fprintf(&b, "genrule(\n    name = 'u0',\n    srcs = [':g0'],\n    outs = ['u0.txt'],\n    cmd = 'echo //p:u0 >> %s && cp $SRCS $OUT',\n)\n\n", repo.LogPath)
	for _, rf := range spec.Remotes {
		hs := []string{}
		for _, k := range lib.SortedKeys(rf.Headers) {
			hs = append(hs, fmt.Sprintf("'%s': '%s'", k, rf.Headers[k]))
		}
		fmt.Fprintf(&b, "remote_file(\n    name = '%s',\n    url = '%s%s',\n    out = '%s.txt',\n    headers = {%s},\n", rf.Name, base, rf.Path, rf.Name, strings.Join(hs, ", "))
		if len(rf.PassEnv) > 0 {
			fmt.Fprintf(&b, "    pass_env = %s,\n", pyList(rf.PassEnv))
		}
		b.WriteString(")\n\n")
	}
	must(os.MkdirAll(filepath.Join(repo.Dir, "p"), 0o755))
	must(os.WriteFile(filepath.Join(repo.Dir, ".plzconfig"), []byte(cfg.String()), 0o644))
	must(os.WriteFile(filepath.Join(repo.Dir, "p", "BUILD"), []byte(b.String()), 0o644))
}

func pyList(xs []string) string {
	q := make([]string, len(xs))
	for i, x := range xs {
		q[i] = "'" + x + "'"
	}
	return "[" + strings.Join(q, ", ") + "]"
}

func runR2(r *lib.Rng, srv *r2ServerT, base string, idx int, extra int, plzDir string) *r2History {
	h := &r2History{}
	spec := &r2Spec{Xattrs: idx%3 == 0, GenPassEnv: []string{"T_A", "T_B"}, FailVar: "T_A", FailVal: "bad"}
	if r.Chance(1, 2) {
		spec.CfgPassEnv = []string{"CFG_A"}
	}
	spec.Remotes = []*r2Remote{
		{Name: "rf0", PassEnv: []string{"T_A", "T_B"}, Path: fmt.Sprintf("/h%d/rf0", idx),
			Headers: map[string]string{"X-C10-Listed": "$T_A", "X-C10-Unlisted": "tok-${LEAK_1}", "X-C10-Mixed": "m-${T_B}-$LEAK_2-$NAME/$PKG"}},
		{Name: "rf1", Path: fmt.Sprintf("/h%d/rf1", idx),
			Headers: map[string]string{"X-C10-Unlisted": "u-$T_A-$LEAK_1", "X-C10-Mixed": "$USER$NAME"}},
	}
	h.Spec = spec
	repo := e2e.NewRepo(base, "repo")
	repo.Threads = 2
	r2Write(repo, spec, srv.srv.URL)

	tok := 0
	owner := map[string]string{}
	fresh := func(v string) string {
		tok++
		t := fmt.Sprintf("rv%dh%dx", tok, idx)
		owner[t] = v
		return "val-" + t
	}
	cl := map[string]string{"PATH": "/usr/local/bin:/usr/bin:/bin", "GOMAXPROCS": "2", "HOME": "/nonexistent-verif-home"}
	cl["T_A"] = fresh("T_A")
	if r.Bool() {
		cl["T_B"] = ""
	}
	for _, v := range []string{"LEAK_1", "LEAK_2", "USER", "CFG_A"} {
		cl[v] = fresh(v)
	}
	triMove := func(v string) {
		old, set := cl[v]
		states := []string{"unset", "empty", "value"}
		for {
			switch lib.Pick(r, states) {
			case "unset":
				if set {
					delete(cl, v)
					return
				}
			case "empty":
				if !set || old != "" {
					cl[v] = ""
					return
				}
			case "value":
				cl[v] = fresh(v)
				return
			}
		}
	}
	kinds := []string{"initial"}
	blockA := []string{"tri-unset-empty", "clean"}
	blockB := []string{"bad", "recover"}
	if r.Bool() {
		kinds = append(append(kinds, blockA...), blockB...)
	} else {
		kinds = append(append(kinds, blockB...), blockA...)
	}
	kinds = append(kinds, "unlisted", "tri", "clean")
	for i := 0; i < extra; i++ {
		kinds = append(kinds, lib.Pick(r, []string{"tri", "unlisted", "tri-unset-empty", "clean", "bad+recover"}))
	}
	expanded := []string{}
	for _, k := range kinds {
		if k == "bad+recover" {
			expanded = append(expanded, "bad", "recover")
		} else {
			expanded = append(expanded, k)
		}
	}

	labels := []string{"//p:g0", "//p:u0", "//p:rf0", "//p:rf1"}
	listedBy := map[string][]string{"g0": append(append([]string{}, spec.GenPassEnv...), spec.CfgPassEnv...), "u0": spec.CfgPassEnv,
		"rf0": append(append([]string{}, spec.Remotes[0].PassEnv...), spec.CfgPassEnv...), "rf1": spec.CfgPassEnv}
	view := func(name string) string { // what the hashes of the target can see of the caller
		parts := []string{}
		for _, v := range listedBy[name] {
			if contains(spec.CfgPassEnv, v) {
				val, set := cl[v]
				parts = append(parts, fmt.Sprintf("%s:%v:%s", v, set, val)) // os.LookupEnv
			} else {
				parts = append(parts, v+"="+cl[v]) // os.Getenv: unset == empty
			}
		}
		return strings.Join(parts, "\x00")
	}
	built := map[string]*string{} // target -> view under which its outputs on disk were produced (nil: no outputs)
	var savedGood string
	prevOut := map[string]string{}
	hitsBefore := map[string]int{}
	type modelStep struct {
		clean  bool
		caller map[string]string
	}
	mhist := []modelStep{}
	obsOf := map[string][][3]bool{}

	for si, kind := range expanded {
		clean := false
		switch kind {
		case "tri-unset-empty":
			if _, set := cl["T_B"]; set && cl["T_B"] == "" {
				delete(cl, "T_B")
			} else if !set {
				cl["T_B"] = ""
			} else {
				delete(cl, "T_B") // value -> unset: a visible change
			}
		case "tri":
			triMove(lib.Pick(r, []string{"T_A", "T_B", "T_B"}))
		case "unlisted":
			for _, v := range []string{"LEAK_1", "LEAK_2", "USER"} {
				if r.Chance(2, 3) {
					cl[v] = fresh(v)
				}
			}
			cl[fmt.Sprintf("NEWVAR_%d", si)] = fresh("NEWVAR")
		case "bad":
			savedGood = cl["T_A"]
			if _, set := cl["T_A"]; !set {
				savedGood = "\x00unset"
			}
			cl["T_A"] = spec.FailVal
		case "recover":
			if savedGood == "\x00unset" {
				delete(cl, "T_A")
			} else {
				cl["T_A"] = savedGood
			}
		case "clean":
			clean = true
			repo.RemovePlzOut()
			for k := range built {
				built[k] = nil
			}
		}
		for _, rf := range spec.Remotes {
			hitsBefore[rf.Name], _ = srv.get(rf.Path)
		}
		env := []string{}
		for k, v := range cl {
			env = append(env, k+"="+v)
		}
		sort.Strings(env)
		repo.Env = env
		res := repo.Run(120*time.Second, append([]string{"build", "--keep_going"}, labels...)...)
		st := r2StepObs{Kind: kind, Clean: clean, Caller: copyMap(cl), Exit: res.Exit, Ran: map[string]bool{}, Present: map[string]bool{}, Out: map[string]string{}}
		for _, l := range res.Executed {
			st.Ran[strings.TrimPrefix(l, "//p:")] = true
		}
		hdrs := map[string]map[string]string{}
		for _, rf := range spec.Remotes {
			n, last := srv.get(rf.Path)
			st.Ran[rf.Name] = n > hitsBefore[rf.Name]
			hdrs[rf.Name] = last
		}
		for name, file := range map[string]string{"g0": "g0.env", "u0": "u0.txt", "rf0": "rf0.txt", "rf1": "rf1.txt"} {
			data, err := os.ReadFile(filepath.Join(repo.Dir, "plz-out", "gen", "p", file))
			st.Present[name] = err == nil
			st.Out[name] = string(data)
		}
		if res.Exit != 0 {
			st.Stderr = res.Stderr + res.Stdout
			if len(st.Stderr) > 1200 {
				st.Stderr = st.Stderr[len(st.Stderr)-1200:]
			}
		}
		h.Steps = append(h.Steps, st)
		mhist = append(mhist, modelStep{clean: clean, caller: copyMap(cl)})
		js := map[string]any{"stream": "round2-e2e", "history": idx, "step": si, "kind": kind, "spec": spec, "caller": st.Caller, "exit": st.Exit, "ran": st.Ran, "present": st.Present,
			"kinds_so_far": expanded[:si+1], "stderr": st.Stderr}
		fail := func(class, what string) {
			h.Fails = append(h.Fails, lib.Failing{Class: class, What: what, Input: js})
		}
		g0Fails := cl[spec.FailVar] == spec.FailVal
		h.Orcl++
		if g0Fails && res.Exit == 0 {
			fail("failing-action-not-reported", "T_A=bad makes //p:g0's command fail but plz build exits 0")
		}
		if !g0Fails && res.Exit != 0 {
			fail("build-fails", fmt.Sprintf("step %q: no action fails under this environment but plz build exits %d: %s", kind, res.Exit, st.Stderr))
		}
		// expected re-runs, from the hash-visible view of each target
		for _, name := range []string{"g0", "rf0", "rf1"} {
			h.Orcl++
			vw := view(name)
			expect := built[name] == nil || *built[name] != vw
			switch {
			case expect && !st.Ran[name]:
				cls := "no-rebuild-on-pass-env-change"
				if built[name] == nil {
					cls = "no-rebuild-although-outputs-missing"
					if kind == "recover" {
						cls = "no-rebuild-after-failed-build"
					}
				}
				fail(cls, fmt.Sprintf("step %q: //p:%s must be (re-)run - its outputs on disk are %s - but its action did not run",
					kind, name, map[bool]string{true: "missing (removed after the failed build / clean)", false: "those of a different value of a pass_env variable"}[built[name] == nil]))
			case !expect && st.Ran[name]:
				fail("rebuild-on-unlisted-change", fmt.Sprintf("step %q: nothing //p:%s hashes changed and its outputs exist, but its action ran again", kind, name))
			}
			failsNow := name == "g0" && g0Fails
			if st.Ran[name] && !failsNow {
				built[name] = &vw
			} else if st.Ran[name] && failsNow {
				built[name] = nil // Build() removes the outputs of a failed target
			}
			ok := !failsNow
			obsOf[name] = append(obsOf[name], [3]bool{st.Ran[name], ok && (name != "g0" || res.Exit == 0), st.Present[name]})
		}
		// outputs after a successful invocation
		if !g0Fails && res.Exit == 0 {
			for _, name := range []string{"g0", "u0", "rf0", "rf1"} {
				h.Orcl++
				if !st.Present[name] {
					fail("output-missing-after-successful-build", fmt.Sprintf("step %q: plz build exits 0 but //p:%s has no output in plz-out/gen", kind, name))
				}
			}
			h.Orcl++
			if st.Present["g0"] && st.Present["u0"] && st.Out["g0"] != st.Out["u0"] {
				fail("dependant-stale", "//p:u0 copies //p:g0's output but differs from it after a successful build")
			}
		}
		if g0Fails {
			h.Orcl++
			if st.Present["g0"] {
				// not a property violation by itself, but the model says Build() removes them
				fail("failed-target-keeps-outputs", "//p:g0 failed but its previous output is still in plz-out/gen")
			}
		}
		// nothing of an unlisted caller variable reaches an output
		for _, name := range []string{"g0", "rf0", "rf1"} {
			h.Orcl++
			for t, own := range owner {
				if strings.Contains(st.Out[name], t) && !contains(listedBy[name], own) {
					fail("unlisted-caller-variable-visible", fmt.Sprintf("the output of //p:%s contains %q, the value of the caller's %s, which it lists in no pass_env", name, t, own))
				}
			}
		}
		// listed and set variables are visible when the action ran
		if st.Ran["g0"] && !g0Fails && st.Present["g0"] {
			d := repo.C10ReadDump("g0")
			h.Orcl++
			for _, v := range listedBy["g0"] {
				if want, set := cl[v]; set && d.Vars[v] != want {
					fail("listed-variable-not-passed", fmt.Sprintf("//p:g0 lists %s (caller value %q) but its command saw %q", v, want, d.Vars[v]))
				}
			}
			h.Cases = append(h.Cases, r2EnvCase(spec, st, d, plzDir, idx, si))
		}
		for _, rf := range spec.Remotes {
			if st.Ran[rf.Name] && hdrs[rf.Name] != nil {
				for _, hn := range lib.SortedKeys(rf.Headers) {
					h.Cases = append(h.Cases, r2HeaderCase(spec, rf, repo, srv.srv.URL, st, rf.Headers[hn], hdrs[rf.Name][hn], plzDir, idx, si))
				}
			}
		}
		// a clean rebuild under the same caller must reproduce the incremental state byte for byte
		if clean && si > 0 && !g0Fails {
			for _, name := range []string{"g0", "u0", "rf0", "rf1"} {
				h.Orcl++
				if r2Norm(prevOut[name]) != r2Norm(st.Out[name]) {
					cls := "incremental-differs-from-clean"
					fail(cls, fmt.Sprintf("//p:%s: the incremental output before `rm -rf plz-out` differs from the clean rebuild under the same caller (after steps %v): %s",
						name, expanded[:si], r2Diff(prevOut[name], st.Out[name])))
				}
			}
		}
		prevOut = st.Out
		if res.Exit != 0 && !g0Fails {
			break
		}
	}
	// the histories, for the model
	mc := r2ModelCfg(spec, plzDir)
	for _, name := range []string{"g0", "rf0", "rf1"} {
		mt := r2ModelTgt(spec, name, srv.srv.URL)
		stepsCoq := []string{}
		for _, ms := range mhist[:len(obsOf[name])] {
			if ms.clean {
				stepsCoq = append(stepsCoq, "None")
			}
			stepsCoq = append(stepsCoq, lib.Some(coqEnv(ms.caller)))
		}
		obsCoq := []string{}
		for _, o := range obsOf[name] {
			obsCoq = append(obsCoq, lib.Pair(lib.Pair(lib.Bool(o[0]), lib.Bool(o[1])), lib.Bool(o[2])))
		}
		failOn := "None"
		if name == "g0" {
			failOn = lib.Some(lib.Pair(lib.Str(spec.FailVar), lib.Str(spec.FailVal)))
		}
		h.Cases = append(h.Cases, e2eCase{
			coq: lib.App("CHistory", lib.Bool(spec.Xattrs), failOn, mc.coq(), mt.coq(), lib.List(stepsCoq), lib.List(obsCoq)),
			js:  map[string]any{"kind": "e2e-history", "history": idx, "target": name, "spec": spec, "steps": h.Steps, "observed_ran_ok_present": obsOf[name]},
			key: fmt.Sprint("r2hist", idx, name)})
	}
	return h
}

func r2Norm(out string) string {
	lines := []string{}
	for _, l := range strings.Split(out, "\n") {
		if i := strings.IndexByte(l, '='); i > 0 && shellVars[l[:i]] {
			continue
		}
		lines = append(lines, l)
	}
	return strings.Join(lines, "\n")
}

func r2Diff(a, b string) string {
	la, lb := map[string]bool{}, map[string]bool{}
	for _, l := range strings.Split(r2Norm(a), "\n") {
		la[l] = true
	}
	for _, l := range strings.Split(r2Norm(b), "\n") {
		lb[l] = true
	}
	only := func(x, y map[string]bool) []string {
		out := []string{}
		for l := range x {
			if !y[l] {
				out = append(out, l)
			}
		}
		sort.Strings(out)
		return out
	}
	return fmt.Sprintf("only incremental %q, only clean %q", only(la, lb), only(lb, la))
}

func r2ModelCfg(spec *r2Spec, plzDir string) modelCfg {
	return modelCfg{Lang: "en_GB.UTF-8", Arch: runtime.GOARCH, OS: runtime.GOOS, PassEnv: spec.CfgPassEnv,
		Location: plzDir, Path: []string{"/usr/local/bin", "/usr/bin", "/bin"}, BuildConfig: "opt", Nonce: "1402"}
}

func r2ModelTgt(spec *r2Spec, name, base string) modelTgt {
	switch name {
	case "g0":
		return modelTgt{Pkg: "p", PkgDir: "p", Name: "g0", HasPass: true, PassEnv: spec.GenPassEnv, Outs: []string{"g0.env"}}
	}
	for _, rf := range spec.Remotes {
		if rf.Name == name {
			return modelTgt{Pkg: "p", PkgDir: "p", Name: name, HasPass: len(rf.PassEnv) > 0, PassEnv: rf.PassEnv, Outs: []string{name + ".txt"}, Srcs: []string{base + rf.Path}}
		}
	}
	panic(name)
}

func r2EnvCase(spec *r2Spec, st r2StepObs, d e2e.C10Dump, plzDir string, hi, si int) e2eCase {
	obs := map[string]string{}
	for k, v := range d.Vars {
		if !shellVars[k] {
			obs[k] = v
		}
	}
	return e2eCase{coq: lib.App("CBuildEnv", r2ModelCfg(spec, plzDir).coq(), r2ModelTgt(spec, "g0", "").coq(), lib.Str(d.Vars["TMP_DIR"]), coqEnv(st.Caller), coqEnv(obs)),
		js:  map[string]any{"kind": "r2-e2e-build-env", "history": hi, "step": si, "spec": spec, "caller": st.Caller, "observed": obs},
		key: fmt.Sprint("r2env", hi, si)}
}

func r2HeaderCase(spec *r2Spec, rf *r2Remote, repo *e2e.Repo, base string, st r2StepObs, raw, sent, plzDir string, hi, si int) e2eCase {
	tmp := filepath.Join(repo.Dir, "plz-out", "tmp", "p", rf.Name+"._build")
	return e2eCase{coq: lib.App("CHeader", r2ModelCfg(spec, plzDir).coq(), r2ModelTgt(spec, rf.Name, base).coq(), lib.Str(tmp), coqEnv(st.Caller), lib.Str(raw), lib.Str(sent)),
		js:  map[string]any{"kind": "r2-e2e-header", "history": hi, "step": si, "target": rf.Name, "declared": raw, "received_by_server": sent, "caller": st.Caller},
		key: fmt.Sprint("r2hdr", hi, si, rf.Name, raw)}
}

func endToEndR2(c *lib.Ctx) {
	plz := os.Getenv("VERIF_PLZ")
	if plz == "" {
		plz = "/verif/build/bin/plz"
	}
	real, err := filepath.EvalSymlinks(plz)
	must(err)
	plzDir := filepath.Dir(real)
	nh := c.Scale(4, 60)
	extra := c.Scale(0, 4)
	base := e2e.Scratch("c10r2")
	defer os.RemoveAll(base)
	srv := newR2Server()
	defer srv.srv.Close()
	rngs := make([]*lib.Rng, nh)
	for i := range rngs {
		rngs[i] = c.Rng.Fork()
	}
	out := make([]*r2History, nh)
	var wg sync.WaitGroup
	sem := make(chan struct{}, 6)
	for i := 0; i < nh; i++ {
		wg.Add(1)
		sem <- struct{}{}
		go func(i int) {
			defer wg.Done()
			defer func() { <-sem }()
			dir := fmt.Sprintf("%s/h%d", base, i)
			must(os.MkdirAll(dir, 0o755))
			out[i] = runR2(rngs[i], srv, dir, i, extra, plzDir)
			os.RemoveAll(dir)
		}(i)
	}
	wg.Wait()
	inv := 0
	for i, h := range out {
		for si, st := range h.Steps {
			inv++
			c.Hist("r2_e2e_step", st.Kind)
			c.Hist("r2_e2e_store", map[bool]string{true: "xattrs", false: "side-files"}[h.Spec.Xattrs])
			c.Eval(map[string]any{"kind": "r2-e2e-step", "history": i, "step": si, "step_kind": st.Kind, "xattrs": h.Spec.Xattrs, "ran": st.Ran, "exit": st.Exit}, fmt.Sprint("r2step", i, si), si > 0)
		}
		for k := 0; k < h.Orcl; k++ {
			c.Oracle()
		}
		for _, f := range h.Fails {
			c.Fail(f.Class, f.What, f.Input)
		}
		for _, cs := range h.Cases {
			c.Case(cs.coq, cs.js, cs.key, true)
		}
	}
	c.Note("round-2 end to end: %d histories, %d plz invocations, local header-echo server %s", nh, inv, srv.srv.URL)
}
