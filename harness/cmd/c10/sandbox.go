// C10 follow-up: from the environment MAP to the PROCESS the action runs in.
//
//   - execStream: the real process.Executor.ExecWithTimeout (ExecCommand, os/exec, and - built-in sandbox - the real
//     sandbox.Sandbox, reached by re-executing this binary as `c10 sandbox ...`, exactly like plz does) on arbitrary
//     name=value lists, under two caller environments; the started process is /usr/bin/env.
//   - endToEndSandbox: the real plz on repositories under /var/tmp with `[sandbox] build = true` and an empty tool;
//     sandboxed and unsandboxed genrules dump their environment.
//
// Both need unprivileged user namespaces (`unshare -Ur true`); without them the exec stream only inspects cmd.Env as
// ExecCommand leaves it and the end-to-end stream is skipped (noted in the evidence).
package main

import (
	"context"
	"fmt"
	"os"
	"os/exec"
	"path/filepath"
	"runtime"
	"strconv"
	"strings"
	"sync"
	"time"

	"verifharness/e2e"
	"verifharness/lib"

	"github.com/thought-machine/please/src/process"
	"github.com/thought-machine/please/src/sandbox"
)

// sandboxReexec: `c10 sandbox cmd args...` is what ExecCommand's built-in sandbox branch starts (os.Executable()).
func sandboxReexec() {
	if len(os.Args) > 1 && os.Args[1] == "sandbox" {
		if err := sandbox.Sandbox(os.Args[2:]); err != nil {
			fmt.Fprintln(os.Stderr, "c10-sandbox:", err)
			os.Exit(1)
		}
		os.Exit(0)
	}
}

func haveUserNS() bool {
	cmd := exec.Command("unshare", "-Ur", "true")
	cmd.Env = []string{"PATH=/usr/local/bin:/usr/bin:/bin"}
	done := make(chan error, 1)
	if err := cmd.Start(); err != nil {
		return false
	}
	go func() { done <- cmd.Wait() }()
	select {
	case err := <-done:
		return err == nil
	case <-time.After(10 * time.Second):
		cmd.Process.Kill()
		return false
	}
}

// ------------------------------------------------------------------------------------------- exec stream

type kv [2]string

func coqKVs(l []kv) string {
	items := []string{}
	for _, p := range l {
		items = append(items, lib.Pair(lib.Str(p[0]), lib.Str(p[1])))
	}
	return lib.List(items)
}

func coqMode(m string) string {
	switch m {
	case "builtin":
		return "SbBuiltin"
	case "tool":
		return "SbTool"
	}
	return "SbNone"
}

func coqOptEnv(ok bool, m map[string]string) string { return lib.Opt(ok, coqEnv(m)) }

func parseDump(out string) map[string]string {
	m := map[string]string{}
	for _, line := range strings.Split(out, "\n") {
		if i := strings.IndexByte(line, '='); i > 0 {
			m[line[:i]] = line[i+1:]
		}
	}
	return m
}

type execRun struct {
	OK      bool              `json:"started"`
	Env     map[string]string `json:"env,omitempty"`
	Refused string            `json:"refused,omitempty"`
}

// runExec: the real ExecWithTimeout; the process is /usr/bin/env. A refusal of `plz sandbox` is an observation (None).
func runExec(ex *process.Executor, sb process.SandboxConfig, dir string, env []string) execRun {
	out, combined, err := ex.ExecWithTimeout(context.Background(), nil, dir, env, 30*time.Second, false, false, false, false, sb, []string{"/usr/bin/env", "-u", "C10_UNUSED"})
	if err != nil {
		msg := string(combined)
		if strings.Contains(msg, "TMP_DIR is not set") || strings.Contains(msg, "Not mounting /tmp") {
			return execRun{Refused: strings.TrimSpace(msg)}
		}
		panic(fmt.Sprintf("exec stream: %v: %s", err, msg))
	}
	return execRun{OK: true, Env: parseDump(string(out))}
}

func execStream(c *lib.Ctx, userns bool) {
	saved := os.Environ()
	defer func() {
		os.Clearenv()
		for _, e := range saved {
			i := strings.IndexByte(e, '=')
			os.Setenv(e[:i], e[i+1:])
		}
	}()
	base, err := os.MkdirTemp("/var/tmp", "c10x-")
	must(err)
	defer os.RemoveAll(base)
	tmpDir := filepath.Join(base, "t._build")
	must(os.MkdirAll(tmpDir, 0o755))
	uid := strconv.Itoa(os.Getuid())
	execs := map[string]*process.Executor{
		"none":    process.New(),
		"builtin": process.NewSandboxingExecutor(true, process.NamespaceNever, ""),
		"tool":    process.NewSandboxingExecutor(false, process.NamespaceNever, "/usr/bin/env"), // `env env`: a tool that runs its arguments
	}
	keyPool := []string{"A", "B", "NAME", "TMP_DIR", "HOME", "OUT", "SHARE_MOUNT", "SHARE_NETWORK", "SANDBOX_UID", "PATH", "X_Y"}
	n := c.Scale(36, 300)
	for i := 0; i < n; i++ {
		r := c.Rng.Fork()
		mode := lib.Pick(r, []string{"none", "builtin", "builtin", "builtin", "tool"})
		net, mount := r.Bool(), r.Chance(2, 3)
		if mode == "none" {
			net, mount = false, false
		}
		if mode != "none" && !net && !mount {
			mount = true // SandboxConfig{false,false} IS NoSandbox
		}
		if mode == "builtin" {
			// `plz sandbox` without the mount part but with SANDBOX_UID cannot start its command at all: its process is in a
			// new PID namespace, /proc is only remounted together with the mount part, and os/exec then fails to write the
			// child's uid_map ("fork/exec ...: no such file or directory"). Builds always ask for both parts.
			mount = true
		}
		// the name=value list: mostly a plausible build environment, sometimes duplicates / overrides of the fixed entries
		list := []kv{}
		if !r.Chance(1, 12) {
			list = append(list, kv{"TMP_DIR", tmpDir}, kv{"NAME", "t"}, kv{"HOME", tmpDir}, kv{"OUT", tmpDir + "/o"})
			if r.Chance(1, 6) {
				list[0] = kv{"TMP_DIR", lib.Pick(r, []string{"/tmp/c10x-none", ""})}
			}
			if r.Chance(1, 8) {
				list = list[1:] // no TMP_DIR at all
			}
			for k := r.Intn(4); k > 0; k-- {
				key := lib.Pick(r, keyPool)
				val := lib.Pick(r, []string{"", "v", "1", "0", tmpDir, "x" + tmpDir + ":" + tmpDir + "/y", "a=b", "/tmp/plz_sandbox"})
				if key == "SANDBOX_UID" {
					val = lib.Pick(r, []string{"", uid})
				}
				if key == "SHARE_MOUNT" || key == "SHARE_NETWORK" {
					// a later entry overrides ExecCommand's: "1" switches that part of the sandbox off. (Any other value
					// would ask `plz sandbox` for a namespace operation the clone flags did not prepare.)
					val = "1"
				}
				if key == "TMP_DIR" && val != tmpDir {
					continue
				}
				list = append(list, kv{key, val})
			}
		}
		if mode == "builtin" {
			for _, p := range list {
				if p[0] == "SHARE_MOUNT" { // switched off by a later entry: same situation as above, take the exec path
					list = append(list, kv{"SANDBOX_UID", ""})
					break
				}
			}
		}
		env := []string{}
		for _, p := range list {
			env = append(env, p[0]+"="+p[1])
		}
		c1 := caller{"PATH": "/usr/bin:/bin", "CALLER_ONLY": fmt.Sprintf("tok%da", i), "HOME": fmt.Sprintf("/home/tok%db", i)}
		c2 := caller{"PATH": "/usr/bin:/bin", "CALLER_ONLY": fmt.Sprintf("tok%dc", i), "USER": fmt.Sprintf("tok%dd", i)}
		sb := process.NewSandboxConfig(net, mount)
		c.Hist("exec_mode", mode)
		js := map[string]any{"kind": "exec-env", "mode": mode, "network": net, "mount": mount, "env": env, "caller": c1, "caller2": c2}

		if !userns && mode == "builtin" {
			// cannot start `plz sandbox`: look at cmd.Env as ExecCommand leaves it
			setProcessEnv(c1)
			cmd := execs[mode].ExecCommand(sb, false, "/usr/bin/env")
			c.Oracle()
			for _, e := range cmd.Env {
				if strings.Contains(e, "tok") {
					c.Fail("unlisted-caller-variable-visible", fmt.Sprintf("ExecCommand (%s sandbox) presets %q from the invoking shell in cmd.Env", mode, e), js)
				}
			}
			continue
		}
		setProcessEnv(c1)
		r1 := runExec(execs[mode], sb, tmpDir, env)
		setProcessEnv(c2)
		r2 := runExec(execs[mode], sb, tmpDir, env)
		js["observed"], js["observed2"] = r1, r2
		strip := func(m map[string]string) map[string]string {
			out := map[string]string{}
			for k, v := range m {
				if k != "_" { // set by a shell, never by env(1) itself; defensive
					out[k] = v
				}
			}
			return out
		}
		c.Case(lib.App("CExecEnv", coqMode(mode), lib.Str(uid), lib.Bool(net), lib.Bool(mount), coqEnv(c1), lib.Str(tmpDir), coqKVs(list), coqOptEnv(r1.OK, strip(r1.Env))),
			js, fmt.Sprint("xe", mode, net, mount, env), len(list) > 0)
		if len(list) == 0 {
			c.Hist("exec_empty_list", "1") // os/exec inherits the parent: not hermetic, not a build (the map is never empty)
			continue
		}
		c.Oracle()
		if r1.OK != r2.OK || !sameMap(r1.Env, r2.Env) {
			c.Fail("unlisted-caller-variable-visible", fmt.Sprintf("the process started for the same name=value list under two callers differs (%s sandbox): %s vs %s",
				mode, diffMaps(r1.Env, r2.Env), diffMaps(r2.Env, r1.Env)), js)
		}
		for k, v := range r1.Env {
			if strings.Contains(v, "tok") || k == "CALLER_ONLY" {
				c.Fail("unlisted-caller-variable-visible", fmt.Sprintf("the started process sees %s=%q of the invoking shell (%s sandbox); the list given to ExecWithTimeout has no such entry", k, v, mode), js)
				break
			}
		}
	}
}

// ------------------------------------------------------------------------------------------- end to end, built-in sandbox

type sbHistory struct {
	Fails []lib.Failing
	Cases []e2eCase
	Orcl  int
	Steps []string
	Inv   int
}

var sbShellVars = map[string]bool{"PWD": true, "SHLVL": true, "_": true, "OLDPWD": true, "RULE_HASH": true, "RUN_ID": true}

func sbNorm(d e2e.C10Dump, skip map[string]bool) string {
	parts := []string{}
	for _, k := range lib.SortedKeys(d.Vars) {
		if !sbShellVars[k] && !skip[k] {
			parts = append(parts, k+"="+d.Vars[k])
		}
	}
	return strings.Join(parts, "\n")
}

func runSandboxE2E(r *lib.Rng, base string, idx int, plzDir string) *sbHistory {
	h := &sbHistory{}
	tok := 0
	token := func() string { tok++; return fmt.Sprintf("sv%dh%dx", tok, idx) }
	spec := &e2e.C10Spec{BuiltinSandbox: true}
	if r.Chance(1, 2) {
		spec.PassEnv = []string{"CFG_A"}
	}
	if r.Chance(1, 2) {
		spec.PassUnsafeEnv = []string{"CFG_U"}
	}
	spec.Targets = []*e2e.C10Target{
		{Name: "boxed", HasPass: true, PassEnv: []string{"T_A"}, Sandbox: lib.Pick(r, []string{"", "True"})},
		{Name: "plain", HasPass: true, PassEnv: subset(r, []string{"T_A", "T_B"}, 2), Sandbox: "False"},
	}
	if r.Chance(1, 2) {
		spec.Targets = append(spec.Targets, &e2e.C10Target{Name: "boxed2", Sandbox: "True", Env: map[string]string{"X1": "in-$TMP_DIR-$NAME"}, Srcs: []string{"a.txt"}})
	}
	repo := e2e.NewRepo(base, "repo")
	repo.Threads = 2
	repo.C10Write(spec)
	root, err := filepath.EvalSymlinks(repo.Dir)
	must(err)
	uid := strconv.Itoa(os.Getuid())

	listedFor := func(t *e2e.C10Target) map[string]bool {
		m := map[string]bool{}
		for _, l := range [][]string{spec.PassEnv, spec.PassUnsafeEnv, t.PassEnv} {
			for _, v := range l {
				m[v] = true
			}
		}
		return m
	}
	listedAnywhere := func(v string) bool {
		for _, t := range spec.Targets {
			if listedFor(t)[v] {
				return true
			}
		}
		return false
	}
	names := []string{"CFG_A", "CFG_U", "T_A", "T_B", "USER", "TERM", "LEAK_1", "CI_JOB_TOKEN", "EDITOR"}
	cl := map[string]string{"PATH": "/usr/local/bin:/usr/bin:/bin", "GOMAXPROCS": "2"}
	tokenOwner := map[string]string{}
	setVar := func(v string) {
		t := token()
		tokenOwner[t] = v
		cl[v] = "val-" + t
	}
	for _, v := range names {
		if r.Chance(3, 4) || v == "CI_JOB_TOKEN" || v == "T_A" {
			setVar(v)
		}
	}
	prev := map[string]e2e.C10Dump{}
	kinds := []string{"initial", lib.Pick(r, []string{"unlisted", "target-pass"}), "clean"}
	for si, kind := range kinds {
		expect := map[string]bool{}
		changed := ""
		switch kind {
		case "initial":
			for _, t := range spec.Targets {
				expect[t.Name] = true
			}
		case "unlisted", "clean":
			for _, v := range names {
				if !listedAnywhere(v) && r.Chance(2, 3) {
					setVar(v)
				}
			}
			setVar(fmt.Sprintf("NEWVAR_%d", si))
			if kind == "clean" {
				repo.RemovePlzOut()
				for _, t := range spec.Targets {
					expect[t.Name] = true
				}
			}
		case "target-pass":
			changed = "T_A"
			setVar("T_A")
			for _, t := range spec.Targets {
				if contains(t.PassEnv, "T_A") {
					expect[t.Name] = true
				}
			}
		}
		st := repo.C10Build(spec, copyMap(cl))
		h.Inv++
		h.Steps = append(h.Steps, kind)
		js := map[string]any{"kind": "e2e-sandbox", "history": idx, "step": si, "step_kind": kind, "changed": changed, "spec": spec, "caller": st.Caller, "exit": st.Exit}
		fail := func(class, what string) {
			h.Fails = append(h.Fails, lib.Failing{Class: class, What: what, Input: withDumps(js, st, prev)})
		}
		h.Orcl++
		if st.Exit != 0 {
			fail("build-fails", fmt.Sprintf("plz build (built-in sandbox) exits %d: %s", st.Exit, st.Stderr))
			break
		}
		for _, t := range spec.Targets {
			l := "//p:" + t.Name
			d := st.Dumps[l]
			if !d.Present {
				fail("output-missing", l+" has no output")
				continue
			}
			ran := !prev[l].Present || prev[l].Vars["RUN_ID"] != d.Vars["RUN_ID"]
			boxed := t.Sandbox != "False"
			what := map[bool]string{true: "sandboxed (built-in sandbox)", false: "unsandboxed"}[boxed]
			lst := listedFor(t)
			// nothing of an unlisted caller variable is visible, by value or by name
			h.Orcl++
			leaked := false
			for k, v := range d.Vars {
				for tk, owner := range tokenOwner {
					if strings.Contains(v, tk) && !lst[owner] && !leaked {
						leaked = true
						fail("unlisted-caller-variable-visible", fmt.Sprintf("%s action %s sees %s=%q, which carries the value of the caller's %s (listed in no pass_env/pass_unsafe_env)", what, l, k, v, owner))
					}
				}
			}
			// rebuild decisions
			h.Orcl++
			switch {
			case expect[t.Name] && !ran:
				fail("no-rebuild-on-pass-env-change", fmt.Sprintf("step %q changed %s, which %s (%s) hashes, but the command was not re-run", kind, changed, l, what))
			case !expect[t.Name] && ran:
				fail("rebuild-on-unlisted-change", fmt.Sprintf("step %q changed only variables %s (%s) does not hash, but its command was re-run", kind, l, what))
			}
			if ran {
				h.Orcl++
				for v := range lst {
					want, set := cl[v]
					if have, present := d.Vars[v]; set && v != "PATH" && (!present || have != want) {
						fail("listed-variable-not-passed", fmt.Sprintf("%s (%s) lists %s (caller value %q) but its command saw %q (present=%v)", l, what, v, want, have, present))
					}
				}
			}
			if kind == "clean" && si > 0 {
				h.Orcl++
				skip := map[string]bool{}
				for v := range lst {
					skip[v] = true
				}
				if sbNorm(prev[l], skip) != sbNorm(d, skip) {
					fail("unlisted-caller-variable-changes-output", fmt.Sprintf("%s (%s) rebuilt from scratch under different unlisted variables gives a different environment: %s", l, what, diffMaps(d.Vars, prev[l].Vars)))
				}
			}
			if ran {
				h.Cases = append(h.Cases, sbModelCase(spec, t, st, d, plzDir, root, uid, idx, si))
			}
		}
		prev = st.Dumps
	}
	return h
}

func sbModelCase(spec *e2e.C10Spec, t *e2e.C10Target, st e2e.C10Step, d e2e.C10Dump, plzDir, root, uid string, hi, si int) e2eCase {
	mc := modelCfg{Lang: "en_GB.UTF-8", Arch: runtime.GOARCH, OS: runtime.GOOS, PassUnsafe: spec.PassUnsafeEnv, PassEnv: spec.PassEnv,
		Location: plzDir, Path: []string{"/usr/local/bin", "/usr/bin", "/bin"}, BuildConfig: "opt", Nonce: "1402"}
	mt := modelTgt{Pkg: "p", PkgDir: "p", Name: t.Name, HasPass: t.HasPass || len(t.PassEnv) > 0, PassEnv: t.PassEnv, Outs: []string{t.Name + ".env"}, Env: t.Env}
	for _, f := range t.Srcs {
		mt.Srcs = append(mt.Srcs, "p/"+f)
	}
	boxed := t.Sandbox != "False"
	mode := "none"
	if boxed {
		mode = "builtin"
	}
	sx := lib.App("Build_sbx", lib.Bool(boxed), lib.Bool(runtime.GOOS == "linux" && !strings.HasPrefix(root, "/tmp/")), lib.StrList(nil))
	tmp := filepath.Join(root, "plz-out/tmp/p", t.Name+"._build")
	obs := map[string]string{}
	for k, v := range d.Vars {
		if !sbShellVars[k] {
			obs[k] = v
		}
	}
	js := map[string]any{"kind": "e2e-sandbox-action-env", "history": hi, "step": si, "spec": spec, "target": t.Name, "sandboxed": boxed, "tmp_dir": tmp, "caller": st.Caller, "observed": obs}
	return e2eCase{coq: lib.App("CActionEnv", sx, mc.coq(), mt.coq(), lib.Str(tmp), coqEnv(st.Caller), coqMode(mode), lib.Str(uid), lib.Bool(boxed), lib.Bool(boxed), lib.Opt(true, coqEnv(obs))),
		js: js, key: fmt.Sprint("e2esb", hi, si, t.Name)}
}

func endToEndSandbox(c *lib.Ctx, userns bool) {
	if !userns {
		c.Note("end to end, built-in sandbox: SKIPPED - unprivileged user namespaces are not available here (unshare -Ur true fails)")
		return
	}
	plz := os.Getenv("VERIF_PLZ")
	if plz == "" {
		plz = "/verif/build/bin/plz"
	}
	real, err := filepath.EvalSymlinks(plz)
	must(err)
	plzDir := filepath.Dir(real)
	nh := c.Scale(4, 30)
	// not under /tmp: the sandbox mounts a fresh tmpfs over /tmp
	base, err := os.MkdirTemp("/var/tmp", "c10sb-")
	must(err)
	defer os.RemoveAll(base)
	rngs := make([]*lib.Rng, nh)
	for i := range rngs {
		rngs[i] = c.Rng.Fork()
	}
	out := make([]*sbHistory, nh)
	var wg sync.WaitGroup
	sem := make(chan struct{}, 4)
	for i := 0; i < nh; i++ {
		wg.Add(1)
		sem <- struct{}{}
		go func(i int) {
			defer wg.Done()
			defer func() { <-sem }()
			dir := fmt.Sprintf("%s/h%d", base, i)
			must(os.MkdirAll(dir, 0o755))
			out[i] = runSandboxE2E(rngs[i], dir, i, plzDir)
			os.RemoveAll(dir)
		}(i)
	}
	wg.Wait()
	inv := 0
	for i, h := range out {
		inv += h.Inv
		for si, k := range h.Steps {
			c.Hist("e2e_sandbox_step", k)
			c.Eval(map[string]any{"kind": "e2e-sandbox-step", "history": i, "step": si, "step_kind": k}, fmt.Sprint("e2esbstep", i, si), true)
		}
		for k := 0; k < h.Orcl; k++ {
			c.Oracle()
		}
		for _, f := range h.Fails {
			c.Fail(f.Class, f.What, f.Input)
		}
		for _, cs := range h.Cases {
			c.Case(cs.coq, cs.js, cs.key, true)
		}
	}
	c.Note("end to end, built-in sandbox ([sandbox] build = true, tool empty, repositories under /var/tmp): %d histories, %d plz invocations", nh, inv)
}
