// C10: build actions see a hermetic, fully hashed environment.
//
// Two implementation-side drivers:
//  1. in-process: real core.Configuration objects read by core.ReadConfigFiles from generated config files, real
//     core.BuildTarget values, core.BuildEnvironment / Configuration.GetBuildEnv / Configuration.Hash / build.RuleHash
//     called under a process environment the harness sets (os.Clearenv + os.Setenv);
//  2. end to end: the real plz binary on generated repositories whose genrules dump their whole environment
//     (`env | sort`), run under random extra and changed caller variables (harness/e2e/c10_env.go).
//
// Both feed the Coq model (Model/C10.v) with the observed environments, and both evaluate the property oracle, which
// never consults the model: it compares two invocations of the implementation under different caller environments.
package main

import (
	"bytes"
	"fmt"
	"io"
	"os"
	"path/filepath"
	"runtime"
	"sort"
	"strings"
	"sync"

	"verifharness/e2e"
	"verifharness/lib"

	"github.com/thought-machine/please/src/build"
	"github.com/thought-machine/please/src/cli"
	"github.com/thought-machine/please/src/core"
	"github.com/thought-machine/please/src/fs"
	logging "gopkg.in/op/go-logging.v1"
)

// ------------------------------------------------------------------------------------------- descriptions

type cfgSpec struct {
	Lang          string      `json:"lang,omitempty"`
	Arch          string      `json:"arch"`
	OS            string      `json:"os"`
	PkgConfigPath string      `json:"pkgconfigpath,omitempty"`
	BuildEnv      [][2]string `json:"buildenv,omitempty"`
	PassUnsafe    []string    `json:"passunsafeenv,omitempty"`
	PassEnv       []string    `json:"passenv,omitempty"`
	Location      string      `json:"location,omitempty"`
	Path          []string    `json:"path,omitempty"`
	RemoteURL     string      `json:"remote_url,omitempty"`
	BuildConfig   string      `json:"build_config,omitempty"`
	Nonce         string      `json:"nonce,omitempty"`
	Licences      []string    `json:"licences_reject,omitempty"`
}

type tgtSpec struct {
	Pkg          string              `json:"pkg"`
	Name         string              `json:"name"`
	Local        bool                `json:"local,omitempty"`
	HasUnsafe    bool                `json:"has_pass_unsafe_env,omitempty"`
	PassUnsafe   []string            `json:"pass_unsafe_env,omitempty"`
	HasPass      bool                `json:"has_pass_env,omitempty"`
	PassEnv      []string            `json:"pass_env,omitempty"`
	Srcs         []string            `json:"srcs,omitempty"`
	Outs         []string            `json:"outs,omitempty"`
	SrcListFiles bool                `json:"src_list_files,omitempty"`
	NamedSrcs    map[string][]string `json:"named_srcs,omitempty"`
	NamedOuts    map[string][]string `json:"named_outs,omitempty"`
	Secrets      []string            `json:"secrets,omitempty"`
	NamedSecrets map[string][]string `json:"named_secrets,omitempty"`
	Env          map[string]string   `json:"env,omitempty"`
}

type caller map[string]string

func (c caller) clone() caller {
	out := caller{}
	for k, v := range c {
		out[k] = v
	}
	return out
}

func setProcessEnv(c caller) {
	os.Clearenv()
	for k, v := range c {
		if err := os.Setenv(k, v); err != nil {
			panic(err)
		}
	}
}

// ------------------------------------------------------------------------------------------- Coq printers

func coqEnv(m map[string]string) string {
	items := []string{}
	for _, k := range lib.SortedKeys(m) {
		items = append(items, lib.Pair(lib.Str(k), lib.Str(m[k])))
	}
	return lib.List(items)
}

func coqPairs(ps [][2]string) string {
	items := []string{}
	for _, p := range ps {
		items = append(items, lib.Pair(lib.Str(p[0]), lib.Str(p[1])))
	}
	return lib.List(items)
}

func coqGroups(names []string, m map[string][]string) string {
	items := []string{}
	for _, k := range names {
		items = append(items, lib.Pair(lib.Str(k), lib.StrList(m[k])))
	}
	return lib.List(items)
}

// modelCfg is the configuration as the model sees it: the fields of the loaded core.Configuration, except Path, which is
// what the files said ([] when they said nothing; the default that setBuildPath installs is part of the model).
type modelCfg struct {
	Lang, Arch, OS, PkgConfigPath string
	BuildEnv                      [][2]string
	PassUnsafe, PassEnv           []string
	Location                      string
	Path                          []string
	RemoteURL, BuildConfig, Nonce string
	Licences                      []string
}

func (m modelCfg) coq() string {
	return lib.App("Build_config", lib.Str(m.Lang), lib.Str(m.Arch), lib.Str(m.OS), lib.Str(m.PkgConfigPath), coqPairs(m.BuildEnv),
		lib.StrList(m.PassUnsafe), lib.StrList(m.PassEnv), lib.Str(m.Location), lib.StrList(m.Path), lib.Str(m.RemoteURL),
		lib.Str(m.BuildConfig), lib.Str(m.Nonce), lib.StrList(m.Licences))
}

type modelTgt struct {
	Pkg, PkgDir, Name string
	Local             bool
	HasUnsafe         bool
	PassUnsafe        []string
	HasPass           bool
	PassEnv           []string
	Srcs, Outs        []string
	SrcListFiles      bool
	NamedSrcNames     []string
	NamedSrcs         map[string][]string
	NamedOutNames     []string
	NamedOuts         map[string][]string
	Tools             []string
	Secrets           []string
	NamedSecretNames  []string
	NamedSecrets      map[string][]string
	Env               map[string]string
}

func (m modelTgt) coq() string {
	return lib.App("Build_target", lib.Str(m.Pkg), lib.Str(m.PkgDir), lib.Str(m.Name), lib.Bool(m.Local),
		lib.Opt(m.HasUnsafe, lib.StrList(m.PassUnsafe)), lib.Opt(m.HasPass, lib.StrList(m.PassEnv)),
		lib.StrList(m.Srcs), lib.StrList(m.Outs), lib.Bool(m.SrcListFiles),
		coqGroups(m.NamedSrcNames, m.NamedSrcs), coqGroups(m.NamedOutNames, m.NamedOuts), lib.StrList(m.Tools),
		lib.StrList(m.Secrets), coqGroups(m.NamedSecretNames, m.NamedSecrets), coqEnv(m.Env))
}

// ------------------------------------------------------------------------------------------- in-process implementation side

var (
	state    *core.BuildState
	cfgCount int
	cfgDir   string
)

func configText(s cfgSpec) string {
	var b strings.Builder
	b.WriteString("[build]\n")
	if s.Lang != "" {
		b.WriteString("lang = " + s.Lang + "\n")
	}
	if s.BuildConfig != "" {
		b.WriteString("config = " + s.BuildConfig + "\n")
	}
	if s.Nonce != "" {
		b.WriteString("nonce = " + s.Nonce + "\n")
	}
	for _, p := range s.Path {
		b.WriteString("path = " + p + "\n")
	}
	for _, v := range s.PassEnv {
		b.WriteString("passenv = " + v + "\n")
	}
	for _, v := range s.PassUnsafe {
		b.WriteString("passunsafeenv = " + v + "\n")
	}
	if s.Location != "" {
		b.WriteString("[please]\nlocation = " + s.Location + "\n")
	}
	if s.PkgConfigPath != "" {
		b.WriteString("[cpp]\npkgconfigpath = " + s.PkgConfigPath + "\n")
	}
	if len(s.Licences) > 0 {
		b.WriteString("[licences]\n")
		for _, l := range s.Licences {
			b.WriteString("reject = " + l + "\n")
		}
	}
	if len(s.BuildEnv) > 0 {
		b.WriteString("[buildenv]\n")
		for _, kv := range s.BuildEnv {
			b.WriteString(kv[0] + " = " + kv[1] + "\n")
		}
	}
	return b.String()
}

// loadConfig reads the configuration through the real reader, under the CURRENT process environment.
func loadConfig(s cfgSpec) (*core.Configuration, modelCfg) {
	cfgCount++
	path := filepath.Join(cfgDir, fmt.Sprintf("cfg%d", cfgCount%8))
	if err := os.WriteFile(path, []byte(configText(s)), 0o644); err != nil {
		panic(err)
	}
	cfg, err := core.ReadConfigFiles(fs.HostFS, []string{path}, nil)
	if err != nil {
		panic(fmt.Sprintf("config %q: %v", configText(s), err))
	}
	cfg.Remote.URL = s.RemoteURL
	m := modelCfg{Lang: cfg.Build.Lang, Arch: s.Arch, OS: s.OS, PkgConfigPath: cfg.Cpp.PkgConfigPath,
		PassUnsafe: cfg.Build.PassUnsafeEnv, PassEnv: cfg.Build.PassEnv, Location: cfg.Please.Location, Path: s.Path,
		RemoteURL: cfg.Remote.URL, BuildConfig: cfg.Build.Config, Nonce: cfg.Build.Nonce, Licences: cfg.Licences.Reject}
	for _, k := range lib.SortedKeys(cfg.BuildEnv) {
		m.BuildEnv = append(m.BuildEnv, [2]string{k, cfg.BuildEnv[k]})
	}
	return cfg, m
}

func makeTarget(s tgtSpec) (*core.BuildTarget, modelTgt) {
	t := core.NewBuildTarget(core.BuildLabel{PackageName: s.Pkg, Name: s.Name})
	t.Local = s.Local
	if s.HasUnsafe {
		l := append([]string{}, s.PassUnsafe...)
		t.PassUnsafeEnv = &l
	}
	if s.HasPass {
		l := append([]string{}, s.PassEnv...)
		t.PassEnv = &l
	}
	for _, f := range s.Srcs {
		t.AddSource(core.FileLabel{File: f, Package: s.Pkg})
	}
	for _, n := range lib.SortedKeys(s.NamedSrcs) {
		for _, f := range s.NamedSrcs[n] {
			t.AddNamedSource(n, core.FileLabel{File: f, Package: s.Pkg})
		}
	}
	for _, o := range s.Outs {
		t.AddOutput(o)
	}
	for _, n := range lib.SortedKeys(s.NamedOuts) {
		for _, o := range s.NamedOuts[n] {
			t.AddNamedOutput(n, o)
		}
	}
	t.SrcListFiles = s.SrcListFiles
	t.Secrets = append([]string{}, s.Secrets...)
	if len(s.NamedSecrets) > 0 {
		t.NamedSecrets = map[string][]string{}
		for k, v := range s.NamedSecrets {
			t.NamedSecrets[k] = append([]string{}, v...)
		}
	}
	if len(s.Env) > 0 {
		t.Env = map[string]string{}
		for k, v := range s.Env {
			t.Env[k] = v
		}
	}
	m := modelTgt{Pkg: t.Label.PackageName, PkgDir: t.PackageDir(), Name: t.Label.Name, Local: t.Local,
		HasUnsafe: s.HasUnsafe, PassUnsafe: s.PassUnsafe, HasPass: s.HasPass, PassEnv: s.PassEnv,
		Srcs: t.AllSourcePaths(state.Graph), Outs: t.GetTmpOutputAll(t.Outputs()), SrcListFiles: t.SrcListFiles,
		NamedSrcs: map[string][]string{}, NamedOuts: map[string][]string{}, Secrets: s.Secrets,
		NamedSecretNames: lib.SortedKeys(s.NamedSecrets), NamedSecrets: s.NamedSecrets, Env: s.Env}
	for _, n := range lib.SortedKeys(t.NamedSources) {
		m.NamedSrcNames = append(m.NamedSrcNames, n)
		m.NamedSrcs[n] = t.SourcePaths(state.Graph, t.NamedSources[n])
	}
	for _, n := range t.DeclaredOutputNames() {
		m.NamedOutNames = append(m.NamedOutNames, n)
		m.NamedOuts[n] = t.GetTmpOutputAll(t.DeclaredNamedOutputs()[n])
	}
	return t, m
}

// observation of the implementation under one caller environment
type obs struct {
	Cfg       modelCfg
	Tgt       modelTgt
	BuildEnvs []map[string]string // distinct results of repeated core.BuildEnvironment calls (Go map iteration!)
	ConfigEnv map[string]string
	RuleHash  []byte
	CfgHash   []byte
}

const tmpDir = "/tmp/c10-tmp/p/t._build"

func sameMap(a, b map[string]string) bool {
	if len(a) != len(b) {
		return false
	}
	for k, v := range a {
		if w, ok := b[k]; !ok || w != v {
			return false
		}
	}
	return true
}

func observe(cs cfgSpec, ts tgtSpec, c caller, repeats int) obs {
	setProcessEnv(c)
	cfg, mc := loadConfig(cs)
	state.Config = cfg
	state.Arch = cli.Arch{OS: cs.OS, Arch: cs.Arch}
	t, mt := makeTarget(ts)
	o := obs{Cfg: mc, Tgt: mt}
	for i := 0; i < repeats; i++ {
		be := map[string]string(core.BuildEnvironment(state, t, tmpDir))
		dup := false
		for _, x := range o.BuildEnvs {
			if sameMap(x, be) {
				dup = true
			}
		}
		if !dup {
			o.BuildEnvs = append(o.BuildEnvs, be)
		}
	}
	o.ConfigEnv = map[string]string{}
	for k, v := range cfg.GetBuildEnv() {
		o.ConfigEnv[k] = v
	}
	t.RuleHash = nil
	o.RuleHash = build.RuleHash(state, t, false, false)
	o.CfgHash = cfg.Hash()
	return o
}

// ------------------------------------------------------------------------------------------- generators

var varPool = []string{"VA", "VB", "VC", "V_D", "SECRET_K", "SECRETX", "PATH", "HOME", "LANG", "lower_v", "NAME", "TMP_DIR", "CFG_X", "XSECRET"}
var extraPool = []string{"LEAK1", "USER", "TERM", "EDITOR", "XDG_CONFIG_HOME", "LEAK_B", "PLZ_X", "SHELL", "OLDPWD", "HOSTNAME"}
var valPool = []string{"", "x", "a=b", "VB=q", "VB=", "q", "~/s", "/h/o:me", "$VA", "v w", "~", "1402", "VC=", "=", "caf\xc3\xa9", "/usr/bin:/bin", ":", "a:~/b"}

func subset(r *lib.Rng, pool []string, maxN int) []string {
	n := r.Intn(maxN + 1)
	out := []string{}
	for i := 0; i < n; i++ {
		out = append(out, lib.Pick(r, pool))
	}
	return out
}

func genCfg(r *lib.Rng) cfgSpec {
	s := cfgSpec{Arch: lib.Pick(r, []string{"amd64", "amd64", "arm64", "x86", "riscv"}), OS: lib.Pick(r, []string{"linux", "linux", "darwin", "freebsd"})}
	if r.Chance(1, 3) {
		s.Lang = lib.Pick(r, []string{"C", "de_DE.UTF-8"})
	}
	if r.Chance(1, 4) {
		s.PkgConfigPath = "/opt/pc"
	}
	if r.Chance(1, 2) {
		pool := [][2]string{{"foo-bar", "baz"}, {"secret-pass", "12345"}, {"va", "from-buildenv"}, {"path", "/be/path"}, {"x", "1"}, {"lang", "be-lang"}}
		n := r.Range(1, 3)
		seen := map[string]bool{}
		for i := 0; i < n; i++ {
			kv := lib.Pick(r, pool)
			if !seen[kv[0]] {
				seen[kv[0]] = true
				s.BuildEnv = append(s.BuildEnv, kv)
			}
		}
	}
	if r.Chance(2, 3) {
		s.PassEnv = subset(r, varPool, 3)
	}
	if r.Chance(1, 2) {
		s.PassUnsafe = subset(r, varPool, 2)
	}
	if r.Chance(3, 4) {
		s.Location = lib.Pick(r, []string{"/opt/plz", "/usr/local/please", "/opt/p:q"})
	}
	if r.Chance(2, 3) {
		s.Path = lib.Pick(r, [][]string{{"/usr/local/bin", "/usr/bin", "/bin"}, {"/bin"}, {"/a", "/b:/c"}})
	}
	if r.Chance(1, 8) {
		s.RemoteURL = "grpc://remote:1234"
	}
	if r.Chance(1, 4) {
		s.BuildConfig = "dbg"
	}
	if r.Chance(1, 4) {
		s.Nonce = "n2"
	}
	if r.Chance(1, 5) {
		s.Licences = []string{"gpl", "agpl"}[:r.Range(1, 2)]
	}
	return s
}

var envValPool = []string{"lit", "$E2", "${E1}x", "$NAME-$PKG", "$VA", "$$", "${}", "$", "a$", "${UNDEF}", "$1x", "${E2", "$(echo hi)", "${*}", "${VB}:${X}", "$E1$E2", "${ E1}", "$-x", "100%"}

func genTgt(r *lib.Rng) tgtSpec {
	s := tgtSpec{Pkg: lib.Pick(r, []string{"p", "p/q", "", "pkg"}), Name: lib.Pick(r, []string{"t", "lib", "a_b"})}
	s.Local = r.Chance(1, 6)
	if r.Chance(1, 2) {
		s.HasPass, s.PassEnv = true, subset(r, varPool, 3)
	}
	if r.Chance(1, 3) {
		s.HasUnsafe, s.PassUnsafe = true, subset(r, varPool, 2)
	}
	files := []string{"a.txt", "b.go", "c.c", "d/e.h"}
	ns := r.Intn(3)
	for i := 0; i < ns; i++ {
		s.Srcs = append(s.Srcs, files[i])
	}
	if r.Chance(1, 5) {
		s.NamedSrcs = map[string][]string{}
		for _, n := range []string{"go", "res"}[:r.Range(1, 2)] {
			s.NamedSrcs[n] = []string{lib.Pick(r, files)}
		}
	}
	outs := []string{"o1", "o2.txt", "d/o3", "p", "a.txt"}
	no := r.Intn(3)
	for i := 0; i < no; i++ {
		s.Outs = append(s.Outs, outs[(i+r.Intn(5))%5])
	}
	if r.Chance(1, 6) {
		s.NamedOuts = map[string][]string{"hdrs": {"x.h"}}
		if r.Bool() {
			s.NamedOuts["srcs"] = []string{"x.c", "y.c"}
		}
	}
	s.SrcListFiles = r.Chance(1, 8)
	if r.Chance(1, 4) {
		s.Secrets = subset(r, []string{"~/.secret", "/etc/sec", "~", "a:~/b", "x~/y", "~user/z", "~:~"}, 3)
	}
	if r.Chance(1, 8) {
		s.NamedSecrets = map[string][]string{"tok": {lib.Pick(r, []string{"~/tok", "/t/ok"})}}
	}
	if r.Chance(1, 2) {
		s.Env = map[string]string{}
		n := r.Range(1, 3)
		for i := 0; i < n; i++ {
			s.Env[lib.Pick(r, []string{"E1", "E2", "X", "NAME", "TMP_DIR", "VA", "OUT"})] = lib.Pick(r, envValPool)
		}
	}
	return s
}

func genCaller(r *lib.Rng) caller {
	c := caller{}
	for _, v := range varPool {
		if r.Chance(2, 3) {
			c[v] = lib.Pick(r, valPool)
		}
	}
	for _, v := range extraPool {
		if r.Chance(1, 4) {
			c[v] = lib.Pick(r, valPool)
		}
	}
	return c
}

func contains(l []string, x string) bool {
	for _, y := range l {
		if x == y {
			return true
		}
	}
	return false
}

// the caller variables the invocation may legitimately depend on, read off the DECLARATIONS (not the model):
// the four pass lists, and HOME when a secret uses "~" (fs.ExpandHomePath)
func listed(cs cfgSpec, ts tgtSpec) map[string]bool {
	out := map[string]bool{}
	for _, l := range [][]string{cs.PassEnv, cs.PassUnsafe, ts.PassEnv, ts.PassUnsafe} {
		for _, v := range l {
			out[v] = true
		}
	}
	tilde := false
	for _, x := range ts.Secrets {
		tilde = tilde || strings.Contains(x, "~")
	}
	for _, l := range ts.NamedSecrets {
		for _, x := range l {
			tilde = tilde || strings.Contains(x, "~")
		}
	}
	if tilde {
		out["HOME"] = true
	}
	return out
}

// does the user env of the target refer to one of its own keys (then Go's map iteration order shows)?
func crossRef(ts tgtSpec) bool {
	for _, v := range ts.Env {
		if !strings.Contains(v, "$") {
			continue
		}
		for k := range ts.Env {
			if strings.Contains(v, "$"+k) || strings.Contains(v, "${"+k+"}") {
				return true
			}
		}
	}
	return false
}

type caseJS struct {
	Kind    string            `json:"kind"`
	Cfg     *cfgSpec          `json:"cfg,omitempty"`
	Tgt     *tgtSpec          `json:"target,omitempty"`
	Caller  caller            `json:"caller,omitempty"`
	Caller2 caller            `json:"caller2,omitempty"`
	Obs     map[string]string `json:"observed,omitempty"`
	Same    *bool             `json:"same_hash,omitempty"`
	Note    string            `json:"note,omitempty"`
}

func emitBuildEnv(c *lib.Ctx, cs cfgSpec, ts tgtSpec, cl caller, o obs, nontrivial bool) {
	for _, be := range o.BuildEnvs[:1] {
		c.Case(lib.App("CBuildEnv", o.Cfg.coq(), o.Tgt.coq(), lib.Str(tmpDir), coqEnv(cl), coqEnv(be)),
			caseJS{Kind: "build-env", Cfg: &cs, Tgt: &ts, Caller: cl, Obs: be}, fmt.Sprint("be", cs, ts, cl), nontrivial)
	}
}

func emitHashEq(c *lib.Ctx, cs cfgSpec, ts tgtSpec, c1, c2 caller, o1, o2 obs) {
	sr, sc := bytes.Equal(o1.RuleHash, o2.RuleHash), bytes.Equal(o1.CfgHash, o2.CfgHash)
	// a target without pass_env / a configuration without passenv and [buildenv] has nothing caller-dependent to hash:
	// keep those cases only when the implementation says the hashes differ (then the model must explain it)
	if ts.HasPass || !sr {
		c.Case(lib.App("CRuleHashEq", o1.Tgt.coq(), coqEnv(c1), coqEnv(c2), lib.Bool(sr)),
			caseJS{Kind: "rule-hash-eq", Tgt: &ts, Caller: c1, Caller2: c2, Same: &sr}, fmt.Sprint("rh", ts, c1, c2), ts.HasPass && len(ts.PassEnv) > 0)
	}
	if len(cs.PassEnv) > 0 || !sc {
		c.Case(lib.App("CConfigHashEq", o1.Cfg.coq(), coqEnv(c1), coqEnv(c2), lib.Bool(sc)),
			caseJS{Kind: "config-hash-eq", Cfg: &cs, Caller: c1, Caller2: c2, Same: &sc}, fmt.Sprint("ch", cs, c1, c2), len(cs.PassEnv) > 0)
	}
}

func fresh(r *lib.Rng, old string) string {
	for {
		v := lib.Pick(r, valPool)
		if v != old {
			return v
		}
	}
}

func inProcess(c *lib.Ctx) {
	saved := os.Environ()
	defer func() {
		os.Clearenv()
		for _, kv := range saved {
			i := strings.IndexByte(kv, '=')
			os.Setenv(kv[:i], kv[i+1:])
		}
	}()
	cfgDir = filepath.Join(c.Out, "c10cfg")
	must(os.MkdirAll(cfgDir, 0o755))
	defer os.RemoveAll(cfgDir)
	logging.SetBackend(logging.NewLogBackend(io.Discard, "", 0))
	state = core.NewDefaultBuildState()

	n := c.Scale(110, 2500)
	for i := 0; i < n; i++ {
		r := c.Rng.Fork()
		cs, ts, cl := genCfg(r), genTgt(r), genCaller(r)
		allowed := listed(cs, ts)
		reps := 6
		if crossRef(ts) {
			reps = 24
		}
		o := observe(cs, ts, cl, reps)
		c.HistN("listed_vars", len(allowed))
		c.HistN("target_env_entries", len(ts.Env))
		js := map[string]any{"cfg": cs, "target": ts, "caller": cl}

		// correspondence: environment, config environment
		emitBuildEnv(c, cs, ts, cl, o, len(allowed) > 0)
		c.Case(lib.App("CConfigEnv", o.Cfg.coq(), coqEnv(cl), coqEnv(o.ConfigEnv)),
			caseJS{Kind: "config-env", Cfg: &cs, Caller: cl, Obs: o.ConfigEnv}, fmt.Sprint("ce", cs, cl), len(cs.PassEnv)+len(cs.PassUnsafe) > 0)

		// O0: the environment is a function of (config, target, caller): repeated calls agree
		c.Oracle()
		deterministic := len(o.BuildEnvs) == 1
		if !deterministic {
			cls := "build-env-nondeterministic"
			if crossRef(ts) {
				cls = "target-env-cross-reference-map-order"
			}
			c.Fail(cls, fmt.Sprintf("repeated core.BuildEnvironment calls on the same target under the same environment return different maps: %v vs %v",
				diffMaps(o.BuildEnvs[0], o.BuildEnvs[1]), diffMaps(o.BuildEnvs[1], o.BuildEnvs[0])), js)
		}

		// O1/O3: change, add and remove variables that are NOT listed: nothing may change
		c2 := cl.clone()
		changed := []string{}
		for _, v := range append(append([]string{}, varPool...), extraPool...) {
			if allowed[v] || !r.Chance(1, 2) {
				continue
			}
			if old, ok := c2[v]; ok && r.Chance(1, 3) {
				delete(c2, v)
			} else {
				c2[v] = fresh(r, old)
			}
			changed = append(changed, v)
		}
		c2["LEAK_NEW"] = "leak" + fmt.Sprint(i)
		o2 := observe(cs, ts, c2, 6)
		js2 := map[string]any{"cfg": cs, "target": ts, "caller": cl, "caller2": c2, "changed": changed}
		c.Oracle()
		if deterministic && len(o2.BuildEnvs) == 1 && !crossRef(ts) && !sameMap(o.BuildEnvs[0], o2.BuildEnvs[0]) {
			c.Fail("unlisted-caller-variable-visible", fmt.Sprintf("changing only unlisted caller variables %v changes the build environment: %v vs %v",
				changed, diffMaps(o.BuildEnvs[0], o2.BuildEnvs[0]), diffMaps(o2.BuildEnvs[0], o.BuildEnvs[0])), js2)
		}
		if !sameMap(o.ConfigEnv, o2.ConfigEnv) {
			c.Fail("unlisted-caller-variable-visible", fmt.Sprintf("changing only unlisted caller variables %v changes Configuration.GetBuildEnv: %v vs %v",
				changed, diffMaps(o.ConfigEnv, o2.ConfigEnv), diffMaps(o2.ConfigEnv, o.ConfigEnv)), js2)
		}
		c.Oracle()
		if !bytes.Equal(o.RuleHash, o2.RuleHash) || !bytes.Equal(o.CfgHash, o2.CfgHash) {
			c.Fail("unlisted-caller-variable-hashed", fmt.Sprintf("changing only unlisted caller variables %v changes the rule or config hash", changed), js2)
		}
		emitBuildEnv(c, cs, ts, c2, o2, len(allowed) > 0)
		emitHashEq(c, cs, ts, cl, c2, o, o2)

		// O3b: an unsafe variable (not also hashed) is visible but not hashed
		hashed := map[string]bool{}
		for _, v := range cs.PassEnv {
			hashed[v] = true
		}
		if ts.HasPass {
			for _, v := range ts.PassEnv {
				hashed[v] = true
			}
		}
		unsafeOnly := []string{}
		for v := range allowed {
			if !hashed[v] {
				unsafeOnly = append(unsafeOnly, v)
			}
		}
		sort.Strings(unsafeOnly)
		if len(unsafeOnly) > 0 {
			v := lib.Pick(r, unsafeOnly)
			c3 := cl.clone()
			c3[v] = fresh(r, cl[v]) + "u"
			o3 := observe(cs, ts, c3, 1)
			c.Oracle()
			if !bytes.Equal(o.RuleHash, o3.RuleHash) || !bytes.Equal(o.CfgHash, o3.CfgHash) {
				c.Fail("unsafe-variable-hashed", fmt.Sprintf("changing %s, which is only in pass_unsafe_env (or read by the code), changes a hash", v),
					map[string]any{"cfg": cs, "target": ts, "caller": cl, "caller2": c3, "changed": v})
			}
			emitHashEq(c, cs, ts, cl, c3, o, o3)
			c.Hist("unsafe_change", "1")
		}

		// O2: change ONE hashed variable visibly: the hash that covers it must change
		hv := lib.SortedKeys(hashed)
		if len(hv) > 0 {
			v := lib.Pick(r, hv)
			c4 := cl.clone()
			inTarget := ts.HasPass && contains(ts.PassEnv, v)
			inCfg := contains(cs.PassEnv, v)
			old, wasSet := cl[v]
			if wasSet && r.Chance(1, 4) && (inCfg || old != "") {
				delete(c4, v)
			} else {
				c4[v] = fresh(r, old)
				if !wasSet && c4[v] == "" && !inCfg {
					c4[v] = "nonempty" // unset -> "" is invisible to os.Getenv
				}
			}
			o4 := observe(cs, ts, c4, 1)
			js4 := map[string]any{"cfg": cs, "target": ts, "caller": cl, "caller2": c4, "changed": v}
			c.Oracle()
			_, nowSet := c4[v]
			getenvDiffers := cl[v] != c4[v]
			lookupDiffers := getenvDiffers || wasSet != nowSet
			if inTarget && getenvDiffers && bytes.Equal(o.RuleHash, o4.RuleHash) {
				c.Fail("pass-env-change-not-hashed", fmt.Sprintf("target pass_env variable %s changed from %q to %q, rule hash unchanged", v, cl[v], c4[v]), js4)
			}
			if inCfg && lookupDiffers && bytes.Equal(o.CfgHash, o4.CfgHash) {
				cls := "pass-env-change-not-hashed"
				if strings.HasPrefix(v, "SECRET") {
					cls = "config-passenv-secret-prefix-not-hashed"
				}
				c.Fail(cls, fmt.Sprintf("[build] passenv variable %s changed from %q (set=%v) to %q (set=%v), config hash unchanged", v, cl[v], wasSet, c4[v], nowSet), js4)
			}
			emitHashEq(c, cs, ts, cl, c4, o, o4)
			c.Hist("hashed_change", map[bool]string{true: "target", false: "config"}[inTarget])
		}
	}

	// O2b adversarial: two hashed variables changed together so that the hashed bytes line up - under the unchanged
	// framing (name '=' value, the KNOWN finding) and under four other framings a regression could introduce.
	// A collision is the known class only if the harness's own rendering of the unchanged framing is equal for both callers.
	for i := 0; i < c.Scale(14, 120); i++ {
		r := c.Rng.Fork()
		a, b := "VA", lib.Pick(r, []string{"VB", "VC"}) // a sorts before b (Configuration.Hash sorts)
		x, y := lib.Pick(r, []string{"q", "1", "zz", "p:q"}), lib.Pick(r, []string{"2", "w", "", "k9"})
		type pair struct {
			shape  string
			c1, c2 caller
		}
		pairs := []pair{
			{"unchanged-framing", caller{a: "", b: b + "=" + x}, caller{a: b + "=", b: x}},
			{"separator-dropped", caller{a: x + b + y, b: ""}, caller{a: x, b: y + b}},
			{"names-dropped", caller{a: x + "=" + y, b: "z"}, caller{a: x, b: y + "=z"}},
			{"values-only", caller{a: x + y + "m", b: "z"}, caller{a: x, b: y + "mz"}},
			{"separator-after-value", caller{a: "=" + b, b: ""}, caller{a: "", b: "=" + b}},
		}
		// and a random '='-free pair: by C10_framing the unchanged code can never collide on it
		rv := func() string {
			return lib.Pick(r, []string{"", "1", "V", "VB", "VC", "1V2", "2V", "x y", "VA", "q"}) + lib.Pick(r, []string{"", "B", "VB", "C", "7"})
		}
		pairs = append(pairs, pair{"random-no-equals", caller{a: rv(), b: rv()}, caller{a: rv(), b: rv()}})
		for _, p := range pairs {
			p.c1["PATH"], p.c2["PATH"] = "/bin", "/bin"
			for _, level := range []string{"target", "config"} {
				cs, ts := cfgSpec{Arch: "amd64", OS: "linux", Location: "/opt/plz"}, tgtSpec{Pkg: "p", Name: "t", Outs: []string{"o"}}
				if level == "target" {
					ts.HasPass, ts.PassEnv = true, []string{a, b}
				} else {
					cs.PassEnv = []string{b, a} // Hash() sorts the keys
				}
				o1, o2 := observe(cs, ts, p.c1, 1), observe(cs, ts, p.c2, 1)
				c.Oracle()
				h1, h2 := o1.RuleHash, o2.RuleHash
				if level == "config" {
					h1, h2 = o1.CfgHash, o2.CfgHash
				}
				c.Hist("collision_shape", p.shape)
				if bytes.Equal(h1, h2) && !sameMap(o1.BuildEnvs[0], o2.BuildEnvs[0]) {
					cls, why := classifyCollision([]string{a, b}, p.c1, p.c2)
					c.Fail(cls, fmt.Sprintf("%s-level pass_env [%s %s]: callers {%s=%q %s=%q} and {%s=%q %s=%q} give different build environments but the same %s hash (%s; pair shape %s)",
						level, a, b, a, p.c1[a], b, p.c1[b], a, p.c2[a], b, p.c2[b], level, why, p.shape), map[string]any{"cfg": cs, "target": ts, "caller": p.c1, "caller2": p.c2, "shape": p.shape})
				}
				emitHashEq(c, cs, ts, p.c1, p.c2, o1, o2)
			}
		}
	}

	// helpers of the model, directly
	homes := []string{"/home/u", "", "/h:o", "~", "/x/~/y"}
	paths := []string{"~", "~/a", "~:~", "a:~/b:~", "~x", "x~/y", "~user/z", ":~", "~/", "~/~/~", "a:~", "~:", "::~:~", "/etc/~", "~~"}
	for _, h := range homes {
		for _, p := range paths {
			out := fs.ExpandHomePathTo(p, h)
			c.Case(lib.App("CExpandHome", lib.Str(h), lib.Str(p), lib.Str(out)), caseJS{Kind: "expand-home", Note: h + " | " + p + " -> " + out}, "eh"+h+"|"+p, strings.Contains(p, "~"))
		}
	}
	fixed := map[string]string{"A": "1", "B": "", "AB": "x y", "_": "u", "1": "one", "*": "star"}
	exps := append([]string{"$A", "${A}", "$AB$A", "${AB", "${}", "$", "$$", "a$", "$ A", "${*}", "${1}x", "$1x", "$A-$B-$C", "${C}", "$(A)", "x${A}y${B}z", "$_", "${_}", "$-", "${A}}", "{$A}", "$é", "${A B}", "$?"}, envValPool...)
	for _, x := range exps {
		out := os.Expand(x, func(k string) string {
			if v, ok := fixed[k]; ok {
				return v
			}
			return "$" + k
		})
		c.Case(lib.App("CExpand", coqEnv(fixed), lib.Str(x), lib.Str(out)), caseJS{Kind: "os-expand", Note: x + " -> " + out}, "ex"+x, strings.Contains(x, "$"))
	}

	// round-2 streams (same process environment discipline, same scratch configuration directory)
	triStateStream(c)
	headerStream(c)
}

// unchangedFraming renders what the UNCHANGED code hashes of the given pass_env names under a caller: name, '=', value per
// variable, in the given order (ruleHash: declaration order; Configuration.Hash: sorted - the caller of this function
// passes the names in the order that applies). Independent of the implementation and of the Coq model.
func unchangedFraming(names []string, c map[string]string) string {
	var b strings.Builder
	for _, n := range names {
		b.WriteString(n)
		b.WriteByte('=')
		b.WriteString(c[n])
	}
	return b.String()
}

// classifyCollision: two callers with different values for the hashed names got the same hash. It is the known finding
// only if the unchanged framing really does not separate them.
func classifyCollision(names []string, c1, c2 map[string]string) (string, string) {
	if unchangedFraming(names, c1) == unchangedFraming(names, c2) {
		return "pass-env-unframed-collision", "name=value runs are not framed: the unchanged framing writes the same bytes for both callers"
	}
	return "pass-env-collision-separated-by-unchanged-framing", fmt.Sprintf("the unchanged framing name '=' value writes DIFFERENT bytes, %q vs %q, so the hashes must differ",
		unchangedFraming(names, c1), unchangedFraming(names, c2))
}

func diffMaps(a, b map[string]string) string {
	parts := []string{}
	for _, k := range lib.SortedKeys(a) {
		if w, ok := b[k]; !ok || w != a[k] {
			parts = append(parts, fmt.Sprintf("%s=%q", k, a[k]))
		}
	}
	return "{" + strings.Join(parts, " ") + "}"
}

func must(err error) {
	if err != nil {
		panic(err)
	}
}

// ------------------------------------------------------------------------------------------- end to end

type e2eHistory struct {
	Spec  *e2e.C10Spec  `json:"spec"`
	Kinds []string      `json:"kinds"`
	Steps []e2e.C10Step `json:"steps"`
	Fails []lib.Failing `json:"-"`
	Cases []e2eCase     `json:"-"`
	Evals int           `json:"-"`
	Orcl  int           `json:"-"`
}

type e2eCase struct {
	coq string
	js  any
	key string
}

var tokenCounter struct {
	sync.Mutex
	n int
}

func runE2E(r *lib.Rng, base string, idx int, steps int, plzDir string) *e2eHistory {
	h := &e2eHistory{}
	tok := 0
	token := func() string { tok++; return fmt.Sprintf("cv%dh%dx", tok, idx) }
	spec := &e2e.C10Spec{}
	cfgPool := []string{"CFG_A", "CFG_B", "SECRET_S", "PATH", "LANG"}
	for _, v := range cfgPool {
		if r.Chance(1, 3) || (v == "CFG_A" && r.Chance(1, 2)) {
			spec.PassEnv = append(spec.PassEnv, v)
		}
	}
	if r.Chance(2, 3) {
		spec.PassUnsafeEnv = append(spec.PassUnsafeEnv, "CFG_U")
		if r.Chance(1, 4) {
			spec.PassUnsafeEnv = append(spec.PassUnsafeEnv, "HOME")
		}
	}
	if r.Chance(1, 2) {
		spec.BuildEnv = map[string]string{"foo-bar": "baz"}
	}
	nt := r.Range(2, 3)
	for i := 0; i < nt; i++ {
		t := &e2e.C10Target{Name: fmt.Sprintf("t%d", i)}
		if i == 0 {
			t.HasPass = true
			t.PassEnv = append([]string{"T_A", "T_B"}, subset(r, []string{"T_A", "CFG_U", "USER"}, 1)...)
		} else if r.Chance(1, 2) {
			t.HasPass = true
			t.PassEnv = subset(r, []string{"T_A", "T_B", "T_A", "CFG_U", "USER"}, 3)
		}
		if r.Chance(1, 3) {
			t.Env = map[string]string{"X1": "lit", "Y1": "v-$NAME-$T_A"}
		}
		if r.Chance(1, 2) {
			t.Srcs = []string{"a.txt", "b.txt"}[:r.Range(1, 2)]
		}
		spec.Targets = append(spec.Targets, t)
	}
	h.Spec = spec
	repo := e2e.NewRepo(base, "repo")
	repo.Threads = 2
	repo.C10Write(spec)

	listedFor := func(t *e2e.C10Target) map[string]bool {
		m := map[string]bool{}
		for _, l := range [][]string{spec.PassEnv, spec.PassUnsafeEnv, t.PassEnv} {
			for _, v := range l {
				m[v] = true
			}
		}
		return m
	}
	inCfgPass := func(v string) bool { return contains(spec.PassEnv, v) }

	names := []string{"CFG_A", "CFG_B", "CFG_U", "SECRET_S", "T_A", "T_B", "USER", "LANG", "HOME", "TERM", "LEAK_1", "LEAK_2", "EDITOR", "XDG_CONFIG_HOME"}
	cl := map[string]string{"PATH": "/usr/local/bin:/usr/bin:/bin", "GOMAXPROCS": "2"} // GOMAXPROCS: an unlisted variable that also keeps plz cheap
	tokenOwner := map[string]string{}                                                  // token -> variable name, over the whole history
	setVar := func(v string) {
		t := token()
		tokenOwner[t] = v
		if v == "PATH" {
			cl[v] = "/usr/local/bin:/usr/bin:/bin:/" + t
		} else if v == "HOME" || v == "XDG_CONFIG_HOME" {
			cl[v] = "/nonexistent-" + t
		} else {
			cl[v] = "val-" + t
		}
	}
	for _, v := range names {
		if r.Chance(3, 4) {
			setVar(v)
		}
	}
	allLabels := spec.Labels()
	prev := map[string]e2e.C10Dump{}
	for si := 0; si <= steps; si++ {
		kind := "initial"
		expect := map[string]bool{}
		var changedVar string
		var collisionBefore map[string]string
		if si == 0 {
			for _, l := range allLabels {
				expect[l] = true
			}
		} else {
			kinds := []string{"unlisted", "unlisted", "target-pass", "target-pass", "clean", "collision", "collision-nosep"}
			if len(spec.PassEnv) > 0 {
				kinds = append(kinds, "cfg-pass", "cfg-pass")
			}
			if len(spec.PassUnsafeEnv) > 0 {
				kinds = append(kinds, "unsafe", "unsafe")
			}
			kind = lib.Pick(r, kinds)
			switch kind {
			case "unlisted", "clean":
				// variables listed nowhere in this repository
				n := 0
				for _, v := range append([]string{"PATH"}, names...) {
					any := inCfgPass(v) || contains(spec.PassUnsafeEnv, v)
					for _, t := range spec.Targets {
						any = any || contains(t.PassEnv, v)
					}
					if any || !r.Chance(1, 2) {
						continue
					}
					if _, ok := cl[v]; ok && v != "PATH" && r.Chance(1, 4) {
						delete(cl, v)
					} else {
						setVar(v)
					}
					n++
				}
				setVar(fmt.Sprintf("NEWVAR_%d", si))
				if kind == "clean" {
					repo.RemovePlzOut()
					for _, l := range allLabels {
						expect[l] = true
					}
				}
			case "unsafe":
				cands := []string{}
				for _, v := range spec.PassUnsafeEnv {
					hashedSomewhere := inCfgPass(v)
					for _, t := range spec.Targets {
						hashedSomewhere = hashedSomewhere || contains(t.PassEnv, v)
					}
					if !hashedSomewhere {
						cands = append(cands, v)
					}
				}
				if len(cands) == 0 {
					kind = "noop"
				} else {
					changedVar = lib.Pick(r, cands)
					setVar(changedVar)
				}
			case "target-pass":
				cands := []string{}
				for _, t := range spec.Targets {
					for _, v := range t.PassEnv {
						if !inCfgPass(v) {
							cands = append(cands, v)
						}
					}
				}
				if len(cands) == 0 {
					kind = "noop"
				} else {
					changedVar = lib.Pick(r, cands)
					setVar(changedVar)
					for _, t := range spec.Targets {
						if contains(t.PassEnv, changedVar) {
							expect["//p:"+t.Name] = true
						}
					}
				}
			case "cfg-pass":
				if len(spec.PassEnv) == 0 {
					kind = "noop"
				} else {
					changedVar = lib.Pick(r, spec.PassEnv)
					if _, ok := cl[changedVar]; ok && changedVar != "PATH" && r.Chance(1, 4) {
						delete(cl, changedVar) // set -> unset is a visible change for [build] passenv (LookupEnv)
					} else {
						setVar(changedVar)
					}
					for _, l := range allLabels {
						expect[l] = true
					}
				}
			case "collision", "collision-nosep":
				// needs a target with two distinct pass_env names, neither covered by the config hash
				var tgt *e2e.C10Target
				var a, b string
				for _, t := range spec.Targets {
					for i := 0; i+1 < len(t.PassEnv); i++ {
						if t.PassEnv[i] != t.PassEnv[i+1] && !inCfgPass(t.PassEnv[i]) && !inCfgPass(t.PassEnv[i+1]) && !contains(t.PassEnv[:i], t.PassEnv[i+1]) && !contains(t.PassEnv[:i], t.PassEnv[i]) {
							tgt, a, b = t, t.PassEnv[i], t.PassEnv[i+1]
						}
					}
				}
				if tgt == nil {
					kind = "noop"
				} else {
					t := token()
					if kind == "collision" {
						// first half: A="", B="B=<tok>"; one build; second half: A="B=", B="<tok>"
						tokenOwner[t] = b
						cl[a], cl[b] = "", b+"="+t
					} else {
						// a pair the UNCHANGED framing separates; it lines up only if the '=' is not written:
						// first half: A="<tok>Bw", B=""; second half: A="<tok>", B="wB"
						tokenOwner[t] = a
						cl[a], cl[b] = t+b+"w", ""
					}
					collisionBefore = copyMap(cl)
					half := repo.C10Build(spec, copyMap(cl))
					prev = half.Dumps
					if kind == "collision" {
						cl[a], cl[b] = b+"=", t
					} else {
						cl[a], cl[b] = t, "w"+b
					}
					changedVar = a + "," + b
					for _, t2 := range spec.Targets {
						if contains(t2.PassEnv, a) || contains(t2.PassEnv, b) {
							expect["//p:"+t2.Name] = true
						}
					}
				}
			}
		}
		st := repo.C10Build(spec, copyMap(cl))
		h.Kinds = append(h.Kinds, kind)
		h.Steps = append(h.Steps, st)
		h.Evals++
		js := map[string]any{"history": idx, "step": si, "kind": kind, "changed": changedVar, "spec": spec, "caller": st.Caller, "executed": st.Executed, "exit": st.Exit}
		if collisionBefore != nil {
			js["caller_before"] = collisionBefore // the environment of the build just before this one
		}
		fail := func(class, what string) {
			h.Fails = append(h.Fails, lib.Failing{Class: class, What: what, Input: withDumps(js, st, prev)})
		}
		h.Orcl++
		if st.Exit != 0 {
			fail("build-fails", fmt.Sprintf("plz build exits %d: %s", st.Exit, st.Stderr))
			break
		}
		// (2)/(3) rebuild decisions
		got := map[string]bool{}
		for _, l := range st.Executed {
			got[l] = true
		}
		for _, l := range allLabels {
			h.Orcl++
			switch {
			case expect[l] && !got[l]:
				cls := "no-rebuild-on-pass-env-change"
				if kind == "collision" || kind == "collision-nosep" {
					// known only if the unchanged framing of THIS target's pass_env is the same before and after
					cls, _ = classifyCollision(spec.Target(l).PassEnv, collisionBefore, cl)
				} else if kind == "cfg-pass" && strings.HasPrefix(changedVar, "SECRET") {
					cls = "config-passenv-secret-prefix-not-hashed"
				}
				fail(cls, fmt.Sprintf("step %q changed %s, which %s passes to its command and hashes, but the command was not re-run (stale environment in its output)", kind, changedVar, l))
			case !expect[l] && got[l]:
				fail("rebuild-on-unlisted-change", fmt.Sprintf("step %q changed only variables %s does not hash (%s), but its command was re-run", kind, l, changedVar))
			}
		}
		for _, t := range spec.Targets {
			l := "//p:" + t.Name
			d := st.Dumps[l]
			if !d.Present {
				fail("output-missing", l+" has no output")
				continue
			}
			lst := listedFor(t)
			// (1) nothing of an unlisted caller variable is visible: neither under its name nor by value
			h.Orcl++
			for k, v := range d.Vars {
				for tk, owner := range tokenOwner {
					if strings.Contains(v, tk) && !lst[owner] {
						fail("unlisted-caller-variable-visible", fmt.Sprintf("%s sees %s=%q, which carries the value of the caller's %s (listed in no pass_env/pass_unsafe_env)", l, k, v, owner))
					}
				}
			}
			// listed variables are visible with the caller's value when the command ran in this step
			if got[l] {
				h.Orcl++
				for v := range lst {
					want, set := cl[v]
					have, present := d.Vars[v]
					if v == "PATH" || v == "HOME" || v == "LANG" { // overridden or rewritten by the build environment itself
						continue
					}
					_, userSet := t.Env[v]
					if userSet {
						continue
					}
					if set && (!present || have != want) {
						fail("listed-variable-not-passed", fmt.Sprintf("%s lists %s (caller value %q) but its command saw %q (present=%v)", l, v, want, have, present))
					}
				}
			}
			// (3) a command that did not run keeps its output
			if !got[l] && si > 0 {
				h.Orcl++
				if prev[l].Raw != d.Raw {
					fail("output-changed-without-rebuild", l+" was not re-run but its output changed")
				}
			}
			// clean rebuild under different unlisted variables: byte-identical dump (temp dir path is the same)
			if kind == "clean" {
				h.Orcl++
				// listed variables may legitimately be stale in the old output (unsafe ones by design) and are checked above
				skip := map[string]bool{}
				for v := range lst {
					skip[v] = true
				}
				for k := range t.Env {
					skip[k] = true
				}
				if normDump(prev[l], skip) != normDump(d, skip) {
					fail("unlisted-caller-variable-changes-output", fmt.Sprintf("%s rebuilt from scratch under different unlisted variables gives a different environment: %s", l, diffMaps(d.Vars, prev[l].Vars)))
				}
			}
			// correspondence with the model for commands that ran now
			if got[l] {
				h.Cases = append(h.Cases, e2eModelCase(spec, t, st, d, plzDir, idx, si))
			}
		}
		prev = st.Dumps
	}
	return h
}

func copyMap(m map[string]string) map[string]string {
	out := map[string]string{}
	for k, v := range m {
		out[k] = v
	}
	return out
}

func withDumps(js map[string]any, st e2e.C10Step, prev map[string]e2e.C10Dump) map[string]any {
	out := map[string]any{}
	for k, v := range js {
		out[k] = v
	}
	d := map[string]map[string]string{}
	for l, x := range st.Dumps {
		d[l] = x.Vars
	}
	out["dumps"] = d
	return out
}

// variables bash itself maintains, and the stamp (a function of the hashes, covered by C08)
var shellVars = map[string]bool{"PWD": true, "SHLVL": true, "_": true, "OLDPWD": true, "RULE_HASH": true}

func normDump(d e2e.C10Dump, skip map[string]bool) string {
	parts := []string{}
	for _, k := range lib.SortedKeys(d.Vars) {
		if !shellVars[k] && !skip[k] {
			parts = append(parts, k+"="+d.Vars[k])
		}
	}
	return strings.Join(parts, "\n")
}

func e2eModelCase(spec *e2e.C10Spec, t *e2e.C10Target, st e2e.C10Step, d e2e.C10Dump, plzDir string, hi, si int) e2eCase {
	mc := modelCfg{Lang: "en_GB.UTF-8", Arch: runtime.GOARCH, OS: runtime.GOOS, PassUnsafe: spec.PassUnsafeEnv, PassEnv: spec.PassEnv,
		Location: plzDir, Path: []string{"/usr/local/bin", "/usr/bin", "/bin"}, BuildConfig: "opt", Nonce: "1402"}
	for _, k := range lib.SortedKeys(spec.BuildEnv) {
		mc.BuildEnv = append(mc.BuildEnv, [2]string{k, spec.BuildEnv[k]})
	}
	mt := modelTgt{Pkg: "p", PkgDir: "p", Name: t.Name, HasPass: t.HasPass || len(t.PassEnv) > 0, PassEnv: t.PassEnv, Outs: []string{t.Name + ".env"}, Env: t.Env}
	for _, f := range t.Srcs {
		mt.Srcs = append(mt.Srcs, "p/"+f)
	}
	obs := map[string]string{}
	for k, v := range d.Vars {
		if !shellVars[k] {
			obs[k] = v
		}
	}
	js := map[string]any{"kind": "e2e-build-env", "history": hi, "step": si, "spec": spec, "target": t.Name, "caller": st.Caller, "observed": obs}
	return e2eCase{coq: lib.App("CBuildEnv", mc.coq(), mt.coq(), lib.Str(d.Vars["TMP_DIR"]), coqEnv(st.Caller), coqEnv(obs)),
		js: js, key: fmt.Sprint("e2e", hi, si, t.Name)}
}

func endToEnd(c *lib.Ctx) {
	plz := os.Getenv("VERIF_PLZ")
	if plz == "" {
		plz = "/verif/build/bin/plz"
	}
	real, err := filepath.EvalSymlinks(plz)
	must(err)
	plzDir := filepath.Dir(real)
	nh := c.Scale(10, 100)
	steps := c.Scale(6, 10)
	base := e2e.Scratch("c10")
	defer os.RemoveAll(base)
	rngs := make([]*lib.Rng, nh)
	for i := range rngs {
		rngs[i] = c.Rng.Fork()
	}
	out := make([]*e2eHistory, nh)
	var wg sync.WaitGroup
	sem := make(chan struct{}, 6)
	for i := 0; i < nh; i++ {
		wg.Add(1)
		sem <- struct{}{}
		go func(i int) {
			defer wg.Done()
			defer func() { <-sem }()
			dir := fmt.Sprintf("%s/h%d", base, i)
			must(os.MkdirAll(dir, 0o755))
			out[i] = runE2E(rngs[i], dir, i, steps, plzDir)
			os.RemoveAll(dir)
		}(i)
	}
	wg.Wait()
	inv := 0
	for i, h := range out {
		for si, st := range h.Steps {
			inv++
			c.Hist("e2e_step", h.Kinds[si])
			c.HistN("e2e_executed", len(st.Executed))
			c.Eval(map[string]any{"kind": "e2e-step", "history": i, "step": si, "step_kind": h.Kinds[si], "executed": st.Executed, "cfg_pass_env": h.Spec.PassEnv, "cfg_pass_unsafe_env": h.Spec.PassUnsafeEnv},
				fmt.Sprint("e2estep", i, si), si > 0 && h.Kinds[si] != "noop")
		}
		for k := 0; k < h.Orcl; k++ {
			c.Oracle()
		}
		for _, f := range h.Fails {
			c.Fail(f.Class, f.What, f.Input)
		}
		for _, cs := range h.Cases {
			c.Case(cs.coq, cs.js, cs.key, true)
		}
	}
	c.Note("end to end: %d histories, %d plz invocations (plus collision half-steps), location %s", nh, inv, plzDir)
}

func main() {
	sandboxReexec()
	lib.Main("C10", func(c *lib.Ctx) {
		c.Model("From PlzV Require Import Model.C10.", "C10.case", "C10.check")
		c.Rule("in-process: random (config file read by core.ReadConfigFiles, core.BuildTarget, caller environment) triples - pass_env / pass_unsafe_env at both levels drawn from a pool that " +
			"includes PATH, HOME, LANG, SECRET-prefixed and build-variable names; [buildenv]; target env with $-references; secrets with ~ - observed through core.BuildEnvironment, GetBuildEnv, " +
			"Configuration.Hash and build.RuleHash under os.Clearenv/Setenv, each compared against a second caller that differs (a) only in unlisted variables, (b) in one unsafe variable, (c) in one hashed variable, " +
			"(d) in two hashed variables chosen so that unframed name=value runs collide. end to end: real plz on repositories of 2-3 genrules dumping `env | sort`, 7 steps each (unlisted / unsafe / " +
			"target pass_env / [build] passenv changes, clean rebuilds, collision pairs); every caller value carries a unique token so that leaks are found by value. " +
			"follow-up streams: (e) pairs of callers that would collide under OTHER framings of the pass_env bytes (separator dropped, names dropped, separator after the value) and random '='-free pairs - " +
			"a collision counts as the known class only if the two callers' bytes are equal under the UNCHANGED framing name '=' value, computed by the harness; (f) the real Executor.ExecWithTimeout " +
			"(ExecCommand, os/exec, sandbox.Sandbox via re-exec of this binary) on name=value lists with duplicates / overrides / missing TMP_DIR under two callers, process = /usr/bin/env; " +
			"(g) real plz with [sandbox] build = true and an empty tool on repositories under /var/tmp, sandboxed and unsandboxed genrules dumping their environment. " +
			"distinct = distinct (config, target, caller[, caller2]) inputs; non-trivial = at least one listed variable (in-process) or a step after the first that changes the environment (end to end)")
		userns := haveUserNS()
		if os.Getenv("C10_SKIP_E2E") == "" {
			endToEnd(c)
			endToEndSandbox(c, userns)
			endToEndR2(c)
		}
		inProcess(c)
		execStream(c, userns)
	})
}
