// C32 follow-up 2, Part H: targets with pinned `hashes`.
//
// One genrule whose outputs do NOT match the `hashes` pinned in the BUILD file (a tampered / corrupted vendored
// payload) plus a dependent target, and a control whose outputs do match. The REAL plz is killed by strace on entry
// to chosen syscalls on the target's files in plz-out/gen - the metadata rename, the output rename, every lsetxattr
// on the output (path-hash memos of OutputHash and of checkRuleHashes' hashers, the record user.plz_build), the
// lsetxattr on the metadata file (writeRuleHash's last step) and the unlinkat of the output (RemoveOutputs after the
// failed verification) - once, twice in a row, and after a completed (failed) build. Then a normal build runs.
// Oracle: it must end as the clean build does - for the bad target with "Bad output hash", exit != 0 and none of
// the outputs (never exit 0 with the unverified payload fed to the dependent target); a further build too.
// An uninterrupted build under strace must not write any record for the target whose verification fails.
// Model side (Model/C32_Hash.v): the state found after the kill is a prefix state of hbuild_steps, the model's
// decision and outcome for it are what plz then did.
package main

import (
	"crypto/sha1"
	"crypto/sha256"
	"encoding/hex"
	"fmt"
	"os"
	"os/exec"
	"path/filepath"
	"strconv"
	"strings"
	"sync"
	"syscall"
	"time"

	"verifharness/e2e"
	"verifharness/lib"
)

type HSpec struct {
	Shape   string   `json:"shape"`
	Name    string   `json:"name"`
	Payload string   `json:"payload"`
	Outs    []string `json:"outs"`
	Hashes  []string `json:"hashes"`
	Bad     bool     `json:"bad"` // the outputs do not match the pinned hashes
}

// content of output i
func (h *HSpec) content(i int) string { return h.Payload + fmt.Sprintf("part %d\n", i) }

func (h *HSpec) cmd() string {
	var parts []string
	for i, o := range h.Outs {
		parts = append(parts, fmt.Sprintf("{ cat $SRCS; echo part %d; } > %s", i, o))
	}
	return strings.Join(parts, " && ")
}

func (h *HSpec) write(dir string) {
	must(os.MkdirAll(dir, 0o755))
	must(os.WriteFile(filepath.Join(dir, ".plzconfig"), []byte("[build]\npath = /usr/local/bin:/usr/bin:/bin\n[cache]\ndir = \n[display]\nupdatetitle = false\n"), 0o644))
	must(os.WriteFile(filepath.Join(dir, "payload.txt"), []byte(h.Payload), 0o644))
	q := func(xs []string) string {
		var o []string
		for _, x := range xs {
			o = append(o, strconv.Quote(x))
		}
		return "[" + strings.Join(o, ", ") + "]"
	}
	build := fmt.Sprintf("genrule(\n    name = %s,\n    srcs = [\"payload.txt\"],\n    outs = %s,\n    cmd = %s,\n    hashes = %s,\n)\n\n",
		strconv.Quote(h.Name), q(h.Outs), strconv.Quote(h.cmd()), q(h.Hashes))
	build += fmt.Sprintf("genrule(\n    name = \"use\",\n    srcs = [\":%s\"],\n    outs = [\"use.txt\"],\n    cmd = \"echo using: > $OUT && cat $SRCS >> $OUT\",\n)\n", h.Name)
	must(os.WriteFile(filepath.Join(dir, "BUILD"), []byte(build), 0o644))
}

func (h *HSpec) tinfo() *TInfo {
	return &TInfo{Label: "//:" + h.Name, Pkg: "", T: &e2e.Target{Name: h.Name}, OutDir: filepath.Join("plz-out", "gen"), Decl: append([]string{}, h.Outs...)}
}

func (h *HSpec) newIDs() []string {
	ti := h.tinfo()
	idx := map[string]int{}
	for i, o := range h.Outs {
		idx[o] = i
	}
	var out []string
	for _, n := range ti.all() {
		out = append(out, lib.Pair(lib.Str(n), lib.N(contentID(fmt.Sprintf("file(%q)", h.content(idx[n]))))))
	}
	return out
}

// hObserve: observe, with the path-hash memo decided by recomputation: every user.plz_hash* xattr that can be
// recomputed here (sha1, sha256) must be the hash of the file as it is; then the memo stands for the content.
func hObserve(dir string, h *HSpec) *Obs {
	ti := h.tinfo()
	o := observe(dir, ti, false)
	for n, f := range o.Outs {
		p := filepath.Join(dir, ti.OutDir, n)
		data, err := os.ReadFile(p)
		if err != nil {
			continue
		}
		buf := make([]byte, 1024)
		sz, err := syscall.Listxattr(p, buf)
		if err != nil {
			continue
		}
		any, wrong := false, false
		for _, a := range strings.Split(string(buf[:sz]), "\x00") {
			if !strings.HasPrefix(a, "user.plz_hash") {
				continue
			}
			any = true
			v := getx(p, a)
			s1, s256 := sha1.Sum(data), sha256.Sum256(data)
			switch {
			case a == "user.plz_hash" || strings.HasSuffix(a, "_sha1"):
				wrong = wrong || string(v) != string(s1[:])
			case strings.HasSuffix(a, "_sha256"):
				wrong = wrong || string(v) != string(s256[:])
			}
		}
		switch {
		case !any:
			f.Hash = nil
		case wrong:
			id := uint64(1000000) + f.Content
			f.Hash = &id
		default:
			id := f.Content
			f.Hash = &id
		}
	}
	return o
}

func coqOuts(o *Obs) string {
	var outs []string
	for _, n := range lib.SortedKeys(o.Outs) {
		f := o.Outs[n]
		hh := "None"
		if f.Hash != nil {
			hh = lib.Some(lib.N(*f.Hash))
		}
		outs = append(outs, lib.Pair(lib.Str(n), lib.App("mkFile", lib.N(f.Content), hh, coqRecOpt(f.Rec))))
	}
	return lib.List(outs)
}

type hRun struct {
	Exit   int
	Out    string
	Killed bool
}

// hPlz runs `plz build //:use`; pt != nil: under strace as the point says (Mode "log": traced, not killed; log at logPath).
func hPlz(dir, scratch string, pt *Point, logPath string) hRun {
	plz := os.Getenv("VERIF_PLZ")
	if plz == "" {
		plz = "/verif/build/bin/plz"
	}
	bin := plz
	if pt != nil {
		bin = straceScript(scratch, plz, logPath, pt)
		defer os.Remove(bin)
	}
	cmd := exec.Command(bin, "--plain_output", "-v", "1", "build", "//:use")
	cmd.Dir = dir
	cmd.Env = plzEnv
	cmd.SysProcAttr = &syscall.SysProcAttr{Setpgid: true}
	var buf strings.Builder
	cmd.Stdout, cmd.Stderr = &buf, &buf
	must(cmd.Start())
	done := make(chan error, 1)
	go func() { done <- cmd.Wait() }()
	var err error
	select {
	case err = <-done:
	case <-time.After(180 * time.Second):
		syscall.Kill(-cmd.Process.Pid, syscall.SIGKILL)
		<-done
		panic("plz build did not finish within 180 s: " + tailStr(buf.String(), 600))
	}
	r := hRun{Out: buf.String()}
	if err != nil {
		if ee, ok := err.(*exec.ExitError); ok {
			r.Exit = ee.ExitCode()
		} else {
			r.Exit = -1
		}
	}
	r.Killed = pt != nil && pt.Mode != "log" && (r.Exit == 137 || r.Exit == -1 || r.Exit == -9)
	if r.Killed {
		time.Sleep(100 * time.Millisecond) // build commands plz had spawned are not traced: let them finish
	}
	return r
}

type hJob struct {
	Spec   *HSpec  `json:"hspec"`
	Pre    bool    `json:"pre"` // an uninterrupted build first (for a bad target: it fails and leaves the metadata file)
	Points []Point `json:"points"`
	Trace  bool    `json:"trace"` // no kill: an uninterrupted build under strace
}

type hEnd struct {
	Exit    int               `json:"exit"`
	BadHash bool              `json:"bad_hash"`
	Left    map[string]string `json:"left"`                   // outputs present in plz-out/gen afterwards (name -> content)
	Lost    bool              `json:"message_lost,omitempty"` // exit 2 and nothing but the result line printed (see end)
	Log     string            `json:"log,omitempty"`
}

func (h *HSpec) end(dir string, r hRun) hEnd {
	msg := "Bad output hash for rule //:" + h.Name
	e := hEnd{Exit: r.Exit, BadHash: strings.Contains(r.Out, msg), Left: map[string]string{}}
	if !e.BadHash && r.Exit != 0 {
		if d, err := os.ReadFile(filepath.Join(dir, "plz-out", "log", "build.log")); err == nil && strings.Contains(string(d), msg) {
			e.BadHash = true
		}
	}
	// On a loaded machine plz's display goroutine now and then misses the failure result: plz exits 2 (build failed)
	// having printed only the result line of the target it did not build. Not a C32 matter: the exit code and the
	// files left are compared, the message is taken as lost.
	e.Lost = r.Exit == 2 && !e.BadHash && strings.TrimSpace(r.Out) == "plz-out/gen/use.txt"
	for _, o := range append(append([]string{}, h.Outs...), "use.txt") {
		if d, err := os.ReadFile(filepath.Join(dir, "plz-out", "gen", o)); err == nil {
			e.Left[o] = string(d)
		}
	}
	if r.Exit != 0 {
		e.Log = tailStr(firstLineOr(r.Out, "Bad output hash"), 300)
		if !e.BadHash {
			e.Log = tailStr(r.Out, 1500)
		}
	}
	return e
}

func sameEnd(a, b hEnd) (bool, string) {
	if (a.Exit == 0) != (b.Exit == 0) {
		return false, fmt.Sprintf("exit %d, the clean build exits %d", a.Exit, b.Exit)
	}
	if a.BadHash != b.BadHash && !a.Lost && !b.Lost {
		return false, fmt.Sprintf("`Bad output hash` reported: %v, by the clean build: %v", a.BadHash, b.BadHash)
	}
	for _, k := range lib.SortedKeys(a.Left) {
		if v, ok := b.Left[k]; !ok {
			return false, fmt.Sprintf("plz-out/gen/%s is present (%q), the clean build leaves none", k, a.Left[k])
		} else if v != a.Left[k] {
			return false, fmt.Sprintf("plz-out/gen/%s is %q, the clean build gives %q", k, a.Left[k], v)
		}
	}
	for _, k := range lib.SortedKeys(b.Left) {
		if _, ok := a.Left[k]; !ok {
			return false, fmt.Sprintf("plz-out/gen/%s is missing", k)
		}
	}
	return true, ""
}

type hResult struct {
	job      hJob
	clean    hEnd
	killed   []bool
	before   *Obs // before the last killed build
	after    *Obs // after it
	final    *Obs
	rec      hEnd
	again    hEnd
	nplz     int
	recorded []string // Trace: record writes seen in the uninterrupted build
}

func runHJob(base string, j hJob, cleanOf func(*HSpec) hEnd) *hResult {
	r := &hResult{job: j}
	r.clean = cleanOf(j.Spec)
	dir := filepath.Join(base, "repo")
	j.Spec.write(dir)
	if j.Pre {
		hPlz(dir, base, nil, "")
		r.nplz++
	}
	if j.Trace {
		logPath := filepath.Join(base, "trace.log")
		r.before = hObserve(dir, j.Spec)
		run := hPlz(dir, base, &Point{Mode: "log"}, logPath)
		r.nplz++
		r.after = hObserve(dir, j.Spec)
		r.final = r.after
		r.rec = j.Spec.end(dir, run)
		ti := j.Spec.tinfo()
		data, _ := os.ReadFile(logPath)
		for _, ln := range strings.Split(string(data), "\n") {
			m := lineRe.FindStringSubmatch(ln)
			if m == nil {
				continue
			}
			call, args := m[2], m[3]
			switch {
			case (call == "lsetxattr" || call == "setxattr") && strings.Contains(args, `"user.plz_build"`):
				for _, n := range append(ti.all(), filepath.Base(ti.mdPath())) {
					if strings.HasPrefix(args, `"`+filepath.Join(ti.OutDir, n)+`",`) {
						r.recorded = append(r.recorded, call+" user.plz_build on "+filepath.Join(ti.OutDir, n))
					}
				}
			case call == "openat" && strings.Contains(args, `"`+ti.fbPath()+`"`) && strings.Contains(args, "O_CREAT"):
				r.recorded = append(r.recorded, "openat(O_CREAT) "+ti.fbPath())
			}
		}
		return r
	}
	for i := range j.Points {
		r.before = hObserve(dir, j.Spec)
		run := hPlz(dir, base, &j.Points[i], filepath.Join(base, "kill.log"))
		r.nplz++
		r.killed = append(r.killed, run.Killed)
		r.after = hObserve(dir, j.Spec)
	}
	rec := hPlz(dir, base, nil, "")
	r.nplz++
	r.final = hObserve(dir, j.Spec)
	r.rec = j.Spec.end(dir, rec)
	r.rec.Log = tailStr(rec.Out, 600)
	again := hPlz(dir, base, nil, "")
	r.nplz++
	r.again = j.Spec.end(dir, again)
	return r
}

func sha1hex(s string) string { x := sha1.Sum([]byte(s)); return hex.EncodeToString(x[:]) }
func sha256hex(s string) string {
	x := sha256.Sum256([]byte(s))
	return hex.EncodeToString(x[:])
}

func hSpecs(c *lib.Ctx) []*HSpec {
	specs := []*HSpec{
		// the seeded demo's shape: a vendored payload that no longer matches the pinned sha1
		{Shape: "bad-one-output-sha1", Name: "vendor", Payload: "tampered payload\n", Outs: []string{"vendor.txt"}, Hashes: []string{sha1hex("trusted payload\npart 0\n")}, Bad: true},
		// two outputs (the combined hash is checked), two pinned hashes of different algorithms, none matches
		{Shape: "bad-two-outputs-two-hashes", Name: "pair", Payload: "tampered pair\n", Outs: []string{"pair.a", "pair.b"},
			Hashes: []string{sha1hex("something else"), sha256hex("something else")}, Bad: true},
		// control: the pinned hash is the right one
		{Shape: "good-one-output-sha1", Name: "pinned", Payload: "trusted payload\n", Outs: []string{"pinned.txt"}, Hashes: []string{sha1hex("trusted payload\npart 0\n")}, Bad: false},
	}
	for i, n := 0, c.Scale(1, 12); i < n; i++ {
		r := c.Rng.Fork()
		h := &HSpec{Shape: "random", Name: fmt.Sprintf("rnd%d", i), Payload: fmt.Sprintf("payload %d %d\n", i, r.Intn(1000)), Bad: r.Chance(3, 4)}
		for k, no := 0, r.Range(1, 3); k < no; k++ {
			h.Outs = append(h.Outs, fmt.Sprintf("rnd%d.%c", i, 'a'+k))
		}
		if len(h.Outs) > 1 {
			h.Bad = true // the combined hash of several outputs is not recomputed here
		}
		if h.Bad {
			for k, nh := 0, r.Range(1, 3); k < nh; k++ {
				if r.Chance(1, 2) {
					h.Hashes = append(h.Hashes, sha1hex(fmt.Sprint("no", i, k)))
				} else {
					h.Hashes = append(h.Hashes, sha256hex(fmt.Sprint("no", i, k)))
				}
			}
		} else {
			h.Hashes = []string{lib.Pick(r, []string{sha1hex(h.content(0)), sha256hex(h.content(0))})}
			if r.Chance(1, 2) {
				h.Hashes = append([]string{sha1hex("other")}, h.Hashes...)
			}
		}
		specs = append(specs, h)
	}
	return specs
}

// the kill points on the files of the target, in the order the build reaches them
func hPoints(h *HSpec, all bool) []Point {
	ti := h.tinfo()
	md := ti.mdPath()
	last := filepath.Join(ti.OutDir, ti.all()[len(ti.all())-1])
	first := filepath.Join(ti.OutDir, ti.all()[0])
	pts := []Point{
		{Mode: "path", Path: first, Syscall: "lsetxattr", When: 2},
		{Mode: "path", Path: md, Syscall: "lsetxattr", When: 1},
		{Mode: "path", Path: first, Syscall: "unlinkat", When: 1},
	}
	if all {
		pts = append(pts,
			Point{Mode: "path", Path: md, Syscall: "renameat", When: 1},
			Point{Mode: "path", Path: last, Syscall: "renameat", When: 1},
			Point{Mode: "path", Path: last, Syscall: "lsetxattr", When: 1},
			Point{Mode: "path", Path: last, Syscall: "lsetxattr", When: 3},
			Point{Mode: "path", Path: last, Syscall: "unlinkat", When: 1})
	}
	return pts
}

func partH(c *lib.Ctx, base string) func() {
	var jobs []hJob
	var replay struct {
		Kind  string `json:"kind"`
		HJob  *hJob  `json:"hjob"`
		Input *struct {
			HJob *hJob `json:"hjob"`
		} `json:"input"`
	}
	if c.ReadReplay(&replay) {
		if replay.HJob == nil && replay.Input != nil {
			replay.HJob = replay.Input.HJob
		}
		if replay.HJob == nil || replay.HJob.Spec == nil {
			return func() {}
		}
		jobs = []hJob{*replay.HJob}
	} else {
		for si, h := range hSpecs(c) {
			r := c.Rng.Fork()
			jobs = append(jobs, hJob{Spec: h, Trace: true})
			pts := hPoints(h, si == 0 || c.Thor)
			if h.Shape == "random" && !c.Thor {
				lib.Shuffle(r, pts)
				pts = pts[:2]
			}
			for _, p := range pts {
				jobs = append(jobs, hJob{Spec: h, Points: []Point{p}})
			}
			if h.Bad && (si < 2 || c.Thor) {
				all := hPoints(h, true)
				// two kills in a row; a kill of the build that follows a completed (failed) build
				jobs = append(jobs, hJob{Spec: h, Points: []Point{all[4], all[2]}}, hJob{Spec: h, Pre: true, Points: []Point{lib.Pick(r, all[:3])}})
				if c.Thor {
					jobs = append(jobs, hJob{Spec: h, Points: []Point{lib.Pick(r, all), lib.Pick(r, all), lib.Pick(r, all)}}, hJob{Spec: h, Pre: true, Points: []Point{lib.Pick(r, all), lib.Pick(r, all)}})
				}
			}
		}
	}
	type cl struct {
		once sync.Once
		end  hEnd
		ok   bool
		why  string
	}
	cleans := map[*HSpec]*cl{}
	for _, j := range jobs {
		if cleans[j.Spec] == nil {
			cleans[j.Spec] = &cl{}
		}
	}
	var mu sync.Mutex
	nclean := 0
	cleanOf := func(h *HSpec) hEnd {
		e := cleans[h]
		e.once.Do(func() {
			why := ""
			for attempt := 0; attempt < 3; attempt++ {
				mu.Lock()
				nclean++
				d := filepath.Join(base, fmt.Sprintf("hclean%d", nclean))
				mu.Unlock()
				dir := filepath.Join(d, "repo")
				h.write(dir)
				run := hPlz(dir, d, nil, "")
				e.end = h.end(dir, run)
				os.RemoveAll(d)
				if h.Bad == e.end.BadHash && h.Bad == (e.end.Exit != 0) {
					e.ok = true
					return
				}
				why = fmt.Sprintf("exit %d, %s", e.end.Exit, tailStr(run.Out, 600))
			}
			e.why = why
		})
		if !e.ok {
			panic(fmt.Sprintf("clean build of //:%s (%s, bad = %v) ended unexpectedly: %s", h.Name, h.Shape, h.Bad, e.why))
		}
		return e.end
	}
	results := make([]*hResult, len(jobs))
	done := make(chan struct{})
	start := time.Now()
	go func() {
		defer close(done)
		var wg sync.WaitGroup
		sem := make(chan struct{}, 3)
		for i := range jobs {
			wg.Add(1)
			sem <- struct{}{}
			go func(i int) {
				defer wg.Done()
				defer func() { <-sem }()
				dir := filepath.Join(base, fmt.Sprintf("h%d", i))
				guardRetry("pinned-hash-job", map[string]any{"kind": "hash", "hjob": jobs[i]}, func() {
					os.RemoveAll(dir)
					must(os.MkdirAll(dir, 0o755))
					results[i] = nil
					results[i] = runHJob(dir, jobs[i], cleanOf)
				})
				os.RemoveAll(dir)
			}(i)
		}
		wg.Wait()
	}()
	return func() {
		<-done
		wall := time.Since(start)
		nplz, nkilled, nmiss, nwindow := 0, 0, 0, 0
		for i, r := range results {
			if r == nil {
				continue
			}
			j, h := r.job, r.job.Spec
			ti := h.tinfo()
			nplz += r.nplz
			js := map[string]any{"kind": "hash", "hjob": j, "killed": r.killed, "before": r.before, "after_kill": r.after, "recovery": r.rec, "again": r.again, "clean": r.clean}
			what := fmt.Sprintf("//:%s (%s, outputs %v, hashes %v)", h.Name, h.Shape, h.Outs, h.Hashes)
			c.Hist("hash-shape", h.Shape)
			if j.Trace {
				c.Oracle()
				c.Eval(js, fmt.Sprint("hash-trace", i), true)
				c.Hist("hash-job", "uninterrupted-trace")
				if ok, why := sameEnd(r.rec, r.clean); !ok {
					c.Fail("pinned-hash-build-under-strace-differs-from-clean", what+": "+why, js)
				} else if h.Bad && len(r.recorded) > 0 {
					js["record_writes"] = r.recorded
					c.Fail("record-written-for-output-that-fails-hash-verification", what+": the uninterrupted build fails with `Bad output hash` but first records the outputs as up to date ("+strings.Join(r.recorded, "; ")+"); killed before RemoveOutputs, the next build trusts them", js)
				} else if !h.Bad && len(r.recorded) == 0 {
					c.Fail("pinned-hash-build-writes-no-record", what+": no record write seen in the trace of a successful build", js)
				}
				continue
			}
			anyKill := false
			for _, k := range r.killed {
				if k {
					anyKill = true
					nkilled++
				} else {
					nmiss++
				}
			}
			c.Hist("hash-job", fmt.Sprintf("kills-%d-pre-%v", len(j.Points), j.Pre))
			if r.rec.Lost || r.again.Lost {
				c.Hist("hash-plz-failure-message-lost", "exit-2-without-error-message")
			}
			c.Hist("hash-kill", fmt.Sprintf("%s-%s-%v", j.Points[len(j.Points)-1].Syscall, map[bool]string{true: "md", false: "out"}[strings.Contains(j.Points[len(j.Points)-1].Path, ".target_build_metadata_")], r.killed[len(r.killed)-1]))
			// ---- model side
			cur := curRec(ti, r.final)
			if cur == nil {
				cur = curRec(ti, r.after)
			}
			if cur == nil {
				cur = &Rec{900001, 900002, 900003, 900004, 900005}
			}
			recorded := false
			for _, f := range r.after.Outs {
				recorded = recorded || f.Rec != nil
			}
			if h.Bad && recorded {
				nwindow++
			}
			decision := ""
			switch {
			case strings.Contains(r.rec.Log, "failed to load build metadata for "+ti.Label):
				decision = "Fail"
			case r.final.Md != nil && (r.after.Md == nil || r.after.Md.Stamp != r.final.Md.Stamp):
				decision = "Rebuild"
			case r.rec.Exit == 0:
				decision = "Reuse"
			}
			if decision != "" {
				term := "(Hsh " + lib.App("CHash", ti.coqTarget(), "[]", lib.List(h.newIDs()), cur.coq(), lib.Bool(h.Bad), r.before.coq(), r.after.coq(), decision, lib.Bool(r.rec.BadHash || (r.rec.Lost && h.Bad && decision == "Rebuild")), coqOuts(r.final)) + ")"
				moved := r.before.coq() != r.after.coq()
				c.Case(term, js, fmt.Sprint("hash", i, h.Name, j.Pre, j.Points), anyKill && moved)
				c.Hist("hash-decision", decision)
			}
			// ---- oracle
			c.Oracle()
			same, why := sameEnd(r.rec, r.clean)
			switch {
			case same:
				if ok2, why2 := sameEnd(r.again, r.clean); !ok2 {
					c.Fail("pinned-hash-third-build-differs-from-clean", what+fmt.Sprintf(", killed at %v: the build after the recovery build: %s", j.Points, why2), js)
				}
			case h.Bad && r.rec.Exit == 0:
				c.Fail("unverified-output-trusted-after-kill", what+fmt.Sprintf(": plz killed at %v; the next build exits 0 and uses the output that never passed the verification against the pinned hashes (%s) where the clean build fails with `Bad output hash`", j.Points, why), js)
			case h.Bad:
				c.Fail("bad-hash-recovery-differs-from-clean", what+fmt.Sprintf(", killed at %v: %s", j.Points, why), js)
			default:
				c.Fail("pinned-hash-recovery-differs-from-clean", what+fmt.Sprintf(", killed at %v: %s", j.Points, why), js)
			}
		}
		c.Note("pinned hashes: %d jobs (%d specs), %d plz invocations + %d clean builds, %d kills, %d kill points not reached, %d kill states with a record on an unverified output, %.1fs",
			len(jobs), len(cleans), nplz, nclean, nkilled, nmiss, nwindow, wall.Seconds())
	}
}
