// C32: crashes never leave files that later builds trust wrongly.
//
// Part W (fs.WriteFile): a helper process (this binary re-executed with `c32-child`, on one locked OS
// thread) calls the real fs.WriteFile under `strace -e inject=<syscall>:signal=SIGKILL:when=N` and is killed
// on entry to every one of its mutating syscalls in turn; destination and temporary file afterwards are
// compared with the model's prefix state, and the oracle demands old-or-complete-new content.
//
// Part P (plz): small generated repositories (multi-output, directory-output, output_dirs targets with
// dependencies) are built by the REAL plz, which is killed (a) by strace on entry to a chosen syscall on a
// chosen path of plz-out (strace -P <path>), (b) by strace on entry to the N-th call of a syscall class,
// (c) by SIGKILL to its process group at a random instant - during the FIRST build, during the rebuild after
// a content edit, during `plz build --rebuild` of an up-to-date tree, and twice in a row. Then a normal
// `plz build` runs and plz-out is compared with a clean build of the same tree in a fresh directory.
// Model side: the state of every target found on disk after the kill must be a prefix state of the model's
// step list, the model's decision for that state must be what plz then did, and the syscall trace of an
// uninterrupted build must be the model's step list.
package main

import (
	"encoding/gob"
	"encoding/json"
	"fmt"
	"io"
	"os"
	"os/exec"
	"path/filepath"
	"regexp"
	"runtime"
	"sort"
	"strconv"
	"strings"
	"sync"
	"syscall"
	"time"

	"verifharness/e2e"
	"verifharness/lib"

	"github.com/thought-machine/please/src/core"
	"github.com/thought-machine/please/src/fs"
)

func init() {
	// strace's when=N counter is per thread: keep main (and so WriteFile) on the initial thread.
	if len(os.Args) > 1 && os.Args[1] == "c32-child" {
		runtime.LockOSThread()
	}
}

func must(err error) {
	if err != nil {
		panic(err)
	}
}

// oldCase wraps a case of Model/C32.v into the harness's case type (Model/C32_Hash.v: hxcase over Model/C32_Tmp.v: xcase).
func oldCase(term string) string { return "(X (Old " + term + "))" }

// ---- the harness never dies silently ----------------------------------------------------------
// Every stage that can panic (a helper that does not behave, a reference build that fails, cp, strace ...)
// runs under guard: the panic is recorded with the name of the stage and the input it was working on, the
// stage is retried once where that makes sense, and what still fails is REPORTED at the end as a failing
// input of class harness-stage-failed-<stage> - the run goes on and report.json is always written.

type stageFail struct {
	Stage  string `json:"stage"`
	Detail string `json:"detail"`
	Input  any    `json:"input"`
}

var (
	stageMu    sync.Mutex
	stageFails []stageFail
	stageRetry = map[string]int{}
)

// try runs f and returns the text of its panic, if any.
func try(f func()) (failure string, failed bool) {
	defer func() {
		if r := recover(); r != nil {
			buf := make([]byte, 4096)
			buf = buf[:runtime.Stack(buf, false)]
			failure, failed = tailStr(fmt.Sprint(r), 1500)+"\n"+tailStr(string(buf), 1200), true
		}
	}()
	f()
	return "", false
}

func guard(stage string, input any, f func()) bool {
	if d, failed := try(f); failed {
		stageMu.Lock()
		stageFails = append(stageFails, stageFail{stage, d, input})
		stageMu.Unlock()
		return false
	}
	return true
}

// guardRetry: one more attempt when the first one panics (kills of a multi-threaded process under strace and
// builds on a loaded machine are not perfectly repeatable); only the second failure is reported.
func guardRetry(stage string, input any, f func()) bool {
	if _, failed := try(f); !failed {
		return true
	}
	stageMu.Lock()
	stageRetry[stage]++
	stageMu.Unlock()
	return guard(stage, input, f)
}

func reportStages(c *lib.Ctx) {
	stageMu.Lock()
	defer stageMu.Unlock()
	for st, n := range stageRetry {
		c.Note("stage %s: %d first attempts failed and were retried", st, n)
	}
	for _, f := range stageFails {
		c.Oracle()
		c.Hist("harness-stage-failed", f.Stage)
		c.Fail("harness-stage-failed-"+f.Stage, "the harness could not complete stage "+f.Stage+": "+tailStr(f.Detail, 400),
			map[string]any{"kind": "stage", "stage": f.Stage, "detail": f.Detail, "input": f.Input})
	}
}

// =============================================================================================
// Part W: fs.WriteFile

type WSpec struct {
	Dir       string   `json:"dir"`        // scratch directory of this run
	DirExists bool     `json:"dir_exists"` // the destination's directory exists beforehand
	Old       *string  `json:"old"`        // previous content of the destination (nil = absent)
	OldMode   uint32   `json:"old_mode"`
	Chunks    []string `json:"chunks"` // what the reader delivers, one Read per chunk
	Mode      uint32   `json:"mode"`
}

func (w WSpec) dest() string { return filepath.Join(w.Dir, "d", "dest.bin") }

// chunkReader delivers one chunk per Read and implements nothing else, so io.Copy issues one write per chunk.
type chunkReader struct{ chunks []string }

func (c *chunkReader) Read(p []byte) (int, error) {
	if len(c.chunks) == 0 {
		return 0, io.EOF
	}
	n := copy(p, c.chunks[0])
	if n < len(c.chunks[0]) {
		c.chunks[0] = c.chunks[0][n:]
	} else {
		c.chunks = c.chunks[1:]
	}
	return n, nil
}

const marker = "/nonexistent-c32-marker/x"

func child(specPath string) {
	data, err := os.ReadFile(specPath)
	must(err)
	var w WSpec
	must(json.Unmarshal(data, &w))
	os.Mkdir(marker, 0) // fails: marks the start of the operation in the strace log
	err = fs.WriteFile(&chunkReader{append([]string{}, w.Chunks...)}, w.dest(), os.FileMode(w.Mode))
	os.Mkdir(marker, 0)
	if err != nil {
		fmt.Fprintln(os.Stderr, "WriteFile:", err)
		os.Exit(3)
	}
	must(os.WriteFile(filepath.Join(w.Dir, "done"), []byte("ok"), 0o644))
}

const wTrace = "mkdirat,mkdir,openat,write,close,fchmodat,chmod,renameat,renameat2,rename,unlinkat,unlink"

type callPoint struct {
	Name    string
	Ordinal int
	Text    string
}

var self string

func wPrepare(w WSpec) {
	os.RemoveAll(w.Dir)
	must(os.MkdirAll(w.Dir, 0o755))
	if w.DirExists || w.Old != nil {
		must(os.MkdirAll(filepath.Dir(w.dest()), 0o755))
	}
	if w.Old != nil {
		must(os.WriteFile(w.dest(), []byte(*w.Old), os.FileMode(w.OldMode)))
		must(os.Chmod(w.dest(), os.FileMode(w.OldMode)))
	}
	d, _ := json.Marshal(w)
	must(os.WriteFile(filepath.Join(w.Dir, "spec.json"), d, 0o644))
}

// wRun runs the helper under strace; at == nil: log only.
func wRun(w WSpec, at *callPoint) (finished, killed bool, out string) {
	logPath := filepath.Join(w.Dir, "strace.log")
	args := []string{"-f", "-qq", "-e", "signal=none", "-o", logPath, "-e", "trace=" + wTrace}
	if at != nil {
		args = append(args, "-e", fmt.Sprintf("inject=%s:signal=SIGKILL:when=%d", at.Name, at.Ordinal))
	}
	args = append(args, self, "c32-child", filepath.Join(w.Dir, "spec.json"))
	cmd := exec.Command("strace", args...)
	cmd.Env = append(os.Environ(), "GOMAXPROCS=1", "GOGC=off")
	o, err := cmd.CombinedOutput()
	_, derr := os.Stat(filepath.Join(w.Dir, "done"))
	if ee, ok := err.(*exec.ExitError); ok {
		if ws, ok := ee.Sys().(syscall.WaitStatus); ok && (ws.Signaled() || ws.ExitStatus() == 137) {
			killed = true
		}
	}
	return derr == nil, killed, string(o)
}

// wCalls parses the log: the mutating syscalls of the thread that issued the markers, between the markers,
// each addressed as (syscall name, ordinal of that syscall on the thread since process start).
func wCalls(logPath string) ([]callPoint, error) {
	data, err := os.ReadFile(logPath)
	if err != nil {
		return nil, err
	}
	lines := strings.Split(string(data), "\n")
	mainPid := ""
	for _, ln := range lines {
		if strings.Contains(ln, marker) {
			mainPid = strings.Fields(ln)[0]
			break
		}
	}
	if mainPid == "" {
		return nil, fmt.Errorf("marker not found")
	}
	per := map[string]int{}
	seen := 0
	var out []callPoint
	for _, ln := range lines {
		f := strings.Fields(ln)
		if len(f) < 2 || f[0] != mainPid {
			continue
		}
		rest := strings.TrimSpace(strings.TrimPrefix(ln, f[0]))
		if strings.HasPrefix(rest, "<...") || strings.HasPrefix(rest, "+++") || strings.HasPrefix(rest, "---") {
			continue
		}
		name := rest
		if i := strings.Index(rest, "("); i > 0 {
			name = rest[:i]
		}
		per[name]++
		if strings.Contains(rest, marker) {
			seen++
			continue
		}
		if seen == 1 {
			out = append(out, callPoint{name, per[name], rest})
		}
	}
	if seen != 2 {
		return nil, fmt.Errorf("markers seen %d times", seen)
	}
	return out, nil
}

type wObs struct {
	Dest *wFile `json:"dest"`
	Tmp  *wFile `json:"tmp"`
	NTmp int    `json:"ntmp"`
}
type wFile struct {
	Data string `json:"data"`
	Mode uint32 `json:"mode"`
}

func wObserve(w WSpec) wObs {
	var o wObs
	if info, err := os.Lstat(w.dest()); err == nil {
		d, _ := os.ReadFile(w.dest())
		o.Dest = &wFile{string(d), uint32(info.Mode().Perm())}
	}
	es, _ := os.ReadDir(filepath.Dir(w.dest()))
	for _, e := range es {
		if e.Name() == "dest.bin" {
			continue
		}
		p := filepath.Join(filepath.Dir(w.dest()), e.Name())
		info, err := os.Lstat(p)
		if err != nil {
			continue
		}
		d, _ := os.ReadFile(p)
		o.Tmp = &wFile{string(d), uint32(info.Mode().Perm())}
		o.NTmp++
	}
	return o
}

func coqWFile(f *wFile) string {
	if f == nil {
		return "None"
	}
	return lib.Some(lib.App("mkW", lib.Str(f.Data), lib.N(uint64(f.Mode))))
}

func wModelNames(w WSpec) []string {
	var n []string
	if !w.DirExists && w.Old == nil {
		n = append(n, "mkdirat")
	}
	n = append(n, "openat")
	for range w.Chunks {
		n = append(n, "write")
	}
	return append(n, "close", "fchmodat", "renameat")
}

type wJob struct {
	NoModel bool
	W       WSpec
	K       int
	At      *callPoint
	Obs     wObs
	Killed  bool
	Fin     bool
	Err     string
}

func partW(c *lib.Ctx, base string) func() {
	strs := func(x ...string) []string { return x }
	sp := func(x string) *string { return &x }
	big := strings.Repeat("0123456789abcdef", 64) // 1 KiB
	var cfgs []WSpec
	cfgs = append(cfgs,
		WSpec{DirExists: true, Old: sp("old content\n"), OldMode: 0o644, Chunks: strs("new ", "content", "\n"), Mode: 0o644},
		WSpec{DirExists: true, Old: nil, Chunks: strs("fresh"), Mode: 0},
		WSpec{DirExists: false, Old: nil, Chunks: strs("a", "b"), Mode: 0o755},
		WSpec{DirExists: true, Old: sp("same"), OldMode: 0o600, Chunks: strs("same"), Mode: 0o600},
		WSpec{DirExists: true, Old: sp("to be emptied"), OldMode: 0o755, Chunks: nil, Mode: 0o644},
		WSpec{DirExists: true, Old: sp("short"), OldMode: 0o444, Chunks: strs(big, big[:100]), Mode: 0o640},
	)
	nrand := c.Scale(1, 40)
	for i := 0; i < nrand; i++ {
		r := c.Rng.Fork()
		w := WSpec{DirExists: r.Chance(3, 4), Mode: lib.Pick(r, []uint32{0, 0o644, 0o600, 0o755, 0o444})}
		if w.DirExists && r.Chance(2, 3) {
			w.Old = sp(lib.Pick(r, []string{"", "x", "old\n", "prefix-of-new"}))
			w.OldMode = lib.Pick(r, []uint32{0o644, 0o600, 0o755})
		}
		for k := r.Intn(4); k > 0; k-- {
			w.Chunks = append(w.Chunks, lib.Pick(r, []string{"prefix-of-new", "-and-more", "z", "\x00\xff", "line\n"}))
		}
		cfgs = append(cfgs, w)
	}
	var replay struct {
		Kind string `json:"kind"`
		W    *WSpec `json:"w"`
	}
	if c.ReadReplay(&replay) {
		if replay.Kind != "writefile" || replay.W == nil {
			return func() {}
		}
		cfgs = []WSpec{*replay.W}
	}
	var jobs []*wJob
	var seqCases []func()
	done := make(chan struct{})
	go func() {
		defer close(done)
		for i := range cfgs {
			cfgs[i].Dir = filepath.Join(base, fmt.Sprintf("w%d", i))
			var calls []callPoint
			if !guardRetry("writefile-reference-run", map[string]any{"kind": "writefile", "w": cfgs[i]}, func() {
				wPrepare(cfgs[i])
				fin, _, out := wRun(cfgs[i], nil)
				if !fin {
					panic("WriteFile helper failed without injection: " + out)
				}
				var err error
				calls, err = wCalls(filepath.Join(cfgs[i].Dir, "strace.log"))
				must(err)
			}) {
				continue
			}
			var names []string
			for _, cp := range calls {
				names = append(names, cp.Name)
			}
			noModel := false
			if strings.Join(names, ",") != strings.Join(wModelNames(cfgs[i]), ",") {
				// the syscall sequence of WriteFile is not the model's step list: report it as a disagreement
				i, names := i, names
				seqCases = append(seqCases, func() {
					c.Case(oldCase(lib.App("CWrite", lib.Bool(cfgs[i].DirExists), "None", "[]", "0%N", lib.Nat(999), "None", "None")),
						map[string]any{"kind": "writefile", "w": cfgs[i], "syscalls": names, "model": wModelNames(cfgs[i])}, fmt.Sprint("wseq", i), true)
				})
				noModel = true
			}
			for k := 0; k <= len(calls); k++ {
				j := &wJob{W: cfgs[i], K: k, NoModel: noModel}
				j.W.Dir = filepath.Join(base, fmt.Sprintf("w%d_%d", i, k))
				if k < len(calls) {
					cp := calls[k]
					j.At = &cp
				}
				jobs = append(jobs, j)
			}
		}
		var wg sync.WaitGroup
		sem := make(chan struct{}, 6)
		for _, j := range jobs {
			wg.Add(1)
			sem <- struct{}{}
			go func(j *wJob) {
				defer wg.Done()
				defer func() { <-sem }()
				j.Err = "not run"
				guardRetry("writefile-crash-injection", map[string]any{"kind": "writefile", "w": j.W, "k": j.K, "at": j.At}, func() {
					wPrepare(j.W)
					fin, killed, out := wRun(j.W, j.At)
					j.Fin, j.Killed = fin, killed
					if (j.At != nil) != killed || (j.At == nil) != fin {
						panic("crash injection did not behave: helper: finished=" + fmt.Sprint(fin) + " killed=" + fmt.Sprint(killed) + " " + out)
					}
					j.Obs = wObserve(j.W)
					j.Err = ""
				})
				os.RemoveAll(j.W.Dir)
			}(j)
		}
		wg.Wait()
	}()
	return func() {
		<-done
		for _, f := range seqCases {
			f()
		}
		kills := 0
		for _, j := range jobs {
			js := map[string]any{"kind": "writefile", "w": j.W, "k": j.K, "observed": j.Obs}
			if j.At != nil {
				js["killed_at"] = j.At.Text
			}
			if j.Err != "" {
				continue // reported by reportStages (stage writefile-crash-injection)
			}
			if j.Killed {
				kills++
			}
			var old string = "None"
			if j.W.Old != nil {
				old = coqWFile(&wFile{*j.W.Old, j.W.OldMode})
			}
			dirEx := j.W.DirExists || j.W.Old != nil
			c.Case(oldCase(lib.App("CWrite", lib.Bool(dirEx), old, lib.StrList(j.W.Chunks), lib.N(uint64(j.W.Mode)), lib.Nat(j.K), coqWFile(j.Obs.Dest), coqWFile(j.Obs.Tmp))),
				js, fmt.Sprint("w", j.W.DirExists, j.W.Old != nil, j.W.Chunks, j.W.Mode, j.K), j.K > 0 && j.At != nil)
			c.Hist("writefile-step", map[bool]string{true: "killed", false: "complete"}[j.Killed])
			// oracle: the destination holds the old content or the complete new content (with the requested mode)
			c.Oracle()
			newData := strings.Join(j.W.Chunks, "")
			mode := j.W.Mode
			if mode == 0 {
				mode = 0o664
			}
			isOld := (j.W.Old == nil && j.Obs.Dest == nil) || (j.W.Old != nil && j.Obs.Dest != nil && j.Obs.Dest.Data == *j.W.Old && j.Obs.Dest.Mode == j.W.OldMode)
			isNew := j.Obs.Dest != nil && j.Obs.Dest.Data == newData && j.Obs.Dest.Mode == mode
			switch {
			case j.At == nil && !isNew:
				c.Fail("writefile-complete-run-wrong", "an uninterrupted WriteFile did not leave the new content and mode", js)
			case !isOld && !isNew:
				c.Fail("writefile-destination-partial", "after a kill the destination holds neither the old nor the complete new content", js)
			case j.Obs.NTmp > 1:
				c.Fail("writefile-several-temporaries", "more than one temporary file left", js)
			}
		}
		c.Note("WriteFile: %d configurations, %d helper runs, %d killed by strace injection on entry to each mutating syscall (verified: died by SIGKILL, no completion file)", len(cfgs), len(jobs), kills)
	}
}

// =============================================================================================
// Part P: the real plz

var plzEnv = []string{"PATH=/usr/local/bin:/usr/bin:/bin", "HOME=/nonexistent-verif-home", "LANG=C", "USER=verif"}

// ---- ids -------------------------------------------------------------------------------------

var (
	idMu       sync.Mutex
	chunkIDs   = map[string]uint64{}
	contentIDs = map[string]uint64{}
	hashAttrTo = map[string]map[uint64]bool{} // user.plz_hash* value -> contents it is the hash of (several: a directory hashes like the concatenation of its files, C09), learnt from complete builds
)

func chunkID(b string) uint64 {
	if strings.Trim(b, "\x00") == "" {
		return 0
	}
	idMu.Lock()
	defer idMu.Unlock()
	if id, ok := chunkIDs[b]; ok {
		return id
	}
	id := uint64(len(chunkIDs) + 1)
	chunkIDs[b] = id
	return id
}

func contentID(s string) uint64 {
	idMu.Lock()
	defer idMu.Unlock()
	if id, ok := contentIDs[s]; ok {
		return id
	}
	id := uint64(len(contentIDs) + 1)
	contentIDs[s] = id
	return id
}

type Rec [5]uint64

func recOf(b []byte) *Rec {
	if b == nil {
		return nil
	}
	var r Rec
	for i := 0; i < 5; i++ {
		lo, hi := i*20, (i+1)*20
		if hi > len(b) {
			// a short record: pad with zeros, as the reslicing of an empty read does
			pad := make([]byte, 100)
			copy(pad, b)
			b = pad
		}
		r[i] = chunkID(string(b[lo:hi]))
	}
	return &r
}

func (r *Rec) coq() string {
	return lib.App("mkRec", lib.N(r[0]), lib.N(r[1]), lib.N(r[2]), lib.N(r[3]), lib.N(r[4]))
}
func coqRecOpt(r *Rec) string {
	if r == nil {
		return "None"
	}
	return lib.Some(r.coq())
}

// ---- observed state of one target -------------------------------------------------------------

type File struct {
	Content uint64  `json:"content"`
	Hash    *uint64 `json:"hash"`
	Rec     *Rec    `json:"rec"`
	Tree    string  `json:"tree"`
}
type Md struct {
	Full    bool     `json:"full"`
	DirOuts []string `json:"dirouts"`
	Rec     *Rec     `json:"rec"`
	Stamp   string   `json:"-"`
}
type Obs struct {
	Md   *Md              `json:"md"`
	Outs map[string]*File `json:"outs"`
	Fb   *Rec             `json:"fb"`
	FbEx bool             `json:"fb_exists"`
}

func getx(path, name string) []byte {
	buf := make([]byte, 256)
	n, err := syscall.Getxattr(path, name, buf)
	if err != nil {
		// symlinks etc: not used by the generated repositories
		return nil
	}
	return buf[:n]
}

func hashAttr(path string) []byte {
	buf := make([]byte, 1024)
	n, err := syscall.Listxattr(path, buf)
	if err != nil {
		return nil
	}
	for _, a := range strings.Split(string(buf[:n]), "\x00") {
		if strings.HasPrefix(a, "user.plz_hash") {
			return getx(path, a)
		}
	}
	return nil
}

type TInfo struct {
	Label   string
	Pkg     string
	T       *e2e.Target
	OutDir  string   // plz-out/gen/<pkg> or plz-out/bin/<pkg>, relative to the repository
	Decl    []string // declared outputs
	DirOuts []string // outputs discovered in output_dirs (known from the command language)
	Mod     bool
}

func targetInfo(s *e2e.Spec, label string) *TInfo {
	pkg, _ := e2e.SplitLabel(label)
	t := s.Target(label)
	ti := &TInfo{Label: label, Pkg: pkg, T: t, OutDir: filepath.Join("plz-out", "gen", pkg), Mod: len(t.OutDirs) > 0}
	if t.Binary {
		ti.OutDir = filepath.Join("plz-out", "bin", pkg)
	}
	ti.Decl = append([]string{}, t.Outs...)
	if t.Cmd.Op == "outdir" {
		for _, src := range t.Srcs {
			ti.DirOuts = append(ti.DirOuts, filepath.Base(src))
		}
		sort.Strings(ti.DirOuts)
	}
	return ti
}

func (ti *TInfo) all() []string {
	a := append(append([]string{}, ti.Decl...), ti.DirOuts...)
	sort.Strings(a)
	return a
}
func (ti *TInfo) mdPath() string {
	return filepath.Join(ti.OutDir, ".target_build_metadata_"+ti.T.Name)
}
func (ti *TInfo) fbPath() string { return filepath.Join(ti.OutDir, ".rule_hash_"+ti.T.Name) }

// observe reads the part of plz-out that belongs to one target. learn: this is a completed build, remember
// which path-hash xattr goes with which content.
func observe(repoDir string, ti *TInfo, learn bool) *Obs {
	o := &Obs{Outs: map[string]*File{}}
	mdp := filepath.Join(repoDir, ti.mdPath())
	if info, err := os.Lstat(mdp); err == nil {
		m := &Md{Rec: recOf(getx(mdp, "user.plz_build"))}
		st := info.Sys().(*syscall.Stat_t)
		m.Stamp = fmt.Sprint(st.Ino, st.Mtim, st.Ctim, info.Size())
		if info.Size() > 0 {
			if f, err := os.Open(mdp); err == nil {
				md := new(core.BuildMetadata)
				if err := gob.NewDecoder(f).Decode(&md); err == nil {
					m.Full = true
					m.DirOuts = append([]string{}, md.OutputDirOuts...)
				}
				f.Close()
			}
		}
		o.Md = m
	}
	for _, n := range ti.all() {
		p := filepath.Join(repoDir, ti.OutDir, n)
		if _, err := os.Lstat(p); err != nil {
			continue
		}
		tree := e2e.ReadTree(p).String()
		f := &File{Content: contentID(tree), Tree: tree, Rec: recOf(getx(p, "user.plz_build"))}
		if h := hashAttr(p); h != nil {
			idMu.Lock()
			set := hashAttrTo[string(h)]
			if learn {
				if set == nil {
					set = map[uint64]bool{}
					hashAttrTo[string(h)] = set
				}
				set[f.Content] = true
			}
			var id uint64
			ok := false
			if set[f.Content] {
				id, ok = f.Content, true
			} else {
				for k := range set {
					if !ok || k < id {
						id, ok = k, true
					}
				}
			}
			idMu.Unlock()
			if !ok {
				id = 1000000 + chunkID(string(h))
			}
			f.Hash = &id
		}
		o.Outs[n] = f
	}
	if b, err := os.ReadFile(filepath.Join(repoDir, ti.fbPath())); err == nil {
		o.FbEx = true
		if len(b) > 0 {
			o.Fb = recOf(b)
		}
	}
	return o
}

func (o *Obs) coq() string {
	md := "None"
	if o.Md != nil {
		c := "MdEmpty"
		if o.Md.Full {
			c = lib.App("MdFull", lib.StrList(o.Md.DirOuts))
		}
		md = lib.Some(lib.App("mkMd", c, coqRecOpt(o.Md.Rec)))
	}
	var outs []string
	for _, n := range lib.SortedKeys(o.Outs) {
		f := o.Outs[n]
		h := "None"
		if f.Hash != nil {
			h = lib.Some(lib.N(*f.Hash))
		}
		outs = append(outs, lib.Pair(lib.Str(n), lib.App("mkFile", lib.N(f.Content), h, coqRecOpt(f.Rec))))
	}
	fb := "None"
	if o.FbEx {
		fb = "(Some FbEmpty)"
		if o.Fb != nil {
			fb = lib.Some(lib.App("FbRec", o.Fb.coq()))
		}
	}
	return lib.App("mkObs", md, lib.List(outs), fb)
}

func (ti *TInfo) coqTarget() string { return lib.App("mkT", lib.StrList(ti.Decl), lib.Bool(ti.Mod)) }

// ---- repositories ------------------------------------------------------------------------------

// genSpec: packages p (plain targets) and q (one output_dirs target whose discovered files would collide
// with anything else in its output directory). Names are chosen so that declared outputs sort both before
// and after discovered ones.
func genSpec(r *lib.Rng, adversarial int) *e2e.Spec {
	s := &e2e.Spec{Pkgs: map[string]*e2e.Pkg{}}
	p := &e2e.Pkg{Files: map[string]string{"a.txt": "alpha\n", "b.txt": "beta\n", "c.txt": "gamma\n"}}
	q := &e2e.Pkg{Files: map[string]string{"a.txt": "qa\n", "k.txt": "qk\n", "z.txt": "qz\n"}}
	s.Pkgs["p"], s.Pkgs["q"] = p, q
	files := []string{"a.txt", "b.txt", "c.txt"}
	var fileDeps, dirDeps []string
	add := func(t *e2e.Target) {
		p.Targets = append(p.Targets, t)
	}
	pick := func(min int) []string {
		var out []string
		seen := map[string]bool{}
		for n := r.Range(min, 3); n > 0; n-- {
			x := lib.Pick(r, files)
			if len(fileDeps) > 0 && r.Chance(1, 3) {
				x = lib.Pick(r, fileDeps)
			}
			if !seen[x] {
				seen[x] = true
				out = append(out, x)
			}
		}
		if !seen["a.txt"] && len(out) < 3 && r.Chance(1, 2) {
			out = append(out, "a.txt")
		}
		return out
	}
	if adversarial == 1 {
		// every shape once, the edited file a.txt feeding all of them
		add(&e2e.Target{Name: "t0", Kind: "genrule", Srcs: []string{"a.txt", "b.txt"}, Outs: []string{"t0.n", "t0.out", "t0.z"}, Cmd: e2e.Cmd{Op: "concat"}})
		add(&e2e.Target{Name: "t1", Kind: "genrule", Srcs: []string{"a.txt", "c.txt"}, Outs: []string{"t1_dir"}, Cmd: e2e.Cmd{Op: "copydir"}, OutIsDir: true})
		add(&e2e.Target{Name: "t2", Kind: "genrule", Srcs: []string{":t0", "b.txt"}, Outs: []string{"t2.out"}, Cmd: e2e.Cmd{Op: "concat"}})
		add(&e2e.Target{Name: "t3", Kind: "genrule", Srcs: []string{":t1"}, Outs: []string{"t3.names"}, Cmd: e2e.Cmd{Op: "listnames"}})
		q.Targets = append(q.Targets, &e2e.Target{Name: "o", Kind: "genrule", Srcs: []string{"a.txt", "z.txt"}, Outs: []string{"m.marker"}, OutDirs: []string{"_o"}, Cmd: e2e.Cmd{Op: "outdir"}})
		return s
	}
	if adversarial == 2 {
		// the declared output of the output_dirs target sorts FIRST: the record reaches it before the discovered files
		add(&e2e.Target{Name: "t0", Kind: "genrule", Srcs: []string{"a.txt"}, Outs: []string{"t0.out"}, Cmd: e2e.Cmd{Op: "concat"}})
		add(&e2e.Target{Name: "t1", Kind: "text_file", Content: "hello\n", Outs: []string{"t1.txt"}})
		q.Targets = append(q.Targets, &e2e.Target{Name: "o", Kind: "genrule", Srcs: []string{"a.txt", "k.txt", "z.txt"}, Outs: []string{"_first"}, OutDirs: []string{"_o"}, Cmd: e2e.Cmd{Op: "outdir"}})
		return s
	}
	nt := r.Range(2, 4)
	for i := 0; i < nt; i++ {
		name := fmt.Sprintf("t%d", i)
		kinds := []string{"concat", "concat2", "concat3", "copydir", "const", "text_file"}
		if len(dirDeps) > 0 {
			kinds = append(kinds, "listnames", "listnames")
		}
		switch lib.Pick(r, kinds) {
		case "concat":
			add(&e2e.Target{Name: name, Kind: "genrule", Srcs: pick(1), Outs: []string{name + ".out"}, Cmd: e2e.Cmd{Op: "concat"}})
			fileDeps = append(fileDeps, ":"+name)
		case "concat2":
			add(&e2e.Target{Name: name, Kind: "genrule", Srcs: pick(1), Outs: []string{name + ".out", name + ".n"}, Cmd: e2e.Cmd{Op: "concat"}})
		case "concat3":
			add(&e2e.Target{Name: name, Kind: "genrule", Srcs: pick(2), Outs: []string{name + ".a", name + ".b", name + ".c"}, Cmd: e2e.Cmd{Op: "concat"}})
		case "copydir":
			add(&e2e.Target{Name: name, Kind: "genrule", Srcs: []string{"a.txt", lib.Pick(r, []string{"b.txt", "c.txt"})}, Outs: []string{name + "_dir"}, Cmd: e2e.Cmd{Op: "copydir"}, OutIsDir: true})
			dirDeps = append(dirDeps, ":"+name)
		case "const":
			add(&e2e.Target{Name: name, Kind: "genrule", Outs: []string{name + ".out"}, Cmd: e2e.Cmd{Op: "const", Arg: lib.Pick(r, []string{"one", "two"})}})
			fileDeps = append(fileDeps, ":"+name)
		case "text_file":
			add(&e2e.Target{Name: name, Kind: "text_file", Content: "k=v\n", Outs: []string{name + ".txt"}})
		case "listnames":
			add(&e2e.Target{Name: name, Kind: "genrule", Srcs: []string{lib.Pick(r, dirDeps)}, Outs: []string{name + ".names"}, Cmd: e2e.Cmd{Op: "listnames"}})
		}
	}
	marker := lib.Pick(r, []string{"_m", "m.marker", "zz.marker"})
	qs := []string{"a.txt"}
	for _, f := range []string{"k.txt", "z.txt"} {
		if r.Chance(1, 2) {
			qs = append(qs, f)
		}
	}
	q.Targets = append(q.Targets, &e2e.Target{Name: "o", Kind: "genrule", Srcs: qs, Outs: []string{marker}, OutDirs: []string{"_o"}, Cmd: e2e.Cmd{Op: "outdir"}})
	return s
}

func editSpec(s *e2e.Spec) *e2e.Spec {
	n := s.Clone()
	n.Pkgs["p"].Files["a.txt"] = "alpha edited\n"
	n.Pkgs["q"].Files["a.txt"] = "qa edited\n"
	return n
}

// ---- running plz -------------------------------------------------------------------------------

const pTrace = "openat,write,unlinkat,unlink,rmdir,renameat,renameat2,rename,lsetxattr,setxattr,mkdirat,linkat,symlinkat,close,fchmodat"

type Point struct {
	Mode    string `json:"mode"`              // path | count | timer | none
	Path    string `json:"path,omitempty"`    // path mode: the file in plz-out (relative to the repository)
	Syscall string `json:"syscall,omitempty"` // path / count mode
	When    int    `json:"when,omitempty"`
	DelayMs int    `json:"delay_ms,omitempty"` // timer mode
}

// straceScript writes a wrapper that runs plz under strace (log at logPath) and returns its path.
func straceScript(dir, realPlz, logPath string, pt *Point) string {
	// -b execve: follow plz's threads but not the build commands it spawns
	args := []string{"exec", "strace", "-f", "-b", "execve", "-qq", "-e", "signal=none", "-o", logPath}
	switch {
	case pt != nil && pt.Mode == "path":
		args = append(args, "-P", pt.Path, "-e", "trace="+pt.Syscall, "-e", fmt.Sprintf("inject=%s:signal=SIGKILL:when=%d", pt.Syscall, pt.When))
	case pt != nil && pt.Mode == "count":
		args = append(args, "-e", "trace="+pt.Syscall, "-e", fmt.Sprintf("inject=%s:signal=SIGKILL:when=%d", pt.Syscall, pt.When))
	default:
		args = append(args, "-y", "-e", "trace="+pTrace)
	}
	args = append(args, realPlz, `"$@"`)
	p := filepath.Join(dir, fmt.Sprintf("plz-strace-%d.sh", time.Now().UnixNano()))
	must(os.WriteFile(p, []byte("#!/bin/sh\n"+strings.Join(args, " ")+"\n"), 0o755))
	return p
}

// runPoint runs `plz build [--rebuild] <labels>` killed as the point says. killed reports whether plz died.
func runPoint(repo *e2e.Repo, scratch string, pt Point, forced bool, labels []string) (res e2e.Result, killed bool) {
	args := []string{"build"}
	if forced {
		args = append(args, "--rebuild")
	}
	args = append(args, labels...)
	real := repo.Plz
	defer func() { repo.Plz = real }()
	switch pt.Mode {
	case "timer":
		res = repo.Run(time.Duration(pt.DelayMs)*time.Millisecond, args...)
		time.Sleep(150 * time.Millisecond) // let orphaned build commands finish
		return res, res.TimedOut
	case "none":
		res = repo.Run(120*time.Second, args...)
		return res, false
	}
	logPath := filepath.Join(scratch, "kill.log")
	script := straceScript(scratch, real, logPath, &pt)
	repo.Plz = script
	res = repo.Run(180*time.Second, args...)
	os.Remove(script)
	killed = res.Exit == 137 || res.Exit == -1 || res.Exit == -9
	if killed {
		time.Sleep(150 * time.Millisecond) // the build commands plz had spawned are not traced: let them finish
	}
	return res, killed
}

func snapshot(repo *e2e.Repo, dst string) {
	os.RemoveAll(dst)
	if _, err := os.Stat(filepath.Join(repo.Dir, "plz-out")); err != nil {
		must(os.MkdirAll(dst, 0o755))
		must(os.WriteFile(filepath.Join(dst, ".absent"), nil, 0o644))
		return
	}
	out, err := exec.Command("cp", "-a", filepath.Join(repo.Dir, "plz-out"), dst).CombinedOutput()
	if err != nil {
		panic("cp -a: " + string(out))
	}
}

func restore(repo *e2e.Repo, src string) {
	os.RemoveAll(filepath.Join(repo.Dir, "plz-out"))
	if _, err := os.Stat(filepath.Join(src, ".absent")); err == nil {
		return
	}
	out, err := exec.Command("cp", "-a", src, filepath.Join(repo.Dir, "plz-out")).CombinedOutput()
	if err != nil {
		panic("cp -a: " + string(out))
	}
}

// ---- trace of an uninterrupted build --------------------------------------------------------------

var lineRe = regexp.MustCompile(`^(\d+)\s+(\w+)\((.*)$`)

// traceSteps extracts, for one target, the model-level steps from a strace log (in log order).
func traceSteps(logPath, repoDir string, ti *TInfo, newIDs map[string]uint64, cur *Rec) (steps []string, started bool) {
	data, err := os.ReadFile(logPath)
	if err != nil {
		return nil, false
	}
	md := ti.mdPath()
	absMd := filepath.Join(repoDir, md)
	fb := ti.fbPath()
	absFb := filepath.Join(repoDir, fb)
	outOf := map[string]string{}
	for _, n := range ti.all() {
		outOf[filepath.Join(ti.OutDir, n)] = n
	}
	q := func(p string) string { return `"` + p + `"` }
	removing := map[string]bool{}
	mdMoved := false
	for _, ln := range strings.Split(string(data), "\n") {
		m := lineRe.FindStringSubmatch(ln)
		if m == nil {
			continue
		}
		call, args := m[2], m[3]
		switch call {
		case "unlinkat":
			if strings.Contains(args, q(md)) {
				if strings.Contains(args, "AT_REMOVEDIR") {
					continue // os.Remove tries rmdir after a failed unlink
				}
				steps = append(steps, "RmMd")
				started, mdMoved = true, false
				continue
			}
			for p, n := range outOf {
				if strings.Contains(args, q(p)+",") && started && !strings.Contains(args, "AT_REMOVEDIR") && !removing[n] {
					removing[n] = true
					steps = append(steps, lib.App("DamageOut", lib.Str(n)), lib.App("RmOut", lib.Str(n)))
				}
			}
		case "openat":
			// fs.WriteFile: os.CreateTemp(dir, ".target_build_metadata_<name>") -> <md><random digits>, O_EXCL
			if strings.Contains(args, `"`+md) && !strings.Contains(args, q(md)) && strings.Contains(args, "O_EXCL") && started {
				steps = append(steps, "(MdTmp WCreate)")
			}
			if strings.Contains(args, q(md)) && strings.Contains(args, "O_CREAT") {
				steps = append(steps, "CreateMdInPlace") // the pre-fix shape: not a constructor of the model, fails the comparison
			}
			if strings.Contains(args, q(fb)) && strings.Contains(args, "O_CREAT") {
				steps = append(steps, "FbTrunc")
			}
		case "write":
			if strings.Contains(args, "<"+absMd) && !strings.Contains(args, "<"+absMd+">") && started {
				steps = append(steps, "(MdTmp (WWrite []))")
			}
			if strings.Contains(args, "<"+absFb+">") {
				steps = append(steps, lib.App("FbWrite", cur.coq()))
			}
		case "close":
			if strings.Contains(args, "<"+absMd) && !strings.Contains(args, "<"+absMd+">") && started && !mdMoved {
				steps = append(steps, "(MdTmp WClose)")
			}
		case "fchmodat", "chmod":
			if strings.Contains(args, `"`+md) && !strings.Contains(args, q(md)) && started {
				steps = append(steps, "(MdTmp (WChmod "+lib.N(chmodMode(args))+"))")
			}
		case "renameat", "renameat2", "rename":
			if strings.Contains(args, ", "+q(md)) && started {
				mdMoved = true
				d := []string{}
				if ti.Mod {
					d = ti.DirOuts
				}
				steps = append(steps, lib.App("MvMd", lib.StrList(d)))
			}
			for p, n := range outOf {
				if strings.Contains(args, ", "+q(p)) && started {
					removing[n] = false
					steps = append(steps, lib.App("MvOut", lib.Str(n), lib.N(newIDs[n])))
				}
			}
		case "lsetxattr", "setxattr":
			if strings.HasPrefix(args, q(md)+",") && strings.Contains(args, `"user.plz_build"`) {
				steps = append(steps, lib.App("SetMdRec", cur.coq()))
				continue
			}
			for p, n := range outOf {
				if strings.HasPrefix(args, q(p)+",") && started {
					if strings.Contains(args, `"user.plz_build"`) {
						steps = append(steps, lib.App("SetRec", lib.Str(n), cur.coq()))
					} else if strings.Contains(args, `"user.plz_hash`) {
						steps = append(steps, lib.App("SetHash", lib.Str(n)))
					}
				}
			}
		}
	}
	return steps, started
}

var octRe = regexp.MustCompile(`, 0([0-7]+)\)?`)

func chmodMode(args string) uint64 {
	if m := octRe.FindStringSubmatch(args); m != nil {
		v, _ := strconv.ParseUint(m[1], 8, 32)
		return v
	}
	return 0
}

// ---- one repository -------------------------------------------------------------------------------

type cleanRef struct {
	Outputs map[string]map[string]*e2e.Node
	Obs     map[string]*Obs
	Exit    int
}

type crashJob struct {
	Scenario string `json:"scenario"` // first | edit | forced | double
	Point    Point  `json:"point"`
	Point2   *Point `json:"point2,omitempty"`
}

type repoResult struct {
	cases  []func(c *lib.Ctx)
	notes  []string
	nplz   int
	nkill  int
	nnokil int
}

func buildable(s *e2e.Spec) []*TInfo {
	var out []*TInfo
	for _, l := range s.Labels() {
		if t := s.Target(l); t.Kind != "filegroup" {
			out = append(out, targetInfo(s, l))
		}
	}
	return out
}

func newIDs(ti *TInfo, ref *Obs) []string {
	var out []string
	for _, n := range ti.all() {
		if f := ref.Outs[n]; f != nil {
			out = append(out, lib.Pair(lib.Str(n), lib.N(f.Content)))
		}
	}
	return out
}

func curRec(ti *TInfo, ref *Obs) *Rec {
	for _, n := range ti.all() {
		if f := ref.Outs[n]; f != nil && f.Rec != nil {
			return f.Rec
		}
	}
	if ref.Md != nil && ref.Md.Rec != nil {
		return ref.Md.Rec
	}
	return ref.Fb
}

// candidate crash points on the files of a repository
func pathPoints(r *lib.Rng, tis []*TInfo) []Point {
	var pts []Point
	for _, ti := range tis {
		for _, sc := range []string{"unlinkat", "renameat", "lsetxattr"} {
			pts = append(pts, Point{Mode: "path", Path: ti.mdPath(), Syscall: sc, When: 1})
		}
		for _, n := range ti.all() {
			p := filepath.Join(ti.OutDir, n)
			pts = append(pts, Point{Mode: "path", Path: p, Syscall: "renameat", When: 1}, Point{Mode: "path", Path: p, Syscall: "unlinkat", When: 1})
			for w := 1; w <= 3; w++ {
				pts = append(pts, Point{Mode: "path", Path: p, Syscall: "lsetxattr", When: w})
			}
		}
	}
	lib.Shuffle(r, pts)
	return pts
}

func countPoint(r *lib.Rng) Point {
	sc := lib.Pick(r, []string{"openat", "openat", "write", "close", "lsetxattr", "lsetxattr", "renameat", "unlinkat", "mkdirat", "linkat", "fchmodat"})
	max := map[string]int{"openat": 60, "write": 25, "close": 60, "lsetxattr": 10, "renameat": 5, "unlinkat": 12, "mkdirat": 10, "linkat": 4, "fchmodat": 3}[sc]
	return Point{Mode: "count", Syscall: sc, When: r.Range(1, max)}
}

func prepareRepo(r *lib.Rng, base string, idx int, spec *e2e.Spec) (*repoResult, *prepared) {
	rr := &repoResult{}
	repo := e2e.NewRepo(base, "repo")
	repo.Env = plzEnv
	repo.Threads = r.Range(1, 3)
	spec2 := editSpec(spec)
	labels := spec.Labels()
	tis := buildable(spec)

	// clean reference builds of both trees (fresh directories), and the uninterrupted builds in the repository under strace
	refs := map[string]*cleanRef{}
	var refsMu sync.Mutex
	var refsWG sync.WaitGroup
	refErr := "" // a panic in the goroutines below would kill the process: they report here instead
	for name, s := range map[string]*e2e.Spec{"1": spec, "2": spec2} {
		refsWG.Add(1)
		cl := repo.CleanCopy(base, "clean"+name, s) // before repo.Plz is pointed at the strace wrapper
		go func(name string, s *e2e.Spec, cl *e2e.Repo) {
			defer refsWG.Done()
			if d, failed := try(func() {
				res := cl.Run(120*time.Second, append([]string{"build"}, labels...)...)
				ref := &cleanRef{Outputs: e2e.TargetOutputs(cl, s, labels), Obs: map[string]*Obs{}, Exit: res.Exit}
				for _, ti := range tis {
					ref.Obs[ti.Label] = observe(cl.Dir, ti, true)
				}
				if res.Exit != 0 {
					panic(fmt.Sprintf("clean build of a generated repository failed (exit %d): %s", res.Exit, tailStr(res.Stderr+res.Stdout, 1200)))
				}
				refsMu.Lock()
				refs[name] = ref
				refsMu.Unlock()
			}); failed {
				refsMu.Lock()
				refErr += "clean reference build " + name + ": " + d + "\n"
				refsMu.Unlock()
			}
			os.RemoveAll(cl.Dir)
		}(name, s, cl)
	}
	rr.nplz += 2

	emitTrace := func(logPath string, ref *cleanRef, before map[string]*Obs, tag string, s *e2e.Spec) {
		for _, ti := range tis {
			cur := curRec(ti, ref.Obs[ti.Label])
			ids := map[string]uint64{}
			for n, f := range ref.Obs[ti.Label].Outs {
				ids[n] = f.Content
			}
			steps, started := traceSteps(logPath, repo.Dir, ti, ids, cur)
			if !started || cur == nil {
				continue
			}
			if dbg := os.Getenv("C32_DEBUG"); dbg != "" && !strings.Contains(strings.Join(steps, " "), "WClose") {
				d, _ := os.ReadFile(logPath)
				os.WriteFile(filepath.Join(dbg, fmt.Sprintf("trace-%d-%s.log", idx, tag)), d, 0o644)
			}
			term := lib.App("CTrace", ti.coqTarget(), lib.StrList(ti.DirOuts), lib.List(newIDs(ti, ref.Obs[ti.Label])), cur.coq(), before[ti.Label].coq(), lib.List(steps))
			js := map[string]any{"kind": "trace", "repo": idx, "build": tag, "label": ti.Label, "spec": s, "before": before[ti.Label], "steps": steps}
			key := fmt.Sprint("trace", idx, tag, ti.Label)
			rr.cases = append(rr.cases, func(c *lib.Ctx) {
				c.Case(oldCase(term), js, key, true)
				c.Hist("trace-steps", strconv.Itoa(len(steps)))
			})
		}
	}
	obsAll := func() map[string]*Obs {
		m := map[string]*Obs{}
		for _, ti := range tis {
			m[ti.Label] = observe(repo.Dir, ti, false)
		}
		return m
	}

	repo.Write(spec)
	emptyObs := obsAll()
	pt := Point{Mode: "log"}
	log1 := filepath.Join(base, "build1.log")
	real := repo.Plz
	repo.Plz = straceScript(base, real, log1, &pt)
	res := repo.Run(180*time.Second, append([]string{"build"}, labels...)...)
	rr.nplz++
	if res.Exit != 0 {
		refsWG.Wait()
		panic(fmt.Sprintf("first build under strace failed (exit %d): %s", res.Exit, tailStr(res.Stderr+res.Stdout, 1200)))
	}
	refsWG.Wait()
	if refErr != "" {
		panic(refErr)
	}
	emitTrace(log1, refs["1"], emptyObs, "first", spec)
	for _, ti := range tis {
		observe(repo.Dir, ti, true)
	}
	snapA := filepath.Join(base, "snapA")
	snapshot(repo, snapA)
	obsA := obsAll()
	repo.Write(spec2)
	log2 := filepath.Join(base, "build2.log")
	os.Remove(repo.Plz)
	repo.Plz = straceScript(base, real, log2, &pt)
	res = repo.Run(180*time.Second, append([]string{"build"}, labels...)...)
	rr.nplz++
	if res.Exit != 0 {
		panic(fmt.Sprintf("rebuild under strace failed (exit %d): %s", res.Exit, tailStr(res.Stderr+res.Stdout, 1200)))
	}
	emitTrace(log2, refs["2"], obsA, "edit", spec2)
	os.Remove(repo.Plz)
	repo.Plz = real
	for _, ti := range tis {
		observe(repo.Dir, ti, true)
	}
	snapB := filepath.Join(base, "snapB")
	snapshot(repo, snapB)
	empty := filepath.Join(base, "snapEmpty")
	must(os.MkdirAll(empty, 0o755))
	must(os.WriteFile(filepath.Join(empty, ".absent"), nil, 0o644))

	pr := &prepared{idx: idx, base: base, primary: repo, spec: spec, spec2: spec2, labels: labels, tis: tis, refs: refs, snapA: snapA, snapB: snapB, empty: empty}
	return rr, pr
}

type prepared struct {
	idx          int
	base         string
	primary      *e2e.Repo
	spec, spec2  *e2e.Spec
	labels       []string
	tis          []*TInfo
	refs         map[string]*cleanRef
	snapA, snapB string
	empty        string
}

// runJob runs one crash job in its own working copy of the repository (same action-log path text, so the
// command texts and therefore the recorded hashes are those of the primary copy and of the clean builds).
// failedToCreate returns the label in plz's "rule <label> failed to create output" message, or "".
func failedToCreate(out string) string {
	const k = "rule "
	i := strings.Index(out, " failed to create output")
	if i < 0 {
		return ""
	}
	j := strings.LastIndex(out[:i], k)
	if j < 0 {
		return ""
	}
	return strings.TrimSpace(out[j+len(k) : i])
}

func runJob(pr *prepared, ji int, job crashJob, base string) *repoResult {
	rr := &repoResult{}
	idx, spec, spec2, labels, tis, refs, snapA, snapB, empty := pr.idx, pr.spec, pr.spec2, pr.labels, pr.tis, pr.refs, pr.snapA, pr.snapB, pr.empty
	repo := e2e.NewRepo(base, "repo")
	repo.Env = plzEnv
	repo.Threads = pr.primary.Threads
	repo.LogPath = pr.primary.LogPath
	obsAll := func() map[string]*Obs {
		m := map[string]*Obs{}
		for _, ti := range tis {
			m[ti.Label] = observe(repo.Dir, ti, false)
		}
		return m
	}
	var s *e2e.Spec
	var ref *cleanRef
	forced := false
	switch job.Scenario {
	case "first", "double":
		s, ref = spec, refs["1"]
		restore(repo, empty)
	case "edit":
		s, ref = spec2, refs["2"]
		restore(repo, snapA)
	case "forced":
		s, ref, forced = spec2, refs["2"], true
		restore(repo, snapB)
	}
	repo.Write(s)
	type phase struct {
		before, after map[string]*Obs
		killed        bool
		pt            Point
	}
	var phases []phase
	pts := []Point{job.Point}
	if job.Point2 != nil {
		pts = append(pts, *job.Point2)
	}
	anyKill := false
	for _, p := range pts {
		before := obsAll()
		_, killed := runPoint(repo, base, p, forced, labels)
		rr.nplz++
		anyKill = anyKill || killed
		phases = append(phases, phase{before, obsAll(), killed, p})
	}
	if anyKill {
		rr.nkill++
	} else {
		rr.nnokil++
	}
	last := phases[len(phases)-1]
	rec := repo.Run(120*time.Second, append([]string{"build"}, labels...)...)
	rr.nplz++
	final := obsAll()
	outs := e2e.TargetOutputs(repo, s, labels)
	js := map[string]any{"kind": "plz", "repo": idx, "job": ji, "scenario": job.Scenario, "point": job.Point, "point2": job.Point2, "spec": spec,
		"killed": anyKill, "threads": repo.Threads, "recovery_exit": rec.Exit, "recovery_executed": rec.Executed}
	if rec.Exit != 0 {
		js["recovery_output"] = tailStr(rec.Stderr+rec.Stdout, 1200)
	}
	// ---- model side: one case per target and phase
	for pi, ph := range phases {
		for _, ti := range tis {
			cur := curRec(ti, ref.Obs[ti.Label])
			if cur == nil {
				continue
			}
			sk := ph.after[ti.Label]
			// a directory caught in the middle of RemoveAll is `junk` in the model
			for n, f := range sk.Outs {
				old := ph.before[ti.Label].Outs[n]
				nw := ref.Obs[ti.Label].Outs[n]
				if strings.HasPrefix(f.Tree, "dir{") && (old == nil || f.Content != old.Content) && (nw == nil || f.Content != nw.Content) {
					f.Content = 0
				}
			}
			decision := ""
			if pi == len(phases)-1 {
				switch {
				case strings.Contains(rec.Stderr+rec.Stdout, "failed to load build metadata for "+ti.Label):
					decision = "Fail"
				case final[ti.Label].Md != nil && (sk.Md == nil || sk.Md.Stamp != final[ti.Label].Md.Stamp):
					decision = "Rebuild"
				case rec.Exit == 0:
					decision = "Reuse"
				}
			} else {
				// what the next (killed) build did is seen from the state it left: only a start is certain
				nx := phases[pi+1].after[ti.Label]
				if (nx.Md == nil) != (sk.Md == nil) || (nx.Md != nil && nx.Md.Stamp != sk.Md.Stamp) {
					decision = "Rebuild"
				}
			}
			if decision == "" {
				continue
			}
			term := lib.App("CCrash", ti.coqTarget(), lib.StrList(ti.DirOuts), lib.List(newIDs(ti, ref.Obs[ti.Label])), cur.coq(), lib.Bool(forced),
				ph.before[ti.Label].coq(), sk.coq(), decision)
			cjs := map[string]any{"kind": "crash-state", "repo": idx, "job": ji, "scenario": job.Scenario, "point": ph.pt, "phase": pi, "label": ti.Label,
				"before": ph.before[ti.Label], "after": sk, "decision": decision, "spec": spec, "point1": job.Point, "point2": job.Point2}
			key := fmt.Sprint("crash", idx, ji, pi, ti.Label)
			moved := fmt.Sprint(ph.before[ti.Label].coq()) != fmt.Sprint(sk.coq())
			rr.cases = append(rr.cases, func(c *lib.Ctx) {
				c.Case(oldCase(term), cjs, key, moved)
				c.Hist("decision", decision)
				if moved {
					c.Hist("crash-state", "target-caught-mid-build")
				} else {
					c.Hist("crash-state", "target-untouched-or-complete")
				}
			})
		}
	}
	// ---- oracle: the recovery build succeeds and plz-out equals the clean build
	scen, killedStr := job.Scenario, map[bool]string{true: "killed", false: "not-reached"}[anyKill]
	mode := job.Point.Mode
	rr.cases = append(rr.cases, func(c *lib.Ctx) {
		c.Oracle()
		c.Eval(js, fmt.Sprint("plz", idx, ji), anyKill)
		c.Hist("scenario", scen)
		c.Hist("kill", mode+"-"+killedStr)
		// the known window: the killed build started although the records were current, and was killed while
		// the metadata file was empty
		window := ""
		windowSet := map[string]bool{}
		for _, ti := range tis {
			cur := curRec(ti, ref.Obs[ti.Label])
			sk := last.after[ti.Label]
			if sk.Md == nil || sk.Md.Full || cur == nil || len(ti.Decl) == 0 {
				continue
			}
			allCur := true
			for _, n := range ti.Decl {
				f := sk.Outs[n]
				if f == nil || f.Rec == nil || *f.Rec != *cur {
					allCur = false
				}
			}
			if allCur {
				windowSet[ti.Label] = true
				if window == "" || ti.Mod {
					window = ti.Label
				}
			}
		}
		if rec.Exit != 0 {
			if window != "" && strings.Contains(rec.Stderr+rec.Stdout, "failed to load build metadata for ") {
				c.Fail("rebuild-of-current-target-killed-while-metadata-rewritten", fmt.Sprintf("%s: the next build trusts the current record on the declared outputs next to an empty metadata file and fails (%s, scenario %s)", window, firstLine(rec.Stderr+rec.Stdout, "failed to load"), scen), js)
			} else if lbl := failedToCreate(rec.Stderr + rec.Stdout); lbl != "" && spec.Target(lbl) != nil && len(spec.Target(lbl).OutDirs) > 0 &&
				job.Point.Mode == "path" && job.Point.Syscall == "lsetxattr" && strings.HasPrefix(job.Point.Path, "plz-out/gen/") && job.Point2 == nil {
				// narrow class (listed): an output_dirs target killed while the records of its discovered outputs are being written;
				// the next build does not recreate its declared output. Any other failing recovery stays under recovery-build-fails.
				c.Fail("output-dirs-target-killed-while-recording-outputs-next-build-fails", fmt.Sprintf("%s: the build after the kill exits %d (scenario %s): %s", lbl, rec.Exit, scen, tailStr(rec.Stderr+rec.Stdout, 300)), js)
			} else {
				c.Fail("recovery-build-fails", fmt.Sprintf("the build after the kill exits %d (scenario %s): %s", rec.Exit, scen, tailStr(rec.Stderr+rec.Stdout, 300)), js)
			}
			return
		}
		for _, l := range labels {
			if ok, why := e2e.OutputsEqual(outs[l], ref.Outputs[l]); !ok {
				c.Fail("recovery-differs-from-clean", fmt.Sprintf("%s after the kill and a normal build (scenario %s): %s", l, scen, why), js)
				return
			}
		}
		for _, ti := range tis {
			f, cl := final[ti.Label], ref.Obs[ti.Label]
			if f.Md == nil || !f.Md.Full {
				if windowSet[ti.Label] {
					c.Fail("empty-metadata-trusted-after-killed-rebuild-of-current-target", fmt.Sprintf("%s: the build after the kill reports the target unchanged although its metadata file is empty (scenario %s)", ti.Label, scen), js)
				} else {
					c.Fail("metadata-incomplete-after-recovery", fmt.Sprintf("%s: metadata file missing or undecodable after the recovery build", ti.Label), js)
				}
				return
			}
			for n, fo := range f.Outs {
				co := cl.Outs[n]
				if co == nil || fo.Rec == nil || co.Rec == nil || *fo.Rec != *co.Rec {
					c.Fail("record-differs-from-clean", fmt.Sprintf("%s output %s: the recorded hashes after recovery are not those of the clean build", ti.Label, n), js)
					return
				}
			}
		}
	})
	return rr
}

func tailStr(s string, n int) string {
	if len(s) > n {
		return s[len(s)-n:]
	}
	return s
}

func firstLine(s, containing string) string {
	for _, l := range strings.Split(s, "\n") {
		if strings.Contains(l, containing) {
			return strings.TrimSpace(l)
		}
	}
	return ""
}

// a corpus witness: the tree and the kill history on which the unchanged code failed before a fix
type corpusWitness struct {
	Class      string     `json:"class"`
	What       string     `json:"what"`
	FixedBy    string     `json:"fixed_by"`
	Spec       *e2e.Spec  `json:"spec"`
	Jobs       []crashJob `json:"jobs"`         // the history in terms of the code as it is now
	PreFixJobs []crashJob `json:"pre_fix_jobs"` // the original kill points (no longer reachable while the fix is in place)
}

func loadCorpus(i int) *corpusWitness {
	dir := os.Getenv("VERIF_DIR")
	if dir == "" {
		dir = "/verif"
	}
	files, _ := filepath.Glob(filepath.Join(dir, "corpus", "C32", "*.json"))
	sort.Strings(files)
	if i-1 >= len(files) {
		return nil
	}
	data, err := os.ReadFile(files[i-1])
	if err != nil {
		return nil
	}
	var w corpusWitness
	if json.Unmarshal(data, &w) != nil || w.Spec == nil {
		return nil
	}
	return &w
}

func partP(c *lib.Ctx, base string) {
	var replay struct {
		Kind     string    `json:"kind"`
		Spec     *e2e.Spec `json:"spec"`
		Scenario string    `json:"scenario"`
		Point    *Point    `json:"point"`
		Point1   *Point    `json:"point1"`
		Point2   *Point    `json:"point2"`
	}
	type repoPlan struct {
		spec *e2e.Spec
		jobs []crashJob
		r    *lib.Rng
	}
	var plans []repoPlan
	if c.ReadReplay(&replay) {
		if replay.Kind == "writefile" || replay.Spec == nil {
			return
		}
		p1 := replay.Point
		if replay.Point1 != nil {
			p1 = replay.Point1
		}
		if p1 == nil || replay.Scenario == "" {
			p1, replay.Scenario = &Point{Mode: "none"}, "first"
		}
		var jobs []crashJob
		for i := 0; i < 4; i++ { // a kill point of a multi-threaded process is not exactly repeatable: try a few times
			jobs = append(jobs, crashJob{Scenario: replay.Scenario, Point: *p1, Point2: replay.Point2})
		}
		plans = append(plans, repoPlan{replay.Spec, jobs, c.Rng.Fork()})
	} else {
		nrepos := c.Scale(3, 40)
		for i := 0; i < nrepos; i++ {
			r := c.Rng.Fork()
			adv := 0
			if i < 2 {
				adv = i + 1
			}
			spec := genSpec(r, adv)
			var corpusJobs []crashJob
			if adv > 0 {
				// the pre-fix failing inputs (corpus/C32): same trees, kept in the stream so that a returning defect is a VIOLATION
				if w := loadCorpus(adv); w != nil {
					spec, corpusJobs = w.Spec, w.Jobs
					c.Hist("corpus", w.Class)
					corpusJobs = append(corpusJobs, w.PreFixJobs...) // the original kill points: unreachable while the fix is in place
				}
			}
			tis := buildable(spec)
			pts := pathPoints(r, tis)
			next := func() Point {
				p := pts[0]
				pts = pts[1:]
				return p
			}
			var jobs []crashJob
			nFirst, nEdit, nForced, nDouble := c.Scale(2, 12), c.Scale(3, 16), c.Scale(2, 6), c.Scale(1, 4)
			for k := 0; k < nFirst; k++ {
				switch k % 3 {
				case 0:
					jobs = append(jobs, crashJob{Scenario: "first", Point: next()})
				case 1:
					jobs = append(jobs, crashJob{Scenario: "first", Point: Point{Mode: "timer", DelayMs: r.Range(40, 900)}})
				default:
					jobs = append(jobs, crashJob{Scenario: "first", Point: countPoint(r)})
				}
			}
			for k := 0; k < nEdit; k++ {
				switch k % 4 {
				case 0, 2:
					jobs = append(jobs, crashJob{Scenario: "edit", Point: next()})
				case 1:
					jobs = append(jobs, crashJob{Scenario: "edit", Point: countPoint(r)})
				default:
					jobs = append(jobs, crashJob{Scenario: "edit", Point: Point{Mode: "timer", DelayMs: r.Range(40, 900)}})
				}
			}
			// forced rebuild of the up-to-date tree, killed while a metadata file is being rewritten (the window the proof exposes)
			var mod, plain *TInfo
			for _, ti := range tis {
				if ti.Mod {
					mod = ti
				} else if plain == nil || r.Chance(1, 2) {
					plain = ti
				}
			}
			for k := 0; k < nForced; k++ {
				ti := mod
				if k%2 == 1 && plain != nil {
					ti = plain
				}
				// the metadata file is now written through a temporary file: the window that existed before the fix
				// (metadata created, not yet written) corresponds to a kill between RemoveAll and the rename
				pt := Point{Mode: "path", Path: ti.mdPath(), Syscall: "renameat", When: 1}
				switch {
				case k == 1 || k%4 == 3:
					pt = Point{Mode: "count", Syscall: "fchmodat", When: r.Range(1, 3)} // only WriteFile chmods: kill inside a metadata write
				case k >= 2:
					pt = Point{Mode: "path", Path: ti.mdPath(), Syscall: lib.Pick(r, []string{"renameat", "lsetxattr", "unlinkat"}), When: 1}
				}
				jobs = append(jobs, crashJob{Scenario: "forced", Point: pt})
			}
			// two kills in a row: first when the record reaches the first output, then in the metadata rewrite of the next build
			for k := 0; k < nDouble; k++ {
				// the output right after the (first) declared one in sorted order: killed on entry to ITS record write
				all := mod.all()
				at := len(all) - 1
				for i, n := range all {
					if n == mod.Decl[0] && i+1 < len(all) {
						at = i + 1
					}
				}
				p1 := Point{Mode: "path", Path: filepath.Join(mod.OutDir, all[at]), Syscall: "lsetxattr", When: 2}
				if k%2 == 1 {
					p1 = Point{Mode: "path", Path: filepath.Join(mod.OutDir, all[len(all)-1]), Syscall: "lsetxattr", When: 2}
				}
				p2 := Point{Mode: "path", Path: mod.mdPath(), Syscall: "renameat", When: 1}
				jobs = append(jobs, crashJob{Scenario: "double", Point: p1, Point2: &p2})
			}
			jobs = append(jobs, corpusJobs...)
			plans = append(plans, repoPlan{spec, jobs, r})
		}
	}
	tStart := time.Now()
	results := make([]*repoResult, len(plans))
	preps := make([]*prepared, len(plans))
	var wg sync.WaitGroup
	sem := make(chan struct{}, 8)
	for i := range plans {
		wg.Add(1)
		sem <- struct{}{}
		go func(i int) {
			defer wg.Done()
			defer func() { <-sem }()
			attempt := 0
			if !guardRetry("reference-and-traced-builds", map[string]any{"kind": "plz", "repo": i, "spec": plans[i].spec, "scenario": "first", "point": Point{Mode: "none"}}, func() {
				attempt++
				dir := fmt.Sprintf("%s/r%d", base, i)
				if attempt > 1 {
					os.RemoveAll(dir)
				}
				must(os.MkdirAll(dir, 0o755))
				results[i], preps[i] = nil, nil
				// every attempt draws from its own copy of the stream, so that a retry builds the same repository
				r := *plans[i].r
				results[i], preps[i] = prepareRepo(&r, dir, i, plans[i].spec)
			}) {
				results[i], preps[i] = &repoResult{}, nil
			}
		}(i)
	}
	wg.Wait()
	tPrep := time.Since(tStart)
	type jr struct {
		i, j int
		rr   *repoResult
	}
	var jrs []*jr
	for i := range plans {
		if preps[i] == nil {
			continue // reported by reportStages
		}
		for j := range plans[i].jobs {
			jrs = append(jrs, &jr{i: i, j: j})
		}
	}
	for _, x := range jrs {
		wg.Add(1)
		sem <- struct{}{}
		go func(x *jr) {
			defer wg.Done()
			defer func() { <-sem }()
			dir := fmt.Sprintf("%s/r%d/j%d", base, x.i, x.j)
			job := plans[x.i].jobs[x.j]
			x.rr = &repoResult{}
			guardRetry("crash-job", map[string]any{"kind": "plz", "repo": x.i, "job": x.j, "spec": plans[x.i].spec, "scenario": job.Scenario, "point": job.Point, "point2": job.Point2}, func() {
				os.RemoveAll(dir)
				must(os.MkdirAll(dir, 0o755))
				x.rr = &repoResult{}
				x.rr = runJob(preps[x.i], x.j, job, dir)
			})
			os.RemoveAll(dir)
		}(x)
	}
	wg.Wait()
	for _, x := range jrs {
		results = append(results, x.rr)
	}
	nplz, nkill, nno := 0, 0, 0
	for _, rr := range results {
		for _, f := range rr.cases {
			f(c)
		}
		nplz += rr.nplz
		nkill += rr.nkill
		nno += rr.nnokil
	}
	c.Note("plz timing: reference and traced builds %.1fs, crash jobs %.1fs", tPrep.Seconds(), (time.Since(tStart) - tPrep).Seconds())
	c.Note("plz: %d repositories, %d plz invocations, %d crash jobs in which plz was killed, %d in which the chosen point was not reached (plz finished; the oracle still ran)", len(plans), nplz, nkill, nno)
}

// =============================================================================================
// Part T: the work directory plz-out/tmp/<target>._build and leftover-sensitive build commands
//
// One genrule in the root package whose command is a program of the closed language of Model/C32_Tmp.v
// (cat x > f, cat x >> f, mkdir f, rmdir f, rm -f f, [ -e f ] || { ... }) with SYNC points between its simple
// commands. A sync point is `{ [ ! -e $C/stop.N ] || { : > $C/reached.N; sleep 30; exit 97; }; }` with
// C = <repository>/.c32ctl: the harness creates stop.N, starts `plz build`, waits for reached.N, and SIGKILLs
// plz (its process group) and then the command (its process group: plz starts it with Setpgid, the command wrote
// its $$ to $C/pid) - so plz AND its children die while the command is between two of its own writes, at a
// chosen, repeatable point. Then the work directory is read, possibly a second build is killed the same way at
// another point, and a normal `plz build` runs; its outputs are compared with a clean build in a fresh directory.

type TArg struct {
	Kind string `json:"kind"` // src | lit | file
	V    string `json:"v"`
}

type TStep struct {
	Op string `json:"op"` // write | append | mkdir | rmdir | remove | skipifexists | sync
	F  string `json:"f,omitempty"`
	A  *TArg  `json:"a,omitempty"`
	N  int    `json:"n,omitempty"` // skipifexists: how many of the following non-sync steps the guard covers; sync: its number
}

type TSpec struct {
	Shape string      `json:"shape"`
	Name  string      `json:"name"`
	Srcs  [][2]string `json:"srcs"` // name, content (in $SRCS order)
	Cmd   []TStep     `json:"cmd"`
	Outs  []string    `json:"outs"`
}

func (a *TArg) sh() string {
	switch a.Kind {
	case "src", "file":
		return "cat " + a.V
	case "lit":
		return "printf %s " + shq(a.V)
	}
	panic("unknown arg kind " + a.Kind)
}

func shq(x string) string { return "'" + strings.ReplaceAll(x, "'", `'\''`) + "'" }

func (a *TArg) coq() string {
	switch a.Kind {
	case "src":
		return lib.App("ASrc", lib.Str(a.V))
	case "lit":
		return lib.App("ALit", lib.Str(a.V))
	}
	return lib.App("AFile", lib.Str(a.V))
}

func (st TStep) sh() string {
	switch st.Op {
	case "write":
		return st.A.sh() + " > " + st.F
	case "append":
		return st.A.sh() + " >> " + st.F
	case "mkdir":
		return "mkdir " + st.F
	case "rmdir":
		return "rmdir " + st.F
	case "remove":
		return "rm -f " + st.F
	case "sync":
		return fmt.Sprintf("{ [ ! -e $C/stop.%d ] || { : > $C/reached.%d; sleep 30; exit 97; }; }", st.N, st.N)
	}
	panic("unknown op " + st.Op)
}

// shell renders the command; the guard of a skipifexists covers the next N non-sync steps (and the sync points between them).
func (t *TSpec) shell() string {
	parts := []string{"C=$TMP_DIR/../../../.c32ctl", "mkdir -p $C", "echo $$ > $C/pid"}
	for i := 0; i < len(t.Cmd); i++ {
		st := t.Cmd[i]
		if st.Op != "skipifexists" {
			parts = append(parts, st.sh())
			continue
		}
		var inner []string
		left := st.N
		j := i + 1
		for ; j < len(t.Cmd) && left > 0; j++ {
			if t.Cmd[j].Op == "skipifexists" {
				panic("nested guard")
			}
			inner = append(inner, t.Cmd[j].sh())
			if t.Cmd[j].Op != "sync" {
				left--
			}
		}
		if len(inner) == 0 {
			inner = []string{":"}
		}
		parts = append(parts, "{ [ -e "+st.F+" ] || { "+strings.Join(inner, " && ")+"; }; }")
		i = j - 1
	}
	return strings.Join(parts, " && ")
}

func (t *TSpec) coqCmd() string {
	var out []string
	for _, st := range t.Cmd {
		switch st.Op {
		case "write":
			out = append(out, lib.App("Write", lib.Str(st.F), st.A.coq()))
		case "append":
			out = append(out, lib.App("Append", lib.Str(st.F), st.A.coq()))
		case "mkdir":
			out = append(out, lib.App("Mkdir", lib.Str(st.F)))
		case "rmdir":
			out = append(out, lib.App("Rmdir", lib.Str(st.F)))
		case "remove":
			out = append(out, lib.App("Remove", lib.Str(st.F)))
		case "skipifexists":
			out = append(out, lib.App("SkipIfExists", lib.Str(st.F), lib.Nat(st.N)))
		}
	}
	return lib.List(out)
}

// position of sync point n = the number of the command's own steps before it
func (t *TSpec) syncPos(n int) int {
	k := 0
	for _, st := range t.Cmd {
		if st.Op == "sync" {
			if st.N == n {
				return k
			}
			continue
		}
		k++
	}
	return -1
}

func (t *TSpec) syncs() []int {
	var out []int
	for _, st := range t.Cmd {
		if st.Op == "sync" {
			out = append(out, st.N)
		}
	}
	return out
}

func (t *TSpec) write(dir string) {
	must(os.MkdirAll(filepath.Join(dir, ".c32ctl"), 0o755))
	must(os.WriteFile(filepath.Join(dir, ".plzconfig"), []byte("[build]\npath = /usr/local/bin:/usr/bin:/bin\n[cache]\ndir = \n[display]\nupdatetitle = false\n"), 0o644))
	var names []string
	for _, kv := range t.Srcs {
		names = append(names, kv[0])
		must(os.WriteFile(filepath.Join(dir, kv[0]), []byte(kv[1]), 0o644))
	}
	q := func(xs []string) string {
		var o []string
		for _, x := range xs {
			o = append(o, strconv.Quote(x))
		}
		return "[" + strings.Join(o, ", ") + "]"
	}
	build := fmt.Sprintf("genrule(\n    name = %s,\n    srcs = %s,\n    outs = %s,\n    cmd = %s,\n)\n", strconv.Quote(t.Name), q(names), q(t.Outs), strconv.Quote(t.shell()))
	must(os.WriteFile(filepath.Join(dir, "BUILD"), []byte(build), 0o644))
}

func (t *TSpec) tmpDir(dir string) string {
	return filepath.Join(dir, "plz-out", "tmp", t.Name+"._build")
}

type TNode struct {
	Dir  bool   `json:"dir,omitempty"`
	Data string `json:"data,omitempty"`
}

type TObs struct {
	State   string           `json:"state"` // absent | notdir | dir
	Entries map[string]TNode `json:"entries,omitempty"`
	Other   []string         `json:"other,omitempty"` // the links to the sources - not part of the model's directory
}

func (t *TSpec) observeTmp(dir string) TObs {
	p := t.tmpDir(dir)
	info, err := os.Lstat(p)
	if err != nil {
		return TObs{State: "absent"}
	}
	if !info.IsDir() {
		return TObs{State: "notdir"}
	}
	o := TObs{State: "dir", Entries: map[string]TNode{}}
	isSrc := map[string]bool{}
	for _, kv := range t.Srcs {
		isSrc[kv[0]] = true
	}
	es, _ := os.ReadDir(p)
	for _, e := range es {
		fi, err := os.Lstat(filepath.Join(p, e.Name()))
		if err != nil {
			continue
		}
		switch {
		case isSrc[e.Name()] || fi.Mode()&os.ModeSymlink != 0: // the sources: hard links (or symbolic links) made by prepareSources
			o.Other = append(o.Other, e.Name())
		case fi.IsDir():
			o.Entries[e.Name()] = TNode{Dir: true}
		default:
			d, _ := os.ReadFile(filepath.Join(p, e.Name()))
			o.Entries[e.Name()] = TNode{Data: string(d)}
		}
	}
	return o
}

func (o TObs) coq() string {
	switch o.State {
	case "absent":
		return "TAbsent"
	case "notdir":
		return "TNotDir"
	}
	var es []string
	for _, n := range lib.SortedKeys(o.Entries) {
		e := o.Entries[n]
		if e.Dir {
			es = append(es, lib.Pair(lib.Str(n), "NDir"))
		} else {
			es = append(es, lib.Pair(lib.Str(n), lib.App("NFile", lib.Str(e.Data))))
		}
	}
	return lib.App("TDir", lib.List(es))
}

// tOutputs reads the declared outputs from plz-out/gen (nil when one is missing)
func (t *TSpec) outputs(dir string) (map[string]string, string) {
	out := map[string]string{}
	for _, o := range t.Outs {
		p := filepath.Join(dir, "plz-out", "gen", o)
		fi, err := os.Lstat(p)
		if err != nil {
			return nil, "output " + o + " is missing"
		}
		if !fi.Mode().IsRegular() {
			return nil, "output " + o + " is not a regular file"
		}
		d, _ := os.ReadFile(p)
		out[o] = string(d)
	}
	return out, ""
}

type tRun struct {
	Exit    int
	Out     string
	Reached bool
	Killed  bool
}

func killGroup(pid int) {
	if pid <= 1 {
		return
	}
	syscall.Kill(-pid, syscall.SIGKILL)
	syscall.Kill(pid, syscall.SIGKILL)
	for i := 0; i < 400; i++ {
		if err := syscall.Kill(-pid, 0); err != nil {
			return
		}
		time.Sleep(5 * time.Millisecond)
	}
}

func cmdPid(dir string) int {
	d, err := os.ReadFile(filepath.Join(dir, ".c32ctl", "pid"))
	if err != nil {
		return 0
	}
	n, _ := strconv.Atoi(strings.TrimSpace(string(d)))
	return n
}

// tRunPlz runs `plz build //:name`; stopAt >= 0: the command stops at that sync point, and plz and the command are killed there.
func (t *TSpec) runPlz(dir string, stopAt int) tRun {
	plz := os.Getenv("VERIF_PLZ")
	if plz == "" {
		plz = "/verif/build/bin/plz"
	}
	ctl := filepath.Join(dir, ".c32ctl")
	os.Remove(filepath.Join(ctl, "pid"))
	stop, reached := filepath.Join(ctl, fmt.Sprintf("stop.%d", stopAt)), filepath.Join(ctl, fmt.Sprintf("reached.%d", stopAt))
	if stopAt >= 0 {
		os.Remove(reached)
		must(os.WriteFile(stop, nil, 0o644))
		defer os.Remove(stop)
		defer os.Remove(reached)
	}
	cmd := exec.Command(plz, "--plain_output", "-v", "1", "build", "//:"+t.Name)
	cmd.Dir = dir
	cmd.Env = plzEnv
	cmd.SysProcAttr = &syscall.SysProcAttr{Setpgid: true}
	var buf strings.Builder
	cmd.Stdout, cmd.Stderr = &buf, &buf
	must(cmd.Start())
	done := make(chan error, 1)
	go func() { done <- cmd.Wait() }()
	res := tRun{}
	finish := func(err error) {
		if err != nil {
			if ee, ok := err.(*exec.ExitError); ok {
				res.Exit = ee.ExitCode()
			} else {
				res.Exit = -1
			}
		}
	}
	deadline := time.After(150 * time.Second)
	tick := time.NewTicker(2 * time.Millisecond)
	defer tick.Stop()
	for {
		select {
		case err := <-done:
			finish(err)
			res.Out = buf.String()
			killGroup(cmdPid(dir)) // nothing of the command may outlive the build
			return res
		case <-deadline:
			syscall.Kill(-cmd.Process.Pid, syscall.SIGKILL)
			<-done
			killGroup(cmdPid(dir))
			panic("plz build did not finish within 150 s: " + tailStr(buf.String(), 600))
		case <-tick.C:
			if stopAt < 0 {
				continue
			}
			if _, err := os.Stat(reached); err != nil {
				continue
			}
			res.Reached = true
			pid := cmdPid(dir)
			// plz first (a plz that sees its command die would clean up after it), then the command and its children
			syscall.Kill(-cmd.Process.Pid, syscall.SIGKILL)
			finish(<-done)
			killGroup(pid)
			res.Killed = true
			res.Out = buf.String()
			return res
		}
	}
}

type tJob struct {
	Spec    *TSpec `json:"tspec"`
	History []int  `json:"history"` // sync points at which successive builds are killed
}

type tResult struct {
	job     tJob
	clean   map[string]string
	cleanOK bool
	cleanLog string
	reached []bool
	tmpObs  []TObs
	rec     tRun
	recOut  map[string]string
	recWhy  string
	again   tRun
	againOut map[string]string
	nplz    int
}

var tCleanMu sync.Mutex

func runTJob(base string, j tJob, cleanOf func(*TSpec) (map[string]string, bool, string)) *tResult {
	r := &tResult{job: j}
	r.clean, r.cleanOK, r.cleanLog = cleanOf(j.Spec)
	dir := filepath.Join(base, "repo")
	must(os.MkdirAll(dir, 0o755))
	j.Spec.write(dir)
	for _, n := range j.History {
		run := j.Spec.runPlz(dir, n)
		r.nplz++
		r.reached = append(r.reached, run.Killed)
		r.tmpObs = append(r.tmpObs, j.Spec.observeTmp(dir))
	}
	r.rec = j.Spec.runPlz(dir, -1)
	r.nplz++
	if r.rec.Exit == 0 {
		r.recOut, r.recWhy = j.Spec.outputs(dir)
	}
	r.again = j.Spec.runPlz(dir, -1)
	r.nplz++
	if r.again.Exit == 0 {
		r.againOut, _ = j.Spec.outputs(dir)
	}
	return r
}

func tSpecs(c *lib.Ctx) []*TSpec {
	src := func(n string) *TArg { return &TArg{"src", n} }
	file := func(n string) *TArg { return &TArg{"file", n} }
	lit := func(x string) *TArg { return &TArg{"lit", x} }
	sync := func(n int) TStep { return TStep{Op: "sync", N: n} }
	ab := [][2]string{{"a.txt", "alpha\n"}, {"b.txt", "beta\n"}}
	abc := [][2]string{{"a.txt", "alpha\n"}, {"b.txt", "beta\n"}, {"c.txt", "gamma\n"}}
	specs := []*TSpec{
		// append to a scratch file in the work directory, then copy to the output
		{Shape: "append-scratch", Name: "app", Srcs: abc, Outs: []string{"all.txt"}, Cmd: []TStep{
			{Op: "append", F: "acc", A: src("a.txt")}, sync(1), {Op: "append", F: "acc", A: src("b.txt")}, sync(2),
			{Op: "append", F: "acc", A: src("c.txt")}, sync(3), {Op: "write", F: "all.txt", A: file("acc")}, sync(4)}},
		// the classic `for s in $SRCS; do cat $s >> $OUT; done` (the seeded mutation's demo)
		{Shape: "append-out", Name: "cat", Srcs: ab, Outs: []string{"all.txt"}, Cmd: []TStep{
			{Op: "append", F: "all.txt", A: src("a.txt")}, sync(1), {Op: "append", F: "all.txt", A: src("b.txt")}, sync(2)}},
		// mkdir without -p as a lock
		{Shape: "mkdir-lock", Name: "lock", Srcs: ab, Outs: []string{"all.txt"}, Cmd: []TStep{
			{Op: "mkdir", F: "lock.d"}, sync(1), {Op: "write", F: "all.txt", A: src("a.txt")}, sync(2),
			{Op: "append", F: "all.txt", A: src("b.txt")}, {Op: "rmdir", F: "lock.d"}, sync(3)}},
		// [ -e gen.txt ] || generate it (non-atomically), then use it
		{Shape: "test-e-guard", Name: "guard", Srcs: ab, Outs: []string{"all.txt"}, Cmd: []TStep{
			{Op: "skipifexists", F: "gen.txt", N: 2}, {Op: "write", F: "gen.txt", A: src("a.txt")}, sync(1), {Op: "append", F: "gen.txt", A: src("b.txt")},
			sync(2), {Op: "write", F: "all.txt", A: file("gen.txt")}, sync(3)}},
		// two outputs, a stamp file guarding the second half
		{Shape: "stamp-two-outs", Name: "two", Srcs: ab, Outs: []string{"one.txt", "two.txt"}, Cmd: []TStep{
			{Op: "append", F: "one.txt", A: lit("head\n")}, sync(1), {Op: "append", F: "one.txt", A: src("a.txt")}, {Op: "write", F: "stamp", A: lit("x")}, sync(2),
			{Op: "skipifexists", F: "two.txt", N: 1}, {Op: "write", F: "two.txt", A: src("b.txt")}, sync(3)}},
		// control: a command that cleans up before it appends is not leftover-sensitive
		{Shape: "robust-control", Name: "robust", Srcs: ab, Outs: []string{"all.txt"}, Cmd: []TStep{
			{Op: "remove", F: "acc"}, {Op: "append", F: "acc", A: src("a.txt")}, sync(1), {Op: "append", F: "acc", A: src("b.txt")}, sync(2),
			{Op: "write", F: "all.txt", A: file("acc")}}},
	}
	// random programs of the language (every one ends by writing the output from the scratch file)
	for i, n := 0, c.Scale(3, 40); i < n; i++ {
		r := c.Rng.Fork()
		t := &TSpec{Shape: "random", Name: fmt.Sprintf("rnd%d", i), Srcs: abc, Outs: []string{"all.txt"}}
		files := []string{"acc", "tmp1", "all.txt"}
		srcs := []string{"a.txt", "b.txt", "c.txt"}
		ns := 0
		nsteps := r.Range(2, 6)
		for k := 0; k < nsteps; k++ {
			var st TStep
			switch r.Intn(10) {
			case 0, 1, 2, 3:
				st = TStep{Op: "append", F: lib.Pick(r, files), A: src(lib.Pick(r, srcs))}
			case 4:
				st = TStep{Op: "append", F: lib.Pick(r, files), A: lit(lib.Pick(r, []string{"x", "--\n"}))}
			case 5:
				st = TStep{Op: "write", F: lib.Pick(r, files), A: src(lib.Pick(r, srcs))}
			case 6:
				st = TStep{Op: "mkdir", F: lib.Pick(r, []string{"d1", "d2"})}
			case 7:
				st = TStep{Op: "remove", F: lib.Pick(r, files)}
			case 8:
				st = TStep{Op: "skipifexists", F: lib.Pick(r, []string{"acc", "tmp1", "d1"}), N: 1}
				t.Cmd = append(t.Cmd, st)
				st = TStep{Op: "append", F: lib.Pick(r, files), A: src(lib.Pick(r, srcs))}
			default:
				st = TStep{Op: "append", F: "acc", A: src(lib.Pick(r, srcs))}
			}
			t.Cmd = append(t.Cmd, st)
			ns++
			t.Cmd = append(t.Cmd, sync(ns))
		}
		t.Cmd = append(t.Cmd, TStep{Op: "append", F: "acc", A: lit("end\n")}, TStep{Op: "append", F: "all.txt", A: file("acc")})
		specs = append(specs, t)
	}
	return specs
}

func partT(c *lib.Ctx, base string) func() {
	var jobs []tJob
	var replay struct {
		Kind    string `json:"kind"`
		TSpec   *TSpec `json:"tspec"`
		History []int  `json:"history"`
		Input   *struct {
			TSpec   *TSpec `json:"tspec"`
			History []int  `json:"history"`
		} `json:"input"`
	}
	if c.ReadReplay(&replay) {
		if replay.TSpec == nil && replay.Input != nil { // a stage failure wraps the job
			replay.TSpec, replay.History = replay.Input.TSpec, replay.Input.History
		}
		if replay.TSpec == nil {
			return func() {}
		}
		jobs = []tJob{{replay.TSpec, replay.History}}
	} else {
		for _, t := range tSpecs(c) {
			sy := t.syncs()
			r := c.Rng.Fork()
			if t.Shape == "random" {
				// one single kill and one double kill per random program
				jobs = append(jobs, tJob{t, []int{lib.Pick(r, sy)}}, tJob{t, []int{lib.Pick(r, sy), lib.Pick(r, sy)}})
				continue
			}
			for _, n := range sy {
				jobs = append(jobs, tJob{t, []int{n}})
			}
			// two kills in a row: the second build meets what the first left
			jobs = append(jobs, tJob{t, []int{sy[0], sy[len(sy)-1]}})
			if c.Thor {
				jobs = append(jobs, tJob{t, []int{sy[len(sy)/2], sy[0]}})
				for i := 0; i < 4; i++ {
					jobs = append(jobs, tJob{t, []int{lib.Pick(r, sy), lib.Pick(r, sy), lib.Pick(r, sy)}})
				}
			}
		}
	}
	// clean reference builds, one per spec (fresh directory)
	type cl struct {
		once sync.Once
		out  map[string]string
		ok   bool
		log  string
	}
	cleans := map[*TSpec]*cl{}
	var nclean int
	for _, j := range jobs {
		if cleans[j.Spec] == nil {
			cleans[j.Spec] = &cl{}
		}
	}
	cleanOf := func(t *TSpec) (map[string]string, bool, string) {
		e := cleans[t]
		e.once.Do(func() {
			tCleanMu.Lock()
			nclean++
			dir := filepath.Join(base, fmt.Sprintf("tclean%d", nclean), "repo")
			tCleanMu.Unlock()
			must(os.MkdirAll(dir, 0o755))
			t.write(dir)
			run := t.runPlz(dir, -1)
			e.log = tailStr(run.Out, 600)
			if run.Exit == 0 {
				e.out, _ = t.outputs(dir)
				e.ok = e.out != nil
			}
			os.RemoveAll(filepath.Dir(dir))
		})
		return e.out, e.ok, e.log
	}
	results := make([]*tResult, len(jobs))
	done := make(chan struct{})
	tStart := time.Now()
	go func() {
		defer close(done)
		var wg sync.WaitGroup
		sem := make(chan struct{}, 4)
		for i := range jobs {
			wg.Add(1)
			sem <- struct{}{}
			go func(i int) {
				defer wg.Done()
				defer func() { <-sem }()
				dir := filepath.Join(base, fmt.Sprintf("t%d", i))
				guardRetry("work-directory-job", map[string]any{"kind": "tmpdir", "tspec": jobs[i].Spec, "history": jobs[i].History}, func() {
					os.RemoveAll(dir)
					must(os.MkdirAll(dir, 0o755))
					results[i] = nil
					results[i] = runTJob(dir, jobs[i], cleanOf)
				})
				os.RemoveAll(dir)
			}(i)
		}
		wg.Wait()
	}()
	return func() {
		<-done
		wall := time.Since(tStart)
		nplz, nkilled, nmiss := 0, 0, 0
		for i, r := range results {
			if r == nil {
				continue // reported by reportStages
			}
			j := r.job
			t := j.Spec
			nplz += r.nplz
			js := map[string]any{"kind": "tmpdir", "tspec": t, "history": j.History, "command": t.shell(), "reached": r.reached, "work_dir_after_kills": r.tmpObs,
				"recovery_exit": r.rec.Exit, "recovery_outputs": r.recOut, "clean_outputs": r.clean, "clean_ok": r.cleanOK}
			if r.rec.Exit != 0 {
				js["recovery_output"] = tailStr(r.rec.Out, 800)
			}
			// ---- model side: the kills that happened since the last build that ran to its end
			var ks []string
			anyKill := false
			for hi, n := range j.History {
				if r.reached[hi] {
					ks = append(ks, lib.Nat(t.syncPos(n)))
					anyKill = true
					nkilled++
				} else {
					ks = nil // the sync point was not reached (guarded away): that build ran to its end and cleaned up
					nmiss++
				}
			}
			obsTmp := TObs{State: "absent"}
			if len(r.tmpObs) > 0 {
				obsTmp = r.tmpObs[len(r.tmpObs)-1]
			}
			obsOut := "None"
			if r.rec.Exit == 0 && r.recOut != nil {
				var kv []string
				for _, o := range t.Outs {
					kv = append(kv, lib.Pair(lib.Str(o), lib.Str(r.recOut[o])))
				}
				obsOut = lib.Some(lib.List(kv))
			}
			var srcs []string
			for _, kv := range t.Srcs {
				srcs = append(srcs, lib.Pair(lib.Str(kv[0]), lib.Str(kv[1])))
			}
			term := "(X (Tmp " + lib.App("CTmp", lib.List(srcs), t.coqCmd(), lib.StrList(t.Outs), lib.List(ks), obsTmp.coq(), obsOut) + "))"
			leftovers := obsTmp.State == "dir" && len(obsTmp.Entries) > 0
			c.Case(term, js, fmt.Sprint("tmp", t.Shape, t.Name, j.History), anyKill && leftovers)
			c.Hist("workdir-shape", t.Shape)
			c.Hist("workdir-kills", fmt.Sprint(len(ks)))
			if leftovers {
				c.Hist("workdir-after-kill", "leftovers")
			} else {
				c.Hist("workdir-after-kill", "empty-or-absent")
			}
			// ---- oracle: the build after the kills equals the clean build (or fails exactly when the clean build fails)
			c.Oracle()
			what := fmt.Sprintf("//:%s (%s), plz and its command killed at sync point(s) %v of `%s`", t.Name, t.Shape, j.History, t.shell())
			switch {
			case !r.cleanOK && r.rec.Exit != 0:
				// the command fails in a fresh directory as well: nothing to compare
				c.Hist("workdir-clean", "clean-build-fails-too")
			case !r.cleanOK:
				c.Fail("work-directory-leftovers-make-failing-build-succeed", what+": the clean build fails but the build after the kill succeeds", js)
			case r.rec.Exit != 0:
				c.Fail("work-directory-leftovers-break-next-build", what+": the next build fails (exit "+fmt.Sprint(r.rec.Exit)+") where a clean build succeeds: "+tailStr(firstLineOr(r.rec.Out, "rror"), 300), js)
			case r.recOut == nil:
				c.Fail("work-directory-leftovers-break-next-build", what+": the next build succeeds but "+r.recWhy, js)
			default:
				bad := ""
				for _, o := range t.Outs {
					if r.recOut[o] != r.clean[o] {
						bad = fmt.Sprintf("%s is %q, the clean build gives %q", o, r.recOut[o], r.clean[o])
						break
					}
				}
				if bad != "" {
					c.Fail("work-directory-leftovers-reused-by-next-build", what+": "+bad+" (and it is recorded as up to date)", js)
				} else if r.again.Exit != 0 || r.againOut == nil {
					c.Fail("work-directory-third-build-fails", what+": the build after the recovery build fails", js)
				} else {
					for _, o := range t.Outs {
						if r.againOut[o] != r.clean[o] {
							c.Fail("work-directory-third-build-differs", what+": a further build changes "+o, js)
							break
						}
					}
				}
			}
			_ = i
		}
		c.Note("work directory: %d jobs (%d specs), %d plz invocations + %d clean builds, %d kills of plz and its command at a sync point, %d sync points not reached (guarded away), %.1fs",
			len(jobs), len(cleans), nplz, nclean, nkilled, nmiss, wall.Seconds())
	}
}

func firstLineOr(s, containing string) string {
	if l := firstLine(s, containing); l != "" {
		return l
	}
	return strings.TrimSpace(tailStr(s, 300))
}

func dumpCorpus(dir string) {
	must(os.MkdirAll(dir, 0o755))
	r := lib.NewRng(1)
	md := "plz-out/gen/q/.target_build_metadata_o"
	w1 := corpusWitness{Class: "rebuild-of-current-target-killed-while-metadata-rewritten",
		What:    "`plz build --rebuild` of an up-to-date target with output_dirs (and of a plain target) killed between os.Create and the write of .target_build_metadata_<name>: the next build trusted the current record next to the empty file and failed with `failed to load build metadata` (plain target: reported unchanged with an empty metadata file)",
		FixedBy: "e0ea5c1", Spec: genSpec(r, 1),
		Jobs: []crashJob{{Scenario: "forced", Point: Point{Mode: "path", Path: md, Syscall: "renameat", When: 1}},
			{Scenario: "forced", Point: Point{Mode: "path", Path: "plz-out/gen/p/.target_build_metadata_t0", Syscall: "renameat", When: 1}}},
		PreFixJobs: []crashJob{{Scenario: "forced", Point: Point{Mode: "path", Path: md, Syscall: "write", When: 1}},
			{Scenario: "forced", Point: Point{Mode: "path", Path: "plz-out/gen/p/.target_build_metadata_t0", Syscall: "write", When: 1}}}}
	p2 := Point{Mode: "path", Path: md, Syscall: "renameat", When: 1}
	p2old := Point{Mode: "path", Path: md, Syscall: "write", When: 1}
	w2 := corpusWitness{Class: "rebuild-of-current-target-killed-while-metadata-rewritten",
		What:    "two kills without --rebuild: the first build killed on entry to the record lsetxattr of the output sorted after the declared one (_first carries the current record, a.txt not yet), the rebuild that the post-build check then starts killed between os.Create and the write of the metadata file: the third build failed with `failed to load build metadata`",
		FixedBy: "e0ea5c1", Spec: genSpec(r, 2),
		Jobs:       []crashJob{{Scenario: "double", Point: Point{Mode: "path", Path: "plz-out/gen/q/a.txt", Syscall: "lsetxattr", When: 2}, Point2: &p2}},
		PreFixJobs: []crashJob{{Scenario: "double", Point: Point{Mode: "path", Path: "plz-out/gen/q/a.txt", Syscall: "lsetxattr", When: 2}, Point2: &p2old}}}
	for i, w := range []corpusWitness{w1, w2} {
		d, _ := json.MarshalIndent(w, "", " ")
		must(os.WriteFile(filepath.Join(dir, fmt.Sprintf("w%d-%s.json", i+1, []string{"forced-rebuild", "double-kill"}[i])), d, 0o644))
	}
}

func main() {
	var err error
	self, err = os.Executable()
	must(err)
	if len(os.Args) > 2 && os.Args[1] == "c32-child" {
		child(os.Args[2])
		return
	}
	if len(os.Args) > 2 && os.Args[1] == "c32-dump-corpus" {
		dumpCorpus(os.Args[2])
		return
	}
	lib.Main("C32", func(c *lib.Ctx) {
		c.Model("From PlzV Require Import Model.C32 Model.C32_Tmp Model.C32_Hash.", "C32_Hash.hxcase", "C32_Hash.hxcheck")
		c.Rule("(W) fs.WriteFile in a helper process killed by strace on entry to each of its mutating syscalls (directory present/absent, destination present/absent, 0-3 chunks, modes); " +
			"(P) generated repositories (3-6 targets: 1-3 file outputs, directory outputs, one output_dirs target, text_file, dependencies between them) built by the real plz, killed by strace on entry to a chosen syscall on a chosen plz-out path, " +
			"at the N-th call of a syscall class, or by SIGKILL after a random delay - during the first build, the rebuild after a content edit, a --rebuild of the up-to-date tree, and twice in a row - followed by a normal build compared with a clean build of the same tree; " +
			"per target and kill the state found on disk is checked to be a prefix state of the model and the model's decision to be what plz did; the syscall trace of every uninterrupted build is compared with the model's step list. " +
			"(T) one genrule whose command is a program of the model's language of leftover-sensitive shell commands (>> append to a scratch file then copy to the output, >> to the output, mkdir without -p, [ -e x ] || generate, stamp files, a robust control, random programs) with sync points between its simple commands: plz AND the running command are SIGKILLed while the command waits at a chosen sync point, once or several times in a row, the work directory plz-out/tmp/<target>._build is read and compared with the model's, then a normal build runs and is compared with a clean build and with the model's prediction. " +
			"(H) one genrule with pinned `hashes` (one output / two outputs, one or several pinned hashes of sha1 / sha256 length, random payloads) whose outputs do NOT match them, a dependent target, and controls whose outputs do match: the real plz is killed by strace on entry to the metadata rename, the output rename, the 1st-3rd lsetxattr on an output (path-hash memos of OutputHash and of checkRuleHashes' hashers, the record), the lsetxattr on the metadata file and the unlinkat of an output (RemoveOutputs after the failed verification), once, twice in a row and after a completed failed build; the next build and the one after it must end as the clean build does (`Bad output hash`, no outputs - never exit 0 with the unverified payload); an uninterrupted build under strace must write no record for a target whose verification fails; the state found after the kill is compared with the prefix states of the model's step list and the model's decision / outcome with what plz did. " +
			"distinct = distinct (repository, job, target) / WriteFile (configuration, step) / (command, kill history); non-trivial = the kill happened and changed the target's files (or: a WriteFile step > 0; or: the kill left files in the work directory)")
		if _, err := exec.LookPath("strace"); err != nil {
			panic("strace is required: " + err.Error())
		}
		base := e2e.Scratch("c32")
		defer os.RemoveAll(base)
		// whatever happens below, the report is written and says which stage failed
		if d, failed := try(func() {
			reportW := partW(c, base)
			reportT := partT(c, base)
			reportH := partH(c, base)
			partP(c, base)
			reportW()
			reportT()
			reportH()
		}); failed {
			stageMu.Lock()
			stageFails = append(stageFails, stageFail{"main", d, nil})
			stageMu.Unlock()
		}
		reportStages(c)
	})
}
