// C04, in-process stream: the Semiactive / Active transitions of the queueing state machine, which no `plz build`
// invocation reaches (NeedBuild == false is query mode, forceBuild comes from subincludes).
//
// A fresh core.BuildState is driven through the exported API exactly as the parse step and the subinclude machinery do:
// a target is requested without a build being needed (-> Semiactive, a non-building queueTargetAsync in flight, blocked
// resolving dependencies whose packages are not there yet), then requested again with forceBuild (-> Active, a building
// queueTargetAsync), then the packages of the dependencies appear. The harness plays the worker: it takes build tasks
// from the queue, and finishes each a little later. Oracle (the same as for the real plz): a build task is handed out at
// most once per target, and only when every dependency of the target has finished building.
package main

import (
	"fmt"
	"sync"
	"time"

	"github.com/thought-machine/please/src/core"

	"verifharness/lib"
)

type semiCase struct {
	Deps      int  `json:"deps"`       // direct dependencies of the top target, each in its own package
	Leaf      bool `json:"leaf"`       // the first dependency depends on a further target in yet another package
	SemiFirst bool `json:"semi_first"` // first request: forceBuild = false
	NeedBuild bool `json:"need_build"` // state.NeedBuild
	Forced    bool `json:"forced"`     // second request: forceBuild = true
	Again     bool `json:"again"`      // a third, plain request after the forced one
	DelayMs   int  `json:"delay_ms"`
}

type semiObs struct {
	Tasks     []string `json:"tasks"` // labels in the order their build tasks were taken
	Violation string   `json:"violation,omitempty"`
	Class     string   `json:"class,omitempty"`
	TopState  string   `json:"top_state"`
}

func runSemi(sc semiCase) semiObs {
	state := core.NewDefaultBuildState()
	state.NeedBuild = sc.NeedBuild
	_, builds := state.TaskQueues()
	d := time.Duration(sc.DelayMs) * time.Millisecond

	mk := func(pkg *core.Package, label string, deps ...string) *core.BuildTarget {
		t := core.NewBuildTarget(core.ParseBuildLabel(label, ""))
		for _, dep := range deps {
			t.AddDependency(core.ParseBuildLabel(dep, ""))
		}
		pkg.AddTarget(t)
		state.Graph.AddTarget(t)
		return t
	}
	depLabels := []string{}
	for i := 0; i < sc.Deps; i++ {
		depLabels = append(depLabels, fmt.Sprintf("//pkgdep%d:dep", i))
	}
	pkgTop := core.NewPackage("pkgtop")
	top := mk(pkgTop, "//pkgtop:top", depLabels...)
	state.Graph.AddPackage(pkgTop)
	depsOf := map[*core.BuildTarget][]*core.BuildTarget{}

	obs := semiObs{}
	fail := func(class, f string, a ...any) {
		if obs.Violation == "" {
			obs.Class, obs.Violation = class, fmt.Sprintf(f, a...)
		}
	}
	queue := func(force bool) {
		if err := state.QueueTarget(top.Label, core.OriginalTarget, force, core.ParseModeNormal); err != nil {
			fail("queue-error", "QueueTarget: %v", err)
		}
		time.Sleep(d)
	}
	if sc.SemiFirst {
		queue(false)
	}
	queue(sc.Forced)
	if sc.Again {
		queue(false)
	}
	// the packages of the dependencies appear
	var all []*core.BuildTarget
	for i := sc.Deps - 1; i >= 0; i-- {
		pkg := core.NewPackage(fmt.Sprintf("pkgdep%d", i))
		var dep *core.BuildTarget
		if i == 0 && sc.Leaf {
			dep = mk(pkg, depLabels[i], "//pkgleaf:leaf")
		} else {
			dep = mk(pkg, depLabels[i])
		}
		state.Graph.AddPackage(pkg)
		depsOf[top] = append(depsOf[top], dep)
		all = append(all, dep)
		time.Sleep(d / 2)
	}
	if sc.Leaf {
		pkg := core.NewPackage("pkgleaf")
		leaf := mk(pkg, "//pkgleaf:leaf")
		state.Graph.AddPackage(pkg)
		depsOf[all[len(all)-1]] = []*core.BuildTarget{leaf}
	}
	willBuild := sc.NeedBuild || sc.Forced

	// the worker
	var mu sync.Mutex
	built := map[*core.BuildTarget]bool{}
	taken := map[*core.BuildTarget]int{}
	deadline := time.After(60 * time.Second)
	// liveness is judged generously: on a loaded machine goroutines can stall for seconds, and a late
	// task is not a violation of the property
	quiet := 10 * time.Second
	if !willBuild {
		quiet = 400 * time.Millisecond
	}
loop:
	for {
		select {
		case task := <-builds:
			t := task.Target
			obs.Tasks = append(obs.Tasks, t.Label.String())
			taken[t]++
			if taken[t] > 1 {
				fail("action-ran-twice", "a build task for %s was handed out %d times", t.Label, taken[t])
			}
			if !willBuild {
				fail("built-without-need", "a build task for %s was handed out although nothing needed a build", t.Label)
			}
			mu.Lock()
			for _, dep := range depsOf[t] {
				if !built[dep] {
					fail("started-before-dependency-finished", "the build task of %s was handed out before its dependency %s had finished building (dependency state: %s)", t.Label, dep.Label, dep.State())
				}
			}
			mu.Unlock()
			go func() { // build it, a little later
				time.Sleep(3 * d)
				t.SetState(core.Built)
				mu.Lock()
				built[t] = true
				mu.Unlock()
				t.FinishBuild()
				state.TaskDone()
			}()
			if t == top {
				break loop
			}
		case <-time.After(quiet):
			if willBuild {
				fail("build-task-never-handed-out", "no build task for //pkgtop:top within %v of the last activity (state %s)", quiet, top.State())
			}
			break loop
		case <-deadline:
			fail("build-task-never-handed-out", "timed out (top state %s)", top.State())
			break loop
		}
	}
	obs.TopState = top.State().String()
	return obs
}

func semiStream(c *lib.Ctx) {
	var cases []semiCase
	for _, deps := range []int{1, 2, 3} {
		for _, leaf := range []bool{false, true} {
			// query mode first (Semiactive), then a forced request: the scenario of the state machine's Semiactive -> Active arc
			cases = append(cases, semiCase{Deps: deps, Leaf: leaf, SemiFirst: true, Forced: true, DelayMs: 25 + 10*c.Rng.Intn(4)})
			cases = append(cases, semiCase{Deps: deps, Leaf: leaf, SemiFirst: true, Forced: true, Again: true, DelayMs: 25 + 10*c.Rng.Intn(4)})
			// forced only; build mode with a repeated plain request; query mode only (nothing may be built)
			cases = append(cases, semiCase{Deps: deps, Leaf: leaf, Forced: true, DelayMs: 25})
			cases = append(cases, semiCase{Deps: deps, Leaf: leaf, SemiFirst: true, NeedBuild: true, DelayMs: 25})
			cases = append(cases, semiCase{Deps: deps, Leaf: leaf, SemiFirst: true, Again: true, DelayMs: 25})
		}
	}
	if c.Thor {
		cases = append(cases, cases...)
		cases = append(cases, cases...)
	}
	out := make([]semiObs, len(cases))
	var wg sync.WaitGroup
	sem := make(chan struct{}, 6)
	for i := range cases {
		wg.Add(1)
		sem <- struct{}{}
		go func(i int) {
			defer wg.Done()
			defer func() { <-sem }()
			out[i] = runSemi(cases[i])
		}(i)
	}
	wg.Wait()
	for i, sc := range cases {
		js := map[string]any{"stream": "semiactive (in process)", "case": sc, "observed": out[i]}
		c.Eval(js, fmt.Sprintf("semi %+v", sc), sc.SemiFirst && sc.Forced)
		c.Oracle()
		c.Hist("semi-top-state", out[i].TopState)
		if out[i].Violation != "" {
			c.Fail(out[i].Class, out[i].Violation, js)
		}
	}
}
