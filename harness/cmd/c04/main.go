// C04: each action runs once, and only after its dependencies succeeded (trace validation on the real plz).
// The generator, the runs, the model-independent oracle and the Coq case printer are shared with C05: harness/e2e/c04_sched.go.
package main

import (
	"verifharness/e2e"
	"verifharness/lib"
)

func main() {
	lib.Main("C04", func(c *lib.Ctx) {
		e2e.RunSchedProperty(c, "C04")
		if c.Replay == "" {
			semiStream(c) // the Semiactive/Active arcs, in process (semi.go)
		}
	})
}
