// C06, second part: dependency edges of every kind, hidden targets, target states reached through the
// real queueing code.
//
//	kinded  every dependency is declared through the real AddMaybeExportedDependency / AddDatum (srcs,
//	        data, run-time, internal, plain; also re-declared with other flags) and resolved; observed:
//	        Dependencies() and BuildDependencies() of every target and the result of Check.
//	hidden  the graphs of main.go with labels of which some are hidden (_name#tag).
//	life    a real BuildState with KeepGoing: targets declare their dependencies, one target is given to
//	        QueueTarget, the real queueResolvedTarget / queueTargetAsync / resolveDependencies run; the
//	        harness only plays the build step (SetState(result), FinishBuild, TaskDone); when everything
//	        has gone quiet the detector that belongs to the state is run.
package main

import (
	"fmt"
	"sort"
	"strings"
	"time"

	"verifharness/lib"

	"github.com/thought-machine/please/src/core"
)

// ---- kinded --------------------------------------------------------------------------------------

type kop struct {
	A        int    `json:"a"`
	Op       string `json:"op"` // declare | datum | resolve
	B        int    `json:"b"`
	Source   bool   `json:"source,omitempty"`
	Internal bool   `json:"internal,omitempty"`
	Runtime  bool   `json:"runtime,omitempty"`
}

type kindedObs struct {
	Order []int
	Ranks []int   // place of every target's label in label order
	All   [][]int // Dependencies()
	Build [][]int // BuildDependencies()
	Found bool
	Cycle []int
	Edges [][]int // resolved by the harness (its own bookkeeping)
}

func labelRanks(ts []*core.BuildTarget) []int {
	n := len(ts)
	by := make([]int, n)
	for i := range by {
		by[i] = i
	}
	sort.Slice(by, func(i, j int) bool { return ts[by[i]].Label.Less(ts[by[j]].Label) })
	ranks := make([]int, n)
	for place, t := range by {
		ranks[t] = place
	}
	return ranks
}

func runKinded(in input) kindedObs {
	graph := core.NewGraph()
	n := len(in.Labels)
	ts := make([]*core.BuildTarget, n)
	idx := make(map[*core.BuildTarget]int, n)
	for i, l := range in.Labels {
		ts[i] = core.NewBuildTarget(core.ParseBuildLabel(l, ""))
		ts[i].IsBinary = true // run-time dependencies are only allowed on binaries
		graph.AddTarget(ts[i])
		idx[ts[i]] = i
	}
	var o kindedObs
	o.Edges = make([][]int, n)
	for i := range o.Edges {
		o.Edges[i] = []int{}
	}
	for _, k := range in.Kops {
		if k.A == k.B {
			panic("kinded: a dependency of a target on itself is fatal in please")
		}
		switch k.Op {
		case "declare":
			ts[k.A].AddMaybeExportedDependency(ts[k.B].Label, false, k.Source, k.Internal, k.Runtime)
		case "datum":
			ts[k.A].AddDatum(ts[k.B].Label)
		case "resolve":
			core.VerifC06Resolve(ts[k.A], ts[k.B])
			o.Edges[k.A] = append(o.Edges[k.A], k.B)
		default:
			panic("kinded: unknown op " + k.Op)
		}
	}
	toIdx := func(l []*core.BuildTarget) []int {
		out := make([]int, len(l))
		for i, t := range l {
			out[i] = idx[t]
		}
		return out
	}
	o.Order = toIdx(graph.AllTargets())
	o.Ranks = labelRanks(ts)
	o.All = make([][]int, n)
	o.Build = make([][]int, n)
	for i, t := range ts {
		o.All[i] = toIdx(t.Dependencies())
		o.Build[i] = toIdx(t.BuildDependencies())
		if !sameMultiset(o.All[i], o.Edges[i]) {
			panic(fmt.Sprintf("harness: Dependencies() of %s is %v, resolved %v", in.Labels[i], o.All[i], o.Edges[i]))
		}
	}
	found, cyc := core.VerifC06Check(graph)
	o.Found, o.Cycle = found, toIdx(cyc)
	return o
}

func coqGraph(g [][]int) string {
	rows := make([]string, len(g))
	for i, r := range g {
		rows[i] = natList(r)
	}
	return lib.List(rows)
}

func coqKinded(in input, o kindedObs) string {
	ops := make([]string, len(in.Kops))
	for i, k := range in.Kops {
		var op string
		switch k.Op {
		case "declare":
			op = lib.App("KDeclare", lib.Nat(k.B), lib.Bool(k.Source), lib.Bool(k.Internal), lib.Bool(k.Runtime))
		case "datum":
			op = lib.App("KDatum", lib.Nat(k.B))
		case "resolve":
			op = lib.App("KResolve", lib.Nat(k.B))
		}
		ops[i] = lib.Pair(lib.Nat(k.A), op)
	}
	return lib.App("CKinded", lib.Nat(len(in.Labels)), natList(o.Ranks), lib.List(ops), natList(o.Order),
		coqGraph(o.All), coqGraph(o.Build), lib.Opt(o.Found, natList(o.Cycle)))
}

func kindedJSON(in input, o kindedObs) map[string]any {
	m := map[string]any{"mode": "kinded", "labels": in.Labels, "kops": in.Kops, "order": o.Order,
		"dependencies": o.All, "build_dependencies": o.Build, "reported": o.Found}
	if o.Found {
		m["cycle"] = o.Cycle
	}
	return m
}

// kindedOracle: the property on the graph the build waits for (every resolved edge, whatever its kind).
func kindedOracle(in input, o kindedObs) (string, string) {
	class, what := oracle(input{Labels: in.Labels, Deps: o.Edges}, observed{Order: o.Order, Deps: o.All, Found: o.Found, Cycle: o.Cycle})
	if class == "cycle-missed" && !hasCycle(o.Build) {
		return "cycle-missed-through-non-build-edge", what + " (every cycle goes through a srcs-only, data, run-time or internal dependency)"
	}
	return class, what
}

// kind of an edge: how it is declared
var edgeKinds = []string{"plain", "source", "internal", "runtime", "data"}

func declOps(a, b int, kind string) []kop {
	switch kind {
	case "plain":
		return []kop{{A: a, Op: "declare", B: b}}
	case "source":
		return []kop{{A: a, Op: "declare", B: b, Source: true}}
	case "internal":
		return []kop{{A: a, Op: "declare", B: b, Internal: true}}
	case "runtime":
		return []kop{{A: a, Op: "declare", B: b, Runtime: true}}
	case "data":
		return []kop{{A: a, Op: "datum", B: b}}
	case "source+internal":
		return []kop{{A: a, Op: "declare", B: b, Source: true, Internal: true}}
	case "source-then-plain": // in srcs and in deps: an ordinary dependency
		return []kop{{A: a, Op: "declare", B: b, Source: true}, {A: a, Op: "declare", B: b}}
	case "plain-then-data": // AddDatum on a label that is already a dependency marks it data
		return []kop{{A: a, Op: "declare", B: b}, {A: a, Op: "datum", B: b}}
	case "data-then-plain":
		return []kop{{A: a, Op: "datum", B: b}, {A: a, Op: "declare", B: b}}
	case "runtime-then-source":
		return []kop{{A: a, Op: "declare", B: b, Runtime: true}, {A: a, Op: "declare", B: b, Source: true}}
	case "undeclared": // resolved without ever having been declared
		return nil
	}
	panic("unknown edge kind " + kind)
}

var moreKinds = []string{"source+internal", "source-then-plain", "plain-then-data", "data-then-plain", "runtime-then-source", "undeclared"}

// simpleGraph: randomGraph without self references and duplicate edges, cut down to at most max targets
func simpleGraph(r *lib.Rng, max int) (string, [][]int) {
	kind, deps := randomGraph(r)
	n := len(deps)
	if n > max {
		n = max
	}
	out := make([][]int, n)
	for a := 0; a < n; a++ {
		seen := map[int]bool{}
		out[a] = []int{}
		for _, b := range deps[a] {
			if b < n && b != a && !seen[b] {
				seen[b] = true
				out[a] = append(out[a], b)
			}
		}
	}
	return kind, out
}

func randomKinded(r *lib.Rng) (string, int, []kop) {
	shape, deps := simpleGraph(r, 8)
	n := len(deps)
	plainDen := r.Range(2, 4)
	var decl, res []kop
	for a := 0; a < n; a++ {
		for _, b := range deps[a] {
			kind := "plain"
			if !r.Chance(1, plainDen) {
				if r.Chance(1, 4) {
					kind = lib.Pick(r, moreKinds)
				} else {
					kind = lib.Pick(r, edgeKinds[1:])
				}
			}
			d := declOps(a, b, kind)
			rs := []kop{{A: a, Op: "resolve", B: b}}
			if r.Chance(1, 12) { // provided twice
				rs = append(rs, rs[0])
			}
			if r.Chance(1, 10) { // resolved before (part of) the declaration
				res = append(res, d...)
				decl = append(decl, rs...)
			} else {
				decl = append(decl, d...)
				res = append(res, rs...)
			}
		}
	}
	lib.Shuffle(r, decl)
	lib.Shuffle(r, res)
	// shuffling may reorder the two declarations of one edge: that is one more history, equally valid
	return shape, n, append(decl, res...)
}

// ---- hidden labels --------------------------------------------------------------------------------

// hiddenPool: n distinct labels; bit i of mask set <=> label i is hidden (a _name#tag intermediate).
func hiddenPool(n int, mask uint64) []string {
	pkgs := []string{"src", "src/a", "lib"}
	names := []string{"lib", "gen", "a", "b", "zz", "tool", "x", "y", "m", "n", "p", "q"}
	tags := []string{"srcs", "lib", "x"}
	out := make([]string, n)
	for i := 0; i < n; i++ {
		name := names[i%len(names)]
		if mask>>uint(i)&1 == 1 {
			name = "_" + names[(i+1)%len(names)] + "#" + tags[i%len(tags)]
			if i >= len(names) {
				name += fmt.Sprint(i)
			}
		}
		out[i] = fmt.Sprintf("//%s:%s", pkgs[(i/2)%len(pkgs)], name)
	}
	return out
}

func isHiddenLabel(l string) bool {
	i := strings.LastIndex(l, ":")
	return i >= 0 && strings.HasPrefix(l[i+1:], "_")
}

// ---- life: states through the real queueing code ---------------------------------------------------

// the BuildTargetState constants in declaration order (Proof/C06_Skel.v, gstate_order_shape, ties the
// model's copy to the regenerated one)
var stateNames = []string{"Inactive", "Semiactive", "Active", "Pending", "Building", "Stopped", "Built", "Cached", "Unchanged",
	"Reused", "BuiltRemotely", "ReusedRemotely", "DependencyFailed", "Failed"}

func stateIndex(name string) int {
	for i, s := range stateNames {
		if s == name {
			return i
		}
	}
	panic("unknown state " + name)
}

type lifeObs struct {
	Order    []int
	Deps     [][]int  // Dependencies() after everything went quiet
	States   []string // State() of every target
	Expected []string // what the harness's own simulation of the waiting protocol expects
	Settled  bool     // the expected states were reached
	Found    bool
	Cycle    []int
}

func isBuiltIdx(s int) bool { return s >= stateIndex("Built") && s < stateIndex("DependencyFailed") }

// expectedStates: the least fixed point of the waiting protocol on the declared graph. sorted[a] = the
// dependencies of a in label order.
func expectedStates(sorted [][]int, root int, plan []string) []string {
	n := len(sorted)
	st := make([]int, n)
	active := stateIndex("Active")
	st[root] = active
	for changed := true; changed; {
		changed = false
		for t := 0; t < n; t++ {
			if st[t] != active {
				continue
			}
			for _, d := range sorted[t] {
				if st[d] == 0 {
					st[d] = active
					changed = true
				}
			}
			next := -1 // the first dependency that is not built
			for _, d := range sorted[t] {
				if !isBuiltIdx(st[d]) {
					next = d
					break
				}
			}
			switch {
			case next < 0:
				st[t] = stateIndex(plan[t])
				changed = true
			case st[next] >= stateIndex("DependencyFailed"):
				st[t] = stateIndex("DependencyFailed")
				changed = true
			}
		}
	}
	out := make([]string, n)
	for i, s := range st {
		out[i] = stateNames[s]
	}
	return out
}

func runLife(in input) lifeObs {
	state := core.NewDefaultBuildState()
	state.KeepGoing = true
	n := len(in.Labels)
	ts := make([]*core.BuildTarget, n)
	idx := make(map[*core.BuildTarget]int, n)
	for i, l := range in.Labels {
		ts[i] = core.NewBuildTarget(core.ParseBuildLabel(l, ""))
	}
	for i, ds := range in.Deps {
		for _, d := range ds {
			if d == i {
				panic("life: a dependency of a target on itself is fatal in please")
			}
			ts[i].AddDependency(ts[d].Label)
		}
	}
	for i, t := range ts {
		state.Graph.AddTarget(t)
		idx[t] = i
	}
	ranks := labelRanks(ts)
	sorted := make([][]int, n)
	for i, ds := range in.Deps {
		sorted[i] = append([]int{}, ds...)
		sort.Slice(sorted[i], func(a, b int) bool { return ranks[sorted[i][a]] < ranks[sorted[i][b]] })
	}
	var o lifeObs
	o.Expected = expectedStates(sorted, in.Root, in.Plan)

	// the build step: the only part that is not the real code
	_, actions := state.TaskQueues()
	go func() {
		for task := range actions {
			t := task.Target
			t.SetState(core.Building)
			t.SetState(core.BuildTargetState(stateIndex(in.Plan[idx[t]])))
			t.FinishBuild()
			state.TaskDone()
		}
	}()
	if err := state.QueueTarget(ts[in.Root].Label, core.OriginalTarget, true, core.ParseModeNormal); err != nil {
		panic(err)
	}
	read := func() []string {
		out := make([]string, n)
		for i, t := range ts {
			out[i] = stateNames[int(t.State())]
		}
		return out
	}
	// quiet = the states the waiting protocol leads to are reached and every target that was queued has all its
	// declared dependencies resolved (a target that waits for ever resolves them first, then blocks)
	resolved := func() bool {
		for i, t := range ts {
			if t.State() != core.Inactive && len(t.Dependencies()) != len(in.Deps[i]) {
				return false
			}
		}
		return true
	}
	deadline := time.Now().Add(20 * time.Second)
	for {
		o.States = read()
		if fmt.Sprint(o.States) == fmt.Sprint(o.Expected) && resolved() {
			o.Settled = true
			break
		}
		if time.Now().After(deadline) {
			break
		}
		time.Sleep(200 * time.Microsecond)
	}
	toIdx := func(l []*core.BuildTarget) []int {
		out := make([]int, len(l))
		for i, t := range l {
			out[i] = idx[t]
		}
		return out
	}
	o.Order = toIdx(state.Graph.AllTargets())
	o.Deps = make([][]int, n)
	for i, t := range ts {
		o.Deps[i] = toIdx(t.Dependencies())
	}
	// the detector NewBuildState made for this graph, the one checkForCycles() runs when the build goes idle
	o.Found, o.Cycle = func() (bool, []int) {
		f, c := core.VerifC06StateDetector(state).Check()
		return f, toIdx(c)
	}()
	o.States = read()
	return o
}

func coqLife(in input, o lifeObs) string {
	plan := make([]string, len(in.Plan))
	copy(plan, in.Plan)
	return lib.App("CLife", coqGraph(o.Deps), natList([]int{in.Root}), lib.List(plan), natList(o.Order),
		lib.List(o.States), lib.Opt(o.Found, natList(o.Cycle)))
}

func lifeJSON(in input, o lifeObs) map[string]any {
	m := map[string]any{"mode": "life", "labels": in.Labels, "deps": in.Deps, "root": in.Root, "plan": in.Plan,
		"order": o.Order, "resolved": o.Deps, "states": o.States, "reported": o.Found}
	if o.Found {
		m["cycle"] = o.Cycle
	}
	if !o.Settled {
		m["expected_states_not_reached"] = o.Expected
	}
	return m
}

// onCycle: the targets that lie on some cycle of deps (they reach themselves)
func onCycle(deps [][]int) []bool {
	n := len(deps)
	out := make([]bool, n)
	for s := 0; s < n; s++ {
		seen := make([]bool, n)
		stack := append([]int{}, deps[s]...)
		for len(stack) > 0 {
			v := stack[len(stack)-1]
			stack = stack[:len(stack)-1]
			if v == s {
				out[s] = true
				break
			}
			if !seen[v] {
				seen[v] = true
				stack = append(stack, deps[v]...)
			}
		}
	}
	return out
}

// lifeOracle: the property on the graph as resolved by the real queueing code.
func lifeOracle(in input, o lifeObs) (string, string) {
	class, what := oracle(input{Labels: in.Labels, Deps: o.Deps}, observed{Order: o.Order, Deps: o.Deps, Found: o.Found, Cycle: o.Cycle})
	if class == "cycle-missed" {
		for v, on := range onCycle(o.Deps) {
			if on && stateIndex(o.States[v]) >= stateIndex("DependencyFailed") {
				return "cycle-missed-member-dependency-failed", fmt.Sprintf("%s; %s is on a cycle and in state %s", what, in.Labels[v], o.States[v])
			}
		}
	}
	return class, what
}

func randomLife(r *lib.Rng) (string, [][]int, int, []string) {
	shape, deps := simpleGraph(r, 7)
	n := len(deps)
	if r.Chance(1, 3) && n >= 2 {
		// the shape that matters: a member of a cycle that also depends on something that fails
		a, b := r.Intn(n), r.Intn(n)
		if a != b {
			has := func(x, y int) bool {
				for _, d := range deps[x] {
					if d == y {
						return true
					}
				}
				return false
			}
			if !has(a, b) {
				deps[a] = append(deps[a], b)
			}
			if !has(b, a) {
				deps[b] = append(deps[b], a)
			}
			shape += "+2cycle"
		}
	}
	built := []string{"Built", "Built", "Built", "Cached", "Unchanged", "Reused"}
	plan := make([]string, n)
	failDen := r.Range(2, 5)
	for i := range plan {
		if r.Chance(1, failDen) {
			plan[i] = "Failed"
		} else {
			plan[i] = lib.Pick(r, built)
		}
	}
	// prefer a root that reaches much
	best, bestReach := 0, -1
	for k := 0; k < 3; k++ {
		c := r.Intn(n)
		seen := map[int]bool{c: true}
		stack := []int{c}
		for len(stack) > 0 {
			v := stack[len(stack)-1]
			stack = stack[:len(stack)-1]
			for _, d := range deps[v] {
				if !seen[d] {
					seen[d] = true
					stack = append(stack, d)
				}
			}
		}
		if len(seen) > bestReach {
			best, bestReach = c, len(seen)
		}
	}
	return shape, deps, best, plan
}
