// C06: cycle detection. Implementation side of the correspondence + property oracle.
//
// Every run builds a real core.BuildGraph (NewGraph / NewBuildTarget / AddTarget, dependencies
// resolved through the verif hook), runs the unexported cycleDetector once and observes
// AllTargets(), every target's Dependencies() and the returned errCycle.Cycle.
//
// Sessions (second half of this file): ONE graph and ONE cycleDetector are kept while targets are
// added, dependencies declared (AddDependency) and resolved, and Check is called repeatedly in
// between - what BuildState does with state.progress.cycleDetector each time the build goes idle.
package main

import (
	"fmt"
	"sort"
	"strings"

	"verifharness/lib"

	"github.com/thought-machine/please/src/core"
	gologging "gopkg.in/op/go-logging.v1"
)

// input: one target per label; Deps[i] are indices of the resolved dependencies of target i
// (self references and duplicates allowed).
type input struct {
	Labels []string `json:"labels"`
	Deps   [][]int  `json:"deps"`
	// a session (see below); Deps is unused then
	Steps    []event `json:"steps,omitempty"`
	ViaState bool    `json:"via_state,omitempty"`
	// ext.go: "kinded" (Kops) or "life" (Deps are declared, Root is queued, Plan is how each build step ends)
	Mode string   `json:"mode,omitempty"`
	Kops []kop    `json:"kops,omitempty"`
	Root int      `json:"root,omitempty"`
	Plan []string `json:"plan,omitempty"`
}

type observed struct {
	Order []int   // AllTargets(), as indices
	Deps  [][]int // Dependencies() of every target, as indices
	Found bool
	Cycle []int
}

func run(in input) observed {
	graph := core.NewGraph()
	n := len(in.Labels)
	ts := make([]*core.BuildTarget, n)
	idx := make(map[*core.BuildTarget]int, n)
	for i, l := range in.Labels {
		ts[i] = core.NewBuildTarget(core.ParseBuildLabel(l, ""))
		graph.AddTarget(ts[i])
		idx[ts[i]] = i
	}
	for i, ds := range in.Deps {
		for _, d := range ds {
			core.VerifC06Resolve(ts[i], ts[d])
		}
	}
	toIdx := func(l []*core.BuildTarget) []int {
		out := make([]int, len(l))
		for i, t := range l {
			k, ok := idx[t]
			if !ok {
				panic("target not of this graph")
			}
			out[i] = k
		}
		return out
	}
	var o observed
	o.Order = toIdx(graph.AllTargets())
	o.Deps = make([][]int, n)
	for i, t := range ts {
		o.Deps[i] = toIdx(t.Dependencies())
	}
	found, cyc := core.VerifC06Check(graph)
	o.Found = found
	o.Cycle = toIdx(cyc)
	return o
}

// ---- the property oracle: independent of the detector and of the model -------------------------

// hasCycle: Kahn's algorithm on the input adjacency. The graph is acyclic iff repeatedly removing
// targets nobody-yet-unremoved is depended on BY (no remaining outgoing edge) removes everything.
func hasCycle(deps [][]int) bool {
	n := len(deps)
	out := make([]int, n) // remaining outgoing edges (with multiplicity)
	rev := make([][]int, n)
	for v, ds := range deps {
		out[v] = len(ds)
		for _, d := range ds {
			rev[d] = append(rev[d], v)
		}
	}
	queue := []int{}
	for v := range deps {
		if out[v] == 0 {
			queue = append(queue, v)
		}
	}
	removed := 0
	for len(queue) > 0 {
		v := queue[0]
		queue = queue[1:]
		removed++
		for _, u := range rev[v] {
			out[u]--
			if out[u] == 0 {
				queue = append(queue, u)
			}
		}
	}
	return removed != n
}

func edge(deps [][]int, a, b int) bool {
	for _, d := range deps[a] {
		if d == b {
			return true
		}
	}
	return false
}

// oracle returns the defect class ("" when the property holds on this run) and a description.
func oracle(in input, o observed) (string, string) {
	cyclic := hasCycle(in.Deps)
	switch {
	case cyclic && !o.Found:
		return "cycle-missed", "the graph contains a cycle but Check returned nil"
	case !cyclic && o.Found:
		return "acyclic-reported", fmt.Sprintf("the graph is acyclic but Check reported the cycle %v", o.Cycle)
	}
	if o.Found {
		if len(o.Cycle) == 0 {
			return "reported-cycle-empty", "Check reported an errCycle with an empty Cycle"
		}
		for i, v := range o.Cycle {
			w := o.Cycle[(i+1)%len(o.Cycle)]
			if !edge(in.Deps, v, w) {
				class := "reported-cycle-not-a-cycle"
				// a narrower class when hidden (_name#tag) targets lie on cycles of the graph and none is listed
				listed, onSome := false, false
				for _, x := range o.Cycle {
					listed = listed || isHiddenLabel(in.Labels[x])
				}
				for x, on := range onCycle(in.Deps) {
					onSome = onSome || (on && isHiddenLabel(in.Labels[x]))
				}
				if onSome && !listed {
					class += "-hidden-members-left-out"
				}
				return class, fmt.Sprintf("reported cycle %v: %s does not depend on %s",
					o.Cycle, in.Labels[v], in.Labels[w])
			}
		}
		seen := map[int]bool{}
		for _, v := range o.Cycle {
			if seen[v] {
				return "reported-cycle-repeats-a-target", fmt.Sprintf("reported cycle %v lists %s twice", o.Cycle, in.Labels[v])
			}
			seen[v] = true
		}
	}
	return "", ""
}

// ---- printing ----------------------------------------------------------------------------------

func natList(xs []int) string {
	out := make([]string, len(xs))
	for i, x := range xs {
		out[i] = fmt.Sprint(x)
	}
	return "[" + strings.Join(out, ";") + "]%nat"
}

func coqCase(o observed) string {
	rows := make([]string, len(o.Deps))
	for i, r := range o.Deps {
		rows[i] = natList(r)
	}
	return lib.App("CCheck", lib.List(rows), natList(o.Order), lib.Opt(o.Found, natList(o.Cycle)))
}

func jsonOf(in input, o observed) map[string]any {
	m := map[string]any{"labels": in.Labels, "deps": in.Deps, "order": o.Order, "reported": o.Found}
	if o.Found {
		m["cycle"] = o.Cycle
	}
	return m
}

func edges(deps [][]int) int {
	k := 0
	for _, d := range deps {
		k += len(d)
	}
	return k
}

// ---- sessions: one graph, one detector, several runs of Check ---------------------------------

// event: one thing done to the graph or to the detector. Targets are numbered in the order in which
// they are added; the k-th added target gets Labels[k]. A declared dependency names a label, which
// may belong to a target added earlier, later or never.
type event struct {
	Op string `json:"op"` // add | declare | resolve | stop | check
	A  int    `json:"a,omitempty"`
	B  int    `json:"b,omitempty"`
}

// checkObs: what one Check of the session saw and returned.
type checkObs struct {
	Order      []int   `json:"order"`      // AllTargets()
	Deps       [][]int `json:"resolved"`   // Dependencies() of every target
	Declared   []int   `json:"declared_n"` // len(DeclaredDependencies()) of every target
	Found      bool    `json:"reported"`
	Cycle      []int   `json:"cycle,omitempty"`
	FreshFound bool    `json:"-"` // a detector made for this one call, on the same graph at the same moment
	FreshCycle []int   `json:"-"`
	Stopped    bool    `json:"stopped,omitempty"`
	Edges      [][]int `json:"-"`          // what the harness resolved so far (its own bookkeeping)
	Unresolved int     `json:"unresolved"` // declared dependencies without a resolved target at this moment
}

type sessionObs struct {
	Pos    []int // per step: for a resolve, where the dependency landed in Dependencies()
	Checks []checkObs
}

func insertAt(xs []int, pos, x int) []int {
	out := make([]int, 0, len(xs)+1)
	out = append(out, xs[:pos]...)
	out = append(out, x)
	return append(out, xs[pos:]...)
}

func eqInts(a, b []int) bool {
	if len(a) != len(b) {
		return false
	}
	for i := range a {
		if a[i] != b[i] {
			return false
		}
	}
	return true
}

func runSession(in input) sessionObs {
	var graph *core.BuildGraph
	var det *core.VerifC06Detector
	if in.ViaState {
		// the detector NewBuildState makes, the one checkForCycles() runs
		state := core.NewDefaultBuildState()
		graph = state.Graph
		det = core.VerifC06StateDetector(state)
	} else {
		graph = core.NewGraph()
		det = core.VerifC06NewDetector(graph)
	}
	ts := []*core.BuildTarget{}
	idx := map[*core.BuildTarget]int{}
	edges := [][]int{}
	declared := []map[int]bool{} // labels declared by each target
	resolvedTo := []map[int]bool{}
	stopped := false
	toIdx := func(l []*core.BuildTarget) []int {
		out := make([]int, len(l))
		for i, t := range l {
			k, ok := idx[t]
			if !ok {
				panic("target not of this graph")
			}
			out[i] = k
		}
		return out
	}
	label := func(k int) core.BuildLabel { return core.ParseBuildLabel(in.Labels[k], "") }
	var o sessionObs
	o.Pos = make([]int, len(in.Steps))
	for si, e := range in.Steps {
		switch e.Op {
		case "add":
			k := len(ts)
			t := core.NewBuildTarget(label(k))
			graph.AddTarget(t)
			ts = append(ts, t)
			idx[t] = k
			edges = append(edges, []int{})
			declared = append(declared, map[int]bool{})
			resolvedTo = append(resolvedTo, map[int]bool{})
		case "declare":
			if e.A == e.B {
				panic("session: AddDependency of a target on itself is fatal in please")
			}
			ts[e.A].AddDependency(label(e.B))
			declared[e.A][e.B] = true
		case "resolve":
			before := toIdx(ts[e.A].Dependencies())
			core.VerifC06Resolve(ts[e.A], ts[e.B])
			after := toIdx(ts[e.A].Dependencies())
			pos := 0
			for pos < len(before) && before[pos] == after[pos] {
				pos++
			}
			if !eqInts(insertAt(before, pos, e.B), after) {
				panic(fmt.Sprintf("harness: resolving %d -> %d turned Dependencies() %v into %v", e.A, e.B, before, after))
			}
			o.Pos[si] = pos
			edges[e.A] = append(edges[e.A], e.B)
			declared[e.A][e.B] = true
			resolvedTo[e.A][e.B] = true
		case "stop":
			det.Stop()
			stopped = true
		case "check":
			var c checkObs
			c.Order = toIdx(graph.AllTargets())
			c.Deps = make([][]int, len(ts))
			c.Declared = make([]int, len(ts))
			c.Edges = make([][]int, len(ts))
			for i, t := range ts {
				c.Deps[i] = toIdx(t.Dependencies())
				c.Declared[i] = len(t.DeclaredDependencies())
				c.Edges[i] = append([]int{}, edges[i]...)
				if !sameMultiset(c.Deps[i], edges[i]) {
					panic(fmt.Sprintf("harness: Dependencies() of %s is %v, resolved %v", in.Labels[i], c.Deps[i], edges[i]))
				}
				if c.Declared[i] != len(declared[i]) {
					panic(fmt.Sprintf("harness: %s has %d declared dependencies, declared %d", in.Labels[i], c.Declared[i], len(declared[i])))
				}
				for l := range declared[i] {
					if !resolvedTo[i][l] {
						c.Unresolved++
					}
				}
			}
			found, cyc := det.Check()
			c.Found, c.Cycle = found, toIdx(cyc)
			ff, fc := core.VerifC06Check(graph)
			c.FreshFound, c.FreshCycle = ff, toIdx(fc)
			c.Stopped = stopped
			o.Checks = append(o.Checks, c)
		default:
			panic("session: unknown op " + e.Op)
		}
	}
	return o
}

// sessionOracle: every Check of the session against an independent cycle test (Kahn) on the edges the
// harness resolved up to that moment, and against a detector made fresh for that one call.
func sessionOracle(in input, k int, c checkObs) (string, string) {
	suffix := ""
	if k > 0 {
		suffix = "-on-rerun"
	}
	if c.Unresolved > 0 {
		suffix += "-with-unresolved-deps"
	}
	if c.Stopped {
		if c.Found {
			return "reported-after-stop", fmt.Sprintf("Check %d reported %v after Stop()", k, c.Cycle)
		}
		return "", ""
	}
	class, what := oracle(input{Labels: in.Labels, Deps: c.Edges}, observed{Order: c.Order, Deps: c.Deps, Found: c.Found, Cycle: c.Cycle})
	if class != "" {
		return class + suffix, fmt.Sprintf("Check %d of the session: %s", k, what)
	}
	if c.Found != c.FreshFound || !eqInts(c.Cycle, c.FreshCycle) {
		return "kept-detector-differs-from-fresh", fmt.Sprintf("Check %d of the kept detector returned %v %v, a new detector on the same graph %v %v",
			k, c.Found, c.Cycle, c.FreshFound, c.FreshCycle)
	}
	return "", ""
}

func coqSession(in input, o sessionObs) string {
	evs := make([]string, len(in.Steps))
	k := 0
	for i, e := range in.Steps {
		switch e.Op {
		case "add":
			evs[i] = "EAddTarget"
		case "declare":
			evs[i] = lib.App("EDeclare", lib.Nat(e.A), lib.Nat(e.B))
		case "resolve":
			evs[i] = lib.App("EResolve", lib.Nat(e.A), lib.Nat(e.B), lib.Nat(o.Pos[i]))
		case "stop":
			evs[i] = "EStop"
		case "check":
			evs[i] = lib.App("ECheck", natList(o.Checks[k].Order))
			k++
		}
	}
	obs := make([]string, len(o.Checks))
	for i, c := range o.Checks {
		rows := make([]string, len(c.Deps))
		for j, r := range c.Deps {
			rows[j] = natList(r)
		}
		obs[i] = "(" + lib.List(rows) + ", " + natList(c.Declared) + ", " + lib.Opt(c.Found, natList(c.Cycle)) + ")"
	}
	return lib.App("CSession", lib.List(evs), lib.List(obs))
}

func sessionJSON(in input, o sessionObs, upto int) map[string]any {
	m := map[string]any{"labels": in.Labels, "steps": in.Steps, "checks": o.Checks}
	if in.ViaState {
		m["via_state"] = true
	}
	if upto >= 0 {
		m["failing_check"] = upto
	}
	return m
}

func ev(op string, a, b int) event { return event{Op: op, A: a, B: b} }

// twoPhaseSession: n targets added up front; st[i*n+j] says what happens to the dependency i -> j:
// 0 nothing, 1 declared and never resolved, 2 resolved before the first Check, 3 declared before the
// first Check and resolved between the first and the second. (i == j: 1 is not possible.)
func twoPhaseSession(n int, st []int) []event {
	steps := []event{}
	for i := 0; i < n; i++ {
		steps = append(steps, ev("add", 0, 0))
	}
	for i := 0; i < n; i++ {
		for j := 0; j < n; j++ {
			switch st[i*n+j] {
			case 1:
				steps = append(steps, ev("declare", i, j))
			case 2:
				steps = append(steps, ev("resolve", i, j))
			case 3:
				if i != j {
					steps = append(steps, ev("declare", i, j))
				}
			}
		}
	}
	steps = append(steps, ev("check", 0, 0))
	for i := 0; i < n; i++ {
		for j := 0; j < n; j++ {
			if st[i*n+j] == 3 {
				steps = append(steps, ev("resolve", i, j))
			}
		}
	}
	return append(steps, ev("check", 0, 0))
}

// randomSession: a random graph (the shapes of randomGraph) is reached step by step: targets are added
// over time, a dependency may be declared long before it is resolved, some are never resolved, some
// name labels that never become targets; Check runs again and again in between.
func randomSession(r *lib.Rng) (string, int, []event) {
	kind, deps := randomGraph(r)
	n := len(deps)
	for n > 9 { // keep sessions small: drop the highest targets
		n--
		deps = deps[:n]
		for i := range deps {
			kept := []int{}
			for _, d := range deps[i] {
				if d < n {
					kept = append(kept, d)
				}
			}
			deps[i] = kept
		}
	}
	phantoms := r.Intn(3) // labels that never become targets
	type action struct {
		e     event
		needs []int // targets that must exist
		after int   // index of an action that must have run, -1 if none
		done  bool
	}
	acts := []*action{}
	for i := 0; i < n; i++ {
		acts = append(acts, &action{e: ev("add", 0, 0), after: -1})
	}
	neverDen := r.Range(3, 8)
	for a := 0; a < n; a++ {
		for _, b := range deps[a] {
			switch {
			case a != b && r.Chance(1, neverDen): // declared, never resolved
				acts = append(acts, &action{e: ev("declare", a, b), needs: []int{a}, after: -1})
			case a != b && r.Bool(): // declared first, resolved later
				acts = append(acts, &action{e: ev("declare", a, b), needs: []int{a}, after: -1})
				acts = append(acts, &action{e: ev("resolve", a, b), needs: []int{a, b}, after: len(acts) - 1})
			default:
				acts = append(acts, &action{e: ev("resolve", a, b), needs: []int{a, b}, after: -1})
			}
		}
	}
	for p := 0; p < phantoms; p++ {
		for k := r.Range(1, 2); k > 0; k-- {
			a := r.Intn(n)
			acts = append(acts, &action{e: ev("declare", a, n+p), needs: []int{a}, after: -1})
		}
	}
	// the targets are added in the order 0..n-1 (that is what their number means); which graph target
	// gets which number was already random. Run the actions in a random admissible order.
	steps := []event{}
	added := 0
	checkDen := r.Range(2, 6)
	remaining := len(acts)
	stopAt := -1
	if r.Chance(1, 12) {
		stopAt = r.Intn(remaining + 1)
	}
	for remaining > 0 {
		if stopAt == remaining {
			steps = append(steps, ev("stop", 0, 0), ev("check", 0, 0))
		}
		enabled := []*action{}
		for i, a := range acts {
			if a.done {
				continue
			}
			if a.e.Op == "add" {
				if i == added { // the next target
					enabled = append(enabled, a)
					if r.Bool() { // bias towards having targets early
						enabled = append(enabled, a)
					}
				}
				continue
			}
			ok := a.after < 0 || acts[a.after].done
			for _, t := range a.needs {
				ok = ok && t < added
			}
			if ok {
				enabled = append(enabled, a)
			}
		}
		a := lib.Pick(r, enabled)
		a.done = true
		remaining--
		if a.e.Op == "add" {
			added++
		}
		steps = append(steps, a.e)
		if added > 0 && r.Chance(1, checkDen) {
			steps = append(steps, ev("check", 0, 0))
		}
	}
	if stopAt == 0 {
		steps = append(steps, ev("stop", 0, 0))
	}
	steps = append(steps, ev("check", 0, 0))
	return kind, n + phantoms, steps
}

// ---- label pools -------------------------------------------------------------------------------

// labelPool returns n distinct labels whose order under BuildLabel.Less is not the order of
// creation: packages, sub-packages and names are mixed.
func labelPool(n int) []string {
	pkgs := []string{"a", "a/b", "ab", "b", "lib/x", "lib", "z"}
	names := []string{"t", "a", "lib", "_t#x", "zz"}
	out := []string{}
	for i := 0; len(out) < n; i++ {
		out = append(out, fmt.Sprintf("//%s:%s", pkgs[i%len(pkgs)], names[(i/len(pkgs))%len(names)]))
	}
	return out
}

func permuted(pool []string, p []int) []string {
	out := make([]string, len(p))
	for i, k := range p {
		out[i] = pool[k]
	}
	return out
}

func randPerm(r *lib.Rng, n int) []int {
	p := make([]int, n)
	for i := range p {
		p[i] = i
	}
	lib.Shuffle(r, p)
	return p
}

// graphFromMask: bit (i*n+j) of mask set <=> i depends on j (self references included).
func graphFromMask(n int, mask uint64) [][]int {
	deps := make([][]int, n)
	for i := 0; i < n; i++ {
		deps[i] = []int{}
		for j := 0; j < n; j++ {
			if mask>>(uint(i*n+j))&1 == 1 {
				deps[i] = append(deps[i], j)
			}
		}
	}
	return deps
}

// graphFromMaskNoSelf: the n*(n-1) off-diagonal positions only.
func graphFromMaskNoSelf(n int, mask uint64) [][]int {
	deps := make([][]int, n)
	k := uint(0)
	for i := 0; i < n; i++ {
		deps[i] = []int{}
		for j := 0; j < n; j++ {
			if i == j {
				continue
			}
			if mask>>k&1 == 1 {
				deps[i] = append(deps[i], j)
			}
			k++
		}
	}
	return deps
}

// ---- random graphs -----------------------------------------------------------------------------

func addEdge(deps [][]int, a, b int) { deps[a] = append(deps[a], b) }

func randomGraph(r *lib.Rng) (string, [][]int) {
	n := r.Range(1, 12)
	deps := make([][]int, n)
	for i := range deps {
		deps[i] = []int{}
	}
	topo := randPerm(r, n) // topo[k] may depend only on topo[k'] with k' > k in the DAG part
	dag := func(num, den int) {
		for a := 0; a < n; a++ {
			for b := a + 1; b < n; b++ {
				if r.Chance(num, den) {
					addEdge(deps, topo[a], topo[b])
				}
			}
		}
	}
	kind := ""
	switch r.Intn(7) {
	case 0: // G(n,p), self references allowed
		kind = "gnp"
		den := r.Range(2, 12)
		for a := 0; a < n; a++ {
			for b := 0; b < n; b++ {
				if r.Chance(1, den) && (a != b || r.Chance(1, 3)) {
					addEdge(deps, a, b)
				}
			}
		}
	case 1: // a DAG: must never be reported
		kind = "dag"
		dag(1, r.Range(2, 5))
	case 2: // a DAG plus one back edge: exactly the cycles through that edge
		kind = "dag+1back"
		dag(1, r.Range(2, 4))
		if n >= 2 {
			a := r.Range(1, n-1)
			addEdge(deps, topo[a], topo[r.Intn(a)])
		} else {
			addEdge(deps, 0, 0)
		}
	case 3: // a DAG plus a few back edges
		kind = "dag+backs"
		dag(1, r.Range(2, 5))
		for k := r.Range(1, 3); k > 0 && n >= 2; k-- {
			a := r.Range(1, n-1)
			addEdge(deps, topo[a], topo[r.Intn(a)])
		}
	case 4: // a completed (acyclic) subgraph, and a cycle that is only reached through it / beside it
		kind = "completed+cycle"
		dag(1, 3)
		if n >= 3 {
			k := r.Range(2, n-1) // cycle among topo[k-?..]: take the last m nodes of the topological order
			m := r.Range(1, n-k+1)
			for i := 0; i < m; i++ {
				addEdge(deps, topo[n-m+i], topo[n-m+(i+1)%m])
			}
		}
	case 5: // one ring through all nodes plus chords
		kind = "ring+chords"
		for i := 0; i < n; i++ {
			addEdge(deps, topo[i], topo[(i+1)%n])
		}
		for k := r.Intn(n + 1); k > 0; k-- {
			addEdge(deps, r.Intn(n), r.Intn(n))
		}
	case 6: // a chain with a tail cycle or a self reference at the very end
		kind = "chain"
		for i := 0; i+1 < n; i++ {
			addEdge(deps, topo[i], topo[i+1])
		}
		switch r.Intn(3) {
		case 0:
			addEdge(deps, topo[n-1], topo[n-1])
		case 1:
			addEdge(deps, topo[n-1], topo[r.Intn(n)])
		}
	}
	// duplicates: the same target resolved twice (two declared dependencies providing one target)
	if r.Chance(1, 4) {
		for k := r.Range(1, 3); k > 0; k-- {
			v := r.Intn(n)
			if len(deps[v]) > 0 {
				addEdge(deps, v, lib.Pick(r, deps[v]))
			}
		}
		kind += "+dup"
	}
	return kind, deps
}

func bucket(n int) string {
	switch {
	case n <= 3:
		return fmt.Sprint(n)
	case n <= 6:
		return "4-6"
	case n <= 9:
		return "7-9"
	}
	return "10-12"
}

func sameMultiset(a, b []int) bool {
	if len(a) != len(b) {
		return false
	}
	x, y := append([]int{}, a...), append([]int{}, b...)
	sort.Ints(x)
	sort.Ints(y)
	for i := range x {
		if x[i] != y[i] {
			return false
		}
	}
	return true
}

func main() {
	// Check logs two debug lines per run; the default go-logging backend prints them to stderr
	gologging.SetLevel(gologging.ERROR, "plz")
	lib.Main("C06", func(c *lib.Ctx) {
		c.Model("From PlzV Require Import Model.C06.", "C06.case", "C06.check")
		c.Rule("all directed graphs (self references included) on 1-3 targets under every assignment of labels, i.e. every AllTargets order " +
			"(thorough: also 4 targets x 24 orders, and all self-reference-free graphs on 5 targets under one random order each); " +
			"random graphs on 1-12 targets from 7 shapes (G(n,p), DAG, DAG + 1 back edge, DAG + several, completed subgraph + tail cycle, ring + chords, chain) " +
			"with random label assignment and occasional duplicate dependencies; each graph is a real core.BuildGraph run through cycleDetector.Check. " +
			"SESSIONS (one graph and ONE cycleDetector kept, Check called repeatedly while targets are added and dependencies declared/resolved): " +
			"all two-phase sessions on 2 targets (every dependency, self references included: absent / declared never resolved / resolved before the first Check / " +
			"declared before the first and resolved before the second Check) and on 3 targets (self-reference-free) under every label assignment; " +
			"random sessions reaching a random graph of <= 9 targets step by step (targets added over time, dependencies declared before being resolved, " +
			"never resolved, or naming labels that never become targets, 1-12 Checks in between, sometimes Stop, 1 in 16 through the detector of a real BuildState). " +
			"KINDED: dependencies declared through the real AddMaybeExportedDependency / AddDatum as srcs-only, internal, run-time, data or plain (also re-declared with other flags, " +
			"resolved twice, resolved before being declared): rings of 2-3 targets under a root with every assignment of the five kinds to the ring's edges, and random graphs of <= 8 targets; " +
			"observed Dependencies(), BuildDependencies() and Check. HIDDEN: every graph on 3 targets with every non-empty set of hidden (_name#tag) labels, random graphs with hidden labels. " +
			"LIFE: a real BuildState with KeepGoing, <= 7 targets declaring their dependencies, one target given to QueueTarget, the real queueResolvedTarget / queueTargetAsync / resolveDependencies; " +
			"the harness plays the build step only (each target's build ends Built/Cached/Unchanged/Reused or Failed by plan); when the states the waiting protocol leads to are reached, " +
			"the detector of that BuildState runs; observed State() of every target, Dependencies() and Check. " +
			"distinct = distinct (labels, dependency lists) or (labels, steps) or (labels, declarations) or (labels, dependencies, root, plan); non-trivial = at least 2 targets and 1 resolved dependency " +
			"(sessions: and at least 2 Checks or 1 unresolved declared dependency; kinded: Dependencies() differs from BuildDependencies(); life: at least 2 resolved dependencies)")

		do := func(in input, kind string, withCase bool) {
			o := run(in)
			for i := range in.Deps {
				if !sameMultiset(in.Deps[i], o.Deps[i]) {
					panic(fmt.Sprintf("harness: Dependencies() of %s is %v, built %v", in.Labels[i], o.Deps[i], in.Deps[i]))
				}
			}
			js := jsonOf(in, o)
			key := fmt.Sprint(in.Labels, in.Deps)
			nontrivial := len(in.Labels) >= 2 && edges(in.Deps) >= 1
			if withCase {
				c.Case(coqCase(o), js, key, nontrivial)
			} else {
				c.Eval(js, key, nontrivial)
			}
			c.Oracle()
			if class, what := oracle(in, o); class != "" {
				c.Fail(class, what, js)
			}
			c.Hist("shape", kind)
			c.Hist("targets", bucket(len(in.Labels)))
			if o.Found {
				c.Hist("reported_cycle_length", bucket(len(o.Cycle)))
			} else {
				c.Hist("reported_cycle_length", "none")
			}
		}

		doSession := func(in input, kind string, withCase bool) {
			o := runSession(in)
			js := sessionJSON(in, o, -1)
			key := fmt.Sprint(in.Labels, in.Steps, in.ViaState)
			nTargets, nResolved, unresolved := 0, 0, 0
			for _, e := range in.Steps {
				switch e.Op {
				case "add":
					nTargets++
				case "resolve":
					nResolved++
				}
			}
			for _, ch := range o.Checks {
				unresolved += ch.Unresolved
			}
			nontrivial := nTargets >= 2 && nResolved >= 1 && (len(o.Checks) >= 2 || unresolved >= 1)
			if withCase {
				c.Case(coqSession(in, o), js, key, nontrivial)
			} else {
				c.Eval(js, key, nontrivial)
			}
			prev := ""
			for k, ch := range o.Checks {
				c.Oracle()
				if class, what := sessionOracle(in, k, ch); class != "" {
					c.Fail(class, what, sessionJSON(in, o, k))
				}
				verdict := "clean"
				if ch.Found {
					verdict = "cycle"
				}
				if ch.Stopped {
					verdict = "stopped"
				}
				if k > 0 {
					c.Hist("session_rerun_verdict", prev+"->"+verdict)
				}
				prev = verdict
				if ch.Unresolved > 0 {
					c.Hist("session_check_unresolved_deps", "1+")
				} else {
					c.Hist("session_check_unresolved_deps", "0")
				}
			}
			c.Hist("shape", "session:"+kind)
			c.Hist("session_checks", bucket(len(o.Checks)))
			c.Hist("session_targets", bucket(nTargets))
		}

		doKinded := func(in input, kind string, withCase bool) {
			o := runKinded(in)
			js := kindedJSON(in, o)
			key := fmt.Sprint("kinded", in.Labels, in.Kops)
			nontrivial := len(in.Labels) >= 2 && edges(o.Edges) >= 1 && fmt.Sprint(o.All) != fmt.Sprint(o.Build)
			if withCase {
				c.Case(coqKinded(in, o), js, key, nontrivial)
			} else {
				c.Eval(js, key, nontrivial)
			}
			c.Oracle()
			if class, what := kindedOracle(in, o); class != "" {
				c.Fail(class, what, js)
			}
			c.Hist("shape", "kinded:"+kind)
			switch {
			case !hasCycle(o.Edges):
				c.Hist("kinded_graph", "acyclic")
			case hasCycle(o.Build):
				c.Hist("kinded_graph", "cycle-of-build-dependencies")
			default:
				c.Hist("kinded_graph", "every-cycle-through-a-non-build-edge")
			}
		}

		doLife := func(in input, kind string, withCase bool) {
			o := runLife(in)
			js := lifeJSON(in, o)
			key := fmt.Sprint("life", in.Labels, in.Deps, in.Root, in.Plan)
			failedOnCycle, anyCycle := false, false
			for v, on := range onCycle(o.Deps) {
				anyCycle = anyCycle || on
				failedOnCycle = failedOnCycle || (on && stateIndex(o.States[v]) >= stateIndex("DependencyFailed"))
			}
			if withCase {
				c.Case(coqLife(in, o), js, key, edges(o.Deps) >= 2)
			} else {
				c.Eval(js, key, edges(o.Deps) >= 2)
			}
			c.Oracle()
			if class, what := lifeOracle(in, o); class != "" {
				c.Fail(class, what, js)
			}
			c.Hist("shape", "life:"+kind)
			switch {
			case failedOnCycle:
				c.Hist("life_graph", "cycle-with-a-(Dependency)Failed-member")
			case anyCycle:
				c.Hist("life_graph", "cycle-all-members-waiting")
			default:
				c.Hist("life_graph", "acyclic")
			}
			if !o.Settled {
				c.Hist("life_settled", "expected-states-not-reached")
			} else {
				c.Hist("life_settled", "yes")
			}
			for _, st := range o.States {
				c.Hist("life_state", st)
			}
		}

		var rp input
		if c.ReadReplay(&rp) {
			if rp.Mode == "kinded" {
				doKinded(rp, "replay", true)
				return
			}
			if rp.Mode == "life" {
				doLife(rp, "replay", true)
				return
			}
			if len(rp.Steps) > 0 {
				doSession(rp, "replay", true)
				return
			}
			if len(rp.Labels) != len(rp.Deps) {
				panic("replay: labels and deps differ in length")
			}
			do(rp, "replay", true)
			return
		}

		// --- 1. exhaustive small graphs under every order
		maxAll := c.Scale(3, 4)
		for n := 1; n <= maxAll; n++ {
			pool := labelPool(n)
			perms := [][]int{}
			lib.Perms(n, func(p []int) { perms = append(perms, append([]int{}, p...)) })
			for mask := uint64(0); mask < 1<<uint(n*n); mask++ {
				deps := graphFromMask(n, mask)
				for k, p := range perms {
					// 4 targets: every order goes through the oracle, one order per graph (rotating) through the model
					withCase := n <= 3 || (mask%4 == 0 && k == int((mask/4)%uint64(len(perms)))) // thorough tier: a quarter of the 4-target graphs go through the model, all through the oracle
					do(input{Labels: permuted(pool, p), Deps: deps}, fmt.Sprintf("exhaustive-%d", n), withCase)
				}
			}
		}
		c.Exhaustive(true)
		c.Note("exhaustive: every directed graph with self references on <= %d targets under every AllTargets order", maxAll)
		if c.Thor {
			n := 5
			pool := labelPool(n)
			for mask := uint64(0); mask < 1<<uint(n*(n-1)); mask++ {
				r := c.Rng.Fork()
				do(input{Labels: permuted(pool, randPerm(r, n)), Deps: graphFromMaskNoSelf(n, mask)}, "exhaustive-5-noself", false)
			}
			c.Note("exhaustive: every self-reference-free directed graph on 5 targets, one random order each (oracle only)")
		}

		// --- 1b. sessions: every two-phase session on 2 targets (self references included) and on 3
		// targets (self-reference-free), under every assignment of labels (= every AllTargets order)
		for n := 2; n <= 3; n++ {
			pool := labelPool(n)
			perms := [][]int{}
			lib.Perms(n, func(p []int) { perms = append(perms, append([]int{}, p...)) })
			radix := make([]int, n*n) // number of states of each dependency
			total := 1
			for i := 0; i < n; i++ {
				for j := 0; j < n; j++ {
					switch {
					case i != j:
						radix[i*n+j] = 4
					case n == 2:
						radix[i*n+j] = 3 // self: absent / resolved early / resolved late (coded 0, 2, 3)
					default:
						radix[i*n+j] = 1
					}
					total *= radix[i*n+j]
				}
			}
			st := make([]int, n*n)
			for code := 0; code < total; code++ {
				x := code
				for q := range st {
					st[q] = x % radix[q]
					x /= radix[q]
					if radix[q] == 3 && st[q] >= 1 {
						st[q]++
					}
				}
				steps := twoPhaseSession(n, st)
				for k, p := range perms {
					withCase := n == 2 || c.Thor || k == code%len(perms)
					doSession(input{Labels: permuted(pool, p), Steps: steps}, fmt.Sprintf("two-phase-%d", n), withCase)
				}
			}
		}
		c.Note("exhaustive: every two-phase session (dependency absent / declared only / resolved before Check 1 / declared before Check 1 and resolved before Check 2) " +
			"on 2 targets with self references and on 3 targets without, one kept detector, under every AllTargets order")

		// --- 1c. random sessions
		nsess := c.Scale(1200, 6000)
		for i := 0; i < nsess; i++ {
			r := c.Rng.Fork()
			kind, nlabels, steps := randomSession(r)
			in := input{Labels: permuted(labelPool(nlabels), randPerm(r, nlabels)), Steps: steps, ViaState: r.Chance(1, 16)}
			doSession(in, kind, true)
		}

		// --- 1d. edges of every kind: rings of 2 and 3 targets (below a root that reaches them through a plain
		// dependency) with every assignment of plain / source / internal / runtime / data to the ring's edges
		for m := 2; m <= 3; m++ {
			total := 1
			for i := 0; i < m; i++ {
				total *= len(edgeKinds)
			}
			for code := 0; code < total; code++ {
				r := c.Rng.Fork()
				n := m + 1
				ops, res := []kop{{A: m, Op: "declare", B: 0}}, []kop{{A: m, Op: "resolve", B: 0}}
				x := code
				for i := 0; i < m; i++ {
					ops = append(ops, declOps(i, (i+1)%m, edgeKinds[x%len(edgeKinds)])...)
					res = append(res, kop{A: i, Op: "resolve", B: (i + 1) % m})
					x /= len(edgeKinds)
				}
				in := input{Mode: "kinded", Labels: permuted(labelPool(n), randPerm(r, n)), Kops: append(ops, res...)}
				doKinded(in, fmt.Sprintf("ring-%d-all-kinds", m), true)
			}
		}
		c.Note("exhaustive: rings of 2 and 3 targets under a root, every assignment of the five kinds of declaration (deps, srcs, internal, run-time, data) to the ring's edges")
		nk := c.Scale(500, 4000)
		for i := 0; i < nk; i++ {
			r := c.Rng.Fork()
			shape, n, ops := randomKinded(r)
			in := input{Mode: "kinded", Labels: permuted(labelPool(n), randPerm(r, n)), Kops: ops}
			doKinded(in, shape, true)
		}

		// --- 1e. hidden targets: every graph on 3 targets with every choice of which labels are hidden
		// (oracle only; one in eight also through the model), random graphs with hidden labels
		{
			n := 3
			for mask := uint64(0); mask < 1<<uint(n*n); mask++ {
				deps := graphFromMask(n, mask)
				for hm := uint64(1); hm < 1<<uint(n); hm++ {
					r := c.Rng.Fork()
					do(input{Labels: permuted(hiddenPool(n, hm), randPerm(r, n)), Deps: deps}, "hidden-exhaustive-3", (mask+hm)%8 == 0)
				}
			}
			c.Note("exhaustive: every directed graph on 3 targets with every non-empty set of hidden (_name#tag) labels, one random order each")
			nh := c.Scale(400, 3000)
			for i := 0; i < nh; i++ {
				r := c.Rng.Fork()
				kind, deps := randomGraph(r)
				n := len(deps)
				hm := r.U64() & r.U64() // about a quarter of the labels
				if r.Bool() {
					hm = r.U64()
				}
				do(input{Labels: permuted(hiddenPool(n, hm), randPerm(r, n)), Deps: deps}, "hidden:"+kind, true)
			}
		}

		// --- 1f. target states through the real queueing code (BuildState with KeepGoing)
		{
			// the demo shape first: a -> {a0 (fails), b}, b -> a, under every assignment of labels
			lib.Perms(3, func(p []int) {
				in := input{Mode: "life", Labels: permuted(labelPool(3), p), Deps: [][]int{{1, 2}, {}, {0}}, Root: 0, Plan: []string{"Built", "Failed", "Built"}}
				doLife(in, "cycle-member-with-failing-dependency", true)
			})
			nl := c.Scale(220, 2500)
			for i := 0; i < nl; i++ {
				r := c.Rng.Fork()
				shape, deps, root, plan := randomLife(r)
				n := len(deps)
				in := input{Mode: "life", Labels: permuted(labelPool(n), randPerm(r, n)), Deps: deps, Root: root, Plan: plan}
				doLife(in, shape, true)
			}
		}

		// --- 2. random graphs up to 12 targets, random order
		nrand := c.Scale(2000, 12000)
		for i := 0; i < nrand; i++ {
			r := c.Rng.Fork()
			kind, deps := randomGraph(r)
			n := len(deps)
			in := input{Labels: permuted(labelPool(n), randPerm(r, n)), Deps: deps}
			do(in, kind, true)
			// the same graph under two more orders: oracle only (the verdict must not depend on the order)
			for k := 0; k < 2; k++ {
				do(input{Labels: permuted(labelPool(n), randPerm(r, n)), Deps: deps}, kind, false)
			}
		}
	})
}
