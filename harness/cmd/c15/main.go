// C15: the concurrent awaitable map (src/cmap). Implementation side of the correspondence + property oracle.
//
// Three streams, all on the REAL cmap.Map / cmap.ErrMap:
//
//	seq     sequential operation lists on Map[int,int] (1, 2 or 4 shards, keys placed in the same or in
//	        different shards by a table hasher). Every result, every returned channel (by identity) and,
//	        after every operation, which of the channels seen so far are closed go to the Coq model
//	        (CMap case). Oracle: a plain Go map + awaited set (model-independent).
//	errseq  the same for ErrMap[int,int] including GetOrSet (CErr case); a GetOrSet that does not
//	        return although it has released the limiter (ErrMap does that immediately before <-wait) is
//	        observed as "blocked" and released at the end of the case.
//	conc    2-4 goroutines x 1-4 operations over 2-3 keys with unique values; invocation/response
//	        order is recorded with an atomic clock; the oracle searches for a linearisation accepted by
//	        the Go sequential specification (Values() is one read per shard), checks that all waiters of
//	        a key share one channel, that a waiter proceeds iff its key is added, and that a woken
//	        waiter finds the key. The linearisation found is replayed through the Coq model and the Coq
//	        specification (CMap case without closed flags).
//	stampede many goroutines call GetOrWait / ErrMap.GetOrSet for the same key at the same instant.
package main

import (
	"errors"
	"fmt"
	"runtime"
	"sort"
	"strings"
	"sync"
	"sync/atomic"
	"time"

	"verifharness/lib"

	"github.com/thought-machine/please/src/cmap"
)

const blockGrace = 3 * time.Millisecond  // a sequential GetOrSet that has released the limiter (it is about to wait) and has not returned by then is "blocked"
const wakeTimeoutLong = 10 * time.Second // a waiter whose key has been added must have proceeded by then

// wakeTimeout: generous while everything wakes up as it should (a busy machine must not produce a
// false alarm); once waiters have been lost three times the remaining checks only wait briefly, so
// that a broken map is reported with its failing inputs instead of running into the harness timeout.
var lostWaits atomic.Int64

func wakeTimeout() time.Duration {
	if lostWaits.Load() >= 3 {
		return 150 * time.Millisecond
	}
	return wakeTimeoutLong
}

func lost() { lostWaits.Add(1) }

// ---------------------------------------------------------------------------------------------
// operations and observations

type Op struct {
	Op string `json:"op"` // add addorget set get getorwait contains values waitget | seterror getorset
	K  int    `json:"k"`
	V  int    `json:"v,omitempty"`
	E  int    `json:"e,omitempty"` // error code (ErrMap), 0 = nil
}

type Res struct {
	B       bool   `json:"b,omitempty"`    // add: inserted; addorget: inserted; contains; getorwait: first; getorset: f called
	V       int    `json:"v,omitempty"`    // value
	E       int    `json:"e,omitempty"`    // error code
	Ch      int    `json:"ch"`             // observed channel number, -1 = nil
	Vals    []int  `json:"vals,omitempty"` // values (sorted)
	Blocked bool   `json:"blocked,omitempty"`
	Closed  []bool `json:"closed,omitempty"` // after the operation: is channel i closed
}

type SeqCase struct {
	Kind string   `json:"kind"` // seq | errseq
	Nsh  int      `json:"nsh"`
	Hash []uint64 `json:"hash"` // hasher(k) = Hash[k]
	Ops  []Op     `json:"ops"`
	Res  []Res    `json:"results,omitempty"`
}

var errTable = []error{nil, errors.New("e1"), errors.New("e2"), errors.New("e3")}

func errCode(e error) int {
	for i, x := range errTable {
		if x == e {
			return i
		}
	}
	return 99
}

func isClosed(ch <-chan struct{}) bool {
	select {
	case <-ch:
		return true
	default:
		return false
	}
}

type chanTable struct{ chans []<-chan struct{} }

func (t *chanTable) id(ch <-chan struct{}) int {
	if ch == nil {
		return -1
	}
	for i, c := range t.chans {
		if c == ch {
			return i
		}
	}
	t.chans = append(t.chans, ch)
	return len(t.chans) - 1
}

func (t *chanTable) flags() []bool {
	out := make([]bool, len(t.chans))
	for i, c := range t.chans {
		out[i] = isClosed(c)
	}
	return out
}

func hasherOf(tab []uint64) func(int) uint64 {
	return func(k int) uint64 { return tab[k] }
}

// yieldingHasher: the hasher runs at the start of every Map operation, before the shard is locked; yielding
// there makes the operations of different goroutines overlap even when the machine is busy.
func yieldingHasher(tab []uint64) func(int) uint64 {
	var n atomic.Uint64
	return func(k int) uint64 {
		if x := n.Add(0x9e3779b97f4a7c15); (x>>33)%3 == 0 {
			runtime.Gosched()
		}
		return tab[k]
	}
}

// ---------------------------------------------------------------------------------------------
// sequential Map

func runSeq(sc *SeqCase) (chans *chanTable) {
	m := cmap.New[int, int](uint64(sc.Nsh), hasherOf(sc.Hash))
	t := &chanTable{}
	sc.Res = nil
	for _, o := range sc.Ops {
		r := Res{Ch: -1}
		switch o.Op {
		case "add":
			r.B = m.Add(o.K, o.V)
		case "addorget":
			called := false
			v, ins := m.AddOrGet(o.K, func() int { called = true; return o.V })
			r.V, r.B = v, ins
			if called != ins {
				r.E = 77 // f called <> inserted: reported by the oracle
			}
		case "set":
			m.Set(o.K, o.V)
		case "get":
			r.V = m.Get(o.K)
		case "getorwait":
			v, ch, first := m.GetOrWait(o.K)
			r.V, r.B, r.Ch = v, first, t.id(ch)
		case "contains":
			r.B = m.Contains(o.K)
		case "values":
			r.Vals = append([]int{}, m.Values()...)
			sort.Ints(r.Vals)
		default:
			panic("bad op " + o.Op)
		}
		r.Closed = t.flags()
		sc.Res = append(sc.Res, r)
	}
	return t
}

// the sequential specification the oracle uses: a map and the set of awaited keys
type seqSpec struct {
	m       map[int][2]int // key -> (value, error code)
	awaited map[int]bool
	chanOf  map[int]int // key -> observed channel number
}

func newSpec() *seqSpec {
	return &seqSpec{m: map[int][2]int{}, awaited: map[int]bool{}, chanOf: map[int]int{}}
}

func (s *seqSpec) values() []int {
	out := []int{}
	for _, v := range s.m {
		out = append(out, v[0])
	}
	sort.Ints(out)
	return out
}

func eqInts(a, b []int) bool {
	if len(a) != len(b) {
		return false
	}
	for i := range a {
		if a[i] != b[i] {
			return false
		}
	}
	return true
}

// oracleSeq checks one sequential history against the plain-map specification.
func oracleSeq(c *lib.Ctx, sc *SeqCase) {
	s := newSpec()
	keyOfChan := map[int]int{}
	fail := func(class, what string) { c.Fail(class, what, sc) }
	for i, o := range sc.Ops {
		c.Oracle()
		r := sc.Res[i]
		at := fmt.Sprintf("step %d %s(%d)", i, o.Op, o.K)
		cur, present := s.m[o.K]
		switch o.Op {
		case "add":
			if r.B != !present {
				fail("seq-add-differs-from-map", fmt.Sprintf("%s returned %v, key present=%v", at, r.B, present))
			}
			if !present {
				s.m[o.K] = [2]int{o.V, 0}
			}
		case "addorget":
			want := o.V
			if present {
				want = cur[0]
			}
			if r.B != !present || r.V != want || r.E == 77 {
				fail("seq-addorget-differs-from-map", fmt.Sprintf("%s returned (%d,%v), want (%d,%v) and f called iff inserted", at, r.V, r.B, want, !present))
			}
			if !present {
				s.m[o.K] = [2]int{o.V, 0}
			}
		case "set":
			s.m[o.K] = [2]int{o.V, 0}
		case "get":
			if r.V != cur[0] {
				fail("seq-get-differs-from-map", fmt.Sprintf("%s returned %d, map holds %d", at, r.V, cur[0]))
			}
			if !present {
				s.awaited[o.K] = true
			}
		case "getorwait":
			if present {
				if r.V != cur[0] || r.Ch != -1 || r.B {
					fail("seq-getorwait-differs-from-map", fmt.Sprintf("%s on an added key returned (%d,ch%d,%v), want (%d,nil,false)", at, r.V, r.Ch, r.B, cur[0]))
				}
			} else {
				if r.V != 0 || r.Ch == -1 || r.B != !s.awaited[o.K] {
					fail("seq-getorwait-differs-from-map", fmt.Sprintf("%s on an absent key returned (%d,ch%d,first=%v), awaited before=%v", at, r.V, r.Ch, r.B, s.awaited[o.K]))
				}
				if r.Ch != -1 {
					if old, ok := s.chanOf[o.K]; ok && old != r.Ch {
						fail("wait-channel-not-shared", fmt.Sprintf("%s returned channel %d, an earlier waiter of the same key got channel %d", at, r.Ch, old))
					}
					if k2, ok := keyOfChan[r.Ch]; ok && k2 != o.K {
						fail("wait-channel-shared-between-keys", fmt.Sprintf("%s returned channel %d which belongs to key %d", at, r.Ch, k2))
					}
					s.chanOf[o.K] = r.Ch
					keyOfChan[r.Ch] = o.K
				}
				s.awaited[o.K] = true
			}
		case "contains":
			if r.B != present {
				if r.B && s.awaited[o.K] {
					fail("contains-reports-awaited-key", fmt.Sprintf("%s is true although the key was only looked up, never added", at))
				} else {
					fail("seq-contains-differs-from-map", fmt.Sprintf("%s returned %v, key present=%v", at, r.B, present))
				}
			}
		case "values":
			if want := s.values(); !eqInts(r.Vals, want) {
				fail("seq-values-differs-from-map", fmt.Sprintf("step %d Values() = %v, map holds %v", i, r.Vals, want))
			}
		}
		// wake-ups: a channel handed out for k is closed iff k has been added
		for ch, closed := range r.Closed {
			k, ok := keyOfChan[ch]
			if !ok {
				continue
			}
			_, added := s.m[k]
			if added && !closed {
				fail("wakeup-lost", fmt.Sprintf("after %s key %d is added but its wait channel %d is still open", at, k, ch))
			}
			if !added && closed {
				if o.Op == "add" || o.Op == "set" || o.Op == "addorget" {
					fail("wakeup-spurious", fmt.Sprintf("after %s the wait channel %d of key %d, which has not been added, is closed", at, ch, k))
				} else {
					fail("wakeup-before-added", fmt.Sprintf("after %s the wait channel %d of key %d is closed, the key has not been added", at, ch, k))
				}
			}
		}
	}
}

func coqN(x int) string { return lib.N(uint64(x)) }

func coqFlags(fl []bool) string {
	items := make([]string, len(fl))
	for i, b := range fl {
		items[i] = lib.Bool(b)
	}
	return lib.List(items)
}

func coqNs(xs []int) string {
	items := make([]string, len(xs))
	for i, x := range xs {
		items[i] = coqN(x)
	}
	return lib.List(items)
}

// coqMapStep prints one observed step of a Map[int,int] history (Model.C15.mstep and the closed flags).
func coqMapStep(o Op, r Res) string {
	var st string
	switch o.Op {
	case "add":
		st = lib.App("MAdd", coqN(o.K), coqN(o.V), lib.Bool(r.B))
	case "addorget":
		st = lib.App("MAddOrGet", coqN(o.K), coqN(o.V), coqN(r.V), lib.Bool(r.B))
	case "set":
		st = lib.App("MSet", coqN(o.K), coqN(o.V))
	case "get":
		st = lib.App("MGet", coqN(o.K), coqN(r.V))
	case "getorwait":
		ch := "None"
		if r.Ch >= 0 {
			ch = lib.Some(coqN(r.Ch))
		}
		st = lib.App("MWait", coqN(o.K), coqN(r.V), ch, lib.Bool(r.B))
	case "contains":
		st = lib.App("MContains", coqN(o.K), lib.Bool(r.B))
	case "values":
		st = lib.App("MValues", coqNs(r.Vals))
	case "valuesshard":
		st = lib.App("MValuesShard", coqN(o.K), coqNs(r.Vals))
	default:
		panic("coqMapStep " + o.Op)
	}
	return lib.Pair(st, coqFlags(r.Closed))
}

func coqShards(hash []uint64, nsh int) string {
	items := []string{}
	for k, h := range hash {
		items = append(items, lib.Pair(coqN(k), lib.N(h&uint64(nsh-1))))
	}
	return lib.List(items)
}

func coqMapCase(sc *SeqCase, flags bool) string {
	steps := make([]string, len(sc.Ops))
	for i := range sc.Ops {
		steps[i] = coqMapStep(sc.Ops[i], sc.Res[i])
	}
	return lib.App("CMap", lib.Nat(sc.Nsh), coqShards(sc.Hash, sc.Nsh), lib.Bool(flags), lib.List(steps))
}

func genHash(r *lib.Rng, nkeys, nsh int) []uint64 {
	tab := make([]uint64, nkeys)
	mode := r.Intn(3)
	for k := range tab {
		switch mode {
		case 0: // all keys in one shard
			tab[k] = uint64(r.Intn(1<<20))<<8 | 1
		case 1: // all keys in different shards (as far as there are shards)
			tab[k] = uint64(r.Intn(1<<20))<<8 | uint64(k)
		default:
			tab[k] = r.U64()
		}
	}
	return tab
}

var mapOps = []string{"add", "add", "addorget", "set", "get", "getorwait", "getorwait", "contains", "contains", "values"}

func genSeq(r *lib.Rng) *SeqCase {
	nsh := []int{1, 2, 4}[r.Intn(3)]
	nkeys := r.Range(1, 4)
	sc := &SeqCase{Kind: "seq", Nsh: nsh, Hash: genHash(r, nkeys, nsh)}
	n := r.Range(1, 12)
	for i := 0; i < n; i++ {
		sc.Ops = append(sc.Ops, Op{Op: lib.Pick(r, mapOps), K: r.Intn(nkeys), V: r.Range(1, 6)})
	}
	return sc
}

// the boundary of the property: placeholders created by lookups, then Contains/Values/Add on them
func adversarialSeq() []*SeqCase {
	mk := func(nsh int, hash []uint64, ops ...Op) *SeqCase {
		return &SeqCase{Kind: "seq", Nsh: nsh, Hash: hash, Ops: ops}
	}
	h := []uint64{0, 1, 5}
	out := []*SeqCase{
		// the fixed defect 59ed344 (corpus/C15/contains_after_get_test.go.txt)
		mk(4, h, Op{Op: "contains", K: 0}, Op{Op: "get", K: 0}, Op{Op: "contains", K: 0}, Op{Op: "values"}, Op{Op: "add", K: 0, V: 1}, Op{Op: "contains", K: 0}),
		mk(4, h, Op{Op: "getorwait", K: 1}, Op{Op: "contains", K: 1}, Op{Op: "values"}),
		mk(1, h, Op{Op: "getorwait", K: 0}, Op{Op: "getorwait", K: 0}, Op{Op: "add", K: 0, V: 2}, Op{Op: "getorwait", K: 0}, Op{Op: "add", K: 0, V: 3}, Op{Op: "get", K: 0}),
		// adding one key must not wake the waiter of another key, same shard (1 and 5 collide mod 4) and different shards
		mk(4, h, Op{Op: "getorwait", K: 1}, Op{Op: "getorwait", K: 2}, Op{Op: "add", K: 2, V: 4}, Op{Op: "contains", K: 1}, Op{Op: "set", K: 1, V: 5}, Op{Op: "values"}),
		mk(2, h, Op{Op: "getorwait", K: 0}, Op{Op: "getorwait", K: 1}, Op{Op: "addorget", K: 0, V: 3}, Op{Op: "addorget", K: 0, V: 4}, Op{Op: "getorwait", K: 1}),
		// overwrite and add-if-absent on a waited key
		mk(2, h, Op{Op: "get", K: 0}, Op{Op: "set", K: 0, V: 1}, Op{Op: "set", K: 0, V: 2}, Op{Op: "add", K: 0, V: 3}, Op{Op: "get", K: 0}, Op{Op: "values"}),
		mk(1, h, Op{Op: "get", K: 2}, Op{Op: "addorget", K: 2, V: 6}, Op{Op: "addorget", K: 2, V: 1}, Op{Op: "contains", K: 2}),
	}
	return out
}

// ---------------------------------------------------------------------------------------------
// sequential ErrMap

type errCaseRun struct {
	pending []chan Res // blocked GetOrSet calls, released at the end
	keys    []int
}

func runErrSeq(c *lib.Ctx, sc *SeqCase) {
	lim := &countingLimiter{onRelease: make(chan struct{}, 64)}
	m := cmap.NewErrMap[int, int](uint64(sc.Nsh), hasherOf(sc.Hash), lim)
	sc.Res = nil
	run := errCaseRun{}
	for _, o := range sc.Ops {
		r := Res{Ch: -1}
		switch o.Op {
		case "add":
			r.B = m.Add(o.K, o.V)
		case "addorget":
			v, ins, err := m.AddOrGet(o.K, func() int { return o.V })
			r.V, r.B, r.E = v, ins, errCode(err)
		case "set":
			m.Set(o.K, o.V)
		case "seterror":
			m.SetError(o.K, errTable[o.E])
		case "get":
			v, err := m.Get(o.K)
			r.V, r.E = v, errCode(err)
		case "getorset":
			done := make(chan Res, 1)
			go func() {
				called := false
				v, err := m.GetOrSet(o.K, func() (int, error) { called = true; return o.V, errTable[o.E] })
				done <- Res{V: v, E: errCode(err), B: called, Ch: -1}
			}()
			select {
			case r = <-done:
			case <-lim.onRelease: // about to wait on the channel
				select {
				case r = <-done:
				case <-time.After(blockGrace):
					r.Blocked = true
					run.pending = append(run.pending, done)
					run.keys = append(run.keys, o.K)
				}
			case <-time.After(wakeTimeout()):
				c.Fail("getorset-hangs", fmt.Sprintf("GetOrSet(%d) neither returned nor started to wait", o.K), sc)
				r.Blocked = true
			}
		default:
			panic("bad op " + o.Op)
		}
		sc.Res = append(sc.Res, r)
	}
	// release whoever is still blocked: once the key is set the waiter must return
	for i, done := range run.pending {
		m.Set(run.keys[i], 1000+i)
		c.Oracle()
		select {
		case <-done:
		case <-time.After(wakeTimeout()):
			lost()
			c.Fail("wakeup-lost", fmt.Sprintf("GetOrSet(%d) was waiting; the key has been set and the waiter did not return", run.keys[i]), sc)
		}
	}
	c.Oracle()
	if a, r := lim.acquired.Load(), lim.released.Load(); a != r {
		c.Fail("limiter-unbalanced", fmt.Sprintf("GetOrSet released the limiter %d times and re-acquired it %d times", r, a), sc)
	}
}

// countingLimiter also tells the harness that GetOrSet is about to wait: ErrMap releases the limiter
// immediately before <-wait, so "blocked" is observed without guessing from a timeout.
type countingLimiter struct {
	acquired, released atomic.Int64
	onRelease          chan struct{}
}

func (l *countingLimiter) Acquire() { l.acquired.Add(1) }
func (l *countingLimiter) Release() {
	l.released.Add(1)
	if l.onRelease != nil {
		l.onRelease <- struct{}{}
	}
}

func oracleErrSeq(c *lib.Ctx, sc *SeqCase) {
	s := newSpec()
	fail := func(class, what string) { c.Fail(class, what, sc) }
	for i, o := range sc.Ops {
		c.Oracle()
		r := sc.Res[i]
		at := fmt.Sprintf("step %d %s(%d)", i, o.Op, o.K)
		cur, present := s.m[o.K]
		switch o.Op {
		case "add":
			if r.B != !present {
				fail("seq-add-differs-from-map", fmt.Sprintf("%s returned %v, key present=%v", at, r.B, present))
			}
			if !present {
				s.m[o.K] = [2]int{o.V, 0}
			}
		case "addorget":
			want := [2]int{o.V, 0}
			if present {
				want = cur
			}
			if r.B != !present || r.V != want[0] || r.E != want[1] {
				fail("seq-addorget-differs-from-map", fmt.Sprintf("%s returned (%d,%v,e%d), want (%d,%v,e%d)", at, r.V, r.B, r.E, want[0], !present, want[1]))
			}
			if !present {
				s.m[o.K] = want
			}
		case "set":
			s.m[o.K] = [2]int{o.V, 0}
		case "seterror":
			s.m[o.K] = [2]int{0, o.E}
		case "get":
			if r.V != cur[0] || r.E != cur[1] {
				fail("seq-get-differs-from-map", fmt.Sprintf("%s returned (%d,e%d), map holds (%d,e%d)", at, r.V, r.E, cur[0], cur[1]))
			}
			if !present {
				s.awaited[o.K] = true
			}
		case "getorset":
			switch {
			case present:
				if r.Blocked || r.B || r.V != cur[0] || r.E != cur[1] {
					fail("getorset-differs-from-map", fmt.Sprintf("%s on a set key returned (%d,e%d,called=%v,blocked=%v), map holds (%d,e%d)", at, r.V, r.E, r.B, r.Blocked, cur[0], cur[1]))
				}
			case s.awaited[o.K]:
				// somebody else looked the key up first and is expected to add it: the caller waits for the key
				if !r.Blocked {
					fail("woken-before-added", fmt.Sprintf("%s returned (%d,e%d,called=%v) although the key is awaited and has not been added", at, r.V, r.E, r.B))
				}
			default:
				if r.Blocked || !r.B || r.V != o.V || r.E != o.E {
					fail("getorset-differs-from-map", fmt.Sprintf("%s on an absent key returned (%d,e%d,called=%v,blocked=%v), want f's (%d,e%d)", at, r.V, r.E, r.B, r.Blocked, o.V, o.E))
				}
				s.m[o.K] = [2]int{o.V, o.E}
				s.awaited[o.K] = true
			}
		}
	}
}

func coqErrStep(o Op, r Res) string {
	switch o.Op {
	case "add":
		return lib.App("EAdd", coqN(o.K), coqN(o.V), lib.Bool(r.B))
	case "addorget":
		return lib.App("EAddOrGet", coqN(o.K), coqN(o.V), coqN(r.E), coqN(r.V), lib.Bool(r.B))
	case "set":
		return lib.App("ESet", coqN(o.K), coqN(o.V))
	case "seterror":
		return lib.App("ESetError", coqN(o.K), coqN(o.E))
	case "get":
		return lib.App("EGet", coqN(o.K), coqN(r.E), coqN(r.V))
	case "getorset":
		res := "None"
		if !r.Blocked {
			res = lib.Some("(" + coqN(r.E) + ", " + coqN(r.V) + ", " + lib.Bool(r.B) + ")")
		}
		return lib.App("EGetOrSet", coqN(o.K), coqN(o.E), coqN(o.V), res)
	}
	panic("coqErrStep " + o.Op)
}

func coqErrCase(sc *SeqCase) string {
	steps := make([]string, len(sc.Ops))
	for i := range sc.Ops {
		steps[i] = coqErrStep(sc.Ops[i], sc.Res[i])
	}
	return lib.App("CErr", lib.Nat(sc.Nsh), coqShards(sc.Hash, sc.Nsh), lib.List(steps))
}

var errOps = []string{"add", "addorget", "set", "seterror", "get", "getorset", "getorset", "getorset"}

func genErrSeq(r *lib.Rng, allowBlock bool) *SeqCase {
	nsh := []int{1, 2, 4}[r.Intn(3)]
	nkeys := r.Range(1, 3)
	sc := &SeqCase{Kind: "errseq", Nsh: nsh, Hash: genHash(r, nkeys, nsh)}
	n := r.Range(1, 9)
	s := newSpec() // only to steer the generator away from (slow) blocking cases when they are not wanted
	for i := 0; i < n; i++ {
		o := Op{Op: lib.Pick(r, errOps), K: r.Intn(nkeys), V: r.Range(1, 6)}
		if o.Op == "seterror" || (o.Op == "getorset" && r.Chance(1, 3)) {
			o.E = r.Range(1, 3)
		}
		_, present := s.m[o.K]
		if o.Op == "getorset" && !present && s.awaited[o.K] && !allowBlock {
			o.Op = "set"
		}
		switch o.Op {
		case "get":
			if !present {
				s.awaited[o.K] = true
			}
		case "seterror", "set":
			s.m[o.K] = [2]int{}
		case "add", "addorget", "getorset":
			if !present && !(o.Op == "getorset" && s.awaited[o.K]) {
				s.m[o.K] = [2]int{}
			}
		}
		sc.Ops = append(sc.Ops, o)
	}
	return sc
}

// ---------------------------------------------------------------------------------------------
// concurrent histories

type HOp struct {
	G    int   `json:"g"` // goroutine
	Op   Op    `json:"op"`
	Inv  int64 `json:"inv"`
	Resp int64 `json:"resp"`
	Res  Res   `json:"res"`
	ch   <-chan struct{}
}

type ConcCase struct {
	Kind  string   `json:"kind"` // conc
	Nsh   int      `json:"nsh"`
	Hash  []uint64 `json:"hash"`
	Progs [][]Op   `json:"progs"`
	Hist  []HOp    `json:"history,omitempty"`
	Tries int      `json:"tries,omitempty"`
}

var spinSink atomic.Int64

func jitter(r *lib.Rng) {
	switch r.Intn(8) {
	case 0:
		runtime.Gosched()
	case 1:
		time.Sleep(time.Duration(r.Intn(10)) * time.Microsecond)
	case 2, 3, 4:
		for i := r.Intn(60); i > 0; i-- {
			spinSink.Add(1)
		}
	}
}

// runConc runs the programs concurrently on a fresh map and returns the recorded history plus the
// failures of the wake-up checks.
func runConc(cc *ConcCase, seed uint64) (hist []HOp, fails [][2]string) {
	m := cmap.New[int, int](uint64(cc.Nsh), yieldingHasher(cc.Hash))
	var clock atomic.Int64
	var mu sync.Mutex
	record := func(h HOp) {
		mu.Lock()
		hist = append(hist, h)
		mu.Unlock()
	}
	failf := func(class, f string, a ...any) {
		mu.Lock()
		fails = append(fails, [2]string{class, fmt.Sprintf(f, a...)})
		mu.Unlock()
	}
	n := len(cc.Progs)
	parked := make([]atomic.Int64, n) // key+1 the goroutine is blocked on, 0 = not blocked
	done := make([]atomic.Bool, n)
	var arrived atomic.Int64 // spin barrier: the goroutines really start together
	var wg sync.WaitGroup
	cleanups := 0
	do := func(g int, o Op) (HOp, <-chan struct{}) {
		h := HOp{G: g, Op: o, Res: Res{Ch: -1}}
		var ch <-chan struct{}
		h.Inv = clock.Add(1)
		switch o.Op {
		case "add":
			h.Res.B = m.Add(o.K, o.V)
		case "addorget":
			h.Res.V, h.Res.B = m.AddOrGet(o.K, func() int { return o.V })
		case "set":
			m.Set(o.K, o.V)
		case "get":
			h.Res.V = m.Get(o.K)
		case "getorwait", "waitget":
			h.Res.V, ch, h.Res.B = m.GetOrWait(o.K)
		case "contains":
			h.Res.B = m.Contains(o.K)
		case "values":
			h.Res.Vals = append([]int{}, m.Values()...)
		}
		h.Resp = clock.Add(1)
		h.ch = ch
		return h, ch
	}
	for g := 0; g < n; g++ {
		wg.Add(1)
		go func(g int) {
			defer wg.Done()
			defer done[g].Store(true)
			r := lib.NewRng(seed*1000003 + uint64(g))
			arrived.Add(1)
			for i := 0; arrived.Load() < int64(n); i++ {
				if i > 1500000 {
					runtime.Gosched()
				}
			}
			for _, o := range cc.Progs[g] {
				jitter(r)
				h, ch := do(g, o)
				record(h)
				if o.Op == "waitget" && ch != nil {
					parked[g].Store(int64(o.K) + 1)
					<-ch
					parked[g].Store(0)
					// "The caller will need to call Get again after the channel closes": the key must be there
					h2, ch2 := do(g, Op{Op: "getorwait", K: o.K})
					record(h2)
					if ch2 != nil {
						failf("woken-before-added", "goroutine %d was released from the wait channel of key %d but GetOrWait still returns a channel", g, o.K)
					}
				}
			}
		}(g)
	}
	// wait until every goroutine has finished or waits for a key nobody has added
	added := func(k int) bool {
		mu.Lock()
		defer mu.Unlock()
		for _, h := range hist {
			if h.Op.K == k && ((h.Op.Op == "add" && h.Res.B) || h.Op.Op == "set" || (h.Op.Op == "addorget" && h.Res.B)) {
				return true
			}
		}
		return false
	}
	deadline := time.Now().Add(wakeTimeout())
	for iter := 0; ; iter++ {
		quiet := true
		var stuck []int
		for g := 0; g < n; g++ {
			if done[g].Load() {
				continue
			}
			if k := parked[g].Load(); k != 0 {
				stuck = append(stuck, g)
				continue
			}
			quiet = false
		}
		if quiet {
			if len(stuck) == 0 {
				break
			}
			// all the others are finished or parked: a parked goroutine whose key is added must move on
			g := stuck[0]
			k := int(parked[g].Load()) - 1
			if k >= 0 && !added(k) {
				// legitimately waiting: release it by adding the key (recorded as an operation of goroutine n)
				cleanups++
				h, _ := do(n, Op{Op: "set", K: k, V: 9000 + cleanups})
				record(h)
				deadline = time.Now().Add(wakeTimeout())
			}
		}
		if iter%64 == 63 && time.Now().After(deadline) {
			lost()
			for g := 0; g < n; g++ {
				if k := parked[g].Load(); k != 0 && !done[g].Load() {
					failf("wakeup-lost", "goroutine %d waits on the channel of key %d; the key has been added and the goroutine was not released", g, k-1)
				}
			}
			return hist, fails // leaked goroutines stay blocked; the run reports the violation
		}
		runtime.Gosched()
		if iter > 200 {
			time.Sleep(20 * time.Microsecond)
		}
	}
	wg.Wait()
	sort.SliceStable(hist, func(i, j int) bool { return hist[i].Inv < hist[j].Inv })
	// channel identity: one channel per key, and closed at the end iff the key was added
	chanOf := map[int]<-chan struct{}{}
	ids := &chanTable{}
	for i := range hist {
		h := &hist[i]
		if h.ch == nil {
			continue
		}
		h.Res.Ch = ids.id(h.ch)
		if old, ok := chanOf[h.Op.K]; ok && old != h.ch {
			failf("wait-channel-not-shared", "two waiters of key %d got different channels: a waiter can be left behind", h.Op.K)
		}
		chanOf[h.Op.K] = h.ch
	}
	for k, ch := range chanOf {
		for k2, ch2 := range chanOf {
			if k < k2 && ch == ch2 {
				failf("wait-channel-shared-between-keys", "keys %d and %d share a wait channel", k, k2)
			}
		}
		if a, cl := added(k), isClosed(ch); a && !cl {
			failf("wakeup-lost", "key %d has been added, its wait channel is still open", k)
		} else if !a && cl {
			failf("wakeup-spurious", "key %d has never been added, its wait channel is closed", k)
		}
	}
	return hist, fails
}

// ---- linearisability: search for an order accepted by the sequential specification

type linOp struct {
	op        Op
	res       Res
	inv, resp int64
	src       int // index in the history
}

type linState struct {
	m       map[int]int
	awaited map[int]bool
}

func (s *linState) key(keys int) string {
	var b strings.Builder
	for k := 0; k < keys; k++ {
		v, ok := s.m[k]
		fmt.Fprintf(&b, "%v.%d.%v|", ok, v, s.awaited[k])
	}
	return b.String()
}

// apply returns false when the specification does not produce the observed result; undo restores.
func (s *linState) apply(o linOp, hash []uint64, nsh int) (ok bool, undo func()) {
	k := o.op.K
	cur, present := s.m[k]
	wasAwaited := s.awaited[k]
	restore := func() {
		if present {
			s.m[k] = cur
		} else {
			delete(s.m, k)
		}
		if wasAwaited {
			s.awaited[k] = true
		} else {
			delete(s.awaited, k)
		}
	}
	switch o.op.Op {
	case "add":
		if o.res.B != !present {
			return false, nil
		}
		if !present {
			s.m[k] = o.op.V
		}
	case "addorget":
		want := o.op.V
		if present {
			want = cur
		}
		if o.res.B != !present || o.res.V != want {
			return false, nil
		}
		if !present {
			s.m[k] = o.op.V
		}
	case "set":
		s.m[k] = o.op.V
	case "get":
		if o.res.V != cur {
			return false, nil
		}
		if !present {
			s.awaited[k] = true
		}
	case "getorwait", "waitget":
		if present {
			if o.res.V != cur || o.res.Ch != -1 || o.res.B {
				return false, nil
			}
		} else {
			if o.res.V != 0 || o.res.Ch == -1 || o.res.B != !wasAwaited {
				return false, nil
			}
			s.awaited[k] = true
		}
	case "contains":
		if o.res.B != present {
			return false, nil
		}
	case "valuesshard":
		want := []int{}
		for kk, v := range s.m {
			if int(hash[kk]&uint64(nsh-1)) == o.op.K {
				want = append(want, v)
			}
		}
		sort.Ints(want)
		if !eqInts(want, o.res.Vals) {
			return false, nil
		}
		return true, func() {}
	}
	return true, restore
}

// split turns the history into linearisation units: Values() becomes one read per shard.
func split(cc *ConcCase, hist []HOp, valueKey map[int]int) ([]linOp, bool) {
	out := []linOp{}
	for i, h := range hist {
		if h.Op.Op != "values" {
			out = append(out, linOp{op: h.Op, res: h.Res, inv: h.Inv, resp: h.Resp, src: i})
			continue
		}
		per := make([][]int, cc.Nsh)
		for _, v := range h.Res.Vals {
			k, ok := valueKey[v]
			if !ok {
				return nil, false // a value nobody ever wrote
			}
			shard := int(cc.Hash[k] & uint64(cc.Nsh-1))
			per[shard] = append(per[shard], v)
		}
		for sh := 0; sh < cc.Nsh; sh++ {
			sort.Ints(per[sh])
			if per[sh] == nil {
				per[sh] = []int{}
			}
			out = append(out, linOp{op: Op{Op: "valuesshard", K: sh}, res: Res{Ch: -1, Vals: per[sh]}, inv: h.Inv, resp: h.Resp, src: i})
		}
	}
	return out, true
}

func linearise(cc *ConcCase, ops []linOp) ([]linOp, bool) {
	n := len(ops)
	if n > 62 {
		return nil, false
	}
	st := &linState{m: map[int]int{}, awaited: map[int]bool{}}
	seen := map[string]bool{}
	order := []linOp{}
	var rec func(doneMask uint64) bool
	rec = func(doneMask uint64) bool {
		if doneMask == uint64(1)<<n-1 {
			return true
		}
		memo := fmt.Sprintf("%x/%s", doneMask, st.key(len(cc.Hash)))
		if seen[memo] {
			return false
		}
		seen[memo] = true
		minResp := int64(1) << 62
		for i := 0; i < n; i++ {
			if doneMask&(1<<i) == 0 && ops[i].resp < minResp {
				minResp = ops[i].resp
			}
		}
		for i := 0; i < n; i++ {
			if doneMask&(1<<i) != 0 || ops[i].inv > minResp {
				continue
			}
			ok, undo := st.apply(ops[i], cc.Hash, cc.Nsh)
			if !ok {
				continue
			}
			order = append(order, ops[i])
			if rec(doneMask | 1<<i) {
				return true
			}
			order = order[:len(order)-1]
			undo()
		}
		return false
	}
	if rec(0) {
		return order, true
	}
	return nil, false
}

var concOps = []string{"add", "add", "addorget", "set", "get", "getorwait", "contains", "values", "waitget"}

func genConc(r *lib.Rng) *ConcCase {
	nsh := []int{1, 2, 4}[r.Intn(3)]
	nkeys := r.Range(2, 3)
	cc := &ConcCase{Kind: "conc", Nsh: nsh, Hash: genHash(r, nkeys, nsh)}
	ng := r.Range(2, 4)
	val := 0
	for g := 0; g < ng; g++ {
		prog := []Op{}
		for i, n := 0, r.Range(1, 4); i < n; i++ {
			val++
			prog = append(prog, Op{Op: lib.Pick(r, concOps), K: r.Intn(nkeys), V: val})
		}
		cc.Progs = append(cc.Progs, prog)
	}
	return cc
}

func valueKeys(cc *ConcCase, hist []HOp) map[int]int {
	vk := map[int]int{}
	for _, h := range hist {
		if h.Op.Op == "add" || h.Op.Op == "set" || h.Op.Op == "addorget" {
			vk[h.Op.V] = h.Op.K
		}
	}
	return vk
}

// checkConc runs one concurrent case once; returns the linearisation (nil when a failure was reported).
var tRun, tLin time.Duration

func checkConc(c *lib.Ctx, cc *ConcCase, seed uint64) []linOp {
	t0 := time.Now()
	hist, fails := runConc(cc, seed)
	tRun += time.Since(t0)
	defer func(t time.Time) { tLin += time.Since(t) }(time.Now())
	cc.Hist = hist
	c.Oracle()
	for _, f := range fails {
		c.Fail(f[0], f[1], cc)
	}
	if len(fails) > 0 {
		return nil
	}
	ops, ok := split(cc, hist, valueKeys(cc, hist))
	var order []linOp
	if ok {
		order, ok = linearise(cc, ops)
	}
	if !ok {
		c.Fail("not-linearizable", "no order of the operations that respects invocation/response order is a run of a sequential map", cc)
		return nil
	}
	return order
}

func coqLinCase(cc *ConcCase, order []linOp) (string, *SeqCase) {
	sc := &SeqCase{Kind: "seq", Nsh: cc.Nsh, Hash: cc.Hash}
	ren := map[int]int{}
	for _, o := range order {
		op, res := o.op, o.res
		if op.Op == "waitget" {
			op.Op = "getorwait"
		}
		if res.Ch >= 0 {
			if _, ok := ren[res.Ch]; !ok {
				ren[res.Ch] = len(ren)
			}
			res.Ch = ren[res.Ch]
		}
		res.Closed = nil
		sc.Ops = append(sc.Ops, op)
		sc.Res = append(sc.Res, res)
	}
	return coqMapCase(sc, false), sc
}

// ---- stampedes

// stampedeWait: ng goroutines call GetOrWait(k) at the same instant, then one adds k.
func stampedeWait(c *lib.Ctx, r *lib.Rng) {
	ng := r.Range(3, 8)
	nsh := []int{1, 4}[r.Intn(2)]
	m := cmap.New[int, int](uint64(nsh), func(k int) uint64 { return uint64(k) })
	in := map[string]any{"kind": "stampede-getorwait", "goroutines": ng, "nsh": nsh}
	start := make(chan struct{})
	chans := make([]<-chan struct{}, ng)
	firsts := make([]bool, ng)
	woke := make([]atomic.Bool, ng)
	var ready, wg sync.WaitGroup
	for g := 0; g < ng; g++ {
		ready.Add(1)
		wg.Add(1)
		go func(g int) {
			defer wg.Done()
			<-start
			_, ch, first := m.GetOrWait(7)
			chans[g], firsts[g] = ch, first
			ready.Done()
			if ch != nil {
				<-ch
			}
			woke[g].Store(true)
		}(g)
	}
	close(start)
	ready.Wait()
	c.Oracle()
	nfirst := 0
	for g := 0; g < ng; g++ {
		if firsts[g] {
			nfirst++
		}
		if chans[g] == nil || chans[g] != chans[0] {
			c.Fail("wait-channel-not-shared", "goroutines waiting for the same key got different (or no) channels: a waiter can be left behind", in)
			break
		}
	}
	if nfirst != 1 {
		c.Fail("first-waiter-not-unique", fmt.Sprintf("%d of %d simultaneous GetOrWait calls were told they are the first", nfirst, ng), in)
	}
	for i := 0; i < 30; i++ {
		runtime.Gosched()
	}
	for g := 0; g < ng; g++ {
		if woke[g].Load() {
			c.Fail("wakeup-before-added", "a waiter proceeded although the key has not been added", in)
			break
		}
	}
	m.Add(8, 1)  // another key, same shard when nsh == 1 or 4 (8 & 3 == 0 != 7 & 3: different shard), must wake nobody
	m.Set(11, 1) // 11 & 3 == 3 == 7 & 3: same shard
	for i := 0; i < 30; i++ {
		runtime.Gosched()
	}
	for g := 0; g < ng; g++ {
		if woke[g].Load() {
			c.Fail("wakeup-spurious", "adding another key released a waiter", in)
			break
		}
	}
	m.Add(7, 5)
	fin := make(chan struct{})
	go func() { wg.Wait(); close(fin) }()
	select {
	case <-fin:
	case <-time.After(wakeTimeout()):
		lost()
		c.Fail("wakeup-lost", "the key was added and not every waiter was released", in)
	}
}

// stampedeGetOrSet: ng goroutines call ErrMap.GetOrSet(k, f_g) at the same instant.
func stampedeGetOrSet(c *lib.Ctx, r *lib.Rng) {
	ng := r.Range(3, 8)
	withErr := r.Chance(1, 4)
	lim := &countingLimiter{}
	m := cmap.NewErrMap[int, int](4, func(k int) uint64 { return uint64(k) }, lim)
	in := map[string]any{"kind": "stampede-getorset", "goroutines": ng, "f_returns_error": withErr}
	start := make(chan struct{})
	var calls atomic.Int64
	vals := make([]int, ng)
	errs := make([]error, ng)
	var wg sync.WaitGroup
	for g := 0; g < ng; g++ {
		wg.Add(1)
		rr := r.Fork()
		go func(g int) {
			defer wg.Done()
			<-start
			jitter(rr)
			vals[g], errs[g] = m.GetOrSet(3, func() (int, error) {
				calls.Add(1)
				jitter(rr)
				if withErr {
					return 0, errTable[1]
				}
				return 100 + g, nil
			})
		}(g)
	}
	close(start)
	fin := make(chan struct{})
	go func() { wg.Wait(); close(fin) }()
	c.Oracle()
	select {
	case <-fin:
	case <-time.After(wakeTimeout()):
		lost()
		c.Fail("wakeup-lost", "GetOrSet: the first caller has set the key and not every waiting caller returned", in)
		return
	}
	if n := calls.Load(); n != 1 {
		c.Fail("getorset-f-not-once", fmt.Sprintf("the function given to GetOrSet ran %d times for one key", n), in)
	}
	for g := 1; g < ng; g++ {
		if vals[g] != vals[0] || errs[g] != errs[0] {
			c.Fail("getorset-results-differ", fmt.Sprintf("callers of GetOrSet for one key got different results: (%d,%v) and (%d,%v)", vals[0], errs[0], vals[g], errs[g]), in)
			break
		}
	}
	if a, rl := lim.acquired.Load(), lim.released.Load(); a != rl {
		c.Fail("limiter-unbalanced", fmt.Sprintf("GetOrSet released the limiter %d times and re-acquired it %d times", rl, a), in)
	}
}

// the corpus test of the fixed defect, on the production configuration (string keys, XXHash)
func corpusContains(c *lib.Ctx) {
	m := cmap.New[string, int](cmap.SmallShardCount, cmap.XXHash)
	in := map[string]any{"kind": "corpus", "file": "corpus/C15/contains_after_get_test.go.txt"}
	c.Oracle()
	a := m.Contains("k")
	m.Get("k")
	b := m.Contains("k")
	vals := len(m.Values())
	m.Add("k", 1)
	d := m.Contains("k")
	if a || vals != 0 || !d {
		c.Fail("seq-contains-differs-from-map", fmt.Sprintf("fresh map: Contains=%v, Values has %d entries, Contains after Add=%v", a, vals, d), in)
	}
	if b {
		c.Fail("contains-reports-awaited-key", "fresh map: Get(k) then Contains(k) is true although k was never added", in)
	}
}

// ---------------------------------------------------------------------------------------------

type replayInput struct {
	Kind  string   `json:"kind"`
	Nsh   int      `json:"nsh"`
	Hash  []uint64 `json:"hash"`
	Ops   []Op     `json:"ops"`
	Progs [][]Op   `json:"progs"`
}

func doSeq(c *lib.Ctx, sc *SeqCase) {
	runSeq(sc)
	oracleSeq(c, sc)
	nt := len(sc.Ops) >= 2
	c.Case(coqMapCase(sc, true), sc, fmt.Sprint("s", sc.Nsh, sc.Hash, sc.Ops), nt)
	c.HistN("seq_ops", len(sc.Ops))
	c.HistN("seq_shards", sc.Nsh)
}

func doErrSeq(c *lib.Ctx, sc *SeqCase) {
	runErrSeq(c, sc)
	oracleErrSeq(c, sc)
	blocked := 0
	for _, r := range sc.Res {
		if r.Blocked {
			blocked++
		}
	}
	c.Case(coqErrCase(sc), sc, fmt.Sprint("e", sc.Nsh, sc.Hash, sc.Ops), len(sc.Ops) >= 2)
	c.HistN("errseq_ops", len(sc.Ops))
	c.HistN("errseq_blocked_getorset", blocked)
}

func main() {
	lib.Main("C15", func(c *lib.Ctx) {
		c.Model("From PlzV Require Import Model.C15.", "C15.case", "C15.check")
		c.Rule("seq: random lists of 1-12 operations (Add AddOrGet Set Get GetOrWait Contains Values) over 1-4 keys on Map[int,int] with 1, 2 or 4 shards, " +
			"keys hashed into one shard, into different shards or at random, plus fixed lists around waiter placeholders; every result, channel identity and the closed state of every channel after every step are compared with the model. " +
			"errseq: lists of 1-9 operations on ErrMap (Add AddOrGet Set SetError Get GetOrSet, f sometimes returning an error; a GetOrSet that waits is observed as blocked). " +
			"conc: 2-4 goroutines x 1-4 operations (also GetOrWait-then-wait-then-Get) over 2-3 keys with unique values, random yields/sleeps, invocation/response order recorded; " +
			"oracle = search for a linearisation accepted by a Go sequential map + awaited set (Values: one read per shard), one channel per key, waiter released iff key added; the linearisation is replayed through the Coq model and specification. " +
			"stampede: 3-8 goroutines GetOrWait / ErrMap.GetOrSet the same key at the same instant. distinct = distinct inputs; non-trivial = at least 2 operations (seq) / at least 2 goroutines touching one key (conc)")

		var rp replayInput
		if c.ReadReplay(&rp) && rp.Kind != "" {
			switch rp.Kind {
			case "seq":
				doSeq(c, &SeqCase{Kind: "seq", Nsh: rp.Nsh, Hash: rp.Hash, Ops: rp.Ops})
			case "errseq":
				doErrSeq(c, &SeqCase{Kind: "errseq", Nsh: rp.Nsh, Hash: rp.Hash, Ops: rp.Ops})
			case "conc":
				for i := 0; i < 3000; i++ {
					cc := &ConcCase{Kind: "conc", Nsh: rp.Nsh, Hash: rp.Hash, Progs: rp.Progs, Tries: i + 1}
					if checkConc(c, cc, uint64(i)) == nil {
						break
					}
				}
			case "corpus":
				corpusContains(c)
			default:
				for i := 0; i < 3000; i++ {
					stampedeWait(c, c.Rng.Fork())
					stampedeGetOrSet(c, c.Rng.Fork())
				}
			}
			return
		}

		// 1. sequential Map
		corpusContains(c)
		for _, sc := range adversarialSeq() {
			doSeq(c, sc)
		}
		for i, n := 0, c.Scale(450, 12000); i < n; i++ {
			doSeq(c, genSeq(c.Rng.Fork()))
		}
		// 2. sequential ErrMap (a few with waiting GetOrSet calls: each costs blockGrace)
		doErrSeq(c, &SeqCase{Kind: "errseq", Nsh: 4, Hash: []uint64{0, 1}, Ops: []Op{{Op: "get", K: 0}, {Op: "getorset", K: 0, V: 3}}})
		doErrSeq(c, &SeqCase{Kind: "errseq", Nsh: 1, Hash: []uint64{0, 1}, Ops: []Op{{Op: "getorset", K: 0, V: 3, E: 2}, {Op: "getorset", K: 0, V: 4}, {Op: "get", K: 0}, {Op: "seterror", K: 1, E: 1}, {Op: "getorset", K: 1, V: 2}}})
		nblock := c.Scale(25, 300)
		for i, n := 0, c.Scale(200, 6000); i < n; i++ {
			doErrSeq(c, genErrSeq(c.Rng.Fork(), i < nblock))
		}
		t1 := time.Now()
		// 3. concurrent histories
		nconc, nlin := c.Scale(1500, 60000), c.Scale(140, 6000)
		emitted := 0
		for i := 0; i < nconc && lostWaits.Load() < 20; i++ {
			r := c.Rng.Fork()
			cc := genConc(r)
			order := checkConc(c, cc, r.U64())
			touched := map[int]int{}
			for _, p := range cc.Progs {
				seen := map[int]bool{}
				for _, o := range p {
					if o.Op != "values" && !seen[o.K] {
						seen[o.K] = true
						touched[o.K]++
					}
				}
			}
			shared := false
			for _, n := range touched {
				shared = shared || n >= 2
			}
			c.HistN("conc_goroutines", len(cc.Progs))
			c.HistN("conc_history_ops", len(cc.Hist))
			overlap := 0
			for a := range cc.Hist {
				for b := range cc.Hist {
					if a < b && cc.Hist[a].G != cc.Hist[b].G && cc.Hist[a].Inv < cc.Hist[b].Resp && cc.Hist[b].Inv < cc.Hist[a].Resp {
						overlap++
					}
				}
			}
			c.Hist("conc_overlapping_pairs", bucket(overlap))
			key := fmt.Sprint("c", cc.Nsh, cc.Hash, cc.Progs)
			if order != nil && emitted < nlin && shared {
				term, sc := coqLinCase(cc, order)
				c.Case(term, map[string]any{"kind": "seq", "from": "linearisation of a concurrent history", "nsh": sc.Nsh, "hash": sc.Hash, "ops": sc.Ops, "results": sc.Res, "progs": cc.Progs}, key, shared)
				emitted++
			} else {
				c.Eval(cc, key, shared)
			}
		}
		t2 := time.Now()
		// 4. stampedes
		for i, n := 0, c.Scale(1500, 30000); i < n && lostWaits.Load() < 30; i++ {
			stampedeWait(c, c.Rng.Fork())
			stampedeGetOrSet(c, c.Rng.Fork())
		}
		c.Note("wall: concurrent histories %s, stampedes %s", t2.Sub(t1).Round(time.Millisecond), time.Since(t2).Round(time.Millisecond))
		if n := lostWaits.Load(); n > 0 {
			c.Note("%d waiters were never released; the concurrent streams were cut short after 20/30 of them", n)
		}
		c.Note("GOMAXPROCS=%d; blockGrace=%s; linearisations replayed through the Coq model and specification: %d", runtime.GOMAXPROCS(0), blockGrace, emitted)
	})
}

func bucket(n int) string {
	switch {
	case n == 0:
		return "0"
	case n <= 2:
		return "1-2"
	case n <= 5:
		return "3-5"
	default:
		return "6+"
	}
}
