// C08: any change to a build-relevant attribute changes the rule hash.
// Implementation side of the correspondence (real build.RuleHash on real core.BuildTarget values, tied to the regenerated
// emit program through SHA-1 of the interpreted stream) and the property oracle (pairs of real targets that differ in one
// attribute of the definition must have different real hashes).
package main

import (
	"bytes"
	"encoding/hex"
	"fmt"
	"os"
	"path/filepath"
	"sort"
	"strings"

	"verifharness/cmd/c08/rh"
	"verifharness/lib"
)

// ------------------------------------------------------------------------------------------- generators

var words = []string{"a", "b", "c", "ab", "bc", "abc", "ba", "a=b", "=", "b=", "=c", "a=", "x", "xy", "y", "", "a b",
	"\x02", "\x01", "a\x02", "//p:a", ":", "b=c", "1", "12", "2"}
var pkgs = []string{"p", "p/q", "q", "", "pq"}
var names = []string{"a", "b", "ab", "t", "lib", "a_b"}
var cfgs = []string{"opt", "dbg", "cover", "", "o"}

func word(r *lib.Rng, nonEmpty bool) string {
	for {
		w := lib.Pick(r, words)
		if r.Chance(1, 6) {
			w += lib.Pick(r, words)
		}
		if w != "" || !nonEmpty {
			return w
		}
	}
}

func wordList(r *lib.Rng, maxLen int, nonEmpty bool) []string {
	n := r.Intn(maxLen + 1)
	out := []string{}
	for i := 0; i < n; i++ {
		out = append(out, word(r, nonEmpty))
	}
	return out
}

func label(r *lib.Rng) rh.Label {
	l := rh.Label{Pkg: lib.Pick(r, pkgs), Name: lib.Pick(r, names)}
	if r.Chance(1, 6) {
		l.Sub = lib.Pick(r, []string{"s", "sub"})
	}
	return l
}

func visLabel(r *lib.Rng) rh.Label {
	l := label(r)
	switch r.Intn(4) {
	case 0:
		l.Name = "..."
	case 1:
		l.Name = "all"
	}
	return l
}

func labelList(r *lib.Rng, maxLen int, gen func(*lib.Rng) rh.Label) []rh.Label {
	n := r.Intn(maxLen + 1)
	out := []rh.Label{}
	for i := 0; i < n; i++ {
		out = append(out, gen(r))
	}
	return out
}

func input(r *lib.Rng, tool bool) rh.Input {
	switch r.Intn(6) {
	case 0:
		return rh.Input{Kind: "label", L: label(r)}
	case 1:
		return rh.Input{Kind: "ann", L: label(r), Ann: lib.Pick(r, []string{"", "out", "a"})}
	case 2:
		return rh.Input{Kind: "sys", File: "/usr/bin/" + word(r, true)}
	case 3:
		if tool {
			return rh.Input{Kind: "path", File: word(r, true)}
		}
	}
	return rh.Input{Kind: "file", File: word(r, false)}
}

func inputList(r *lib.Rng, maxLen int, tool bool) []rh.Input {
	n := r.Intn(maxLen + 1)
	out := []rh.Input{}
	for i := 0; i < n; i++ {
		out = append(out, input(r, tool))
	}
	return out
}

func keyList(r *lib.Rng, maxLen int) []string {
	n := r.Intn(maxLen + 1)
	seen, out := map[string]bool{}, []string{}
	for i := 0; i < n; i++ {
		k := word(r, false)
		if !seen[k] {
			seen[k] = true
			out = append(out, k)
		}
	}
	return out
}

func kvList(r *lib.Rng, maxLen int, keys []string) []rh.KV {
	out := []rh.KV{}
	if keys == nil {
		keys = keyList(r, maxLen)
	}
	for _, k := range keys {
		out = append(out, rh.KV{K: k, V: word(r, false)})
	}
	return out
}

func groupList(r *lib.Rng, maxLen int, nonEmpty bool) []rh.Group {
	out := []rh.Group{}
	for _, k := range keyList(r, maxLen) {
		g := rh.Group{Key: k, Vals: wordList(r, 3, nonEmpty)}
		if len(g.Vals) == 0 {
			g.Vals = []string{word(r, true)}
		}
		out = append(out, g)
	}
	return out
}

func igroupList(r *lib.Rng, maxLen int, tool bool) []rh.IGroup {
	out := []rh.IGroup{}
	for _, k := range keyList(r, maxLen) {
		g := rh.IGroup{Key: k, Vals: inputList(r, 3, tool)}
		if len(g.Vals) == 0 && tool {
			g.Vals = []rh.Input{input(r, tool)}
		}
		out = append(out, g)
	}
	return out
}

// genSpec: a random recipe. Every attribute is present with probability p/8.
func genSpec(r *lib.Rng, p int) *rh.Spec {
	sp := &rh.Spec{Label: label(r), Config: lib.Pick(r, cfgs), FallbackConfig: lib.Pick(r, cfgs)}
	sp.Label.Name = "target_" + sp.Label.Name // never equal to a generated dependency (AddDependency on itself is fatal)
	on := func() bool { return r.Chance(p, 8) }
	if on() {
		sp.Deps = labelList(r, 3, label)
	}
	sp.DepsFirst = r.Bool()
	if on() {
		sp.Visibility = labelList(r, 2, visLabel)
	}
	if on() {
		sp.Hashes = wordList(r, 2, false)
	}
	if on() {
		sp.Srcs = inputList(r, 3, false)
	}
	if on() {
		sp.NamedSrcs = igroupList(r, 3, false)
	}
	if on() {
		sp.Outs = wordList(r, 3, true)
	}
	if on() {
		sp.NamedOuts = groupList(r, 3, true)
	}
	if on() {
		sp.Licences = wordList(r, 2, false)
	}
	if on() {
		sp.OptionalOuts = wordList(r, 3, true)
	}
	if on() {
		sp.Labels = wordList(r, 3, false)
	}
	if on() {
		sp.Secrets = wordList(r, 3, false)
	}
	if on() {
		sp.NamedSecrets = groupList(r, 2, false)
	}
	sp.Binary, sp.Subrepo, sp.Sandbox = r.Bool(), r.Chance(1, 4), r.Bool()
	if r.Chance(1, 3) {
		sp.HasCommands = true
		keys := []string{}
		for _, c := range cfgs {
			if r.Bool() {
				keys = append(keys, c)
			}
		}
		lib.Shuffle(r, keys)
		sp.Commands = kvList(r, 0, keys)
		if r.Chance(1, 8) {
			sp.Command = word(r, false) // not reachable through AddCommand, but through the public fields
		}
	} else {
		sp.Command = word(r, false)
	}
	sp.NeedsTransitive, sp.OutputIsComplete, sp.Stamp = r.Bool(), r.Bool(), r.Bool()
	sp.Filegroup, sp.TextFile, sp.RemoteFile = r.Chance(1, 5), r.Chance(1, 5), r.Chance(1, 5)
	sp.Local, sp.SrcListFiles, sp.ExitOnError = r.Bool(), r.Bool(), r.Bool()
	if on() {
		sp.Requires = wordList(r, 2, false)
	}
	if on() {
		for _, k := range keyList(r, 3) {
			sp.Provides = append(sp.Provides, rh.LGroup{Key: k, Vals: labelList(r, 2, label)})
		}
	}
	sp.PreBuild, sp.PostBuild = r.Chance(1, 4), r.Chance(1, 4)
	if on() {
		sp.HasPassEnv = true
		for i, n := 0, r.Intn(4); i < n; i++ {
			if r.Chance(1, 6) {
				sp.PassEnv = append(sp.PassEnv, lib.Pick(r, []string{"VERIF_A=", "VERIF_UNSET", "", "="}))
			} else {
				sp.PassEnv = append(sp.PassEnv, lib.Pick(r, rh.EnvPool))
			}
		}
	}
	for _, n := range rh.EnvPool {
		if r.Bool() {
			sp.Environ = append(sp.Environ, rh.KV{K: n, V: lib.Pick(r, []string{"", "1", "x", "VERIF_B=", "=1", "1VERIF_B=2", "2"})})
		}
	}
	if on() {
		sp.OutputDirs = wordList(r, 2, false)
	}
	if on() {
		sp.EntryPoints = kvList(r, 3, nil)
	}
	if on() {
		sp.Env = kvList(r, 3, nil)
	}
	if on() {
		sp.FileContent = word(r, false) + lib.Pick(r, []string{"", "\n", "content"})
	}
	if on() {
		sp.Data = inputList(r, 2, false)
	}
	if on() {
		sp.NamedData = igroupList(r, 2, true)
	}
	if r.Chance(1, 2) {
		sp.IsTest = true
		sp.TestOutputs = wordList(r, 2, true)
		sp.TestSandbox = r.Bool()
		sp.TestArgs = word(r, false)
		if r.Chance(1, 3) {
			sp.HasTestCommands = true
			sp.TestCommands = kvList(r, 0, []string{lib.Pick(r, cfgs)})
		} else {
			sp.TestCommand = word(r, false)
		}
	}
	if on() {
		sp.Tools = inputList(r, 3, true)
	}
	if on() {
		sp.NamedTools = igroupList(r, 2, true)
	}
	return sp
}

// ------------------------------------------------------------------------------------------- mutations

func clone(l []string) []string { return append([]string{}, l...) }

func mutStr(r *lib.Rng, x string) string {
	switch r.Intn(4) {
	case 0:
		return x + word(r, true)
	case 1:
		return word(r, true) + x
	case 2:
		if len(x) > 0 {
			return x[1:]
		}
	}
	return word(r, true) + "!" + x
}

// mutList: one edit of a list of strings, biased towards edits that keep the concatenation unchanged.
func mutList(r *lib.Rng, l []string, nonEmpty bool) []string {
	l = clone(l)
	for try := 0; try < 8; try++ {
		switch r.Intn(9) {
		case 0: // move a byte across an entry boundary
			if len(l) >= 2 {
				i := r.Intn(len(l) - 1)
				if r.Bool() && len(l[i]) > 0 && !(nonEmpty && len(l[i]) == 1) {
					l[i+1] = l[i][len(l[i])-1:] + l[i+1]
					l[i] = l[i][:len(l[i])-1]
					return l
				} else if len(l[i+1]) > 0 && !(nonEmpty && len(l[i+1]) == 1) {
					l[i] += l[i+1][:1]
					l[i+1] = l[i+1][1:]
					return l
				}
			}
		case 1: // merge two neighbours
			if len(l) >= 2 {
				i := r.Intn(len(l) - 1)
				l[i] += l[i+1]
				return append(l[:i+1], l[i+2:]...)
			}
		case 2: // split one entry
			if len(l) >= 1 {
				i := r.Intn(len(l))
				if len(l[i]) >= 2 {
					k := r.Range(1, len(l[i])-1)
					return append(append(clone(l[:i]), l[i][:k], l[i][k:]), l[i+1:]...)
				}
			}
		case 3: // an empty entry
			if !nonEmpty {
				i := r.Intn(len(l) + 1)
				return append(append(clone(l[:i]), ""), l[i:]...)
			}
		case 4: // edit in place
			if len(l) >= 1 {
				i := r.Intn(len(l))
				l[i] = word(r, true)
				return l
			}
		case 5:
			return append(l, word(r, nonEmpty))
		case 6:
			if len(l) >= 1 {
				i := r.Intn(len(l))
				return append(l[:i], l[i+1:]...)
			}
		case 7:
			if len(l) >= 2 {
				i, j := r.Intn(len(l)), r.Intn(len(l))
				l[i], l[j] = l[j], l[i]
				return l
			}
		case 8: // append a suffix to an entry
			if len(l) >= 1 {
				i := r.Intn(len(l))
				l[i] += word(r, true)
				return l
			}
		}
	}
	return append(l, word(r, true))
}

func mutMap(r *lib.Rng, m []rh.KV) []rh.KV {
	m = append([]rh.KV{}, m...)
	for try := 0; try < 8; try++ {
		switch r.Intn(8) {
		case 0: // move the key/value boundary over an `=`
			if len(m) >= 1 {
				i := r.Intn(len(m))
				if k := strings.Index(m[i].V, "="); k >= 0 {
					m[i] = rh.KV{K: m[i].K + "=" + m[i].V[:k], V: m[i].V[k+1:]}
					return m
				} else if k := strings.LastIndex(m[i].K, "="); k >= 0 {
					m[i] = rh.KV{K: m[i].K[:k], V: m[i].K[k+1:] + "=" + m[i].V}
					return m
				}
			}
		case 1: // fold the next entry (in key order) into the value of this one
			if len(m) >= 2 {
				s := append([]rh.KV{}, m...)
				sort.Slice(s, func(i, j int) bool { return s[i].K < s[j].K })
				i := r.Intn(len(s) - 1)
				s[i].V += s[i+1].K + "=" + s[i+1].V
				return append(s[:i+1], s[i+2:]...)
			}
		case 2: // the inverse: split a value at an embedded `key=`
			if out, ok := splitValue(m); ok {
				return out
			}
		case 3:
			if len(m) >= 1 {
				i := r.Intn(len(m))
				m[i].V = word(r, false)
				return m
			}
		case 4:
			return append(m, rh.KV{K: word(r, false) + "z", V: word(r, false)})
		case 5:
			if len(m) >= 1 {
				i := r.Intn(len(m))
				return append(m[:i], m[i+1:]...)
			}
		case 6:
			if len(m) >= 1 {
				i := r.Intn(len(m))
				m[i].K += word(r, true)
				return m
			}
		case 7: // move one byte between the end of a key and the start of its value
			if len(m) >= 1 {
				i := r.Intn(len(m))
				if len(m[i].V) > 0 && r.Bool() {
					m[i] = rh.KV{K: m[i].K + m[i].V[:1], V: m[i].V[1:]}
					return m
				} else if len(m[i].K) > 0 {
					m[i] = rh.KV{K: m[i].K[:len(m[i].K)-1], V: m[i].K[len(m[i].K)-1:] + m[i].V}
					return m
				}
			}
		}
	}
	return append(m, rh.KV{K: "zz", V: word(r, false)})
}

// splitValue implements mutation 2 of mutMap properly (kept separate for clarity): {k: "v1k2=v2"} -> {k: "v1", k2: "v2"}.
func splitValue(m []rh.KV) ([]rh.KV, bool) {
	for i := range m {
		if k := strings.Index(m[i].V, "="); k > 0 {
			out := append([]rh.KV{}, m...)
			out[i].V = m[i].V[:k-1]
			out = append(out, rh.KV{K: m[i].V[k-1 : k], V: m[i].V[k+1:]})
			return out, true
		}
	}
	return m, false
}

func mutGroups(r *lib.Rng, gs []rh.Group, nonEmpty bool) []rh.Group {
	out := []rh.Group{}
	for _, g := range gs {
		out = append(out, rh.Group{Key: g.Key, Vals: clone(g.Vals)})
	}
	for try := 0; try < 8; try++ {
		switch r.Intn(6) {
		case 0: // fold the next group (in key order) into this one: its name becomes an entry
			if len(out) >= 2 {
				sort.Slice(out, func(i, j int) bool { return out[i].Key < out[j].Key })
				i := r.Intn(len(out) - 1)
				if out[i+1].Key != "" || !nonEmpty {
					out[i].Vals = append(append(out[i].Vals, out[i+1].Key), out[i+1].Vals...)
					return append(out[:i+1], out[i+2:]...)
				}
			}
		case 1: // rename a group
			if len(out) >= 1 {
				i := r.Intn(len(out))
				out[i].Key += word(r, true)
				return out
			}
		case 2: // move the last entry of a group to the front of the next one
			if len(out) >= 2 {
				sort.Slice(out, func(i, j int) bool { return out[i].Key < out[j].Key })
				i := r.Intn(len(out) - 1)
				if n := len(out[i].Vals); n >= 2 {
					out[i+1].Vals = append([]string{out[i].Vals[n-1]}, out[i+1].Vals...)
					out[i].Vals = out[i].Vals[:n-1]
					return out
				}
			}
		case 3:
			if len(out) >= 1 {
				i := r.Intn(len(out))
				out[i].Vals = mutList(r, out[i].Vals, nonEmpty)
				if len(out[i].Vals) > 0 {
					return out
				}
				out[i].Vals = []string{word(r, true)}
				return out
			}
		case 4: // move a byte between a group's name and its first entry
			if len(out) >= 1 {
				i := r.Intn(len(out))
				if len(out[i].Vals) > 0 && len(out[i].Vals[0]) >= 2 {
					out[i].Key += out[i].Vals[0][:1]
					out[i].Vals[0] = out[i].Vals[0][1:]
					return out
				}
			}
		case 5:
			return append(out, rh.Group{Key: word(r, false) + "z", Vals: []string{word(r, true)}})
		}
	}
	return append(out, rh.Group{Key: "zz", Vals: []string{word(r, true)}})
}

func fileInputs(l []string) []rh.Input {
	out := []rh.Input{}
	for _, x := range l {
		out = append(out, rh.Input{Kind: "file", File: x})
	}
	return out
}
func inputFiles(l []rh.Input) []string {
	out := []string{}
	for _, x := range l {
		out = append(out, x.Core().String())
	}
	return out
}
func toIGroups(gs []rh.Group) []rh.IGroup {
	out := []rh.IGroup{}
	for _, g := range gs {
		out = append(out, rh.IGroup{Key: g.Key, Vals: fileInputs(g.Vals)})
	}
	return out
}
func fromIGroups(gs []rh.IGroup) []rh.Group {
	out := []rh.Group{}
	for _, g := range gs {
		out = append(out, rh.Group{Key: g.Key, Vals: inputFiles(g.Vals)})
	}
	return out
}

func labelOfBytes(x string) rh.Label { return rh.Label{Pkg: "p", Name: x} }

// the attributes of C08's statement, each with a mutation of the recipe
type attr struct {
	name    string
	mutate  func(r *lib.Rng, sp *rh.Spec)
	prepare func(r *lib.Rng, sp *rh.Spec) // optional: applied to the base recipe before it is cloned
}

var attrs = []attr{
	{name: "command", mutate: func(r *lib.Rng, sp *rh.Spec) {
		if sp.HasCommands {
			if len(sp.Commands) == 0 || r.Chance(1, 4) {
				sp.Commands = append(sp.Commands, rh.KV{K: lib.Pick(r, cfgs) + "x", V: word(r, false)})
			} else {
				sp.Commands[r.Intn(len(sp.Commands))].V += word(r, true)
			}
		} else {
			sp.Command = mutStr(r, sp.Command)
		}
	}},
	{name: "srcs", mutate: func(r *lib.Rng, sp *rh.Spec) {
		// keep label sources, mutate the file names
		sp.Srcs = fileInputs(mutList(r, inputFiles(sp.Srcs), false))
	}},
	{name: "named_srcs", mutate: func(r *lib.Rng, sp *rh.Spec) {
		sp.NamedSrcs = toIGroups(mutGroups(r, fromIGroups(sp.NamedSrcs), false))
	}},
	// srcs changes that keep the SET of depended-on targets: order of label sources, |annotation, a label that already is a dependency (store.go)
	{name: "srcs_labels", mutate: mutateSrcLabels, prepare: prepareSrcLabels},
	{name: "outs", mutate: func(r *lib.Rng, sp *rh.Spec) { sp.Outs = mutList(r, sp.Outs, true) }},
	{name: "named_outs", mutate: func(r *lib.Rng, sp *rh.Spec) { sp.NamedOuts = mutGroups(r, sp.NamedOuts, true) }},
	{name: "optional_outs", mutate: func(r *lib.Rng, sp *rh.Spec) { sp.OptionalOuts = mutList(r, sp.OptionalOuts, true) }},
	{name: "deps", mutate: func(r *lib.Rng, sp *rh.Spec) {
		switch r.Intn(4) {
		case 0: // two dependencies whose strings concatenate to the string of one
			sp.Deps = append(sp.Deps, rh.Label{Pkg: "z", Name: "a//z:b"})
		case 1:
			sp.Deps = append(sp.Deps, rh.Label{Pkg: "z", Name: "a"}, rh.Label{Pkg: "z", Name: "b"})
		case 2:
			if len(sp.Deps) > 0 {
				sp.Deps = sp.Deps[1:]
				return
			}
			fallthrough
		default:
			sp.Deps = append(sp.Deps, rh.Label{Pkg: lib.Pick(r, pkgs), Name: lib.Pick(r, names) + "_d"})
		}
	}},
	{name: "tools", mutate: func(r *lib.Rng, sp *rh.Spec) {
		switch r.Intn(5) {
		case 0:
			sp.Tools = append(sp.Tools, rh.Input{Kind: "sys", File: "/usr/bin/" + word(r, true)})
		case 1:
			sp.Tools = append(sp.Tools, rh.Input{Kind: "label", L: rh.Label{Pkg: "tools", Name: word(r, true)}})
		case 2: // an unnamed tool becomes a named one ($TOOL -> $TOOLS_X)
			if len(sp.Tools) > 0 {
				sp.NamedTools = append(sp.NamedTools, rh.IGroup{Key: "moved", Vals: []rh.Input{sp.Tools[0]}})
				sp.Tools = sp.Tools[1:]
				return
			}
			fallthrough
		case 3:
			if len(sp.NamedTools) > 0 {
				sp.NamedTools[0].Key += "x"
				return
			}
			fallthrough
		default:
			sp.Tools = append(sp.Tools, rh.Input{Kind: "path", File: word(r, true)})
		}
	}},
	{name: "env", mutate: func(r *lib.Rng, sp *rh.Spec) { sp.Env = mutMap(r, sp.Env) }},
	{name: "pass_env", mutate: func(r *lib.Rng, sp *rh.Spec) {
		// change the VALUES of passed variables
		sp.HasPassEnv = true
		if len(sp.PassEnv) == 0 {
			sp.PassEnv = []string{"VERIF_A", "VERIF_B"}
		}
		switch r.Intn(3) {
		case 0: // A="" B="xB=" -> A="B=x" B="" style shift between two neighbouring values
			sp.PassEnv = []string{"VERIF_A", "VERIF_B"}
			x := word(r, true)
			if strings.ContainsAny(x, "\x00") {
				x = "x"
			}
			sp.Environ = []rh.KV{{K: "VERIF_A", V: "VERIF_B=" + x}, {K: "VERIF_B", V: ""}}
		case 1:
			sp.PassEnv = []string{"VERIF_A", "VERIF_B"}
			sp.Environ = []rh.KV{{K: "VERIF_A", V: ""}, {K: "VERIF_B", V: word(r, true) + "VERIF_B="}}
		default:
			n := lib.Pick(r, rh.EnvPool)
			out := []rh.KV{}
			for _, kv := range sp.Environ {
				if kv.K != n {
					out = append(out, kv)
				}
			}
			sp.Environ = append(out, rh.KV{K: n, V: word(r, false) + "q"})
		}
	}},
	{name: "labels", mutate: func(r *lib.Rng, sp *rh.Spec) { sp.Labels = mutList(r, sp.Labels, false) }},
	{name: "secrets", mutate: func(r *lib.Rng, sp *rh.Spec) { sp.Secrets = mutList(r, sp.Secrets, false) }},
	{name: "named_secrets", mutate: func(r *lib.Rng, sp *rh.Spec) { sp.NamedSecrets = mutGroups(r, sp.NamedSecrets, false) }},
	{name: "binary", mutate: func(r *lib.Rng, sp *rh.Spec) { sp.Binary = !sp.Binary }},
	{name: "sandbox", mutate: func(r *lib.Rng, sp *rh.Spec) { sp.Sandbox = !sp.Sandbox }},
	{name: "output_dirs", mutate: func(r *lib.Rng, sp *rh.Spec) { sp.OutputDirs = mutList(r, sp.OutputDirs, false) }},
	{name: "entry_points", mutate: func(r *lib.Rng, sp *rh.Spec) { sp.EntryPoints = mutMap(r, sp.EntryPoints) }},
	{name: "file_content", mutate: func(r *lib.Rng, sp *rh.Spec) { sp.FileContent = mutStr(r, sp.FileContent) }},
	{name: "requires", mutate: func(r *lib.Rng, sp *rh.Spec) { sp.Requires = mutList(r, sp.Requires, false) }},
	{name: "provides", mutate: func(r *lib.Rng, sp *rh.Spec) {
		gs := []rh.Group{}
		for _, g := range sp.Provides {
			x := rh.Group{Key: g.Key}
			for _, l := range g.Vals {
				x.Vals = append(x.Vals, l.Name)
			}
			gs = append(gs, x)
		}
		gs = mutGroups(r, gs, false)
		sp.Provides = nil
		for _, g := range gs {
			x := rh.LGroup{Key: g.Key}
			for _, n := range g.Vals {
				x.Vals = append(x.Vals, labelOfBytes(n))
			}
			sp.Provides = append(sp.Provides, x)
		}
	}},
}

// ------------------------------------------------------------------------------------------- classification

func join(l []string) string { return strings.Join(l, "") }

func sortedGroups(gs []rh.Group) []rh.Group {
	out := append([]rh.Group{}, gs...)
	sort.SliceStable(out, func(i, j int) bool { return out[i].Key < out[j].Key })
	return out
}
func groupToks(gs []rh.Group, withNames bool) []string {
	out := []string{}
	for _, g := range sortedGroups(gs) {
		if withNames {
			out = append(out, g.Key)
		}
		out = append(out, g.Vals...)
	}
	return out
}
func mapToks(m []rh.KV) []string {
	s := append([]rh.KV{}, m...)
	sort.SliceStable(s, func(i, j int) bool { return s[i].K < s[j].K })
	out := []string{}
	for _, kv := range s {
		out = append(out, kv.K+"="+kv.V)
	}
	return out
}
func depToks(ls []rh.Label) []string {
	s := append([]rh.Label{}, ls...)
	sort.SliceStable(s, func(i, j int) bool {
		a, b := s[i], s[j]
		if a.Sub != b.Sub {
			return a.Sub < b.Sub
		} else if a.Pkg != b.Pkg {
			return a.Pkg < b.Pkg
		}
		return a.Name < b.Name
	})
	out := []string{}
	for _, l := range s {
		out = append(out, rh.LabelString(l))
	}
	return out
}
func passEnvToks(t *rh.T) []string {
	out := []string{}
	if !t.HasPassEnv {
		return out
	}
	for _, n := range t.PassEnv {
		v := ""
		for _, kv := range t.Environ {
			if kv.K == n {
				v = kv.V
			}
		}
		out = append(out, n+"="+v)
	}
	return out
}
func providesToks(t *rh.T) []string {
	gs := []rh.Group{}
	for _, g := range t.Provides {
		x := rh.Group{Key: g.Key}
		for _, l := range g.Vals {
			x.Vals = append(x.Vals, rh.LabelString(l))
		}
		gs = append(gs, x)
	}
	return groupToks(gs, true)
}
func effectiveCommand(t *rh.T) string {
	return rh.Toks(rh.Emit{Op: "Command"}, t)[0]
}
func eqStrs(a, b []string) bool {
	if len(a) != len(b) {
		return false
	}
	for i := range a {
		if a[i] != b[i] {
			return false
		}
	}
	return true
}

// explain: the two stored states have EQUAL real rule hashes and were obtained by changing attribute `name` of the
// definition. Returns the known defect class that explains it, or "" (then the collision is not explained by any listed
// finding). Each class is the statement "the strings ruleHash writes for this attribute, concatenated WITHOUT separators,
// are the same bytes", or "ruleHash does not read this attribute at all" for the three attributes it is known not to read.
func explain(name string, a, b *rh.T) string {
	listAttr := map[string][2][]string{
		"outs": {a.Outs, b.Outs}, "optional_outs": {a.OptionalOuts, b.OptionalOuts}, "labels": {a.Labels, b.Labels},
		"secrets": {a.Secrets, b.Secrets}, "output_dirs": {a.OutputDirs, b.OutputDirs}, "requires": {a.Requires, b.Requires},
	}
	if p, ok := listAttr[name]; ok {
		if join(p[0]) == join(p[1]) {
			return "list-entries-unframed"
		}
		return ""
	}
	switch name {
	case "srcs", "named_srcs", "srcs_labels":
		ta := append(clone(a.Srcs), groupToks(a.NamedSrcs, false)...)
		tb := append(clone(b.Srcs), groupToks(b.NamedSrcs, false)...)
		if !eqStrs(depToks(a.Deps), depToks(b.Deps)) {
			return ""
		}
		if eqStrs(ta, tb) {
			return "named-srcs-names-not-hashed"
		}
		if join(ta) == join(tb) {
			return "list-entries-unframed"
		}
	case "named_outs":
		if join(groupToks(a.NamedOuts, true)) == join(groupToks(b.NamedOuts, true)) {
			return "named-outs-unframed"
		}
	case "deps":
		if join(depToks(a.Deps)) == join(depToks(b.Deps)) {
			return "dep-labels-unframed"
		}
	case "tools":
		if eqStrs(depToks(a.Deps), depToks(b.Deps)) {
			return "tools-not-in-rule-hash"
		}
	case "named_secrets":
		return "named-secrets-not-in-rule-hash"
	case "env", "entry_points":
		ma, mb := a.Env, b.Env
		if name == "entry_points" {
			ma, mb = a.EntryPoints, b.EntryPoints
		}
		if join(mapToks(ma)) == join(mapToks(mb)) {
			return "hashmap-entries-unframed"
		}
	case "pass_env":
		if join(passEnvToks(a)) == join(passEnvToks(b)) {
			return "pass-env-unframed"
		}
	case "provides":
		if join(providesToks(a)) == join(providesToks(b)) {
			return "provides-unframed"
		}
	case "command":
		if effectiveCommand(a) == effectiveCommand(b) {
			return "not-a-change" // only a command for a configuration that is not selected changed: not build-relevant
		}
	}
	return ""
}

// relevantDiffers: does the pair differ in the build-relevant VALUE of the attribute (a recipe mutation may be a no-op
// after the adders normalise it: sorted deduplicated outs, trimmed licences, ...)?
func relevantDiffers(name string, a, b *rh.T) bool {
	ja, jb := lib.List([]string{a.Coq()}), lib.List([]string{b.Coq()})
	if ja == jb {
		return false
	}
	switch name {
	case "command":
		return effectiveCommand(a) != effectiveCommand(b)
	case "pass_env":
		return !eqStrs(passEnvToks(a), passEnvToks(b)) || a.HasPassEnv != b.HasPassEnv
	}
	return true
}

// ------------------------------------------------------------------------------------------- witnesses

type witness struct {
	class string
	attr  string
	what  string
	a, b  func(sp *rh.Spec)
}

func lbl(pkg, name string) rh.Label { return rh.Label{Pkg: pkg, Name: name} }

// The collisions proved in Props/C08.v (C08_refuted and the witness lemmas of Proof/C08.v), replayed on the real code.
var witnesses = []witness{
	{"list-entries-unframed", "outs", `outs ["ab","c"] and ["a","bc"] have the same rule hash`,
		func(sp *rh.Spec) { sp.Outs = []string{"ab", "c"} }, func(sp *rh.Spec) { sp.Outs = []string{"a", "bc"} }},
	{"list-entries-unframed", "labels", `labels ["a",""] and ["a"] have the same rule hash`,
		func(sp *rh.Spec) { sp.Labels = []string{"a", ""} }, func(sp *rh.Spec) { sp.Labels = []string{"a"} }},
	{"list-entries-unframed", "srcs", `srcs ["ab","c"] and ["a","bc"] have the same rule hash`,
		func(sp *rh.Spec) { sp.Srcs = fileInputs([]string{"ab", "c"}) }, func(sp *rh.Spec) { sp.Srcs = fileInputs([]string{"a", "bc"}) }},
	{"named-outs-unframed", "named_outs", `outs {"a":["b"],"c":["d"]} and {"a":["b","c","d"]} have the same rule hash`,
		func(sp *rh.Spec) {
			sp.NamedOuts = []rh.Group{{Key: "a", Vals: []string{"b"}}, {Key: "c", Vals: []string{"d"}}}
		},
		func(sp *rh.Spec) { sp.NamedOuts = []rh.Group{{Key: "a", Vals: []string{"b", "c", "d"}}} }},
	{"named-srcs-names-not-hashed", "named_srcs", `srcs {"a":["x"]} and {"b":["x"]} have the same rule hash ($SRCS_A becomes $SRCS_B)`,
		func(sp *rh.Spec) { sp.NamedSrcs = []rh.IGroup{{Key: "a", Vals: fileInputs([]string{"x"})}} },
		func(sp *rh.Spec) { sp.NamedSrcs = []rh.IGroup{{Key: "b", Vals: fileInputs([]string{"x"})}} }},
	{"hashmap-entries-unframed", "env", `env {"a":"b=c"} and {"a=b":"c"} have the same rule hash`,
		func(sp *rh.Spec) { sp.Env = []rh.KV{{K: "a", V: "b=c"}} }, func(sp *rh.Spec) { sp.Env = []rh.KV{{K: "a=b", V: "c"}} }},
	{"hashmap-entries-unframed", "entry_points", `entry_points {"a":"1","b":"2"} and {"a":"1b=2"} have the same rule hash`,
		func(sp *rh.Spec) { sp.EntryPoints = []rh.KV{{K: "a", V: "1"}, {K: "b", V: "2"}} },
		func(sp *rh.Spec) { sp.EntryPoints = []rh.KV{{K: "a", V: "1b=2"}} }},
	{"pass-env-unframed", "pass_env", `pass_env ["VERIF_A","VERIF_B"] with values ("", "xVERIF_B=") and ("VERIF_B=x", "") has the same rule hash`,
		func(sp *rh.Spec) {
			sp.HasPassEnv, sp.PassEnv = true, []string{"VERIF_A", "VERIF_B"}
			sp.Environ = []rh.KV{{K: "VERIF_A", V: ""}, {K: "VERIF_B", V: "xVERIF_B="}}
		},
		func(sp *rh.Spec) {
			sp.HasPassEnv, sp.PassEnv = true, []string{"VERIF_A", "VERIF_B"}
			sp.Environ = []rh.KV{{K: "VERIF_A", V: "VERIF_B=x"}, {K: "VERIF_B", V: ""}}
		}},
	{"dep-labels-unframed", "deps", `deps [//z:a, //z:b] and [//z:a//z:b] (one label) have the same rule hash`,
		func(sp *rh.Spec) { sp.Deps = []rh.Label{lbl("z", "a"), lbl("z", "b")} },
		func(sp *rh.Spec) { sp.Deps = []rh.Label{lbl("z", "a//z:b")} }},
	{"provides-unframed", "provides", `provides {"go":[//p:a],"py":[//p:b]} and {"go":[//p:a, //p:py//p:b]}-like boundary shift`,
		func(sp *rh.Spec) {
			sp.Provides = []rh.LGroup{{Key: "go", Vals: []rh.Label{lbl("p", "a")}}, {Key: "py", Vals: nil}}
		},
		func(sp *rh.Spec) { sp.Provides = []rh.LGroup{{Key: "go", Vals: []rh.Label{lbl("p", "apy")}}} }},
	{"tools-not-in-rule-hash", "tools", `tools ["/usr/bin/gzip"] and ["/usr/bin/gunzip"] (system tools) have the same rule hash`,
		func(sp *rh.Spec) { sp.Tools = []rh.Input{{Kind: "sys", File: "/usr/bin/gzip"}} },
		func(sp *rh.Spec) { sp.Tools = []rh.Input{{Kind: "sys", File: "/usr/bin/gunzip"}} }},
	{"tools-not-in-rule-hash", "tools", `tools [//t:x] and tools {"name": [//t:x]} have the same rule hash ($TOOL becomes $TOOLS_NAME)`,
		func(sp *rh.Spec) { sp.Tools = []rh.Input{{Kind: "label", L: lbl("t", "x")}} },
		func(sp *rh.Spec) {
			sp.NamedTools = []rh.IGroup{{Key: "name", Vals: []rh.Input{{Kind: "label", L: lbl("t", "x")}}}}
		}},
	{"named-secrets-not-in-rule-hash", "named_secrets", `secrets {"k":["/a"]} and {"k":["/b"]} have the same rule hash`,
		func(sp *rh.Spec) { sp.NamedSecrets = []rh.Group{{Key: "k", Vals: []string{"/a"}}} },
		func(sp *rh.Spec) { sp.NamedSecrets = []rh.Group{{Key: "k", Vals: []string{"/b"}}} }},
	{"adjacent-attributes-unframed", "optional_outs+labels", `optional_outs ["o","x"], labels ["l"] and optional_outs ["o"], labels ["x","l"] have the same rule hash`,
		func(sp *rh.Spec) { sp.OptionalOuts, sp.Labels = []string{"o", "x"}, []string{"l"} },
		func(sp *rh.Spec) { sp.OptionalOuts, sp.Labels = []string{"o"}, []string{"x", "l"} }},
	{"optional-bool-position-unframed", "sandbox+subrepo", `sandbox=True, subrepo=False and sandbox=False, subrepo=True have the same rule hash`,
		func(sp *rh.Spec) { sp.Sandbox, sp.Subrepo = true, false }, func(sp *rh.Spec) { sp.Sandbox, sp.Subrepo = false, true }},
	{"optional-bool-position-unframed", "sandbox+command", `sandbox=True, cmd="x" and sandbox=False, cmd="\x02x" have the same rule hash`,
		func(sp *rh.Spec) { sp.Sandbox, sp.Command = true, "x" }, func(sp *rh.Spec) { sp.Sandbox, sp.Command = false, "\x02x" }},
}

// ------------------------------------------------------------------------------------------- main

func nontrivial(t *rh.T) bool {
	n := 0
	for _, l := range [][]string{t.Srcs, t.Outs, t.OptionalOuts, t.Labels, t.Secrets, t.Requires, t.OutputDirs, t.Hashes, t.Licences} {
		if len(l) > 0 {
			n++
		}
	}
	maps := len(t.NamedSrcs) + len(t.NamedOuts) + len(t.Env) + len(t.EntryPoints) + len(t.Provides)
	return n >= 2 && maps >= 1
}

type pairJS struct {
	Attr  string   `json:"attr"`
	A     *rh.Spec `json:"a,omitempty"`
	B     *rh.Spec `json:"b,omitempty"`
	HashA string   `json:"hash_a"`
	HashB string   `json:"hash_b"`
	// histories (history.go): one recipe, then either one list of steps or two lists of changes made by the build
	Recipe *rh.Spec `json:"recipe,omitempty"`
	Steps  []step   `json:"steps,omitempty"`
	MutsA  []rh.Mut `json:"muts_a,omitempty"`
	MutsB  []rh.Mut `json:"muts_b,omitempty"`
	// store histories (store.go)
	StoreDefs  []*rh.Spec  `json:"store_defs,omitempty"`
	StoreSteps []storeStep `json:"store_steps,omitempty"`
}

func main() {
	lib.Main("C08", func(c *lib.Ctx) {
		c.Model("From PlzV Require Import Model.C08 Model.C08_Cache Model.C08_CacheTie Model.C08_Store Model.C08_Srcs Model.C08_StoreTie.", "C08_StoreTie.case", "C08_StoreTie.check")
		c.Rule("tie: random recipes (every attribute present with probability 1/2 or 7/8, 0-3 entries per list/map drawn from 26 adversarial " +
			"words: shared prefixes/suffixes, embedded '=', empty, \\x01/\\x02) performed on fresh core.BuildTarget values through the adders and public " +
			"fields; real build.RuleHash(state,t,runtime,false) must equal sha1 of the stream the Go interpreter of the regenerated emit program " +
			"writes for the stored state, and the Coq `ser prog` must equal that stream. oracle: pairs of recipes that differ in ONE attribute of C08's list, " +
			"the edit biased towards boundary shifts, real hashes compared. distinct = distinct stored states; non-trivial = >= 2 non-empty list " +
			"attributes and >= 1 non-empty map attribute. histories: ONE real target (3/4 with a post-build function or output_dirs) goes through " +
			"2-8 steps - real build.RuleHash(rt, postBuild) calls and changes made through the adders a post-build function uses (add_out, named add_out, " +
			"set_command, add_label, add_dep, add_entry_point, add_licence, optional out) - typically pre-build hash, changes, post-build hash, plus " +
			"changes before the first hash, repeated and runtime calls; every returned value is located among sha1(interpreted stream of a stored state seen so far) " +
			"and the Coq state machine (Model/C08_Cache.v, wrapper regenerated from RuleHash) must return the same stream; oracle: along histories the build can " +
			"produce, a post-build / runtime call (and any call on a target the build cannot modify) returns the hash of the CURRENT attributes (the unexported " +
			"ruleHash itself through the hook src/build/verif_c08.go, and RuleHash on a fresh object built from the current recipe); two copies of one target whose builds change the same attribute " +
			"differently get different post-build hashes unless the pair falls in a listed unframed class. srcs_labels pairs: srcs changes that keep the set of depended-on targets " +
			"(two label sources swapped, a label source moved to the other end, only the |annotation changed, a label that already is a dependency added to srcs). sources as inputs: for a third of the " +
			"tie targets the real Sources / NamedSources by kind (file, label, annotated label, system file) with the same stream, against ser_srcs with the regenerated loop guards. " +
			"store histories: 2-4 definitions of ONE target (edits of a first one: outputs dropped / added, command or labels changed, or unrelated) are built 3-7 times against ONE real " +
			"output directory (reverts to the definition built before the last one with probability 1/3, forced rebuilds, deleted files; the first history is v1 outs [a,b] / v2 outs [a] / v1): every step is a " +
			"fresh target, the REAL needsBuilding, then (if it says so) fresh output files, the real StoreTargetMetadata and the real writeRuleHash (real xattrs); the answers of needsBuilding and the " +
			"records found on every file at the end (located among sha1(stream) of the definitions) must equal the run of Model/C08_Store.v with the regenerated reader loop; oracle: needsBuilding answers " +
			"'unchanged' only if every output on disk was written by the build of a definition with the same real rule hash")
		prog := rh.LoadProg()

		var replay pairJS
		isReplay := c.ReadReplay(&replay)
		if isReplay && replay.StoreDefs != nil {
			c.Eval(replay, "replay", true)
			dir := storeDir(c, 0)
			res := runStore(prog, dir, replay.StoreDefs, replay.StoreSteps)
			os.RemoveAll(filepath.Join(c.Out, "store"))
			checkStore(c, replay.StoreDefs, replay.StoreSteps, res)
			return
		}
		if isReplay && replay.Recipe != nil {
			c.Eval(replay, "replay", true)
			if replay.Steps != nil {
				_, evs, lv := runHistory(prog, replay.Recipe, replay.Steps)
				checkHistory(c, replay.Recipe, replay.Steps, evs, lv)
			} else {
				checkPair(c, replay.Attr, replay.Recipe, replay.MutsA, replay.MutsB, false)
			}
			return
		}
		if isReplay && replay.A != nil && replay.B != nil {
			ha, ta := rh.Hash(replay.A, false)
			hb, tb := rh.Hash(replay.B, false)
			c.Oracle()
			c.Eval(replay, "replay", true)
			if bytes.Equal(ha, hb) && relevantDiffers(replay.Attr, ta, tb) {
				cls := explain(replay.Attr, ta, tb)
				if cls == "" {
					cls = "unexplained-collision-" + replay.Attr
				}
				if cls != "not-a-change" {
					c.Fail(cls, "replayed pair has equal rule hashes", replay)
				}
			}
			return
		}

		// ---- 1. tie + correspondence
		n := c.Scale(500, 12000)
		tieBroken := 0
		for i := 0; i < n; i++ {
			r := c.Rng.Fork()
			sp := genSpec(r, lib.Pick(r, []int{4, 4, 7}))
			rt := r.Chance(1, 3)
			lv := rh.Construct(sp)
			t := lv.ReadBack()
			real := lv.RuleHash(rt, false)
			stream := rh.Stream(prog, rt, t)
			js := map[string]any{"runtime": rt, "recipe": sp, "stored": t, "rule_hash": hex.EncodeToString(real)}
			if !bytes.Equal(rh.Sha1(stream), real) {
				// broken tie: the regenerated program, interpreted over the stored state, does not reproduce the real hash.
				// Recorded as a case the model side cannot satisfy, so that bin/check reports the correspondence as broken.
				tieBroken++
				js["tie"] = "sha1(interpreted stream) != build.RuleHash"
				stream = []byte("TIE BROKEN: sha1(interpreted stream) != build.RuleHash " + hex.EncodeToString(real))
			}
			c.Case(lib.App("SOld", lib.App("CRule", lib.App("CStream", lib.Bool(rt), t.Coq(), rh.Str(string(stream))))), js, t.Coq()+fmt.Sprint(rt), nontrivial(t))
			if i%3 == 0 { // the same target with its sources given by kind
				nlab := 0
				for _, s := range lv.T.AllSources() {
					if _, ok := s.Label(); ok {
						nlab++
					}
				}
				c.Case(srcsCoq(lv, t, rt, stream), js, "srcs|"+t.Coq()+fmt.Sprint(rt), nlab >= 1 && len(t.Srcs)+len(t.NamedSrcs) >= 2)
				c.HistN("srcs_label_inputs", nlab)
			}
			c.HistN("stream_len/32", len(stream)/32)
			c.Hist("runtime", fmt.Sprint(rt))
		}
		if tieBroken > 0 {
			c.Note("TIE BROKEN on %d of %d targets: sha1 of the interpreted stream differs from build.RuleHash", tieBroken, n)
		}

		// ---- 2. the witnesses of C08_refuted on the real code
		for _, w := range witnesses {
			base := &rh.Spec{Label: rh.Label{Pkg: "pkg", Name: "t"}, Command: "cmd", FallbackConfig: "opt"}
			a, b := base.Clone(), base.Clone()
			w.a(a)
			w.b(b)
			ha, ta := rh.Hash(a, false)
			hb, tb := rh.Hash(b, false)
			c.Oracle()
			js := pairJS{Attr: w.attr, A: a, B: b, HashA: hex.EncodeToString(ha), HashB: hex.EncodeToString(hb)}
			c.Eval(js, "w"+w.what, true)
			if ta.Coq() == tb.Coq() {
				c.Note("witness %q: the two recipes give the same stored state", w.what)
			} else if bytes.Equal(ha, hb) {
				c.Fail(w.class, w.what, js)
			} else {
				c.Note("witness not reproduced (hashes differ): %s", w.what)
			}
		}

		// ---- 3. oracle: one-attribute pairs
		m := c.Scale(4000, 100000)
		collisions := map[string]int{}
		for i := 0; i < m; i++ {
			r := c.Rng.Fork()
			at := attrs[i%len(attrs)]
			a := genSpec(r, lib.Pick(r, []int{2, 4, 7}))
			if at.prepare != nil {
				at.prepare(r, a)
			}
			// make sure the attribute is populated in the base recipe half of the time
			b := a.Clone()
			at.mutate(r, b)
			if r.Chance(1, 3) {
				a2 := b.Clone()
				at.mutate(r, a2)
				a = a2
			}
			ha, ta := rh.Hash(a, false)
			hb, tb := rh.Hash(b, false)
			if !relevantDiffers(at.name, ta, tb) {
				c.Hist("pair", "no-op")
				continue
			}
			c.Oracle()
			js := pairJS{Attr: at.name, A: a, B: b, HashA: hex.EncodeToString(ha), HashB: hex.EncodeToString(hb)}
			c.Eval(js, ta.Coq()+"|"+tb.Coq(), nontrivial(ta) || nontrivial(tb))
			c.Hist("pair_attr", at.name)
			if bytes.Equal(ha, hb) {
				cls := explain(at.name, ta, tb)
				if cls == "" {
					cls = "unexplained-collision-" + at.name
				}
				collisions[cls]++
				c.Hist("collision", cls)
				c.Fail(cls, fmt.Sprintf("two definitions that differ in %s have the same rule hash %s", at.name, hex.EncodeToString(ha)), js)
				// the post-build variant of the hash is the same function
			} else {
				c.Hist("collision", "none")
			}
		}
		keys := lib.SortedKeys(collisions)
		for _, k := range keys {
			c.Note("oracle: %d colliding one-attribute pairs of class %s", collisions[k], k)
		}

		// ---- 4. histories on one target: RuleHash's memo against changes made by the build
		histories(c, prog)

		// ---- 5. the stored rule hash: histories of builds of several definitions against one output directory
		stores(c, prog)
	})
}
