// C08, the STORED rule hash and sources as BuildInputs.
//
// 1. Histories of builds of several definitions of ONE target against ONE output directory, performed with the real
// needsBuilding / writeRuleHash / StoreTargetMetadata on real files carrying real extended attributes: an edit of the BUILD
// file that drops an output leaves the file behind with the record of the older definition; reverting the edit must still
// be noticed (readRuleHashFromXattrs accepts a record only if ALL outputs carry the same one). Implementation side of the
// correspondence with Model/C08_Store.v and a model-independent oracle: needsBuilding may answer "unchanged" only if every
// output on disk was written by a build of a definition with the same real rule hash.
//
// 2. One-attribute pairs in which srcs changes while the SET of depended-on targets stays the same (order of label sources,
// |annotation, a label added to srcs that already is a dependency), and the correspondence of Model/C08_Srcs.v.
package main

import (
	"bytes"
	"encoding/hex"
	"fmt"
	"os"
	"path/filepath"

	"verifharness/cmd/c08/rh"
	"verifharness/lib"

	"github.com/thought-machine/please/src/build"
	"github.com/thought-machine/please/src/core"
	"github.com/thought-machine/please/src/fs"
)

// ------------------------------------------------------------------------------------------- store histories

type storeStep struct {
	Def    int    `json:"def"`
	Force  bool   `json:"force,omitempty"`
	Remove string `json:"remove,omitempty"` // delete this output file instead of building
}

type storeJS struct {
	Kind  string      `json:"kind"` // "store"
	Defs  []*rh.Spec  `json:"store_defs"`
	Steps []storeStep `json:"store_steps"`
}

type storeEv struct {
	remove      string
	t           *rh.T
	force, need bool
}

var storeOuts = []string{"a", "b", "c", "d", "sub/e", "ab"}

func storeDef(r *lib.Rng, n int, binary bool) *rh.Spec {
	sp := &rh.Spec{Label: rh.Label{Pkg: "pkg", Name: "st"}, FallbackConfig: "opt", Binary: binary,
		Command: fmt.Sprintf("echo v%d > $OUT", n)}
	outs := append([]string{}, storeOuts...)
	lib.Shuffle(r, outs)
	outs = outs[:r.Range(1, 4)]
	for _, o := range outs {
		if r.Chance(1, 5) {
			sp.NamedOuts = append(sp.NamedOuts, rh.Group{Key: lib.Pick(r, []string{"g", "h"}), Vals: []string{o}})
		} else {
			sp.Outs = append(sp.Outs, o)
		}
	}
	if r.Chance(1, 4) {
		sp.Labels = []string{word(r, true)}
	}
	return sp
}

// edit: another definition of the same target, derived from sp the way an edit of the BUILD file would
func storeEdit(r *lib.Rng, sp *rh.Spec, n int) *rh.Spec {
	out := sp.Clone()
	out.Command = fmt.Sprintf("echo v%d > $OUT", n)
	all := append([]string{}, out.Outs...)
	switch r.Intn(5) {
	case 0, 1: // drop declared outputs (keep at least one)
		if len(all) >= 2 {
			lib.Shuffle(r, all)
			keep := all[:r.Range(1, len(all)-1)]
			out.Outs = keep
		}
	case 2: // declare a further output
		out.Outs = append(out.Outs, lib.Pick(r, storeOuts))
	case 3: // only the command changes
	case 4: // same command, another label
		out.Command = sp.Command
		out.Labels = append(out.Labels, "l"+fmt.Sprint(n))
	}
	return out
}

func genStore(r *lib.Rng) ([]*rh.Spec, []storeStep) {
	binary := r.Chance(1, 4)
	defs := []*rh.Spec{storeDef(r, 1, binary)}
	for n := r.Range(1, 3); len(defs) <= n; {
		if r.Chance(1, 4) {
			defs = append(defs, storeDef(r, len(defs)+1, binary))
		} else {
			defs = append(defs, storeEdit(r, lib.Pick(r, defs), len(defs)+1))
		}
	}
	steps := []storeStep{{Def: 0}}
	for i, n := 0, r.Range(2, 6); i < n; i++ {
		switch {
		case r.Chance(1, 10):
			steps = append(steps, storeStep{Remove: lib.Pick(r, storeOuts)})
		case r.Chance(1, 3) && len(steps) >= 2: // revert: the definition built before the last one
			prev := 0
			for j := len(steps) - 2; j >= 0; j-- {
				if steps[j].Remove == "" {
					prev = steps[j].Def
					break
				}
			}
			steps = append(steps, storeStep{Def: prev})
		default:
			steps = append(steps, storeStep{Def: r.Intn(len(defs)), Force: r.Chance(1, 8)})
		}
	}
	return defs, steps
}

// the history of seeded shape "edit drops an output, edit is reverted"
func fixedStore() ([]*rh.Spec, []storeStep) {
	v1 := &rh.Spec{Label: rh.Label{Pkg: "pkg", Name: "st"}, FallbackConfig: "opt", Command: "echo v1 > a && echo v1 > b", Outs: []string{"a", "b"}}
	v2 := &rh.Spec{Label: rh.Label{Pkg: "pkg", Name: "st"}, FallbackConfig: "opt", Command: "echo v2 > a", Outs: []string{"a"}}
	return []*rh.Spec{v1, v2}, []storeStep{{Def: 0}, {Def: 1}, {Def: 0}}
}

type storeResult struct {
	evs     []storeEv
	final   [][2]string // path, stream ("" = none)
	hasRec  []bool
	stale   string // non-empty: the oracle failed, description
	staleAt int
}

// runStore performs the history in a fresh directory (the process works in it for the duration: needsBuilding and
// writeRuleHash use paths relative to the repository root).
func runStore(prog []rh.Emit, dir string, defs []*rh.Spec, steps []storeStep) storeResult {
	res := storeResult{staleAt: -1}
	old, err := os.Getwd()
	if err != nil {
		panic(err)
	}
	if err := os.Chdir(dir); err != nil {
		panic(err)
	}
	defer func() {
		if err := os.Chdir(old); err != nil {
			panic(err)
		}
	}()
	st := rh.State()
	st.Hashes.Config = rh.Sha1([]byte("config"))
	// extended attributes if the file system of the run directory has them (the default configuration), else the side files
	// (.rule_hash_<name>) Please falls back to
	st.XattrsSupported = fs.RecordAttr(".", []byte("probe"), "user.verif_probe", true) == nil
	hashes := make([][]byte, len(defs))
	streams := make([][]byte, len(defs))
	for i, d := range defs {
		h, t := rh.Hash(d.Clone(), false)
		hashes[i], streams[i] = append([]byte{}, h...), rh.Stream(prog, false, t)
	}
	producer := map[string]int{} // output path (relative to the output directory) -> definition whose build wrote the file
	paths, seenPath := []string{}, map[string]bool{}
	outDir := ""
	for si, s := range steps {
		if s.Remove != "" {
			if outDir != "" {
				os.Remove(filepath.Join(outDir, s.Remove))
				if !st.XattrsSupported { // the record of a deleted file goes with it
					d, f := filepath.Split(filepath.Join(outDir, s.Remove))
					os.Remove(d + ".rule_hash_" + f)
				}
			}
			delete(producer, s.Remove)
			res.evs = append(res.evs, storeEv{remove: s.Remove})
			if !seenPath[s.Remove] {
				seenPath[s.Remove] = true
				paths = append(paths, s.Remove)
			}
			continue
		}
		lv := rh.Construct(defs[s.Def].Clone()) // a fresh parse of the BUILD file
		t := lv.T
		outDir = t.OutDir()
		need := build.VerifC08NeedsBuilding(st, t, false)
		res.evs = append(res.evs, storeEv{t: lv.ReadBack(), force: s.Force, need: need})
		outs := t.Outputs()
		for _, o := range outs {
			if !seenPath[o] {
				seenPath[o] = true
				paths = append(paths, o)
			}
		}
		if !need && res.stale == "" {
			for _, o := range outs {
				if p, ok := producer[o]; !ok {
					res.stale, res.staleAt = fmt.Sprintf("output %s is not on disk", o), si
				} else if !bytes.Equal(hashes[p], hashes[s.Def]) {
					res.stale, res.staleAt = fmt.Sprintf("output %s was written by the build of definition %d (rule hash %x), the definition now is %d (rule hash %x)",
						o, p, hashes[p], s.Def, hashes[s.Def]), si
				}
			}
		}
		if need || s.Force {
			for _, o := range outs {
				p := filepath.Join(outDir, o)
				if err := os.RemoveAll(p); err != nil {
					panic(err)
				}
				if err := os.MkdirAll(filepath.Dir(p), 0o755); err != nil {
					panic(err)
				}
				if err := os.WriteFile(p, []byte(fmt.Sprintf("definition %d\n", s.Def)), 0o644); err != nil {
					panic(err)
				}
				producer[o] = s.Def
			}
			if err := build.StoreTargetMetadata(t, &core.BuildMetadata{}); err != nil {
				panic(err)
			}
			if err := build.VerifC08WriteRuleHash(st, t); err != nil {
				panic(err)
			}
		}
	}
	for _, p := range paths {
		rec := fs.ReadAttr(filepath.Join(outDir, p), build.VerifC08XattrName, st.XattrsSupported)
		stream, has := "", false
		if len(rec) >= 20 {
			has = true
			stream = "RECORD OF NO DEFINITION OF THIS HISTORY: " + hex.EncodeToString(rec[:20])
			for i := range defs {
				if bytes.Equal(hashes[i], rec[:20]) {
					stream = string(streams[i])
					break
				}
			}
		}
		res.final = append(res.final, [2]string{p, stream})
		res.hasRec = append(res.hasRec, has)
	}
	return res
}

func storeCoq(res storeResult) string {
	evs := []string{}
	for _, e := range res.evs {
		if e.t == nil {
			evs = append(evs, lib.App("SRemove", rh.Str(e.remove)))
		} else {
			evs = append(evs, lib.App("SBuild", e.t.Coq(), lib.Bool(e.force), lib.Bool(e.need)))
		}
	}
	fin := []string{}
	for i, pf := range res.final {
		fin = append(fin, lib.Pair(rh.Str(pf[0]), lib.Opt(res.hasRec[i], rh.Str(pf[1]))))
	}
	return lib.App("SStore", lib.List(evs), lib.List(fin))
}

func checkStore(c *lib.Ctx, defs []*rh.Spec, steps []storeStep, res storeResult) {
	c.Oracle()
	if res.stale != "" {
		c.Fail("changed-definition-accepted-on-leftover-output-record",
			fmt.Sprintf("step %d: needsBuilding answered 'unchanged' although %s", res.staleAt, res.stale),
			storeJS{Kind: "store", Defs: defs, Steps: steps})
	}
}

func storeDir(c *lib.Ctx, i int) string {
	dir := filepath.Join(c.Out, "store", fmt.Sprint(i))
	if err := os.MkdirAll(dir, 0o755); err != nil {
		panic(err)
	}
	abs, err := filepath.Abs(dir)
	if err != nil {
		panic(err)
	}
	return abs
}

func stores(c *lib.Ctx, prog []rh.Emit) {
	n, nCases := c.Scale(400, 10000), c.Scale(100, 2000)
	defer os.RemoveAll(filepath.Join(c.Out, "store"))
	for i := 0; i < n; i++ {
		r := c.Rng.Fork()
		var defs []*rh.Spec
		var steps []storeStep
		if i == 0 {
			defs, steps = fixedStore()
		} else {
			defs, steps = genStore(r)
		}
		dir := storeDir(c, i)
		res := runStore(prog, dir, defs, steps)
		os.RemoveAll(dir)
		term := storeCoq(res)
		builds, reused, leftovers := 0, 0, 0
		for _, e := range res.evs {
			if e.t != nil {
				builds++
				if !e.need {
					reused++
				}
			}
		}
		js := storeJS{Kind: "store", Defs: defs, Steps: steps}
		nontriv := len(defs) >= 2 && builds >= 3
		if i < nCases {
			c.Case(term, js, term, nontriv)
		} else {
			c.Eval(js, term, nontriv)
		}
		checkStore(c, defs, steps, res)
		for _, h := range res.hasRec {
			if h {
				leftovers++
			}
		}
		c.Hist("store_records_in", map[bool]string{true: "xattr", false: "side-file"}[rh.State().XattrsSupported])
		c.HistN("store_builds", builds)
		c.HistN("store_reused", reused)
		c.HistN("store_files_with_record", leftovers)
	}
}

// ------------------------------------------------------------------------------------------- sources as inputs

func isLabelKind(i rh.Input) bool { return i.Kind == "label" || i.Kind == "ann" }

// prepareSrcLabels: the base recipe gets at least two label sources and one declared dependency
func prepareSrcLabels(r *lib.Rng, sp *rh.Spec) {
	n := 0
	for _, s := range sp.Srcs {
		if isLabelKind(s) {
			n++
		}
	}
	for ; n < 2; n++ {
		in := rh.Input{Kind: "label", L: label(r)}
		if r.Chance(1, 3) {
			in = rh.Input{Kind: "ann", L: label(r), Ann: lib.Pick(r, []string{"hdrs", "srcs", "a"})}
		}
		k := r.Intn(len(sp.Srcs) + 1)
		sp.Srcs = append(append(append([]rh.Input{}, sp.Srcs[:k]...), in), sp.Srcs[k:]...)
	}
	if len(sp.Deps) == 0 {
		sp.Deps = []rh.Label{label(r)}
	}
}

// mutateSrcLabels: a change of srcs that keeps the set of depended-on targets
func mutateSrcLabels(r *lib.Rng, sp *rh.Spec) {
	idx := []int{}
	for i, s := range sp.Srcs {
		if isLabelKind(s) {
			idx = append(idx, i)
		}
	}
	if len(idx) == 0 {
		prepareSrcLabels(r, sp)
		return
	}
	sp.Srcs = append([]rh.Input{}, sp.Srcs...)
	switch r.Intn(4) {
	case 0: // swap two label sources
		if len(idx) >= 2 {
			i, j := idx[r.Intn(len(idx))], idx[r.Intn(len(idx))]
			sp.Srcs[i], sp.Srcs[j] = sp.Srcs[j], sp.Srcs[i]
			return
		}
		fallthrough
	case 1: // the annotation only
		i := idx[r.Intn(len(idx))]
		in := sp.Srcs[i]
		if in.Kind == "label" || r.Bool() {
			sp.Srcs[i] = rh.Input{Kind: "ann", L: in.L, Ann: lib.Pick(r, []string{"hdrs", "srcs", "x"}) + in.Ann}
		} else {
			sp.Srcs[i] = rh.Input{Kind: "label", L: in.L}
		}
	case 2: // a label that already is a declared dependency (deps, or another source) becomes a source
		var l rh.Label
		if len(sp.Deps) > 0 && r.Chance(2, 3) {
			l = lib.Pick(r, sp.Deps)
		} else {
			l = sp.Srcs[idx[r.Intn(len(idx))]].L
		}
		k := r.Intn(len(sp.Srcs) + 1)
		sp.Srcs = append(append(append([]rh.Input{}, sp.Srcs[:k]...), rh.Input{Kind: "label", L: l}), sp.Srcs[k:]...)
	case 3: // a label source moves to the other end
		i := idx[r.Intn(len(idx))]
		in := sp.Srcs[i]
		rest := append(append([]rh.Input{}, sp.Srcs[:i]...), sp.Srcs[i+1:]...)
		if i == 0 {
			sp.Srcs = append(rest, in)
		} else {
			sp.Srcs = append([]rh.Input{in}, rest...)
		}
	}
}

func coqInput(i core.BuildInput) string {
	switch x := i.(type) {
	case core.FileLabel:
		return lib.App("IFile", rh.Str(x.File))
	case core.BuildLabel:
		return lib.App("ILabel", rh.CoqLabel(rh.FromCore(x)))
	case core.AnnotatedOutputLabel:
		return lib.App("IAnn", rh.CoqLabel(rh.FromCore(x.BuildLabel)), rh.Str(x.Annotation))
	case core.SystemFileLabel:
		return lib.App("ISys", rh.Str(x.Path))
	}
	return lib.App("IFile", rh.Str("INPUT KIND UNKNOWN TO THE MODEL: "+i.String()))
}

// srcsCoq: the SSrcs case of a live target: its sources by kind (named groups in the order of the read-back)
func srcsCoq(lv *rh.Live, t *rh.T, rt bool, stream []byte) string {
	ins := []string{}
	for _, s := range lv.T.Sources {
		ins = append(ins, coqInput(s))
	}
	named := []string{}
	for _, g := range t.NamedSrcs {
		vals := []string{}
		for _, s := range lv.T.NamedSources[g.Key] {
			vals = append(vals, coqInput(s))
		}
		named = append(named, lib.Pair(rh.Str(g.Key), lib.List(vals)))
	}
	return lib.App("SSrcs", lib.Bool(rt), t.Coq(), lib.List(ins), lib.List(named), rh.Str(string(stream)))
}
